import Chain33Model.Proofs.C24
/-!
C24 — the queue refines a stable sorted list.  Core Lean only.
-/
namespace C24

/-! ### reference: stable sorted list with capacity -/

/-- stable insert: behind every item whose score is ≥ the new one -/
def specInsert (l : List Item) (it : Item) : List Item :=
  l.takeWhile (fun x => decide (x.score ≥ it.score)) ++ it :: l.dropWhile (fun x => decide (x.score ≥ it.score))

def specRemove (l : List Item) (k : Nat) : List Item := l.eraseP (fun x => decide (x.id = k))

/-- `Push` on the reference list: duplicate ids are refused; when full the newcomer is admitted only
if it ranks strictly higher than the last item (higher score, or equal score and the `Scorer`'s own
tie-break says `Big`), and then exactly the last item is evicted. -/
def specPush (cap : Int) (l : List Item) (it : Item) : List Item × Res :=
  if l.any (fun x => decide (x.id = it.id)) then (l, .exist)
  else if (l.length : Int) ≥ cap then
    match l.getLast? with
    | none => (l, .panic)
    | some tail =>
      if it.score > tail.score ∨ (it.score = tail.score ∧ it.cmpBig tail = true) then
        (specInsert l.dropLast it, .ok)
      else (l, .full)
  else (specInsert l it, .ok)

/-! ### generic list lemmas -/

theorem takeWhile_append_all {p : α → Bool} (A X : List α) (h : ∀ a ∈ A, p a = true) :
    (A ++ X).takeWhile p = A ++ X.takeWhile p := by
  induction A with
  | nil => rfl
  | cons a rest ih =>
    rw [List.cons_append, List.takeWhile_cons, h a (by simp)]
    simp only [if_true]
    rw [ih (fun x hx => h x (by simp [hx]))]; rfl

theorem dropWhile_append_all {p : α → Bool} (A X : List α) (h : ∀ a ∈ A, p a = true) :
    (A ++ X).dropWhile p = X.dropWhile p := by
  induction A with
  | nil => rfl
  | cons a rest ih =>
    rw [List.cons_append, List.dropWhile_cons, h a (by simp)]
    simp only [if_true]
    exact ih (fun x hx => h x (by simp [hx]))

theorem takeWhile_none {p : α → Bool} (X : List α) (h : ∀ a ∈ X, p a = false) :
    X.takeWhile p = [] := by
  cases X with
  | nil => rfl
  | cons a rest => rw [List.takeWhile_cons, h a (by simp)]; rfl

theorem dropWhile_none {p : α → Bool} (X : List α) (h : ∀ a ∈ X, p a = false) :
    X.dropWhile p = X := by
  cases X with
  | nil => rfl
  | cons a rest => rw [List.dropWhile_cons, h a (by simp)]; rfl

/-- splitting at a threshold: everything in `A` passes, everything in `B` fails -/
theorem takeWhile_split {p : α → Bool} (A B : List α) (hA : ∀ a ∈ A, p a = true)
    (hB : ∀ a ∈ B, p a = false) : (A ++ B).takeWhile p = A ∧ (A ++ B).dropWhile p = B := by
  rw [takeWhile_append_all A B hA, dropWhile_append_all A B hA, takeWhile_none B hB, dropWhile_none B hB]
  simp

/-! ### items of a node list -/

def itemsOf (nodes : List (Node (List Item))) : List Item := nodes.flatMap (·.val)

theorem items_def (q : Queue) : q.items = itemsOf q.sl.nodes := rfl

theorem itemsOf_append (A B : List (Node (List Item))) : itemsOf (A ++ B) = itemsOf A ++ itemsOf B := by
  simp [itemsOf]

theorem itemsOf_cons (n : Node (List Item)) (B : List (Node (List Item))) :
    itemsOf (n :: B) = n.val ++ itemsOf B := by
  simp [itemsOf]

theorem mem_itemsOf {nodes : List (Node (List Item))} {it : Item} :
    it ∈ itemsOf nodes ↔ ∃ n ∈ nodes, it ∈ n.val := by
  simp [itemsOf]

/-- invariant of the queue representation -/
structure QueueInv (q : Queue) : Prop where
  lanes : LanesInv q.sl
  /-- one skip-list node per score -/
  strict : q.sl.nodes.Pairwise (fun a b => a.score > b.score)
  /-- buckets are non-empty and hold items of the node's score -/
  bucket : ∀ n ∈ q.sl.nodes, n.val ≠ [] ∧ ∀ it ∈ n.val, it.score = n.score
  ids : (q.items.map (·.id)).Nodup
  mapKeys : ∀ p ∈ q.map, p.1 = p.2.id
  mapPerm : (q.map.map (·.2)).Perm q.items
  bytes : q.bytes = (q.items.map (·.size)).sum

theorem strict_unique {nodes : List (Node (List Item))}
    (h : nodes.Pairwise (fun a b => a.score > b.score)) {m n : Node (List Item)}
    (hm : m ∈ nodes) (hn : n ∈ nodes) (hs : m.score = n.score) : m = n := by
  induction nodes with
  | nil => cases hm
  | cons a rest ih =>
    have ha := (List.pairwise_cons.mp h).1
    have hr := (List.pairwise_cons.mp h).2
    rcases List.mem_cons.mp hm with rfl | hm' <;> rcases List.mem_cons.mp hn with rfl | hn'
    · rfl
    · have := ha n hn'; omega
    · have := ha m hm'; omega
    · exact ih hr hm' hn'

/-- decomposition of the node list around a score that is present -/
structure Around (nodes : List (Node (List Item))) (s : Int) (A : List (Node (List Item)))
    (n : Node (List Item)) (B : List (Node (List Item))) : Prop where
  eq : nodes = A ++ n :: B
  score : n.score = s
  above : ∀ a ∈ A, a.score > s
  below : ∀ b ∈ B, b.score < s

theorem find_some_around (q : Queue) (inv : QueueInv q) (s : Int) (n : Node (List Item))
    (h : q.sl.find s = some n) :
    Around q.sl.nodes s (q.sl.nodes.take (q.sl.findPos s)) n (q.sl.nodes.drop (q.sl.findPos s + 1)) ∧
    q.sl.nodes.drop (q.sl.findPos s) = n :: q.sl.nodes.drop (q.sl.findPos s + 1) := by
  have hsp := split_gt q.sl inv.lanes s
  unfold SkipList.find at h
  have hex : ∃ B, q.sl.nodes.drop (q.sl.findPos s) = n :: B ∧ n.score = s := by
    generalize q.sl.nodes.drop (q.sl.findPos s) = D at h
    cases D with
    | nil => simp at h
    | cons x B =>
      simp only at h
      split at h
      · rename_i hs; injection h with h; subst h; exact ⟨B, rfl, hs⟩
      · simp at h
  obtain ⟨B, hD, hs⟩ := hex
  have hB : q.sl.nodes.drop (q.sl.findPos s + 1) = B := by
    rw [← List.drop_drop, hD]; rfl
  rw [hB]
  refine ⟨⟨?_, hs, ?_, ?_⟩, hD⟩
  · conv => lhs; rw [← List.take_append_drop (q.sl.findPos s) q.sl.nodes]
    rw [hD]
  · intro a ha
    rw [hsp.1] at ha
    simpa using (mem_takeWhile_imp ha).1
  · intro b hb
    have hsub : (n :: B).Sublist q.sl.nodes := by rw [← hD]; exact List.drop_sublist _ _
    have := List.Pairwise.sublist hsub inv.strict
    have := (List.pairwise_cons.mp this).1 b hb
    omega

theorem find_none_absent (q : Queue) (inv : QueueInv q) (s : Int) (h : q.sl.find s = none) :
    ∀ n ∈ q.sl.nodes, n.score ≠ s := by
  rw [find_eq q.sl inv.lanes s, List.find?_eq_none] at h
  intro n hn hs
  exact h n hn (by simpa using hs)

/-! ### the invariant only depends on scores and levels -/

def shape (nodes : List (Node (List Item))) : List (Int × Nat) := nodes.map (fun n => (n.score, n.level))

theorem desc_iff_shape (nodes : List (Node (List Item))) :
    Desc nodes ↔ (shape nodes).Pairwise (fun a b => a.1 ≥ b.1) := by
  unfold Desc shape; rw [List.pairwise_map]

theorem strict_iff_shape (nodes : List (Node (List Item))) :
    nodes.Pairwise (fun a b => a.score > b.score) ↔ (shape nodes).Pairwise (fun a b => a.1 > b.1) := by
  unfold shape; rw [List.pairwise_map]

theorem lanesInv_of_shape (sl sl' : SkipList (List Item)) (hs : shape sl'.nodes = shape sl.nodes)
    (hl : sl'.level = sl.level) (inv : LanesInv sl) : LanesInv sl' := by
  have hmem : ∀ n' ∈ sl'.nodes, ∃ n ∈ sl.nodes, n.score = n'.score ∧ n.level = n'.level := by
    intro n' hn'
    have : (n'.score, n'.level) ∈ shape sl'.nodes := List.mem_map.mpr ⟨n', hn', rfl⟩
    rw [hs] at this
    obtain ⟨n, hn, he⟩ := List.mem_map.mp this
    injection he with h1 h2
    exact ⟨n, hn, h1, h2⟩
  have hmem' : ∀ n ∈ sl.nodes, ∃ n' ∈ sl'.nodes, n'.score = n.score ∧ n'.level = n.level := by
    intro n hn
    have : (n.score, n.level) ∈ shape sl.nodes := List.mem_map.mpr ⟨n, hn, rfl⟩
    rw [← hs] at this
    obtain ⟨n', hn', he⟩ := List.mem_map.mp this
    injection he with h1 h2
    exact ⟨n', hn', h1, h2⟩
  refine ⟨?_, by rw [hl]; exact inv.level_pos, ?_, ?_⟩
  · rw [desc_iff_shape, hs, ← desc_iff_shape]; exact inv.sorted
  · intro n' hn'
    obtain ⟨n, hn, _, h2⟩ := hmem n' hn'
    have := inv.node_level n hn
    rw [hl]; omega
  · rw [hl]
    rcases inv.top with h | ⟨n, hn, h⟩
    · left; exact h
    · right
      obtain ⟨n', hn', _, h2⟩ := hmem' n hn
      exact ⟨n', hn', by omega⟩

theorem setValAt_around (nodes A B : List (Node (List Item))) (n : Node (List Item)) (p : Nat)
    (hA : nodes.take p = A) (hD : nodes.drop p = n :: B) (v : List Item) :
    setValAt nodes p v = A ++ { n with val := v } :: B := by
  unfold setValAt
  rw [hD, hA]

theorem shape_setVal (A B : List (Node (List Item))) (n : Node (List Item)) (v : List Item) :
    shape (A ++ { n with val := v } :: B) = shape (A ++ n :: B) := by
  simp [shape]

/-! ### threshold split of the items follows the split of the nodes -/

theorem items_split (nodes : List (Node (List Item))) (hd : Desc nodes)
    (hb : ∀ n ∈ nodes, ∀ it ∈ n.val, it.score = n.score) (s : Int) :
    (itemsOf nodes).takeWhile (fun x => decide (x.score ≥ s))
        = itemsOf (nodes.takeWhile (fun n => decide (n.score ≥ s))) ∧
    (itemsOf nodes).dropWhile (fun x => decide (x.score ≥ s))
        = itemsOf (nodes.dropWhile (fun n => decide (n.score ≥ s))) := by
  have hsplit := List.takeWhile_append_dropWhile (p := fun n : Node (List Item) => decide (n.score ≥ s)) (l := nodes)
  have hS := desc_dropWhile_nonadv _ (upClosed_ge s) nodes hd
  have h1 : ∀ x ∈ itemsOf (nodes.takeWhile (fun n => decide (n.score ≥ s))), decide (x.score ≥ s) = true := by
    intro x hx
    obtain ⟨n, hn, hxn⟩ := mem_itemsOf.mp hx
    have := mem_takeWhile_imp hn
    rw [hb n this.2 x hxn]; exact this.1
  have h2 : ∀ x ∈ itemsOf (nodes.dropWhile (fun n => decide (n.score ≥ s))), decide (x.score ≥ s) = false := by
    intro x hx
    obtain ⟨n, hn, hxn⟩ := mem_itemsOf.mp hx
    rw [hb n ((List.dropWhile_sublist _).subset hn) x hxn]; exact hS n hn
  have := takeWhile_split _ _ h1 h2
  rw [← itemsOf_append, hsplit] at this
  exact this

/-- `insertSkipValue` keeps the representation invariant and is the stable sorted insert. -/
theorem insertSkipValue_spec (q : Queue) (inv : QueueInv q) (it : Item) (lvl : Nat) (hl : 1 ≤ lvl) :
    LanesInv (q.insertSkipValue it lvl) ∧
    (q.insertSkipValue it lvl).nodes.Pairwise (fun a b => a.score > b.score) ∧
    (∀ n ∈ (q.insertSkipValue it lvl).nodes, n.val ≠ [] ∧ ∀ x ∈ n.val, x.score = n.score) ∧
    itemsOf (q.insertSkipValue it lvl).nodes = specInsert q.items it := by
  have hbs : ∀ n ∈ q.sl.nodes, ∀ x ∈ n.val, x.score = n.score := fun n hn => (inv.bucket n hn).2
  have hsp := items_split q.sl.nodes inv.lanes.sorted hbs it.score
  unfold Queue.insertSkipValue
  cases hf : q.sl.find it.score with
  | none =>
    simp only
    have habs := find_none_absent q inv it.score hf
    have hn := insert_nodes q.sl inv.lanes it.score [it] lvl
    refine ⟨lanesInv_insert q.sl inv.lanes it.score [it] lvl hl, ?_, ?_, ?_⟩
    · rw [hn]
      unfold sortedInsert
      have hsplit := List.takeWhile_append_dropWhile (p := fun x : Node (List Item) => decide (x.score ≥ it.score)) (l := q.sl.nodes)
      have hst := inv.strict
      rw [← hsplit, List.pairwise_append] at hst
      have hS := desc_dropWhile_nonadv _ (upClosed_ge it.score) q.sl.nodes inv.lanes.sorted
      rw [List.pairwise_append]
      refine ⟨hst.1, ?_, ?_⟩
      · rw [List.pairwise_cons]
        refine ⟨?_, hst.2.1⟩
        intro b hb
        have := hS b hb
        simp at this ⊢; omega
      · intro a ha x hx
        rcases List.mem_cons.mp hx with rfl | hx
        · have h1 := mem_takeWhile_imp ha
          have h2 := habs a h1.2
          have h3 := h1.1
          simp at h3 ⊢; omega
        · exact hst.2.2 a ha x hx
    · intro n hmem
      rw [hn] at hmem
      rcases mem_sortedInsert.mp hmem with rfl | hmem
      · simp
      · exact inv.bucket n hmem
    · rw [hn]
      unfold sortedInsert specInsert
      rw [itemsOf_append, itemsOf_cons, items_def, hsp.1, hsp.2]
      simp
  | some n =>
    simp only
    obtain ⟨har, hD⟩ := find_some_around q inv it.score n hf
    have hset := setValAt_around q.sl.nodes _ _ n (q.sl.findPos it.score) rfl hD (n.val ++ [it])
    rw [hset]
    generalize q.sl.nodes.take (q.sl.findPos it.score) = A at *
    generalize q.sl.nodes.drop (q.sl.findPos it.score + 1) = B at *
    have hshape := shape_setVal A B n (n.val ++ [it])
    have hnmem : n ∈ q.sl.nodes := by rw [har.eq]; simp
    refine ⟨?_, ?_, ?_, ?_⟩
    · exact lanesInv_of_shape q.sl _ (by simp only; rw [hshape, har.eq]) rfl inv.lanes
    · rw [strict_iff_shape, hshape, ← har.eq, ← strict_iff_shape]; exact inv.strict
    · intro m hm
      simp only [List.mem_append, List.mem_cons] at hm
      rcases hm with hm | rfl | hm
      · exact inv.bucket m (by rw [har.eq]; simp [hm])
      · refine ⟨by simp, ?_⟩
        intro x hx
        simp only [List.mem_append, List.mem_singleton] at hx
        rcases hx with hx | rfl
        · exact (inv.bucket n hnmem).2 x hx
        · exact har.score.symm
      · exact inv.bucket m (by rw [har.eq]; simp [hm])
    · -- the node split at `≥ score` is `A ++ [n]` / `B`
      have hP : ∀ a ∈ A ++ [n], decide (a.score ≥ it.score) = true := by
        intro a ha
        simp only [List.mem_append, List.mem_singleton] at ha
        rcases ha with ha | rfl
        · have := har.above a ha; simp; omega
        · have := har.score; simp; omega
      have hS : ∀ b ∈ B, decide (b.score ≥ it.score) = false := by
        intro b hb; have := har.below b hb; simp; omega
      have hsplit := takeWhile_split (A ++ [n]) B hP hS
      have heq : q.sl.nodes = (A ++ [n]) ++ B := by rw [har.eq]; simp
      rw [heq] at hsp
      rw [hsplit.1, hsplit.2] at hsp
      unfold specInsert
      rw [items_def, heq, hsp.1, hsp.2, itemsOf_append, itemsOf_cons, itemsOf_append, itemsOf_cons]
      simp [itemsOf]

/-! ### deleteSkipValue -/

theorem bucketErase_eq (b : List Item) (k : Nat) :
    bucketErase b k = b.eraseP (fun x => decide (x.id = k)) := by
  induction b with
  | nil => rfl
  | cons x xs ih =>
    unfold bucketErase
    rw [List.eraseP_cons]
    by_cases h : x.id = k
    · simp [h]
    · simp [h, ih]

theorem ids_disjoint_left (X Y : List Item) (h : ((X ++ Y).map (·.id)).Nodup) :
    ∀ x ∈ X, ∀ y ∈ Y, x.id ≠ y.id := by
  rw [List.map_append, List.nodup_append] at h
  intro x hx y hy
  exact h.2.2 x.id (List.mem_map.mpr ⟨x, hx, rfl⟩) y.id (List.mem_map.mpr ⟨y, hy, rfl⟩)

theorem delete_nodes_around (sl : SkipList (List Item)) (s : Int) (A B : List (Node (List Item)))
    (n : Node (List Item)) (hA : sl.nodes.take (sl.findPos s) = A)
    (hD : sl.nodes.drop (sl.findPos s) = n :: B) (hs : n.score = s) :
    (sl.delete s).1.nodes = A ++ B := by
  unfold SkipList.delete
  simp only [hD, hs, if_true, hA]

/-- `deleteSkipValue` of an item that is in the queue: never `ErrNotFound`, keeps the invariant,
and removes exactly that item from the walk order. -/
theorem deleteSkipValue_spec (q : Queue) (inv : QueueInv q) (it : Item) (hit : it ∈ q.items) :
    ∃ sl', q.deleteSkipValue it = some sl' ∧ LanesInv sl' ∧
      sl'.nodes.Pairwise (fun a b => a.score > b.score) ∧
      (∀ n ∈ sl'.nodes, n.val ≠ [] ∧ ∀ x ∈ n.val, x.score = n.score) ∧
      itemsOf sl'.nodes = specRemove q.items it.id := by
  obtain ⟨m, hm, him⟩ := mem_itemsOf.mp hit
  have hms : it.score = m.score := (inv.bucket m hm).2 it him
  unfold Queue.deleteSkipValue
  cases hf : q.sl.find it.score with
  | none => exact absurd hms.symm (find_none_absent q inv it.score hf m hm)
  | some n =>
    simp only
    obtain ⟨har, hD⟩ := find_some_around q inv it.score n hf
    have hnmem : n ∈ q.sl.nodes := by rw [har.eq]; simp
    have hmn : m = n := strict_unique inv.strict hm hnmem (by rw [← hms, har.score])
    subst hmn
    have hA : q.sl.nodes.take (q.sl.findPos it.score) = q.sl.nodes.take (q.sl.findPos it.score) := rfl
    have hdel := delete_nodes_around q.sl it.score _ _ m hA hD har.score
    have hset := setValAt_around q.sl.nodes _ _ m (q.sl.findPos it.score) rfl hD (bucketErase m.val it.id)
    have hlanes := lanesInv_delete q.sl inv.lanes it.score
    generalize q.sl.nodes.take (q.sl.findPos it.score) = A at *
    generalize q.sl.nodes.drop (q.sl.findPos it.score + 1) = B at *
    -- the walk order splits around the bucket
    have hitems : q.items = itemsOf A ++ (m.val ++ itemsOf B) := by
      rw [items_def, har.eq, itemsOf_append, itemsOf_cons]
    have hids := inv.ids
    rw [hitems] at hids
    have hdisj := ids_disjoint_left _ _ hids
    have hAno : ∀ x ∈ itemsOf A, decide (x.id = it.id) = false := by
      intro x hx
      have := hdisj x hx it (List.mem_append_left _ him)
      simpa using this
    have hrem : specRemove q.items it.id = itemsOf A ++ (bucketErase m.val it.id ++ itemsOf B) := by
      unfold specRemove
      rw [hitems, eraseP_append_notin _ _ _ hAno, bucketErase_eq,
        List.eraseP_append_left (p := fun x => decide (x.id = it.id)) (a := it) (by simp) _ him]
    have hbsub : (bucketErase m.val it.id).Sublist m.val := by rw [bucketErase_eq]; exact List.eraseP_sublist
    split
    · rename_i hemp
      have hb : bucketErase m.val it.id = [] := by simpa using hemp
      refine ⟨_, rfl, hlanes, ?_, ?_, ?_⟩
      · rw [hdel]
        have hsub : (A ++ B).Sublist q.sl.nodes := by
          rw [har.eq]; exact List.Sublist.append (List.Sublist.refl _) (List.sublist_cons_self _ _)
        exact List.Pairwise.sublist hsub inv.strict
      · intro x hx
        rw [hdel] at hx
        apply inv.bucket x
        rw [har.eq]
        rcases List.mem_append.mp hx with h | h
        · exact List.mem_append_left _ h
        · exact List.mem_append_right _ (List.mem_cons_of_mem _ h)
      · rw [hdel, hrem, hb, itemsOf_append]; simp
    · rename_i hemp
      have hb : bucketErase m.val it.id ≠ [] := by simpa using hemp
      rw [hset]
      have hshape := shape_setVal A B m (bucketErase m.val it.id)
      refine ⟨_, rfl, ?_, ?_, ?_, ?_⟩
      · exact lanesInv_of_shape q.sl _ (by simp only; rw [hshape, har.eq]) rfl inv.lanes
      · simp only; rw [strict_iff_shape, hshape, ← har.eq, ← strict_iff_shape]; exact inv.strict
      · intro x hx
        simp only [List.mem_append, List.mem_cons] at hx
        rcases hx with hx | rfl | hx
        · exact inv.bucket x (by rw [har.eq]; simp [hx])
        · exact ⟨hb, fun y hy => (inv.bucket m hnmem).2 y (hbsub.subset hy)⟩
        · exact inv.bucket x (by rw [har.eq]; simp [hx])
      · simp only; rw [hrem, itemsOf_append, itemsOf_cons]

end C24
