import Chain33Model.Proofs.C24
/-!
C24 — the queue refines a stable sorted list.  Core Lean only.
-/
namespace C24

/-! ### reference: stable sorted list with capacity -/

/-- stable insert: behind every item whose score is ≥ the new one -/
def specInsert (l : List Item) (it : Item) : List Item :=
  l.takeWhile (fun x => decide (x.score ≥ it.score)) ++ it :: l.dropWhile (fun x => decide (x.score ≥ it.score))

def specRemove (l : List Item) (k : Nat) : List Item := l.eraseP (fun x => decide (x.id = k))

/-- `Push` on the reference list: duplicate ids are refused; when full the newcomer is admitted only
if it ranks strictly higher than the last item (higher score, or equal score and the `Scorer`'s own
tie-break says `Big`), and then exactly the last item is evicted. -/
def specPush (cap : Int) (l : List Item) (it : Item) : List Item × Res :=
  if l.any (fun x => decide (x.id = it.id)) then (l, .exist)
  else if (l.length : Int) ≥ cap then
    match l.getLast? with
    | none => (l, .panic)
    | some tail =>
      if it.score > tail.score ∨ (it.score = tail.score ∧ it.cmpBig tail = true) then
        (specInsert l.dropLast it, .ok)
      else (l, .full)
  else (specInsert l it, .ok)

/-! ### generic list lemmas -/

theorem takeWhile_append_all {p : α → Bool} (A X : List α) (h : ∀ a ∈ A, p a = true) :
    (A ++ X).takeWhile p = A ++ X.takeWhile p := by
  induction A with
  | nil => rfl
  | cons a rest ih =>
    rw [List.cons_append, List.takeWhile_cons, h a (by simp)]
    simp only [if_true]
    rw [ih (fun x hx => h x (by simp [hx]))]; rfl

theorem dropWhile_append_all {p : α → Bool} (A X : List α) (h : ∀ a ∈ A, p a = true) :
    (A ++ X).dropWhile p = X.dropWhile p := by
  induction A with
  | nil => rfl
  | cons a rest ih =>
    rw [List.cons_append, List.dropWhile_cons, h a (by simp)]
    simp only [if_true]
    exact ih (fun x hx => h x (by simp [hx]))

theorem takeWhile_none {p : α → Bool} (X : List α) (h : ∀ a ∈ X, p a = false) :
    X.takeWhile p = [] := by
  cases X with
  | nil => rfl
  | cons a rest => rw [List.takeWhile_cons, h a (by simp)]; rfl

theorem dropWhile_none {p : α → Bool} (X : List α) (h : ∀ a ∈ X, p a = false) :
    X.dropWhile p = X := by
  cases X with
  | nil => rfl
  | cons a rest => rw [List.dropWhile_cons, h a (by simp)]; rfl

/-- splitting at a threshold: everything in `A` passes, everything in `B` fails -/
theorem takeWhile_split {p : α → Bool} (A B : List α) (hA : ∀ a ∈ A, p a = true)
    (hB : ∀ a ∈ B, p a = false) : (A ++ B).takeWhile p = A ∧ (A ++ B).dropWhile p = B := by
  rw [takeWhile_append_all A B hA, dropWhile_append_all A B hA, takeWhile_none B hB, dropWhile_none B hB]
  simp

/-! ### items of a node list -/

def itemsOf (nodes : List (Node (List Item))) : List Item := nodes.flatMap (·.val)

theorem items_def (q : Queue) : q.items = itemsOf q.sl.nodes := rfl

theorem itemsOf_append (A B : List (Node (List Item))) : itemsOf (A ++ B) = itemsOf A ++ itemsOf B := by
  simp [itemsOf]

theorem itemsOf_cons (n : Node (List Item)) (B : List (Node (List Item))) :
    itemsOf (n :: B) = n.val ++ itemsOf B := by
  simp [itemsOf]

theorem mem_itemsOf {nodes : List (Node (List Item))} {it : Item} :
    it ∈ itemsOf nodes ↔ ∃ n ∈ nodes, it ∈ n.val := by
  simp [itemsOf]

/-- invariant of the queue representation -/
structure QueueInv (q : Queue) : Prop where
  lanes : LanesInv q.sl
  /-- one skip-list node per score -/
  strict : q.sl.nodes.Pairwise (fun a b => a.score > b.score)
  /-- buckets are non-empty and hold items of the node's score -/
  bucket : ∀ n ∈ q.sl.nodes, n.val ≠ [] ∧ ∀ it ∈ n.val, it.score = n.score
  ids : (q.items.map (·.id)).Nodup
  mapKeys : ∀ p ∈ q.map, p.1 = p.2.id
  mapPerm : (q.map.map (·.2)).Perm q.items
  bytes : q.bytes = (q.items.map (·.size)).sum

theorem strict_unique {nodes : List (Node (List Item))}
    (h : nodes.Pairwise (fun a b => a.score > b.score)) {m n : Node (List Item)}
    (hm : m ∈ nodes) (hn : n ∈ nodes) (hs : m.score = n.score) : m = n := by
  induction nodes with
  | nil => cases hm
  | cons a rest ih =>
    have ha := (List.pairwise_cons.mp h).1
    have hr := (List.pairwise_cons.mp h).2
    rcases List.mem_cons.mp hm with rfl | hm' <;> rcases List.mem_cons.mp hn with rfl | hn'
    · rfl
    · have := ha n hn'; omega
    · have := ha m hm'; omega
    · exact ih hr hm' hn'

/-- decomposition of the node list around a score that is present -/
structure Around (nodes : List (Node (List Item))) (s : Int) (A : List (Node (List Item)))
    (n : Node (List Item)) (B : List (Node (List Item))) : Prop where
  eq : nodes = A ++ n :: B
  score : n.score = s
  above : ∀ a ∈ A, a.score > s
  below : ∀ b ∈ B, b.score < s

theorem find_some_around (q : Queue) (inv : QueueInv q) (s : Int) (n : Node (List Item))
    (h : q.sl.find s = some n) :
    Around q.sl.nodes s (q.sl.nodes.take (q.sl.findPos s)) n (q.sl.nodes.drop (q.sl.findPos s + 1)) ∧
    q.sl.nodes.drop (q.sl.findPos s) = n :: q.sl.nodes.drop (q.sl.findPos s + 1) := by
  have hsp := split_gt q.sl inv.lanes s
  unfold SkipList.find at h
  have hex : ∃ B, q.sl.nodes.drop (q.sl.findPos s) = n :: B ∧ n.score = s := by
    generalize q.sl.nodes.drop (q.sl.findPos s) = D at h
    cases D with
    | nil => simp at h
    | cons x B =>
      simp only at h
      split at h
      · rename_i hs; injection h with h; subst h; exact ⟨B, rfl, hs⟩
      · simp at h
  obtain ⟨B, hD, hs⟩ := hex
  have hB : q.sl.nodes.drop (q.sl.findPos s + 1) = B := by
    rw [← List.drop_drop, hD]; rfl
  rw [hB]
  refine ⟨⟨?_, hs, ?_, ?_⟩, hD⟩
  · conv => lhs; rw [← List.take_append_drop (q.sl.findPos s) q.sl.nodes]
    rw [hD]
  · intro a ha
    rw [hsp.1] at ha
    simpa using (mem_takeWhile_imp ha).1
  · intro b hb
    have hsub : (n :: B).Sublist q.sl.nodes := by rw [← hD]; exact List.drop_sublist _ _
    have := List.Pairwise.sublist hsub inv.strict
    have := (List.pairwise_cons.mp this).1 b hb
    omega

theorem find_none_absent (q : Queue) (inv : QueueInv q) (s : Int) (h : q.sl.find s = none) :
    ∀ n ∈ q.sl.nodes, n.score ≠ s := by
  rw [find_eq q.sl inv.lanes s, List.find?_eq_none] at h
  intro n hn hs
  exact h n hn (by simpa using hs)

/-! ### the invariant only depends on scores and levels -/

def shape (nodes : List (Node (List Item))) : List (Int × Nat) := nodes.map (fun n => (n.score, n.level))

theorem desc_iff_shape (nodes : List (Node (List Item))) :
    Desc nodes ↔ (shape nodes).Pairwise (fun a b => a.1 ≥ b.1) := by
  unfold Desc shape; rw [List.pairwise_map]

theorem strict_iff_shape (nodes : List (Node (List Item))) :
    nodes.Pairwise (fun a b => a.score > b.score) ↔ (shape nodes).Pairwise (fun a b => a.1 > b.1) := by
  unfold shape; rw [List.pairwise_map]

theorem lanesInv_of_shape (sl sl' : SkipList (List Item)) (hs : shape sl'.nodes = shape sl.nodes)
    (hl : sl'.level = sl.level) (inv : LanesInv sl) : LanesInv sl' := by
  have hmem : ∀ n' ∈ sl'.nodes, ∃ n ∈ sl.nodes, n.score = n'.score ∧ n.level = n'.level := by
    intro n' hn'
    have : (n'.score, n'.level) ∈ shape sl'.nodes := List.mem_map.mpr ⟨n', hn', rfl⟩
    rw [hs] at this
    obtain ⟨n, hn, he⟩ := List.mem_map.mp this
    injection he with h1 h2
    exact ⟨n, hn, h1, h2⟩
  have hmem' : ∀ n ∈ sl.nodes, ∃ n' ∈ sl'.nodes, n'.score = n.score ∧ n'.level = n.level := by
    intro n hn
    have : (n.score, n.level) ∈ shape sl.nodes := List.mem_map.mpr ⟨n, hn, rfl⟩
    rw [← hs] at this
    obtain ⟨n', hn', he⟩ := List.mem_map.mp this
    injection he with h1 h2
    exact ⟨n', hn', h1, h2⟩
  refine ⟨?_, by rw [hl]; exact inv.level_pos, ?_, ?_⟩
  · rw [desc_iff_shape, hs, ← desc_iff_shape]; exact inv.sorted
  · intro n' hn'
    obtain ⟨n, hn, _, h2⟩ := hmem n' hn'
    have := inv.node_level n hn
    rw [hl]; omega
  · rw [hl]
    rcases inv.top with h | ⟨n, hn, h⟩
    · left; exact h
    · right
      obtain ⟨n', hn', _, h2⟩ := hmem' n hn
      exact ⟨n', hn', by omega⟩

theorem setValAt_around (nodes A B : List (Node (List Item))) (n : Node (List Item)) (p : Nat)
    (hA : nodes.take p = A) (hD : nodes.drop p = n :: B) (v : List Item) :
    setValAt nodes p v = A ++ { n with val := v } :: B := by
  unfold setValAt
  rw [hD, hA]

theorem shape_setVal (A B : List (Node (List Item))) (n : Node (List Item)) (v : List Item) :
    shape (A ++ { n with val := v } :: B) = shape (A ++ n :: B) := by
  simp [shape]

/-! ### threshold split of the items follows the split of the nodes -/

theorem items_split (nodes : List (Node (List Item))) (hd : Desc nodes)
    (hb : ∀ n ∈ nodes, ∀ it ∈ n.val, it.score = n.score) (s : Int) :
    (itemsOf nodes).takeWhile (fun x => decide (x.score ≥ s))
        = itemsOf (nodes.takeWhile (fun n => decide (n.score ≥ s))) ∧
    (itemsOf nodes).dropWhile (fun x => decide (x.score ≥ s))
        = itemsOf (nodes.dropWhile (fun n => decide (n.score ≥ s))) := by
  have hsplit := List.takeWhile_append_dropWhile (p := fun n : Node (List Item) => decide (n.score ≥ s)) (l := nodes)
  have hS := desc_dropWhile_nonadv _ (upClosed_ge s) nodes hd
  have h1 : ∀ x ∈ itemsOf (nodes.takeWhile (fun n => decide (n.score ≥ s))), decide (x.score ≥ s) = true := by
    intro x hx
    obtain ⟨n, hn, hxn⟩ := mem_itemsOf.mp hx
    have := mem_takeWhile_imp hn
    rw [hb n this.2 x hxn]; exact this.1
  have h2 : ∀ x ∈ itemsOf (nodes.dropWhile (fun n => decide (n.score ≥ s))), decide (x.score ≥ s) = false := by
    intro x hx
    obtain ⟨n, hn, hxn⟩ := mem_itemsOf.mp hx
    rw [hb n ((List.dropWhile_sublist _).subset hn) x hxn]; exact hS n hn
  have := takeWhile_split _ _ h1 h2
  rw [← itemsOf_append, hsplit] at this
  exact this

/-- `insertSkipValue` keeps the representation invariant and is the stable sorted insert. -/
theorem insertSkipValue_spec (q : Queue) (inv : QueueInv q) (it : Item) (lvl : Nat) (hl : 1 ≤ lvl) :
    LanesInv (q.insertSkipValue it lvl) ∧
    (q.insertSkipValue it lvl).nodes.Pairwise (fun a b => a.score > b.score) ∧
    (∀ n ∈ (q.insertSkipValue it lvl).nodes, n.val ≠ [] ∧ ∀ x ∈ n.val, x.score = n.score) ∧
    itemsOf (q.insertSkipValue it lvl).nodes = specInsert q.items it := by
  have hbs : ∀ n ∈ q.sl.nodes, ∀ x ∈ n.val, x.score = n.score := fun n hn => (inv.bucket n hn).2
  have hsp := items_split q.sl.nodes inv.lanes.sorted hbs it.score
  unfold Queue.insertSkipValue
  cases hf : q.sl.find it.score with
  | none =>
    simp only
    have habs := find_none_absent q inv it.score hf
    have hn := insert_nodes q.sl inv.lanes it.score [it] lvl
    refine ⟨lanesInv_insert q.sl inv.lanes it.score [it] lvl hl, ?_, ?_, ?_⟩
    · rw [hn]
      unfold sortedInsert
      have hsplit := List.takeWhile_append_dropWhile (p := fun x : Node (List Item) => decide (x.score ≥ it.score)) (l := q.sl.nodes)
      have hst := inv.strict
      rw [← hsplit, List.pairwise_append] at hst
      have hS := desc_dropWhile_nonadv _ (upClosed_ge it.score) q.sl.nodes inv.lanes.sorted
      rw [List.pairwise_append]
      refine ⟨hst.1, ?_, ?_⟩
      · rw [List.pairwise_cons]
        refine ⟨?_, hst.2.1⟩
        intro b hb
        have := hS b hb
        simp at this ⊢; omega
      · intro a ha x hx
        rcases List.mem_cons.mp hx with rfl | hx
        · have h1 := mem_takeWhile_imp ha
          have h2 := habs a h1.2
          have h3 := h1.1
          simp at h3 ⊢; omega
        · exact hst.2.2 a ha x hx
    · intro n hmem
      rw [hn] at hmem
      rcases mem_sortedInsert.mp hmem with rfl | hmem
      · simp
      · exact inv.bucket n hmem
    · rw [hn]
      unfold sortedInsert specInsert
      rw [itemsOf_append, itemsOf_cons, items_def, hsp.1, hsp.2]
      simp
  | some n =>
    simp only
    obtain ⟨har, hD⟩ := find_some_around q inv it.score n hf
    have hset := setValAt_around q.sl.nodes _ _ n (q.sl.findPos it.score) rfl hD (n.val ++ [it])
    rw [hset]
    generalize q.sl.nodes.take (q.sl.findPos it.score) = A at *
    generalize q.sl.nodes.drop (q.sl.findPos it.score + 1) = B at *
    have hshape := shape_setVal A B n (n.val ++ [it])
    have hnmem : n ∈ q.sl.nodes := by rw [har.eq]; simp
    refine ⟨?_, ?_, ?_, ?_⟩
    · exact lanesInv_of_shape q.sl _ (by simp only; rw [hshape, har.eq]) rfl inv.lanes
    · rw [strict_iff_shape, hshape, ← har.eq, ← strict_iff_shape]; exact inv.strict
    · intro m hm
      simp only [List.mem_append, List.mem_cons] at hm
      rcases hm with hm | rfl | hm
      · exact inv.bucket m (by rw [har.eq]; simp [hm])
      · refine ⟨by simp, ?_⟩
        intro x hx
        simp only [List.mem_append, List.mem_singleton] at hx
        rcases hx with hx | rfl
        · exact (inv.bucket n hnmem).2 x hx
        · exact har.score.symm
      · exact inv.bucket m (by rw [har.eq]; simp [hm])
    · -- the node split at `≥ score` is `A ++ [n]` / `B`
      have hP : ∀ a ∈ A ++ [n], decide (a.score ≥ it.score) = true := by
        intro a ha
        simp only [List.mem_append, List.mem_singleton] at ha
        rcases ha with ha | rfl
        · have := har.above a ha; simp; omega
        · have := har.score; simp; omega
      have hS : ∀ b ∈ B, decide (b.score ≥ it.score) = false := by
        intro b hb; have := har.below b hb; simp; omega
      have hsplit := takeWhile_split (A ++ [n]) B hP hS
      have heq : q.sl.nodes = (A ++ [n]) ++ B := by rw [har.eq]; simp
      rw [heq] at hsp
      rw [hsplit.1, hsplit.2] at hsp
      unfold specInsert
      rw [items_def, heq, hsp.1, hsp.2, itemsOf_append, itemsOf_cons, itemsOf_append, itemsOf_cons]
      simp [itemsOf]

/-! ### deleteSkipValue -/

theorem bucketErase_eq (b : List Item) (k : Nat) :
    bucketErase b k = b.eraseP (fun x => decide (x.id = k)) := by
  induction b with
  | nil => rfl
  | cons x xs ih =>
    unfold bucketErase
    rw [List.eraseP_cons]
    by_cases h : x.id = k
    · simp [h]
    · simp [h, ih]

theorem ids_disjoint_left (X Y : List Item) (h : ((X ++ Y).map (·.id)).Nodup) :
    ∀ x ∈ X, ∀ y ∈ Y, x.id ≠ y.id := by
  rw [List.map_append, List.nodup_append] at h
  intro x hx y hy
  exact h.2.2 x.id (List.mem_map.mpr ⟨x, hx, rfl⟩) y.id (List.mem_map.mpr ⟨y, hy, rfl⟩)

theorem delete_nodes_around (sl : SkipList (List Item)) (s : Int) (A B : List (Node (List Item)))
    (n : Node (List Item)) (hA : sl.nodes.take (sl.findPos s) = A)
    (hD : sl.nodes.drop (sl.findPos s) = n :: B) (hs : n.score = s) :
    (sl.delete s).1.nodes = A ++ B := by
  unfold SkipList.delete
  simp only [hD, hs, if_true, hA]

/-- `deleteSkipValue` of an item that is in the queue: never `ErrNotFound`, keeps the invariant,
and removes exactly that item from the walk order. -/
theorem deleteSkipValue_spec (q : Queue) (inv : QueueInv q) (it : Item) (hit : it ∈ q.items) :
    ∃ sl', q.deleteSkipValue it = some sl' ∧ LanesInv sl' ∧
      sl'.nodes.Pairwise (fun a b => a.score > b.score) ∧
      (∀ n ∈ sl'.nodes, n.val ≠ [] ∧ ∀ x ∈ n.val, x.score = n.score) ∧
      itemsOf sl'.nodes = specRemove q.items it.id := by
  obtain ⟨m, hm, him⟩ := mem_itemsOf.mp hit
  have hms : it.score = m.score := (inv.bucket m hm).2 it him
  unfold Queue.deleteSkipValue
  cases hf : q.sl.find it.score with
  | none => exact absurd hms.symm (find_none_absent q inv it.score hf m hm)
  | some n =>
    simp only
    obtain ⟨har, hD⟩ := find_some_around q inv it.score n hf
    have hnmem : n ∈ q.sl.nodes := by rw [har.eq]; simp
    have hmn : m = n := strict_unique inv.strict hm hnmem (by rw [← hms, har.score])
    subst hmn
    have hA : q.sl.nodes.take (q.sl.findPos it.score) = q.sl.nodes.take (q.sl.findPos it.score) := rfl
    have hdel := delete_nodes_around q.sl it.score _ _ m hA hD har.score
    have hset := setValAt_around q.sl.nodes _ _ m (q.sl.findPos it.score) rfl hD (bucketErase m.val it.id)
    have hlanes := lanesInv_delete q.sl inv.lanes it.score
    generalize q.sl.nodes.take (q.sl.findPos it.score) = A at *
    generalize q.sl.nodes.drop (q.sl.findPos it.score + 1) = B at *
    -- the walk order splits around the bucket
    have hitems : q.items = itemsOf A ++ (m.val ++ itemsOf B) := by
      rw [items_def, har.eq, itemsOf_append, itemsOf_cons]
    have hids := inv.ids
    rw [hitems] at hids
    have hdisj := ids_disjoint_left _ _ hids
    have hAno : ∀ x ∈ itemsOf A, decide (x.id = it.id) = false := by
      intro x hx
      have := hdisj x hx it (List.mem_append_left _ him)
      simpa using this
    have hrem : specRemove q.items it.id = itemsOf A ++ (bucketErase m.val it.id ++ itemsOf B) := by
      unfold specRemove
      rw [hitems, eraseP_append_notin _ _ _ hAno, bucketErase_eq,
        List.eraseP_append_left (p := fun x => decide (x.id = it.id)) (a := it) (by simp) _ him]
    have hbsub : (bucketErase m.val it.id).Sublist m.val := by rw [bucketErase_eq]; exact List.eraseP_sublist
    split
    · rename_i hemp
      have hb : bucketErase m.val it.id = [] := by simpa using hemp
      refine ⟨_, rfl, hlanes, ?_, ?_, ?_⟩
      · rw [hdel]
        have hsub : (A ++ B).Sublist q.sl.nodes := by
          rw [har.eq]; exact List.Sublist.append (List.Sublist.refl _) (List.sublist_cons_self _ _)
        exact List.Pairwise.sublist hsub inv.strict
      · intro x hx
        rw [hdel] at hx
        apply inv.bucket x
        rw [har.eq]
        rcases List.mem_append.mp hx with h | h
        · exact List.mem_append_left _ h
        · exact List.mem_append_right _ (List.mem_cons_of_mem _ h)
      · rw [hdel, hrem, hb, itemsOf_append]; simp
    · rename_i hemp
      have hb : bucketErase m.val it.id ≠ [] := by simpa using hemp
      rw [hset]
      have hshape := shape_setVal A B m (bucketErase m.val it.id)
      refine ⟨_, rfl, ?_, ?_, ?_, ?_⟩
      · exact lanesInv_of_shape q.sl _ (by simp only; rw [hshape, har.eq]) rfl inv.lanes
      · simp only; rw [strict_iff_shape, hshape, ← har.eq, ← strict_iff_shape]; exact inv.strict
      · intro x hx
        simp only [List.mem_append, List.mem_cons] at hx
        rcases hx with hx | rfl | hx
        · exact inv.bucket x (by rw [har.eq]; simp [hx])
        · exact ⟨hb, fun y hy => (inv.bucket m hnmem).2 y (hbsub.subset hy)⟩
        · exact inv.bucket x (by rw [har.eq]; simp [hx])
      · simp only; rw [hrem, itemsOf_append, itemsOf_cons]

/-! ### the map -/

theorem mapGet_some {m : List (Nat × Item)} {k : Nat} {it : Item} (h : mapGet m k = some it) :
    (k, it) ∈ m := by
  unfold mapGet at h
  cases hf : m.find? (fun p => p.1 == k) with
  | none => simp [hf] at h
  | some p =>
    simp [hf] at h
    have h1 := List.find?_some hf
    have h2 := List.mem_of_find?_eq_some hf
    simp at h1
    have : p = (k, it) := by cases p; simp_all
    rw [← this]; exact h2

theorem mapGet_none {m : List (Nat × Item)} {k : Nat} (h : mapGet m k = none) :
    ∀ p ∈ m, p.1 ≠ k := by
  unfold mapGet at h
  simp at h
  intro p hp
  exact h p.1 p.2 hp

theorem mapErase_vals (m : List (Nat × Item)) (k : Nat) (hk : ∀ p ∈ m, p.1 = p.2.id) :
    (mapErase m k).map (·.2) = (m.map (·.2)).filter (fun x => !decide (x.id = k)) := by
  unfold mapErase
  induction m with
  | nil => rfl
  | cons p rest ih =>
    have hp := hk p (by simp)
    have ih := ih (fun x hx => hk x (by simp [hx]))
    simp only [List.filter_cons, List.map_cons]
    by_cases h : p.1 = k
    · have : p.2.id = k := by omega
      simp [h, this, ih]
    · have : ¬ p.2.id = k := by omega
      simp [h, this, ih]

theorem filter_ne_eq_eraseP (l : List Item) (k : Nat) (hn : (l.map (·.id)).Nodup) :
    l.filter (fun x => !decide (x.id = k)) = l.eraseP (fun x => decide (x.id = k)) := by
  induction l with
  | nil => rfl
  | cons a rest ih =>
    rw [List.map_cons, List.nodup_cons] at hn
    rw [List.filter_cons, List.eraseP_cons]
    by_cases h : a.id = k
    · have : ∀ x ∈ rest, (!decide (x.id = k)) = true := by
        intro x hx
        have : x.id ≠ a.id := fun e => hn.1 (List.mem_map.mpr ⟨x, hx, e⟩)
        simp; omega
      simp [h, List.filter_eq_self.mpr this]
    · simp [h, ih hn.2]

theorem sum_eraseP (l : List Item) (it : Item) (hit : it ∈ l) (hn : (l.map (·.id)).Nodup) :
    ((l.eraseP (fun x => decide (x.id = it.id))).map (·.size)).sum = (l.map (·.size)).sum - it.size := by
  induction l with
  | nil => cases hit
  | cons a rest ih =>
    rw [List.map_cons, List.nodup_cons] at hn
    rw [List.eraseP_cons]
    by_cases h : a.id = it.id
    · have : a = it := by
        rcases List.mem_cons.mp hit with e | hr
        · exact e.symm
        · exact absurd (List.mem_map.mpr ⟨it, hr, h.symm⟩) hn.1
      subst this
      simp only [decide_true, cond_true, List.map_cons, List.sum_cons]
      omega
    · have hr : it ∈ rest := by
        rcases List.mem_cons.mp hit with e | hr
        · exact absurd (by rw [e]) h
        · exact hr
      simp only [h, decide_false, cond_false, List.map_cons, List.sum_cons, ih hr hn.2]
      omega

theorem nodup_ids_sublist {l₁ l₂ : List Item} (h : l₁.Sublist l₂) (hn : (l₂.map (·.id)).Nodup) :
    (l₁.map (·.id)).Nodup := List.Nodup.sublist (List.Sublist.map _ h) hn

/-- `Remove`: refines removal from the reference list, keeps the invariant. -/
theorem remove_spec (q : Queue) (inv : QueueInv q) (k : Nat) :
    QueueInv (q.remove k).1 ∧ (q.remove k).1.items = specRemove q.items k ∧
    (q.remove k).1.maxsize = q.maxsize ∧
    ((q.remove k).2 = if q.items.any (fun x => decide (x.id = k)) then Res.ok else Res.notfound) := by
  unfold Queue.remove
  cases hg : mapGet q.map k with
  | none =>
    simp only
    have hnone := mapGet_none hg
    have hno : ∀ x ∈ q.items, ¬ x.id = k := by
      intro x hx hxk
      have : x ∈ q.map.map (·.2) := inv.mapPerm.mem_iff.mpr hx
      obtain ⟨p, hp, rfl⟩ := List.mem_map.mp this
      exact hnone p hp (by rw [inv.mapKeys p hp]; exact hxk)
    refine ⟨inv, ?_, by first | rfl | trivial, ?_⟩
    · unfold specRemove
      rw [List.eraseP_of_forall_not]
      intro x hx; simpa using hno x hx
    · have : q.items.any (fun x => decide (x.id = k)) = false := by
        rw [List.any_eq_false]; intro x hx; simpa using hno x hx
      rw [this]; rfl
  | some it =>
    simp only
    have hmem := mapGet_some hg
    have hid : k = it.id := inv.mapKeys _ hmem
    have hit : it ∈ q.items := inv.mapPerm.mem_iff.mp (List.mem_map.mpr ⟨_, hmem, rfl⟩)
    obtain ⟨sl', hdel, hl, hst, hb, hitems⟩ := deleteSkipValue_spec q inv it hit
    have hdel' : Queue.deleteSkipValue { q with map := mapErase q.map k } it = some sl' := hdel
    rw [hdel']
    simp only
    have hany : q.items.any (fun x => decide (x.id = k)) = true := by
      rw [List.any_eq_true]; exact ⟨it, hit, by simp [hid]⟩
    have hitems' : Queue.items { q with map := mapErase q.map k, sl := sl', bytes := q.bytes - it.size }
        = specRemove q.items k := by rw [hid]; exact hitems
    refine ⟨⟨hl, hst, hb, ?_, ?_, ?_, ?_⟩, hitems', by first | rfl | trivial, by rw [hany]; rfl⟩
    · rw [hitems']; exact nodup_ids_sublist List.eraseP_sublist inv.ids
    · intro p hp
      exact inv.mapKeys p (List.mem_filter.mp hp).1
    · rw [hitems']
      show ((mapErase q.map k).map (·.2)).Perm _
      rw [mapErase_vals _ _ inv.mapKeys]
      unfold specRemove
      rw [← filter_ne_eq_eraseP _ _ inv.ids]
      exact inv.mapPerm.filter _
    · rw [hitems']
      show q.bytes - it.size = _
      unfold specRemove
      rw [hid, sum_eraseP _ _ hit inv.ids, inv.bytes]

/-! ### Insert / Last / Push -/

theorem specInsert_perm (l : List Item) (it : Item) : (specInsert l it).Perm (it :: l) := by
  unfold specInsert
  have h := List.takeWhile_append_dropWhile (p := fun x : Item => decide (x.score ≥ it.score)) (l := l)
  conv => rhs; rw [← h]
  exact List.perm_middle

theorem specInsert_sum (l : List Item) (it : Item) :
    ((specInsert l it).map (·.size)).sum = (l.map (·.size)).sum + it.size := by
  unfold specInsert
  have h := List.takeWhile_append_dropWhile (p := fun x : Item => decide (x.score ≥ it.score)) (l := l)
  conv => rhs; rw [← h]
  simp only [List.map_append, List.sum_append, List.map_cons, List.sum_cons]
  omega

theorem mapGet_some_item (q : Queue) (inv : QueueInv q) {k : Nat} {it : Item}
    (h : mapGet q.map k = some it) : it ∈ q.items ∧ it.id = k := by
  have hmem := mapGet_some h
  exact ⟨inv.mapPerm.mem_iff.mp (List.mem_map.mpr ⟨_, hmem, rfl⟩), (inv.mapKeys _ hmem).symm⟩

theorem mapGet_none_items (q : Queue) (inv : QueueInv q) {k : Nat}
    (h : mapGet q.map k = none) : ∀ x ∈ q.items, ¬ x.id = k := by
  have hnone := mapGet_none h
  intro x hx hxk
  have : x ∈ q.map.map (·.2) := inv.mapPerm.mem_iff.mpr hx
  obtain ⟨p, hp, rfl⟩ := List.mem_map.mp this
  exact hnone p hp (by rw [inv.mapKeys p hp]; exact hxk)

/-- **membership**: `Exist` agrees with the contents. -/
theorem exist_eq (q : Queue) (inv : QueueInv q) (k : Nat) :
    q.exist k = q.items.any (fun x => decide (x.id = k)) := by
  unfold Queue.exist
  cases hg : mapGet q.map k with
  | none =>
    have := mapGet_none_items q inv hg
    symm; simp only [Option.isSome_none]
    rw [List.any_eq_false]; intro x hx; simpa using this x hx
  | some it =>
    have := mapGet_some_item q inv hg
    symm; simp only [Option.isSome_some]
    rw [List.any_eq_true]; exact ⟨it, this.1, by simp [this.2]⟩

/-- **lookup**: `GetItem` returns the member with that id, if any. -/
theorem getItem_eq (q : Queue) (inv : QueueInv q) (k : Nat) :
    q.getItem k = q.items.find? (fun x => decide (x.id = k)) := by
  unfold Queue.getItem
  cases hg : mapGet q.map k with
  | none =>
    have := mapGet_none_items q inv hg
    symm; rw [List.find?_eq_none]; intro x hx; simpa using this x hx
  | some it =>
    have h := mapGet_some_item q inv hg
    cases hf : q.items.find? (fun x => decide (x.id = k)) with
    | none =>
      rw [List.find?_eq_none] at hf
      exact absurd (by simpa using h.2) (hf it h.1)
    | some x =>
      have h1 := List.find?_some hf
      have h2 := List.mem_of_find?_eq_some hf
      simp at h1
      -- ids are unique
      have hn := inv.ids
      have : x = it := by
        apply Classical.byContradiction
        intro hne
        have hinj : ∀ (l : List Item), (l.map (·.id)).Nodup → x ∈ l → it ∈ l → x.id = it.id → x = it := by
          intro l
          induction l with
          | nil => intro _ hx; cases hx
          | cons a rest ih =>
            intro hnd hx hi he
            rw [List.map_cons, List.nodup_cons] at hnd
            rcases List.mem_cons.mp hx with rfl | hx' <;> rcases List.mem_cons.mp hi with rfl | hi'
            · rfl
            · exact absurd (List.mem_map.mpr ⟨it, hi', he.symm⟩) hnd.1
            · exact absurd (List.mem_map.mpr ⟨x, hx', he⟩) hnd.1
            · exact ih hnd.2 hx' hi' he
        exact hne (hinj _ hn h2 h.1 (by omega))
      rw [this]

theorem size_eq (q : Queue) (inv : QueueInv q) : q.size = q.items.length := by
  unfold Queue.size
  rw [← inv.mapPerm.length_eq, List.length_map]

theorem insert_spec (q : Queue) (inv : QueueInv q) (it : Item) (lvl : Nat) (hl : 1 ≤ lvl)
    (hfresh : ∀ x ∈ q.items, ¬ x.id = it.id) :
    QueueInv (q.insert it lvl) ∧ (q.insert it lvl).items = specInsert q.items it ∧
    (q.insert it lvl).maxsize = q.maxsize := by
  obtain ⟨hlanes, hst, hb, hitems⟩ := insertSkipValue_spec q inv it lvl hl
  have hitems' : (q.insert it lvl).items = specInsert q.items it := hitems
  have hnokey : ∀ p ∈ q.map, (p.1 != it.id) = true := by
    intro p hp
    have : p.2 ∈ q.items := inv.mapPerm.mem_iff.mp (List.mem_map.mpr ⟨p, hp, rfl⟩)
    have := hfresh p.2 this
    rw [← inv.mapKeys p hp] at this
    simpa using this
  have hmap : (q.insert it lvl).map = q.map ++ [(it.id, it)] := by
    show mapSet q.map it.id it = _
    unfold mapSet mapErase
    rw [List.filter_eq_self.mpr hnokey]
  refine ⟨⟨hlanes, hst, hb, ?_, ?_, ?_, ?_⟩, hitems', rfl⟩
  · rw [hitems']
    have hp := (specInsert_perm q.items it).map (·.id)
    rw [hp.nodup_iff, List.map_cons, List.nodup_cons]
    refine ⟨?_, inv.ids⟩
    intro hmem
    obtain ⟨x, hx, he⟩ := List.mem_map.mp hmem
    exact hfresh x hx he
  · intro p hp
    rw [hmap] at hp
    rcases List.mem_append.mp hp with hp | hp
    · exact inv.mapKeys p hp
    · simp at hp; subst hp; rfl
  · rw [hitems', hmap, List.map_append]
    simp only [List.map_cons, List.map_nil]
    exact ((List.perm_append_comm).trans (inv.mapPerm.cons it)).trans (specInsert_perm q.items it).symm
  · rw [hitems', specInsert_sum, ← inv.bytes]; rfl

theorem getLast?_itemsOf (nodes : List (Node (List Item)))
    (hb : ∀ n ∈ nodes, n.val ≠ []) (n : Node (List Item)) (hn : nodes.getLast? = some n) :
    (itemsOf nodes).getLast? = n.val.getLast? := by
  obtain ⟨init, rfl⟩ := List.getLast?_eq_some_iff.mp hn
  rw [itemsOf_append, itemsOf_cons]
  simp only [itemsOf, List.flatMap_nil, List.append_nil]
  rw [List.getLast?_append]
  have : n.val ≠ [] := hb n (by simp)
  cases h : n.val.getLast? with
  | none => rw [List.getLast?_eq_none_iff] at h; exact absurd h this
  | some x => simp

/-- `Last` is the last item of the walk order (Go `nil` on the empty queue), never a panic. -/
theorem last_eq (q : Queue) (inv : QueueInv q) : q.last = .ok q.items.getLast? := by
  unfold Queue.last
  rw [size_eq q inv]
  by_cases hemp : q.items = []
  · simp [hemp]
  · have hlen : ¬ q.items.length = 0 := by simpa using hemp
    simp only [hlen, if_false]
    have hnodes : q.sl.nodes ≠ [] := by
      intro h; apply hemp; rw [items_def, h]; rfl
    cases hgl : q.sl.nodes.getLast? with
    | none => rw [List.getLast?_eq_none_iff] at hgl; exact absurd hgl hnodes
    | some n =>
      simp only
      have hmem : n ∈ q.sl.nodes := List.mem_of_getLast? hgl
      have := getLast?_itemsOf q.sl.nodes (fun m hm => (inv.bucket m hm).1) n hgl
      rw [items_def, this]
      cases h : n.val.getLast? with
      | none => rw [List.getLast?_eq_none_iff] at h; exact absurd h (inv.bucket n hmem).1
      | some x => rfl

/-- `First` is the first item of the walk order. -/
theorem first_eq (q : Queue) (inv : QueueInv q) : q.first = .ok q.items.head? := by
  unfold Queue.first
  rw [size_eq q inv]
  by_cases hemp : q.items = []
  · simp [hemp]
  · have hlen : ¬ q.items.length = 0 := by simpa using hemp
    simp only [hlen, if_false]
    cases hn : q.sl.nodes with
    | nil => exfalso; apply hemp; rw [items_def, hn]; rfl
    | cons n rest =>
      simp only [List.head?_cons]
      have hmem : n ∈ q.sl.nodes := by rw [hn]; simp
      have hne := (inv.bucket n hmem).1
      rw [items_def, hn, itemsOf_cons]
      cases hv : n.val with
      | nil => exact absurd hv hne
      | cons x xs => rfl

theorem eraseP_last (init : List Item) (t : Item) (hn : ((init ++ [t]).map (·.id)).Nodup) :
    (init ++ [t]).eraseP (fun x => decide (x.id = t.id)) = init := by
  have hd := ids_disjoint_left _ _ hn
  rw [eraseP_append_notin _ _ _ (by
    intro x hx
    have := hd x hx t (by simp)
    simpa using this)]
  simp [List.eraseP_cons]

/-- **Push refines the reference** (for every level choice `lvl ≥ 1`) and keeps the invariant. -/
theorem push_spec (q : Queue) (inv : QueueInv q) (it : Item) (lvl : Nat) (hl : 1 ≤ lvl) :
    QueueInv (q.push it lvl).1 ∧
    ((q.push it lvl).1.items, (q.push it lvl).2) = specPush q.maxsize q.items it ∧
    (q.push it lvl).1.maxsize = q.maxsize := by
  unfold Queue.push specPush
  rw [exist_eq q inv, size_eq q inv, last_eq q inv]
  by_cases hex : q.items.any (fun x => decide (x.id = it.id)) = true
  · simp only [hex, if_true]
    exact ⟨inv, by first | rfl | trivial, by first | rfl | trivial⟩
  · simp only [hex, Bool.false_eq_true, if_false]
    have hfresh : ∀ x ∈ q.items, ¬ x.id = it.id := by
      have : q.items.any (fun x => decide (x.id = it.id)) = false := by simpa using hex
      rw [List.any_eq_false] at this
      intro x hx; simpa using this x hx
    by_cases hfull : (q.items.length : Int) ≥ q.maxsize
    · simp only [hfull, if_true]
      cases hgl : q.items.getLast? with
      | none => exact ⟨inv, by first | rfl | trivial, by first | rfl | trivial⟩
      | some tail =>
        simp only
        by_cases hbetter : it.score > tail.score ∨ (it.score = tail.score ∧ it.cmpBig tail = true)
        · simp only [hbetter, if_true]
          obtain ⟨init, hinit⟩ := List.getLast?_eq_some_iff.mp hgl
          have htmem : tail ∈ q.items := by rw [hinit]; simp
          obtain ⟨hinv1, hitems1, hmax1, hres1⟩ := remove_spec q inv tail.id
          have hany : q.items.any (fun x => decide (x.id = tail.id)) = true := by
            rw [List.any_eq_true]; exact ⟨tail, htmem, by simp⟩
          rw [hany] at hres1
          simp only [if_true] at hres1
          have hrem : specRemove q.items tail.id = q.items.dropLast := by
            unfold specRemove
            have hn := inv.ids
            rw [hinit] at hn ⊢
            rw [eraseP_last init tail hn, List.dropLast_concat]
          generalize hq1 : q.remove tail.id = r at *
          obtain ⟨q1, r1⟩ := r
          simp only at hinv1 hitems1 hmax1 hres1
          subst hres1
          simp only
          have hfresh1 : ∀ x ∈ q1.items, ¬ x.id = it.id := by
            intro x hx
            rw [hitems1] at hx
            exact hfresh x (List.eraseP_sublist.subset hx)
          obtain ⟨hinv2, hitems2, hmax2⟩ := insert_spec q1 hinv1 it lvl hl hfresh1
          refine ⟨hinv2, ?_, by rw [hmax2, hmax1]⟩
          rw [hitems2, hitems1, hrem]
        · simp only [hbetter, if_false]
          exact ⟨inv, by first | rfl | trivial, by first | rfl | trivial⟩
    · simp only [hfull, if_false]
      obtain ⟨hinv2, hitems2, hmax2⟩ := insert_spec q inv it lvl hl hfresh
      exact ⟨hinv2, by rw [hitems2], hmax2⟩

theorem queueInv_new (cap : Int) : QueueInv (Queue.new cap) := by
  refine ⟨lanesInv_new, ?_, ?_, ?_, ?_, ?_, ?_⟩ <;> simp [Queue.new, SkipList.new, Queue.items]

/-! ### runs: every op sequence, every level choice -/

inductive QOp where
  | push (it : Item) (lvl : Nat)
  | remove (k : Nat)

/-- `randomLevel` only ever returns levels ≥ 1 -/
def QOp.levelOk : QOp → Prop
  | .push _ lvl => 1 ≤ lvl
  | .remove _ => True

def stepQ (q : Queue) : QOp → Queue × Res
  | .push it lvl => q.push it lvl
  | .remove k => q.remove k

/-- the reference ignores the level argument -/
def stepSpec (cap : Int) (l : List Item) : QOp → List Item × Res
  | .push it _ => specPush cap l it
  | .remove k => (specRemove l k, if l.any (fun x => decide (x.id = k)) then Res.ok else Res.notfound)

def runQ (q : Queue) : List QOp → Queue × List Res
  | [] => (q, [])
  | o :: rest => let r := stepQ q o; let rr := runQ r.1 rest; (rr.1, r.2 :: rr.2)

def runSpec (cap : Int) (l : List Item) : List QOp → List Item × List Res
  | [] => (l, [])
  | o :: rest => let r := stepSpec cap l o; let rr := runSpec cap r.1 rest; (rr.1, r.2 :: rr.2)

theorem step_refines (q : Queue) (inv : QueueInv q) (o : QOp) (ho : o.levelOk) :
    QueueInv (stepQ q o).1 ∧ (stepQ q o).1.maxsize = q.maxsize ∧
    ((stepQ q o).1.items, (stepQ q o).2) = stepSpec q.maxsize q.items o := by
  cases o with
  | push it lvl =>
    obtain ⟨h1, h2, h3⟩ := push_spec q inv it lvl ho
    exact ⟨h1, h3, h2⟩
  | remove k =>
    obtain ⟨h1, h2, h3, h4⟩ := remove_spec q inv k
    refine ⟨h1, h3, ?_⟩
    show ((q.remove k).1.items, (q.remove k).2) = _
    rw [h2, h4]; rfl

theorem run_refines (q : Queue) (inv : QueueInv q) (ops : List QOp) (h : ∀ o ∈ ops, o.levelOk) :
    QueueInv (runQ q ops).1 ∧ (runQ q ops).1.maxsize = q.maxsize ∧
    ((runQ q ops).1.items, (runQ q ops).2) = runSpec q.maxsize q.items ops := by
  induction ops generalizing q with
  | nil => exact ⟨inv, rfl, rfl⟩
  | cons o rest ih =>
    obtain ⟨h1, h2, h3⟩ := step_refines q inv o (h o (by simp))
    obtain ⟨i1, i2, i3⟩ := ih (stepQ q o).1 h1 (fun x hx => h x (by simp [hx]))
    have e1 : (stepQ q o).1.items = (stepSpec q.maxsize q.items o).1 := by rw [← h3]
    have e2 : (stepQ q o).2 = (stepSpec q.maxsize q.items o).2 := by rw [← h3]
    refine ⟨i1, by rw [← h2]; exact i2, ?_⟩
    show ((runQ (stepQ q o).1 rest).1.items, (stepQ q o).2 :: (runQ (stepQ q o).1 rest).2) = _
    have e3 : (runQ (stepQ q o).1 rest).1.items = (runSpec q.maxsize (stepSpec q.maxsize q.items o).1 rest).1 := by
      rw [← e1, ← h2, ← i3]
    have e4 : (runQ (stepQ q o).1 rest).2 = (runSpec q.maxsize (stepSpec q.maxsize q.items o).1 rest).2 := by
      rw [← e1, ← h2, ← i3]
    rw [e2, e3, e4]; rfl

/-! ### facts about the reference list -/

def DescItems (l : List Item) : Prop := l.Pairwise (fun a b => a.score ≥ b.score)

theorem dropWhile_head_fails {p : α → Bool} (l : List α) (d : α) (rest : List α)
    (h : l.dropWhile p = d :: rest) : p d = false := by
  induction l with
  | nil => simp at h
  | cons a xs ih =>
    rw [List.dropWhile_cons] at h
    split at h
    · exact ih h
    · rename_i hp
      injection h with h1 _
      subst h1
      simpa using hp

theorem specInsert_split (l : List Item) (hd : DescItems l) (it : Item) :
    ∃ l₁ l₂, l = l₁ ++ l₂ ∧ specInsert l it = l₁ ++ it :: l₂ ∧
      (∀ x ∈ l₁, x.score ≥ it.score) ∧ (∀ x ∈ l₂, x.score < it.score) := by
  refine ⟨l.takeWhile (fun x => decide (x.score ≥ it.score)), l.dropWhile (fun x => decide (x.score ≥ it.score)),
    (List.takeWhile_append_dropWhile).symm, rfl, ?_, ?_⟩
  · intro x hx; simpa using (mem_takeWhile_imp hx).1
  · -- the suffix starts with a smaller item and the list is descending
    intro x hx
    generalize hD : l.dropWhile (fun x => decide (x.score ≥ it.score)) = D at hx
    have hsub : D.Sublist l := by rw [← hD]; exact List.dropWhile_sublist _
    have hdD : DescItems D := List.Pairwise.sublist hsub hd
    cases D with
    | nil => cases hx
    | cons d rest =>
      have hhead := dropWhile_head_fails l d rest hD
      have hds : d.score < it.score := by simpa using hhead
      rcases List.mem_cons.mp hx with rfl | hx
      · exact hds
      · have := (List.pairwise_cons.mp hdD).1 x hx; omega

theorem specInsert_desc (l : List Item) (hd : DescItems l) (it : Item) : DescItems (specInsert l it) := by
  obtain ⟨l₁, l₂, hl, hs, h1, h2⟩ := specInsert_split l hd it
  rw [hs]
  unfold DescItems at *
  rw [hl, List.pairwise_append] at hd
  rw [List.pairwise_append]
  refine ⟨hd.1, ?_, ?_⟩
  · rw [List.pairwise_cons]
    exact ⟨fun b hb => by have := h2 b hb; omega, hd.2.1⟩
  · intro a ha x hx
    rcases List.mem_cons.mp hx with rfl | hx
    · exact h1 a ha
    · exact hd.2.2 a ha x hx

theorem specPush_desc (cap : Int) (l : List Item) (hd : DescItems l) (it : Item) :
    DescItems (specPush cap l it).1 := by
  unfold specPush
  split
  · exact hd
  · split
    · split
      · exact hd
      · split
        · exact specInsert_desc _ (List.Pairwise.sublist (List.dropLast_sublist _) hd) _
        · exact hd
    · exact specInsert_desc _ hd _

theorem stepSpec_desc (cap : Int) (l : List Item) (hd : DescItems l) (o : QOp) :
    DescItems (stepSpec cap l o).1 := by
  cases o with
  | push it _ => exact specPush_desc cap l hd it
  | remove k => exact List.Pairwise.sublist List.eraseP_sublist hd

theorem runSpec_desc (cap : Int) (l : List Item) (hd : DescItems l) (ops : List QOp) :
    DescItems (runSpec cap l ops).1 := by
  induction ops generalizing l with
  | nil => exact hd
  | cons o rest ih => exact ih _ (stepSpec_desc cap l hd o)

theorem specInsert_length (l : List Item) (it : Item) : (specInsert l it).length = l.length + 1 := by
  have := (specInsert_perm l it).length_eq
  simpa using this

theorem specPush_length (cap : Int) (l : List Item) (it : Item) (h : (l.length : Int) ≤ cap) :
    ((specPush cap l it).1.length : Int) ≤ cap := by
  unfold specPush
  split
  · exact h
  · split
    · split
      · exact h
      · rename_i tail hgl
        split
        · rw [specInsert_length, List.length_dropLast]
          have : l ≠ [] := by intro e; rw [e] at hgl; simp at hgl
          have : 0 < l.length := List.length_pos_iff.mpr this
          omega
        · exact h
    · rw [specInsert_length]; omega

theorem stepSpec_length (cap : Int) (l : List Item) (o : QOp) (h : (l.length : Int) ≤ cap) :
    ((stepSpec cap l o).1.length : Int) ≤ cap := by
  cases o with
  | push it _ => exact specPush_length cap l it h
  | remove k =>
    have : (specRemove l k).length ≤ l.length := List.Sublist.length_le List.eraseP_sublist
    show ((specRemove l k).length : Int) ≤ cap
    omega

theorem runSpec_length (cap : Int) (l : List Item) (ops : List QOp) (h : (l.length : Int) ≤ cap) :
    (((runSpec cap l ops).1).length : Int) ≤ cap := by
  induction ops generalizing l with
  | nil => exact h
  | cons o rest ih => exact ih _ (stepSpec_length cap l o h)

/-! ### arrival indices: the reference run with every item stamped by the op that admitted it -/

abbrev SItem := Nat × Item

/-- walk-order relation: higher score first; among equal scores the earlier arrival first -/
def Rank (a b : SItem) : Prop := a.2.score > b.2.score ∨ (a.2.score = b.2.score ∧ a.1 < b.1)

def stampInsert (l : List SItem) (k : Nat) (it : Item) : List SItem :=
  l.takeWhile (fun x => decide (x.2.score ≥ it.score)) ++ (k, it) :: l.dropWhile (fun x => decide (x.2.score ≥ it.score))

/-- `specPush` on stamped items; an admitted item gets the index `k` of the current op -/
def stampPush (cap : Int) (l : List SItem) (k : Nat) (it : Item) : List SItem :=
  if l.any (fun x => decide (x.2.id = it.id)) then l
  else if (l.length : Int) ≥ cap then
    match l.getLast? with
    | none => l
    | some tail =>
      if it.score > tail.2.score ∨ (it.score = tail.2.score ∧ it.cmpBig tail.2 = true) then
        stampInsert l.dropLast k it
      else l
  else stampInsert l k it

/-- `stepSpec` on stamped items -/
def stampStep (cap : Int) (l : List SItem) (k : Nat) : QOp → List SItem
  | .push it _ => stampPush cap l k it
  | .remove id => l.eraseP (fun x => decide (x.2.id = id))

def runStamped (cap : Int) (l : List SItem) (k : Nat) : List QOp → List SItem
  | [] => l
  | o :: rest => runStamped cap (stampStep cap l k o) (k + 1) rest

theorem map_takeWhile_snd (l : List SItem) (p : Item → Bool) :
    (l.takeWhile (fun x => p x.2)).map (·.2) = (l.map (·.2)).takeWhile p := by
  induction l with
  | nil => rfl
  | cons a rest ih =>
    simp only [List.takeWhile_cons, List.map_cons]
    cases p a.2 <;> simp [ih]

theorem map_dropWhile_snd (l : List SItem) (p : Item → Bool) :
    (l.dropWhile (fun x => p x.2)).map (·.2) = (l.map (·.2)).dropWhile p := by
  induction l with
  | nil => rfl
  | cons a rest ih =>
    simp only [List.dropWhile_cons, List.map_cons]
    cases p a.2 <;> simp [ih]

theorem map_eraseP_snd (l : List SItem) (p : Item → Bool) :
    (l.eraseP (fun x => p x.2)).map (·.2) = (l.map (·.2)).eraseP p := by
  induction l with
  | nil => rfl
  | cons a rest ih =>
    simp only [List.eraseP_cons, List.map_cons]
    cases p a.2 <;> simp [ih]

theorem map_dropLast_snd (l : List SItem) : l.dropLast.map (·.2) = (l.map (·.2)).dropLast := by
  induction l with
  | nil => rfl
  | cons a rest ih =>
    cases rest with
    | nil => rfl
    | cons b r => simp only [List.dropLast_cons₂, List.map_cons] at ih ⊢; rw [ih]

theorem getLast?_map_snd (l : List SItem) : (l.map (·.2)).getLast? = l.getLast?.map (·.2) := by
  induction l with
  | nil => rfl
  | cons a rest ih =>
    cases rest with
    | nil => rfl
    | cons b r => simp only [List.map_cons, List.getLast?_cons_cons] at ih ⊢; exact ih

theorem stampInsert_proj (l : List SItem) (k : Nat) (it : Item) :
    (stampInsert l k it).map (·.2) = specInsert (l.map (·.2)) it := by
  unfold stampInsert specInsert
  rw [List.map_append, List.map_cons,
    map_takeWhile_snd l (fun x => decide (x.score ≥ it.score)),
    map_dropWhile_snd l (fun x => decide (x.score ≥ it.score))]

theorem stampPush_proj (cap : Int) (l : List SItem) (k : Nat) (it : Item) :
    (stampPush cap l k it).map (·.2) = (specPush cap (l.map (·.2)) it).1 := by
  unfold stampPush specPush
  rw [List.any_map, List.length_map, getLast?_map_snd]
  have hany : (l.any ((fun x => decide (x.id = it.id)) ∘ fun x => x.2)) = l.any (fun x => decide (x.2.id = it.id)) := rfl
  rw [hany]
  by_cases h1 : l.any (fun x => decide (x.2.id = it.id)) = true
  · simp only [h1, if_true]
  · simp only [h1, Bool.false_eq_true, if_false]
    by_cases h2 : (l.length : Int) ≥ cap
    · simp only [h2, if_true]
      cases hgl : l.getLast? with
      | none => rfl
      | some tail =>
        simp only [Option.map_some]
        by_cases h3 : it.score > tail.2.score ∨ (it.score = tail.2.score ∧ it.cmpBig tail.2 = true)
        · simp only [h3, if_true]; rw [stampInsert_proj, map_dropLast_snd]
        · simp only [h3, if_false]
    · simp only [h2, if_false]; rw [stampInsert_proj]

theorem stampStep_proj (cap : Int) (l : List SItem) (k : Nat) (o : QOp) :
    (stampStep cap l k o).map (·.2) = (stepSpec cap (l.map (·.2)) o).1 := by
  cases o with
  | remove id =>
    show (l.eraseP (fun x => decide (x.2.id = id))).map (·.2) = specRemove (l.map (·.2)) id
    exact map_eraseP_snd l (fun x => decide (x.id = id))
  | push it lvl => exact stampPush_proj cap l k it

theorem rank_ge {a b : SItem} (h : Rank a b) : a.2.score ≥ b.2.score := by
  rcases h with h | h <;> omega

theorem stampInsert_rank (l : List SItem) (k : Nat) (it : Item) (hr : l.Pairwise Rank)
    (hk : ∀ p ∈ l, p.1 < k) : (stampInsert l k it).Pairwise Rank := by
  unfold stampInsert
  have hsplit := List.takeWhile_append_dropWhile (p := fun x : SItem => decide (x.2.score ≥ it.score)) (l := l)
  have hr' := hr
  rw [← hsplit, List.pairwise_append] at hr'
  have hA : ∀ x ∈ l.takeWhile (fun x => decide (x.2.score ≥ it.score)), x.2.score ≥ it.score ∧ x ∈ l := by
    intro x hx; have := mem_takeWhile_imp hx; exact ⟨by simpa using this.1, this.2⟩
  have hB : ∀ x ∈ l.dropWhile (fun x => decide (x.2.score ≥ it.score)), x.2.score < it.score := by
    intro x hx
    generalize hD : l.dropWhile (fun x => decide (x.2.score ≥ it.score)) = D at hx hr'
    cases D with
    | nil => cases hx
    | cons d rest =>
      have hhead := dropWhile_head_fails l d rest hD
      have hds : d.2.score < it.score := by simpa using hhead
      rcases List.mem_cons.mp hx with rfl | hx
      · exact hds
      · have := rank_ge ((List.pairwise_cons.mp hr'.2.1).1 x hx); omega
  rw [List.pairwise_append]
  refine ⟨hr'.1, ?_, ?_⟩
  · rw [List.pairwise_cons]
    exact ⟨fun b hb => Or.inl (hB b hb), hr'.2.1⟩
  · intro a ha x hx
    rcases List.mem_cons.mp hx with rfl | hx
    · have := hA a ha
      have hlt := hk a this.2
      by_cases he : a.2.score = it.score
      · exact Or.inr ⟨he, hlt⟩
      · exact Or.inl (by simp only; omega)
    · exact hr'.2.2 a ha x hx

theorem mem_stampInsert {l : List SItem} {k : Nat} {it : Item} {p : SItem}
    (h : p ∈ stampInsert l k it) : p = (k, it) ∨ p ∈ l := by
  unfold stampInsert at h
  rcases List.mem_append.mp h with h | h
  · exact Or.inr (mem_takeWhile_imp h).2
  · rcases List.mem_cons.mp h with h | h
    · exact Or.inl h
    · exact Or.inr ((List.dropWhile_sublist _).subset h)

/-- members of the next state: old members, or the item pushed by this very op -/
theorem mem_stampStep {cap : Int} {l : List SItem} {k : Nat} {o : QOp} {p : SItem}
    (h : p ∈ stampStep cap l k o) : p ∈ l ∨ ∃ lvl, p.1 = k ∧ o = .push p.2 lvl := by
  cases o with
  | remove id => exact Or.inl (List.eraseP_sublist.subset h)
  | push it lvl =>
    have h : p ∈ stampPush cap l k it := h
    unfold stampPush at h
    split at h
    · exact Or.inl h
    · split at h
      · split at h
        · exact Or.inl h
        · split at h
          · rcases mem_stampInsert h with rfl | h
            · exact Or.inr ⟨lvl, rfl, rfl⟩
            · exact Or.inl ((List.dropLast_sublist _).subset h)
          · exact Or.inl h
      · rcases mem_stampInsert h with rfl | h
        · exact Or.inr ⟨lvl, rfl, rfl⟩
        · exact Or.inl h

theorem stampStep_rank (cap : Int) (l : List SItem) (k : Nat) (o : QOp) (hr : l.Pairwise Rank)
    (hk : ∀ p ∈ l, p.1 < k) : (stampStep cap l k o).Pairwise Rank := by
  cases o with
  | remove id => exact List.Pairwise.sublist List.eraseP_sublist hr
  | push it lvl =>
    show (stampPush cap l k it).Pairwise Rank
    unfold stampPush
    split
    · exact hr
    · split
      · split
        · exact hr
        · split
          · exact stampInsert_rank _ k it (List.Pairwise.sublist (List.dropLast_sublist _) hr)
              (fun p hp => hk p ((List.dropLast_sublist _).subset hp))
          · exact hr
      · exact stampInsert_rank l k it hr hk

/-- the stamped run: projection = reference run, walk order = `Rank`, and every stamp is the index
of the `push` op (in the whole op list `pre ++ ops`) that admitted the item -/
theorem runStamped_spec (cap : Int) (ops : List QOp) :
    ∀ (pre : List QOp) (l : List SItem), l.Pairwise Rank → (∀ p ∈ l, p.1 < pre.length) →
      (∀ p ∈ l, ∃ lvl, (pre ++ ops)[p.1]? = some (.push p.2 lvl)) →
      (runStamped cap l pre.length ops).map (·.2) = (runSpec cap (l.map (·.2)) ops).1 ∧
      (runStamped cap l pre.length ops).Pairwise Rank ∧
      (∀ p ∈ runStamped cap l pre.length ops, ∃ lvl, (pre ++ ops)[p.1]? = some (.push p.2 lvl)) := by
  induction ops with
  | nil => intro pre l hr _ ho; exact ⟨rfl, hr, ho⟩
  | cons o rest ih =>
    intro pre l hr hk ho
    have hassoc : (pre ++ [o]) ++ rest = pre ++ o :: rest := by simp
    have hlen : (pre ++ [o]).length = pre.length + 1 := by simp
    have hk' : ∀ p ∈ stampStep cap l pre.length o, p.1 < (pre ++ [o]).length := by
      intro p hp
      rw [hlen]
      rcases mem_stampStep hp with h | ⟨_, h, _⟩
      · have := hk p h; omega
      · omega
    have ho' : ∀ p ∈ stampStep cap l pre.length o, ∃ lvl, ((pre ++ [o]) ++ rest)[p.1]? = some (.push p.2 lvl) := by
      intro p hp
      rw [hassoc]
      rcases mem_stampStep hp with h | ⟨lvl, h1, h2⟩
      · exact ho p h
      · refine ⟨lvl, ?_⟩
        rw [h1, List.getElem?_append_right (Nat.le_refl _)]
        simp [h2]
    obtain ⟨i1, i2, i3⟩ := ih (pre ++ [o]) (stampStep cap l pre.length o)
      (stampStep_rank cap l pre.length o hr hk) hk' ho'
    rw [hlen] at i1 i2 i3
    rw [hassoc] at i3
    refine ⟨?_, i2, i3⟩
    show (runStamped cap (stampStep cap l pre.length o) (pre.length + 1) rest).map (·.2) = _
    rw [i1, stampStep_proj]
    rfl

end C24
