import Chain33Model.Proofs.C25Reorg
/-!
`connectBestChain` / `maybeAcceptBlock` from an invariant state: never an error for a block whose
parent is indexed with the right height; exact description of the three outcomes.
-/
namespace C25

/-- what is unchanged by `connectBestChain`. -/
def SameSide (s s' : State) : Prop :=
  s'.index = s.index ∧ s'.orphans = s.orphans ∧ s'.tds = s.tds ∧ s'.stored = s.stored ∧
  s'.margin = s.margin ∧ s'.recSeq = s.recSeq

/-- the three outcomes of `connectBestChain` for an index block `b` (total difficulties read
from the table): extend the tip / stay (not heavier, or below the margin) / reorganize. -/
inductive Outcome (s : State) (b : Block) (s' : State) : Res → Prop
  | extend (t : Block) (rest : List Block) : s.best = t :: rest → b.parent = t.id →
      s'.best = b :: s.best → s'.fin = s.fin → s'.txIdx = addTxs s.txIdx b → Outcome s b s' .main
  | stay (t : Block) (rest : List Block) (tt tb : Nat) : s.best = t :: rest → b.parent ≠ t.id →
      s.tds t.id = some tt → s.tds b.id = some tb → (tb ≤ tt ∨ b.height < s.fin + s.margin) →
      s'.best = s.best → s'.fin = s.fin → s'.txIdx = s.txIdx → Outcome s b s' .side
  | reorg (t : Block) (rest : List Block) (tt tb : Nat) : s.best = t :: rest → b.parent ≠ t.id →
      s.tds t.id = some tt → s.tds b.id = some tb → tt < tb → s.fin + s.margin ≤ b.height →
      s'.best = chainTo s.index b.height b → s'.fin = (resetFin s (findFork s b)).fin →
      (∃ f pre1 pre2 rf, chainTo s.index b.height b = pre1 ++ f :: rf ∧ s.best = pre2 ++ f :: rf ∧
        s'.txIdx = pre1.reverse.foldl addTxs (pre2.foldl delTxs s.txIdx)) →
      Outcome s b s' .main

theorem connectBestChain_spec {s : State} (hi : Inv s) {b p : Block} (hb : b ∈ s.index)
    (hp : p ∈ s.index) (hpid : p.id = b.parent) (hh : b.height = p.height + 1) :
    ∃ s' r, connectBestChain s b = (s', r) ∧ Inv s' ∧ SameSide s s' ∧ Outcome s b s' r := by
  obtain ⟨t, rest, hbest⟩ := List.exists_cons_of_ne_nil hi.linked.ne_nil
  have htin : t ∈ s.index := hi.bestIn t (by rw [hbest]; simp)
  obtain ⟨tp, htp, hbtd⟩ := hi.tdRec b hb p hp hpid hh
  by_cases hpar : b.parent = t.id
  · -- extend the tip
    have hpt : p = t := hi.uniq p hp t htin (hpid.trans hpar)
    subst hpt
    obtain ⟨s', hc, hi', hbest', hsr, htx⟩ := connectBlock_inv hi hb hbest hpar hh
    refine ⟨s', .main, ?_, hi', ⟨hsr.1, hsr.2.1, hsr.2.2.1, hsr.2.2.2.1, hsr.2.2.2.2.2.1, hsr.2.2.2.2.2.2⟩,
      .extend p rest hbest hpar hbest' hsr.2.2.2.2.1 htx⟩
    simp only [connectBestChain, hbest, hpar, if_true, hc]
  · obtain ⟨tt, htt⟩ := Option.isSome_iff_exists.mp (hi.tdSome t htin)
    have hptd : s.tds b.parent = some tp := by rw [← hpid]; exact htp
    by_cases hside : b.diff + tp ≤ tt ∨ b.height < s.fin + s.margin
    · obtain ⟨f, _, _, _, hff, _⟩ := findFork_spec hi hb
      refine ⟨s, .side, ?_, hi, ⟨rfl, rfl, rfl, rfl, rfl, rfl⟩,
        .stay t rest tt (b.diff + tp) hbest hpar htt hbtd hside rfl rfl rfl⟩
      simp only [connectBestChain, hbest, hpar, if_false, htt, hptd, hside, if_true, hff]
    · obtain ⟨f, _, _, _, hff, _⟩ := findFork_spec hi hb
      obtain ⟨s', hr, hi', hbest', h1, h2, h3, h4, h5, h6, h7, h8⟩ := reorgTo_spec hi hb
      rw [hff] at hr
      refine ⟨s', .main, ?_, hi', ⟨h1, h2, h3, h4, h5, h6⟩,
        .reorg t rest tt (b.diff + tp) hbest hpar htt hbtd (by omega) (by omega) hbest' h7 h8⟩
      simp only [connectBestChain, hbest, hpar, if_false, htt, hptd, hside, hff, hr]

/-- `Inv` after adding a fresh block whose parent is indexed (store + index). -/
theorem Inv.addBlock {s : State} (hi : Inv s) {b p : Block} (hp : p ∈ s.index) (hpid : p.id = b.parent)
    (hh : b.height = p.height + 1) (hfresh : ∀ x ∈ s.index, x.id ≠ b.id)
    (hforph : ∀ o ∈ s.orphans, o.id ≠ b.id) :
    ∃ s1 tp, storeBlock s b = some s1 ∧ s.tds p.id = some tp ∧ Inv (addIndex s1 b) ∧
      (addIndex s1 b).index = b :: s.index ∧ (addIndex s1 b).orphans = s.orphans ∧
      (addIndex s1 b).best = s.best ∧ (addIndex s1 b).fin = s.fin ∧ (addIndex s1 b).margin = s.margin ∧
      (addIndex s1 b).recSeq = s.recSeq ∧ (addIndex s1 b).tds = upd s.tds b.id (some (b.diff + tp)) ∧
      (addIndex s1 b).txIdx = s.txIdx := by
  obtain ⟨tp, htp⟩ := Option.isSome_iff_exists.mp (hi.tdSome p hp)
  have hst : s.stored b.id = none := by
    cases h : s.stored b.id with
    | none => rfl
    | some x =>
      obtain ⟨hx, hxid⟩ := hi.storedIn _ _ h
      exact absurd hxid (hfresh x hx)
  have hptd : s.tds b.parent = some tp := by rw [← hpid]; exact htp
  refine ⟨{ s with stored := upd s.stored b.id (some b), tds := upd s.tds b.id (some (b.diff + tp)) }, tp,
    ?_, htp, ?_, rfl, rfl, rfl, rfl, rfl, rfl, rfl, rfl⟩
  · simp only [storeBlock, hst, Option.isSome_none, Bool.false_eq_true, if_false, hptd]
  · have hne : ∀ x ∈ s.index, x.id ≠ b.id := hfresh
    constructor
    · -- uniq
      intro x hx y hy hid
      simp only [addIndex] at hx hy
      rcases List.mem_cons.mp hx with hxb | hx <;> rcases List.mem_cons.mp hy with hyb | hy
      · rw [hxb, hyb]
      · rw [hxb] at hid; exact absurd hid.symm (hne y hy)
      · rw [hyb] at hid; exact absurd hid (hne x hx)
      · exact hi.uniq x hx y hy hid
    · -- closed
      intro x hx
      simp only [addIndex] at hx ⊢
      rcases List.mem_cons.mp hx with hxb | hx
      · rw [hxb]; exact Or.inr ⟨p, List.mem_cons_of_mem _ hp, hpid, hh⟩
      · rcases hi.closed x hx with h0 | ⟨q, hq, hqid, hqh⟩
        · exact Or.inl h0
        · exact Or.inr ⟨q, List.mem_cons_of_mem _ hq, hqid, hqh⟩
    · exact hi.linked
    · intro y hy; exact List.mem_cons_of_mem _ (hi.bestIn y hy)
    · intro x hx h0
      simp only [addIndex] at hx
      rcases List.mem_cons.mp hx with hxb | hx
      · rw [hxb] at h0; omega
      · exact hi.zeroIn x hx h0
    · exact hi.h2h
    · exact hi.last
    · intro x hx
      simp only [addIndex] at hx ⊢
      rcases List.mem_cons.mp hx with hxb | hx
      · rw [hxb]; simp
      · rw [upd_other _ _ _ _ (hne x hx)]; exact hi.tdSome x hx
    · intro x hx q hq hqid hqh
      simp only [addIndex] at hx hq ⊢
      rcases List.mem_cons.mp hx with hxb | hx
      · rw [hxb] at hqid hqh ⊢
        rcases List.mem_cons.mp hq with hqb | hq
        · rw [hqb] at hqh; omega
        · have hqp : q = p := hi.uniq q hq p hp (hqid.trans hpid.symm)
          rw [hqp, upd_other _ _ _ _ (hne p hp)]
          exact ⟨tp, htp, by simp⟩
      · rcases List.mem_cons.mp hq with hqb | hq
        · -- the new block as parent of an old one: impossible, old blocks' parents are old
          rcases hi.closed x hx with h0 | ⟨q', hq', hq'id, _⟩
          · omega
          · rw [hqb] at hqid
            exact absurd (hq'id.trans hqid.symm) (hne q' hq')
        · rw [upd_other _ _ _ _ (hne x hx), upd_other _ _ _ _ (hne q hq)]
          exact hi.tdRec x hx q hq hqid hqh
    · intro x hx
      simp only [addIndex] at hx ⊢
      rcases List.mem_cons.mp hx with hxb | hx
      · rw [hxb]; simp
      · rw [upd_other _ _ _ _ (hne x hx)]; exact hi.stored x hx
    · intro i x hx
      simp only [addIndex] at hx ⊢
      by_cases hib : i = b.id
      · rw [hib] at hx ⊢; simp at hx; rw [← hx]; exact ⟨by simp, rfl⟩
      · rw [upd_other _ _ _ _ hib] at hx
        obtain ⟨h1, h2⟩ := hi.storedIn i x hx
        exact ⟨List.mem_cons_of_mem _ h1, h2⟩
    · intro o ho x hx
      simp only [addIndex] at ho hx
      rcases List.mem_cons.mp hx with hxb | hx
      · rw [hxb]; exact fun h => hforph o ho h.symm
      · exact hi.orphFresh o ho x hx
    · exact hi.orphUniq
    · exact hi.seqOk

/-- `maybeAcceptBlock` on a fresh block: either rejected without any change (unknown parent or
height mismatch) or stored, indexed and run through `connectBestChain` without error. -/
theorem maybeAcceptBlock_spec {s : State} (hi : Inv s) {b : Block} (hfresh : ∀ x ∈ s.index, x.id ≠ b.id)
    (hforph : ∀ o ∈ s.orphans, o.id ≠ b.id) :
    (∃ e, maybeAcceptBlock s b = (s, .err e) ∧
        ((lookup s.index b.parent = none) ∨ ∃ p, lookup s.index b.parent = some p ∧ b.height ≠ p.height + 1)) ∨
    (∃ p tp s0 s' r, p ∈ s.index ∧ p.id = b.parent ∧ b.height = p.height + 1 ∧ s.tds p.id = some tp ∧
        maybeAcceptBlock s b = (s', r) ∧ Inv s0 ∧ Inv s' ∧
        s0.index = b :: s.index ∧ s0.orphans = s.orphans ∧ s0.best = s.best ∧ s0.fin = s.fin ∧
        s0.margin = s.margin ∧ s0.recSeq = s.recSeq ∧ s0.tds = upd s.tds b.id (some (b.diff + tp)) ∧
        s0.txIdx = s.txIdx ∧ SameSide s0 s' ∧ Outcome s0 b s' r) := by
  cases hl : lookup s.index b.parent with
  | none =>
    left
    exact ⟨.parentNoExist, by simp only [maybeAcceptBlock, hl], Or.inl rfl⟩
  | some p =>
    obtain ⟨hp, hpid⟩ := lookup_some hl
    by_cases hh : b.height = p.height + 1
    · right
      obtain ⟨s1, tp, hst, htp, hi0, e1, e2, e3, e4, e5, e6, e7, e8⟩ := hi.addBlock hp hpid hh hfresh hforph
      obtain ⟨s', r, hc, hi', hss, hout⟩ := connectBestChain_spec hi0 (b := b) (p := p)
        (by rw [e1]; simp) (by rw [e1]; exact List.mem_cons_of_mem _ hp) hpid hh
      refine ⟨p, tp, addIndex s1 b, s', r, hp, hpid, hh, htp, ?_, hi0, hi', e1, e2, e3, e4, e5, e6, e7, e8, hss, hout⟩
      simp only [maybeAcceptBlock, hl, hh, ne_eq, not_true_eq_false, if_false, hst, hc]
    · left
      exact ⟨.heightNoMatch, by simp only [maybeAcceptBlock, hl, ne_eq, hh, not_false_eq_true, if_true],
        Or.inr ⟨p, rfl, hh⟩⟩

end C25
