import Chain33Model.Model.C25
/-!
Basic characterisation lemmas for the C25 chain model (`saveSeq`, `connectBlock`,
`disconnectBlock`): each successful step is described by an explicit record update.
-/
namespace C25

@[simp] theorem upd_same {α : Type} (f : Map α) (k : Nat) (v : Option α) : upd f k v k = v := by
  simp [upd]

theorem upd_other {α : Type} (f : Map α) (k x : Nat) (v : Option α) (h : x ≠ k) : upd f k v x = f x := by
  simp [upd, h]

theorem upd_upd_none {α : Type} (f : Map α) (k : Nat) (v : Option α) (h : f k = none) :
    upd (upd f k v) k none = f := by
  funext x
  by_cases hx : x = k
  · subst hx; simp [upd, h]
  · simp [upd, hx]

/-- the sequence part of a state after `saveSeq`. -/
def seqAfter (s : State) (isAdd : Bool) (b : Block) : State :=
  { s with seqTab := upd s.seqTab (s.lastSeq + 1).toNat (some (isAdd, b.id)),
           hashSeq := if isAdd then upd s.hashSeq b.id (some (s.lastSeq + 1).toNat) else s.hashSeq,
           lastSeq := s.lastSeq + 1 }

theorem saveSeq_ok {s s' : State} {a : Bool} {b : Block} (h : saveSeq s a b = .ok s') :
    (s.recSeq = false ∧ s' = s) ∨
    (s.recSeq = true ∧ ¬ (s.lastSeq + 1 = 0 ∧ b.height ≠ 0) ∧ s' = seqAfter s a b) := by
  unfold saveSeq at h
  by_cases hr : s.recSeq
  · right
    simp only [hr, Bool.not_true, Bool.false_eq_true, if_false] at h
    split at h
    · simp at h
    · rename_i hn
      simp only [Except.ok.injEq] at h
      refine ⟨hr, hn, ?_⟩
      subst h
      simp [seqAfter, hr]
  · left
    simp only [hr, Bool.not_false, if_true, Except.ok.injEq] at h
    simp at hr
    exact ⟨hr, h.symm⟩

theorem saveSeq_succeeds (s : State) (a : Bool) (b : Block) (h : 0 ≤ s.lastSeq ∨ s.recSeq = false) :
    ∃ s', saveSeq s a b = .ok s' := by
  unfold saveSeq
  by_cases hr : s.recSeq
  · simp only [hr, Bool.not_true, Bool.false_eq_true, if_false]
    have : ¬ (s.lastSeq + 1 = 0 ∧ b.height ≠ 0) := by
      rcases h with h | h
      · omega
      · simp [hr] at h
    simp only [this, if_false]
    exact ⟨_, rfl⟩
  · simp [hr]

/-- non-sequence fields are untouched by `saveSeq`. -/
theorem saveSeq_frame {s s' : State} {a : Bool} {b : Block} (h : saveSeq s a b = .ok s') :
    s'.fin = s.fin ∧ s'.margin = s.margin ∧ s'.recSeq = s.recSeq ∧ s'.index = s.index ∧
    s'.orphans = s.orphans ∧ s'.best = s.best ∧ s'.stored = s.stored ∧ s'.tds = s.tds ∧
    s'.h2h = s.h2h ∧ s'.last = s.last ∧ s'.txIdx = s.txIdx := by
  rcases saveSeq_ok h with ⟨_, rfl⟩ | ⟨_, _, rfl⟩ <;> simp [seqAfter]

theorem connectBlock_ok {s s1 : State} {b : Block} (h : connectBlock s b = .ok s1) :
    ∃ tip rest sq ptd, s.best = tip :: rest ∧ b.parent = tip.id ∧ saveSeq s true b = .ok sq ∧
      s.tds b.parent = some ptd ∧
      s1 = { sq with stored := upd s.stored b.id (some b), h2h := upd s.h2h b.height (some b.id),
                     last := b.height, tds := upd s.tds b.id (some (b.diff + ptd)),
                     best := b :: s.best, txIdx := addTxs s.txIdx b } := by
  unfold connectBlock at h
  split at h
  · simp at h
  · rename_i tip rest hbest
    split at h
    · simp at h
    · rename_i hp
      split at h
      · simp at h
      · rename_i sq hsq
        have hf := saveSeq_frame hsq
        split at h
        · simp at h
        · rename_i ptd hptd
          simp only [Except.ok.injEq] at h
          refine ⟨tip, rest, sq, ptd, hbest, by simpa using hp, hsq, ?_, ?_⟩
          · rw [← hf.2.2.2.2.2.2.2.1]; exact hptd
          · rw [← h, hf.2.2.2.2.2.2.1, hf.2.2.2.2.2.2.2.1, hf.2.2.2.2.2.2.2.2.1, hf.2.2.2.2.2.1, hf.2.2.2.2.2.2.2.2.2.2]

theorem disconnectBlock_ok {s s1 : State} {b : Block} (h : disconnectBlock s b = .ok s1) :
    ∃ tip rest sq, s.best = tip :: rest ∧ b.id = tip.id ∧ saveSeq s false b = .ok sq ∧
      s1 = { sq with h2h := upd s.h2h b.height none, last := (b.height : Int) - 1, best := rest,
                     txIdx := delTxs s.txIdx b } := by
  unfold disconnectBlock at h
  split at h
  · simp at h
  · rename_i tip rest hbest
    split at h
    · simp at h
    · rename_i hp
      split at h
      · simp at h
      · rename_i sq hsq
        have hf := saveSeq_frame hsq
        simp only [Except.ok.injEq] at h
        refine ⟨tip, rest, sq, hbest, by simpa using hp, hsq, ?_⟩
        rw [← h, hf.2.2.2.2.2.2.2.2.1, hf.2.2.2.2.2.2.2.2.2.2]

end C25
