import Chain33Model.Model.C25
import Chain33Model.Proofs.C25Basic
/-!
List-level facts for the chain model: unique ids and `lookup`, parent-linked chains
(`Linked`), `chainTo` (= following parent pointers), `contains`, the height→hash view.
-/
namespace C25

def UniqIds (l : List Block) : Prop := ∀ a ∈ l, ∀ b ∈ l, a.id = b.id → a = b

theorem lookup_some {idx : List Block} {i : Nat} {p : Block} (h : lookup idx i = some p) :
    p ∈ idx ∧ p.id = i := by
  unfold lookup at h
  exact ⟨List.mem_of_find?_eq_some h, by simpa using List.find?_some h⟩

theorem lookup_none {idx : List Block} {i : Nat} (h : lookup idx i = none) : ∀ b ∈ idx, b.id ≠ i := by
  unfold lookup at h
  intro b hb
  have := List.find?_eq_none.mp h b hb
  simpa using this

theorem lookup_of_mem {idx : List Block} {b : Block} (hu : UniqIds idx) (hb : b ∈ idx) :
    lookup idx b.id = some b := by
  cases h : lookup idx b.id with
  | none => exact absurd rfl (lookup_none h b hb)
  | some p => obtain ⟨hp, hid⟩ := lookup_some h; rw [hu p hp b hb hid]

theorem haveBlock_iff (s : State) (i : Nat) : haveBlock s i = true ↔ ∃ b ∈ s.index, b.id = i := by
  unfold haveBlock
  cases h : lookup s.index i with
  | none => simp; exact fun b hb => lookup_none h b hb
  | some p => simp; exact ⟨p, (lookup_some h).1, (lookup_some h).2⟩

/-- `c` is a parent-linked chain (tip first) that ends in a height-0 block. -/
def Linked : List Block → Prop
  | [] => False
  | [g] => g.height = 0
  | c :: p :: rest => c.parent = p.id ∧ c.height = p.height + 1 ∧ Linked (p :: rest)

theorem Linked.tail {x y : Block} {r : List Block} (h : Linked (x :: y :: r)) : Linked (y :: r) := h.2.2

theorem Linked.length : ∀ {x : Block} {r : List Block}, Linked (x :: r) → r.length = x.height := by
  intro x r
  induction r generalizing x with
  | nil => intro h; simp [Linked] at h; simp [h]
  | cons y r ih => intro h; have := ih h.tail; simp [this, h.2.1]

theorem Linked.height_lt : ∀ {x : Block} {r : List Block}, Linked (x :: r) → ∀ y ∈ r, y.height < x.height := by
  intro x r
  induction r generalizing x with
  | nil => intro _ y hy; cases hy
  | cons z r ih =>
    intro h y hy
    have hz : x.height = z.height + 1 := h.2.1
    rcases List.mem_cons.mp hy with rfl | hy
    · omega
    · have := ih h.tail y hy; omega

theorem Linked.suffix : ∀ (l : List Block) {x : Block} {r : List Block}, Linked (l ++ x :: r) → Linked (x :: r) := by
  intro l
  induction l with
  | nil => intro x r h; simpa using h
  | cons a l ih =>
    intro x r h
    cases l with
    | nil => exact h.tail
    | cons b l => exact ih (by simpa using h.tail)

theorem Linked.ne_nil {c : List Block} (h : Linked c) : c ≠ [] := by
  intro hc; subst hc; exact h

/-- in a linked chain the block at a given height is unique. -/
theorem Linked.find_height : ∀ {c : List Block}, Linked c → ∀ x ∈ c,
    c.find? (fun b => b.height == x.height) = some x := by
  intro c
  induction c with
  | nil => intro h; exact absurd h (by simp [Linked])
  | cons a r ih =>
    intro h x hx
    rcases List.mem_cons.mp hx with rfl | hx
    · simp
    · have hlt := h.height_lt x hx
      have hne : (a.height == x.height) = false := by simp; omega
      rw [List.find?_cons, hne]
      cases r with
      | nil => cases hx
      | cons b r => exact ih h.tail x hx

theorem Linked.find_height_none {c : List Block} {x : Block} {r : List Block} (hc : c = x :: r) (h : Linked c)
    (k : Nat) (hk : x.height < k) : c.find? (fun b => b.height == k) = none := by
  subst hc
  apply List.find?_eq_none.mpr
  intro y hy
  rcases List.mem_cons.mp hy with rfl | hy
  · simp; omega
  · have := h.height_lt y hy; simp; omega

/-- following parent pointers from the head of a linked chain whose blocks are all in the index
reproduces the chain. -/
theorem chainTo_of_linked {idx : List Block} (hu : UniqIds idx) :
    ∀ (r : List Block) (x : Block), (∀ y ∈ x :: r, y ∈ idx) → Linked (x :: r) →
      chainTo idx x.height x = x :: r := by
  intro r
  induction r with
  | nil =>
    intro x _ h
    have : x.height = 0 := h
    rw [this]; rfl
  | cons p r ih =>
    intro x hin h
    have hp : x.parent = p.id := h.1
    have hh : x.height = p.height + 1 := h.2.1
    have hpi : p ∈ idx := hin p (by simp)
    rw [hh]
    simp only [chainTo, hp, lookup_of_mem hu hpi]
    rw [ih p (fun y hy => hin y (List.mem_cons_of_mem _ hy)) h.tail]

/-- the index is closed under parents, with consistent heights. -/
def ParentClosed (idx : List Block) : Prop :=
  ∀ b ∈ idx, b.height = 0 ∨ ∃ p ∈ idx, p.id = b.parent ∧ b.height = p.height + 1

theorem chainTo_linked {idx : List Block} (hu : UniqIds idx) (hc : ParentClosed idx) :
    ∀ (n : Nat) (b : Block), b ∈ idx → b.height = n →
      ∃ r, chainTo idx n b = b :: r ∧ Linked (b :: r) ∧ ∀ y ∈ r, y ∈ idx := by
  intro n
  induction n with
  | zero =>
    intro b _ hn
    exact ⟨[], rfl, hn, fun _ h => by cases h⟩
  | succ n ih =>
    intro b hb hn
    rcases hc b hb with h0 | ⟨p, hp, hid, hh⟩
    · omega
    · have hpn : p.height = n := by omega
      obtain ⟨r, hr, hl, hin⟩ := ih p hp hpn
      refine ⟨p :: r, ?_, ⟨hid.symm, hh, hl⟩, ?_⟩
      · simp only [chainTo, ← hid, lookup_of_mem hu hp, hr]
      · intro y hy
        rcases List.mem_cons.mp hy with rfl | hy
        · exact hp
        · exact hin y hy

/-- `contains` decides membership for index blocks when the best chain is linked. -/
theorem contains_iff {idx best : List Block} (hu : UniqIds idx) (hl : Linked best)
    (hsub : ∀ y ∈ best, y ∈ idx) {n : Block} (hn : n ∈ idx) : contains best n = true ↔ n ∈ best := by
  unfold contains
  constructor
  · intro h
    split at h
    · rename_i b hb
      have hbm := List.mem_of_find?_eq_some hb
      have : b.id = n.id := by simpa using h
      rw [← hu b (hsub b hbm) n hn this]; exact hbm
    · cases h
  · intro h
    rw [hl.find_height n h]; simp

/-- the height→hash view of a chain. -/
def view (c : List Block) (h : Nat) : Option Nat := (c.find? (fun b => b.height == h)).map (·.id)

theorem view_cons_linked {x : Block} {r : List Block} (h : Nat) :
    view (x :: r) h = if x.height = h then some x.id else view r h := by
  unfold view
  rw [List.find?_cons]
  by_cases hx : x.height = h
  · simp [hx]
  · have : (x.height == h) = false := by simpa using hx
    simp [this, hx]

theorem view_above {x : Block} {r : List Block} (hl : Linked (x :: r)) (h : Nat) (hh : x.height < h) :
    view (x :: r) h = none := by
  unfold view
  rw [hl.find_height_none rfl h hh]; rfl

end C25
