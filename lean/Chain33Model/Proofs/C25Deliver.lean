import Chain33Model.Proofs.C25Accept
/-!
The structural invariant `Inv` is preserved by `processBlock` for ANY delivered block, hence
holds in every state reachable from `init`.
-/
namespace C25

theorem Inv.dropOrphan {s : State} (hi : Inv s) (id : Nat) : Inv (dropOrphan s id) :=
  ⟨hi.uniq, hi.closed, hi.linked, hi.bestIn, hi.zeroIn, hi.h2h, hi.last, hi.tdSome, hi.tdRec, hi.stored,
   hi.storedIn,
   fun o ho => hi.orphFresh o (List.mem_filter.mp ho).1,
   fun a ha b hb => hi.orphUniq a (List.mem_filter.mp ha).1 b (List.mem_filter.mp hb).1,
   hi.seqOk⟩

theorem dropOrphan_fresh (s : State) (id : Nat) : ∀ o ∈ (dropOrphan s id).orphans, o.id ≠ id := by
  intro o ho
  have := (List.mem_filter.mp ho).2
  simpa using this

theorem Inv.addOrphan {s : State} (hi : Inv s) {b : Block} (hfresh : ∀ x ∈ s.index, x.id ≠ b.id)
    (hforph : ∀ o ∈ s.orphans, o.id ≠ b.id) : Inv (addOrphan s b) := by
  refine ⟨hi.uniq, hi.closed, hi.linked, hi.bestIn, hi.zeroIn, hi.h2h, hi.last, hi.tdSome, hi.tdRec,
    hi.stored, hi.storedIn, ?_, ?_, hi.seqOk⟩
  · intro o ho x hx
    simp only [C25.addOrphan] at ho
    rcases List.mem_append.mp ho with h | h
    · exact hi.orphFresh o h x hx
    · simp at h; rw [h]; exact hfresh x hx
  · intro a ha c hc hid
    simp only [C25.addOrphan] at ha hc
    rcases List.mem_append.mp ha with h1 | h1 <;> rcases List.mem_append.mp hc with h2 | h2
    · exact hi.orphUniq a h1 c h2 hid
    · simp at h2; rw [h2] at hid; exact absurd hid (hforph a h1)
    · simp at h1; rw [h1] at hid; exact absurd hid.symm (hforph c h2)
    · simp at h1 h2; rw [h1, h2]

theorem maybeAcceptBlock_inv {s : State} (hi : Inv s) {b : Block} (hfresh : ∀ x ∈ s.index, x.id ≠ b.id)
    (hforph : ∀ o ∈ s.orphans, o.id ≠ b.id) : Inv (maybeAcceptBlock s b).1 := by
  rcases maybeAcceptBlock_spec hi hfresh hforph with ⟨e, he, _⟩ | ⟨p, tp, s0, s', r, _, _, _, _, he, _, hi', _⟩
  · rw [he]; exact hi
  · rw [he]; exact hi'

theorem processOrphans_inv : ∀ (fuel : Nat) (q : List Nat) (s : State), Inv s →
    Inv (processOrphans fuel q s).1 := by
  intro fuel
  induction fuel with
  | zero => intro q s h; simpa [processOrphans] using h
  | succ n ih =>
    intro q s h
    cases q with
    | nil => simpa [processOrphans] using h
    | cons hd rest =>
      simp only [processOrphans]
      split
      · exact ih rest s h
      · rename_i o ho
        have hom : o ∈ s.orphans := List.mem_of_find?_eq_some ho
        have h2 := maybeAcceptBlock_inv (h.dropOrphan o.id) (b := o)
          (fun x hx => h.orphFresh o hom x hx) (dropOrphan_fresh s o.id)
        split
        · rename_i s2 e heq; rw [heq] at h2; exact h2
        · rename_i s2 r hne heq; rw [heq] at h2; exact ih _ s2 h2

theorem Inv.unorphan {s : State} (hi : Inv s) (b : Block) : Inv (unorphan s b) := by
  unfold C25.unorphan
  split
  · exact hi.dropOrphan _
  · exact hi

theorem unorphan_fresh (s : State) (b : Block) : ∀ o ∈ (unorphan s b).orphans, o.id ≠ b.id := by
  unfold unorphan
  split
  · exact dropOrphan_fresh s b.id
  · rename_i h
    intro o ho hid
    apply h
    simp only [isKnownOrphan, List.any_eq_true]
    exact ⟨o, ho, by simpa using hid⟩

theorem unorphan_index (s : State) (b : Block) : (unorphan s b).index = s.index := by
  unfold unorphan; split <;> rfl

theorem acceptAndDrain_inv {s : State} (hi : Inv s) {b : Block} (hfresh : ∀ x ∈ s.index, x.id ≠ b.id)
    (hforph : ∀ o ∈ s.orphans, o.id ≠ b.id) : Inv (acceptAndDrain s b).1 := by
  unfold acceptAndDrain
  have h1 := maybeAcceptBlock_inv hi hfresh hforph
  split
  · rename_i s1 e heq; rw [heq] at h1; exact h1
  · rename_i s1 r hne heq
    rw [heq] at h1
    have h2 := processOrphans_inv (orphanFuel s1) [b.id] s1 h1
    split <;> (rename_i heq2; rw [heq2] at h2; exact h2)

theorem not_haveBlock_fresh {s : State} {i : Nat} (h : ¬ haveBlock s i = true) : ∀ x ∈ s.index, x.id ≠ i := by
  intro x hx hid
  exact h ((haveBlock_iff s i).mpr ⟨x, hx, hid⟩)

/-- **Structural invariant, any delivery.** -/
theorem processBlock_inv {s : State} (hi : Inv s) (b : Block) : Inv (processBlock s b).1 := by
  unfold processBlock
  split
  · exact hi
  · rename_i hnb
    split
    · exact hi
    · have hfresh : ∀ x ∈ (unorphan s b).index, x.id ≠ b.id := by
        rw [unorphan_index]; exact not_haveBlock_fresh hnb
      split
      · exact (hi.unorphan b).addOrphan hfresh (unorphan_fresh s b)
      · exact acceptAndDrain_inv (hi.unorphan b) hfresh (unorphan_fresh s b)

theorem init_inv (fin margin : Nat) (r : Bool) (g : Block) (hg : g.height = 0) : Inv (init fin margin r g) := by
  constructor
  · intro a ha b hb _; simp [init] at ha hb; rw [ha, hb]
  · intro b hb; simp [init] at hb; rw [hb]; exact Or.inl hg
  · exact hg
  · intro y hy; simpa [init] using hy
  · intro b hb _; simpa [init] using hb
  · intro h
    simp only [init, view, List.find?_cons, List.find?_nil, hg]
    by_cases hh : h = 0
    · subst hh; simp
    · rw [upd_other _ _ _ _ hh]
      have : ((0 : Nat) == h) = false := by simp; omega
      simp [this]
  · intro t r' h; simp [init] at h ⊢; rw [h.1]
  · intro b hb; simp [init] at hb; rw [hb]; simp [init]
  · intro b hb p hp _ hh; simp [init] at hb hp; rw [hb, hp] at hh; omega
  · intro b hb; simp [init] at hb; rw [hb]; simp [init]
  · intro i b hs
    simp only [init] at hs ⊢
    by_cases hi : i = g.id
    · subst hi; simp at hs; rw [← hs]; simp
    · rw [upd_other _ _ _ _ hi] at hs; cases hs
  · intro o ho; simp [init] at ho
  · intro a ha; simp [init] at ha
  · intro _; cases r <;> simp_all [init]

theorem deliverAll_inv (fin margin : Nat) (r : Bool) (g : Block) (hg : g.height = 0) (bs : List Block) :
    Inv (deliverAll (init fin margin r g) bs) := by
  have : ∀ (bs : List Block) (s : State), Inv s → Inv (deliverAll s bs) := by
    intro bs
    induction bs with
    | nil => intro s h; exact h
    | cons b bs ih => intro s h; exact ih _ (processBlock_inv h b)
  exact this bs _ (init_inv fin margin r g hg)

end C25
