import Chain33Model.Model.C25Ext
import Chain33Model.Proofs.C25Fresh
import Chain33Model.Proofs.C25Lift
/-!
The extension layer (`Model/C25Ext.lean`) against the idealised chain model:
* while no orphan has expired and the pool is below `maxOrphanBlocks`, `processBlockX` is
  `C25.processBlock` on the chain state (so every C25 theorem transfers);
* for deliveries drawn from a tree `T` with `|T| ≤ maxOrphanBlocks` and a run shorter than the
  orphan expiry, these conditions hold in every reachable state;
* finaliser requests bounded by `Fmax` keep the tree invariant `TBase g T Fmax`.
-/
namespace C25X
open C25

class LawfulOMap (M : Type) [OMap M] : Prop where
  get_emp : ∀ k, OMap.get (OMap.emp : M) k = none
  get_ins : ∀ (m : M) (k : Nat) (v : Nat × Nat) (a : Nat),
    OMap.get (OMap.ins m k v) a = if a = k then some v else OMap.get m a

instance : LawfulOMap (Map (Nat × Nat)) where
  get_emp := fun _ => rfl
  get_ins := by intro m k v a; simp [OMap.get, OMap.ins, upd]

instance : LawfulOMap (Std.HashMap Nat (Nat × Nat)) where
  get_emp := fun _ => Std.HashMap.getElem?_empty
  get_ins := by
    intro m k v a
    show (m.insert k v)[a]? = _
    rw [Std.HashMap.getElem?_insert]
    by_cases h : a = k
    · subst h; simp
    · have : (k == a) = false := by simp; exact fun h' => h h'.symm
      simp [this, h]
      rfl

variable {M : Type} [OMap M]

/-- pool entries have pairwise different hashes (as list positions, not only as values). -/
def ON (s : State) : Prop := s.orphans.Pairwise (fun a b => a.id ≠ b.id)

theorem putOrphan_base (x : XState M) (old : Option (Nat × Nat)) (b : Block) :
    (putOrphan x x.base.orphans old b).base = addOrphan x.base b := rfl

/-- `AddOrphanBlock` adds and nothing else when no orphan is expired and the pool is not full. -/
theorem addOrphanX_eq (x : XState M) (b : Block)
    (hne : ∀ o ∈ x.base.orphans, isExpired x o.id = false) (hlen : x.base.orphans.length + 1 ≤ x.lim) :
    addOrphanX x b =
      (putOrphan x x.base.orphans (pickOldest x.oldest (minStamp x x.base.orphans)) b, .orphan) := by
  have hf : x.base.orphans.filter (fun o => !isExpired x o.id) = x.base.orphans := by
    apply List.filter_eq_self.mpr
    intro o ho; simp [hne o ho]
  simp only [addOrphanX, hf]
  have : ¬ (x.base.orphans.length + 1 > x.lim) := by omega
  simp only [this, if_false]

theorem unorphan_length_le (s : State) (b : Block) : (unorphan s b).orphans.length ≤ s.orphans.length := by
  unfold unorphan
  split
  · exact List.length_filter_le _ _
  · exact Nat.le_refl _

/-! ### the pool has no duplicate entries; its size is bounded by the tree -/

theorem maybeAcceptBlock_orphans {s : State} (hi : Inv s) {b : Block} (hfresh : ∀ x ∈ s.index, x.id ≠ b.id)
    (hforph : ∀ o ∈ s.orphans, o.id ≠ b.id) : (maybeAcceptBlock s b).1.orphans = s.orphans := by
  rcases maybeAcceptBlock_spec hi hfresh hforph with ⟨e, he, _⟩ |
    ⟨p, tp, s0, s', r, _, _, _, _, he, _, _, _, e2, _, _, _, _, _, _, hss, _⟩
  · rw [he]
  · rw [he]; exact hss.2.1.trans e2

theorem processOrphans_sublist : ∀ (fuel : Nat) (q : List Nat) (s : State), Inv s →
    (processOrphans fuel q s).1.orphans.Sublist s.orphans := by
  intro fuel
  induction fuel with
  | zero => intro q s _; simp [processOrphans]
  | succ n ih =>
    intro q s h
    cases q with
    | nil => simp [processOrphans]
    | cons hd rest =>
      simp only [processOrphans]
      split
      · exact ih rest s h
      · rename_i o ho
        have hom : o ∈ s.orphans := List.mem_of_find?_eq_some ho
        have hfr : ∀ x ∈ (dropOrphan s o.id).index, x.id ≠ o.id := fun x hx => h.orphFresh o hom x hx
        have h1 := maybeAcceptBlock_orphans (h.dropOrphan o.id) (b := o) hfr (dropOrphan_fresh s o.id)
        have h2 := maybeAcceptBlock_inv (h.dropOrphan o.id) (b := o) hfr (dropOrphan_fresh s o.id)
        have hsub : (dropOrphan s o.id).orphans.Sublist s.orphans := List.filter_sublist
        split
        · rename_i s2 e heq; rw [heq] at h1; simp only at h1 ⊢; rw [h1]; exact hsub
        · rename_i s2 r hne heq
          rw [heq] at h1 h2
          simp only at h1 h2
          exact (ih _ s2 h2).trans (by rw [h1]; exact hsub)

theorem unorphan_sublist (s : State) (b : Block) : (unorphan s b).orphans.Sublist s.orphans := by
  unfold unorphan
  split
  · exact List.filter_sublist
  · exact List.Sublist.refl _

theorem on_append {l : List Block} {b : Block} (h : l.Pairwise (fun a c => a.id ≠ c.id))
    (hb : ∀ o ∈ l, o.id ≠ b.id) : (l ++ [b]).Pairwise (fun a c => a.id ≠ c.id) := by
  rw [List.pairwise_append]
  refine ⟨h, by simp, ?_⟩
  intro a ha c hc
  simp at hc
  rw [hc]; exact hb a ha

/-- `ON` is preserved by every delivery (any block). -/
theorem processBlock_on {s : State} (hi : Inv s) (ho : ON s) (b : Block) : ON (processBlock s b).1 := by
  unfold processBlock
  split
  · exact ho
  · rename_i hnb
    split
    · exact ho
    · have hfresh : ∀ x ∈ (unorphan s b).index, x.id ≠ b.id := by
        rw [unorphan_index]; exact not_haveBlock_fresh hnb
      have ho0 : ON (unorphan s b) := List.Pairwise.sublist (unorphan_sublist s b) ho
      split
      · exact on_append ho0 (unorphan_fresh s b)
      · unfold acceptAndDrain
        have h1 := maybeAcceptBlock_orphans (hi.unorphan b) hfresh (unorphan_fresh s b)
        have h2 := maybeAcceptBlock_inv (hi.unorphan b) hfresh (unorphan_fresh s b)
        split
        · rename_i s1 e heq; rw [heq] at h1; simp only at h1 ⊢; unfold ON; rw [h1]; exact ho0
        · rename_i s1 r hne heq
          rw [heq] at h1 h2
          simp only at h1 h2
          have h3 := processOrphans_sublist (orphanFuel s1) [b.id] s1 h2
          have : ON (processOrphans (orphanFuel s1) [b.id] s1).1 :=
            List.Pairwise.sublist h3 (by rw [h1]; exact ho0)
          split <;> (rename_i heq2; rw [heq2] at this; exact this)

/-- one delivery on the extension layer = one delivery on the chain model, as long as no orphan
has expired and the pool (without `b`) leaves room for one more.  The metadata table changes only
when `b` enters the pool through `AddOrphanBlock`; otherwise the pool only shrinks. -/
theorem processBlockX_eq (x : XState M) (b : Block) (hi : Inv x.base)
    (hne : ∀ o ∈ x.base.orphans, isExpired x o.id = false)
    (hlen : (unorphan x.base b).orphans.length + 1 ≤ x.lim) :
    (processBlockX x b).1.base = (processBlock x.base b).1 ∧
    (processBlockX x b).2 = (processBlock x.base b).2 ∧
    (processBlockX x b).1.now = x.now ∧ (processBlockX x b).1.lim = x.lim ∧
    (processBlockX x b).1.ttl = x.ttl ∧
    (((processBlockX x b).1.omap = x.omap ∧ ∀ o ∈ (processBlock x.base b).1.orphans, o ∈ x.base.orphans) ∨
      (processBlockX x b).1.omap = OMap.ins x.omap b.id (x.now + x.ttl, x.stamp)) := by
  unfold processBlockX processBlock
  dsimp only
  split
  · exact ⟨rfl, rfl, rfl, rfl, rfl, Or.inl ⟨rfl, fun o ho => ho⟩⟩
  · rename_i hnb
    split
    · exact ⟨rfl, rfl, rfl, rfl, rfl, Or.inl ⟨rfl, fun o ho => ho⟩⟩
    · split
      · have hne' : ∀ o ∈ ({ x with base := unorphan x.base b } : XState M).base.orphans,
            isExpired { x with base := unorphan x.base b } o.id = false := by
          intro o ho
          exact hne o ((unorphan_sublist x.base b).subset ho)
        rw [addOrphanX_eq { x with base := unorphan x.base b } b hne' hlen]
        exact ⟨rfl, rfl, rfl, rfl, rfl, Or.inr rfl⟩
      · refine ⟨rfl, rfl, rfl, rfl, rfl, Or.inl ⟨rfl, ?_⟩⟩
        have hfresh : ∀ y ∈ (unorphan x.base b).index, y.id ≠ b.id := by
          rw [unorphan_index]; exact not_haveBlock_fresh hnb
        have h1 := maybeAcceptBlock_orphans (hi.unorphan b) hfresh (unorphan_fresh x.base b)
        have h2 := maybeAcceptBlock_inv (hi.unorphan b) hfresh (unorphan_fresh x.base b)
        have hsub0 := (unorphan_sublist x.base b).subset
        unfold acceptAndDrain
        split
        · rename_i s1 e heq
          rw [heq] at h1; simp only at h1
          intro o ho; simp only at ho; rw [h1] at ho; exact hsub0 ho
        · rename_i s1 r hne' heq
          rw [heq] at h1 h2; simp only at h1 h2
          have h3 := (processOrphans_sublist (orphanFuel s1) [b.id] s1 h2).subset
          intro o ho
          have : o ∈ (processOrphans (orphanFuel s1) [b.id] s1).1.orphans := by
            split at ho <;> (rename_i heq2; rw [heq2]; exact ho)
          exact hsub0 (h1 ▸ h3 this)

/-- pigeonhole: a list without repeated hashes whose members all lie in `T` is no longer than `T`. -/
theorem length_le_of_on : ∀ (l T : List Block), l.Pairwise (fun a c => a.id ≠ c.id) →
    (∀ o ∈ l, o ∈ T) → l.length ≤ T.length := by
  intro l
  induction l with
  | nil => intro T _ _; simp
  | cons a l ih =>
    intro T hp hsub
    have haT : a ∈ T := hsub a (by simp)
    rw [List.pairwise_cons] at hp
    have h1 : ∀ o ∈ l, o ∈ T.erase a := by
      intro o ho
      have hne : o ≠ a := fun h => hp.1 o ho (by rw [h])
      exact (List.mem_erase_of_ne hne).mpr (hsub o (List.mem_cons_of_mem _ ho))
    have h2 := ih (T.erase a) hp.2 h1
    rw [List.length_erase_of_mem haT] at h2
    have : 0 < T.length := List.length_pos_of_mem haT
    simp only [List.length_cons]
    omega

/-- a delivery of a tree block is never answered with an error other than "already have it". -/
theorem processBlock_tree_res {g : Block} {T : List Block} {F : Nat} (ht : Tree g T) {s : State}
    (hs : TBase g T F s) (ho : OrphPar s) {b : Block} (hb : b ∈ g :: T) :
    Res.fine (processBlock s b).2 = true := by
  unfold processBlock
  by_cases hhave : haveBlock s b.id = true
  · simp only [hhave, if_true]; rfl
  · simp only [hhave, Bool.false_eq_true, if_false]
    by_cases hko : isKnownOrphan s b.id = true ∧ (!haveBlock s b.parent) = true
    · simp only [hko, and_self, if_true]; rfl
    · simp only [hko, if_false]
      have hs0 := hs.unorphan b
      have hidx0 := unorphan_index s b
      have hfresh0 : ∀ x ∈ (unorphan s b).index, x.id ≠ b.id := by
        rw [hidx0]; exact not_haveBlock_fresh hhave
      have hforph0 := unorphan_fresh s b
      have hop0 : OrphPar (unorphan s b) := by
        intro o hom x hx
        rw [hidx0] at hx
        exact ho o (unorphan_orphans_sub s b o hom) x hx
      have hhp : haveBlock (unorphan s b) b.parent = haveBlock s b.parent := by
        simp only [haveBlock, hidx0]
      by_cases hpar : haveBlock s b.parent = true
      · simp only [hhp, hpar, Bool.not_true, Bool.false_eq_true, if_false]
        obtain ⟨p, hp, hpid⟩ := (haveBlock_iff s b.parent).mp hpar
        obtain ⟨s1, r, hacc, hr, hs1, hidx1, horph1⟩ := accept_tbase ht hs0 hb hfresh0 hforph0
          (p := p) (by rw [hidx0]; exact hp) hpid
        obtain ⟨s', hrun, _⟩ := processOrphans_tree ht (orphanFuel s1) [b.id] s1 hs1
          (fun i hi => by simp at hi; rw [hi, hidx1]; exact ⟨b, by simp, rfl⟩)
          (fun o hom x hx hid => by
            rw [hidx1] at hx; rw [horph1] at hom
            rcases List.mem_cons.mp hx with hxb | hx
            · rw [hxb] at hid; rw [← hid]; simp
            · exact absurd hid (hop0 o hom x hx))
          (by simp [orphanFuel])
        have hres : acceptAndDrain (unorphan s b) b = (s', r) := by
          simp only [acceptAndDrain, hacc]
          rcases hr with hr | hr <;> (rw [hr]; simp only [hrun])
        rw [hres]
        rcases hr with hr | hr <;> (rw [hr]; rfl)
      · have hpar' : haveBlock s b.parent = false := by simpa using hpar
        simp only [hhp, hpar', Bool.not_false, if_true]; rfl

/-! ### the run invariant of the extension layer -/

variable [LawfulOMap M]

/-- every pooled orphan has its metadata, expiring no earlier than `ttl`; the clock is within `ttl`. -/
structure XInv (x : XState M) : Prop where
  omap : ∀ o ∈ x.base.orphans, ∃ e st, OMap.get x.omap o.id = some (e, st) ∧ x.ttl ≤ e
  clock : x.now ≤ x.ttl

theorem XInv.noExpiry {x : XState M} (h : XInv x) : ∀ o ∈ x.base.orphans, isExpired x o.id = false := by
  intro o ho
  obtain ⟨e, st, hg, hle⟩ := h.omap o ho
  have := h.clock
  simp only [isExpired, hg]
  simp; omega

/-- finaliser requests bounded by `F` keep the tree invariant. -/
theorem tbase_finalize {g : Block} {T : List Block} {F : Nat} {s : State} (hs : TBase g T F s)
    (h id : Nat) (hh : h ≤ F) : TBase g T F (finalize s h id) := by
  unfold C25X.finalize
  split
  · split
    · exact ⟨hs.inv.setFin h, hs.gIn, hs.idxSub, hs.orphSub, hs.tdEq, hs.tipMax, hs.win, hh, hs.txv⟩
    · exact hs
  · exact hs

theorem finalize_same (s : State) (h id : Nat) :
    (finalize s h id).index = s.index ∧ (finalize s h id).orphans = s.orphans ∧
    (finalize s h id).best = s.best ∧ (finalize s h id).margin = s.margin := by
  unfold finalize
  split
  · split <;> exact ⟨rfl, rfl, rfl, rfl⟩
  · exact ⟨rfl, rfl, rfl, rfl⟩

def elapsed : List Event → Nat
  | [] => 0
  | .tick dt :: es => dt + elapsed es
  | _ :: es => elapsed es

def delivered : List Event → List Block
  | [] => []
  | .deliver b :: es => b :: delivered es
  | _ :: es => delivered es

theorem mem_delivered {es : List Event} {b : Block} : b ∈ delivered es ↔ Event.deliver b ∈ es := by
  induction es with
  | nil => simp [delivered]
  | cons e es ih =>
    cases e <;> simp [delivered, ih]

/-- the run invariant: the chain state satisfies the C25 run invariant for the blocks delivered so
far, the pool has no duplicates, and the extension data is consistent. -/
structure RunX (g : Block) (T : List Block) (F : Nat) (D : List Block) (x : XState M) : Prop where
  run : Run g T F D x.base
  on : ON x.base
  xinv : XInv x

/-- the pool (without `b`) plus `b` fits: its members are distinct blocks of the tree. -/
theorem RunX.poolBound {g : Block} {T : List Block} {F : Nat} {D : List Block} {x : XState M}
    (hr : RunX g T F D x) (hlim : T.length ≤ x.lim) {b : Block} (hb : b ∈ T) :
    (unorphan x.base b).orphans.length + 1 ≤ x.lim := by
  have hon : ((unorphan x.base b).orphans ++ [b]).Pairwise (fun a c => a.id ≠ c.id) :=
    on_append (List.Pairwise.sublist (unorphan_sublist x.base b) hr.on) (unorphan_fresh x.base b)
  have hsub : ∀ o ∈ (unorphan x.base b).orphans ++ [b], o ∈ T := by
    intro o ho
    rcases List.mem_append.mp ho with h | h
    · have ho' : o ∈ x.base.orphans := (unorphan_sublist x.base b).subset h
      rcases List.mem_cons.mp (hr.run.base.orphSub o ho') with hg | hT
      · exact absurd rfl (by
          have := hr.run.base.inv.orphFresh o ho' g hr.run.base.gIn
          rw [hg] at this; exact this)
      · exact hT
    · simp at h; rw [h]; exact hb
  have := length_le_of_on _ T hon hsub
  simp at this
  omega

theorem RunX.deliver {g : Block} {T : List Block} {F : Nat} (ht : Tree g T) {D : List Block} {x : XState M}
    (hr : RunX g T F D x) (hlim : T.length ≤ x.lim) {b : Block} (hb : b ∈ T) :
    RunX g T F (D ++ [b]) (processBlockX x b).1 ∧ (processBlockX x b).1.lim = x.lim ∧
    (processBlockX x b).1.ttl = x.ttl ∧ (processBlockX x b).1.now = x.now := by
  have hi := hr.run.base.inv
  -- the pool (without b) plus b fits into T
  have hpool : (unorphan x.base b).orphans.length + 1 ≤ x.lim := by
    have hon : ((unorphan x.base b).orphans ++ [b]).Pairwise (fun a c => a.id ≠ c.id) :=
      on_append (List.Pairwise.sublist (unorphan_sublist x.base b) hr.on) (unorphan_fresh x.base b)
    have hsub : ∀ o ∈ (unorphan x.base b).orphans ++ [b], o ∈ T := by
      intro o ho
      rcases List.mem_append.mp ho with h | h
      · have ho' : o ∈ x.base.orphans := (unorphan_sublist x.base b).subset h
        rcases List.mem_cons.mp (hr.run.base.orphSub o ho') with hg | hT
        · exact absurd rfl (hi.orphFresh o ho' g hr.run.base.gIn |> fun hne => by rw [hg] at hne; exact hne)
        · exact hT
      · simp at h; rw [h]; exact hb
    have := length_le_of_on _ T hon hsub
    simp at this
    omega
  obtain ⟨e1, e2, e3, e4, e5, e6⟩ := processBlockX_eq x b hi hr.xinv.noExpiry hpool
  have hstep := hr.run.step ht hb
  refine ⟨⟨by rw [e1]; exact hstep, by rw [ON, e1]; exact processBlock_on hi hr.on b, ?_⟩, e4, e5, e3⟩
  constructor
  · intro o ho
    rw [e1] at ho
    rw [e5]
    rcases e6 with ⟨hm, hsub⟩ | hm
    · rw [hm]; exact hr.xinv.omap o (hsub o ho)
    · rw [hm]
      by_cases hob : o.id = b.id
      · refine ⟨x.now + x.ttl, x.stamp, ?_, by omega⟩
        rw [LawfulOMap.get_ins, if_pos hob]
      · -- o was pooled before (the only new pool member can be b)
        obtain ⟨_, _, hkeep, _, honly⟩ := processBlock_tree ht hr.run.base hr.run.orph (List.mem_cons_of_mem _ hb)
        have hin : o ∈ x.base.orphans := by
          rcases honly o (Or.inr ho) with h | h | h
          · exact absurd rfl (hstep.base.inv.orphFresh o ho o (hkeep.1 o h))
          · exact h
          · exact absurd (by rw [h]) hob
        obtain ⟨e, st, hg, hle⟩ := hr.xinv.omap o hin
        exact ⟨e, st, by rw [LawfulOMap.get_ins, if_neg hob]; exact hg, hle⟩
  · rw [e3, e5]; exact hr.xinv.clock

theorem RunX.finalize {g : Block} {T : List Block} {F : Nat} {D : List Block} {x : XState M}
    (hr : RunX g T F D x) (h id : Nat) (hh : h ≤ F) :
    RunX g T F D { x with base := C25X.finalize x.base h id } := by
  obtain ⟨e1, e2, e3, e4⟩ := finalize_same x.base h id
  refine ⟨⟨tbase_finalize hr.run.base h id hh, ?_, ?_, ?_⟩, ?_, ⟨?_, hr.xinv.clock⟩⟩
  · intro o ho y hy
    simp only [e1, e2] at ho hy
    exact hr.run.orph o ho y hy
  · intro b hb; simp only [e1, e2]; exact hr.run.got b hb
  · intro y hy; simp only [e1, e2] at hy; exact hr.run.only y hy
  · show (C25X.finalize x.base h id).orphans.Pairwise _
    rw [e2]; exact hr.on
  · intro o ho
    simp only [e2] at ho
    exact hr.xinv.omap o ho

theorem RunX.tick {g : Block} {T : List Block} {F : Nat} {D : List Block} {x : XState M}
    (hr : RunX g T F D x) (dt : Nat) (hc : x.now + dt ≤ x.ttl) : RunX g T F D (tick x dt) :=
  ⟨hr.run, hr.on, ⟨hr.xinv.omap, hc⟩⟩

/-- **the run invariant holds along every event sequence without restart** whose deliveries come
from the tree, whose finaliser requests are bounded by `F`, that fits the orphan pool
(`|T| ≤ maxOrphanBlocks`) and ends before the first orphan can expire. -/
theorem runX_run {g : Block} {T : List Block} {F : Nat} (ht : Tree g T) :
    ∀ (es : List Event) (D : List Block) (x : XState M), RunX g T F D x → T.length ≤ x.lim →
      (∀ e ∈ es, e ≠ Event.restart) → (∀ b, Event.deliver b ∈ es → b ∈ T) →
      (∀ h id, Event.finalize h id ∈ es → h ≤ F) → x.now + elapsed es ≤ x.ttl →
      ∃ x', runX x es = some x' ∧ RunX g T F (D ++ delivered es) x' ∧ x'.base.margin = x.base.margin ∧
        ∀ r ∈ resultsX x es, Res.fine r = true := by
  intro es
  induction es with
  | nil => intro D x hr _ _ _ _ _; exact ⟨x, rfl, by simpa [delivered] using hr, rfl, by simp [resultsX]⟩
  | cons e es ih =>
    intro D x hr hlim hnr hds hfin htime
    have hnr' : ∀ e' ∈ es, e' ≠ Event.restart := fun e' he' => hnr e' (List.mem_cons_of_mem _ he')
    have hds' : ∀ b, Event.deliver b ∈ es → b ∈ T := fun b hb => hds b (List.mem_cons_of_mem _ hb)
    have hfin' : ∀ h id, Event.finalize h id ∈ es → h ≤ F := fun h id hh => hfin h id (List.mem_cons_of_mem _ hh)
    cases e with
    | deliver b =>
      have hbT : b ∈ T := hds b (by simp)
      obtain ⟨h1, h2, h3, h4⟩ := hr.deliver ht hlim hbT
      obtain ⟨x', hrun, hr', hm, hres⟩ := ih (D ++ [b]) _ h1 (by rw [h2]; exact hlim) hnr' hds' hfin'
        (by rw [h4, h3]; simpa [elapsed] using htime)
      have he := processBlockX_eq x b hr.run.base.inv hr.xinv.noExpiry (hr.poolBound hlim hbT)
      refine ⟨x', by simp only [runX, stepX]; exact hrun, by simpa [delivered, List.append_assoc] using hr', ?_, ?_⟩
      · rw [hm, he.1]
        exact (margin_mainPred x.base.margin).processBlock x.base b rfl
      · intro r hr0
        simp only [resultsX, stepX, List.singleton_append, List.mem_cons] at hr0
        rcases hr0 with h | h
        · rw [h, he.2.1]
          exact processBlock_tree_res ht hr.run.base hr.run.orph (List.mem_cons_of_mem _ hbT)
        · exact hres r h
    | tick dt =>
      obtain ⟨x', hrun, hr', hm, hres⟩ := ih D _ (hr.tick dt (by simp [elapsed] at htime; omega)) hlim hnr' hds' hfin'
        (by simp only [tick]; simp [elapsed] at htime; omega)
      exact ⟨x', by simp only [runX, stepX]; exact hrun, by simpa [delivered] using hr', hm,
        by simpa [resultsX, stepX] using hres⟩
    | finalize h id =>
      obtain ⟨x', hrun, hr', hm, hres⟩ := ih D _ (hr.finalize h id (hfin h id (by simp))) hlim hnr' hds' hfin'
        (by simpa [elapsed] using htime)
      exact ⟨x', by simp only [runX, stepX]; exact hrun, by simpa [delivered] using hr',
        by rw [hm]; exact (finalize_same x.base h id).2.2.2, by simpa [resultsX, stepX] using hres⟩
    | restart => exact absurd rfl (hnr _ (by simp))

theorem initX_runX {g : Block} {T : List Block} (ht : Tree g T) (F m : Nat) (r : Bool) (lim ttl : Nat) :
    RunX g T F [] (initX M F m r g lim ttl) := by
  have h0 := deliverAll_run ht F m r [] (by intro b hb; cases hb)
  refine ⟨h0, ?_, ⟨?_, Nat.zero_le _⟩⟩
  · show (init F m r g).orphans.Pairwise _
    simp [init]
  · intro o ho; simp [initX, init] at ho

/-- what a completed run looks like (shared by `order_independent` and its event version). -/
theorem converged {g : Block} {T : List Block} {F : Nat} (ht : Tree g T) {D : List Block} {s : State}
    (hr : Run g T F D s) (hall : ∀ b ∈ T, b ∈ D) {w : Block} (hw : w ∈ g :: T)
    (hmax : ∀ b ∈ g :: T, b ≠ w → TD (g :: T) b < TD (g :: T) w) (hel : F + s.margin ≤ w.height)
    (F0 m : Nat) (r : Bool) :
    s.best = chainTo (g :: T) w.height w ∧
    (deliverAll (init F0 m r g) (chainTo (g :: T) w.height w).reverse.tail).best = chainTo (g :: T) w.height w ∧
    s.h2h = (deliverAll (init F0 m r g) (chainTo (g :: T) w.height w).reverse.tail).h2h ∧
    s.last = (deliverAll (init F0 m r g) (chainTo (g :: T) w.height w).reverse.tail).last ∧
    s.txIdx = (deliverAll (init F0 m r g) (chainTo (g :: T) w.height w).reverse.tail).txIdx ∧
    (∀ x ∈ chainTo (g :: T) w.height w,
      s.stored x.id = (deliverAll (init F0 m r g) (chainTo (g :: T) w.height w).reverse.tail).stored x.id ∧
      s.tds x.id = (deliverAll (init F0 m r g) (chainTo (g :: T) w.height w).reverse.tail).tds x.id) ∧
    s.orphans = [] := by
  have hbest : s.best = chainTo (g :: T) w.height w := converge ht hr hall hw hmax hel
  obtain ⟨hrefbest, hrefT⟩ := fresh_in_order ht F0 m r hw
  have hrr := deliverAll_run ht F0 m r (chainTo (g :: T) w.height w).reverse.tail hrefT
  have hi := hr.base.inv
  have hi' := hrr.base.inv
  refine ⟨hbest, hrefbest, ?_, ?_, by rw [hr.base.txv, hrr.base.txv, hbest, hrefbest], ?_, ?_⟩
  · funext h; rw [hi.h2h h, hi'.h2h h, hbest, hrefbest]
  · obtain ⟨t, rest, hb⟩ := List.exists_cons_of_ne_nil hi.linked.ne_nil
    rw [hi.last t rest hb, hi'.last t rest (by rw [hrefbest, ← hbest]; exact hb)]
  · intro x hx
    have hx1 : x ∈ s.index := hi.bestIn x (by rw [hbest]; exact hx)
    have hx2 := hi'.bestIn x (by rw [hrefbest]; exact hx)
    exact ⟨by rw [hi.stored x hx1, hi'.stored x hx2], by rw [hr.base.tdEq x hx1, hrr.base.tdEq x hx2]⟩
  · cases horph : s.orphans with
    | nil => rfl
    | cons o rest =>
      exfalso
      have ho : o ∈ s.orphans := by rw [horph]; simp
      exact hi.orphFresh o ho o (all_accepted ht hr hall o (hr.base.orphSub o ho)) rfl

end C25X
