import Chain33Model.Proofs.C25Tree
/-!
Whole-run consequences: the invariants after any delivery sequence drawn from a tree, the orphan
lemma (accepted = delivered with all ancestors delivered), convergence once the tree is complete.
-/
namespace C25

theorem init_tbase {g : Block} {T : List Block} (ht : Tree g T) (F margin : Nat) (r : Bool) :
    TBase g T F (init F margin r g) ∧ OrphPar (init F margin r g) := by
  refine ⟨⟨init_inv F margin r g ht.gh, by simp [init], ?_, ?_, ?_, ?_, ?_, Nat.le_refl _, rfl⟩, ?_⟩
  · intro b hb; simp [init] at hb; rw [hb]; simp
  · intro o ho; simp [init] at ho
  · intro b hb
    simp [init] at hb
    rw [hb]
    simp [init, TD, ht.gh, chainTo]
  · intro _ t r' hbest b hb _
    simp [init] at hbest hb
    rw [hb, hbest.1]; exact Nat.le_refl _
  · intro w _ _ _ hwi
    simp [init] at hwi
    exact ⟨[], by rw [hwi]; simp [init]⟩
  · intro o ho; simp [init] at ho

/-- the run invariant: tree invariant, orphan lemma, and index ∪ pool = {g} ∪ delivered. -/
structure Run (g : Block) (T : List Block) (F : Nat) (ds : List Block) (s : State) : Prop where
  base : TBase g T F s
  orph : OrphPar s
  got : ∀ b ∈ ds, b ∈ s.index ∨ b ∈ s.orphans
  only : ∀ x, (x ∈ s.index ∨ x ∈ s.orphans) → x = g ∨ x ∈ ds

theorem Run.step {g : Block} {T : List Block} {F : Nat} (ht : Tree g T) {D : List Block} {s : State}
    (hr : Run g T F D s) {b : Block} (hb : b ∈ T) : Run g T F (D ++ [b]) (processBlock s b).1 := by
  obtain ⟨h1, h2, h3, h4, h5⟩ := processBlock_tree ht hr.base hr.orph (List.mem_cons_of_mem _ hb)
  refine ⟨h1, h2, ?_, ?_⟩
  · intro x hx
    rcases List.mem_append.mp hx with hx | hx
    · rcases hr.got x hx with h | h
      · exact Or.inl (h3.1 x h)
      · exact h3.2 x h
    · simp at hx; rw [hx]; exact h4
  · intro x hx
    rcases h5 x hx with h | h | h
    · rcases hr.only x (Or.inl h) with h' | h'
      · exact Or.inl h'
      · exact Or.inr (List.mem_append_left _ h')
    · rcases hr.only x (Or.inr h) with h' | h'
      · exact Or.inl h'
      · exact Or.inr (List.mem_append_left _ h')
    · exact Or.inr (by rw [h]; simp)

theorem Run.deliverAll {g : Block} {T : List Block} {F : Nat} (ht : Tree g T) :
    ∀ (ds D : List Block) (s : State), Run g T F D s → (∀ b ∈ ds, b ∈ T) →
      Run g T F (D ++ ds) (deliverAll s ds) := by
  intro ds
  induction ds with
  | nil => intro D s hr _; simpa [C25.deliverAll] using hr
  | cons b ds ih =>
    intro D s hr hds
    have h1 := hr.step ht (hds b (by simp))
    have h2 := ih (D ++ [b]) _ h1 (fun x hx => hds x (List.mem_cons_of_mem _ hx))
    simpa [C25.deliverAll, List.append_assoc] using h2

theorem deliverAll_run {g : Block} {T : List Block} (ht : Tree g T) (F margin : Nat) (r : Bool)
    (ds : List Block) (hds : ∀ b ∈ ds, b ∈ T) : Run g T F ds (deliverAll (init F margin r g) ds) := by
  obtain ⟨h1, h2⟩ := init_tbase ht F margin r
  have h0 : Run g T F [] (init F margin r g) :=
    ⟨h1, h2, fun b hb => (by cases hb), fun x hx => (by simp [init] at hx; exact Or.inl hx)⟩
  simpa using h0.deliverAll ht ds [] _ hds

/-- the parent chain computed in the index is the parent chain in the tree. -/
theorem chainTo_index_eq_tree {g : Block} {T : List Block} {F : Nat} (ht : Tree g T) {s : State} (hs : TBase g T F s)
    {b : Block} (hb : b ∈ s.index) : chainTo s.index b.height b = chainTo (g :: T) b.height b := by
  obtain ⟨r, hc, hl, hin⟩ := chainTo_linked hs.inv.uniq hs.inv.closed b.height b hb rfl
  rw [hc]
  exact (chainTo_of_linked ht.uniq r b (fun y hy => by
    rcases List.mem_cons.mp hy with h | h
    · rw [h]; exact hs.idxSub b hb
    · exact hs.idxSub y (hin y h)) hl).symm

/-- **Orphan lemma**: a tree block is accepted (indexed) iff it and all its ancestors were
delivered. -/
theorem accepted_iff {g : Block} {T : List Block} {F : Nat} (ht : Tree g T) {ds : List Block} {s : State}
    (hr : Run g T F ds s) : ∀ (n : Nat) (b : Block), b ∈ g :: T → b.height = n →
      (b ∈ s.index ↔ ∀ x ∈ chainTo (g :: T) b.height b, x = g ∨ x ∈ ds) := by
  intro n
  induction n with
  | zero =>
    intro b hb h0
    have hbg : b = g := by
      rcases List.mem_cons.mp hb with h | h
      · exact h
      · obtain ⟨p, _, _, hh⟩ := ht.closed b h; omega
    rw [hbg]
    constructor
    · intro _ x hx; rw [ht.gh] at hx; simp [chainTo] at hx; exact Or.inl hx
    · intro _; exact hr.base.gIn
  | succ n ih =>
    intro b hb hn
    have hbT : b ∈ T := by
      rcases List.mem_cons.mp hb with h | h
      · rw [h, ht.gh] at hn; omega
      · exact h
    obtain ⟨p, hp, hpid, hh⟩ := ht.closed b hbT
    have hchain : chainTo (g :: T) b.height b = b :: chainTo (g :: T) p.height p := by
      rw [hh]; simp only [chainTo, ← hpid, lookup_of_mem ht.uniq hp]
    have ihp := ih p hp (by omega)
    constructor
    · intro hbi x hx
      rw [← chainTo_index_eq_tree ht hr.base hbi] at hx
      obtain ⟨rr, hc, _, hin⟩ := chainTo_linked hr.base.inv.uniq hr.base.inv.closed b.height b hbi rfl
      rw [hc] at hx
      have : x ∈ s.index := by
        rcases List.mem_cons.mp hx with h | h
        · rw [h]; exact hbi
        · exact hin x h
      exact hr.only x (Or.inl this)
    · intro hall
      have hpi : p ∈ s.index := ihp.mpr (fun x hx => hall x (by rw [hchain]; exact List.mem_cons_of_mem _ hx))
      have hbd : b = g ∨ b ∈ ds := hall b (by rw [hchain]; simp)
      rcases hbd with h | h
      · rw [h]; exact hr.base.gIn
      · rcases hr.got b h with h' | h'
        · exact h'
        · exact absurd hpid (hr.orph b h' p hpi)

/-- once every tree block has been delivered, every tree block is indexed. -/
theorem all_accepted {g : Block} {T : List Block} {F : Nat} (ht : Tree g T) {ds : List Block} {s : State}
    (hr : Run g T F ds s) (hall : ∀ b ∈ T, b ∈ ds) : ∀ b ∈ g :: T, b ∈ s.index := by
  intro b hb
  apply (accepted_iff ht hr b.height b hb rfl).mpr
  intro x hx
  obtain ⟨r, hc, _, hin⟩ := chainTo_linked ht.uniq ht.parentClosed b.height b hb rfl
  rw [hc] at hx
  have hxU : x ∈ g :: T := by
    rcases List.mem_cons.mp hx with h | h
    · rw [h]; exact hb
    · exact hin x h
  rcases List.mem_cons.mp hxU with h | h
  · exact Or.inl h
  · exact Or.inr (hall x h)

/-- the main-chain part of the persisted state is a function of the best chain. -/
theorem main_of_best {s : State} (hi : Inv s) {t : Block} {r : List Block} (hb : s.best = t :: r) :
    (∀ h, s.h2h h = view (t :: r) h) ∧ s.last = t.height := by
  refine ⟨fun h => by rw [← hb]; exact hi.h2h h, hi.last t r hb⟩

/-- **Convergence**: the whole tree delivered in any order (with duplicates), unique heaviest
block `w` at least `margin` above the (initial) finalised height ⇒ the best chain is the tree
path to `w`. -/
theorem converge {g : Block} {T : List Block} {F : Nat} (ht : Tree g T) {ds : List Block} {s : State}
    (hr : Run g T F ds s) (hall : ∀ b ∈ T, b ∈ ds) {w : Block} (hw : w ∈ g :: T)
    (hmax : ∀ b ∈ g :: T, b ≠ w → TD (g :: T) b < TD (g :: T) w) (hel : F + s.margin ≤ w.height) :
    s.best = chainTo (g :: T) w.height w := by
  have hwi : w ∈ s.index := all_accepted ht hr hall w hw
  obtain ⟨r, hbest⟩ := hr.base.win w hw hmax hel hwi
  rw [← chainTo_index_eq_tree ht hr.base hwi, hbest]
  exact (chainTo_of_linked hr.base.inv.uniq r w (fun y hy => hr.base.inv.bestIn y (hbest ▸ hy))
    (hbest ▸ hr.base.inv.linked)).symm

end C25
