import Chain33Model.Proofs.C25Final
/-!
A fresh node fed one branch in order ends with exactly that branch as its best chain.
-/
namespace C25

/-- delivering a fresh block that sits directly on the tip, with an empty orphan pool. -/
theorem extend_step {s : State} (hi : Inv s) (horph : s.orphans = []) {t : Block} {r : List Block}
    (hbest : s.best = t :: r) {b : Block} (hp : b.parent = t.id) (hh : b.height = t.height + 1)
    (hfresh : ∀ x ∈ s.index, x.id ≠ b.id) :
    (processBlock s b).1.best = b :: s.best ∧ Inv (processBlock s b).1 ∧
    (processBlock s b).1.orphans = [] ∧ (processBlock s b).1.index = b :: s.index := by
  have htin : t ∈ s.index := hi.bestIn t (by rw [hbest]; simp)
  have h1 : haveBlock s b.id = false := by
    cases h : haveBlock s b.id with
    | false => rfl
    | true =>
      obtain ⟨x, hx, hxid⟩ := (haveBlock_iff s b.id).mp h
      exact absurd hxid (hfresh x hx)
  have h2 : isKnownOrphan s b.id = false := by simp [isKnownOrphan, horph]
  have h3 : haveBlock s b.parent = true := (haveBlock_iff s b.parent).mpr ⟨t, htin, hp.symm⟩
  have hun : unorphan s b = s := by simp [unorphan, h2]
  have hlk : lookup s.index b.parent = some t := by rw [hp]; exact lookup_of_mem hi.uniq htin
  have hpb : processBlock s b = acceptAndDrain s b := by
    simp [processBlock, h1, h2, hun, h3]
  rw [hpb]
  rcases maybeAcceptBlock_spec hi hfresh (by rw [horph]; intro o ho; cases ho) with
      ⟨e, _, hno | ⟨q, hq, hne⟩⟩ |
      ⟨q, tp, s0, s', res, hq, hqid, hqh, hqtd, he, hi0, hi', e1, e2, e3, e4, e5, e6, e7, e8, hss, hout⟩
  · rw [hlk] at hno; cases hno
  · rw [hlk] at hq; cases hq; exact absurd hh hne
  · have hb' : s'.best = b :: s.best ∧ (res = .main) := by
      cases hout with
      | extend t' rest hb0 _ hb' _ => exact ⟨by rw [hb', e3], rfl⟩
      | stay t' rest tt tb hb0 hne' _ _ _ _ _ =>
        rw [e3, hbest] at hb0
        exact absurd (by rw [← (List.cons.inj hb0).1]; exact hp) hne'
      | reorg t' rest tt tb hb0 hne' _ _ _ _ _ _ =>
        rw [e3, hbest] at hb0
        exact absurd (by rw [← (List.cons.inj hb0).1]; exact hp) hne'
    have horph' : s'.orphans = [] := by rw [hss.2.1, e2, horph]
    have hrun : processOrphans (orphanFuel s') [b.id] s' = (s', none) := by
      simp [orphanFuel, horph', processOrphans]
    have hres : acceptAndDrain s b = (s', .main) := by
      simp only [acceptAndDrain, he, hb'.2, hrun]
    rw [hres]
    exact ⟨hb'.1, hi', horph', hss.1.trans e1⟩

/-- a run of blocks, each on top of the previous one, delivered bottom first. -/
theorem deliver_in_order {U : List Block} (hu : UniqIds U) :
    ∀ (l : List Block) (s : State), Inv s → s.orphans = [] → (∀ y ∈ s.index, y ∈ s.best) →
      (∀ y ∈ s.index, y ∈ U) → (∀ x ∈ l, x ∈ U) → Linked (l.reverse ++ s.best) →
      (deliverAll s l).best = l.reverse ++ s.best ∧ Inv (deliverAll s l) := by
  intro l
  induction l with
  | nil => intro s hi _ _ _ _ _; exact ⟨by simp [deliverAll], hi⟩
  | cons x l ih =>
    intro s hi horph hib hiU hlU hl
    obtain ⟨t, r, hbest⟩ := List.exists_cons_of_ne_nil hi.linked.ne_nil
    have hl' : Linked (x :: s.best) := by
      have : (x :: l).reverse ++ s.best = l.reverse ++ x :: s.best := by simp
      rw [this] at hl
      exact Linked.suffix _ hl
    have hfresh : ∀ y ∈ s.index, y.id ≠ x.id := by
      intro y hy hid
      have hlt := hl'.height_lt y (hib y hy)
      have := hu y (hiU y hy) x (hlU x (by simp)) hid
      rw [this] at hlt; omega
    rw [hbest] at hl'
    obtain ⟨h1, h2, h3, h4⟩ := extend_step hi horph hbest hl'.1 hl'.2.1 hfresh
    have := ih (processBlock s x).1 h2 h3
      (fun y hy => by
        rw [h4] at hy; rw [h1]
        rcases List.mem_cons.mp hy with h | h
        · rw [h]; simp
        · exact List.mem_cons_of_mem _ (hib y h))
      (fun y hy => by
        rw [h4] at hy
        rcases List.mem_cons.mp hy with h | h
        · rw [h]; exact hlU x (by simp)
        · exact hiU y h)
      (fun y hy => hlU y (List.mem_cons_of_mem _ hy))
      (by rw [h1]; simpa using hl)
    simp only [deliverAll, List.foldl_cons] at this ⊢
    rw [h1] at this
    exact ⟨by rw [this.1]; simp, this.2⟩

/-- the tree path to `w` ends in the genesis block. -/
theorem path_ends_in_g {g : Block} {T : List Block} (ht : Tree g T) {w : Block} (hw : w ∈ g :: T) :
    ∃ pre, chainTo (g :: T) w.height w = pre ++ [g] ∧ Linked (pre ++ [g]) ∧ ∀ x ∈ pre, x ∈ T := by
  obtain ⟨r, hc, hl, hin⟩ := chainTo_linked ht.uniq ht.parentClosed w.height w hw rfl
  have hne : (w :: r) ≠ [] := by simp
  have hmemU : ∀ y ∈ w :: r, y ∈ g :: T := by
    intro y hy
    rcases List.mem_cons.mp hy with h | h
    · rw [h]; exact hw
    · exact hin y h
  have hsplit := (List.dropLast_concat_getLast hne).symm
  have hz0 : ((w :: r).getLast hne).height = 0 := by
    have h : Linked ((w :: r).dropLast ++ (w :: r).getLast hne :: []) := by rw [← hsplit]; exact hl
    exact Linked.suffix _ h
  have hzg : (w :: r).getLast hne = g := by
    rcases List.mem_cons.mp (hmemU _ (List.getLast_mem hne)) with h | h
    · exact h
    · obtain ⟨p, _, _, hh⟩ := ht.closed _ h; omega
  rw [hzg] at hsplit
  refine ⟨(w :: r).dropLast, by rw [hc]; exact hsplit, hsplit ▸ hl, ?_⟩
  intro x hx
  have hxc : x ∈ w :: r := by rw [hsplit]; exact List.mem_append_left _ hx
  rcases List.mem_cons.mp (hmemU x hxc) with h | h
  · -- x = g would repeat g inside a linked chain: heights strictly decrease
    obtain ⟨l1, l2, hl12⟩ := List.append_of_mem hx
    have hL : Linked (x :: (l2 ++ [g])) := by
      have : w :: r = l1 ++ x :: (l2 ++ [g]) := by rw [hsplit, hl12]; simp
      exact Linked.suffix l1 (this ▸ hl)
    have := hL.height_lt g (by simp)
    rw [h] at this; omega
  · exact h

/-- **A fresh node fed only the branch of `w`, in order, ends with that branch.** -/
theorem fresh_in_order {g : Block} {T : List Block} (ht : Tree g T) (F margin : Nat) (r : Bool)
    {w : Block} (hw : w ∈ g :: T) :
    let path := chainTo (g :: T) w.height w
    (deliverAll (init F margin r g) path.reverse.tail).best = path ∧
    (∀ b ∈ path.reverse.tail, b ∈ T) := by
  intro path
  obtain ⟨pre, hp, hl, hpre⟩ := path_ends_in_g ht hw
  have hrt : path.reverse.tail = pre.reverse := by
    show (chainTo (g :: T) w.height w).reverse.tail = pre.reverse
    rw [hp]; simp
  have hi0 := init_inv F margin r g ht.gh
  have := deliver_in_order ht.uniq pre.reverse (init F margin r g) hi0 rfl
    (fun y hy => by simpa [init] using hy)
    (fun y hy => by simp [init] at hy; rw [hy]; simp)
    (fun x hx => List.mem_cons_of_mem _ (hpre x (List.mem_reverse.mp hx)))
    (by simpa [init] using hl)
  rw [hrt]
  refine ⟨?_, fun b hb => hpre b (List.mem_reverse.mp hb)⟩
  rw [this.1]
  show pre.reverse.reverse ++ [g] = chainTo (g :: T) w.height w
  rw [hp]; simp

end C25
