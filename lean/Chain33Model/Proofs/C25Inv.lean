import Chain33Model.Model.C25
import Chain33Model.Proofs.C25Basic
import Chain33Model.Proofs.C25Chain
/-!
The structural invariant of the chain model and its preservation by `connectBlock` /
`disconnectBlock` / `runSteps`.  It holds after delivering ANY blocks (no validity hypothesis).
-/
namespace C25

structure Inv (s : State) : Prop where
  uniq : UniqIds s.index
  closed : ParentClosed s.index
  linked : Linked s.best
  bestIn : ∀ y ∈ s.best, y ∈ s.index
  zeroIn : ∀ b ∈ s.index, b.height = 0 → b ∈ s.best
  h2h : ∀ h, s.h2h h = view s.best h
  last : ∀ t r, s.best = t :: r → s.last = t.height
  tdSome : ∀ b ∈ s.index, (s.tds b.id).isSome
  tdRec : ∀ b ∈ s.index, ∀ p ∈ s.index, p.id = b.parent → b.height = p.height + 1 →
    ∃ tp, s.tds p.id = some tp ∧ s.tds b.id = some (b.diff + tp)
  stored : ∀ b ∈ s.index, s.stored b.id = some b
  storedIn : ∀ i b, s.stored i = some b → b ∈ s.index ∧ b.id = i
  orphFresh : ∀ o ∈ s.orphans, ∀ b ∈ s.index, b.id ≠ o.id
  orphUniq : UniqIds s.orphans
  seqOk : s.recSeq = true → 0 ≤ s.lastSeq

/-- everything except the main-chain part and the sequence log is unchanged. -/
def SameRest (s s' : State) : Prop :=
  s'.index = s.index ∧ s'.orphans = s.orphans ∧ s'.tds = s.tds ∧ s'.stored = s.stored ∧
  s'.fin = s.fin ∧ s'.margin = s.margin ∧ s'.recSeq = s.recSeq

theorem SameRest.refl (s : State) : SameRest s s := ⟨rfl, rfl, rfl, rfl, rfl, rfl, rfl⟩

theorem SameRest.trans {a b c : State} (h1 : SameRest a b) (h2 : SameRest b c) : SameRest a c := by
  obtain ⟨a1, a2, a3, a4, a5, a6, a7⟩ := h1
  obtain ⟨b1, b2, b3, b4, b5, b6, b7⟩ := h2
  exact ⟨b1.trans a1, b2.trans a2, b3.trans a3, b4.trans a4, b5.trans a5, b6.trans a6, b7.trans a7⟩

theorem upd_self {α : Type} (f : Map α) (k : Nat) (v : Option α) (h : f k = v) : upd f k v = f := by
  funext x
  by_cases hx : x = k
  · subst hx; simp [h]
  · simp [upd, hx]

theorem saveSeq_seqOk {s sq : State} {a : Bool} {b : Block} (h : saveSeq s a b = .ok sq)
    (hs : s.recSeq = true → 0 ≤ s.lastSeq) : sq.recSeq = true → 0 ≤ sq.lastSeq := by
  rcases saveSeq_ok h with ⟨_, rfl⟩ | ⟨hr, _, rfl⟩
  · exact hs
  · intro _; have := hs hr; simp [seqAfter]; omega

/-- connecting an index block that sits directly on the tip. -/
theorem connectBlock_inv {s : State} (hi : Inv s) {b t : Block} {r : List Block} (hb : b ∈ s.index)
    (hbest : s.best = t :: r) (hp : b.parent = t.id) (hh : b.height = t.height + 1) :
    ∃ s', connectBlock s b = .ok s' ∧ Inv s' ∧ s'.best = b :: s.best ∧ SameRest s s' ∧
      s'.txIdx = addTxs s.txIdx b := by
  have htin : t ∈ s.index := hi.bestIn t (by rw [hbest]; simp)
  obtain ⟨tp, htp, hbtd⟩ := hi.tdRec b hb t htin hp.symm hh
  obtain ⟨sq, hsq⟩ := saveSeq_succeeds s true b (by
    cases hr : s.recSeq
    · right; rfl
    · left; exact hi.seqOk hr)
  have hf := saveSeq_frame hsq
  have hc : connectBlock s b = .ok { sq with stored := upd sq.stored b.id (some b), h2h := upd sq.h2h b.height (some b.id), last := b.height, tds := upd sq.tds b.id (some (b.diff + tp)), best := b :: sq.best, txIdx := addTxs sq.txIdx b } := by
    simp only [connectBlock, hbest, hp, hsq, ne_eq, not_true_eq_false, if_false]
    rw [hf.2.2.2.2.2.2.2.1, ← hp, show s.tds b.parent = some tp from by rw [hp]; exact htp]
  refine ⟨_, hc, ?_, by simp [hf.2.2.2.2.2.1], ?_, by simp [hf.2.2.2.2.2.2.2.2.2.2]⟩
  · have e1 : upd sq.tds b.id (some (b.diff + tp)) = s.tds := by
      rw [hf.2.2.2.2.2.2.2.1]; exact upd_self _ _ _ hbtd
    have e2 : upd sq.stored b.id (some b) = s.stored := by
      rw [hf.2.2.2.2.2.2.1]; exact upd_self _ _ _ (hi.stored b hb)
    constructor
    · simpa [hf.2.2.2.1] using hi.uniq
    · simpa [hf.2.2.2.1] using hi.closed
    · show Linked (b :: sq.best)
      rw [hf.2.2.2.2.2.1, hbest]
      exact ⟨hp, hh, by rw [← hbest]; exact hi.linked⟩
    · intro y hy
      simp only [hf.2.2.2.2.2.1, hf.2.2.2.1] at hy ⊢
      rcases List.mem_cons.mp hy with rfl | hy
      · exact hb
      · exact hi.bestIn y hy
    · intro x hx h0
      simp only [hf.2.2.2.2.2.1, hf.2.2.2.1] at hx ⊢
      exact List.mem_cons_of_mem _ (hi.zeroIn x hx h0)
    · intro h
      simp only [hf.2.2.2.2.2.1, hf.2.2.2.2.2.2.2.2.1]
      rw [view_cons_linked]
      by_cases hx : b.height = h
      · subst hx; simp
      · rw [upd_other _ _ _ _ (Ne.symm hx), if_neg hx]; exact hi.h2h h
    · intro t' r' h; simp at h; rw [← h.1]
    · intro x hx; simp only [hf.2.2.2.1] at hx; simp only [e1]; exact hi.tdSome x hx
    · intro x hx p hp'; simp only [hf.2.2.2.1] at hx hp'; simp only [e1]; exact hi.tdRec x hx p hp'
    · intro x hx; simp only [hf.2.2.2.1] at hx; simp only [e2]; exact hi.stored x hx
    · intro i x hx; simp only [e2] at hx; simp only [hf.2.2.2.1]; exact hi.storedIn i x hx
    · intro o ho x hx; simp only [hf.2.2.2.2.1, hf.2.2.2.1] at ho hx; exact hi.orphFresh o ho x hx
    · simpa [hf.2.2.2.2.1] using hi.orphUniq
    · show sq.recSeq = true → 0 ≤ sq.lastSeq
      exact saveSeq_seqOk hsq hi.seqOk
  · have e1 : upd sq.tds b.id (some (b.diff + tp)) = s.tds := by
      rw [hf.2.2.2.2.2.2.2.1]; exact upd_self _ _ _ hbtd
    have e2 : upd sq.stored b.id (some b) = s.stored := by
      rw [hf.2.2.2.2.2.2.1]; exact upd_self _ _ _ (hi.stored b hb)
    exact ⟨hf.2.2.2.1, hf.2.2.2.2.1, e1, e2, hf.1, hf.2.1, hf.2.2.1⟩

/-- disconnecting the tip when it is not the bottom block. -/
theorem disconnectBlock_inv {s : State} (hi : Inv s) {t p : Block} {r : List Block}
    (hbest : s.best = t :: p :: r) :
    ∃ s', disconnectBlock s t = .ok s' ∧ Inv s' ∧ s'.best = p :: r ∧ SameRest s s' ∧
      s'.txIdx = delTxs s.txIdx t := by
  obtain ⟨sq, hsq⟩ := saveSeq_succeeds s false t (by
    cases hr : s.recSeq
    · right; rfl
    · left; exact hi.seqOk hr)
  have hf := saveSeq_frame hsq
  have hl : Linked (t :: p :: r) := by rw [← hbest]; exact hi.linked
  have hc : disconnectBlock s t = .ok { sq with h2h := upd sq.h2h t.height none, last := (t.height : Int) - 1, best := p :: r, txIdx := delTxs sq.txIdx t } := by
    simp only [disconnectBlock, hbest, hsq, ne_eq, not_true_eq_false, if_false]
  refine ⟨_, hc, ?_, rfl, ⟨hf.2.2.2.1, hf.2.2.2.2.1, hf.2.2.2.2.2.2.2.1, hf.2.2.2.2.2.2.1, hf.1, hf.2.1, hf.2.2.1⟩,
    by simp [hf.2.2.2.2.2.2.2.2.2.2]⟩
  constructor
  · simpa [hf.2.2.2.1] using hi.uniq
  · simpa [hf.2.2.2.1] using hi.closed
  · exact hl.tail
  · intro y hy
    simp only [hf.2.2.2.1]
    exact hi.bestIn y (by rw [hbest]; exact List.mem_cons_of_mem _ hy)
  · intro x hx h0
    simp only [hf.2.2.2.1] at hx
    have := hi.zeroIn x hx h0
    rw [hbest] at this
    rcases List.mem_cons.mp this with rfl | h
    · have : x.height = p.height + 1 := hl.2.1; omega
    · exact h
  · intro h
    simp only [hf.2.2.2.2.2.2.2.2.1]
    by_cases hx : h = t.height
    · subst hx
      rw [upd_same, view_above hl.tail _ (by have := hl.2.1; omega)]
    · rw [upd_other _ _ _ _ hx, hi.h2h h, hbest, view_cons_linked, if_neg (Ne.symm hx)]
  · intro t' r' h
    simp at h
    have : t.height = p.height + 1 := hl.2.1
    rw [← h.1]; simp; omega
  · intro x hx; simp only [hf.2.2.2.1] at hx; simp only [hf.2.2.2.2.2.2.2.1]; exact hi.tdSome x hx
  · intro x hx q hq; simp only [hf.2.2.2.1] at hx hq; simp only [hf.2.2.2.2.2.2.2.1]; exact hi.tdRec x hx q hq
  · intro x hx; simp only [hf.2.2.2.1] at hx; simp only [hf.2.2.2.2.2.2.1]; exact hi.stored x hx
  · intro i x hx; simp only [hf.2.2.2.2.2.2.1] at hx; simp only [hf.2.2.2.1]; exact hi.storedIn i x hx
  · intro o ho x hx; simp only [hf.2.2.2.2.1, hf.2.2.2.1] at ho hx; exact hi.orphFresh o ho x hx
  · simpa [hf.2.2.2.2.1] using hi.orphUniq
  · show sq.recSeq = true → 0 ≤ sq.lastSeq
    exact saveSeq_seqOk hsq hi.seqOk

/-- disconnecting a proper prefix of the best chain, tip first. -/
theorem runSteps_disconnect_inv : ∀ (pre : List Block) {s : State} (_ : Inv s) {f : Block} {r : List Block}
    (_ : s.best = pre ++ f :: r),
    ∃ s', runSteps disconnectBlock s pre = (s', none) ∧ Inv s' ∧ s'.best = f :: r ∧ SameRest s s' ∧
      s'.txIdx = pre.foldl delTxs s.txIdx := by
  intro pre
  induction pre with
  | nil => intro s hi f r hb; exact ⟨s, rfl, hi, by simpa using hb, SameRest.refl s, rfl⟩
  | cons t pre ih =>
    intro s hi f r hb
    obtain ⟨p, r', hb2⟩ := List.exists_cons_of_ne_nil (l := pre ++ f :: r) (by simp)
    have hb1 : s.best = t :: p :: r' := by rw [hb, ← hb2]; simp
    obtain ⟨s1, hd, hi1, hbest1, hsr1, htx1⟩ := disconnectBlock_inv hi hb1
    obtain ⟨s2, hrun, hi2, hbest2, hsr2, htx2⟩ := ih hi1 (f := f) (r := r) (by rw [hbest1, ← hb2])
    exact ⟨s2, by simp only [runSteps, hd, hrun], hi2, hbest2, hsr1.trans hsr2, by rw [htx2, htx1]; rfl⟩

/-- connecting a linked run of index blocks above the tip, bottom first. -/
theorem runSteps_connect_inv : ∀ (att : List Block) {s : State} (_ : Inv s)
    (_ : ∀ y ∈ att, y ∈ s.index) (_ : Linked (att.reverse ++ s.best)),
    ∃ s', runSteps connectBlock s att = (s', none) ∧ Inv s' ∧ s'.best = att.reverse ++ s.best ∧ SameRest s s' ∧
      s'.txIdx = att.foldl addTxs s.txIdx := by
  intro att
  induction att with
  | nil => intro s hi _ _; exact ⟨s, rfl, hi, by simp, SameRest.refl s, rfl⟩
  | cons x att ih =>
    intro s hi hin hl
    have hne := hi.linked.ne_nil
    obtain ⟨t, r, hbest⟩ := List.exists_cons_of_ne_nil hne
    have hl' : Linked (x :: s.best) := by
      have : (x :: att).reverse ++ s.best = att.reverse ++ x :: s.best := by simp
      rw [this] at hl
      exact Linked.suffix _ hl
    rw [hbest] at hl'
    obtain ⟨s1, hc, hi1, hbest1, hsr1, htx1⟩ := connectBlock_inv hi (hin x (by simp)) hbest hl'.1 hl'.2.1
    obtain ⟨s2, hrun, hi2, hbest2, hsr2, htx2⟩ := ih hi1
      (fun y hy => by rw [hsr1.1]; exact hin y (List.mem_cons_of_mem _ hy))
      (by rw [hbest1]; simpa using hl)
    exact ⟨s2, by simp only [runSteps, hc, hrun], hi2, by rw [hbest2, hbest1]; simp, hsr1.trans hsr2,
      by rw [htx2, htx1]; rfl⟩

end C25
