import Chain33Model.Model.C25
import Chain33Model.Proofs.C25Basic
/-!
Lifting principle: a predicate on states that only looks at the main-chain part
(`best, h2h, last`, the sequence log and the two flags) and is preserved by every successful
`connectBlock` / `disconnectBlock` is preserved by `processBlock` for *any* delivered block.
-/
namespace C25

/-- `s'` differs from `s` only outside the main-chain part. -/
def SameMain (s s' : State) : Prop :=
  s'.best = s.best ∧ s'.h2h = s.h2h ∧ s'.last = s.last ∧ s'.seqTab = s.seqTab ∧
  s'.hashSeq = s.hashSeq ∧ s'.lastSeq = s.lastSeq ∧ s'.recSeq = s.recSeq ∧ s'.margin = s.margin

structure MainPred (P : State → Prop) : Prop where
  frame : ∀ s s', P s → SameMain s s' → P s'
  conn : ∀ s b s', P s → connectBlock s b = .ok s' → P s'
  disc : ∀ s b s', P s → disconnectBlock s b = .ok s' → P s'

variable {P : State → Prop}

theorem MainPred.runSteps_conn (hP : MainPred P) : ∀ (l : List Block) (s : State), P s →
    P (runSteps connectBlock s l).1 := by
  intro l
  induction l with
  | nil => intro s h; simpa [runSteps] using h
  | cons b bs ih =>
    intro s h
    simp only [runSteps]
    split
    · rename_i s' hs'; exact ih s' (hP.conn s b s' h hs')
    · exact h

theorem MainPred.runSteps_disc (hP : MainPred P) : ∀ (l : List Block) (s : State), P s →
    P (runSteps disconnectBlock s l).1 := by
  intro l
  induction l with
  | nil => intro s h; simpa [runSteps] using h
  | cons b bs ih =>
    intro s h
    simp only [runSteps]
    split
    · rename_i s' hs'; exact ih s' (hP.disc s b s' h hs')
    · exact h

theorem MainPred.reorganize (hP : MainPred P) (s : State) (d a : List Block) (h : P s) :
    P (reorganize s d a).1 := by
  unfold C25.reorganize
  split
  · exact h
  · have h1 := hP.runSteps_disc d s h
    split
    · rename_i s1 e heq; rw [heq] at h1; exact h1
    · rename_i s1 heq; rw [heq] at h1; exact hP.runSteps_conn a s1 h1

theorem SameMain.refl (s : State) : SameMain s s := ⟨rfl, rfl, rfl, rfl, rfl, rfl, rfl, rfl⟩

theorem sameMain_resetFin (s : State) (f : Option Block) : SameMain s (resetFin s f) := by
  unfold resetFin
  split
  · split
    · exact ⟨rfl, rfl, rfl, rfl, rfl, rfl, rfl, rfl⟩
    · exact SameMain.refl s
  · exact SameMain.refl s

theorem sameMain_storeBlock {s s1 : State} {b : Block} (h : storeBlock s b = some s1) : SameMain s s1 := by
  unfold storeBlock at h
  split at h
  · cases h; exact SameMain.refl s
  · split at h
    · cases h
    · cases h; exact ⟨rfl, rfl, rfl, rfl, rfl, rfl, rfl, rfl⟩

theorem sameMain_addIndex (s : State) (b : Block) : SameMain s (addIndex s b) :=
  ⟨rfl, rfl, rfl, rfl, rfl, rfl, rfl, rfl⟩

theorem sameMain_dropOrphan (s : State) (id : Nat) : SameMain s (dropOrphan s id) :=
  ⟨rfl, rfl, rfl, rfl, rfl, rfl, rfl, rfl⟩

theorem sameMain_addOrphan (s : State) (b : Block) : SameMain s (addOrphan s b) :=
  ⟨rfl, rfl, rfl, rfl, rfl, rfl, rfl, rfl⟩

theorem sameMain_unorphan (s : State) (b : Block) : SameMain s (unorphan s b) := by
  unfold unorphan
  split
  · exact sameMain_dropOrphan s b.id
  · exact SameMain.refl s

theorem MainPred.reorgTo (hP : MainPred P) (s : State) (b : Block) (f : Option Block) (h : P s) :
    P (reorgTo s b f).1 := by
  unfold C25.reorgTo
  have h1 : P (resetFin s f) := hP.frame s _ h (sameMain_resetFin s f)
  have h2 := hP.reorganize (resetFin s f) (getReorganizeNodes (resetFin s f) b f).1
    (getReorganizeNodes (resetFin s f) b f).2 h1
  dsimp only
  split <;> (rename_i heq; rw [heq] at h2; exact h2)

theorem MainPred.connectBestChain (hP : MainPred P) (s : State) (b : Block) (h : P s) :
    P (connectBestChain s b).1 := by
  unfold C25.connectBestChain
  split
  · exact h
  · split
    · split
      · rename_i s' hs'; exact hP.conn s b s' h hs'
      · exact h
    · split
      · exact h
      · split
        · exact h
        · split
          · exact h
          · split
            · exact h
            · exact hP.reorgTo s b _ h

theorem MainPred.maybeAcceptBlock (hP : MainPred P) (s : State) (b : Block) (h : P s) :
    P (maybeAcceptBlock s b).1 := by
  unfold C25.maybeAcceptBlock
  split
  · exact h
  · split
    · exact h
    · split
      · exact h
      · rename_i s1 hs1
        apply hP.connectBestChain
        exact hP.frame _ _ (hP.frame s s1 h (sameMain_storeBlock hs1)) (sameMain_addIndex s1 b)

theorem MainPred.processOrphans (hP : MainPred P) : ∀ (fuel : Nat) (q : List Nat) (s : State), P s →
    P (processOrphans fuel q s).1 := by
  intro fuel
  induction fuel with
  | zero => intro q s h; simpa [C25.processOrphans] using h
  | succ n ih =>
    intro q s h
    cases q with
    | nil => simpa [C25.processOrphans] using h
    | cons hd rest =>
      simp only [C25.processOrphans]
      split
      · exact ih rest s h
      · rename_i o ho
        have h2 := hP.maybeAcceptBlock _ o (hP.frame s _ h (sameMain_dropOrphan s o.id))
        split
        · rename_i s2 e heq; rw [heq] at h2; exact h2
        · rename_i s2 r hne heq; rw [heq] at h2; exact ih _ s2 h2

theorem MainPred.acceptAndDrain (hP : MainPred P) (s : State) (b : Block) (h : P s) :
    P (acceptAndDrain s b).1 := by
  unfold C25.acceptAndDrain
  have h1 := hP.maybeAcceptBlock s b h
  split
  · rename_i s1 e heq; rw [heq] at h1; exact h1
  · rename_i s1 r hne heq
    rw [heq] at h1
    have h2 := hP.processOrphans (orphanFuel s1) [b.id] s1 h1
    split <;> (rename_i heq2; rw [heq2] at h2; exact h2)

theorem MainPred.processBlock (hP : MainPred P) (s : State) (b : Block) (h : P s) :
    P (processBlock s b).1 := by
  unfold C25.processBlock
  have h0 : P (unorphan s b) := hP.frame s _ h (sameMain_unorphan s b)
  split
  · exact h
  · split
    · exact h
    · split
      · exact hP.frame _ _ h0 (sameMain_addOrphan _ b)
      · exact hP.acceptAndDrain _ b h0

theorem MainPred.deliverAll (hP : MainPred P) : ∀ (bs : List Block) (s : State), P s → P (deliverAll s bs) := by
  intro bs
  induction bs with
  | nil => intro s h; exact h
  | cons b bs ih =>
    intro s h
    simp only [C25.deliverAll, List.foldl_cons]
    exact ih _ (hP.processBlock s b h)

end C25

namespace C25

/-- the margin never changes. -/
theorem margin_mainPred (m : Nat) : MainPred (fun s => s.margin = m) where
  frame := by intro s s' h e; rw [e.2.2.2.2.2.2.2]; exact h
  conn := by
    intro s b s' h hc
    obtain ⟨_, _, sq, _, _, _, hsq, _, rfl⟩ := connectBlock_ok hc
    rw [← h]; exact (saveSeq_frame hsq).2.1
  disc := by
    intro s b s' h hc
    obtain ⟨_, _, sq, _, _, hsq, rfl⟩ := disconnectBlock_ok hc
    rw [← h]; exact (saveSeq_frame hsq).2.1

end C25
