import Chain33Model.Proofs.C25Inv
/-!
Reorganisation lands on the chain of the new node (`reorg_lands`):
`findFork` finds the last common block, `getReorganizeNodes` splits both chains there,
`reorganize` pops the old suffix and pushes the new one without error.
-/
namespace C25

theorem Inv.setFin {s : State} (h : Inv s) (x : Nat) : Inv { s with fin := x } :=
  ⟨h.uniq, h.closed, h.linked, h.bestIn, h.zeroIn, h.h2h, h.last, h.tdSome, h.tdRec, h.stored,
   h.storedIn, h.orphFresh, h.orphUniq, h.seqOk⟩

theorem Inv.resetFin {s : State} (h : Inv s) (f : Option Block) : Inv (resetFin s f) := by
  unfold C25.resetFin
  split
  · split
    · exact h.setFin _
    · exact h
  · exact h

theorem resetFin_same (s : State) (f : Option Block) :
    (resetFin s f).index = s.index ∧ (resetFin s f).orphans = s.orphans ∧ (resetFin s f).best = s.best ∧
    (resetFin s f).tds = s.tds ∧ (resetFin s f).stored = s.stored ∧ (resetFin s f).margin = s.margin ∧
    (resetFin s f).recSeq = s.recSeq ∧ (resetFin s f).h2h = s.h2h ∧ (resetFin s f).last = s.last ∧
    (resetFin s f).txIdx = s.txIdx := by
  unfold resetFin
  split
  · split <;> simp
  · simp

theorem takeWhile_split {p : Block → Bool} {pre rest : List Block} {f : Block}
    (h1 : ∀ x ∈ pre, p x = true) (h2 : p f = false) : (pre ++ f :: rest).takeWhile p = pre := by
  induction pre with
  | nil => simp [List.takeWhile, h2]
  | cons a pre ih =>
    simp only [List.cons_append, List.takeWhile_cons, h1 a (by simp), if_true]
    rw [ih (fun x hx => h1 x (List.mem_cons_of_mem _ hx))]

theorem mem_takeWhile_imp {p : Block → Bool} {l : List Block} {x : Block} (h : x ∈ l.takeWhile p) :
    p x = true := by
  induction l with
  | nil => simp at h
  | cons a l ih =>
    rw [List.takeWhile_cons] at h
    by_cases ha : p a = true
    · simp only [ha, if_true] at h
      rcases List.mem_cons.mp h with rfl | h
      · exact ha
      · exact ih h
    · simp [ha] at h

/-- the two chains split at the fork found by `findFork`. -/
theorem findFork_spec {s : State} (hi : Inv s) {b : Block} (hb : b ∈ s.index) :
    ∃ f pre1 pre2 rf, findFork s b = some f ∧
      chainTo s.index b.height b = pre1 ++ f :: rf ∧ s.best = pre2 ++ f :: rf ∧
      (∀ x ∈ pre1, x ∉ s.best) ∧
      getReorganizeNodes s b (some f) = (pre2, pre1.reverse) := by
  obtain ⟨t, r, hbest⟩ := List.exists_cons_of_ne_nil hi.linked.ne_nil
  obtain ⟨r1, hc1, hl1, hin1⟩ := chainTo_linked hi.uniq hi.closed b.height b hb rfl
  have hin1' : ∀ y ∈ b :: r1, y ∈ s.index := by
    intro y hy
    rcases List.mem_cons.mp hy with rfl | hy
    · exact hb
    · exact hin1 y hy
  have hcont : ∀ y ∈ b :: r1, (contains s.best y = true ↔ y ∈ s.best) :=
    fun y hy => contains_iff hi.uniq hi.linked hi.bestIn (hin1' y hy)
  -- heights on the best chain are at most the tip's
  have hle : ∀ y ∈ s.best, y.height ≤ t.height := by
    intro y hy
    rw [hbest] at hy
    rcases List.mem_cons.mp hy with rfl | hy
    · exact Nat.le_refl _
    · have := (hbest ▸ hi.linked).height_lt y hy; omega
  -- split c1 at the dropWhile
  let q : Block → Bool := fun n => decide (n.height > t.height)
  have hsplit : b :: r1 = (b :: r1).takeWhile q ++ (b :: r1).dropWhile q :=
    (List.takeWhile_append_dropWhile).symm
  -- the bottom element of c1 is on the best chain and survives the dropWhile
  have hex : ∃ z ∈ (b :: r1).dropWhile q, contains s.best z = true := by
    have hne : (b :: r1) ≠ [] := by simp
    let z := (b :: r1).getLast hne
    have hz : z ∈ b :: r1 := List.getLast_mem hne
    have hz0 : z.height = 0 := by
      obtain ⟨l, hl⟩ : ∃ l, b :: r1 = l ++ [z] := ⟨_, (List.dropLast_concat_getLast hne).symm⟩
      have := Linked.suffix l (hl ▸ hl1)
      exact this
    have hzb : z ∈ s.best := hi.zeroIn z (hin1' z hz) hz0
    refine ⟨z, ?_, (hcont z hz).mpr hzb⟩
    rw [hsplit] at hz
    rcases List.mem_append.mp hz with h | h
    · have := mem_takeWhile_imp h
      simp [q, hz0] at this
    · exact h
  have hfind : ((b :: r1).dropWhile q).find? (fun n => contains s.best n) |>.isSome := by
    rw [List.find?_isSome]
    obtain ⟨z, hz, hzc⟩ := hex
    exact ⟨z, hz, hzc⟩
  obtain ⟨f, hf⟩ := Option.isSome_iff_exists.mp hfind
  obtain ⟨hPf, as, bs, hdw, has⟩ := List.find?_eq_some_iff_append.mp hf
  have hc1' : b :: r1 = ((b :: r1).takeWhile q ++ as) ++ f :: bs := by
    rw [List.append_assoc, ← hdw]; exact hsplit
  have hfin1 : f ∈ b :: r1 := by rw [hc1']; simp
  have hfbest : f ∈ s.best := (hcont f hfin1).mp hPf
  have hpre1 : ∀ x ∈ (b :: r1).takeWhile q ++ as, x ∉ s.best := by
    intro x hx hxb
    rcases List.mem_append.mp hx with h | h
    · have h1 := mem_takeWhile_imp h
      have h2 := hle x hxb
      simp [q] at h1; omega
    · have hxin : x ∈ b :: r1 := by rw [hc1']; simp [h]
      have := has x h
      rw [(hcont x hxin).mpr hxb] at this
      simp at this
  generalize List.takeWhile q (b :: r1) ++ as = pre1 at hc1' hpre1
  obtain ⟨pre2, rf', hb2⟩ := List.append_of_mem hfbest
  -- both suffixes from f are the chain of f
  have hsuf1 : Linked (f :: bs) := Linked.suffix _ (hc1' ▸ hl1)
  have hsuf2 : Linked (f :: rf') := Linked.suffix _ (hb2 ▸ hi.linked)
  have e1 := chainTo_of_linked hi.uniq bs f
    (fun y hy => hin1' y (by rw [hc1']; exact List.mem_append_right _ hy)) hsuf1
  have e2 := chainTo_of_linked hi.uniq rf' f
    (fun y hy => hi.bestIn y (by rw [hb2]; exact List.mem_append_right _ hy)) hsuf2
  have hrf : bs = rf' := by
    have := e1.symm.trans e2
    simpa using this
  subst hrf
  have hfidx : f ∈ s.index := hin1' f hfin1
  -- notFork facts
  have hnf_f : notFork (some f) f = false := by simp [notFork]
  have hnf1 : ∀ x ∈ pre1, notFork (some f) x = true := by
    intro x hx
    have hxin : x ∈ b :: r1 := by rw [hc1']; exact List.mem_append_left _ hx
    simp only [notFork, bne_iff_ne, ne_eq]
    intro hid
    have := hi.uniq x (hin1' x hxin) f hfidx hid
    exact hpre1 x hx (this ▸ hfbest)
  have hnf2 : ∀ x ∈ pre2, notFork (some f) x = true := by
    intro x hx
    have hxb : x ∈ s.best := by rw [hb2]; exact List.mem_append_left _ hx
    simp only [notFork, bne_iff_ne, ne_eq]
    intro hid
    have hxf := hi.uniq x (hi.bestIn x hxb) f hfidx hid
    subst hxf
    -- x = f occurs in pre2 and again after it: heights would have to decrease strictly
    obtain ⟨l1, l2, hl⟩ := List.append_of_mem hx
    have hL : Linked (x :: (l2 ++ x :: bs)) := by
      have : s.best = l1 ++ x :: (l2 ++ x :: bs) := by rw [hb2, hl]; simp
      exact Linked.suffix l1 (this ▸ hi.linked)
    have := hL.height_lt x (by simp)
    omega
  refine ⟨f, pre1, pre2, bs, ?_, ?_, hb2, hpre1, ?_⟩
  · simp only [findFork, hbest, hc1]
    rw [← hbest]; exact hf
  · rw [hc1]; exact hc1'
  · have hbt : chainTo s.index t.height t = t :: r :=
      chainTo_of_linked hi.uniq r t (fun y hy => hi.bestIn y (hbest ▸ hy)) (hbest ▸ hi.linked)
    simp only [getReorganizeNodes, hbest, hc1, hbt]
    rw [hc1', takeWhile_split hnf1 hnf_f]
    rw [← hbest, hb2, takeWhile_split hnf2 hnf_f]

/-- **reorg_lands** (model level): from an invariant state, the reorganize branch succeeds and the
best chain becomes the parent chain of `b`; index, pool, stores are unchanged. -/
theorem reorgTo_spec {s : State} (hi : Inv s) {b : Block} (hb : b ∈ s.index) :
    ∃ s', reorgTo s b (findFork s b) = (s', .main) ∧ Inv s' ∧
      s'.best = chainTo s.index b.height b ∧
      s'.index = s.index ∧ s'.orphans = s.orphans ∧ s'.tds = s.tds ∧ s'.stored = s.stored ∧
      s'.margin = s.margin ∧ s'.recSeq = s.recSeq ∧ s'.fin = (resetFin s (findFork s b)).fin ∧
      ∃ f pre1 pre2 rf, chainTo s.index b.height b = pre1 ++ f :: rf ∧ s.best = pre2 ++ f :: rf ∧
        s'.txIdx = pre1.reverse.foldl addTxs (pre2.foldl delTxs s.txIdx) := by
  obtain ⟨f, pre1, pre2, rf, hff, hc1, hb2, hpre1, hgr⟩ := findFork_spec hi hb
  have hs := resetFin_same s (some f)
  have hi0 : Inv (resetFin s (some f)) := hi.resetFin _
  have hgr0 : getReorganizeNodes (resetFin s (some f)) b (some f) = (pre2, pre1.reverse) := by
    simp only [getReorganizeNodes, hs.1, hs.2.2.1] at hgr ⊢
    exact hgr
  obtain ⟨r1, hcl, hl1, hin1⟩ := chainTo_linked hi.uniq hi.closed b.height b hb rfl
  have hin1' : ∀ y ∈ chainTo s.index b.height b, y ∈ s.index := by
    rw [hcl]; intro y hy
    rcases List.mem_cons.mp hy with rfl | hy
    · exact hb
    · exact hin1 y hy
  obtain ⟨s1, hrun1, hi1, hbest1, hsr1, htx1⟩ := runSteps_disconnect_inv pre2 hi0 (f := f) (r := rf)
    (by rw [hs.2.2.1]; exact hb2)
  obtain ⟨s2, hrun2, hi2, hbest2, hsr2, htx2⟩ := runSteps_connect_inv pre1.reverse hi1
    (fun y hy => by
      rw [hsr1.1, hs.1]
      exact hin1' y (by rw [hc1]; exact List.mem_append_left _ (List.mem_reverse.mp hy)))
    (by rw [List.reverse_reverse, hbest1, ← hc1, hcl]; exact hl1)
  have hstored : (pre2 ++ pre1.reverse).all (fun n => ((resetFin s (some f)).stored n.id).isSome) = true := by
    rw [List.all_eq_true]
    intro x hx
    rw [hs.2.2.2.2.1]
    have : x ∈ s.index := by
      rcases List.mem_append.mp hx with h | h
      · exact hi.bestIn x (by rw [hb2]; exact List.mem_append_left _ h)
      · exact hin1' x (by rw [hc1]; exact List.mem_append_left _ (List.mem_reverse.mp h))
    rw [hi.stored x this]; rfl
  have hsr := hsr1.trans hsr2
  refine ⟨s2, ?_, hi2, ?_, ?_⟩
  · simp only [reorgTo, hff, hgr0, reorganize, hstored, hrun1, hrun2, Bool.not_true, Bool.false_eq_true, if_false]
  · rw [hbest2, hbest1, List.reverse_reverse, hc1]
  · rw [hff]
    exact ⟨hsr.1.trans hs.1, hsr.2.1.trans hs.2.1, hsr.2.2.1.trans hs.2.2.2.1,
      hsr.2.2.2.1.trans hs.2.2.2.2.1, hsr.2.2.2.2.2.1.trans hs.2.2.2.2.2.1,
      hsr.2.2.2.2.2.2.trans hs.2.2.2.2.2.2.1, hsr.2.2.2.2.1,
      f, pre1, pre2, rf, hc1, hb2, by rw [htx2, htx1, hs.2.2.2.2.2.2.2.2.2]⟩

end C25
