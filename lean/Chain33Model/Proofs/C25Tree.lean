import Chain33Model.Proofs.C25Deliver
import Chain33Model.Proofs.C25Tx
/-!
Deliveries drawn from a well-formed block tree: total difficulties, the fork-choice invariant
`tipMax`, the orphan lemma (no orphan waits for an indexed parent), and what they give once
the whole tree has been delivered.
-/
namespace C25

/-- a finite tree of valid blocks rooted at the genesis block `g`. -/
structure Tree (g : Block) (T : List Block) : Prop where
  gh : g.height = 0
  uniq : UniqIds (g :: T)
  closed : ∀ b ∈ T, ∃ p ∈ g :: T, p.id = b.parent ∧ b.height = p.height + 1
  /-- validity: no transaction occurs twice on one branch -/
  txFresh : ∀ b ∈ g :: T, TxFresh (chainTo (g :: T) b.height b)

/-- total difficulty of `b` in the block set `U`: sum of the work on its parent chain. -/
def TD (U : List Block) (b : Block) : Nat := ((chainTo U b.height b).map (·.diff)).sum

theorem TD_child {U : List Block} (hu : UniqIds U) {b p : Block} (hp : p ∈ U) (hpid : p.id = b.parent)
    (hh : b.height = p.height + 1) : TD U b = b.diff + TD U p := by
  unfold TD
  rw [hh]
  simp only [chainTo, ← hpid, lookup_of_mem hu hp, List.map_cons, List.sum_cons]

theorem Tree.parentClosed {g : Block} {T : List Block} (ht : Tree g T) : ParentClosed (g :: T) := by
  intro b hb
  rcases List.mem_cons.mp hb with h | h
  · rw [h]; exact Or.inl ht.gh
  · exact Or.inr (ht.closed b h)

/-- the part of the tree invariant that does not mention waiting orphans. -/
structure TBase (g : Block) (T : List Block) (F : Nat) (s : State) : Prop where
  inv : Inv s
  gIn : g ∈ s.index
  idxSub : ∀ b ∈ s.index, b ∈ g :: T
  orphSub : ∀ o ∈ s.orphans, o ∈ g :: T
  tdEq : ∀ b ∈ s.index, s.tds b.id = some (TD (g :: T) b)
  /-- fork choice (fixed finalised height 0): the tip is at least as heavy as every eligible block -/
  tipMax : F = 0 → ∀ t r, s.best = t :: r → ∀ b ∈ s.index, s.margin ≤ b.height → TD (g :: T) b ≤ TD (g :: T) t
  /-- a strictly heaviest eligible block is the tip as soon as it is indexed -/
  win : ∀ w ∈ g :: T, (∀ b ∈ g :: T, b ≠ w → TD (g :: T) b < TD (g :: T) w) → F + s.margin ≤ w.height →
    w ∈ s.index → ∃ r, s.best = w :: r
  /-- the finaliser is only ever reset downwards -/
  finLe : s.fin ≤ F
  /-- the transaction index is the view of the best chain -/
  txv : s.txIdx = txViewOf s.best

/-- no orphan waits for a parent that is already indexed. -/
def OrphPar (s : State) : Prop := ∀ o ∈ s.orphans, ∀ x ∈ s.index, x.id ≠ o.parent

/-- index ∪ pool only grows (as a set). -/
def Keeps (s s' : State) : Prop :=
  (∀ b ∈ s.index, b ∈ s'.index) ∧ (∀ b ∈ s.orphans, b ∈ s'.index ∨ b ∈ s'.orphans)

theorem Keeps.refl (s : State) : Keeps s s := ⟨fun _ h => h, fun _ h => Or.inr h⟩

theorem Keeps.trans {a b c : State} (h1 : Keeps a b) (h2 : Keeps b c) : Keeps a c :=
  ⟨fun x hx => h2.1 x (h1.1 x hx), fun x hx => by
    rcases h1.2 x hx with h | h
    · exact Or.inl (h2.1 x h)
    · exact h2.2 x h⟩

/-- nothing appears in index ∪ pool that was not there before (up to the delivered block). -/
def Sub (s s' : State) : Prop :=
  ∀ x, (x ∈ s'.index ∨ x ∈ s'.orphans) → (x ∈ s.index ∨ x ∈ s.orphans)

theorem Sub.refl (s : State) : Sub s s := fun _ h => h

theorem Sub.trans {a b c : State} (h1 : Sub a b) (h2 : Sub b c) : Sub a c := fun x hx => h1 x (h2 x hx)

theorem resetFin_le (s : State) (f : Option Block) : (resetFin s f).fin ≤ s.fin := by
  unfold resetFin
  split
  · split
    · rename_i hlt; exact Nat.le_of_lt hlt
    · exact Nat.le_refl _
  · exact Nat.le_refl _

/-- accepting a fresh tree block whose parent is indexed. -/
theorem accept_tbase {g : Block} {T : List Block} {F : Nat} (ht : Tree g T) {s : State} (hs : TBase g T F s)
    {b : Block} (hbU : b ∈ g :: T) (hfresh : ∀ x ∈ s.index, x.id ≠ b.id)
    (hforph : ∀ o ∈ s.orphans, o.id ≠ b.id) {p : Block} (hp : p ∈ s.index) (hpid : p.id = b.parent) :
    ∃ s' r, maybeAcceptBlock s b = (s', r) ∧ (r = .main ∨ r = .side) ∧ TBase g T F s' ∧
      s'.index = b :: s.index ∧ s'.orphans = s.orphans := by
  have hbg : b ≠ g := fun h => hfresh g hs.gIn (by rw [h])
  have hbT : b ∈ T := by
    rcases List.mem_cons.mp hbU with h | h
    · exact absurd h hbg
    · exact h
  obtain ⟨p', hp', hp'id, hh'⟩ := ht.closed b hbT
  have hpp : p = p' := ht.uniq p (hs.idxSub p hp) p' hp' (hpid.trans hp'id.symm)
  subst hpp
  have hlk : lookup s.index b.parent = some p := by rw [← hpid]; exact lookup_of_mem hs.inv.uniq hp
  rcases maybeAcceptBlock_spec hs.inv hfresh hforph with ⟨e, _, hno | ⟨q, hq, hne⟩⟩ |
      ⟨q, tp, s0, s', r, hq, hqid, hqh, hqtd, he, hi0, hi', e1, e2, e3, e4, e5, e6, e7, e8, hss, hout⟩
  · rw [hlk] at hno; cases hno
  · rw [hlk] at hq; cases hq; exact absurd hh' hne
  · have hqp : q = p := hs.inv.uniq q hq p hp (hqid.trans hpid.symm)
    subst hqp
    have htp : tp = TD (g :: T) q := by
      have := hs.tdEq q hp; rw [hqtd] at this; exact Option.some.inj this
    have hTDb : TD (g :: T) b = b.diff + TD (g :: T) q := TD_child ht.uniq (hs.idxSub q hp) hpid hh'
    have hidx' : s'.index = b :: s.index := hss.1.trans e1
    -- table of total difficulties in s0 (and s')
    have htd0 : ∀ x ∈ s0.index, s0.tds x.id = some (TD (g :: T) x) := by
      intro x hx
      rw [e1] at hx; rw [e7]
      rcases List.mem_cons.mp hx with hxb | hx
      · rw [hxb, upd_same, hTDb, htp]
      · rw [upd_other _ _ _ _ (hfresh x hx)]; exact hs.tdEq x hx
    have hfin' : s'.fin ≤ s.fin := by
      cases hout with
      | extend t rest _ _ _ hf => rw [hf, e4]; exact Nat.le_refl _
      | stay t rest tt tb _ _ _ _ _ _ hf => rw [hf, e4]; exact Nat.le_refl _
      | reorg t rest tt tb _ _ _ _ _ _ _ hf => rw [hf, ← e4]; exact resetFin_le _ _
    have hfinLe := hs.finLe
    have hr : r = .main ∨ r = .side := by
      cases hout <;> simp
    refine ⟨s', r, he, hr, ⟨hi', ?_, ?_, ?_, ?_, ?_, ?_, Nat.le_trans hfin' hfinLe, ?_⟩, hidx', hss.2.1.trans e2⟩
    rotate_right
    · -- txv
      have hbestU : ∀ t rest, s.best = t :: rest → chainTo (g :: T) t.height t = t :: rest := by
        intro t rest hb
        exact chainTo_of_linked ht.uniq rest t (fun y hy => hs.idxSub y (hs.inv.bestIn y (hb ▸ hy)))
          (hb ▸ hs.inv.linked)
      cases hout with
      | extend t rest hb0 _ hb' _ htx => rw [htx, hb', e8, e3, hs.txv]; rfl
      | stay t rest tt tb _ _ _ _ _ hb' _ htx => rw [htx, hb', e8, e3]; exact hs.txv
      | reorg t rest tt tb hb0 _ _ _ _ _ hb' _ htx =>
        obtain ⟨f, pre1, pre2, rf, hc1, hb2, htx'⟩ := htx
        rw [htx', hb', hc1, e8, hs.txv]
        rw [e3] at hb0 hb2
        have hfresh2 : TxFresh (pre2 ++ f :: rf) := by
          have htin : t ∈ s.index := hs.inv.bestIn t (by rw [hb0]; simp)
          have := ht.txFresh t (hs.idxSub t htin)
          rw [hbestU t rest hb0, ← hb0, hb2] at this
          exact this
        rw [hb2, foldl_delTxs_view pre2 (f :: rf) hfresh2, foldl_addTxs_view]
        simp
    · rw [hidx']; exact List.mem_cons_of_mem _ hs.gIn
    · intro x hx
      rw [hidx'] at hx
      rcases List.mem_cons.mp hx with hxb | hx
      · rw [hxb]; exact hbU
      · exact hs.idxSub x hx
    · intro o ho; rw [hss.2.1, e2] at ho; exact hs.orphSub o ho
    · intro x hx; rw [hss.2.2.1]; exact htd0 x (hss.1 ▸ hx)
    · -- tipMax
      intro hF t' r' hbest' x hx hel
      have hfin0 : s.fin = 0 := by omega
      rw [hss.2.2.2.2.1, e5] at hel
      rw [hidx'] at hx
      have hold : ∀ t r, s.best = t :: r → ∀ y ∈ s.index, s.margin ≤ y.height → TD (g :: T) y ≤ TD (g :: T) t :=
        hs.tipMax hF
      cases hout with
      | extend t rest hb0 hpar hb' _ =>
        rw [hb'] at hbest'
        have ht' : t' = b := (List.cons.inj hbest').1.symm
        rw [ht']
        rcases List.mem_cons.mp hx with hxb | hx
        · rw [hxb]; exact Nat.le_refl _
        · have htq : t = q := by
            have htin : t ∈ s.index := hs.inv.bestIn t (by rw [← e3, hb0]; simp)
            exact hs.inv.uniq t htin q hp (hpar.symm.trans hpid.symm)
          have := hold t rest (by rw [← e3]; exact hb0) x hx (by omega)
          rw [hTDb, ← htq]; omega
      | stay t rest tt tb hb0 _ htt htb hcond hb' hf =>
        rw [hb', hb0] at hbest'
        have ht' : t' = t := (List.cons.inj hbest').1.symm
        rw [ht']
        have htin : t ∈ s.index := hs.inv.bestIn t (by rw [← e3, hb0]; simp)
        rcases List.mem_cons.mp hx with hxb | hx
        · rw [hxb] at hel ⊢
          have h1 := htd0 t (by rw [e1]; exact List.mem_cons_of_mem _ htin)
          have h2 := htd0 b (by rw [e1]; simp)
          rw [htt] at h1; rw [htb] at h2
          have h1 := Option.some.inj h1
          have h2 := Option.some.inj h2
          rw [e4, e5, hfin0] at hcond
          rcases hcond with hc | hc
          · omega
          · omega
        · exact hold t rest (by rw [← e3]; exact hb0) x hx (by omega)
      | reorg t rest tt tb hb0 _ htt htb hlt _ hb' _ =>
        have htin : t ∈ s.index := hs.inv.bestIn t (by rw [← e3, hb0]; simp)
        obtain ⟨rr, hcr, _, _⟩ := chainTo_linked hi0.uniq hi0.closed b.height b (by rw [e1]; simp) rfl
        rw [hb', hcr] at hbest'
        have ht' : t' = b := (List.cons.inj hbest').1.symm
        rw [ht']
        have h1 := htd0 t (by rw [e1]; exact List.mem_cons_of_mem _ htin)
        have h2 := htd0 b (by rw [e1]; simp)
        rw [htt] at h1; rw [htb] at h2
        have h1 := Option.some.inj h1
        have h2 := Option.some.inj h2
        rcases List.mem_cons.mp hx with hxb | hx
        · rw [hxb]; exact Nat.le_refl _
        · have := hold t rest (by rw [← e3]; exact hb0) x hx (by omega)
          omega
    · -- win
      intro w hwU hmax hel hwi
      rw [hss.2.2.2.2.1, e5] at hel
      rw [hidx'] at hwi
      have hTDx : ∀ x ∈ s0.index, ∀ v, s0.tds x.id = some v → v = TD (g :: T) x := by
        intro x hx v hv
        have := htd0 x hx; rw [hv] at this; exact Option.some.inj this
      by_cases hwb : w = b
      · -- the winner itself arrives
        cases hout with
        | extend t rest _ _ hb' _ => exact ⟨s0.best, by rw [hb', hwb]⟩
        | stay t rest tt tb hb0 _ htt htb hcond _ _ =>
          exfalso
          have htin : t ∈ s.index := hs.inv.bestIn t (by rw [← e3, hb0]; simp)
          have h1 := hTDx t (by rw [e1]; exact List.mem_cons_of_mem _ htin) tt htt
          have h2 := hTDx b (by rw [e1]; simp) tb htb
          have htw : t ≠ w := by
            intro h; rw [hwb] at h; exact hfresh t htin (by rw [h])
          have h3 := hmax t (hs.idxSub t htin) htw
          rw [e4, e5] at hcond
          rw [hwb] at h3 hel
          rcases hcond with hc | hc
          · omega
          · omega
        | reorg t rest tt tb _ _ _ _ _ _ hb' _ =>
          obtain ⟨rr, hcr, _, _⟩ := chainTo_linked hi0.uniq hi0.closed b.height b (by rw [e1]; simp) rfl
          exact ⟨rr, by rw [hb', hcr, hwb]⟩
      · have hwi' : w ∈ s.index := by
          rcases List.mem_cons.mp hwi with h | h
          · exact absurd h hwb
          · exact h
        obtain ⟨rw', hbw⟩ := hs.win w hwU hmax hel hwi'
        have hbU' : b ∈ g :: T := hbU
        have hlt := hmax b hbU' (fun h => hwb h.symm)
        cases hout with
        | extend t rest hb0 hpar _ _ =>
          exfalso
          rw [e3, hbw] at hb0
          have htw : t = w := (List.cons.inj hb0).1.symm
          have hqw : q = w := hs.inv.uniq q hp w hwi' (by rw [hpid, hpar, htw])
          rw [hTDb, hqw] at hlt; omega
        | stay t rest tt tb _ _ _ _ _ hb' _ => exact ⟨rw', by rw [hb', e3, hbw]⟩
        | reorg t rest tt tb hb0 _ htt htb hlt' _ _ _ =>
          exfalso
          rw [e3, hbw] at hb0
          have htw : t = w := (List.cons.inj hb0).1.symm
          have h1 := hTDx t (by rw [e1, htw]; exact List.mem_cons_of_mem _ hwi') tt htt
          have h2 := hTDx b (by rw [e1]; simp) tb htb
          rw [htw] at h1
          omega

end C25

namespace C25

theorem TBase.dropOrphan {g : Block} {T : List Block} {F : Nat} {s : State} (hs : TBase g T F s) (id : Nat) :
    TBase g T F (dropOrphan s id) :=
  ⟨hs.inv.dropOrphan id, hs.gIn, hs.idxSub, fun o ho => hs.orphSub o (List.mem_filter.mp ho).1,
   hs.tdEq, hs.tipMax, hs.win, hs.finLe, hs.txv⟩

theorem filter_length_lt {l : List Block} {o : Block} (ho : o ∈ l) :
    (l.filter (fun x => x.id != o.id)).length < l.length := by
  induction l with
  | nil => cases ho
  | cons a l ih =>
    rw [List.filter_cons]
    by_cases ha : a.id = o.id
    · have : (a.id != o.id) = false := by simp [ha]
      simp only [this, Bool.false_eq_true, if_false, List.length_cons]
      have := List.length_filter_le (fun x => x.id != o.id) l
      omega
    · have : (a.id != o.id) = true := by simp [ha]
      simp only [this, if_true, List.length_cons]
      rcases List.mem_cons.mp ho with h | h
      · exact absurd (by rw [h]) ha
      · have := ih h; omega

/-- `ProcessOrphans` drains every orphan that (transitively) waits for the work-list blocks;
never stuck, never an error; afterwards no orphan's parent is indexed. -/
theorem processOrphans_tree {g : Block} {T : List Block} {F : Nat} (ht : Tree g T) :
    ∀ (fuel : Nat) (q : List Nat) (s : State), TBase g T F s →
      (∀ i ∈ q, ∃ x ∈ s.index, x.id = i) →
      (∀ o ∈ s.orphans, ∀ x ∈ s.index, x.id = o.parent → o.parent ∈ q) →
      2 * s.orphans.length + q.length + 1 ≤ fuel →
      ∃ s', processOrphans fuel q s = (s', none) ∧ TBase g T F s' ∧ OrphPar s' ∧ Keeps s s' ∧ Sub s s' := by
  intro fuel
  induction fuel with
  | zero => intro q s _ _ _ hf; omega
  | succ n ih =>
    intro q s hs hq1 hq2 hf
    cases q with
    | nil =>
      refine ⟨s, by simp [processOrphans], hs, ?_, Keeps.refl s, Sub.refl s⟩
      intro o ho x hx hid
      have := hq2 o ho x hx hid
      cases this
    | cons h rest =>
      cases hfind : s.orphans.find? (fun o => o.parent == h) with
      | none =>
        have hnone : ∀ o ∈ s.orphans, o.parent ≠ h := by
          intro o ho
          have := List.find?_eq_none.mp hfind o ho
          simpa using this
        obtain ⟨s', hrun, h1, h2, h3, h4⟩ := ih rest s hs
          (fun i hi => hq1 i (List.mem_cons_of_mem _ hi))
          (fun o ho x hx hid => by
            rcases List.mem_cons.mp (hq2 o ho x hx hid) with h' | h'
            · exact absurd h' (hnone o ho)
            · exact h')
          (by simp at hf; omega)
        exact ⟨s', by simp only [processOrphans, hfind]; exact hrun, h1, h2, h3, h4⟩
      | some o =>
        have hom : o ∈ s.orphans := List.mem_of_find?_eq_some hfind
        have hoh : o.parent = h := by simpa using List.find?_some hfind
        obtain ⟨p, hp, hpid⟩ := hq1 h (by simp)
        obtain ⟨s2, r, hacc, hr, hs2, hidx2, horph2⟩ := accept_tbase ht (hs.dropOrphan o.id) (b := o)
          (hs.orphSub o hom) (fun x hx => hs.inv.orphFresh o hom x hx) (dropOrphan_fresh s o.id)
          (p := p) hp (hpid.trans hoh.symm)
        have hlen : s2.orphans.length < s.orphans.length := by
          rw [horph2]; exact filter_length_lt hom
        have hk : Keeps s s2 := by
          refine ⟨fun x hx => by rw [hidx2]; exact List.mem_cons_of_mem _ hx, fun x hx => ?_⟩
          by_cases hxo : x.id = o.id
          · left; rw [hidx2, hs.inv.orphUniq x hx o hom hxo]; simp
          · right; rw [horph2]; exact List.mem_filter.mpr ⟨hx, by simpa using hxo⟩
        have hsub : Sub s s2 := by
          intro x hx
          rcases hx with hx | hx
          · rw [hidx2] at hx
            rcases List.mem_cons.mp hx with hxo | hx
            · rw [hxo]; exact Or.inr hom
            · exact Or.inl hx
          · rw [horph2] at hx; exact Or.inr (List.mem_filter.mp hx).1
        obtain ⟨s', hrun, h1, h2, h3, h4⟩ := ih (h :: rest ++ [o.id]) s2 hs2
          (fun i hi => by
            rw [hidx2]
            rcases List.mem_append.mp (by simpa using hi : i ∈ (h :: rest) ++ [o.id]) with h' | h'
            · obtain ⟨x, hx, hxi⟩ := hq1 i h'
              exact ⟨x, List.mem_cons_of_mem _ hx, hxi⟩
            · simp at h'; exact ⟨o, by simp, h'.symm⟩)
          (fun o2 ho2 x hx hid => by
            rw [horph2] at ho2
            have ho2' := (List.mem_filter.mp ho2).1
            rw [hidx2] at hx
            rcases List.mem_cons.mp hx with hxo | hx
            · rw [hxo] at hid; rw [← hid]; simp
            · have := hq2 o2 ho2' x hx hid
              rcases List.mem_cons.mp this with h' | h'
              · rw [h']; simp
              · simp [h'])
          (by simp at hf ⊢; omega)
        refine ⟨s', ?_, h1, h2, hk.trans h3, hsub.trans h4⟩
        simp only [processOrphans, hfind, hacc]
        rcases hr with hr | hr <;> (rw [hr]; exact hrun)

theorem TBase.unorphan {g : Block} {T : List Block} {F : Nat} {s : State} (hs : TBase g T F s) (b : Block) :
    TBase g T F (unorphan s b) := by
  unfold C25.unorphan
  split
  · exact hs.dropOrphan _
  · exact hs

theorem unorphan_orphans_sub (s : State) (b : Block) : ∀ o ∈ (unorphan s b).orphans, o ∈ s.orphans := by
  unfold unorphan
  split
  · intro o ho; exact (List.mem_filter.mp ho).1
  · intro o ho; exact ho

theorem unorphan_keeps_others (s : State) (b : Block) :
    ∀ o ∈ s.orphans, o.id ≠ b.id → o ∈ (unorphan s b).orphans := by
  unfold unorphan
  split
  · intro o ho hne; exact List.mem_filter.mpr ⟨ho, by simpa using hne⟩
  · intro o ho _; exact ho

/-- one delivery of a tree block keeps the whole tree invariant. -/
theorem processBlock_tree {g : Block} {T : List Block} {F : Nat} (ht : Tree g T) {s : State}
    (hs : TBase g T F s) (ho : OrphPar s) {b : Block} (hb : b ∈ g :: T) :
    TBase g T F (processBlock s b).1 ∧ OrphPar (processBlock s b).1 ∧ Keeps s (processBlock s b).1 ∧
    (b ∈ (processBlock s b).1.index ∨ b ∈ (processBlock s b).1.orphans) ∧
    (∀ x, (x ∈ (processBlock s b).1.index ∨ x ∈ (processBlock s b).1.orphans) →
      (x ∈ s.index ∨ x ∈ s.orphans ∨ x = b)) := by
  unfold processBlock
  by_cases hhave : haveBlock s b.id = true
  · simp only [hhave, if_true]
    obtain ⟨x, hx, hxid⟩ := (haveBlock_iff s b.id).mp hhave
    have : x = b := ht.uniq x (hs.idxSub x hx) b hb hxid
    exact ⟨hs, ho, Keeps.refl s, Or.inl (this ▸ hx), fun y hy => by
      rcases hy with hy | hy
      · exact Or.inl hy
      · exact Or.inr (Or.inl hy)⟩
  · simp only [hhave, Bool.false_eq_true, if_false]
    have hfresh : ∀ x ∈ s.index, x.id ≠ b.id := not_haveBlock_fresh hhave
    by_cases hko : isKnownOrphan s b.id = true ∧ (!haveBlock s b.parent) = true
    · simp only [hko, and_self, if_true]
      obtain ⟨o, hom, hoid⟩ : ∃ o ∈ s.orphans, o.id = b.id := by
        have := hko.1
        simp only [isKnownOrphan, List.any_eq_true] at this
        obtain ⟨o, ho1, ho2⟩ := this
        exact ⟨o, ho1, by simpa using ho2⟩
      have : o = b := ht.uniq o (hs.orphSub o hom) b hb hoid
      exact ⟨hs, ho, Keeps.refl s, Or.inr (this ▸ hom), fun y hy => by
        rcases hy with hy | hy
        · exact Or.inl hy
        · exact Or.inr (Or.inl hy)⟩
    · simp only [hko, if_false]
      have hs0 := hs.unorphan b
      have hidx0 := unorphan_index s b
      have hfresh0 : ∀ x ∈ (unorphan s b).index, x.id ≠ b.id := by rw [hidx0]; exact hfresh
      have hforph0 := unorphan_fresh s b
      have hk0 : ∀ o ∈ s.orphans, o = b ∨ o ∈ (unorphan s b).orphans := by
        intro o hom
        by_cases hid : o.id = b.id
        · exact Or.inl (ht.uniq o (hs.orphSub o hom) b hb hid)
        · exact Or.inr (unorphan_keeps_others s b o hom hid)
      have hop0 : OrphPar (unorphan s b) := by
        intro o hom x hx
        rw [hidx0] at hx
        exact ho o (unorphan_orphans_sub s b o hom) x hx
      have hhp : haveBlock (unorphan s b) b.parent = haveBlock s b.parent := by
        simp only [haveBlock, hidx0]
      by_cases hpar : haveBlock s b.parent = true
      · -- accept and drain
        simp only [hhp, hpar, Bool.not_true, Bool.false_eq_true, if_false]
        obtain ⟨p, hp, hpid⟩ := (haveBlock_iff s b.parent).mp hpar
        obtain ⟨s1, r, hacc, hr, hs1, hidx1, horph1⟩ := accept_tbase ht hs0 hb hfresh0 hforph0
          (p := p) (by rw [hidx0]; exact hp) hpid
        obtain ⟨s', hrun, h1, h2, h3, h4⟩ := processOrphans_tree ht (orphanFuel s1) [b.id] s1 hs1
          (fun i hi => by simp at hi; rw [hi, hidx1]; exact ⟨b, by simp, rfl⟩)
          (fun o hom x hx hid => by
            rw [hidx1] at hx; rw [horph1] at hom
            rcases List.mem_cons.mp hx with hxb | hx
            · rw [hxb] at hid; rw [← hid]; simp
            · exact absurd hid (hop0 o hom x hx))
          (by simp [orphanFuel])
        have hres : acceptAndDrain (unorphan s b) b = (s', r) := by
          simp only [acceptAndDrain, hacc]
          rcases hr with hr | hr <;> (rw [hr]; simp only [hrun])
        rw [hres]
        refine ⟨h1, h2, ?_, Or.inl (h3.1 b (by rw [hidx1]; simp)), ?_⟩
        · refine ⟨fun x hx => h3.1 x (by rw [hidx1, hidx0]; exact List.mem_cons_of_mem _ hx), fun o hom => ?_⟩
          rcases hk0 o hom with hob | hob
          · rw [hob]; exact Or.inl (h3.1 b (by rw [hidx1]; simp))
          · exact h3.2 o (by rw [horph1]; exact hob)
        · intro y hy
          rcases h4 y hy with hy | hy
          · rw [hidx1, hidx0] at hy
            rcases List.mem_cons.mp hy with hyb | hy
            · exact Or.inr (Or.inr hyb)
            · exact Or.inl hy
          · rw [horph1] at hy
            exact Or.inr (Or.inl (unorphan_orphans_sub s b y hy))
      · -- into the pool
        have hpar' : haveBlock s b.parent = false := by simpa using hpar
        simp only [hhp, hpar', Bool.not_false, if_true]
        refine ⟨⟨hs0.inv.addOrphan hfresh0 hforph0, hs0.gIn, hs0.idxSub, ?_, hs0.tdEq, hs0.tipMax, hs0.win, hs0.finLe, hs0.txv⟩,
          ?_, ⟨fun x hx => by simp only [addOrphan, hidx0]; exact hx, fun o hom => ?_⟩, Or.inr (by simp [addOrphan]), ?_⟩
        · intro o hom
          simp only [addOrphan] at hom
          rcases List.mem_append.mp hom with h | h
          · exact hs0.orphSub o h
          · simp at h; rw [h]; exact hb
        · intro o hom x hx
          simp only [addOrphan] at hom hx
          rcases List.mem_append.mp hom with h | h
          · exact hop0 o h x hx
          · simp at h; rw [h]; rw [hidx0] at hx
            exact not_haveBlock_fresh hpar x hx
        · right
          simp only [addOrphan]
          rcases hk0 o hom with hob | hob
          · rw [hob]; simp
          · exact List.mem_append_left _ hob
        · intro y hy
          simp only [addOrphan, hidx0] at hy
          rcases hy with hy | hy
          · exact Or.inl hy
          · rcases List.mem_append.mp hy with h | h
            · exact Or.inr (Or.inl (unorphan_orphans_sub s b y h))
            · simp at h; exact Or.inr (Or.inr h)

end C25
