import Chain33Model.Model.C25
import Chain33Model.Proofs.C25Basic
/-!
The transaction index (`AddTxs` on connect, `DelTxs` on disconnect) as a view of the best chain.
-/
namespace C25

theorem foldl_upd_apply {α : Type} (v : Nat → Option α) : ∀ (l : List Nat) (m : Map α) (x : Nat),
    (l.foldl (fun m t => upd m t (v t)) m) x = if x ∈ l then v x else m x := by
  intro l
  induction l with
  | nil => intro m x; simp
  | cons a l ih =>
    intro m x
    rw [List.foldl_cons, ih]
    by_cases hx : x ∈ l
    · simp [hx]
    · by_cases hxa : x = a
      · subst hxa; simp [hx]
      · simp [hx, hxa, upd]

theorem addTxs_apply (m : Map Nat) (b : Block) (t : Nat) :
    addTxs m b t = if t ∈ b.txs then some b.height else m t := by
  unfold addTxs
  exact foldl_upd_apply (fun _ => some b.height) b.txs m t

theorem delTxs_apply (m : Map Nat) (b : Block) (t : Nat) :
    delTxs m b t = if t ∈ b.txs then none else m t := by
  unfold delTxs
  exact foldl_upd_apply (fun _ => none) b.txs m t

/-- deleting what was just added restores the index when the block's transactions were new. -/
theorem delTxs_addTxs (m : Map Nat) (b : Block) (h : ∀ t ∈ b.txs, m t = none) :
    delTxs (addTxs m b) b = m := by
  funext t
  rw [delTxs_apply, addTxs_apply]
  by_cases ht : t ∈ b.txs
  · simp [ht, h t ht]
  · simp [ht]

/-- the transaction index described by a chain (tip first). -/
def txViewOf : List Block → Map Nat
  | [] => fun _ => none
  | b :: r => addTxs (txViewOf r) b

theorem txViewOf_none : ∀ (c : List Block) (t : Nat), (∀ x ∈ c, t ∉ x.txs) → txViewOf c t = none := by
  intro c
  induction c with
  | nil => intro t _; rfl
  | cons b r ih =>
    intro t h
    simp only [txViewOf]
    rw [addTxs_apply, if_neg (h b (by simp))]
    exact ih t (fun x hx => h x (List.mem_cons_of_mem _ hx))

/-- no transaction of a block occurs in a block below it (no duplicate transaction on a branch). -/
def TxFresh : List Block → Prop
  | [] => True
  | x :: r => (∀ t ∈ x.txs, ∀ y ∈ r, t ∉ y.txs) ∧ TxFresh r

instance decTxFresh : (c : List Block) → Decidable (TxFresh c)
  | [] => isTrue trivial
  | x :: r =>
    have := decTxFresh r
    inferInstanceAs (Decidable ((∀ t ∈ x.txs, ∀ y ∈ r, t ∉ y.txs) ∧ TxFresh r))

theorem TxFresh.suffix : ∀ (l : List Block) {c : List Block}, TxFresh (l ++ c) → TxFresh c := by
  intro l
  induction l with
  | nil => intro c h; simpa using h
  | cons a l ih => intro c h; exact ih h.2

theorem foldl_addTxs_view : ∀ (att c : List Block),
    att.foldl addTxs (txViewOf c) = txViewOf (att.reverse ++ c) := by
  intro att
  induction att with
  | nil => intro c; simp
  | cons x att ih =>
    intro c
    rw [List.foldl_cons]
    have : addTxs (txViewOf c) x = txViewOf (x :: c) := rfl
    rw [this, ih (x :: c)]
    simp

theorem foldl_delTxs_view : ∀ (pre c : List Block), TxFresh (pre ++ c) →
    pre.foldl delTxs (txViewOf (pre ++ c)) = txViewOf c := by
  intro pre
  induction pre with
  | nil => intro c _; simp
  | cons x pre ih =>
    intro c h
    rw [List.foldl_cons]
    have h1 : delTxs (txViewOf (x :: pre ++ c)) x = txViewOf (pre ++ c) := by
      show delTxs (addTxs (txViewOf (pre ++ c)) x) x = _
      exact delTxs_addTxs _ _ (fun t ht => txViewOf_none _ t (fun y hy => h.1 t ht y hy))
    have : (x :: pre) ++ c = x :: pre ++ c := rfl
    rw [this, h1]
    exact ih c h.2

end C25
