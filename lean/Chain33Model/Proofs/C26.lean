import Chain33Model.Model.C26
import Chain33Model.Proofs.C25Lift
import Chain33Model.Proofs.C25Chain
/-!
Invariants of the sequence log: consecutive numbering, append-only, replay = best-chain view.
All are `MainPred`s, hence hold after delivering *any* blocks in any order.
-/
namespace C26
open C25

/-- numbering without gaps: record `i` exists iff `i ≤ lastSeq`. -/
def SeqCons (s : State) : Prop :=
  -1 ≤ s.lastSeq ∧ (∀ i : Nat, (s.seqTab i).isSome ↔ (i : Int) ≤ s.lastSeq) ∧
  (s.recSeq = true → 0 ≤ s.lastSeq)

theorem seqLog_seqAfter (s : State) (a : Bool) (b : Block) (h : -1 ≤ s.lastSeq) :
    seqLog (seqAfter s a b) = seqLog s ++ [some (a, b.id)] := by
  have hn : (s.lastSeq + 1 + 1).toNat = (s.lastSeq + 1).toNat + 1 := by omega
  simp only [seqLog, seqAfter, hn, List.range_succ, List.map_append, List.map_cons, List.map_nil, upd_same]
  congr 1
  apply List.map_congr_left
  intro i hi
  simp only [List.mem_range] at hi
  exact upd_other _ _ _ _ (by omega)

theorem seqCons_seqAfter (s : State) (a : Bool) (b : Block) (h : SeqCons s) : SeqCons (seqAfter s a b) := by
  obtain ⟨h1, h2, h3⟩ := h
  refine ⟨by simp [seqAfter]; omega, ?_, by intro _; simp [seqAfter]; omega⟩
  intro i
  simp only [seqAfter]
  by_cases hi : i = (s.lastSeq + 1).toNat
  · subst hi; simp; omega
  · rw [upd_other _ _ _ _ hi, h2 i]; omega

/-- append-only: everything `s0` had recorded is still there, unchanged. -/
def Ext (s0 s : State) : Prop :=
  s0.lastSeq ≤ s.lastSeq ∧ ∀ i : Nat, (i : Int) ≤ s0.lastSeq → s.seqTab i = s0.seqTab i

theorem ext_seqAfter (s0 s : State) (a : Bool) (b : Block) (h : Ext s0 s) (h0 : -1 ≤ s0.lastSeq) :
    Ext s0 (seqAfter s a b) := by
  have h1 := h.1
  refine ⟨by simp [seqAfter]; omega, ?_⟩
  intro i hi
  simp only [seqAfter]
  rw [upd_other _ _ _ _ (by omega)]
  exact h.2 i hi

/-- the full log invariant carried through every step. -/
def LogInv (s0 s : State) : Prop :=
  SeqCons s ∧ Ext s0 s ∧
  (s.recSeq = true → replay (seqLog s) = some (s.best.map (·.id)))

theorem replay_snoc (l : List (Option (Bool × Nat))) (r : Option (Bool × Nat)) :
    replay (l ++ [r]) = replayStep (replay l) r := by
  simp [replay, List.foldl_append]

theorem logInv_mainPred (s0 : State) (h0 : -1 ≤ s0.lastSeq) : MainPred (LogInv s0) where
  frame := by
    intro s s' ⟨⟨a1, a2, a3⟩, ⟨b1, b2⟩, c⟩ ⟨e1, e2, e3, e4, e5, e6, e7, e8⟩
    refine ⟨⟨by rw [e6]; exact a1, by rw [e4, e6]; exact a2, by rw [e6, e7]; exact a3⟩,
      ⟨by rw [e6]; exact b1, by rw [e4]; exact b2⟩, ?_⟩
    rw [e7, e1]
    intro hr
    rw [← c hr]
    simp [seqLog, e4, e6]
  conn := by
    intro s b s' ⟨hc, he, hr⟩ hconn
    obtain ⟨tip, rest, sq, ptd, hbest, hpar, hsq, hptd, rfl⟩ := connectBlock_ok hconn
    rcases saveSeq_ok hsq with ⟨hrec, rfl⟩ | ⟨hrec, hnp, rfl⟩
    · exact ⟨hc, he, by intro h; simp [hrec] at h⟩
    · refine ⟨seqCons_seqAfter s true b hc, ext_seqAfter s0 s true b he h0, ?_⟩
      intro _
      have := seqLog_seqAfter s true b hc.1
      simp only [seqLog, seqAfter] at this ⊢
      rw [this]
      have hr' := hr hrec
      simp only [seqLog] at hr'
      rw [replay_snoc, hr']
      simp [replayStep]
  disc := by
    intro s b s' ⟨hc, he, hr⟩ hdisc
    obtain ⟨tip, rest, sq, hbest, hid, hsq, rfl⟩ := disconnectBlock_ok hdisc
    rcases saveSeq_ok hsq with ⟨hrec, rfl⟩ | ⟨hrec, hnp, rfl⟩
    · exact ⟨hc, he, by intro h; simp [hrec] at h⟩
    · refine ⟨seqCons_seqAfter s false b hc, ext_seqAfter s0 s false b he h0, ?_⟩
      intro _
      have := seqLog_seqAfter s false b hc.1
      simp only [seqLog, seqAfter] at this ⊢
      rw [this]
      have hr' := hr hrec
      simp only [seqLog] at hr'
      rw [replay_snoc, hr', hbest]
      simp [replayStep, hid]

theorem logInv_init (fin margin : Nat) (r : Bool) (g : Block) :
    LogInv (init fin margin r g) (init fin margin r g) := by
  refine ⟨⟨?_, ?_, ?_⟩, ⟨Int.le_refl _, fun _ _ => rfl⟩, ?_⟩
  · cases r <;> simp [init]
  · intro i
    cases r
    · simp [init]; omega
    · simp only [init, if_true]
      by_cases hi : i = 0
      · subst hi; simp
      · rw [upd_other _ _ _ _ hi]; simp; omega
  · cases r <;> simp [init]
  · intro hr
    simp only [init] at hr
    subst hr
    simp [init, seqLog, replay, replayStep]

theorem init_lastSeq_ge (fin margin : Nat) (r : Bool) (g : Block) : -1 ≤ (init fin margin r g).lastSeq := by
  cases r <;> simp [init]

end C26

namespace C26
open C25

/-- the recording flag never changes. -/
theorem recSeq_mainPred (r : Bool) : MainPred (fun s => s.recSeq = r) where
  frame := by intro s s' h e; rw [e.2.2.2.2.2.2.1]; exact h
  conn := by
    intro s b s' h hc
    obtain ⟨_, _, sq, _, _, _, hsq, _, rfl⟩ := connectBlock_ok hc
    rw [← h]; exact (saveSeq_frame hsq).2.2.1
  disc := by
    intro s b s' h hc
    obtain ⟨_, _, sq, _, _, hsq, rfl⟩ := disconnectBlock_ok hc
    rw [← h]; exact (saveSeq_frame hsq).2.2.1

end C26

namespace C26
open C25

/-- reading the height index `0..tip.height` of a linked chain gives the chain bottom-up. -/
theorem range_view_linked : ∀ (r : List Block) (t : Block), Linked (t :: r) →
    (List.range (t.height + 1)).map (view (t :: r)) = ((t :: r).map (fun b => some b.id)).reverse := by
  intro r
  induction r with
  | nil =>
    intro t h
    have h0 : t.height = 0 := h
    simp [h0, view, List.range_succ]
  | cons p r ih =>
    intro t h
    have hh : t.height = p.height + 1 := h.2.1
    have := ih p h.tail
    have e1 : (List.map (fun b : Block => some b.id) (t :: p :: r)).reverse =
        (List.map (fun b : Block => some b.id) (p :: r)).reverse ++ [some t.id] := by
      simp
    rw [List.range_succ, List.map_append, e1, ← this]
    congr 1
    · rw [hh]
      apply List.map_congr_left
      intro k hk
      simp only [List.mem_range] at hk
      rw [view_cons_linked, if_neg (by omega)]
    · simp [view_cons_linked]

end C26
