import Chain33Model.Model.C25Ext
import Chain33Model.Proofs.C26
import Chain33Model.Proofs.C25Ext
import Chain33Model.Proofs.C29Resume
/-!
C26 across restarts, finaliser requests, clock ticks and orphan-pool evictions.

* numbering (`SeqCons`) and append-only (`Ext`) only read the sequence tables, which none of the
  extension events touches: they hold after ANY events on ANY blocks;
* replay = best chain needs the restart to rebuild exactly the best chain; for deliveries drawn from
  a block tree this follows from the lock-step relation of C29 (`C29.Rel`) between the restarted
  node and a clean node that satisfies the C25 tree invariant.
-/
namespace C26
open C25 C25X

/-! ### numbering and append-only: any events, any blocks -/

def SeqOnly (s0 s : State) : Prop := SeqCons s ∧ Ext s0 s

theorem seqOnly_mainPred (s0 : State) (h0 : -1 ≤ s0.lastSeq) : MainPred (SeqOnly s0) where
  frame := by
    intro s s' ⟨⟨a1, a2, a3⟩, ⟨b1, b2⟩⟩ ⟨_, _, _, e4, _, e6, e7, _⟩
    exact ⟨⟨by rw [e6]; exact a1, by rw [e4, e6]; exact a2, by rw [e6, e7]; exact a3⟩,
      ⟨by rw [e6]; exact b1, by rw [e4]; exact b2⟩⟩
  conn := by
    intro s b s' ⟨hc, he⟩ hconn
    obtain ⟨tip, rest, sq, ptd, hbest, hpar, hsq, hptd, rfl⟩ := connectBlock_ok hconn
    rcases saveSeq_ok hsq with ⟨hrec, rfl⟩ | ⟨hrec, hnp, rfl⟩
    · exact ⟨hc, he⟩
    · exact ⟨seqCons_seqAfter s true b hc, ext_seqAfter s0 s true b he h0⟩
  disc := by
    intro s b s' ⟨hc, he⟩ hdisc
    obtain ⟨tip, rest, sq, hbest, hid, hsq, rfl⟩ := disconnectBlock_ok hdisc
    rcases saveSeq_ok hsq with ⟨hrec, rfl⟩ | ⟨hrec, hnp, rfl⟩
    · exact ⟨hc, he⟩
    · exact ⟨seqCons_seqAfter s false b hc, ext_seqAfter s0 s false b he h0⟩

/-- a predicate that only reads the sequence tables. -/
theorem seqOnly_of_eq {s0 s s' : State} (h : SeqOnly s0 s) (e1 : s'.seqTab = s.seqTab)
    (e2 : s'.lastSeq = s.lastSeq) (e3 : s'.recSeq = s.recSeq) : SeqOnly s0 s' := by
  obtain ⟨⟨a1, a2, a3⟩, ⟨b1, b2⟩⟩ := h
  exact ⟨⟨by rw [e2]; exact a1, by rw [e1, e2]; exact a2, by rw [e2, e3]; exact a3⟩,
    ⟨by rw [e2]; exact b1, by rw [e1]; exact b2⟩⟩

variable {M : Type} [OMap M]

theorem _root_.C25.MainPred.processBlockX {P : State → Prop} (hP : MainPred P) (x : XState M) (b : Block) (h : P x.base) :
    P (processBlockX x b).1.base := by
  unfold C25X.processBlockX
  dsimp only
  have h0 : P (unorphan x.base b) := hP.frame _ _ h (sameMain_unorphan x.base b)
  split
  · exact h
  · split
    · exact h
    · split
      · unfold addOrphanX
        dsimp only
        split
        · split
          · exact h0
          · exact hP.frame _ _ h0 ⟨rfl, rfl, rfl, rfl, rfl, rfl, rfl, rfl⟩
        · exact hP.frame _ _ h0 ⟨rfl, rfl, rfl, rfl, rfl, rfl, rfl, rfl⟩
      · exact hP.acceptAndDrain _ b h0

theorem finalize_seq (s : State) (h id : Nat) :
    (finalize s h id).seqTab = s.seqTab ∧ (finalize s h id).lastSeq = s.lastSeq ∧
    (finalize s h id).recSeq = s.recSeq := by
  unfold finalize
  split
  · split <;> exact ⟨rfl, rfl, rfl⟩
  · exact ⟨rfl, rfl, rfl⟩

theorem restart_seq {s s' : State} (h : restart? s = some s') :
    s'.seqTab = s.seqTab ∧ s'.lastSeq = s.lastSeq ∧ s'.recSeq = s.recSeq := by
  unfold restart? at h
  split at h
  · cases h
  · split at h
    · cases h
    · cases h; exact ⟨rfl, rfl, rfl⟩

theorem seqOnly_stepX (s0 : State) (h0 : -1 ≤ s0.lastSeq) {x x' : XState M} {e : Event}
    (h : SeqOnly s0 x.base) (hs : stepX x e = some x') : SeqOnly s0 x'.base := by
  cases e with
  | deliver b =>
    simp only [stepX, Option.some.injEq] at hs
    rw [← hs]; exact (seqOnly_mainPred s0 h0).processBlockX x b h
  | tick dt =>
    simp only [stepX, Option.some.injEq] at hs
    rw [← hs]; exact h
  | finalize hh id =>
    simp only [stepX, Option.some.injEq] at hs
    rw [← hs]
    obtain ⟨e1, e2, e3⟩ := finalize_seq x.base hh id
    exact seqOnly_of_eq h e1 e2 e3
  | restart =>
    simp only [stepX, restartX] at hs
    split at hs
    · rename_i s hr
      cases hs
      obtain ⟨e1, e2, e3⟩ := restart_seq hr
      exact seqOnly_of_eq h e1 e2 e3
    · cases hs

theorem seqOnly_runX (s0 : State) (h0 : -1 ≤ s0.lastSeq) : ∀ (es : List Event) (x x' : XState M),
    SeqOnly s0 x.base → runX x es = some x' → SeqOnly s0 x'.base := by
  intro es
  induction es with
  | nil => intro x x' h hr; simp only [runX, Option.some.injEq] at hr; rw [← hr]; exact h
  | cons e es ih =>
    intro x x' h hr
    simp only [runX] at hr
    split at hr
    · rename_i x1 hs
      exact ih x1 x' (seqOnly_stepX s0 h0 h hs) hr
    · cases hr

theorem recSeq_stepX {x x' : XState M} {e : Event} (r : Bool) (h : x.base.recSeq = r)
    (hs : stepX x e = some x') : x'.base.recSeq = r := by
  cases e with
  | deliver b =>
    simp only [stepX, Option.some.injEq] at hs
    rw [← hs]; exact (recSeq_mainPred r).processBlockX x b h
  | tick dt => simp only [stepX, Option.some.injEq] at hs; rw [← hs]; exact h
  | finalize hh id =>
    simp only [stepX, Option.some.injEq] at hs
    rw [← hs]; show (finalize x.base hh id).recSeq = r
    rw [(finalize_seq x.base hh id).2.2]; exact h
  | restart =>
    simp only [stepX, restartX] at hs
    split at hs
    · rename_i s hr; cases hs; show s.recSeq = r; rw [(restart_seq hr).2.2]; exact h
    · cases hs

theorem recSeq_runX (r : Bool) : ∀ (es : List Event) (x x' : XState M),
    x.base.recSeq = r → runX x es = some x' → x'.base.recSeq = r := by
  intro es
  induction es with
  | nil => intro x x' h hr; simp only [runX, Option.some.injEq] at hr; rw [← hr]; exact h
  | cons e es ih =>
    intro x x' h hr
    simp only [runX] at hr
    split at hr
    · rename_i x1 hs; exact ih x1 x' (recSeq_stepX r h hs) hr
    · cases hr

/-! ### replay = best chain across restarts (deliveries from a block tree) -/

/-- reading the height index of a linked chain: the replayed stack is the height index. -/
theorem chain_of_view {s : State} {t : Block} {r : List Block} (hbest : s.best = t :: r) (hl : Linked (t :: r))
    (hh : ∀ h, s.h2h h = view s.best h) (hlast : s.last = t.height) :
    mainChain s = ((s.best.map (·.id)).reverse).map some ∧ cleanAbove s = true := by
  have h1 : (s.last + 1).toNat = t.height + 1 := by omega
  have h2 : (s.last + 2).toNat = t.height + 2 := by omega
  constructor
  · simp only [mainChain, h1]
    rw [show (List.range (t.height + 1)).map s.h2h = (List.range (t.height + 1)).map (view (t :: r)) from
      List.map_congr_left (fun k _ => by rw [hh k, hbest])]
    rw [range_view_linked r t hl, hbest]
    simp [List.map_reverse]
  · simp only [cleanAbove, h1, h2, hh, hbest]
    rw [view_above hl _ (by omega), view_above hl _ (by omega)]
    rfl

theorem loadChain_of_linked {s : State} : ∀ (r : List Block) (t : Block), Linked (t :: r) →
    (∀ h, h ≤ t.height → s.h2h h = view (t :: r) h) → (∀ x ∈ t :: r, s.stored x.id = some x) →
    loadChain s t.height = some (t :: r) := by
  intro r
  induction r with
  | nil =>
    intro t hl hh hs
    have h0 : t.height = 0 := hl
    rw [h0]
    have := hh 0 (by omega)
    rw [view_cons_linked, if_pos h0] at this
    simp only [loadChain, this, hs t (by simp)]
    rfl
  | cons p r ih =>
    intro t hl hh hs
    have hht : t.height = p.height + 1 := hl.2.1
    have hrec : loadChain s p.height = some (p :: r) := by
      apply ih p hl.tail
      · intro h hle
        rw [hh h (by omega), view_cons_linked, if_neg (by omega)]
      · intro x hx; exact hs x (List.mem_cons_of_mem _ hx)
    have h1 := hh t.height (Nat.le_refl _)
    rw [view_cons_linked, if_pos rfl] at h1
    rw [hht] at h1 ⊢
    simp only [loadChain, h1, hs t (by simp), hrec]

variable {g : Block} {T : List Block}

/-- the chain state is in lock step with a clean node (C29) that satisfies the tree invariant. -/
def Paired (g : Block) (T : List Block) (m : Nat) (s1 : State) : Prop :=
  ∃ s2, C29.Rel g T s1 s2 ∧ TBase g T 0 s2 ∧ s2.margin = m ∧ s2.recSeq = true

theorem paired_init (ht : Tree g T) (m : Nat) : Paired g T m (init 0 m true g) := by
  have hb := (deliverAll_run ht 0 m true [] (by intro b hb; cases hb)).base
  have hb' : TBase g T 0 (init 0 m true g) := hb
  refine ⟨init 0 m true g, ?_, hb', rfl, rfl⟩
  exact ⟨rfl, rfl, rfl, rfl, rfl, rfl, rfl, rfl, rfl, fun _ _ => rfl, fun _ _ => rfl,
    (C29.mid_of_tbase hb').cons.storedOk, hb'.inv.seqOk⟩

theorem paired_deliver (ht : Tree g T) {m : Nat} {s1 : State} (h : Paired g T m s1) {b : Block} (hb : b ∈ T) :
    Paired g T m (processBlock s1 b).1 := by
  obtain ⟨s2, hrel, hs, hm, hr⟩ := h
  obtain ⟨hrel', hs'⟩ := C29.rel_processBlock ht hrel hs (List.mem_cons_of_mem _ hb)
  exact ⟨_, hrel', hs', (margin_mainPred m).processBlock s2 b hm, (recSeq_mainPred true).processBlock s2 b hr⟩

/-- a restart rebuilds exactly the best chain, and the restarted node is again paired. -/
theorem paired_restart (ht : Tree g T) {m : Nat} {s1 : State} (h : Paired g T m s1) :
    ∃ s1', restart? s1 = some s1' ∧ s1'.best = s1.best ∧ s1'.h2h = s1.h2h ∧ s1'.last = s1.last ∧
      s1'.seqTab = s1.seqTab ∧ s1'.hashSeq = s1.hashSeq ∧ s1'.lastSeq = s1.lastSeq ∧
      s1'.recSeq = s1.recSeq ∧ s1'.margin = s1.margin ∧ Paired g T m s1' := by
  obtain ⟨s2, hrel, hs, hm, hr⟩ := h
  have hi := hs.inv
  obtain ⟨t, rest, hb2⟩ := List.exists_cons_of_ne_nil hi.linked.ne_nil
  have hb1 : s1.best = t :: rest := by rw [hrel.best]; exact hb2
  have hl : Linked (t :: rest) := hb2 ▸ hi.linked
  have hlast : s1.last = (t.height : Int) := by rw [hrel.last]; exact hi.last t rest hb2
  have hload : loadChain s1 t.height = some (t :: rest) := by
    apply loadChain_of_linked rest t hl
    · intro h _; rw [hrel.h2h, hi.h2h h, hb2]
    · intro x hx
      have hxi : x ∈ s2.index := hi.bestIn x (hb2 ▸ hx)
      rw [hrel.storedI x hxi]; exact hi.stored x hxi
  have hnn : ¬ s1.last < 0 := by rw [hlast]; omega
  refine ⟨{ s1 with index := t :: rest, best := t :: rest, orphans := [] }, ?_, hb1.symm, rfl, rfl, rfl, rfl, rfl,
    rfl, rfl, ?_⟩
  · unfold restart?
    rw [if_neg hnn]
    have : s1.last.toNat = t.height := by omega
    rw [this, hload]
  · -- the clean partner: a fresh node fed the best chain in order
    have htU : t ∈ g :: T := hs.idxSub t (hi.bestIn t (by rw [hb2]; simp))
    have hchain : chainTo (g :: T) t.height t = t :: rest :=
      chainTo_of_linked ht.uniq rest t (fun y hy => hs.idxSub y (hi.bestIn y (hb2 ▸ hy))) hl
    obtain ⟨pre, hp, hlp, hpre⟩ := path_ends_in_g ht htU
    have hpath : t :: rest = pre ++ [g] := by rw [← hchain]; exact hp
    have hi0 := init_inv 0 m true g ht.gh
    obtain ⟨c1, c2, c3⟩ := C29.deliver_in_order' ht.uniq pre.reverse (init 0 m true g) hi0 rfl rfl
      (fun y hy => by simp [init] at hy; rw [hy]; simp)
      (fun x hx => List.mem_cons_of_mem _ (hpre x (List.mem_reverse.mp hx)))
      (by simpa [init] using hlp)
    have hsub : ∀ b ∈ pre.reverse, b ∈ T := fun b hb => hpre b (List.mem_reverse.mp hb)
    have hbase := (deliverAll_run ht 0 m true pre.reverse hsub).base
    have hbestc : (deliverAll (init 0 m true g) pre.reverse).best = t :: rest := by rw [c1, hpath]; simp [init]
    have hidxc : (deliverAll (init 0 m true g) pre.reverse).index = t :: rest := by rw [c2, hpath]; simp [init]
    refine ⟨deliverAll (init 0 m true g) pre.reverse, ?_, hbase,
      (margin_mainPred m).deliverAll _ _ rfl, (recSeq_mainPred true).deliverAll _ _ rfl⟩
    constructor
    · show s1.fin = _
      have h1 := hs.finLe; have h2 := hbase.finLe; rw [hrel.fin]; omega
    · show s1.margin = _
      rw [hrel.margin, hm]; exact ((margin_mainPred m).deliverAll _ _ rfl).symm
    · show s1.recSeq = _
      rw [hrel.recSeq, hr]; exact ((recSeq_mainPred true).deliverAll _ _ rfl).symm
    · show t :: rest = _; rw [hidxc]
    · show [] = _; rw [c3]
    · show t :: rest = _; rw [hbestc]
    · show s1.h2h = _
      funext h; rw [hrel.h2h, hi.h2h h, hbase.inv.h2h h, hb2, hbestc]
    · show s1.last = _
      rw [hrel.last, hi.last t rest hb2, hbase.inv.last t rest hbestc]
    · show s1.txIdx = _
      rw [hrel.txIdx, hs.txv, hbase.txv, hb2, hbestc]
    · intro x hx
      show s1.tds x.id = _
      rw [hidxc] at hx
      have hxi : x ∈ s2.index := hi.bestIn x (hb2 ▸ hx)
      rw [hrel.tdsI x hxi, hs.tdEq x hxi, hbase.tdEq x (by rw [hidxc]; exact hx)]
    · intro x hx
      show s1.stored x.id = _
      rw [hidxc] at hx
      have hxi : x ∈ s2.index := hi.bestIn x (hb2 ▸ hx)
      rw [hrel.storedI x hxi, hi.stored x hxi, hbase.inv.stored x (by rw [hidxc]; exact hx)]
    · exact hrel.extra
    · exact hrel.seqOk

/-- the invariant carried along a run with restarts. -/
structure RestartInv (g : Block) (T : List Block) (m : Nat) (s0 s : State) : Prop where
  log : LogInv s0 s
  paired : Paired g T m s
  recSeq : s.recSeq = true

theorem restartInv_runB (ht : Tree g T) (m : Nat) (s0 : State) (h0 : -1 ≤ s0.lastSeq) :
    ∀ (es : List Event) (s : State), RestartInv g T m s0 s → (∀ b ∈ delivered es, b ∈ T) →
      (∀ h id, Event.finalize h id ∉ es) →
      ∃ s', runB s es = some s' ∧ RestartInv g T m s0 s' := by
  intro es
  induction es with
  | nil => intro s h _ _; exact ⟨s, rfl, h⟩
  | cons e es ih =>
    intro s h hds hnf
    have hnf' : ∀ h id, Event.finalize h id ∉ es := fun h id hm => hnf h id (List.mem_cons_of_mem _ hm)
    cases e with
    | deliver b =>
      have hb : b ∈ T := hds b (by simp [delivered])
      have h1 : RestartInv g T m s0 (processBlock s b).1 :=
        ⟨(logInv_mainPred s0 h0).processBlock s b h.log, paired_deliver ht h.paired hb,
         (recSeq_mainPred true).processBlock s b h.recSeq⟩
      obtain ⟨s', hr, hi'⟩ := ih _ h1 (fun x hx => hds x (by simp [delivered, hx])) hnf'
      exact ⟨s', by simp only [runB, stepB]; exact hr, hi'⟩
    | tick dt =>
      obtain ⟨s', hr, hi'⟩ := ih _ h (fun x hx => hds x (by simpa [delivered] using hx)) hnf'
      exact ⟨s', by simp only [runB, stepB]; exact hr, hi'⟩
    | finalize hh id => exact absurd (List.mem_cons_self) (hnf hh id)
    | restart =>
      obtain ⟨s1', hrs, e1, e2, e3, e4, e5, e6, e7, e8, hp⟩ := paired_restart ht h.paired
      have h1 : RestartInv g T m s0 s1' :=
        ⟨(logInv_mainPred s0 h0).frame s s1' h.log ⟨e1, e2, e3, e4, e5, e6, e7, e8⟩, hp, by rw [e7]; exact h.recSeq⟩
      obtain ⟨s', hr, hi'⟩ := ih _ h1 (fun x hx => hds x (by simpa [delivered] using hx)) hnf'
      exact ⟨s', by simp only [runB, stepB, hrs]; exact hr, hi'⟩

end C26
