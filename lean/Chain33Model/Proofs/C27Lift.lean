import Chain33Model.Model.C27
/-!
Lifting principle for the chain model with validity (Model/C27.lean): a predicate on states that
is preserved by every SUCCESSFUL `connectBlock`, by every `disconnectBlock` of the block that is
stored under the tip's hash, by `dbMaybeStoreBlock`, by the mempool events, and that does not look
at the index / error log / orphan pool / finalised height, holds after ANY sequence of events
(`run`): any blocks (valid or not, any bodies under any headers), any sources, any order.
-/
namespace C27
open C25 (Map upd)

/-- `s'` differs from `s` only in the index, the node annotations, the orphan pool and `fin`. -/
def Aux (s s' : State) : Prop :=
  s'.margin = s.margin ∧ s'.recSeq = s.recSeq ∧ s'.hi = s.hi ∧ s'.lo = s.lo ∧ s'.best = s.best ∧
  s'.stored = s.stored ∧ s'.tds = s.tds ∧ s'.h2h = s.h2h ∧ s'.last = s.last ∧ s'.seqTab = s.seqTab ∧
  s'.hashSeq = s.hashSeq ∧ s'.lastSeq = s.lastSeq ∧ s'.txIdx = s.txIdx ∧ s'.cache = s.cache ∧
  (s'.pool = s.pool ∧ ∀ x ∈ s'.index, x ∈ s.index)

theorem Aux.refl (s : State) : Aux s s := ⟨rfl, rfl, rfl, rfl, rfl, rfl, rfl, rfl, rfl, rfl, rfl, rfl, rfl, rfl, rfl, fun _ h => h⟩

/-- every block the node holds (orphan pool, block store) satisfies `S` ("was delivered"), and
the store is keyed by the block's own hash. -/
def Seen (S : Blk → Prop) (s : State) : Prop :=
  (∀ o ∈ s.orphans, S o.1) ∧ (∀ id b, s.stored id = some b → S b ∧ b.id = id)

/-- `Q` is preserved by the primitive steps, for blocks satisfying `S` and pool insertions
satisfying `A`. -/
structure Pres (P : Params) (S : Blk → Prop) (A : Nat → Prop) (Q : State → Prop) : Prop where
  frame : ∀ s s', Q s → Aux s s' → Q s'
  conn : ∀ s b s', Q s → Seen S s → S b → (s.stored b.id).isSome = true → connectBlock P s b = (s', none) → Q s'
  disc : ∀ s b s' r, Q s → Seen S s → s.stored b.id = some b → disconnectBlock P s b = (s', r) → Q s'
  store : ∀ s b s' p, Q s → Seen S s → S b → lookup s.index b.parent = some p → b.height = p.height + 1 →
    storeBlock s b = some s' → Q s'
  addIdx : ∀ s b src, Q s → S b → Q (addIndex s b src)
  poolAdd : ∀ s t, Q s → A t → Q { s with pool := s.pool ++ [t] }
  poolDel : ∀ s h, Q s → Q { s with pool := s.pool.filter (fun p => P.key p != h) }
  restart : ∀ s, Q s → Q (restart P s)

variable {P : Params} {S : Blk → Prop} {A : Nat → Prop} {Q : State → Prop}

/-- `Q` together with `Seen S`. -/
def QS (S : Blk → Prop) (Q : State → Prop) (s : State) : Prop := Q s ∧ Seen S s

theorem seen_aux {s s' : State} (h : Seen S s) (ha : Aux s s') (ho : ∀ o ∈ s'.orphans, S o.1) : Seen S s' :=
  ⟨ho, by rw [ha.2.2.2.2.2.1]; exact h.2⟩

theorem aux_delNode (s : State) (id : Nat) : Aux s (delNode s id) :=
  ⟨rfl, rfl, rfl, rfl, rfl, rfl, rfl, rfl, rfl, rfl, rfl, rfl, rfl, rfl, rfl, fun _ h => (List.mem_filter.mp h).1⟩

theorem aux_handleErrBlk (s : State) (id : Nat) (e : Err) : Aux s (handleErrBlk s id e) := by
  unfold handleErrBlk
  split
  · exact aux_delNode s id
  · split
    · exact ⟨rfl, rfl, rfl, rfl, rfl, rfl, rfl, rfl, rfl, rfl, rfl, rfl, rfl, rfl, rfl, fun _ h => h⟩
    · exact aux_delNode s id
  · exact ⟨rfl, rfl, rfl, rfl, rfl, rfl, rfl, rfl, rfl, rfl, rfl, rfl, rfl, rfl, rfl, fun _ h => h⟩

theorem orphans_handleErrBlk (s : State) (id : Nat) (e : Err) : (handleErrBlk s id e).orphans = s.orphans := by
  unfold handleErrBlk
  split
  · rfl
  · split <;> rfl
  · rfl

/-- a failing `connectBlock` changes nothing but index annotations. -/
theorem connectBlock_err_aux {s s' : State} {b : Blk} {e : Err}
    (h : connectBlock P s b = (s', some e)) : Aux s s' ∧ s'.orphans = s.orphans := by
  unfold connectBlock at h
  split at h
  · cases h; exact ⟨Aux.refl s, rfl⟩
  · split at h
    · cases h; exact ⟨Aux.refl s, rfl⟩
    · split at h
      · cases h; exact ⟨aux_handleErrBlk s b.id _, orphans_handleErrBlk s b.id _⟩
      · split at h
        · cases h; exact ⟨Aux.refl s, rfl⟩
        · split at h
          · cases h; exact ⟨Aux.refl s, rfl⟩
          · cases h

/-- `saveBlockSequence` touches the sequence log only. -/
theorem saveSeq_frame {s s1 : State} {a : Bool} {b : Blk} (h : saveSeq s a b = .ok s1) :
    s1.fin = s.fin ∧ s1.margin = s.margin ∧ s1.recSeq = s.recSeq ∧ s1.hi = s.hi ∧ s1.lo = s.lo ∧
    s1.index = s.index ∧ s1.srcOf = s.srcOf ∧ s1.errLog = s.errLog ∧ s1.orphans = s.orphans ∧
    s1.best = s.best ∧ s1.stored = s.stored ∧ s1.tds = s.tds ∧ s1.h2h = s.h2h ∧ s1.last = s.last ∧
    s1.txIdx = s.txIdx ∧ s1.cache = s.cache ∧ s1.pool = s.pool := by
  unfold saveSeq at h
  by_cases h1 : (!s.recSeq) = true
  · rw [if_pos h1] at h; cases h
    exact ⟨rfl, rfl, rfl, rfl, rfl, rfl, rfl, rfl, rfl, rfl, rfl, rfl, rfl, rfl, rfl, rfl, rfl⟩
  · rw [if_neg h1] at h
    dsimp only at h
    by_cases h2 : s.lastSeq + 1 = 0 ∧ b.height ≠ 0
    · rw [if_pos h2] at h; cases h
    · rw [if_neg h2] at h; cases h
      exact ⟨rfl, rfl, rfl, rfl, rfl, rfl, rfl, rfl, rfl, rfl, rfl, rfl, rfl, rfl, rfl, rfl, rfl⟩

/-- shape of a successful `connectBlock`. -/
theorem connectBlock_ok {s s' : State} {b : Blk} (h : connectBlock P s b = (s', none)) :
    ∃ tip rest s1 ptd, s.best = tip :: rest ∧ b.parent = tip.id ∧ P.exec s b = none ∧
      saveSeq s true b = .ok s1 ∧ s1.tds b.parent = some ptd ∧
      s' = { s1 with stored := upd s1.stored b.id (some b),
                     h2h := upd s1.h2h b.height (some b.id),
                     last := b.height,
                     tds := upd s1.tds b.id (some (b.diff + ptd)),
                     best := b :: s1.best,
                     txIdx := addTxs P s1.txIdx b,
                     cache := cacheAdd P s1 b,
                     pool := s1.pool.filter (fun p => !(keys P b).contains (P.key p)) } := by
  unfold connectBlock at h
  split at h
  · cases h
  · rename_i tip rest hbest
    split at h
    · cases h
    · rename_i hpar
      split at h
      · cases h
      · rename_i hex
        split at h
        · cases h
        · rename_i s1 hs1
          split at h
          · cases h
          · rename_i ptd hptd
            cases h
            exact ⟨tip, rest, s1, ptd, hbest, by simpa using hpar, hex, hs1, hptd, rfl⟩

theorem seen_connect {s s' : State} {b : Blk} (hs : Seen S s) (hb : S b)
    (h : connectBlock P s b = (s', none)) : Seen S s' := by
  obtain ⟨tip, rest, s1, ptd, _, _, _, hs1, _, rfl⟩ := connectBlock_ok h
  have hf := saveSeq_frame hs1
  refine ⟨?_, ?_⟩
  · intro o ho
    have : o ∈ s.orphans := by
      have h9 : s1.orphans = s.orphans := hf.2.2.2.2.2.2.2.2.1
      simpa [h9] using ho
    exact hs.1 o this
  · intro id x hx
    have h11 : s1.stored = s.stored := hf.2.2.2.2.2.2.2.2.2.2.1
    simp only [upd] at hx
    by_cases hid : id = b.id
    · rw [if_pos hid] at hx; cases hx; exact ⟨hb, hid.symm⟩
    · rw [if_neg hid, h11] at hx; exact hs.2 id x hx

theorem Pres.connAny (hP : Pres P S A Q) (s : State) (b : Blk) (hb : S b)
    (hst : (s.stored b.id).isSome = true) (h : QS S Q s) :
    QS S Q (connectBlock P s b).1 := by
  cases hc : connectBlock P s b with
  | mk s' r =>
    cases r with
    | none => exact ⟨hP.conn s b s' h.1 h.2 hb hst hc, seen_connect h.2 hb hc⟩
    | some e =>
      have ha := connectBlock_err_aux hc
      exact ⟨hP.frame s s' h.1 ha.1, seen_aux h.2 ha.1 (by rw [ha.2]; exact h.2.1)⟩

/-- `connectBlock` never forgets a stored block. -/
theorem connectBlock_stored_mono (s : State) (b : Blk) (id : Nat) (h : (s.stored id).isSome = true) :
    ((connectBlock P s b).1.stored id).isSome = true := by
  cases hc : connectBlock P s b with
  | mk s' r =>
    cases r with
    | some e => rw [(connectBlock_err_aux hc).1.2.2.2.2.2.1]; exact h
    | none =>
      obtain ⟨tip, rest, s1, ptd, _, _, _, hs1, _, rfl⟩ := connectBlock_ok hc
      have h11 : s1.stored = s.stored := (saveSeq_frame hs1).2.2.2.2.2.2.2.2.2.2.1
      simp only [upd, h11]
      split
      · rfl
      · exact h

theorem Pres.runSteps_conn (hP : Pres P S A Q) : ∀ (l : List Blk) (s : State),
    (∀ b ∈ l, S b ∧ (s.stored b.id).isSome = true) →
    QS S Q s → QS S Q (runSteps (connectBlock P) s l).1 := by
  intro l
  induction l with
  | nil => intro s _ h; simpa [runSteps] using h
  | cons b bs ih =>
    intro s hl h
    have h1 := hP.connAny s b (hl b (by simp)).1 (hl b (by simp)).2 h
    have hm := fun id hid => connectBlock_stored_mono (P := P) s b id hid
    simp only [runSteps]
    split
    · rename_i s' hs'
      rw [hs'] at h1 hm
      exact ih s' (fun x hx => ⟨(hl x (by simp [hx])).1, hm x.id (hl x (by simp [hx])).2⟩) h1
    · rename_i s' e hs'; rw [hs'] at h1; exact h1

theorem disconnectBlock_frame (s : State) (b : Blk) :
    (disconnectBlock P s b).1.stored = s.stored ∧ (disconnectBlock P s b).1.orphans = s.orphans := by
  unfold disconnectBlock
  split
  · exact ⟨rfl, rfl⟩
  · split
    · exact ⟨rfl, rfl⟩
    · split
      · exact ⟨rfl, rfl⟩
      · rename_i s1 hs1
        exact ⟨(saveSeq_frame hs1).2.2.2.2.2.2.2.2.2.2.1, (saveSeq_frame hs1).2.2.2.2.2.2.2.2.1⟩

theorem Pres.discAny (hP : Pres P S A Q) (s : State) (b : Blk) (hb : s.stored b.id = some b) (h : QS S Q s) :
    QS S Q (disconnectBlock P s b).1 := by
  have hf := disconnectBlock_frame (P := P) s b
  cases hc : disconnectBlock P s b with
  | mk s' r =>
    rw [hc] at hf
    have hf1 : s'.stored = s.stored := hf.1
    have hf2 : s'.orphans = s.orphans := hf.2
    exact ⟨hP.disc s b s' r h.1 h.2 hb hc, by
      refine ⟨?_, ?_⟩
      · intro o ho; rw [hf2] at ho; exact h.2.1 o ho
      · intro id x hx; rw [hf1] at hx; exact h.2.2 id x hx⟩

theorem Pres.runSteps_disc (hP : Pres P S A Q) : ∀ (l : List Blk) (s : State), QS S Q s →
    (∀ d ∈ l, s.stored d.id = some d) → QS S Q (runSteps (disconnectBlock P) s l).1 := by
  intro l
  induction l with
  | nil => intro s h _; simpa [runSteps] using h
  | cons b bs ih =>
    intro s h hst
    have hb : s.stored b.id = some b := hst b (by simp)
    have hf := disconnectBlock_frame (P := P) s b
    have h1 := hP.discAny s b hb h
    simp only [runSteps]
    split
    · rename_i s' hs'
      rw [hs'] at h1 hf
      exact ih s' h1 (fun d hd => by
        have : s'.stored = s.stored := hf.1
        rw [this]; exact hst d (by simp [hd]))
    · rename_i s' e hs'; rw [hs'] at h1; exact h1

theorem loadAll_spec (s : State) : ∀ (ns ds : List Blk), loadAll s ns = some ds →
    ∀ d ∈ ds, ∃ n ∈ ns, s.stored n.id = some d := by
  intro ns
  induction ns with
  | nil =>
    intro ds h d hd
    simp [loadAll] at h
    subst h; cases hd
  | cons n rest ih =>
    intro ds h d hd
    simp only [loadAll, List.mapM_cons, Option.bind_eq_bind] at h
    cases hn : s.stored n.id with
    | none => simp [hn] at h
    | some x =>
      simp only [hn, Option.bind_some] at h
      cases hr : List.mapM (fun n => s.stored n.id) rest with
      | none => simp [hr] at h
      | some xs =>
        simp only [hr, Option.bind_some, Option.pure_def, Option.some.injEq] at h
        subst h
        rcases List.mem_cons.mp hd with rfl | hd'
        · exact ⟨n, by simp, hn⟩
        · obtain ⟨m, hm, hms⟩ := ih xs (by simpa [loadAll] using hr) d hd'
          exact ⟨m, by simp [hm], hms⟩

theorem loaded_stored {s : State} (hs : Seen S s) {ns ds : List Blk} (h : loadAll s ns = some ds) :
    ∀ x ∈ ds, S x ∧ s.stored x.id = some x := by
  intro x hx
  obtain ⟨n, _, hn⟩ := loadAll_spec s ns ds h x hx
  have := hs.2 n.id x hn
  exact ⟨this.1, by rw [this.2]; exact hn⟩

theorem Pres.reorganize (hP : Pres P S A Q) (s : State) (d a : List Blk) (h : QS S Q s) :
    QS S Q (reorganize P s d a).1 := by
  unfold C27.reorganize
  split
  · rename_i ds as hd ha
    have h1 := hP.runSteps_disc ds s h (fun x hx => (loaded_stored h.2 hd x hx).2)
    split
    · rename_i s1 e heq; rw [heq] at h1; exact h1
    · rename_i s1 heq; rw [heq] at h1
      have hst : ∀ l (s0 : State), (runSteps (disconnectBlock P) s0 l).1.stored = s0.stored := by
        intro l
        induction l with
        | nil => intro s0; simp [runSteps]
        | cons d ds' ih =>
          intro s0
          have hf := (disconnectBlock_frame (P := P) s0 d).1
          simp only [runSteps]
          split
          · rename_i s' hs'; rw [hs'] at hf; rw [ih s']; exact hf
          · rename_i s' e hs'; rw [hs'] at hf; exact hf
      have hs1 : s1.stored = s.stored := by have := hst ds s; rw [heq] at this; exact this
      exact hP.runSteps_conn as s1 (fun x hx => ⟨(loaded_stored h.2 ha x hx).1, by
        rw [hs1, (loaded_stored h.2 ha x hx).2]; rfl⟩) h1
  · exact h

theorem aux_resetFin (s : State) (f : Option Blk) : Aux s (resetFin s f) ∧ (resetFin s f).orphans = s.orphans := by
  unfold resetFin
  split
  · split
    · exact ⟨⟨rfl, rfl, rfl, rfl, rfl, rfl, rfl, rfl, rfl, rfl, rfl, rfl, rfl, rfl, rfl, fun _ h => h⟩, rfl⟩
    · exact ⟨Aux.refl s, rfl⟩
  · exact ⟨Aux.refl s, rfl⟩

theorem seen_addIndex {s : State} (h : Seen S s) (b : Blk) (src : Src) : Seen S (addIndex s b src) := h

theorem aux_dropOrphan (s : State) (id : Nat) : Aux s (dropOrphan s id) :=
  ⟨rfl, rfl, rfl, rfl, rfl, rfl, rfl, rfl, rfl, rfl, rfl, rfl, rfl, rfl, rfl, fun _ h => h⟩

theorem aux_addOrphan (s : State) (b : Blk) (src : Src) : Aux s (addOrphan s b src) :=
  ⟨rfl, rfl, rfl, rfl, rfl, rfl, rfl, rfl, rfl, rfl, rfl, rfl, rfl, rfl, rfl, fun _ h => h⟩

theorem Pres.frameQS (hP : Pres P S A Q) {s s' : State} (h : QS S Q s) (ha : Aux s s')
    (ho : ∀ o ∈ s'.orphans, o ∈ s.orphans ∨ S o.1) : QS S Q s' :=
  ⟨hP.frame s s' h.1 ha, seen_aux h.2 ha (fun o hm => (ho o hm).elim (h.2.1 o) id)⟩

theorem Pres.dropOrphanQS (hP : Pres P S A Q) (s : State) (id : Nat) (h : QS S Q s) : QS S Q (dropOrphan s id) :=
  hP.frameQS h (aux_dropOrphan s id) (fun _ ho => Or.inl (List.mem_filter.mp ho).1)

theorem Pres.unorphanQS (hP : Pres P S A Q) (s : State) (b : Blk) (h : QS S Q s) : QS S Q (unorphan s b) := by
  unfold unorphan
  split
  · exact hP.dropOrphanQS s b.id h
  · exact h

theorem Pres.reorgTo (hP : Pres P S A Q) (s : State) (b : Blk) (f : Option Blk) (h : QS S Q s) :
    QS S Q (reorgTo P s b f).1 := by
  unfold C27.reorgTo
  split
  · exact h
  have h1 : QS S Q (resetFin s f) :=
    hP.frameQS h (aux_resetFin s f).1 (fun _ ho => Or.inl (by rw [(aux_resetFin s f).2] at ho; exact ho))
  have h2 := hP.reorganize (resetFin s f) (getReorganizeNodes (resetFin s f) b f).1
    (getReorganizeNodes (resetFin s f) b f).2 h1
  dsimp only
  split <;> (rename_i heq; rw [heq] at h2; exact h2)

theorem Pres.connectBestChain (hP : Pres P S A Q) (s : State) (b : Blk) (hb : S b)
    (hst : (s.stored b.id).isSome = true) (h : QS S Q s) :
    QS S Q (connectBestChain P s b).1 := by
  unfold C27.connectBestChain
  split
  · exact h
  · split
    · have h1 := hP.connAny s b hb hst h
      split <;> (rename_i heq; rw [heq] at h1; exact h1)
    · split
      · exact h
      · split
        · exact h
        · split
          · exact h
          · split
            · exact h
            · exact hP.reorgTo s b _ h

theorem storeBlock_seen {s s1 : State} {b : Blk} (hs : Seen S s) (hb : S b) (h : storeBlock s b = some s1) :
    Seen S s1 := by
  unfold storeBlock at h
  split at h
  · cases h; exact hs
  · split at h
    · cases h
    · cases h
      refine ⟨hs.1, ?_⟩
      intro id x hx
      simp only [upd] at hx
      by_cases hid : id = b.id
      · rw [if_pos hid] at hx; cases hx; exact ⟨hb, hid.symm⟩
      · rw [if_neg hid] at hx; exact hs.2 id x hx

theorem Pres.maybeAcceptBlock (hP : Pres P S A Q) (s : State) (b : Blk) (src : Src) (hb : S b)
    (h : QS S Q s) : QS S Q (maybeAcceptBlock P s b src).1 := by
  unfold C27.maybeAcceptBlock
  split
  · exact h
  · split
    · exact h
    · split
      · exact h
      · rename_i p0 hp hh _ s1 hs1
        have h1 : QS S Q s1 := ⟨hP.store s b s1 p0 h.1 h.2 hb hp (by simpa using hh) hs1, storeBlock_seen h.2 hb hs1⟩
        have hst : ((addIndex s1 b src).stored b.id).isSome = true := by
          show (s1.stored b.id).isSome = true
          unfold storeBlock at hs1
          split at hs1
          · rename_i hsome; cases hs1; exact hsome
          · split at hs1
            · cases hs1
            · cases hs1; simp [upd]
        exact hP.connectBestChain _ b hb hst ⟨hP.addIdx s1 b src h1.1 hb, seen_addIndex h1.2 b src⟩

theorem Pres.processOrphans (hP : Pres P S A Q) : ∀ (fuel : Nat) (l : List Nat) (s : State), QS S Q s →
    QS S Q (processOrphans P fuel l s).1 := by
  intro fuel
  induction fuel with
  | zero => intro l s h; simpa [C27.processOrphans] using h
  | succ n ih =>
    intro l s h
    cases l with
    | nil => simpa [C27.processOrphans] using h
    | cons x rest =>
      simp only [C27.processOrphans]
      split
      · exact ih rest s h
      · rename_i o ho
        have hso : S o.1 := h.2.1 o (List.mem_of_find?_eq_some ho)
        have h1 := hP.maybeAcceptBlock (dropOrphan s o.1.id) o.1 o.2 hso (hP.dropOrphanQS s o.1.id h)
        split
        · rename_i s2 e heq; rw [heq] at h1; exact h1
        · rename_i s2 r _ heq; rw [heq] at h1; exact ih _ s2 h1

theorem Pres.acceptAndDrain (hP : Pres P S A Q) (s : State) (b : Blk) (src : Src) (hb : S b)
    (h : QS S Q s) : QS S Q (acceptAndDrain P s b src).1 := by
  unfold C27.acceptAndDrain
  split
  · exact h
  · have h1 := hP.maybeAcceptBlock s b src hb h
    split
    · rename_i s1 e heq; rw [heq] at h1; exact h1
    · rename_i s1 r _ heq
      rw [heq] at h1
      have h2 := hP.processOrphans (orphanFuel s1) [b.id] s1 h1
      split <;> (rename_i heq2; rw [heq2] at h2; exact h2)

theorem Pres.processBlock (hP : Pres P S A Q) (s : State) (b : Blk) (src : Src) (hb : S b)
    (h : QS S Q s) : QS S Q (processBlock P s b src).1 := by
  unfold C27.processBlock
  have hu := hP.unorphanQS s b h
  split
  · exact h
  · split
    · exact h
    · split
      · exact h
      · split
        · exact hP.frameQS hu (aux_addOrphan _ b src) (fun o ho => by
            simp only [addOrphan, List.mem_append, List.mem_singleton] at ho
            rcases ho with ho | rfl
            · exact Or.inl ho
            · exact Or.inr hb)
        · exact hP.acceptAndDrain _ b src hb hu

/-- which events are admitted: delivered blocks satisfy `S`, inserted pool hashes satisfy `A`. -/
def EvOk (S : Blk → Prop) (A : Nat → Prop) : Ev → Prop
  | .deliver b _ => S b
  | .poolAdd h => A h
  | .poolDel _ => True
  | .restart => True

theorem Pres.step (hP : Pres P S A Q) (s : State) (ev : Ev) (hev : EvOk S A ev) (h : QS S Q s) :
    QS S Q (step P s ev) := by
  cases ev with
  | deliver b src => exact hP.processBlock s b src hev h
  | poolAdd x =>
    simp only [C27.step, poolPush]
    split
    · exact h
    · split
      · exact h
      · exact ⟨hP.poolAdd s x h.1 hev, h.2⟩
  | poolDel x => exact ⟨hP.poolDel s x h.1, h.2⟩
  | restart => exact ⟨hP.restart s h.1, ⟨by intro o ho; simp [C27.step, C27.restart] at ho, h.2.2⟩⟩

theorem Pres.run (hP : Pres P S A Q) : ∀ (evs : List Ev) (s : State), (∀ e ∈ evs, EvOk S A e) →
    QS S Q s → QS S Q (run P s evs) := by
  intro evs
  induction evs with
  | nil => intro s _ h; exact h
  | cons e rest ih =>
    intro s hev h
    exact ih _ (fun x hx => hev x (by simp [hx])) (hP.step s e (hev e (by simp)) h)

theorem seen_init (fin margin hi lo : Nat) (r : Bool) (g : Blk) (hg : S g) : Seen S (init fin margin hi lo r g) := by
  refine ⟨by intro o ho; simp [init] at ho, ?_⟩
  intro id x hx
  simp only [init, upd] at hx
  by_cases hid : id = g.id
  · rw [if_pos hid] at hx; cases hx; exact ⟨hg, hid.symm⟩
  · rw [if_neg hid] at hx; cases hx

end C27
