import Chain33Model.Model.C27
import Chain33Model.Proofs.C27Lift
import Chain33Model.Proofs.C27Reject
/-!
C27 — "known parent, consecutive height": after ANY events the best chain is linked — every block
sits on its predecessor (`parent` = the predecessor's hash) exactly one higher, down to genesis —
for EVERY execution verdict `P.exec`.  Hypothesis: the header hash covers parent hash and height.
-/
namespace C27
open C25 (Map upd)

/-- `Block.Hash` covers parent hash and height. -/
def HeaderLaw (U : List Blk) : Prop :=
  ∀ a ∈ U, ∀ b ∈ U, a.id = b.id → a.parent = b.parent ∧ a.height = b.height

/-- the chain view: tip first, each block on its parent, one higher, down to `g`. -/
def Linked (g : Blk) : List Blk → Prop
  | [] => False
  | [x] => x = g
  | a :: b :: r => a.parent = b.id ∧ a.height = b.height + 1 ∧ Linked g (b :: r)

theorem Linked.tail_lt {g : Blk} : ∀ {l : List Blk} {a : Blk}, Linked g (a :: l) → ∀ x ∈ l, x.height < a.height := by
  intro l
  induction l with
  | nil => intro a _ x hx; cases hx
  | cons b r ih =>
    intro a h x hx
    obtain ⟨_, hh, hl⟩ := h
    rcases List.mem_cons.mp hx with rfl | hx'
    · omega
    · have := ih hl x hx'; omega

theorem Linked.tail {g : Blk} {a b : Blk} {r : List Blk} (h : Linked g (a :: b :: r)) : Linked g (b :: r) := h.2.2

theorem Linked.mem_g {g : Blk} : ∀ {l : List Blk}, Linked g l → g ∈ l := by
  intro l
  induction l with
  | nil => intro h; cases h
  | cons a r ih =>
    intro h
    cases r with
    | nil => have : a = g := h; simp [this]
    | cons b r' => exact List.mem_cons_of_mem _ (ih h.2.2)

/-- every height from `g`'s up to the tip's is taken. -/
theorem Linked.at_height {g : Blk} (hg : g.height = 0) : ∀ {l : List Blk} {a : Blk}, Linked g (a :: l) →
    ∀ h, h ≤ a.height → ∃ x ∈ a :: l, x.height = h := by
  intro l
  induction l with
  | nil =>
    intro a hl h hh
    have : a = g := hl
    subst this
    exact ⟨a, by simp, by omega⟩
  | cons b r ih =>
    intro a hl h hh
    obtain ⟨_, hab, hl'⟩ := hl
    by_cases he : h = a.height
    · exact ⟨a, by simp, he.symm⟩
    · obtain ⟨x, hx, hxh⟩ := ih hl' h (by omega)
      exact ⟨x, List.mem_cons_of_mem _ hx, hxh⟩

theorem Linked.height_inj {g : Blk} : ∀ {l : List Blk}, Linked g l → ∀ x ∈ l, ∀ y ∈ l, x.height = y.height → x = y := by
  intro l
  induction l with
  | nil => intro h; cases h
  | cons a r ih =>
    intro hl x hx y hy hxy
    cases r with
    | nil =>
      simp only [List.mem_singleton] at hx hy
      rw [hx, hy]
    | cons b r' =>
      have hlt := Linked.tail_lt hl
      rcases List.mem_cons.mp hx with rfl | hx'
      · rcases List.mem_cons.mp hy with rfl | hy'
        · rfl
        · have := hlt y hy'; omega
      · rcases List.mem_cons.mp hy with rfl | hy'
        · have := hlt x hx'; omega
        · exact ih hl.2.2 x hx' y hy' hxy

theorem lookup_id {idx : List Blk} {id : Nat} {p : Blk} (h : lookup idx id = some p) : p ∈ idx ∧ p.id = id := by
  unfold lookup at h
  exact ⟨List.mem_of_find?_eq_some h, by simpa using List.find?_some h⟩

/-- the structural part of the chain invariant (no execution involved). -/
structure LGood (U : List Blk) (g : Blk) (s : State) : Prop where
  linked : Linked g s.best
  bestU : ∀ x ∈ s.best, x ∈ U
  idxU : ∀ x ∈ s.index, x ∈ U
  par : ∀ id x, s.stored id = some x → x = g ∨ ∃ p ∈ U, p.id = x.parent ∧ x.height = p.height + 1

def LInv (U : List Blk) (g : Blk) (s : State) : Prop := s.best = [] ∨ LGood U g s

variable {U : List Blk} {g : Blk}

/-- the height of a block about to be connected: one above the tip (from `maybeAcceptBlock`'s
height check against the parent's index node, remembered for every stored block). -/
theorem lconn_height (hU : HeaderLaw U) (hgp : ∀ x ∈ U, x.id ≠ g.parent) {s : State} (G : LGood U g s)
    (hseen : Seen (fun b => b ∈ U) s)
    {b tip : Blk} {rest : List Blk} (hbU : b ∈ U) (hst : (s.stored b.id).isSome = true)
    (hbest : s.best = tip :: rest) (hpar : b.parent = tip.id) :
    b.height = tip.height + 1 ∧ ∃ p ∈ U, p.id = b.parent ∧ b.height = p.height + 1 := by
  have htipU : tip ∈ U := G.bestU tip (by rw [hbest]; simp)
  cases hx : s.stored b.id with
  | none => rw [hx] at hst; cases hst
  | some x0 =>
    have hx0 := hseen.2 b.id x0 hx
    have hl := hU x0 hx0.1 b hbU hx0.2
    rcases G.par b.id x0 hx with rfl | ⟨p, hpU, hpid, hph⟩
    · exfalso
      have : tip.id = x0.parent := by rw [← hpar, hl.1]
      exact hgp tip htipU this
    · have hp := hU p hpU tip htipU (by rw [hpid, hl.1, hpar])
      exact ⟨by omega, p, hpU, by rw [hpid, hl.1], by omega⟩

theorem linv_pres (P : Params) (hU : HeaderLaw U) (hgp : ∀ x ∈ U, x.id ≠ g.parent) :
    Pres P (fun b => b ∈ U) (fun _ => True) (LInv U g) where
  frame := by
    intro s s' hw ha
    rcases hw with hnil | G
    · left; rw [ha.2.2.2.2.1]; exact hnil
    · right
      exact ⟨by rw [ha.2.2.2.2.1]; exact G.linked, by rw [ha.2.2.2.2.1]; exact G.bestU,
        fun x hx => G.idxU x (ha.2.2.2.2.2.2.2.2.2.2.2.2.2.2.2 x hx), by rw [ha.2.2.2.2.2.1]; exact G.par⟩
  conn := by
    intro s b s' hw hseen hbU hst hc
    obtain ⟨tip, rest, s1, ptd, hbest, hpar, _, hs1, _, rfl⟩ := connectBlock_ok hc
    rcases hw with hnil | G
    · rw [hnil] at hbest; cases hbest
    have hf := saveSeq_frame hs1
    have e_idx : s1.index = s.index := hf.2.2.2.2.2.1
    have e_best : s1.best = s.best := hf.2.2.2.2.2.2.2.2.2.1
    have e_sto : s1.stored = s.stored := hf.2.2.2.2.2.2.2.2.2.2.1
    obtain ⟨hh, p, hpU, hpid, hph⟩ := lconn_height hU hgp G hseen hbU hst hbest hpar
    right
    refine ⟨?_, ?_, ?_, ?_⟩
    · show Linked g (b :: s1.best)
      rw [e_best, hbest]
      have := G.linked
      rw [hbest] at this
      exact ⟨hpar, hh, this⟩
    · intro x hx
      have hx' : x ∈ b :: s.best := by rw [← e_best]; exact hx
      rcases List.mem_cons.mp hx' with rfl | h1
      · exact hbU
      · exact G.bestU x h1
    · intro x hx; exact G.idxU x (by rw [← e_idx]; exact hx)
    · intro id x hx
      simp only [upd, e_sto] at hx
      by_cases hid : id = b.id
      · rw [if_pos hid] at hx; cases hx
        exact Or.inr ⟨p, hpU, hpid, hph⟩
      · rw [if_neg hid] at hx; exact G.par id x hx
  disc := by
    intro s b s' r hw _ _ hd
    unfold disconnectBlock at hd
    split at hd
    · cases hd; exact hw
    · rename_i tip rest hbest
      split at hd
      · cases hd; exact hw
      · split at hd
        · cases hd; exact hw
        · rename_i s1 hs1
          cases hd
          rcases hw with hnil | G
          · rw [hnil] at hbest; cases hbest
          have hf := saveSeq_frame hs1
          cases rest with
          | nil => left; rfl
          | cons nx r2 =>
            right
            have hl := G.linked
            rw [hbest] at hl
            refine ⟨hl.2.2, fun x hx => G.bestU x (by rw [hbest]; exact List.mem_cons_of_mem _ hx),
              fun x hx => G.idxU x (by rw [← hf.2.2.2.2.2.1]; exact hx),
              fun id x hx => G.par id x (by rw [← hf.2.2.2.2.2.2.2.2.2.2.1]; exact hx)⟩
  store := by
    intro s b s' p hw _ hbU hp hh hs
    unfold storeBlock at hs
    split at hs
    · cases hs; exact hw
    · split at hs
      · cases hs
      · cases hs
        rcases hw with hnil | G
        · left; exact hnil
        right
        have hpi := lookup_id hp
        refine ⟨G.linked, G.bestU, G.idxU, ?_⟩
        intro id x hx
        simp only [upd] at hx
        by_cases hid : id = b.id
        · rw [if_pos hid] at hx; cases hx
          exact Or.inr ⟨p, G.idxU p hpi.1, hpi.2, hh⟩
        · rw [if_neg hid] at hx; exact G.par id x hx
  addIdx := by
    intro s b src hw hbU
    rcases hw with hnil | G
    · left; exact hnil
    · right
      exact ⟨G.linked, G.bestU, fun x hx => by
        rcases List.mem_cons.mp hx with rfl | h1
        · exact hbU
        · exact G.idxU x h1, G.par⟩
  poolAdd := by
    intro s x hw _
    rcases hw with hnil | G
    · left; exact hnil
    · right; exact ⟨G.linked, G.bestU, G.idxU, G.par⟩
  poolDel := by
    intro s x hw
    rcases hw with hnil | G
    · left; exact hnil
    · right; exact ⟨G.linked, G.bestU, G.idxU, G.par⟩
  restart := by
    intro s hw
    rcases hw with hnil | G
    · left; exact hnil
    · right; exact ⟨G.linked, G.bestU, fun x hx => G.bestU x hx, G.par⟩

end C27
