import Chain33Model.Model.C27
import Chain33Model.Proofs.C27Lift
import Chain33Model.Proofs.C27Reject
/-!
C27 — `ErrBlockExist` is only ever answered by the two `blockExists` / known-orphan checks at the
top of `ProcessBlock` / `maybeAddBestChain`: nothing below them produces it (provided block
execution does not).  And: the state left behind by a tampered tip extension from the download path.
-/
namespace C27
open C25 (Map upd)

/-- block execution never answers `ErrBlockExist`. -/
def NX (P : Params) : Prop := ∀ s b, P.exec s b ≠ some .exist

theorem saveSeq_err {s : State} {a : Bool} {b : Blk} {e : Err} (h : saveSeq s a b = .error e) : e = .panic := by
  unfold saveSeq at h
  by_cases h1 : (!s.recSeq) = true
  · rw [if_pos h1] at h; cases h
  · rw [if_neg h1] at h
    dsimp only at h
    by_cases h2 : s.lastSeq + 1 = 0 ∧ b.height ≠ 0
    · rw [if_pos h2] at h; cases h; rfl
    · rw [if_neg h2] at h; cases h

variable {P : Params}

theorem connectBlock_ne (hnx : NX P) (s : State) (b : Blk) : (connectBlock P s b).2 ≠ some .exist := by
  unfold connectBlock
  split
  · simp
  · split
    · simp
    · split
      · rename_i e he
        intro h
        simp only [Option.some.injEq] at h
        subst h
        exact hnx s b he
      · split
        · rename_i e he
          have := saveSeq_err he
          subst this; simp
        · split <;> simp

theorem disconnectBlock_ne (s : State) (b : Blk) : (disconnectBlock P s b).2 ≠ some .exist := by
  unfold disconnectBlock
  split
  · simp
  · split
    · simp
    · split
      · rename_i e he
        have := saveSeq_err he
        subst this; simp
      · split <;> simp

theorem runSteps_ne (f : State → Blk → State × Option Err) (hf : ∀ s b, (f s b).2 ≠ some .exist) :
    ∀ (l : List Blk) (s : State), (runSteps f s l).2 ≠ some .exist := by
  intro l
  induction l with
  | nil => intro s; simp [runSteps]
  | cons b bs ih =>
    intro s
    simp only [runSteps]
    split
    · exact ih _
    · rename_i s' e he
      have := hf s b
      rw [he] at this
      exact this

theorem reorganize_ne (hnx : NX P) (s : State) (d a : List Blk) : (reorganize P s d a).2 ≠ some .exist := by
  unfold reorganize
  split
  · rename_i ds as hd ha
    have h1 := runSteps_ne (disconnectBlock P) disconnectBlock_ne ds s
    split
    · rename_i s1 e heq; rw [heq] at h1; exact h1
    · exact runSteps_ne (connectBlock P) (connectBlock_ne hnx) _ _
  · simp

theorem reorgTo_ne (hnx : NX P) (s : State) (b : Blk) (f : Option Blk) : (reorgTo P s b f).2 ≠ .err .exist := by
  unfold reorgTo
  split
  · simp
  dsimp only
  split
  · simp
  · rename_i s2 e heq
    have := reorganize_ne hnx (resetFin s f) (getReorganizeNodes (resetFin s f) b f).1 (getReorganizeNodes (resetFin s f) b f).2
    rw [heq] at this
    intro h
    simp only [Res.err.injEq] at h
    subst h; exact this rfl

theorem connectBestChain_ne (hnx : NX P) (s : State) (b : Blk) : (connectBestChain P s b).2 ≠ .err .exist := by
  unfold connectBestChain
  split
  · simp
  · split
    · split
      · simp
      · rename_i s' e heq
        have := connectBlock_ne hnx s b
        rw [heq] at this
        intro h
        simp only [Res.err.injEq] at h
        subst h; exact this rfl
    · split
      · simp
      · split
        · simp
        · split
          · simp
          · split
            · simp
            · exact reorgTo_ne hnx s b _

theorem maybeAcceptBlock_ne (hnx : NX P) (s : State) (b : Blk) (src : Src) :
    (maybeAcceptBlock P s b src).2 ≠ .err .exist := by
  unfold maybeAcceptBlock
  split
  · simp
  · split
    · simp
    · split
      · simp
      · exact connectBestChain_ne hnx _ b

theorem processOrphans_ne (hnx : NX P) : ∀ (fuel : Nat) (l : List Nat) (s : State),
    (processOrphans P fuel l s).2 ≠ some .exist := by
  intro fuel
  induction fuel with
  | zero => intro l s; simp [processOrphans]
  | succ n ih =>
    intro l s
    cases l with
    | nil => simp [processOrphans]
    | cons x rest =>
      simp only [processOrphans]
      split
      · exact ih rest s
      · rename_i o _
        split
        · rename_i s2 e heq
          have := maybeAcceptBlock_ne hnx (dropOrphan s o.1.id) o.1 o.2
          rw [heq] at this
          intro h
          simp only [Option.some.injEq] at h
          subst h; exact this rfl
        · exact ih _ _

/-- below the two existence checks nothing answers `ErrBlockExist`. -/
theorem acceptAndDrain_ne (hnx : NX P) (s : State) (b : Blk) (src : Src) (hne : blockExists s b.id = false) :
    (acceptAndDrain P s b src).2 ≠ .err .exist := by
  unfold acceptAndDrain
  rw [hne]
  simp only [Bool.false_eq_true, if_false]
  split
  · rename_i s1 e heq
    have := maybeAcceptBlock_ne hnx s b src
    rw [heq] at this
    exact this
  · rename_i s1 r hr heq
    split
    · intro h; exact hr .exist h
    · rename_i s2 e heq2
      have := processOrphans_ne hnx (orphanFuel s1) [b.id] s1
      rw [heq2] at this
      intro h
      simp only [Res.err.injEq] at h
      subst h; exact this rfl

/-- a block whose hash is in no index node, no orphan, and on no height slot is not answered
`ErrBlockExist`. -/
theorem processBlock_ne_exist (hnx : NX P) (s : State) (b : Blk) (src : Src)
    (hidx : inIndex s b.id = false) (horph : isKnownOrphan s b.id = false)
    (hslot : ∀ h, s.h2h h ≠ some b.id) : (processBlock P s b src).2 ≠ .err .exist := by
  have hbe : blockExists s b.id = false := by
    unfold blockExists
    rw [hidx]
    simp only [Bool.false_or]
    split
    · rename_i x _
      have := hslot x.height
      simpa using this
    · rfl
  have hu : unorphan s b = s := by unfold unorphan; rw [horph]; simp
  unfold processBlock
  split
  · simp
  · rw [hbe]
    simp only [Bool.false_eq_true, if_false, horph, false_and]
    rw [hu]
    split
    · simp
    · exact acceptAndDrain_ne hnx s b src hbe

/-! ### the state after a tampered tip extension from the download path -/

theorem lookup_filter_ne (idx : List Blk) (id : Nat) : lookup (idx.filter (fun b => b.id != id)) id = none := by
  unfold lookup
  apply List.find?_eq_none.mpr
  intro x hx
  have := (List.mem_filter.mp hx).2
  simpa using this

/-- facts about the hash `id` that survive a step. -/
def Fresh (id : Nat) (s : State) : Prop :=
  inIndex s id = false ∧ isKnownOrphan s id = false ∧ ∀ h, s.h2h h ≠ some id

/-- a failing execution of a block that came through the download path deletes its index node. -/
theorem connectBestChain_reject_download (s' : State) (t tip : Blk) (rest : List Blk)
    (hbest : s'.best = tip :: rest) (hpar : t.parent = tip.id)
    (hsrc : s'.srcOf t.id = some .download) (e : Err) (he : P.exec s' t = some e) :
    connectBestChain P s' t = (delNode s' t.id, .err e) := by
  have hc : connectBlock P s' t = (delNode s' t.id, some e) := by
    unfold connectBlock
    rw [hbest]
    simp only [hpar, ne_eq, not_true_eq_false, if_false, he, handleErrBlk, hsrc]
  unfold connectBestChain
  rw [hbest]
  simp only [hpar, if_true, hc]

theorem download_reject_fresh (s : State) (t : Blk)
    (hinv : ∀ s1, storeBlock s t = some s1 → P.exec (addIndex s1 t .download) t ≠ none)
    (tip : Blk) (rest : List Blk) (hbest : s.best = tip :: rest) (hpar : t.parent = tip.id)
    (hpk : blockExists s t.parent = true) (hf : Fresh t.id s) :
    Fresh t.id (processBlock P s t .download).1 := by
  obtain ⟨hidx, horph, hslot⟩ := hf
  have hbe : blockExists s t.id = false := by
    unfold blockExists
    rw [hidx]
    simp only [Bool.false_or]
    split
    · rename_i x _
      have := hslot x.height
      simpa using this
    · rfl
  have hu : unorphan s t = s := by unfold unorphan; rw [horph]; simp
  unfold processBlock
  simp only [reduceCtorEq, false_and, if_false, hbe, Bool.false_eq_true, horph, hu, hpk, Bool.not_true]
  unfold acceptAndDrain
  rw [hbe]
  simp only [Bool.false_eq_true, if_false]
  -- maybeAcceptBlock
  have key : Fresh t.id (maybeAcceptBlock P s t .download).1 ∧ ∃ e, (maybeAcceptBlock P s t .download).2 = .err e := by
    unfold maybeAcceptBlock
    split
    · exact ⟨⟨hidx, horph, hslot⟩, _, rfl⟩
    · split
      · exact ⟨⟨hidx, horph, hslot⟩, _, rfl⟩
      · split
        · exact ⟨⟨hidx, horph, hslot⟩, _, rfl⟩
        · rename_i s1 hs1
          have h1 := sameChain_storeBlock hs1
          have hs1i : s1.index = s.index ∧ s1.orphans = s.orphans := by
            unfold storeBlock at hs1
            split at hs1
            · cases hs1; exact ⟨rfl, rfl⟩
            · split at hs1
              · cases hs1
              · cases hs1; exact ⟨rfl, rfl⟩
          have hb' : (addIndex s1 t .download).best = tip :: rest := by
            show s1.best = tip :: rest
            rw [h1.1, hbest]
          have hsrc : (addIndex s1 t .download).srcOf t.id = some .download := by simp [addIndex, upd]
          cases he : P.exec (addIndex s1 t .download) t with
          | none => exact absurd he (hinv s1 hs1)
          | some e =>
            rw [connectBestChain_reject_download _ t tip rest hb' hpar hsrc e he]
            refine ⟨⟨?_, ?_, ?_⟩, e, rfl⟩
            · unfold inIndex
              simp only [delNode]
              rw [lookup_filter_ne]; rfl
            · show isKnownOrphan (delNode (addIndex s1 t .download) t.id) t.id = false
              unfold isKnownOrphan
              simp only [delNode, addIndex, hs1i.2]
              exact horph
            · intro h
              show (delNode (addIndex s1 t .download) t.id).h2h h ≠ some t.id
              simp only [delNode, addIndex, h1.2.1]
              exact hslot h
  obtain ⟨e, he⟩ := key.2
  cases hm : maybeAcceptBlock P s t .download with
  | mk s1 r =>
    rw [hm] at key he
    simp only at he
    subst he
    exact key.1

end C27
