import Chain33Model.Model.C27
import Chain33Model.Proofs.C27Lift
/-!
C27 — what a rejected block changes, and which errors can come out of where.
-/
namespace C27
open C25 (Map upd)

/-- best chain, state (a function of the best chain) and indexes — height index, last height,
transaction index, TxHeight cache, sequence log, mempool — are the same in `s` and `s'`. -/
def SameChain (s s' : State) : Prop :=
  s'.best = s.best ∧ s'.h2h = s.h2h ∧ s'.last = s.last ∧ s'.txIdx = s.txIdx ∧ s'.cache = s.cache ∧
  s'.seqTab = s.seqTab ∧ s'.hashSeq = s.hashSeq ∧ s'.lastSeq = s.lastSeq ∧ s'.pool = s.pool

theorem SameChain.refl (s : State) : SameChain s s := ⟨rfl, rfl, rfl, rfl, rfl, rfl, rfl, rfl, rfl⟩

theorem SameChain.trans {a b c : State} (h1 : SameChain a b) (h2 : SameChain b c) : SameChain a c :=
  ⟨h2.1.trans h1.1, h2.2.1.trans h1.2.1, h2.2.2.1.trans h1.2.2.1, h2.2.2.2.1.trans h1.2.2.2.1,
   h2.2.2.2.2.1.trans h1.2.2.2.2.1, h2.2.2.2.2.2.1.trans h1.2.2.2.2.2.1,
   h2.2.2.2.2.2.2.1.trans h1.2.2.2.2.2.2.1, h2.2.2.2.2.2.2.2.1.trans h1.2.2.2.2.2.2.2.1,
   h2.2.2.2.2.2.2.2.2.trans h1.2.2.2.2.2.2.2.2⟩

theorem sameChain_of_aux {s s' : State} (h : Aux s s') : SameChain s s' :=
  ⟨h.2.2.2.2.1, h.2.2.2.2.2.2.2.1, h.2.2.2.2.2.2.2.2.1, h.2.2.2.2.2.2.2.2.2.2.2.2.1,
   h.2.2.2.2.2.2.2.2.2.2.2.2.2.1, h.2.2.2.2.2.2.2.2.2.1, h.2.2.2.2.2.2.2.2.2.2.1,
   h.2.2.2.2.2.2.2.2.2.2.2.1, h.2.2.2.2.2.2.2.2.2.2.2.2.2.2.1⟩

theorem sameChain_addIndex (s : State) (b : Blk) (src : Src) : SameChain s (addIndex s b src) :=
  ⟨rfl, rfl, rfl, rfl, rfl, rfl, rfl, rfl, rfl⟩

theorem sameChain_storeBlock {s s1 : State} {b : Blk} (h : storeBlock s b = some s1) : SameChain s s1 := by
  unfold storeBlock at h
  split at h
  · cases h; exact SameChain.refl s
  · split at h
    · cases h
    · cases h; exact ⟨rfl, rfl, rfl, rfl, rfl, rfl, rfl, rfl, rfl⟩

theorem aux_unorphan' (s : State) (b : Blk) : Aux s (unorphan s b) := by
  unfold unorphan
  split
  · exact aux_dropOrphan s b.id
  · exact Aux.refl s

/-- `connectBlock` of a block whose execution fails: an error comes back, chain part untouched. -/
theorem connectBlock_reject {P : Params} (s : State) (b : Blk) (hinv : P.exec s b ≠ none) :
    SameChain s (connectBlock P s b).1 ∧ ∃ e, (connectBlock P s b).2 = some e := by
  unfold connectBlock
  split
  · exact ⟨SameChain.refl s, _, rfl⟩
  · split
    · exact ⟨SameChain.refl s, _, rfl⟩
    · split
      · rename_i e he
        exact ⟨sameChain_of_aux (aux_handleErrBlk s b.id e), e, rfl⟩
      · rename_i he; exact absurd he hinv

/-- `connectBestChain` of a block that extends the tip and fails execution. -/
theorem connectBestChain_reject {P : Params} (s : State) (b : Blk) (tip : Blk) (rest : List Blk)
    (hbest : s.best = tip :: rest) (hpar : b.parent = tip.id) (hinv : P.exec s b ≠ none) :
    SameChain s (connectBestChain P s b).1 ∧ ∃ e, (connectBestChain P s b).2 = .err e := by
  have hc := connectBlock_reject (P := P) s b hinv
  unfold connectBestChain
  rw [hbest]
  simp only [hpar, if_true]
  obtain ⟨e, he⟩ := hc.2
  cases hcb : connectBlock P s b with
  | mk s' r =>
    rw [hcb] at hc he
    simp only at he
    subst he
    exact ⟨hc.1, e, rfl⟩

/-- **an invalid block that extends the tip is a no-op on the chain part** (any source, any state). -/
theorem processBlock_reject_tip {P : Params} (s : State) (b : Blk) (src : Src)
    (hinv : ∀ s1, storeBlock (unorphan s b) b = some s1 → P.exec (addIndex s1 b src) b ≠ none)
    (tip : Blk) (rest : List Blk) (hbest : s.best = tip :: rest) (hpar : b.parent = tip.id) :
    SameChain s (processBlock P s b src).1 ∧
    ((processBlock P s b src).2 = .orphan ∨ ∃ e, (processBlock P s b src).2 = .err e) := by
  unfold processBlock
  split
  · exact ⟨SameChain.refl s, Or.inr ⟨_, rfl⟩⟩
  · split
    · exact ⟨SameChain.refl s, Or.inr ⟨_, rfl⟩⟩
    · split
      · exact ⟨SameChain.refl s, Or.inr ⟨_, rfl⟩⟩
      · have hu := aux_unorphan' s b
        split
        · exact ⟨(sameChain_of_aux hu).trans (sameChain_of_aux (aux_addOrphan _ b src)), Or.inl rfl⟩
        · -- acceptAndDrain
          unfold acceptAndDrain
          split
          · exact ⟨sameChain_of_aux hu, Or.inr ⟨_, rfl⟩⟩
          · -- maybeAcceptBlock
            have key : SameChain (unorphan s b) (maybeAcceptBlock P (unorphan s b) b src).1 ∧
                ∃ e, (maybeAcceptBlock P (unorphan s b) b src).2 = .err e := by
              unfold maybeAcceptBlock
              split
              · exact ⟨SameChain.refl _, _, rfl⟩
              · split
                · exact ⟨SameChain.refl _, _, rfl⟩
                · split
                  · exact ⟨SameChain.refl _, _, rfl⟩
                  · rename_i s1 hs1
                    have h1 := sameChain_storeBlock hs1
                    have h2 : SameChain s1 (addIndex s1 b src) := sameChain_addIndex s1 b src
                    have hb' : (addIndex s1 b src).best = tip :: rest := by
                      rw [h2.1, h1.1, hu.2.2.2.2.1, hbest]
                    have h3 := connectBestChain_reject (P := P) (addIndex s1 b src) b tip rest hb' hpar (hinv s1 hs1)
                    exact ⟨(h1.trans h2).trans h3.1, h3.2⟩
            obtain ⟨e, he⟩ := key.2
            cases hm : maybeAcceptBlock P (unorphan s b) b src with
            | mk s1 r =>
              rw [hm] at key he
              simp only at he
              subst he
              exact ⟨(sameChain_of_aux hu).trans key.1, Or.inr ⟨e, rfl⟩⟩

end C27

namespace C27
open C25 (Map upd)

/-! ### placements that execute nothing: orphan pool, side branch -/

/-- a block whose parent the node does not know goes to the orphan pool (or is refused as known):
nothing of the chain part moves — whatever the block is. -/
theorem processBlock_orphan_placement {P : Params} (s : State) (b : Blk) (src : Src)
    (hpar : blockExists (unorphan s b) b.parent = false) :
    SameChain s (processBlock P s b src).1 ∧
    ((processBlock P s b src).2 = .orphan ∨ ∃ e, (processBlock P s b src).2 = .err e) := by
  unfold processBlock
  split
  · exact ⟨SameChain.refl s, Or.inr ⟨_, rfl⟩⟩
  · split
    · exact ⟨SameChain.refl s, Or.inr ⟨_, rfl⟩⟩
    · split
      · exact ⟨SameChain.refl s, Or.inr ⟨_, rfl⟩⟩
      · rw [hpar]
        simp only [Bool.not_false, if_true]
        exact ⟨(sameChain_of_aux (aux_unorphan' s b)).trans (sameChain_of_aux (aux_addOrphan _ b src)), by simp⟩

/-- `connectBestChain` of a block that does not extend the tip and does not outweigh it (or lies
below the finalisation margin): the state is returned untouched, the answer is not "main". -/
theorem connectBestChain_light {P : Params} (s : State) (b : Blk) (tip : Blk) (rest : List Blk)
    (hbest : s.best = tip :: rest) (hpar : b.parent ≠ tip.id)
    (hlight : ∀ tiptd ptd, s.tds tip.id = some tiptd → s.tds b.parent = some ptd →
      b.diff + ptd ≤ tiptd ∨ b.height < s.fin + s.margin) :
    (connectBestChain P s b).1 = s ∧ (connectBestChain P s b).2 ≠ .main := by
  unfold connectBestChain
  rw [hbest]
  simp only [hpar, if_false]
  split
  · exact ⟨rfl, by simp⟩
  · rename_i tiptd htt
    split
    · exact ⟨rfl, by simp⟩
    · rename_i ptd hpt
      split
      · exact ⟨rfl, by simp⟩
      · rw [if_pos (hlight tiptd ptd htt hpt)]
        exact ⟨rfl, by simp⟩

theorem processOrphans_none {P : Params} (s : State) (id : Nat) (fuel : Nat)
    (hno : ∀ o ∈ s.orphans, o.1.parent ≠ id) : processOrphans P (fuel + 2) [id] s = (s, none) := by
  have hf : s.orphans.find? (fun o => o.1.parent == id) = none := by
    apply List.find?_eq_none.mpr
    intro o ho
    simpa using hno o ho
  simp only [processOrphans, hf]

/-- **side-branch placement**: a block (valid or not — it is not executed) whose parent is known
but is not the tip, which does not outweigh the tip (or lies below the finalisation margin), and
for which no orphan is waiting, is pre-stored and indexed; the chain part does not move and the
answer is never "main". -/
theorem processBlock_side_placement {P : Params} (s : State) (b : Blk) (src : Src)
    (tip : Blk) (rest : List Blk) (hbest : s.best = tip :: rest) (hpar : b.parent ≠ tip.id)
    (hid1 : b.id ≠ tip.id) (hid2 : b.id ≠ b.parent)
    (hlight : ∀ tiptd ptd, s.tds tip.id = some tiptd → s.tds b.parent = some ptd →
      b.diff + ptd ≤ tiptd ∨ b.height < s.fin + s.margin)
    (hno : ∀ o ∈ s.orphans, o.1.parent ≠ b.id) :
    SameChain s (processBlock P s b src).1 ∧ (processBlock P s b src).2 ≠ .main := by
  have hu := aux_unorphan' s b
  have huo : ∀ o ∈ (unorphan s b).orphans, o.1.parent ≠ b.id := by
    intro o ho
    apply hno o
    unfold unorphan at ho
    split at ho
    · exact (List.mem_filter.mp ho).1
    · exact ho
  have hufin : (unorphan s b).fin = s.fin := by unfold unorphan; split <;> rfl
  unfold processBlock
  split
  · exact ⟨SameChain.refl s, by simp⟩
  · split
    · exact ⟨SameChain.refl s, by simp⟩
    · split
      · exact ⟨SameChain.refl s, by simp⟩
      · split
        · exact ⟨(sameChain_of_aux hu).trans (sameChain_of_aux (aux_addOrphan _ b src)), by simp⟩
        · -- maybeAcceptBlock: pre-store, index, connectBestChain answers without touching anything
          have key : SameChain (unorphan s b) (maybeAcceptBlock P (unorphan s b) b src).1 ∧
              (maybeAcceptBlock P (unorphan s b) b src).2 ≠ .main ∧
              (maybeAcceptBlock P (unorphan s b) b src).1.orphans = (unorphan s b).orphans := by
            unfold maybeAcceptBlock
            split
            · exact ⟨SameChain.refl _, by simp, rfl⟩
            · split
              · exact ⟨SameChain.refl _, by simp, rfl⟩
              · split
                · exact ⟨SameChain.refl _, by simp, rfl⟩
                · rename_i s1 hs1
                  have h1 := sameChain_storeBlock hs1
                  have hs1f : s1.fin = s.fin ∧ s1.margin = s.margin ∧ s1.orphans = (unorphan s b).orphans ∧
                      (∀ k, k ≠ b.id → s1.tds k = s.tds k) := by
                    unfold storeBlock at hs1
                    split at hs1
                    · cases hs1; exact ⟨hufin, hu.1, rfl, fun k _ => by rw [hu.2.2.2.2.2.2.1]⟩
                    · split at hs1
                      · cases hs1
                      · cases hs1
                        exact ⟨hufin, hu.1, rfl, fun k hk => by simp [upd, hk, hu.2.2.2.2.2.2.1]⟩
                  have hb' : (addIndex s1 b src).best = tip :: rest := by
                    show s1.best = tip :: rest
                    rw [h1.1, hu.2.2.2.2.1, hbest]
                  have hl' : ∀ tiptd ptd, (addIndex s1 b src).tds tip.id = some tiptd →
                      (addIndex s1 b src).tds b.parent = some ptd →
                      b.diff + ptd ≤ tiptd ∨ b.height < (addIndex s1 b src).fin + (addIndex s1 b src).margin := by
                    intro tiptd ptd h2 h3
                    have e1 : (addIndex s1 b src).tds tip.id = s.tds tip.id := hs1f.2.2.2 tip.id (Ne.symm hid1)
                    have e2 : (addIndex s1 b src).tds b.parent = s.tds b.parent := hs1f.2.2.2 b.parent (Ne.symm hid2)
                    have := hlight tiptd ptd (by rw [← e1]; exact h2) (by rw [← e2]; exact h3)
                    show _ ∨ b.height < s1.fin + s1.margin
                    rw [hs1f.1, hs1f.2.1]; exact this
                  have hc := connectBestChain_light (P := P) (addIndex s1 b src) b tip rest hb' hpar hl'
                  rw [hc.1]
                  exact ⟨h1.trans (sameChain_addIndex s1 b src), hc.2, hs1f.2.2.1⟩
          unfold acceptAndDrain
          split
          · exact ⟨sameChain_of_aux hu, by simp⟩
          · cases hm : maybeAcceptBlock P (unorphan s b) b src with
            | mk s1 r =>
              rw [hm] at key
              simp only at key
              obtain ⟨hsc, hr, horph⟩ := key
              have hpo := processOrphans_none (P := P) s1 b.id (2 * s1.orphans.length) (by
                intro o ho; rw [horph] at ho; exact huo o ho)
              cases r with
              | err e => exact ⟨(sameChain_of_aux hu).trans hsc, by simp⟩
              | main => exact absurd rfl hr
              | side =>
                simp only [orphanFuel, hpo]
                exact ⟨(sameChain_of_aux hu).trans hsc, by simp⟩
              | orphan =>
                simp only [orphanFuel, hpo]
                exact ⟨(sameChain_of_aux hu).trans hsc, by simp⟩

end C27

namespace C27

/-- `maybeAcceptBlock` — the entry used for a block taken out of the orphan pool when its parent
has arrived — of an invalid block that extends the tip: an error, chain part untouched. -/
theorem maybeAcceptBlock_reject_tip {P : Params} (s : State) (b : Blk) (src : Src)
    (hinv : ∀ s1, storeBlock s b = some s1 → P.exec (addIndex s1 b src) b ≠ none)
    (tip : Blk) (rest : List Blk) (hbest : s.best = tip :: rest) (hpar : b.parent = tip.id) :
    SameChain s (maybeAcceptBlock P s b src).1 ∧ ∃ e, (maybeAcceptBlock P s b src).2 = .err e := by
  unfold maybeAcceptBlock
  split
  · exact ⟨SameChain.refl _, _, rfl⟩
  · split
    · exact ⟨SameChain.refl _, _, rfl⟩
    · split
      · exact ⟨SameChain.refl _, _, rfl⟩
      · rename_i s1 hs1
        have h1 := sameChain_storeBlock hs1
        have h2 : SameChain s1 (addIndex s1 b src) := sameChain_addIndex s1 b src
        have hb' : (addIndex s1 b src).best = tip :: rest := by rw [h2.1, h1.1, hbest]
        have h3 := connectBestChain_reject (P := P) (addIndex s1 b src) b tip rest hb' hpar (hinv s1 hs1)
        exact ⟨(h1.trans h2).trans h3.1, h3.2⟩

end C27

namespace C27
open C25 (Map upd)

/-! ### no fork point (repo commit a2015e1) -/

theorem findFork_congr {s s' : State} (b : Blk) (h1 : s'.index = s.index) (h2 : s'.ghosts = s.ghosts)
    (h3 : s'.best = s.best) : findFork s' b = findFork s b := by
  unfold findFork
  rw [h1, h2, h3]

/-- `connectBestChain` of a block that is not on the tip and whose fork point is not found:
refused, the state is returned untouched. -/
theorem connectBestChain_no_fork {P : Params} (s : State) (b : Blk) (tip : Blk) (rest : List Blk)
    (hbest : s.best = tip :: rest) (hpar : b.parent ≠ tip.id) (hnf : findFork s b = none) :
    (connectBestChain P s b).1 = s ∧ ∃ e, (connectBestChain P s b).2 = .err e := by
  unfold connectBestChain
  rw [hbest]
  simp only [hpar, if_false]
  split
  · exact ⟨rfl, _, rfl⟩
  · split
    · exact ⟨rfl, _, rfl⟩
    · rw [hnf]
      exact ⟨rfl, _, rfl⟩

/-- a delivery whose fork point is not found is a no-op on the chain part, in any node state. -/
theorem processBlock_no_fork {P : Params} (s : State) (b : Blk) (src : Src)
    (tip : Blk) (rest : List Blk) (hbest : s.best = tip :: rest) (hpar : b.parent ≠ tip.id)
    (hnf : findFork (addIndex s b src) b = none) :
    SameChain s (processBlock P s b src).1 ∧
    ((processBlock P s b src).2 = .orphan ∨ ∃ e, (processBlock P s b src).2 = .err e) := by
  have hu := aux_unorphan' s b
  have hui : (unorphan s b).index = s.index ∧ (unorphan s b).ghosts = s.ghosts := by
    unfold unorphan; split <;> exact ⟨rfl, rfl⟩
  unfold processBlock
  split
  · exact ⟨SameChain.refl s, Or.inr ⟨_, rfl⟩⟩
  · split
    · exact ⟨SameChain.refl s, Or.inr ⟨_, rfl⟩⟩
    · split
      · exact ⟨SameChain.refl s, Or.inr ⟨_, rfl⟩⟩
      · split
        · exact ⟨(sameChain_of_aux hu).trans (sameChain_of_aux (aux_addOrphan _ b src)), Or.inl rfl⟩
        · have key : SameChain (unorphan s b) (maybeAcceptBlock P (unorphan s b) b src).1 ∧
              ∃ e, (maybeAcceptBlock P (unorphan s b) b src).2 = .err e := by
            unfold maybeAcceptBlock
            split
            · exact ⟨SameChain.refl _, _, rfl⟩
            · split
              · exact ⟨SameChain.refl _, _, rfl⟩
              · split
                · exact ⟨SameChain.refl _, _, rfl⟩
                · rename_i s1 hs1
                  have h1 := sameChain_storeBlock hs1
                  have hs1i : s1.index = s.index ∧ s1.ghosts = s.ghosts := by
                    unfold storeBlock at hs1
                    split at hs1
                    · cases hs1; exact hui
                    · split at hs1
                      · cases hs1
                      · cases hs1; exact hui
                  have hb' : (addIndex s1 b src).best = tip :: rest := by
                    show s1.best = tip :: rest
                    rw [h1.1, hu.2.2.2.2.1, hbest]
                  have hnf' : findFork (addIndex s1 b src) b = none := by
                    rw [← hnf]
                    apply findFork_congr
                    · show b :: s1.index = b :: s.index
                      rw [hs1i.1]
                    · exact hs1i.2
                    · show s1.best = s.best
                      rw [h1.1, hu.2.2.2.2.1]
                  have hc := connectBestChain_no_fork (P := P) (addIndex s1 b src) b tip rest hb' hpar hnf'
                  rw [hc.1]
                  exact ⟨h1.trans (sameChain_addIndex s1 b src), hc.2⟩
          unfold acceptAndDrain
          split
          · exact ⟨sameChain_of_aux hu, Or.inr ⟨_, rfl⟩⟩
          · obtain ⟨e, he⟩ := key.2
            cases hm : maybeAcceptBlock P (unorphan s b) b src with
            | mk s1 r =>
              rw [hm] at key he
              simp only at he
              subst he
              exact ⟨(sameChain_of_aux hu).trans key.1, Or.inr ⟨e, rfl⟩⟩

end C27
