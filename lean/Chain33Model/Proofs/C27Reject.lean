import Chain33Model.Model.C27
import Chain33Model.Proofs.C27Lift
/-!
C27 — what a rejected block changes, and which errors can come out of where.
-/
namespace C27
open C25 (Map upd)

/-- best chain, state (a function of the best chain) and indexes — height index, last height,
transaction index, TxHeight cache, sequence log, mempool — are the same in `s` and `s'`. -/
def SameChain (s s' : State) : Prop :=
  s'.best = s.best ∧ s'.h2h = s.h2h ∧ s'.last = s.last ∧ s'.txIdx = s.txIdx ∧ s'.cache = s.cache ∧
  s'.seqTab = s.seqTab ∧ s'.hashSeq = s.hashSeq ∧ s'.lastSeq = s.lastSeq ∧ s'.pool = s.pool

theorem SameChain.refl (s : State) : SameChain s s := ⟨rfl, rfl, rfl, rfl, rfl, rfl, rfl, rfl, rfl⟩

theorem SameChain.trans {a b c : State} (h1 : SameChain a b) (h2 : SameChain b c) : SameChain a c :=
  ⟨h2.1.trans h1.1, h2.2.1.trans h1.2.1, h2.2.2.1.trans h1.2.2.1, h2.2.2.2.1.trans h1.2.2.2.1,
   h2.2.2.2.2.1.trans h1.2.2.2.2.1, h2.2.2.2.2.2.1.trans h1.2.2.2.2.2.1,
   h2.2.2.2.2.2.2.1.trans h1.2.2.2.2.2.2.1, h2.2.2.2.2.2.2.2.1.trans h1.2.2.2.2.2.2.2.1,
   h2.2.2.2.2.2.2.2.2.trans h1.2.2.2.2.2.2.2.2⟩

theorem sameChain_of_aux {s s' : State} (h : Aux s s') : SameChain s s' :=
  ⟨h.2.2.2.2.1, h.2.2.2.2.2.2.2.1, h.2.2.2.2.2.2.2.2.1, h.2.2.2.2.2.2.2.2.2.2.2.2.1,
   h.2.2.2.2.2.2.2.2.2.2.2.2.2.1, h.2.2.2.2.2.2.2.2.2.1, h.2.2.2.2.2.2.2.2.2.2.1,
   h.2.2.2.2.2.2.2.2.2.2.2.1, h.2.2.2.2.2.2.2.2.2.2.2.2.2.2⟩

theorem sameChain_storeBlock {s s1 : State} {b : Blk} (h : storeBlock s b = some s1) : SameChain s s1 := by
  unfold storeBlock at h
  split at h
  · cases h; exact SameChain.refl s
  · split at h
    · cases h
    · cases h; exact ⟨rfl, rfl, rfl, rfl, rfl, rfl, rfl, rfl, rfl⟩

theorem aux_unorphan' (s : State) (b : Blk) : Aux s (unorphan s b) := by
  unfold unorphan
  split
  · exact aux_dropOrphan s b.id
  · exact Aux.refl s

/-- `connectBlock` of a block whose execution fails: an error comes back, chain part untouched. -/
theorem connectBlock_reject {P : Params} (s : State) (b : Blk) (hinv : P.exec s b ≠ none) :
    SameChain s (connectBlock P s b).1 ∧ ∃ e, (connectBlock P s b).2 = some e := by
  unfold connectBlock
  split
  · exact ⟨SameChain.refl s, _, rfl⟩
  · split
    · exact ⟨SameChain.refl s, _, rfl⟩
    · split
      · rename_i e he
        exact ⟨sameChain_of_aux (aux_handleErrBlk s b.id e), e, rfl⟩
      · rename_i he; exact absurd he hinv

/-- `connectBestChain` of a block that extends the tip and fails execution. -/
theorem connectBestChain_reject {P : Params} (s : State) (b : Blk) (tip : Blk) (rest : List Blk)
    (hbest : s.best = tip :: rest) (hpar : b.parent = tip.id) (hinv : P.exec s b ≠ none) :
    SameChain s (connectBestChain P s b).1 ∧ ∃ e, (connectBestChain P s b).2 = .err e := by
  have hc := connectBlock_reject (P := P) s b hinv
  unfold connectBestChain
  rw [hbest]
  simp only [hpar, if_true]
  obtain ⟨e, he⟩ := hc.2
  cases hcb : connectBlock P s b with
  | mk s' r =>
    rw [hcb] at hc he
    simp only at he
    subst he
    exact ⟨hc.1, e, rfl⟩

/-- **an invalid block that extends the tip is a no-op on the chain part** (any source, any state). -/
theorem processBlock_reject_tip {P : Params} (s : State) (b : Blk) (src : Src)
    (hinv : ∀ s1, P.exec s1 b ≠ none)
    (tip : Blk) (rest : List Blk) (hbest : s.best = tip :: rest) (hpar : b.parent = tip.id) :
    SameChain s (processBlock P s b src).1 ∧
    ((processBlock P s b src).2 = .orphan ∨ ∃ e, (processBlock P s b src).2 = .err e) := by
  unfold processBlock
  split
  · exact ⟨SameChain.refl s, Or.inr ⟨_, rfl⟩⟩
  · split
    · exact ⟨SameChain.refl s, Or.inr ⟨_, rfl⟩⟩
    · split
      · exact ⟨SameChain.refl s, Or.inr ⟨_, rfl⟩⟩
      · have hu := aux_unorphan' s b
        split
        · exact ⟨(sameChain_of_aux hu).trans (sameChain_of_aux (aux_addOrphan _ b src)), Or.inl rfl⟩
        · -- acceptAndDrain
          unfold acceptAndDrain
          split
          · exact ⟨sameChain_of_aux hu, Or.inr ⟨_, rfl⟩⟩
          · -- maybeAcceptBlock
            have key : SameChain (unorphan s b) (maybeAcceptBlock P (unorphan s b) b src).1 ∧
                ∃ e, (maybeAcceptBlock P (unorphan s b) b src).2 = .err e := by
              unfold maybeAcceptBlock
              split
              · exact ⟨SameChain.refl _, _, rfl⟩
              · split
                · exact ⟨SameChain.refl _, _, rfl⟩
                · split
                  · exact ⟨SameChain.refl _, _, rfl⟩
                  · rename_i s1 hs1
                    have h1 := sameChain_storeBlock hs1
                    have h2 : SameChain s1 (addIndex s1 b src) := sameChain_of_aux (aux_addIndex s1 b src)
                    have hb' : (addIndex s1 b src).best = tip :: rest := by
                      rw [h2.1, h1.1, hu.2.2.2.2.1, hbest]
                    have h3 := connectBestChain_reject (P := P) (addIndex s1 b src) b tip rest hb' hpar (hinv _)
                    exact ⟨(h1.trans h2).trans h3.1, h3.2⟩
            obtain ⟨e, he⟩ := key.2
            cases hm : maybeAcceptBlock P (unorphan s b) b src with
            | mk s1 r =>
              rw [hm] at key he
              simp only at he
              subst he
              exact ⟨(sameChain_of_aux hu).trans key.1, Or.inr ⟨e, rfl⟩⟩

end C27
