import Chain33Model.Model.C27
import Chain33Model.Proofs.C27Lift
/-!
C28 — invariants of the chain model under `ofTable T` (PreExecBlock over oracle inputs):
what a successful execution verdict tells about the block, and the three invariants behind the
property theorems (static checks, signatures, uniqueness).
-/
namespace C27
open C25 (Map upd)

theorem bool_of_not_not {a : Bool} (h : ¬ (!a) = true) : a = true := by cases a <;> simp_all

/-- what `PreExecBlock` (= `preExec`) answering "no error" means. -/
theorem preExec_none {T : Table} {s : State} {b : Blk} (h : preExec T s b = none) :
    b.sigOk = true ∧
    (b.txs.filter (fun t => !poolVouches T s t)).all (fun t => (T t).sigOk) = true ∧
    ((delDup T b.txs).filter (fun t => !hasTx T s t)).length = b.txs.length ∧
    b.txs.all (fun t => checkTx s.hi s.lo (T t) b.height b.time) = true ∧
    b.rootOk = true ∧ b.stateOk = true ∧ b.chkOk = none := by
  unfold preExec at h
  by_cases h1 : (!b.sigOk) = true
  · rw [if_pos h1] at h; cases h
  rw [if_neg h1] at h
  dsimp only at h
  by_cases h2 : (!(b.txs.filter (fun t => !poolVouches T s t)).all (fun t => (T t).sigOk)) = true
  · rw [if_pos h2] at h; cases h
  rw [if_neg h2] at h
  by_cases h3 : ((delDup T b.txs).filter (fun t => !hasTx T s t)).length ≠ b.txs.length
  · rw [if_pos h3] at h; cases h
  rw [if_neg h3] at h
  by_cases h4 : (!b.txs.all (fun t => checkTx s.hi s.lo (T t) b.height b.time)) = true
  · rw [if_pos h4] at h; cases h
  rw [if_neg h4] at h
  by_cases h5 : (!b.rootOk) = true
  · rw [if_pos h5] at h; cases h
  rw [if_neg h5] at h
  by_cases h6 : (!b.stateOk) = true
  · rw [if_pos h6] at h; cases h
  rw [if_neg h6] at h
  exact ⟨bool_of_not_not h1, bool_of_not_not h2, Decidable.of_not_not h3, bool_of_not_not h4,
    bool_of_not_not h5, bool_of_not_not h6, h⟩

/-- shape of `disconnectBlock`: an error changes nothing; success pops the tip. -/
theorem disconnectBlock_cases {P : Params} {s s' : State} {b : Blk} {r : Option Err}
    (h : disconnectBlock P s b = (s', r)) :
    s' = s ∨ ∃ tip rest s1, s.best = tip :: rest ∧ b.id = tip.id ∧ saveSeq s false b = .ok s1 ∧
      r = (if rest.isEmpty then some .panic else none) ∧
      s' = { s1 with h2h := upd s1.h2h b.height none,
                     last := (b.height : Int) - 1,
                     best := rest,
                     txIdx := delTxs P s1.txIdx b,
                     cache := cacheDel P s1 b.height,
                     pool := poolReadd P s1.pool b.txs } := by
  unfold disconnectBlock at h
  split at h
  · cases h; exact Or.inl rfl
  · rename_i tip rest hbest
    split at h
    · cases h; exact Or.inl rfl
    · rename_i hid
      split at h
      · cases h; exact Or.inl rfl
      · rename_i s1 hs1
        cases h
        exact Or.inr ⟨tip, rest, s1, hbest, by simpa using hid, hs1, rfl, rfl⟩

/-- shape of `dbMaybeStoreBlock`. -/
theorem storeBlock_cases {s s1 : State} {b : Blk} (h : storeBlock s b = some s1) :
    s1 = s ∨ (s.stored b.id = none ∧ ∃ ptd, s1 = { s with stored := upd s.stored b.id (some b),
                                                            tds := upd s.tds b.id (some (b.diff + ptd)) }) := by
  unfold storeBlock at h
  split at h
  · cases h; exact Or.inl rfl
  · rename_i hn
    split at h
    · cases h
    · rename_i ptd _
      cases h
      refine Or.inr ⟨?_, ptd, rfl⟩
      cases hs : s.stored b.id with
      | none => rfl
      | some x => simp [hs] at hn

/-! ### static checks: expiry, fee, chain id -/

def StaticInv (hi lo : Nat) (T : Table) (s : State) : Prop :=
  s.hi = hi ∧ s.lo = lo ∧ ∀ b ∈ s.best, ∀ t ∈ b.txs, checkTx hi lo (T t) b.height b.time = true

theorem static_pres (hi lo : Nat) (T : Table) :
    Pres (ofTable T) (fun _ => True) (fun _ => True) (StaticInv hi lo T) where
  frame := by
    intro s s' h ha
    exact ⟨ha.2.2.1.trans h.1, ha.2.2.2.1.trans h.2.1, by rw [ha.2.2.2.2.1]; exact h.2.2⟩
  conn := by
    intro s b s' h _ _ _ hc
    obtain ⟨tip, rest, s1, ptd, _, _, hex, hs1, _, rfl⟩ := connectBlock_ok hc
    have hf := saveSeq_frame hs1
    have hpre := preExec_none (T := T) (s := s) (b := b) hex
    refine ⟨hf.2.2.2.1.trans h.1, hf.2.2.2.2.1.trans h.2.1, ?_⟩
    intro x hx t ht
    have hbest : s1.best = s.best := hf.2.2.2.2.2.2.2.2.2.1
    simp only [List.mem_cons, hbest] at hx
    rcases hx with rfl | hx
    · have := List.all_eq_true.mp hpre.2.2.2.1 t ht
      rw [h.1, h.2.1] at this; exact this
    · exact h.2.2 x hx t ht
  disc := by
    intro s b s' r h _ _ hd
    rcases disconnectBlock_cases hd with rfl | ⟨tip, rest, s1, hbest, _, hs1, _, rfl⟩
    · exact h
    · have hf := saveSeq_frame hs1
      refine ⟨hf.2.2.2.1.trans h.1, hf.2.2.2.2.1.trans h.2.1, ?_⟩
      intro x hx t ht
      exact h.2.2 x (by rw [hbest]; exact List.mem_cons_of_mem _ hx) t ht
  store := by
    intro s b s' _ h _ _ _ _ hs
    rcases storeBlock_cases hs with rfl | ⟨_, ptd, rfl⟩
    · exact h
    · exact h
  addIdx := by intro s b src h _; exact h
  poolAdd := by intro s x h _; exact h
  poolDel := by intro s x h; exact h
  restart := by intro s h; exact h

theorem checkTx_true {hi lo : Nat} {t : Tx} {h tm : Nat} (hc : checkTx hi lo t h tm = true) :
    isExpire hi lo t h tm = false ∧ t.feeOk = true ∧ t.chainOk = true := by
  unfold checkTx at hc
  simp only [Bool.and_eq_true, Bool.not_eq_true'] at hc
  exact ⟨hc.1.1.1, hc.1.2, hc.1.1.2⟩

/-! ### signatures -/

/-- every transaction the mempool holds is correctly signed; every block on the best chain, and
whatever the store holds under its hash, carries correctly signed transactions only. -/
def SigInv (T : Table) (s : State) : Prop :=
  (∀ p ∈ s.pool, (T p).sigOk = true) ∧
  (∀ x ∈ s.best, ∃ x', s.stored x.id = some x' ∧ ∀ t ∈ x'.txs, (T t).sigOk = true) ∧
  (∀ x ∈ s.best, ∀ t ∈ x.txs, (T t).sigOk = true)

theorem mem_poolReadd (P : Params) (ks : List Nat) : ∀ (p : List Nat) (h : Nat),
    h ∈ poolReadd P p ks → h ∈ p ∨ h ∈ ks := by
  unfold poolReadd
  induction ks with
  | nil => intro p h hh; exact Or.inl hh
  | cons k rest ih =>
    intro p h hh
    simp only [List.foldl_cons] at hh
    rcases ih _ h hh with h1 | h1
    · unfold poolPush at h1
      split at h1
      · exact Or.inl h1
      · rcases List.mem_append.mp h1 with h2 | h2
        · exact Or.inl h2
        · exact Or.inr (by simp at h2; simp [h2])
    · exact Or.inr (List.mem_cons_of_mem _ h1)

theorem poolVouches_mem {T : Table} {s : State} {t : Nat} (h : poolVouches T s t = true) : t ∈ s.pool := by
  unfold poolVouches at h
  split at h
  · rename_i p hp
    have : p = t := by simpa using h
    subst this
    exact List.mem_of_find?_eq_some hp
  · cases h

/-- with the repaired `PreExecBlock` the signature invariant needs NO assumption about different
instances of one hash: only pool insertions have to be correctly signed. -/
theorem sig_pres (T : Table) :
    Pres (ofTable T) (fun _ => True) (fun t => (T t).sigOk = true) (SigInv T) where
  frame := by
    intro s s' h ha
    refine ⟨by rw [ha.2.2.2.2.2.2.2.2.2.2.2.2.2.2.1]; exact h.1, ?_, by rw [ha.2.2.2.2.1]; exact h.2.2⟩
    rw [ha.2.2.2.2.1, ha.2.2.2.2.2.1]; exact h.2.1
  conn := by
    intro s b s' h _ _ _ hc
    obtain ⟨tip, rest, s1, ptd, _, _, hex, hs1, _, rfl⟩ := connectBlock_ok hc
    have hf := saveSeq_frame hs1
    have hpre := preExec_none (T := T) (s := s) (b := b) hex
    have hbest : s1.best = s.best := hf.2.2.2.2.2.2.2.2.2.1
    have hstored : s1.stored = s.stored := hf.2.2.2.2.2.2.2.2.2.2.1
    have hpool : s1.pool = s.pool := hf.2.2.2.2.2.2.2.2.2.2.2.2.2.2.2.2
    -- every transaction of the block is correctly signed: verified, or the pool holds this very one
    have hsig : ∀ t ∈ b.txs, (T t).sigOk = true := by
      intro t ht
      by_cases hp : poolVouches T s t = true
      · exact h.1 t (poolVouches_mem hp)
      · have hm : t ∈ b.txs.filter (fun t => !poolVouches T s t) := by
          apply List.mem_filter.mpr; exact ⟨ht, by simpa using hp⟩
        exact List.all_eq_true.mp hpre.2.1 t hm
    refine ⟨?_, ?_, ?_⟩
    · intro x hx
      simp only [hpool] at hx
      exact h.1 x (List.mem_filter.mp hx).1
    · intro x hx
      simp only [List.mem_cons, hbest] at hx
      simp only [hstored, upd]
      by_cases hid : x.id = b.id
      · rw [if_pos hid]; exact ⟨b, rfl, hsig⟩
      · rw [if_neg hid]
        rcases hx with rfl | hx
        · exact absurd rfl hid
        · exact h.2.1 x hx
    · intro x hx
      simp only [List.mem_cons, hbest] at hx
      rcases hx with rfl | hx
      · exact hsig
      · exact h.2.2 x hx
  disc := by
    intro s b s' r h _ hst hd
    rcases disconnectBlock_cases hd with rfl | ⟨tip, rest, s1, hbest, hid, hs1, _, rfl⟩
    · exact h
    · have hf := saveSeq_frame hs1
      have hstored : s1.stored = s.stored := hf.2.2.2.2.2.2.2.2.2.2.1
      have hpool : s1.pool = s.pool := hf.2.2.2.2.2.2.2.2.2.2.2.2.2.2.2.2
      -- the re-inserted transactions are those of the body stored under the tip's hash: all signed
      have hbsig : ∀ t ∈ b.txs, (T t).sigOk = true := by
        obtain ⟨x', hx', hxs⟩ := h.2.1 tip (by rw [hbest]; simp)
        rw [← hid, hst] at hx'; cases hx'; exact hxs
      refine ⟨?_, ?_, ?_⟩
      · intro x hx
        simp only [hpool] at hx
        rcases mem_poolReadd _ _ _ _ hx with h1 | h1
        · exact h.1 x h1
        · exact hbsig x h1
      · intro x hx
        simp only [hstored]
        exact h.2.1 x (by rw [hbest]; exact List.mem_cons_of_mem _ hx)
      · intro x hx
        exact h.2.2 x (by rw [hbest]; exact List.mem_cons_of_mem _ hx)
  store := by
    intro s b s' _ h _ _ _ _ hs
    rcases storeBlock_cases hs with rfl | ⟨hnone, ptd, rfl⟩
    · exact h
    · refine ⟨h.1, ?_, h.2.2⟩
      intro x hx
      obtain ⟨x', hx', hxs⟩ := h.2.1 x hx
      refine ⟨x', ?_, hxs⟩
      simp only [upd]
      by_cases hid : x.id = b.id
      · rw [hid, hnone] at hx'; cases hx'
      · rw [if_neg hid]; exact hx'
  addIdx := by intro s b src h _; exact h
  poolAdd := by
    intro s x h ha
    refine ⟨?_, h.2.1, h.2.2⟩
    intro y hy
    rcases List.mem_append.mp hy with h1 | h1
    · exact h.1 y h1
    · simp at h1; rw [h1]; exact ha
  poolDel := by
    intro s x h
    exact ⟨fun y hy => h.1 y (List.mem_filter.mp hy).1, h.2.1, h.2.2⟩
  restart := by
    intro s h
    exact ⟨fun y hy => by simp [C27.restart] at hy, h.2.1, h.2.2⟩

/-! ### uniqueness -/

/-- the `Transaction.Hash()` values along a chain. -/
def chainKeys (T : Table) (best : List Blk) : List Nat :=
  best.flatMap (fun b => b.txs.map (fun t => (T t).hash))

theorem delDup_length_le (T : Table) : ∀ l : List Nat, (delDup T l).length ≤ l.length := by
  intro l
  induction l with
  | nil => simp [delDup]
  | cons t rest ih =>
    simp only [delDup]
    split
    · exact Nat.le_succ_of_le ih
    · simp only [List.length_cons]; omega

theorem delDup_nodup (T : Table) : ∀ l : List Nat, (delDup T l).length = l.length →
    (l.map (fun t => (T t).hash)).Nodup := by
  intro l
  induction l with
  | nil => intro _; simp
  | cons t rest ih =>
    intro h
    simp only [delDup] at h
    split at h
    · have := delDup_length_le T rest
      simp only [List.length_cons] at h; omega
    · rename_i hn
      simp only [List.length_cons, Nat.add_right_cancel_iff] at h
      simp only [List.map_cons, List.nodup_cons]
      refine ⟨?_, ih h⟩
      intro hm
      apply hn
      obtain ⟨u, hu, hue⟩ := List.mem_map.mp hm
      exact List.any_eq_true.mpr ⟨u, hu, by simpa using hue⟩

theorem filter_length_all {α : Type} (p : α → Bool) : ∀ l : List α, (l.filter p).length = l.length →
    ∀ x ∈ l, p x = true := by
  intro l
  induction l with
  | nil => intro _ x hx; cases hx
  | cons a rest ih =>
    intro h x hx
    by_cases ha : p a = true
    · simp only [List.filter_cons, ha, if_true, List.length_cons, Nat.add_right_cancel_iff] at h
      rcases List.mem_cons.mp hx with rfl | hx'
      · exact ha
      · exact ih h x hx'
    · simp only [List.filter_cons, ha, List.length_cons] at h
      have := List.length_filter_le p rest
      simp at h
      omega

theorem addTxs_isSome (P : Params) (b : Blk) : ∀ (m : Map Nat) (h : Nat),
    ((addTxs P m b) h).isSome = true ↔ h ∈ keys P b ∨ (m h).isSome = true := by
  unfold addTxs
  generalize keys P b = ks
  induction ks with
  | nil => intro m h; simp
  | cons k rest ih =>
    intro m h
    simp only [List.foldl_cons]
    rw [ih]
    simp only [upd, List.mem_cons]
    by_cases hk : h = k
    · simp [hk]
    · simp [hk]

theorem delTxs_isSome (P : Params) (b : Blk) : ∀ (m : Map Nat) (h : Nat),
    ((delTxs P m b) h).isSome = true ↔ h ∉ keys P b ∧ (m h).isSome = true := by
  unfold delTxs
  generalize keys P b = ks
  induction ks with
  | nil => intro m h; simp
  | cons k rest ih =>
    intro m h
    simp only [List.foldl_cons]
    rw [ih]
    simp only [upd, List.mem_cons]
    by_cases hk : h = k
    · simp [hk]
    · simp [hk]

/-- best-chain blocks come from `U`; the transaction index holds exactly the hashes on the best
chain; no hash occurs twice on it. -/
def UniqInv (T : Table) (U : List Blk) (s : State) : Prop :=
  (∀ x ∈ s.best, x ∈ U) ∧
  (∀ h, (s.txIdx h).isSome = true ↔ h ∈ chainKeys T s.best) ∧
  (chainKeys T s.best).Nodup

theorem uniq_pres (T : Table) (hnx : ∀ i, txhOf (T i) = none) (U : List Blk)
    (hU : ∀ a ∈ U, ∀ b ∈ U, a.id = b.id → a = b) :
    Pres (ofTable T) (fun b => b ∈ U) (fun _ => True) (UniqInv T U) where
  frame := by
    intro s s' h ha
    have hb : s'.best = s.best := ha.2.2.2.2.1
    have ht : s'.txIdx = s.txIdx := ha.2.2.2.2.2.2.2.2.2.2.2.2.1
    exact ⟨by rw [hb]; exact h.1, by rw [hb, ht]; exact h.2.1, by rw [hb]; exact h.2.2⟩
  conn := by
    intro s b s' h _ hbU _ hc
    obtain ⟨tip, rest, s1, ptd, _, _, hex, hs1, _, rfl⟩ := connectBlock_ok hc
    have hf := saveSeq_frame hs1
    have hpre := preExec_none (T := T) (s := s) (b := b) hex
    have hbest : s1.best = s.best := hf.2.2.2.2.2.2.2.2.2.1
    have htx : s1.txIdx = s.txIdx := hf.2.2.2.2.2.2.2.2.2.2.2.2.2.2.1
    -- the duplicate check passed: no hash twice in the block, none of them indexed
    have hlen := hpre.2.2.1
    have h1 : (delDup T b.txs).length = b.txs.length := by
      have a1 := List.length_filter_le (fun t => !hasTx T s t) (delDup T b.txs)
      have a2 := delDup_length_le T b.txs
      omega
    have hnd : (b.txs.map (fun t => (T t).hash)).Nodup := delDup_nodup T b.txs h1
    have hfresh : ∀ t ∈ b.txs, (s.txIdx (T t).hash).isSome = false := by
      have hdd : delDup T b.txs = b.txs := by
        -- a sublist-free argument: equal length and built by dropping elements
        have : ∀ l : List Nat, (delDup T l).length = l.length → delDup T l = l := by
          intro l
          induction l with
          | nil => intro _; simp [delDup]
          | cons t rest ih =>
            intro hl
            simp only [delDup] at hl ⊢
            split
            · rename_i hany
              rw [if_pos hany] at hl
              have := delDup_length_le T rest
              simp only [List.length_cons] at hl; omega
            · rename_i hany
              rw [if_neg hany] at hl
              simp only [List.length_cons, Nat.add_right_cancel_iff] at hl
              rw [ih hl]
        exact this b.txs h1
      rw [hdd] at hlen
      intro t ht
      have := filter_length_all (fun t => !hasTx T s t) b.txs hlen t ht
      simp only [hasTx, hnx t, Bool.not_eq_true'] at this
      exact this
    have hkeys : keys (ofTable T) b = b.txs.map (fun t => (T t).hash) := rfl
    have hck : chainKeys T (b :: s.best) = b.txs.map (fun t => (T t).hash) ++ chainKeys T s.best := by
      simp [chainKeys]
    refine ⟨?_, ?_, ?_⟩
    · intro x hx
      simp only [List.mem_cons, hbest] at hx
      rcases hx with rfl | hx
      · exact hbU
      · exact h.1 x hx
    · intro k
      simp only [hbest, htx]
      rw [addTxs_isSome, hck, hkeys, List.mem_append, h.2.1 k]
    · simp only [hbest]
      rw [hck]
      refine List.nodup_append.mpr ⟨hnd, h.2.2, ?_⟩
      intro a ha c hc' hac
      subst hac
      obtain ⟨t, ht, rfl⟩ := List.mem_map.mp ha
      have := (h.2.1 (T t).hash).mpr hc'
      rw [hfresh t ht] at this; cases this
  disc := by
    intro s b s' r h hseen hst hd
    rcases disconnectBlock_cases hd with rfl | ⟨tip, rest, s1, hbest, hid, hs1, _, rfl⟩
    · exact h
    · have hf := saveSeq_frame hs1
      have htx : s1.txIdx = s.txIdx := hf.2.2.2.2.2.2.2.2.2.2.2.2.2.2.1
      have hbU : b ∈ U := (hseen.2 b.id b hst).1
      have htip : tip ∈ U := h.1 tip (by rw [hbest]; simp)
      have hbt : b = tip := hU b hbU tip htip hid
      subst hbt
      have hck : chainKeys T s.best = b.txs.map (fun t => (T t).hash) ++ chainKeys T rest := by
        rw [hbest]; simp [chainKeys]
      have hnd := h.2.2
      rw [hck] at hnd
      obtain ⟨_, hnr, hdisj⟩ := List.nodup_append.mp hnd
      have hkeys : keys (ofTable T) b = b.txs.map (fun t => (T t).hash) := rfl
      refine ⟨fun x hx => h.1 x (by rw [hbest]; exact List.mem_cons_of_mem _ hx), ?_, hnr⟩
      intro k
      simp only [htx]
      rw [delTxs_isSome, h.2.1 k, hck, hkeys, List.mem_append]
      constructor
      · rintro ⟨hn, h1 | h1⟩
        · exact absurd h1 hn
        · exact h1
      · intro hk
        exact ⟨fun hm => hdisj k hm k hk rfl, Or.inr hk⟩
  store := by
    intro s b s' _ h _ _ _ _ hs
    rcases storeBlock_cases hs with rfl | ⟨_, ptd, rfl⟩
    · exact h
    · exact h
  addIdx := by intro s b src h _; exact h
  poolAdd := by intro s x h _; exact h
  poolDel := by intro s x h; exact h
  restart := by intro s h; exact h

/-! ### the producer path -/

theorem delDup_subset (T : Table) : ∀ (l : List Nat) (t : Nat), t ∈ delDup T l → t ∈ l := by
  intro l
  induction l with
  | nil => intro t h; simp [delDup] at h
  | cons a rest ih =>
    intro t h
    simp only [delDup] at h
    split at h
    · exact List.mem_cons_of_mem _ (ih t h)
    · rcases List.mem_cons.mp h with rfl | h'
      · simp
      · exact List.mem_cons_of_mem _ (ih t h')

/-- `DelDupTx` leaves no hash twice. -/
theorem delDup_out_nodup (T : Table) : ∀ l : List Nat, ((delDup T l).map (fun t => (T t).hash)).Nodup := by
  intro l
  induction l with
  | nil => simp [delDup]
  | cons a rest ih =>
    simp only [delDup]
    split
    · exact ih
    · rename_i hn
      simp only [List.map_cons, List.nodup_cons]
      refine ⟨?_, ih⟩
      intro hm
      apply hn
      obtain ⟨u, hu, hue⟩ := List.mem_map.mp hm
      exact List.any_eq_true.mpr ⟨u, delDup_subset T rest u hu, by simpa using hue⟩

/-- what the node keeps when it executes a body as its own block: no hash twice, nothing the
duplicate lookup reports, nothing that fails the executor's `checkTx`. -/
theorem produce_spec (T : Table) (s : State) (b : Blk) :
    ((produce T s b).map (fun t => (T t).hash)).Nodup ∧
    (∀ t ∈ produce T s b, t ∈ b.txs ∧ hasTx T s t = false ∧ checkTx s.hi s.lo (T t) b.height b.time = true) := by
  unfold produce
  refine ⟨?_, ?_⟩
  · have h0 := delDup_out_nodup T b.txs
    have h1 : (((delDup T b.txs).filter (fun t => !hasTx T s t)).filter
        (fun t => checkTx s.hi s.lo (T t) b.height b.time)).Sublist (delDup T b.txs) :=
      List.Sublist.trans List.filter_sublist List.filter_sublist
    exact List.Nodup.sublist (List.Sublist.map _ h1) h0
  · intro t ht
    have h1 := List.mem_filter.mp ht
    have h2 := List.mem_filter.mp h1.1
    exact ⟨delDup_subset T b.txs t h2.1, by simpa using h2.2, h1.2⟩

end C27
