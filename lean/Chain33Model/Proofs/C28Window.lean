import Chain33Model.Model.C27
import Chain33Model.Proofs.C27Lift
import Chain33Model.Proofs.C28Inv
import Chain33Model.Proofs.C27Linked
/-!
C28 — the TxHeight duplicate window.  The running `txHashCache` holds (at least) every TxHeight
transaction of the last `hi + lo` blocks of the best chain — across connectBlock, disconnectBlock,
reorganisations and restarts (`InitCache` rebuild) — and from that: no transaction hash occurs in
two blocks of the best chain or twice in one, TxHeight transactions included.
-/
namespace C27
open C25 (Map upd)

/-- `Transaction.Hash()` covers the Expire field. -/
def HashLaw (T : Table) : Prop := ∀ i j, (T i).hash = (T j).hash → (T i).exp = (T j).exp

/-! ### the cache as a set -/

theorem mem_cacheAddList (P : Params) (txs : List Nat) : ∀ (c : List (Nat × Nat)) (e : Nat × Nat),
    e ∈ cacheAddList P c txs ↔ e ∈ c ∨ ∃ t ∈ txs, P.txh t = some e.1 ∧ P.key t = e.2 := by
  unfold cacheAddList
  induction txs with
  | nil => intro c e; simp
  | cons t rest ih =>
    intro c e
    simp only [List.foldl_cons]
    rw [ih]
    cases ht : P.txh t with
    | none =>
      simp only [List.mem_cons, exists_eq_or_imp, ht]
      constructor
      · rintro (h | h)
        · exact Or.inl h
        · exact Or.inr (Or.inr h)
      · rintro (h | h | h)
        · exact Or.inl h
        · exact absurd h.1 (by simp)
        · exact Or.inr h
    | some th =>
      simp only [List.mem_cons, exists_eq_or_imp, ht, Option.some.injEq]
      by_cases hc : c.contains (th, P.key t) = true
      · rw [if_pos hc]
        constructor
        · rintro (h | h)
          · exact Or.inl h
          · exact Or.inr (Or.inr h)
        · rintro (h | ⟨h1, h2⟩ | h)
          · exact Or.inl h
          · left
            have : e = (th, P.key t) := by cases e; simp_all
            rw [this]; simpa using hc
          · exact Or.inr h
      · rw [if_neg hc]
        simp only [List.mem_cons]
        constructor
        · rintro ((h | h) | h)
          · right; left; cases e; simp_all
          · exact Or.inl h
          · exact Or.inr (Or.inr h)
        · rintro (h | ⟨h1, h2⟩ | h)
          · exact Or.inl (Or.inr h)
          · left; left; cases e; simp_all
          · exact Or.inr h

theorem mem_cacheDelList (P : Params) (txs : List Nat) : ∀ (c : List (Nat × Nat)) (e : Nat × Nat),
    e ∈ cacheDelList P c txs ↔ e ∈ c ∧ ¬ ∃ t ∈ txs, P.txh t = some e.1 ∧ P.key t = e.2 := by
  unfold cacheDelList
  induction txs with
  | nil => intro c e; simp
  | cons t rest ih =>
    intro c e
    simp only [List.foldl_cons]
    rw [ih]
    cases ht : P.txh t with
    | none =>
      simp only [List.mem_cons, exists_eq_or_imp, ht]
      constructor
      · rintro ⟨h1, h2⟩
        exact ⟨h1, by rintro (h | h); exact absurd h.1 (by simp); exact h2 h⟩
      · rintro ⟨h1, h2⟩
        exact ⟨h1, fun h => h2 (Or.inr h)⟩
    | some th =>
      simp only [List.mem_cons, exists_eq_or_imp, ht, Option.some.injEq, List.mem_filter, bne_iff_ne, ne_eq]
      constructor
      · rintro ⟨⟨h1, h3⟩, h2⟩
        refine ⟨h1, ?_⟩
        rintro (⟨h4, h5⟩ | h)
        · apply h3; cases e; simp_all
        · exact h2 h
      · rintro ⟨h1, h2⟩
        refine ⟨⟨h1, ?_⟩, fun h => h2 (Or.inr h)⟩
        intro he
        apply h2; left
        rw [he]; exact ⟨rfl, rfl⟩

/-! ### the invariant -/

/-- a transaction hash occurs in at most one block of the chain, and at most once in it. -/
def KeyUniq (T : Table) (l : List Blk) : Prop :=
  (∀ x ∈ l, (x.txs.map (fun t => (T t).hash)).Nodup) ∧
  ∀ x ∈ l, ∀ y ∈ l, ∀ t ∈ x.txs, ∀ u ∈ y.txs, (T t).hash = (T u).hash → x = y

theorem mem_chainKeys {T : Table} {l : List Blk} {k : Nat} :
    k ∈ chainKeys T l ↔ ∃ x ∈ l, ∃ t ∈ x.txs, (T t).hash = k := by
  simp [chainKeys, List.mem_flatMap, List.mem_map]

/-- assumptions about hashing and genesis. -/
structure Hyp (T : Table) (U : List Blk) (g : Blk) (hi lo : Nat) : Prop where
  hashLaw : HashLaw T
  headerLaw : HeaderLaw U
  gU : g ∈ U
  gh : g.height = 0
  gtx : g.txs = []
  gpar : ∀ x ∈ U, x.id ≠ g.parent
  w : 1 ≤ hi + lo

structure Good (T : Table) (U : List Blk) (g : Blk) (hi lo : Nat) (s : State) : Prop where
  hi_eq : s.hi = hi
  lo_eq : s.lo = lo
  linked : Linked g s.best
  bestU : ∀ x ∈ s.best, x ∈ U
  idxU : ∀ x ∈ s.index, x ∈ U
  par : ∀ id x, s.stored id = some x → x = g ∨ ∃ p ∈ U, p.id = x.parent ∧ x.height = p.height + 1
  bs : ∀ x ∈ s.best, s.stored x.id = some x ∧ s.h2h x.height = some x.id
  static : ∀ x ∈ s.best, ∀ t ∈ x.txs, checkTx hi lo (T t) x.height x.time = true
  idx : ∀ k, (s.txIdx k).isSome = true ↔ k ∈ chainKeys T s.best
  uniq : KeyUniq T s.best
  /-- cache completeness: the TxHeight transactions of the last `hi + lo` blocks are in the cache -/
  win : ∀ tip rest, s.best = tip :: rest → ∀ x ∈ s.best, ∀ t ∈ x.txs, ∀ th, txhOf (T t) = some th →
    tip.height < x.height + (hi + lo) → (th, (T t).hash) ∈ s.cache
  last_eq : ∀ tip rest, s.best = tip :: rest → s.last = (tip.height : Int)

def WInv (T : Table) (U : List Blk) (g : Blk) (hi lo : Nat) (s : State) : Prop :=
  s.best = [] ∨ Good T U g hi lo s

variable {T : Table} {U : List Blk} {g : Blk} {hi lo : Nat}

theorem Good.atBest {s : State} (G : Good T U g hi lo s) {x : Blk} (hx : x ∈ s.best) :
    C27.blockAt s x.height = some x := by
  unfold C27.blockAt
  rw [(G.bs x hx).2]
  exact (G.bs x hx).1

/-- the main-chain block at a height not above the tip is the block of the best chain there. -/
theorem Good.atHeight (H : Hyp T U g hi lo) {s : State} (G : Good T U g hi lo s) {tip : Blk} {rest : List Blk}
    (hb : s.best = tip :: rest) {h : Nat} (hh : h ≤ tip.height) :
    ∃ x ∈ s.best, x.height = h ∧ C27.blockAt s h = some x := by
  have hl := G.linked
  rw [hb] at hl
  obtain ⟨x, hx, hxh⟩ := Linked.at_height H.gh hl h hh
  have hx' : x ∈ s.best := by rw [hb]; exact hx
  exact ⟨x, hx', hxh, by rw [← hxh]; exact G.atBest hx'⟩

theorem Good.toL {s : State} (G : Good T U g hi lo s) : LGood U g s :=
  ⟨G.linked, G.bestU, G.idxU, G.par⟩

theorem conn_height (H : Hyp T U g hi lo) {s : State} (G : Good T U g hi lo s) (hseen : Seen (fun b => b ∈ U) s)
    {b tip : Blk} {rest : List Blk} (hbU : b ∈ U) (hst : (s.stored b.id).isSome = true)
    (hbest : s.best = tip :: rest) (hpar : b.parent = tip.id) :
    b.height = tip.height + 1 ∧ ∃ p ∈ U, p.id = b.parent ∧ b.height = p.height + 1 :=
  lconn_height H.headerLaw H.gpar G.toL hseen hbU hst hbest hpar

/-- what the duplicate check of a successful execution gives: no hash twice in the block, none of
them on the chain yet — TxHeight transactions included, thanks to the window invariant. -/
theorem conn_fresh (H : Hyp T U g hi lo) {s : State} (G : Good T U g hi lo s) {b tip : Blk} {rest : List Blk}
    (hbest : s.best = tip :: rest) (hh : b.height = tip.height + 1) (hex : preExec T s b = none) :
    (b.txs.map (fun t => (T t).hash)).Nodup ∧ (∀ t ∈ b.txs, (T t).hash ∉ chainKeys T s.best) ∧
    (∀ t ∈ b.txs, checkTx hi lo (T t) b.height b.time = true) := by
  have hpre := preExec_none hex
  have hlen := hpre.2.2.1
  have h1 : (delDup T b.txs).length = b.txs.length := by
    have a1 := List.length_filter_le (fun t => !hasTx T s t) (delDup T b.txs)
    have a2 := delDup_length_le T b.txs
    omega
  have hnd := delDup_nodup T b.txs h1
  have hdd : delDup T b.txs = b.txs := by
    have : ∀ l : List Nat, (delDup T l).length = l.length → delDup T l = l := by
      intro l
      induction l with
      | nil => intro _; simp [delDup]
      | cons t rest ih =>
        intro hl
        simp only [delDup] at hl ⊢
        split
        · rename_i hany
          rw [if_pos hany] at hl
          have := delDup_length_le T rest
          simp only [List.length_cons] at hl; omega
        · rename_i hany
          rw [if_neg hany] at hl
          simp only [List.length_cons, Nat.add_right_cancel_iff] at hl
          rw [ih hl]
    exact this b.txs h1
  rw [hdd] at hlen
  have hnot := filter_length_all (fun t => !hasTx T s t) b.txs hlen
  have hchk : ∀ t ∈ b.txs, checkTx hi lo (T t) b.height b.time = true := by
    intro t ht
    have := List.all_eq_true.mp hpre.2.2.2.1 t ht
    rw [G.hi_eq, G.lo_eq] at this; exact this
  refine ⟨hnd, ?_, hchk⟩
  intro t ht hmem
  have hnt : hasTx T s t = false := by simpa using hnot t ht
  obtain ⟨x, hx, u, hu, huk⟩ := mem_chainKeys.mp hmem
  cases hth : txhOf (T t) with
  | none =>
    simp only [hasTx, hth] at hnt
    have := (G.idx (T t).hash).mpr hmem
    rw [hnt] at this; cases this
  | some th =>
    simp only [hasTx, hth] at hnt
    -- the earlier occurrence `u` in block `x` has the same expiry, both are unexpired: `x` is inside the window
    have hexp : (T u).exp = (T t).exp := H.hashLaw u t huk
    have hthu : txhOf (T u) = some th := by unfold txhOf at hth ⊢; rw [hexp]; exact hth
    have hcu := G.static x hx u hu
    have hct := hchk t ht
    have hexpT : (T t).exp = .txHeight th := by
      unfold txhOf at hth
      split at hth
      · rename_i h' heq; cases hth; exact heq
      · cases hth
    have e1 : isExpire hi lo (T t) b.height b.time = false := by
      unfold checkTx at hct; simp only [Bool.and_eq_true, Bool.not_eq_true'] at hct; exact hct.1.1.1
    have e2 : isExpire hi lo (T u) x.height x.time = false := by
      unfold checkTx at hcu; simp only [Bool.and_eq_true, Bool.not_eq_true'] at hcu; exact hcu.1.1.1
    unfold isExpire at e1 e2
    rw [hexpT] at e1
    rw [hexp, hexpT] at e2
    simp only [Bool.not_eq_false', Bool.and_eq_true, decide_eq_true_eq] at e1 e2
    have hwin : tip.height < x.height + (hi + lo) := by omega
    have := G.win tip rest hbest x hx u hu th hthu hwin
    rw [huk] at this
    have hc : s.cache.contains (th, (T t).hash) = true := by simpa using this
    rw [hc] at hnt; cases hnt

theorem Good.le_tip {s : State} (G : Good T U g hi lo s) {tip : Blk} {rest : List Blk}
    (hb : s.best = tip :: rest) {x : Blk} (hx : x ∈ s.best) : x.height ≤ tip.height := by
  have hl := G.linked
  rw [hb] at hl hx
  rcases List.mem_cons.mp hx with rfl | hx'
  · exact Nat.le_refl _
  · exact Nat.le_of_lt (Linked.tail_lt hl x hx')

theorem chainKeys_cons (T : Table) (b : Blk) (l : List Blk) :
    chainKeys T (b :: l) = b.txs.map (fun t => (T t).hash) ++ chainKeys T l := by
  simp [chainKeys]

/-- a successful `connectBlock` keeps the window invariant. -/
theorem winv_conn (H : Hyp T U g hi lo) (s : State) (b : Blk) (s' : State)
    (hw : WInv T U g hi lo s) (hseen : Seen (fun b => b ∈ U) s) (hbU : b ∈ U)
    (hst : (s.stored b.id).isSome = true) (hc : connectBlock (ofTable T) s b = (s', none)) :
    WInv T U g hi lo s' := by
  obtain ⟨tip, rest, s1, ptd, hbest, hpar, hex, hs1, _, rfl⟩ := connectBlock_ok hc
  rcases hw with hnil | G
  · rw [hnil] at hbest; cases hbest
  have hf := saveSeq_frame hs1
  have e_hi : s1.hi = s.hi := hf.2.2.2.1
  have e_lo : s1.lo = s.lo := hf.2.2.2.2.1
  have e_idx : s1.index = s.index := hf.2.2.2.2.2.1
  have e_best : s1.best = s.best := hf.2.2.2.2.2.2.2.2.2.1
  have e_sto : s1.stored = s.stored := hf.2.2.2.2.2.2.2.2.2.2.1
  have e_h2h : s1.h2h = s.h2h := hf.2.2.2.2.2.2.2.2.2.2.2.2.1
  have e_tx : s1.txIdx = s.txIdx := hf.2.2.2.2.2.2.2.2.2.2.2.2.2.2.1
  have e_cache : s1.cache = s.cache := hf.2.2.2.2.2.2.2.2.2.2.2.2.2.2.2.1
  obtain ⟨hh, p, hpU, hpid, hph⟩ := conn_height H G hseen hbU hst hbest hpar
  obtain ⟨hnd, hfresh, hchk⟩ := conn_fresh H G hbest hh hex
  have hle : ∀ x ∈ s.best, x.height ≤ tip.height := fun x hx => G.le_tip hbest hx
  have hidne : ∀ x ∈ s.best, x.id ≠ b.id := by
    intro x hx hid
    have := (H.headerLaw x (G.bestU x hx) b hbU hid).2
    have := hle x hx
    omega
  right
  refine {
    hi_eq := e_hi.trans G.hi_eq
    lo_eq := e_lo.trans G.lo_eq
    linked := ?_
    bestU := ?_
    idxU := by intro x hx; exact G.idxU x (by rw [← e_idx]; exact hx)
    par := ?_
    bs := ?_
    static := ?_
    idx := ?_
    uniq := ?_
    win := ?_
    last_eq := ?_ }
  · show Linked g (b :: s1.best)
    rw [e_best, hbest]
    have := G.linked
    rw [hbest] at this
    exact ⟨hpar, hh, this⟩
  · intro x hx
    have hx' : x ∈ b :: s.best := by rw [← e_best]; exact hx
    rcases List.mem_cons.mp hx' with rfl | h1
    · exact hbU
    · exact G.bestU x h1
  · intro id x hx
    simp only [upd, e_sto] at hx
    by_cases hid : id = b.id
    · rw [if_pos hid] at hx; cases hx
      exact Or.inr ⟨p, hpU, hpid, hph⟩
    · rw [if_neg hid] at hx; exact G.par id x hx
  · intro x hx
    have hx' : x ∈ b :: s.best := by rw [← e_best]; exact hx
    simp only [upd, e_sto, e_h2h]
    rcases List.mem_cons.mp hx' with rfl | h1
    · simp
    · have h2 := hidne x h1
      have h3 : x.height ≠ b.height := by have := hle x h1; omega
      rw [if_neg h2, if_neg h3]
      exact G.bs x h1
  · intro x hx t ht
    have hx' : x ∈ b :: s.best := by rw [← e_best]; exact hx
    rcases List.mem_cons.mp hx' with rfl | h1
    · exact hchk t ht
    · exact G.static x h1 t ht
  · intro k
    show ((addTxs (ofTable T) s1.txIdx b) k).isSome = true ↔ k ∈ chainKeys T (b :: s1.best)
    rw [addTxs_isSome, e_tx, e_best, chainKeys_cons, List.mem_append, G.idx k]
    rfl
  · show KeyUniq T (b :: s1.best)
    rw [e_best]
    refine ⟨?_, ?_⟩
    · intro x hx
      rcases List.mem_cons.mp hx with rfl | h1
      · exact hnd
      · exact G.uniq.1 x h1
    · intro x hx y hy t ht u hu htu
      rcases List.mem_cons.mp hx with rfl | h1
      · rcases List.mem_cons.mp hy with rfl | h2
        · rfl
        · exact absurd (mem_chainKeys.mpr ⟨y, h2, u, hu, htu.symm⟩) (hfresh t ht)
      · rcases List.mem_cons.mp hy with rfl | h2
        · exact absurd (mem_chainKeys.mpr ⟨x, h1, t, ht, htu⟩) (hfresh u hu)
        · exact G.uniq.2 x h1 y h2 t ht u hu htu
  · -- cache completeness after txHashCache.Add
    intro tip' rest' hb' x hx t ht th hth hwin
    have hb'' : b :: s.best = tip' :: rest' := by rw [← e_best]; exact hb'
    have htip' : tip' = b := (List.cons.inj hb'').1.symm
    subst htip'
    have hx' : x ∈ tip' :: s.best := by rw [← e_best]; exact hx
    show (th, (T t).hash) ∈ cacheAdd (ofTable T) s1 tip'
    unfold cacheAdd cacheAddTo
    -- the entry is in the cache once the block's own transactions were added
    have hin : (th, (T t).hash) ∈ cacheAddList (ofTable T) s1.cache tip'.txs := by
      rw [mem_cacheAddList]
      rcases List.mem_cons.mp hx' with rfl | h1
      · exact Or.inr ⟨t, ht, hth, rfl⟩
      · left
        rw [e_cache]
        exact G.win tip rest hbest x h1 t ht th hth (by omega)
    simp only
    split
    · exact hin
    · rename_i hge
      split
      · rename_i d hd
        rw [mem_cacheDelList]
        refine ⟨hin, ?_⟩
        rintro ⟨u, hu, hut, huk⟩
        -- the block that leaves the window is the best-chain block `hi + lo` below
        have hW : s1.hi + s1.lo = hi + lo := by rw [e_hi, e_lo, G.hi_eq, G.lo_eq]
        have hw1 := H.w
        have hWle : tip'.height - (s1.hi + s1.lo) ≤ tip.height := by omega
        have hblk : C27.blockAt s1 (tip'.height - (s1.hi + s1.lo)) = C27.blockAt s (tip'.height - (s1.hi + s1.lo)) := by
          unfold C27.blockAt; rw [e_h2h, e_sto]
        obtain ⟨y, hy, hyh, hyb⟩ := G.atHeight H hbest hWle
        rw [hblk, hyb] at hd
        have hyd : y = d := Option.some.inj hd
        rw [← hyd] at hu
        have huk' : (T u).hash = (T t).hash := huk
        rcases List.mem_cons.mp hx' with rfl | h1
        · exact hfresh t ht (mem_chainKeys.mpr ⟨y, hy, u, hu, huk'⟩)
        · have := G.uniq.2 y hy x h1 u hu t ht huk'
          rw [this, hW] at hyh
          omega
      · exact hin
  · intro tip' rest' hb'
    have hb'' : b :: s.best = tip' :: rest' := by rw [← e_best]; exact hb'
    have htip' : tip' = b := (List.cons.inj hb'').1.symm
    subst htip'
    rfl

/-- `disconnectBlock` of the block stored under the tip's hash keeps the window invariant. -/
theorem winv_disc (H : Hyp T U g hi lo) (s : State) (b : Blk) (s' : State) (r : Option Err)
    (hw : WInv T U g hi lo s) (hst : s.stored b.id = some b)
    (hd : disconnectBlock (ofTable T) s b = (s', r)) : WInv T U g hi lo s' := by
  rcases disconnectBlock_cases hd with rfl | ⟨tip, rest, s1, hbest, hid, hs1, _, rfl⟩
  · exact hw
  rcases hw with hnil | G
  · rw [hnil] at hbest; cases hbest
  have hf := saveSeq_frame hs1
  have e_hi : s1.hi = s.hi := hf.2.2.2.1
  have e_lo : s1.lo = s.lo := hf.2.2.2.2.1
  have e_idx : s1.index = s.index := hf.2.2.2.2.2.1
  have e_sto : s1.stored = s.stored := hf.2.2.2.2.2.2.2.2.2.2.1
  have e_h2h : s1.h2h = s.h2h := hf.2.2.2.2.2.2.2.2.2.2.2.2.1
  have e_tx : s1.txIdx = s.txIdx := hf.2.2.2.2.2.2.2.2.2.2.2.2.2.2.1
  have e_cache : s1.cache = s.cache := hf.2.2.2.2.2.2.2.2.2.2.2.2.2.2.2.1
  have htipmem : tip ∈ s.best := by rw [hbest]; simp
  have hbt : b = tip := by
    have := (G.bs tip htipmem).1
    rw [← hid, hst] at this
    exact (Option.some.inj this)
  subst hbt
  cases rest with
  | nil => left; rfl
  | cons nx r2 =>
    have hl := G.linked
    rw [hbest] at hl
    have hlt := Linked.tail_lt hl
    have hsub : ∀ x ∈ nx :: r2, x ∈ s.best := fun x hx => by rw [hbest]; exact List.mem_cons_of_mem _ hx
    have hne : ∀ x ∈ nx :: r2, x ≠ b := by
      intro x hx he
      have := hlt x hx
      rw [he] at this; omega
    have hW : s1.hi + s1.lo = hi + lo := by rw [e_hi, e_lo, G.hi_eq, G.lo_eq]
    right
    refine {
      hi_eq := e_hi.trans G.hi_eq
      lo_eq := e_lo.trans G.lo_eq
      linked := hl.2.2
      bestU := fun x hx => G.bestU x (hsub x hx)
      idxU := by intro x hx; exact G.idxU x (by rw [← e_idx]; exact hx)
      par := by intro id x hx; exact G.par id x (by rw [← e_sto]; exact hx)
      bs := ?_
      static := fun x hx => G.static x (hsub x hx)
      idx := ?_
      uniq := ⟨fun x hx => G.uniq.1 x (hsub x hx),
               fun x hx y hy => G.uniq.2 x (hsub x hx) y (hsub y hy)⟩
      win := ?_
      last_eq := ?_ }
    · intro x hx
      have h1 := G.bs x (hsub x hx)
      have h2 : x.height ≠ b.height := by have := hlt x hx; omega
      simp only [upd, e_sto, e_h2h, if_neg h2]
      exact h1
    · intro k
      show ((delTxs (ofTable T) s1.txIdx b) k).isSome = true ↔ k ∈ chainKeys T (nx :: r2)
      rw [delTxs_isSome, e_tx, G.idx k, hbest, chainKeys_cons, List.mem_append]
      constructor
      · rintro ⟨hn, h1 | h1⟩
        · exact absurd h1 hn
        · exact h1
      · intro hk
        refine ⟨?_, Or.inr hk⟩
        intro hkb
        obtain ⟨x, hx, t, ht, htk⟩ := mem_chainKeys.mp hk
        obtain ⟨u, hu, huk⟩ := List.mem_map.mp hkb
        have := G.uniq.2 x (hsub x hx) b htipmem t ht u hu (by rw [htk]; exact huk.symm)
        exact hne x hx this
    · -- cache completeness after txHashCache.Del
      intro tip' rest' hb' x hx t ht th hth hwin
      have htip' : tip' = nx := (List.cons.inj hb').1.symm
      subst htip'
      have hnxh : b.height = tip'.height + 1 := hl.2.1
      show (th, (T t).hash) ∈ cacheDel (ofTable T) s1 b.height
      have hbAt : C27.blockAt s1 b.height = some b := by
        have := G.atBest htipmem
        unfold C27.blockAt at this ⊢; rw [e_h2h, e_sto]; exact this
      have hnot : ¬ ∃ u ∈ b.txs, (ofTable T).txh u = some th ∧ (ofTable T).key u = (T t).hash := by
        rintro ⟨u, hu, _, huk⟩
        have := G.uniq.2 b htipmem x (hsub x hx) u hu t ht huk
        exact hne x hx this.symm
      unfold cacheDel
      by_cases hlow : b.height < s1.hi + s1.lo
      · simp only [hlow, if_true, hbAt]
        rw [mem_cacheDelList]
        refine ⟨?_, hnot⟩
        rw [e_cache]
        exact G.win b (tip' :: r2) hbest x (hsub x hx) t ht th hth (by omega)
      · simp only [hlow, if_false]
        obtain ⟨y, hy, hyh, hyb⟩ := G.atHeight H hbest (h := b.height - (s1.hi + s1.lo)) (by omega)
        have hyb' : C27.blockAt s1 (b.height - (s1.hi + s1.lo)) = some y := by
          unfold C27.blockAt at hyb ⊢; rw [e_h2h, e_sto]; exact hyb
        simp only [hyb', hbAt]
        rw [mem_cacheDelList]
        refine ⟨?_, hnot⟩
        rw [mem_cacheAddList]
        by_cases hin : b.height < x.height + (hi + lo)
        · left; rw [e_cache]
          exact G.win b (tip' :: r2) hbest x (hsub x hx) t ht th hth hin
        · right
          have hxy : x = y := Linked.height_inj G.linked x (hsub x hx) y hy (by omega)
          subst hxy
          exact ⟨t, ht, hth, rfl⟩
    · intro tip' rest' hb'
      have htip' : tip' = nx := (List.cons.inj hb').1.symm
      subst htip'
      have hnxh : b.height = tip'.height + 1 := hl.2.1
      show (b.height : Int) - 1 = (tip'.height : Int)
      omega

/-- the invariant only reads these fields. -/
theorem Good.congr {s s' : State} (G : Good T U g hi lo s)
    (e1 : s'.hi = s.hi) (e2 : s'.lo = s.lo) (e3 : s'.best = s.best) (e4 : ∀ x ∈ s'.index, x ∈ U)
    (e5 : s'.stored = s.stored) (e6 : s'.h2h = s.h2h) (e7 : s'.txIdx = s.txIdx) (e8 : s'.cache = s.cache)
    (e9 : s'.last = s.last) : Good T U g hi lo s' where
  hi_eq := e1.trans G.hi_eq
  lo_eq := e2.trans G.lo_eq
  linked := by rw [e3]; exact G.linked
  bestU := by rw [e3]; exact G.bestU
  idxU := e4
  par := by rw [e5]; exact G.par
  bs := by rw [e3, e5, e6]; exact G.bs
  static := by rw [e3]; exact G.static
  idx := by rw [e3, e7]; exact G.idx
  uniq := by rw [e3]; exact G.uniq
  win := by rw [e3, e8]; exact G.win
  last_eq := by rw [e3, e9]; exact G.last_eq

theorem winv_store (s : State) (b : Blk) (s' : State) (p : Blk)
    (hw : WInv T U g hi lo s) (hbU : b ∈ U) (hp : lookup s.index b.parent = some p)
    (hh : b.height = p.height + 1) (hs : storeBlock s b = some s') : WInv T U g hi lo s' := by
  rcases storeBlock_cases hs with rfl | ⟨hnone, ptd, rfl⟩
  · exact hw
  rcases hw with hnil | G
  · left; exact hnil
  right
  have hpi := lookup_id hp
  refine { G with
    par := ?_
    bs := ?_ }
  · intro id x hx
    simp only [upd] at hx
    by_cases hid : id = b.id
    · rw [if_pos hid] at hx; cases hx
      exact Or.inr ⟨p, G.idxU p hpi.1, hpi.2, hh⟩
    · rw [if_neg hid] at hx; exact G.par id x hx
  · intro x hx
    have h1 := G.bs x hx
    have : x.id ≠ b.id := by intro he; rw [he, hnone] at h1; cases h1.1
    simp only [upd, if_neg this]
    exact h1

/-! ### `InitCache`: the rebuilt cache is complete -/

/-- one step of the rebuild loop. -/
def rebuildStep (P : Params) (s : State) (c : List (Nat × Nat)) (h : Nat) : List (Nat × Nat) :=
  match C27.blockAt s h with
  | some b => cacheAddTo P s c b
  | none => c

theorem cacheRebuild_eq (P : Params) (s : State) :
    cacheRebuild P s =
      ((List.range (s.last.toNat + 1 - (s.last.toNat + 1 - (s.hi + s.lo)))).map
        (· + (s.last.toNat + 1 - (s.hi + s.lo)))).foldl (rebuildStep P s) [] := rfl

theorem rebuild_complete (H : Hyp T U g hi lo) {s : State} (G : Good T U g hi lo s)
    {tip : Blk} {rest : List Blk} (hbest : s.best = tip :: rest) :
    ∀ x ∈ s.best, ∀ t ∈ x.txs, ∀ th, txhOf (T t) = some th →
      tip.height < x.height + (hi + lo) → (th, (T t).hash) ∈ cacheRebuild (ofTable T) s := by
  have hlast : s.last.toNat = tip.height := by rw [G.last_eq tip rest hbest]; simp
  have hW : s.hi + s.lo = hi + lo := by rw [G.hi_eq, G.lo_eq]
  rw [cacheRebuild_eq, hlast, hW]
  generalize hfrom : tip.height + 1 - (hi + lo) = from_
  -- an entry of a best-chain block at or above `from_`
  let Keep : Nat × Nat → Prop := fun e =>
    ∃ x ∈ s.best, from_ ≤ x.height ∧ ∃ t ∈ x.txs, txhOf (T t) = some e.1 ∧ (T t).hash = e.2
  -- a step at a height in range keeps such entries and adds those of the block at that height
  have hstep : ∀ (c : List (Nat × Nat)) (h : Nat), from_ ≤ h → h ≤ tip.height →
      (∀ e, e ∈ c → Keep e → e ∈ rebuildStep (ofTable T) s c h) ∧
      (∀ x ∈ s.best, x.height = h → ∀ t ∈ x.txs, ∀ th, txhOf (T t) = some th →
        (th, (T t).hash) ∈ rebuildStep (ofTable T) s c h) := by
    intro c h hfh hht
    obtain ⟨y, hy, hyh, hyb⟩ := G.atHeight H hbest hht
    have hkeepdel : ∀ e, Keep e → ∀ d, C27.blockAt s (y.height - (s.hi + s.lo)) = some d →
        s.hi + s.lo ≤ y.height →
        ¬ ∃ u ∈ d.txs, (ofTable T).txh u = some e.1 ∧ (ofTable T).key u = e.2 := by
      rintro e ⟨x, hx, hxf, t, ht, _, htk⟩ d hd hge ⟨u, hu, _, huk⟩
      obtain ⟨z, hz, hzh, hzb⟩ := G.atHeight H hbest (h := y.height - (s.hi + s.lo)) (by omega)
      rw [hzb] at hd
      have hzd : z = d := Option.some.inj hd
      rw [← hzd] at hu
      have : z = x := G.uniq.2 z hz x hx u hu t ht (by rw [htk]; exact huk)
      rw [this, hW] at hzh
      have := H.w
      omega
    unfold rebuildStep
    rw [hyb]
    unfold cacheAddTo
    simp only
    refine ⟨?_, ?_⟩
    · intro e he hk
      have hin : e ∈ cacheAddList (ofTable T) c y.txs := (mem_cacheAddList _ _ _ _).mpr (Or.inl he)
      split
      · exact hin
      · rename_i hge
        split
        · rename_i d hd
          rw [mem_cacheDelList]
          exact ⟨hin, hkeepdel e hk d hd (by omega)⟩
        · exact hin
    · intro x hx hxh t ht th hth
      have hxy : x = y := Linked.height_inj G.linked x hx y hy (by rw [hxh, hyh])
      subst hxy
      have hin : (th, (T t).hash) ∈ cacheAddList (ofTable T) c x.txs :=
        (mem_cacheAddList _ _ _ _).mpr (Or.inr ⟨t, ht, hth, rfl⟩)
      split
      · exact hin
      · rename_i hge
        split
        · rename_i d hd
          rw [mem_cacheDelList]
          exact ⟨hin, hkeepdel (th, (T t).hash) ⟨x, hx, by omega, t, ht, hth, rfl⟩ d hd (by omega)⟩
        · exact hin
  -- fold over the heights
  have hfold : ∀ (hs : List Nat) (c : List (Nat × Nat)), (∀ h ∈ hs, from_ ≤ h ∧ h ≤ tip.height) →
      (∀ e, e ∈ c → Keep e → e ∈ hs.foldl (rebuildStep (ofTable T) s) c) ∧
      (∀ h ∈ hs, ∀ x ∈ s.best, x.height = h → ∀ t ∈ x.txs, ∀ th, txhOf (T t) = some th →
        (th, (T t).hash) ∈ hs.foldl (rebuildStep (ofTable T) s) c) := by
    intro hs
    induction hs with
    | nil => intro c _; exact ⟨fun e he _ => he, fun h hh => by cases hh⟩
    | cons h0 rest' ih =>
      intro c hr
      have h0r := hr h0 (by simp)
      have hs0 := hstep c h0 h0r.1 h0r.2
      have ih' := ih (rebuildStep (ofTable T) s c h0) (fun h hh => hr h (by simp [hh]))
      simp only [List.foldl_cons]
      refine ⟨fun e he hk => ih'.1 e (hs0.1 e he hk) hk, ?_⟩
      intro h hh x hx hxh t ht th hth
      rcases List.mem_cons.mp hh with rfl | hh'
      · exact ih'.1 _ (hs0.2 x hx hxh t ht th hth) ⟨x, hx, by omega, t, ht, hth, rfl⟩
      · exact ih'.2 h hh' x hx hxh t ht th hth
  intro x hx t ht th hth hwin
  have hxle := G.le_tip hbest hx
  have hrange : ∀ h ∈ (List.range (tip.height + 1 - from_)).map (· + from_), from_ ≤ h ∧ h ≤ tip.height := by
    intro h hh
    obtain ⟨i, hi', rfl⟩ := List.mem_map.mp hh
    have := List.mem_range.mp hi'
    omega
  refine (hfold _ [] hrange).2 x.height ?_ x hx rfl t ht th hth
  apply List.mem_map.mpr
  refine ⟨x.height - from_, List.mem_range.mpr (by omega), by omega⟩

theorem winv_restart (H : Hyp T U g hi lo) (s : State) (hw : WInv T U g hi lo s) :
    WInv T U g hi lo (restart (ofTable T) s) := by
  rcases hw with hnil | G
  · left; exact hnil
  right
  refine { G with
    idxU := fun x hx => G.bestU x hx
    win := ?_ }
  intro tip rest hbest
  exact rebuild_complete H G hbest

/-- the window invariant is preserved by every step of the node. -/
theorem winv_pres (H : Hyp T U g hi lo) :
    Pres (ofTable T) (fun b => b ∈ U) (fun _ => True) (WInv T U g hi lo) where
  frame := by
    intro s s' hw ha
    rcases hw with hnil | G
    · left; rw [ha.2.2.2.2.1]; exact hnil
    · right
      exact G.congr ha.2.2.1 ha.2.2.2.1 ha.2.2.2.2.1 (fun x hx => G.idxU x (ha.2.2.2.2.2.2.2.2.2.2.2.2.2.2.2 x hx))
        ha.2.2.2.2.2.1 ha.2.2.2.2.2.2.2.1 ha.2.2.2.2.2.2.2.2.2.2.2.2.1 ha.2.2.2.2.2.2.2.2.2.2.2.2.2.1
        ha.2.2.2.2.2.2.2.2.1
  conn := fun s b s' hw hseen hbU hst hc => winv_conn H s b s' hw hseen hbU hst hc
  disc := fun s b s' r hw _ hst hd => winv_disc H s b s' r hw hst hd
  store := fun s b s' p hw _ hbU hp hh hs => winv_store s b s' p hw hbU hp hh hs
  addIdx := by
    intro s b src hw hbU
    rcases hw with hnil | G
    · left; exact hnil
    · right
      exact G.congr rfl rfl rfl (fun x hx => by
        rcases List.mem_cons.mp hx with rfl | h1
        · exact hbU
        · exact G.idxU x h1) rfl rfl rfl rfl rfl
  poolAdd := by
    intro s x hw _
    rcases hw with hnil | G
    · left; exact hnil
    · right; exact G.congr rfl rfl rfl G.idxU rfl rfl rfl rfl rfl
  poolDel := by
    intro s x hw
    rcases hw with hnil | G
    · left; exact hnil
    · right; exact G.congr rfl rfl rfl G.idxU rfl rfl rfl rfl rfl
  restart := fun s hw => winv_restart H s hw

theorem Linked.nodup {g : Blk} : ∀ {l : List Blk}, Linked g l → l.Nodup := by
  intro l
  induction l with
  | nil => intro h; cases h
  | cons a r ih =>
    intro hl
    cases r with
    | nil => simp
    | cons b r' =>
      refine List.nodup_cons.mpr ⟨?_, ih hl.2.2⟩
      intro hm
      have := Linked.tail_lt hl a hm
      omega

/-- from "one block per hash, once per block" to a duplicate-free list of hashes along the chain. -/
theorem KeyUniq.nodup_chainKeys : ∀ {l : List Blk}, l.Nodup → KeyUniq T l → (chainKeys T l).Nodup := by
  intro l
  induction l with
  | nil => intro _ _; simp [chainKeys]
  | cons a r ih =>
    intro hn hk
    rw [chainKeys_cons]
    have hn' := List.nodup_cons.mp hn
    refine List.nodup_append.mpr ⟨hk.1 a (by simp), ih hn'.2 ⟨fun x hx => hk.1 x (List.mem_cons_of_mem _ hx),
      fun x hx y hy => hk.2 x (List.mem_cons_of_mem _ hx) y (List.mem_cons_of_mem _ hy)⟩, ?_⟩
    intro k hka k' hkr hkk
    subst hkk
    obtain ⟨t, ht, htk⟩ := List.mem_map.mp hka
    obtain ⟨x, hx, u, hu, huk⟩ := mem_chainKeys.mp hkr
    have := hk.2 a (by simp) x (List.mem_cons_of_mem _ hx) t ht u hu (by rw [htk, huk])
    rw [this] at hn'
    exact hn'.1 hx

theorem good_init (H : Hyp T U g hi lo) (F m : Nat) (r : Bool) : Good T U g hi lo (init F m hi lo r g) where
  hi_eq := rfl
  lo_eq := rfl
  linked := rfl
  bestU := by intro x hx; simp only [init, List.mem_singleton] at hx; rw [hx]; exact H.gU
  idxU := by intro x hx; simp only [init, List.mem_singleton] at hx; rw [hx]; exact H.gU
  par := by
    intro id x hx
    simp only [init, upd] at hx
    split at hx
    · cases hx; exact Or.inl rfl
    · cases hx
  bs := by
    intro x hx
    simp only [init, List.mem_singleton] at hx
    subst hx
    simp [init, upd]
  static := by
    intro x hx t ht
    simp only [init, List.mem_singleton] at hx
    subst hx; rw [H.gtx] at ht; cases ht
  idx := by intro k; simp [init, chainKeys, H.gtx]
  uniq := by
    refine ⟨?_, ?_⟩
    · intro x hx
      simp only [init, List.mem_singleton] at hx
      subst hx; rw [H.gtx]; simp
    · intro x hx y hy _ _ _ _ _
      simp only [init, List.mem_singleton] at hx hy
      rw [hx, hy]
  win := by
    intro tip rest _ x hx t ht
    simp only [init, List.mem_singleton] at hx
    subst hx; rw [H.gtx] at ht; cases ht
  last_eq := by
    intro tip rest hb
    simp only [init] at hb
    have : tip = g := (List.cons.inj hb).1.symm
    subst this; rfl

end C27
