import Chain33Model.Model.C29
import Chain33Model.Proofs.C25Tree
/-!
C29, part 2 — every state in the write trace of a run over a block tree is *consistent*:
its persisted main-chain tables describe exactly its best chain (`Cons`).  The states inside a
reorganisation (after each disconnect / connect) satisfy the structural invariant of C25 plus the
tree facts (`Mid`); the state between `dbMaybeStoreBlock` and `index.AddNode` differs from a `Mid`
state only in the header/TD records of a block that is not on the best chain.
-/
namespace C29
open C25

/-- the persisted main-chain tables of `s` are mutually consistent and describe `s.best`:
height index, last height, stored blocks, total difficulties (the tree's) and transaction index. -/
structure Cons (g : Block) (T : List Block) (s : State) : Prop where
  linked : Linked s.best
  h2h : ∀ h, s.h2h h = view s.best h
  last : ∀ t r, s.best = t :: r → s.last = t.height
  blocks : ∀ x ∈ s.best, x ∈ g :: T ∧ s.stored x.id = some x ∧ s.tds x.id = some (TD (g :: T) x)
  txv : s.txIdx = txViewOf s.best
  /-- every stored header/body record (also of side blocks) is a tree block under its own hash,
  with the tree's total difficulty -/
  storedOk : ∀ i x, s.stored i = some x → x ∈ g :: T ∧ x.id = i ∧ s.tds i = some (TD (g :: T) x)
  seqOk : s.recSeq = true → 0 ≤ s.lastSeq

/-- structural invariant + tree facts that hold in every state of a reorganisation. -/
structure Mid (g : Block) (T : List Block) (s : State) : Prop where
  inv : Inv s
  idxSub : ∀ b ∈ s.index, b ∈ g :: T
  tdEq : ∀ b ∈ s.index, s.tds b.id = some (TD (g :: T) b)
  txv : s.txIdx = txViewOf s.best

variable {g : Block} {T : List Block}

theorem Mid.cons {s : State} (h : Mid g T s) : Cons g T s :=
  ⟨h.inv.linked, h.inv.h2h, h.inv.last,
   fun x hx => ⟨h.idxSub x (h.inv.bestIn x hx), h.inv.stored x (h.inv.bestIn x hx), h.tdEq x (h.inv.bestIn x hx)⟩,
   h.txv,
   fun i x hx => by
     obtain ⟨hxi, hid⟩ := h.inv.storedIn i x hx
     exact ⟨h.idxSub x hxi, hid, by rw [← hid]; exact h.tdEq x hxi⟩,
   h.inv.seqOk⟩

theorem mid_of_tbase {F : Nat} {s : State} (h : TBase g T F s) : Mid g T s := ⟨h.inv, h.idxSub, h.tdEq, h.txv⟩

theorem Mid.txFresh (ht : Tree g T) {s : State} (h : Mid g T s) : TxFresh s.best := by
  obtain ⟨t, r, hb⟩ := List.exists_cons_of_ne_nil h.inv.linked.ne_nil
  have hc := chainTo_of_linked ht.uniq r t (fun y hy => h.idxSub y (h.inv.bestIn y (hb ▸ hy))) (hb ▸ h.inv.linked)
  have := ht.txFresh t (h.idxSub t (h.inv.bestIn t (by rw [hb]; simp)))
  rw [hc] at this
  rw [hb]; exact this

theorem Mid.disconnect (ht : Tree g T) {s : State} (h : Mid g T s) {t p : Block} {r : List Block}
    (hbest : s.best = t :: p :: r) :
    ∃ s', disconnectBlock s t = .ok s' ∧ Mid g T s' ∧ s'.best = p :: r ∧ s'.index = s.index := by
  obtain ⟨s', hd, hi', hb', hsr, htx⟩ := disconnectBlock_inv h.inv hbest
  refine ⟨s', hd, ⟨hi', ?_, ?_, ?_⟩, hb', hsr.1⟩
  · rw [hsr.1]; exact h.idxSub
  · intro b hb; rw [hsr.2.2.1]; exact h.tdEq b (hsr.1 ▸ hb)
  · rw [htx, h.txv, hbest, hb']
    have hf : TxFresh ([t] ++ p :: r) := by
      have := h.txFresh ht
      rw [hbest] at this; exact this
    have := foldl_delTxs_view [t] (p :: r) hf
    simpa using this

theorem Mid.connect {s : State} (h : Mid g T s) {b t : Block} {r : List Block} (hb : b ∈ s.index)
    (hbest : s.best = t :: r) (hp : b.parent = t.id) (hh : b.height = t.height + 1) :
    ∃ s', connectBlock s b = .ok s' ∧ Mid g T s' ∧ s'.best = b :: s.best ∧ s'.index = s.index := by
  obtain ⟨s', hc, hi', hb', hsr, htx⟩ := connectBlock_inv h.inv hb hbest hp hh
  refine ⟨s', hc, ⟨hi', ?_, ?_, ?_⟩, hb', hsr.1⟩
  · rw [hsr.1]; exact h.idxSub
  · intro x hx; rw [hsr.2.2.1]; exact h.tdEq x (hsr.1 ▸ hx)
  · rw [htx, h.txv, hb']; rfl

theorem Mid.resetFin {s : State} (h : Mid g T s) (f : Option Block) : Mid g T (resetFin s f) := by
  have e := resetFin_same s f
  exact ⟨h.inv.resetFin f, by rw [e.1]; exact h.idxSub, by rw [e.1, e.2.2.2.1]; exact h.tdEq,
    by rw [e.2.2.2.2.2.2.2.2.2, e.2.2.1]; exact h.txv⟩

/-! membership in the elementary traces -/

theorem connectBlockT_mem {s : State} {b : Block} {e : Write × State} (he : e ∈ connectBlockT s b) :
    e.2 = s ∨ connectBlock s b = .ok e.2 := by
  unfold connectBlockT at he
  split at he
  · cases he
  · split at he
    · cases he
    · rcases List.mem_cons.mp he with rfl | he
      · exact Or.inl rfl
      · split at he
        · rename_i s1 ptd hc _
          simp only [List.mem_singleton] at he
          rw [he]; exact Or.inr hc
        · cases he

theorem disconnectBlockT_mem {s : State} {b : Block} {e : Write × State} (he : e ∈ disconnectBlockT s b) :
    disconnectBlock s b = .ok e.2 := by
  unfold disconnectBlockT at he
  split at he
  · rename_i s1 hc
    simp only [List.mem_singleton] at he
    rw [he]; exact hc
  · cases he

theorem storeBlockT_mem {s : State} {b : Block} {e : Write × State} (he : e ∈ storeBlockT s b) :
    storeBlock s b = some e.2 := by
  unfold storeBlockT at he
  split at he
  · cases he
  · split at he
    · rename_i ptd s1 _ hs
      simp only [List.mem_singleton] at he
      rw [he]; exact hs
    · cases he

/-- disconnecting a proper prefix of the best chain: every trace state is `Mid`. -/
theorem runStepsT_disc_mid (ht : Tree g T) : ∀ (pre : List Block) {s : State}, Mid g T s →
    ∀ {f : Block} {r : List Block}, s.best = pre ++ f :: r →
    (∀ e ∈ runStepsT disconnectBlock disconnectBlockT s pre, Mid g T e.2) ∧
    ∃ s', runSteps disconnectBlock s pre = (s', none) ∧ Mid g T s' ∧ s'.best = f :: r ∧ s'.index = s.index := by
  intro pre
  induction pre with
  | nil =>
    intro s h f r hb
    exact ⟨fun e he => by simp [runStepsT] at he, s, rfl, h, by simpa using hb, rfl⟩
  | cons t pre ih =>
    intro s h f r hb
    obtain ⟨p, r', hb2⟩ := List.exists_cons_of_ne_nil (l := pre ++ f :: r) (by simp)
    have hb1 : s.best = t :: p :: r' := by rw [hb, ← hb2]; simp
    obtain ⟨s1, hd, h1, hbest1, hidx1⟩ := h.disconnect ht hb1
    obtain ⟨hall, s2, hrun, h2, hbest2, hidx2⟩ := ih h1 (f := f) (r := r) (by rw [hbest1, ← hb2])
    refine ⟨?_, s2, by simp only [runSteps, hd, hrun], h2, hbest2, hidx2.trans hidx1⟩
    intro e he
    simp only [runStepsT, hd] at he
    rcases List.mem_append.mp he with he | he
    · have := disconnectBlockT_mem he
      rw [hd] at this
      cases this
      exact h1
    · exact hall e he

/-- connecting a linked run of index blocks above the tip: every trace state is `Mid`. -/
theorem runStepsT_conn_mid : ∀ (att : List Block) {s : State}, Mid g T s →
    (∀ y ∈ att, y ∈ s.index) → Linked (att.reverse ++ s.best) →
    (∀ e ∈ runStepsT connectBlock connectBlockT s att, Mid g T e.2) ∧
    ∃ s', runSteps connectBlock s att = (s', none) ∧ Mid g T s' ∧ s'.best = att.reverse ++ s.best ∧
      s'.index = s.index := by
  intro att
  induction att with
  | nil =>
    intro s h _ _
    exact ⟨fun e he => by simp [runStepsT] at he, s, rfl, h, by simp, rfl⟩
  | cons x att ih =>
    intro s h hin hl
    obtain ⟨t, r, hbest⟩ := List.exists_cons_of_ne_nil h.inv.linked.ne_nil
    have hl' : Linked (x :: s.best) := by
      have : (x :: att).reverse ++ s.best = att.reverse ++ x :: s.best := by simp
      rw [this] at hl
      exact Linked.suffix _ hl
    rw [hbest] at hl'
    obtain ⟨s1, hc, h1, hbest1, hidx1⟩ := h.connect (hin x (by simp)) hbest hl'.1 hl'.2.1
    obtain ⟨hall, s2, hrun, h2, hbest2, hidx2⟩ := ih h1
      (fun y hy => by rw [hidx1]; exact hin y (List.mem_cons_of_mem _ hy))
      (by rw [hbest1]; simpa using hl)
    refine ⟨?_, s2, by simp only [runSteps, hc, hrun], h2, by rw [hbest2, hbest1]; simp, hidx2.trans hidx1⟩
    intro e he
    simp only [runStepsT, hc] at he
    rcases List.mem_append.mp he with he | he
    · rcases connectBlockT_mem he with h' | h'
      · rw [h']; exact h
      · rw [hc] at h'
        cases h'
        exact h1
    · exact hall e he

/-- every state inside a reorganisation towards an index block is `Mid`. -/
theorem reorgToT_mid (ht : Tree g T) {s : State} (h : Mid g T s) {b : Block} (hb : b ∈ s.index) :
    ∀ e ∈ reorgToT s b (findFork s b), Mid g T e.2 := by
  have hi := h.inv
  obtain ⟨f, pre1, pre2, rf, hff, hc1, hb2, _, hgr⟩ := findFork_spec hi hb
  have hs := resetFin_same s (some f)
  have h0 : Mid g T (resetFin s (some f)) := h.resetFin _
  have hgr0 : getReorganizeNodes (resetFin s (some f)) b (some f) = (pre2, pre1.reverse) := by
    simp only [getReorganizeNodes, hs.1, hs.2.2.1] at hgr ⊢
    exact hgr
  obtain ⟨r1, hcl, hl1, hin1⟩ := chainTo_linked hi.uniq hi.closed b.height b hb rfl
  have hin1' : ∀ y ∈ chainTo s.index b.height b, y ∈ s.index := by
    rw [hcl]; intro y hy
    rcases List.mem_cons.mp hy with rfl | hy
    · exact hb
    · exact hin1 y hy
  obtain ⟨hall1, s1, hrun1, h1, hbest1, hidx1⟩ := runStepsT_disc_mid ht pre2 h0 (f := f) (r := rf)
    (by rw [hs.2.2.1]; exact hb2)
  obtain ⟨hall2, _⟩ := runStepsT_conn_mid pre1.reverse h1
    (fun y hy => by
      rw [hidx1, hs.1]
      exact hin1' y (by rw [hc1]; exact List.mem_append_left _ (List.mem_reverse.mp hy)))
    (by rw [List.reverse_reverse, hbest1, ← hc1, hcl]; exact hl1)
  intro e he
  rw [hff] at he
  simp only [reorgToT, hgr0, reorganizeT] at he
  split at he
  · cases he
  · rcases List.mem_append.mp he with he | he
    · exact hall1 e he
    · rw [hrun1] at he
      exact hall2 e he

/-- every state in the trace of `connectBestChain` for an index block above an index parent. -/
theorem connectBestChainT_mid (ht : Tree g T) {s : State} (h : Mid g T s) {b p : Block} (hb : b ∈ s.index)
    (hp : p ∈ s.index) (hpid : p.id = b.parent) (hh : b.height = p.height + 1) :
    ∀ e ∈ connectBestChainT s b, Mid g T e.2 := by
  intro e he
  unfold connectBestChainT at he
  obtain ⟨t, rest, hbest⟩ := List.exists_cons_of_ne_nil h.inv.linked.ne_nil
  rw [hbest] at he
  dsimp only at he
  have htin : t ∈ s.index := h.inv.bestIn t (by rw [hbest]; simp)
  by_cases hpar : b.parent = t.id
  · simp only [hpar, if_true] at he
    have hpt : p = t := h.inv.uniq p hp t htin (hpid.trans hpar)
    subst hpt
    rcases connectBlockT_mem he with h' | h'
    · rw [h']; exact h
    · obtain ⟨s', hc, h1, _, _⟩ := h.connect hb hbest hpar hh
      rw [hc] at h'
      cases h'
      exact h1
  · simp only [hpar, if_false] at he
    split at he
    · cases he
    · split at he
      · cases he
      · split at he
        · cases he
        · rename_i f hff
          split at he
          · cases he
          · exact reorgToT_mid ht h hb e (by rw [hff]; exact he)

theorem cons_of_addIndex {s : State} {b : Block} (h : Cons g T (addIndex s b)) : Cons g T s :=
  ⟨h.linked, h.h2h, h.last, h.blocks, h.txv, h.storedOk, h.seqOk⟩

/-- accepting a fresh tree block: all trace states are consistent, the result keeps the tree
invariant. -/
theorem acceptT_cons {F : Nat} (ht : Tree g T) {s : State} (hs : TBase g T F s) {b : Block} (hbU : b ∈ g :: T)
    (hfresh : ∀ x ∈ s.index, x.id ≠ b.id) (hforph : ∀ o ∈ s.orphans, o.id ≠ b.id) :
    (∀ e ∈ maybeAcceptBlockT s b, Cons g T e.2) ∧ TBase g T F (maybeAcceptBlock s b).1 ∧
      (maybeAcceptBlock s b).1.orphans = s.orphans := by
  cases hl : lookup s.index b.parent with
  | none =>
    refine ⟨fun e he => by simp [maybeAcceptBlockT, hl] at he, ?_, ?_⟩ <;> simp only [maybeAcceptBlock, hl]
    exact hs
  | some p =>
    obtain ⟨hp, hpid⟩ := lookup_some hl
    by_cases hh : b.height = p.height + 1
    · obtain ⟨s1, tp, hst, htp, hi0, e1, e2, e3, e4, e5, e6, e7, e8⟩ := hs.inv.addBlock hp hpid hh hfresh hforph
      obtain ⟨s', r, hacc, _, hs', _, horph'⟩ := accept_tbase ht hs hbU hfresh hforph hp hpid
      have hTDb : TD (g :: T) b = b.diff + TD (g :: T) p := TD_child ht.uniq (hs.idxSub p hp) hpid hh
      have htpe : tp = TD (g :: T) p := by
        have := hs.tdEq p hp; rw [htp] at this; exact Option.some.inj this
      have hm0 : Mid g T (addIndex s1 b) := by
        refine ⟨hi0, ?_, ?_, by rw [e8, e3]; exact hs.txv⟩
        · intro x hx
          rw [e1] at hx
          rcases List.mem_cons.mp hx with hxb | hx
          · rw [hxb]; exact hbU
          · exact hs.idxSub x hx
        · intro x hx
          rw [e1] at hx; rw [e7]
          rcases List.mem_cons.mp hx with hxb | hx
          · rw [hxb, upd_same, hTDb, htpe]
          · rw [upd_other _ _ _ _ (hfresh x hx)]; exact hs.tdEq x hx
      refine ⟨?_, by rw [hacc]; exact hs', by rw [hacc]; exact horph'⟩
      intro e he
      simp only [maybeAcceptBlockT, hl, hh, ne_eq, not_true_eq_false, if_false, hst] at he
      rcases List.mem_append.mp he with he | he
      · have := storeBlockT_mem he
        rw [hst] at this
        cases this
        exact cons_of_addIndex (b := b) hm0.cons
      · exact (connectBestChainT_mid ht hm0 (b := b) (p := p) (by rw [e1]; simp)
          (by rw [e1]; exact List.mem_cons_of_mem _ hp) hpid hh e he).cons
    · refine ⟨fun e he => by simp [maybeAcceptBlockT, hl, hh] at he, ?_, ?_⟩ <;>
        simp only [maybeAcceptBlock, hl, ne_eq, hh, not_false_eq_true, if_true]
      exact hs

theorem processOrphansT_cons {F : Nat} (ht : Tree g T) : ∀ (fuel : Nat) (q : List Nat) (s : State),
    TBase g T F s →
    (∀ e ∈ processOrphansT fuel q s, Cons g T e.2) ∧ TBase g T F (processOrphans fuel q s).1 := by
  intro fuel
  induction fuel with
  | zero => intro q s hs; exact ⟨fun e he => by simp [processOrphansT] at he, by simpa [processOrphans] using hs⟩
  | succ n ih =>
    intro q s hs
    cases q with
    | nil => exact ⟨fun e he => by simp [processOrphansT] at he, by simpa [processOrphans] using hs⟩
    | cons hd rest =>
      simp only [processOrphansT, processOrphans]
      cases ho : s.orphans.find? (fun o => o.parent == hd) with
      | none => exact ih rest s hs
      | some o =>
        dsimp only
        have hom : o ∈ s.orphans := List.mem_of_find?_eq_some ho
        obtain ⟨hall, hs2, _⟩ := acceptT_cons ht (hs.dropOrphan o.id) (b := o) (hs.orphSub o hom)
          (fun x hx => hs.inv.orphFresh o hom x hx) (dropOrphan_fresh s o.id)
        cases hacc : maybeAcceptBlock (dropOrphan s o.id) o with
        | mk s2 r =>
          rw [hacc] at hs2
          have hrec := ih (hd :: rest ++ [o.id]) s2 hs2
          cases r with
          | err e =>
            refine ⟨fun e he => ?_, hs2⟩
            simp only [List.append_nil] at he
            exact hall e he
          | main =>
            refine ⟨fun e he => ?_, hrec.2⟩
            rcases List.mem_append.mp he with he | he
            · exact hall e he
            · exact hrec.1 e he
          | side =>
            refine ⟨fun e he => ?_, hrec.2⟩
            rcases List.mem_append.mp he with he | he
            · exact hall e he
            · exact hrec.1 e he
          | orphan =>
            refine ⟨fun e he => ?_, hrec.2⟩
            rcases List.mem_append.mp he with he | he
            · exact hall e he
            · exact hrec.1 e he

theorem processBlockT_cons {F : Nat} (ht : Tree g T) {s : State} (hs : TBase g T F s) {b : Block}
    (hb : b ∈ g :: T) :
    (∀ e ∈ processBlockT s b, Cons g T e.2) ∧ TBase g T F (processBlock s b).1 := by
  unfold processBlockT processBlock
  by_cases h1 : haveBlock s b.id = true
  · simp only [h1, if_true]
    exact ⟨fun e he => (by cases he), hs⟩
  · simp only [h1, Bool.false_eq_true, if_false]
    have hfresh : ∀ x ∈ s.index, x.id ≠ b.id := not_haveBlock_fresh h1
    by_cases h2 : isKnownOrphan s b.id = true ∧ (!haveBlock s b.parent) = true
    · simp only [h2, and_self, if_true]
      exact ⟨fun e he => (by cases he), hs⟩
    · simp only [h2, if_false]
      have hs0 := hs.unorphan b
      have hidx0 := unorphan_index s b
      have hfresh0 : ∀ x ∈ (unorphan s b).index, x.id ≠ b.id := by rw [hidx0]; exact hfresh
      have hforph0 := unorphan_fresh s b
      by_cases h3 : (!haveBlock (unorphan s b) b.parent) = true
      · simp only [h3, if_true]
        refine ⟨fun e he => (by cases he), ?_⟩
        refine ⟨hs0.inv.addOrphan hfresh0 hforph0, hs0.gIn, hs0.idxSub, ?_, hs0.tdEq, hs0.tipMax, hs0.win,
          hs0.finLe, hs0.txv⟩
        intro o hom
        simp only [addOrphan] at hom
        rcases List.mem_append.mp hom with h | h
        · exact hs0.orphSub o h
        · simp at h; rw [h]; exact hb
      · simp only [h3, Bool.false_eq_true, if_false]
        unfold acceptAndDrainT acceptAndDrain
        obtain ⟨hall, hs1, _⟩ := acceptT_cons ht hs0 hb hfresh0 hforph0
        cases hacc : maybeAcceptBlock (unorphan s b) b with
        | mk s1 r =>
          rw [hacc] at hs1
          have hrec := processOrphansT_cons ht (orphanFuel s1) [b.id] s1 hs1
          cases r with
          | err e =>
            refine ⟨fun e he => ?_, hs1⟩
            simp only [List.append_nil] at he
            exact hall e he
          | main =>
            dsimp only
            refine ⟨fun e he => ?_, ?_⟩
            · rcases List.mem_append.mp he with he | he
              · exact hall e he
              · exact hrec.1 e he
            · have := hrec.2
              split <;> (rename_i heq; rw [heq] at this; exact this)
          | side =>
            dsimp only
            refine ⟨fun e he => ?_, ?_⟩
            · rcases List.mem_append.mp he with he | he
              · exact hall e he
              · exact hrec.1 e he
            · have := hrec.2
              split <;> (rename_i heq; rw [heq] at this; exact this)
          | orphan =>
            dsimp only
            refine ⟨fun e he => ?_, ?_⟩
            · rcases List.mem_append.mp he with he | he
              · exact hall e he
              · exact hrec.1 e he
            · have := hrec.2
              split <;> (rename_i heq; rw [heq] at this; exact this)

theorem deliverAllT_cons {F : Nat} (ht : Tree g T) : ∀ (ds : List Block) (s : State), TBase g T F s →
    (∀ b ∈ ds, b ∈ g :: T) → ∀ e ∈ deliverAllT s ds, Cons g T e.2 := by
  intro ds
  induction ds with
  | nil => intro s _ _ e he; simp [deliverAllT] at he
  | cons b bs ih =>
    intro s hs hds e he
    obtain ⟨hall, hs1⟩ := processBlockT_cons ht hs (hds b (by simp))
    simp only [deliverAllT] at he
    rcases List.mem_append.mp he with he | he
    · exact hall e he
    · exact ih _ hs1 (fun x hx => hds x (List.mem_cons_of_mem _ hx)) e he

end C29
