import Chain33Model.Proofs.C29Sim
import Chain33Model.Proofs.C29Inv
import Chain33Model.Proofs.C25Final
/-!
C29, part 3 — start-up on a consistent disk image rebuilds exactly the best chain, and the
assembly: the disk after ANY number of writes of a run is the image of a consistent state.
-/
namespace C29
open C25

variable {g : Block} {T : List Block}

/-- following the height index from the tip's height down to 0 finds the chain. -/
theorem loadChain_of_chain {d : Disk} : ∀ (r : List Block) (t : Block), Linked (t :: r) →
    (∀ h, h ≤ t.height → d.h2h h = view (t :: r) h) → (∀ x ∈ t :: r, d.stored x.id = some x) →
    loadChain d t.height = some (t :: r) := by
  intro r
  induction r with
  | nil =>
    intro t hl hh hs
    have h0 : t.height = 0 := hl
    rw [h0]
    have h1 : d.h2h 0 = some t.id := by
      rw [hh 0 (by omega), view_cons_linked, if_pos h0]
    simp only [loadChain, h1, hs t (by simp), Option.map]
  | cons p r ih =>
    intro t hl hh hs
    have hht : t.height = p.height + 1 := hl.2.1
    have hrec := ih p hl.tail
      (fun h hle => by
        rw [hh h (by omega), view_cons_linked, if_neg (by omega)])
      (fun x hx => hs x (List.mem_cons_of_mem _ hx))
    rw [hht]
    have h1 : d.h2h (p.height + 1) = some t.id := by
      rw [hh (p.height + 1) (by omega), view_cons_linked, if_pos hht]
    simp only [loadChain, h1, hs t (by simp), hrec]

/-- start-up on the image of a consistent state succeeds and rebuilds that state's best chain;
index = best chain, empty orphan pool, tables as on disk. -/
theorem recover_of_sim {d : Disk} {s : State} (F m : Nat) (r : Bool) (hs : Sim d s) (hc : Cons g T s) :
    ∃ sr, recover F m r d = some sr ∧ sr.best = s.best ∧ sr.index = s.best ∧ sr.orphans = [] ∧
      sr.stored = s.stored ∧ sr.tds = s.tds ∧ sr.h2h = s.h2h ∧ sr.last = s.last ∧ sr.txIdx = s.txIdx ∧
      sr.seqTab = s.seqTab ∧ sr.hashSeq = s.hashSeq ∧ sr.lastSeq = s.lastSeq ∧
      sr.fin = F ∧ sr.margin = m ∧ sr.recSeq = r := by
  obtain ⟨t, rest, hb⟩ := List.exists_cons_of_ne_nil hc.linked.ne_nil
  have hlast : d.last = (t.height : Int) := by rw [hs.last]; exact hc.last t rest hb
  have hload : loadChain d d.last.toNat = some (t :: rest) := by
    rw [hlast, Int.toNat_natCast]
    apply loadChain_of_chain rest t (hb ▸ hc.linked)
    · intro h _; rw [hs.h2h, hc.h2h h, hb]
    · intro x hx; rw [hs.stored]; exact (hc.blocks x (hb ▸ hx)).2.1
  have hnn : ¬ d.last < 0 := by rw [hlast]; omega
  refine ⟨{ fin := F, margin := m, recSeq := r, index := t :: rest, orphans := [], best := t :: rest,
            stored := d.stored, tds := d.tds, h2h := d.h2h, last := d.last, seqTab := d.seqTab,
            hashSeq := d.hashSeq, lastSeq := d.lastSeq, txIdx := d.txIdx },
    by simp only [recover, hnn, if_false, hload], ?_⟩
  simp only [hb, hs.stored, hs.tds, hs.h2h, hs.last, hs.txIdx, hs.seqTab, hs.hashSeq, hs.lastSeq, and_self]

theorem sim_init (F m : Nat) (r : Bool) (g : Block) : Sim (disk (init F m r g) (roots0 g)) (init F m r g) :=
  ⟨rfl, rfl, rfl, rfl, rfl, rfl, rfl, rfl, fun x hx => by
    simp only [init, List.mem_singleton] at hx
    rw [hx]; simp [disk, roots0], rfl⟩

/-- **Assembly.**  After ANY number `n` of durable writes of a run over a block tree, the disk is
the image of the in-memory state the run had right after its `n`-th write, and that state is
consistent. -/
theorem crash_image (ht : Tree g T) (F m : Nat) (r : Bool) (ds : List Block) (hds : ∀ b ∈ ds, b ∈ T) (n : Nat) :
    Sim (crash F m r g ds n) (stateAt (init F m r g) (deliverAllT (init F m r g) ds) n) ∧
    Cons g T (stateAt (init F m r g) (deliverAllT (init F m r g) ds) n) := by
  have hok := deliverAllT_ok ds _ _ (sim_init F m r g)
  refine ⟨follows_take _ _ _ (sim_init F m r g) hok.follows n, ?_⟩
  have hb := (init_tbase ht F m r).1
  unfold stateAt
  cases hl : ((deliverAllT (init F m r g) ds).take n).getLast? with
  | none => exact (mid_of_tbase hb).cons
  | some e =>
    have he : e ∈ (deliverAllT (init F m r g) ds).take n := List.mem_of_getLast? hl
    exact deliverAllT_cons ht ds _ hb (fun b hb => List.mem_cons_of_mem _ (hds b hb)) e (List.mem_of_mem_take he)

theorem bestAt_eq (F m : Nat) (r : Bool) (g : Block) (ds : List Block) (n : Nat) :
    bestAt F m r g ds n = (stateAt (init F m r g) (deliverAllT (init F m r g) ds) n).best := by
  unfold bestAt stateAt
  cases ((deliverAllT (init F m r g) ds).take n).getLast? with
  | none => rfl
  | some e => rfl

/-- the whole write log replays to the image of the run's final state. -/
theorem replay_final (F m : Nat) (r : Bool) (g : Block) (ds : List Block) :
    Sim (applyAll (disk (init F m r g) (roots0 g)) (writesOf (init F m r g) ds)) (deliverAll (init F m r g) ds) :=
  (deliverAllT_ok ds _ _ (sim_init F m r g)).final

end C29
