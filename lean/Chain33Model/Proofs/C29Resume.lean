import Chain33Model.Proofs.C29Recover
import Chain33Model.Proofs.C25Fresh
import Chain33Model.Proofs.C25Lift
/-!
C29, part 4 — resuming on a recovered node.

A recovered node differs from a "clean" node (a fresh node fed the recovered chain in order) only
in data the chain logic never depends on: header/TD records of blocks that are not in the index
(side blocks, blocks stored by `dbMaybeStoreBlock` just before the crash) — all tree blocks with
the tree's total difficulty — and the length of the sequence log.  `Rel s₁ s₂` states this; the
lemmas show that both nodes take the SAME decisions for every delivered tree block and stay
related (lock-step simulation), while the clean node keeps the tree invariant of C25.
-/
namespace C29
open C25

variable {g : Block} {T : List Block}

/-- `s₁` (recovered) and `s₂` (clean) agree on everything the chain logic reads. -/
structure Rel (g : Block) (T : List Block) (s1 s2 : State) : Prop where
  fin : s1.fin = s2.fin
  margin : s1.margin = s2.margin
  recSeq : s1.recSeq = s2.recSeq
  index : s1.index = s2.index
  orphans : s1.orphans = s2.orphans
  best : s1.best = s2.best
  h2h : s1.h2h = s2.h2h
  last : s1.last = s2.last
  txIdx : s1.txIdx = s2.txIdx
  tdsI : ∀ x ∈ s2.index, s1.tds x.id = s2.tds x.id
  storedI : ∀ x ∈ s2.index, s1.stored x.id = s2.stored x.id
  extra : ∀ i x, s1.stored i = some x → x ∈ g :: T ∧ x.id = i ∧ s1.tds i = some (TD (g :: T) x)
  seqOk : s1.recSeq = true → 0 ≤ s1.lastSeq

/-- what `saveSeq` leaves unchanged (named fields). -/
structure SeqFrame (s s' : State) : Prop where
  fin : s'.fin = s.fin
  margin : s'.margin = s.margin
  recSeq : s'.recSeq = s.recSeq
  index : s'.index = s.index
  orphans : s'.orphans = s.orphans
  best : s'.best = s.best
  stored : s'.stored = s.stored
  tds : s'.tds = s.tds
  h2h : s'.h2h = s.h2h
  last : s'.last = s.last
  txIdx : s'.txIdx = s.txIdx

theorem seqFrame {s s' : State} {a : Bool} {b : Block} (h : saveSeq s a b = .ok s') : SeqFrame s s' := by
  obtain ⟨h1, h2, h3, h4, h5, h6, h7, h8, h9, h10, h11⟩ := saveSeq_frame h
  exact ⟨h1, h2, h3, h4, h5, h6, h7, h8, h9, h10, h11⟩

theorem seqCond {s : State} (h : s.recSeq = true → 0 ≤ s.lastSeq) : 0 ≤ s.lastSeq ∨ s.recSeq = false := by
  cases hr : s.recSeq
  · right; rfl
  · left; exact h hr

theorem connectBlock_succeeds {s : State} {b tip : Block} {rest : List Block} {ptd : Nat}
    (hbest : s.best = tip :: rest) (hp : b.parent = tip.id) (hseq : s.recSeq = true → 0 ≤ s.lastSeq)
    (hptd : s.tds b.parent = some ptd) : ∃ s', connectBlock s b = .ok s' := by
  obtain ⟨sq, hsq⟩ := saveSeq_succeeds s true b (seqCond hseq)
  have hf := seqFrame hsq
  refine ⟨{ sq with stored := upd sq.stored b.id (some b), h2h := upd sq.h2h b.height (some b.id),
                    last := b.height, tds := upd sq.tds b.id (some (b.diff + ptd)), best := b :: sq.best,
                    txIdx := addTxs sq.txIdx b }, ?_⟩
  simp only [connectBlock, hbest, hp, hsq, ne_eq, not_true_eq_false, if_false]
  rw [hf.tds, ← hp, hptd]

theorem disconnectBlock_succeeds {s : State} {tip : Block} {rest : List Block}
    (hbest : s.best = tip :: rest) (hseq : s.recSeq = true → 0 ≤ s.lastSeq) :
    ∃ s', disconnectBlock s tip = .ok s' := by
  obtain ⟨sq, hsq⟩ := saveSeq_succeeds s false tip (seqCond hseq)
  refine ⟨{ sq with h2h := upd sq.h2h tip.height none, last := (tip.height : Int) - 1, best := rest,
                    txIdx := delTxs sq.txIdx tip }, ?_⟩
  simp only [disconnectBlock, hbest, hsq, ne_eq, not_true_eq_false, if_false]

/-- lock step for one `connectBlock` of an index block sitting on the tip. -/
theorem rel_connect {s1 s2 : State} (h : Rel g T s1 s2) (hm : Mid g T s2) {b t : Block} {r : List Block}
    (hb : b ∈ s2.index) (hbest : s2.best = t :: r) (hp : b.parent = t.id) (hh : b.height = t.height + 1) :
    ∃ s1' s2', connectBlock s1 b = .ok s1' ∧ connectBlock s2 b = .ok s2' ∧ Rel g T s1' s2' ∧ Mid g T s2' ∧
      s2'.best = b :: s2.best ∧ s2'.index = s2.index := by
  obtain ⟨s2', hc2, hm2, hb2, hi2⟩ := hm.connect hb hbest hp hh
  obtain ⟨_, _, sq2, ptd, _, _, hsq2, hptd2, hs2'⟩ := connectBlock_ok hc2
  have htin : t ∈ s2.index := hm.inv.bestIn t (by rw [hbest]; simp)
  have hptd1 : s1.tds b.parent = some ptd := by rw [hp, h.tdsI t htin, ← hp]; exact hptd2
  obtain ⟨s1', hc1⟩ := connectBlock_succeeds (by rw [h.best]; exact hbest) hp h.seqOk hptd1
  obtain ⟨_, _, sq1, ptd1, _, _, hsq1, hptd1', hs1'⟩ := connectBlock_ok hc1
  have hpe : ptd1 = ptd := by rw [hptd1] at hptd1'; exact (Option.some.inj hptd1').symm
  subst hpe
  have f1 := seqFrame hsq1
  have f2 := seqFrame hsq2
  have htd2 : s2'.tds b.id = some (TD (g :: T) b) := hm2.tdEq b (by rw [hi2]; exact hb)
  refine ⟨s1', s2', hc1, hc2, ?_, hm2, hb2, hi2⟩
  have hidx2 : s2'.index = s2.index := hi2
  constructor
  · rw [hs1', hs2']; dsimp only; rw [f1.fin, f2.fin, h.fin]
  · rw [hs1', hs2']; dsimp only; rw [f1.margin, f2.margin, h.margin]
  · rw [hs1', hs2']; dsimp only; rw [f1.recSeq, f2.recSeq, h.recSeq]
  · rw [hs1', hs2']; dsimp only; rw [f1.index, f2.index, h.index]
  · rw [hs1', hs2']; dsimp only; rw [f1.orphans, f2.orphans, h.orphans]
  · rw [hs1', hs2']; dsimp only; rw [h.best]
  · rw [hs1', hs2']; dsimp only; rw [h.h2h]
  · rw [hs1', hs2']
  · rw [hs1', hs2']; dsimp only; rw [h.txIdx]
  · intro x hx
    rw [hidx2] at hx
    rw [hs1', hs2']; dsimp only
    by_cases hxb : x.id = b.id
    · rw [hxb, upd_same, upd_same]
    · rw [upd_other _ _ _ _ hxb, upd_other _ _ _ _ hxb]; exact h.tdsI x hx
  · intro x hx
    rw [hidx2] at hx
    rw [hs1', hs2']; dsimp only
    by_cases hxb : x.id = b.id
    · rw [hxb, upd_same, upd_same]
    · rw [upd_other _ _ _ _ hxb, upd_other _ _ _ _ hxb]; exact h.storedI x hx
  · intro i x hx
    rw [hs1'] at hx ⊢
    dsimp only at hx ⊢
    by_cases hib : i = b.id
    · rw [hib, upd_same] at hx
      have hxb : b = x := Option.some.inj hx
      rw [← hxb]
      refine ⟨hm.idxSub b hb, hib.symm, ?_⟩
      rw [hib, upd_same]
      rw [hs2'] at htd2
      dsimp only at htd2
      rw [upd_same] at htd2
      exact htd2
    · rw [upd_other _ _ _ _ hib] at hx
      rw [upd_other _ _ _ _ hib]
      exact h.extra i x hx
  · intro hr
    have := saveSeq_seqOk hsq1 h.seqOk
    rw [hs1'] at hr ⊢
    exact this hr

/-- lock step for one `disconnectBlock` of the tip (not the bottom block). -/
theorem rel_disconnect (ht : Tree g T) {s1 s2 : State} (h : Rel g T s1 s2) (hm : Mid g T s2)
    {t p : Block} {r : List Block} (hbest : s2.best = t :: p :: r) :
    ∃ s1' s2', disconnectBlock s1 t = .ok s1' ∧ disconnectBlock s2 t = .ok s2' ∧ Rel g T s1' s2' ∧
      Mid g T s2' ∧ s2'.best = p :: r ∧ s2'.index = s2.index := by
  obtain ⟨s2', hc2, hm2, hb2, hi2⟩ := hm.disconnect ht hbest
  obtain ⟨_, _, sq2, _, _, hsq2, hs2'⟩ := disconnectBlock_ok hc2
  obtain ⟨s1', hc1⟩ := disconnectBlock_succeeds (s := s1) (tip := t) (rest := p :: r) (by rw [h.best]; exact hbest) h.seqOk
  obtain ⟨tip1, rest1, sq1, hbest1, _, hsq1, hs1'⟩ := disconnectBlock_ok hc1
  have hrest : rest1 = p :: r := by
    rw [h.best, hbest] at hbest1
    exact (List.cons.inj hbest1).2.symm
  have f1 := seqFrame hsq1
  have f2 := seqFrame hsq2
  have hidx2 : s2'.index = s2.index := hi2
  refine ⟨s1', s2', hc1, hc2, ?_, hm2, hb2, hi2⟩
  constructor
  · rw [hs1', hs2']; dsimp only; rw [f1.fin, f2.fin, h.fin]
  · rw [hs1', hs2']; dsimp only; rw [f1.margin, f2.margin, h.margin]
  · rw [hs1', hs2']; dsimp only; rw [f1.recSeq, f2.recSeq, h.recSeq]
  · rw [hs1', hs2']; dsimp only; rw [f1.index, f2.index, h.index]
  · rw [hs1', hs2']; dsimp only; rw [f1.orphans, f2.orphans, h.orphans]
  · rw [hb2, hs1']; dsimp only; exact hrest
  · rw [hs1', hs2']; dsimp only; rw [h.h2h]
  · rw [hs1', hs2']
  · rw [hs1', hs2']; dsimp only; rw [h.txIdx]
  · intro x hx
    rw [hidx2] at hx
    rw [hs1', hs2']; dsimp only
    rw [f1.tds, f2.tds]; exact h.tdsI x hx
  · intro x hx
    rw [hidx2] at hx
    rw [hs1', hs2']; dsimp only
    rw [f1.stored, f2.stored]; exact h.storedI x hx
  · intro i x hx
    rw [hs1'] at hx ⊢
    dsimp only at hx ⊢
    rw [f1.stored] at hx
    rw [f1.tds]
    exact h.extra i x hx
  · intro hr
    have := saveSeq_seqOk hsq1 h.seqOk
    rw [hs1'] at hr ⊢
    exact this hr

/-- lock step for disconnecting a proper prefix of the best chain. -/
theorem rel_runDisc (ht : Tree g T) : ∀ (pre : List Block) {s1 s2 : State}, Rel g T s1 s2 → Mid g T s2 →
    ∀ {f : Block} {r : List Block}, s2.best = pre ++ f :: r →
    ∃ s1' s2', runSteps disconnectBlock s1 pre = (s1', none) ∧ runSteps disconnectBlock s2 pre = (s2', none) ∧
      Rel g T s1' s2' ∧ Mid g T s2' ∧ s2'.best = f :: r ∧ s2'.index = s2.index := by
  intro pre
  induction pre with
  | nil =>
    intro s1 s2 h hm f r hb
    exact ⟨s1, s2, rfl, rfl, h, hm, by simpa using hb, rfl⟩
  | cons t pre ih =>
    intro s1 s2 h hm f r hb
    obtain ⟨p, r', hb2⟩ := List.exists_cons_of_ne_nil (l := pre ++ f :: r) (by simp)
    have hb1 : s2.best = t :: p :: r' := by rw [hb, ← hb2]; simp
    obtain ⟨a1, a2, hd1, hd2, hrel, hm', hbest', hidx'⟩ := rel_disconnect ht h hm hb1
    obtain ⟨c1, c2, hr1, hr2, hrel2, hm2, hbest2, hidx2⟩ := ih hrel hm' (f := f) (r := r) (by rw [hbest', ← hb2])
    exact ⟨c1, c2, by simp only [runSteps, hd1, hr1], by simp only [runSteps, hd2, hr2], hrel2, hm2, hbest2,
      hidx2.trans hidx'⟩

/-- lock step for connecting a linked run of index blocks above the tip. -/
theorem rel_runConn : ∀ (att : List Block) {s1 s2 : State}, Rel g T s1 s2 → Mid g T s2 →
    (∀ y ∈ att, y ∈ s2.index) → Linked (att.reverse ++ s2.best) →
    ∃ s1' s2', runSteps connectBlock s1 att = (s1', none) ∧ runSteps connectBlock s2 att = (s2', none) ∧
      Rel g T s1' s2' ∧ Mid g T s2' ∧ s2'.best = att.reverse ++ s2.best ∧ s2'.index = s2.index := by
  intro att
  induction att with
  | nil =>
    intro s1 s2 h hm _ _
    exact ⟨s1, s2, rfl, rfl, h, hm, by simp, rfl⟩
  | cons x att ih =>
    intro s1 s2 h hm hin hl
    obtain ⟨t, r, hbest⟩ := List.exists_cons_of_ne_nil hm.inv.linked.ne_nil
    have hl' : Linked (x :: s2.best) := by
      have : (x :: att).reverse ++ s2.best = att.reverse ++ x :: s2.best := by simp
      rw [this] at hl
      exact Linked.suffix _ hl
    rw [hbest] at hl'
    obtain ⟨a1, a2, hc1, hc2, hrel, hm', hbest', hidx'⟩ := rel_connect h hm (hin x (by simp)) hbest hl'.1 hl'.2.1
    obtain ⟨c1, c2, hr1, hr2, hrel2, hm2, hbest2, hidx2⟩ := ih hrel hm'
      (fun y hy => by rw [hidx']; exact hin y (List.mem_cons_of_mem _ hy))
      (by rw [hbest']; simpa using hl)
    exact ⟨c1, c2, by simp only [runSteps, hc1, hr1], by simp only [runSteps, hc2, hr2], hrel2, hm2,
      by rw [hbest2, hbest']; simp, hidx2.trans hidx'⟩


/-! frames -/

theorem rel_resetFin {s1 s2 : State} (h : Rel g T s1 s2) (f : Option Block) :
    Rel g T (resetFin s1 f) (resetFin s2 f) := by
  unfold resetFin
  cases f with
  | none => exact h
  | some f =>
    dsimp only
    rw [h.fin]
    split
    · exact ⟨rfl, h.margin, h.recSeq, h.index, h.orphans, h.best, h.h2h, h.last, h.txIdx, h.tdsI, h.storedI,
        h.extra, h.seqOk⟩
    · exact h

theorem rel_dropOrphan {s1 s2 : State} (h : Rel g T s1 s2) (id : Nat) :
    Rel g T (dropOrphan s1 id) (dropOrphan s2 id) :=
  ⟨h.fin, h.margin, h.recSeq, h.index, by simp only [dropOrphan, h.orphans], h.best, h.h2h, h.last, h.txIdx,
   h.tdsI, h.storedI, h.extra, h.seqOk⟩

theorem rel_addOrphan {s1 s2 : State} (h : Rel g T s1 s2) (b : Block) :
    Rel g T (addOrphan s1 b) (addOrphan s2 b) :=
  ⟨h.fin, h.margin, h.recSeq, h.index, by simp only [addOrphan, h.orphans], h.best, h.h2h, h.last, h.txIdx,
   h.tdsI, h.storedI, h.extra, h.seqOk⟩

theorem rel_unorphan {s1 s2 : State} (h : Rel g T s1 s2) (b : Block) :
    Rel g T (unorphan s1 b) (unorphan s2 b) := by
  unfold unorphan
  have : isKnownOrphan s1 b.id = isKnownOrphan s2 b.id := by simp only [isKnownOrphan, h.orphans]
  rw [this]
  split
  · exact rel_dropOrphan h b.id
  · exact h

theorem rel_findFork {s1 s2 : State} (h : Rel g T s1 s2) (b : Block) : findFork s1 b = findFork s2 b := by
  simp only [findFork, h.best, h.index]

/-- lock step for the reorganize branch of `connectBestChain`. -/
theorem rel_reorgTo (ht : Tree g T) {s1 s2 : State} (h : Rel g T s1 s2) (hm : Mid g T s2) {b : Block}
    (hb : b ∈ s2.index) :
    ∃ s1' s2', reorgTo s1 b (findFork s1 b) = (s1', .main) ∧ reorgTo s2 b (findFork s2 b) = (s2', .main) ∧
      Rel g T s1' s2' := by
  have hi := hm.inv
  obtain ⟨f, pre1, pre2, rf, hff, hc1, hb2, _, hgr⟩ := findFork_spec hi hb
  have hff1 : findFork s1 b = some f := by rw [rel_findFork h b]; exact hff
  have hs := resetFin_same s2 (some f)
  have hs1 := resetFin_same s1 (some f)
  have h0 : Mid g T (resetFin s2 (some f)) := hm.resetFin _
  have hrel0 : Rel g T (resetFin s1 (some f)) (resetFin s2 (some f)) := rel_resetFin h _
  have hgr0 : getReorganizeNodes (resetFin s2 (some f)) b (some f) = (pre2, pre1.reverse) := by
    simp only [getReorganizeNodes, hs.1, hs.2.2.1] at hgr ⊢
    exact hgr
  have hgr1 : getReorganizeNodes (resetFin s1 (some f)) b (some f) = (pre2, pre1.reverse) := by
    rw [← hgr0]
    simp only [getReorganizeNodes, hrel0.index, hrel0.best]
  obtain ⟨r1, hcl, hl1, hin1⟩ := chainTo_linked hi.uniq hi.closed b.height b hb rfl
  have hin1' : ∀ y ∈ chainTo s2.index b.height b, y ∈ s2.index := by
    rw [hcl]; intro y hy
    rcases List.mem_cons.mp hy with rfl | hy
    · exact hb
    · exact hin1 y hy
  obtain ⟨a1, a2, hra1, hra2, hrela, hma, hbesta, hidxa⟩ := rel_runDisc ht pre2 hrel0 h0 (f := f) (r := rf)
    (by rw [hs.2.2.1]; exact hb2)
  obtain ⟨c1, c2, hrc1, hrc2, hrelc, _, _, _⟩ := rel_runConn pre1.reverse hrela hma
    (fun y hy => by
      rw [hidxa, hs.1]
      exact hin1' y (by rw [hc1]; exact List.mem_append_left _ (List.mem_reverse.mp hy)))
    (by rw [List.reverse_reverse, hbesta, ← hc1, hcl]; exact hl1)
  have hmem : ∀ x ∈ pre2 ++ pre1.reverse, x ∈ s2.index := by
    intro x hx
    rcases List.mem_append.mp hx with h' | h'
    · exact hi.bestIn x (by rw [hb2]; exact List.mem_append_left _ h')
    · exact hin1' x (by rw [hc1]; exact List.mem_append_left _ (List.mem_reverse.mp h'))
  have hstored2 : (pre2 ++ pre1.reverse).all (fun n => ((resetFin s2 (some f)).stored n.id).isSome) = true := by
    rw [List.all_eq_true]
    intro x hx
    rw [hs.2.2.2.2.1, hi.stored x (hmem x hx)]; rfl
  have hstored1 : (pre2 ++ pre1.reverse).all (fun n => ((resetFin s1 (some f)).stored n.id).isSome) = true := by
    rw [List.all_eq_true]
    intro x hx
    rw [hs1.2.2.2.2.1, h.storedI x (hmem x hx), hi.stored x (hmem x hx)]; rfl
  refine ⟨c1, c2, ?_, ?_, hrelc⟩
  · simp only [reorgTo, hff1, hgr1, reorganize, hstored1, hra1, hrc1, Bool.not_true, Bool.false_eq_true, if_false]
  · simp only [reorgTo, hff, hgr0, reorganize, hstored2, hra2, hrc2, Bool.not_true, Bool.false_eq_true, if_false]

/-- lock step for `connectBestChain` on an index block above an index parent. -/
theorem rel_connectBestChain (ht : Tree g T) {s1 s2 : State} (h : Rel g T s1 s2) (hm : Mid g T s2)
    {b p : Block} (hb : b ∈ s2.index) (hp : p ∈ s2.index) (hpid : p.id = b.parent) (hh : b.height = p.height + 1) :
    ∃ s1' s2' res, connectBestChain s1 b = (s1', res) ∧ connectBestChain s2 b = (s2', res) ∧ Rel g T s1' s2' := by
  have hi := hm.inv
  obtain ⟨t, rest, hbest⟩ := List.exists_cons_of_ne_nil hi.linked.ne_nil
  have hbest1 : s1.best = t :: rest := by rw [h.best]; exact hbest
  have htin : t ∈ s2.index := hi.bestIn t (by rw [hbest]; simp)
  by_cases hpar : b.parent = t.id
  · have hpt : p = t := hi.uniq p hp t htin (hpid.trans hpar)
    subst hpt
    obtain ⟨a1, a2, hc1, hc2, hrel, _, _, _⟩ := rel_connect h hm hb hbest hpar hh
    exact ⟨a1, a2, .main, by simp only [connectBestChain, hbest1, hpar, if_true, hc1],
      by simp only [connectBestChain, hbest, hpar, if_true, hc2], hrel⟩
  · obtain ⟨tt, htt⟩ := Option.isSome_iff_exists.mp (hi.tdSome t htin)
    obtain ⟨tp, htp⟩ := Option.isSome_iff_exists.mp (hi.tdSome p hp)
    have htt1 : s1.tds t.id = some tt := by rw [h.tdsI t htin]; exact htt
    have hptd2 : s2.tds b.parent = some tp := by rw [← hpid]; exact htp
    have hptd1 : s1.tds b.parent = some tp := by rw [← hpid, h.tdsI p hp]; exact htp
    by_cases hside : b.diff + tp ≤ tt ∨ b.height < s2.fin + s2.margin
    · obtain ⟨f, _, _, _, hff, _⟩ := findFork_spec hi hb
      have hff1 : findFork s1 b = some f := by rw [rel_findFork h b]; exact hff
      have hside1 : b.diff + tp ≤ tt ∨ b.height < s1.fin + s1.margin := by rw [h.fin, h.margin]; exact hside
      exact ⟨s1, s2, .side,
        by simp only [connectBestChain, hbest1, hpar, if_false, htt1, hptd1, hside1, if_true, hff1],
        by simp only [connectBestChain, hbest, hpar, if_false, htt, hptd2, hside, if_true, hff], h⟩
    · obtain ⟨a1, a2, hr1, hr2, hrel⟩ := rel_reorgTo ht h hm hb
      obtain ⟨f, _, _, _, hff, _⟩ := findFork_spec hi hb
      have hff1 : findFork s1 b = some f := by rw [rel_findFork h b]; exact hff
      rw [hff1] at hr1
      rw [hff] at hr2
      have hside1 : ¬ (b.diff + tp ≤ tt ∨ b.height < s1.fin + s1.margin) := by rw [h.fin, h.margin]; exact hside
      exact ⟨a1, a2, .main,
        by simp only [connectBestChain, hbest1, hpar, if_false, htt1, hptd1, hside1, hff1, hr1],
        by simp only [connectBestChain, hbest, hpar, if_false, htt, hptd2, hside, hff, hr2], hrel⟩


/-! `dbMaybeStoreBlock` -/

/-- fields `storeBlock` never touches. -/
structure StoreFrame (s s' : State) : Prop where
  fin : s'.fin = s.fin
  margin : s'.margin = s.margin
  recSeq : s'.recSeq = s.recSeq
  index : s'.index = s.index
  orphans : s'.orphans = s.orphans
  best : s'.best = s.best
  h2h : s'.h2h = s.h2h
  last : s'.last = s.last
  lastSeq : s'.lastSeq = s.lastSeq
  txIdx : s'.txIdx = s.txIdx

theorem storeBlock_spec {s s' : State} {b : Block} (h : storeBlock s b = some s') :
    StoreFrame s s' ∧
    (((s.stored b.id).isSome = true ∧ s' = s) ∨
     (s.stored b.id = none ∧ ∃ ptd, s.tds b.parent = some ptd ∧ s'.stored = upd s.stored b.id (some b) ∧
        s'.tds = upd s.tds b.id (some (b.diff + ptd)))) := by
  unfold storeBlock at h
  by_cases hsome : (s.stored b.id).isSome = true
  · simp only [hsome, if_true] at h
    have : s' = s := (Option.some.inj h).symm
    subst this
    exact ⟨⟨rfl, rfl, rfl, rfl, rfl, rfl, rfl, rfl, rfl, rfl⟩, Or.inl ⟨hsome, rfl⟩⟩
  · simp only [hsome, Bool.false_eq_true, if_false] at h
    cases hptd : s.tds b.parent with
    | none => simp [hptd] at h
    | some ptd =>
      simp only [hptd] at h
      have : s' = { s with stored := upd s.stored b.id (some b), tds := upd s.tds b.id (some (b.diff + ptd)) } :=
        (Option.some.inj h).symm
      subst this
      have hn : s.stored b.id = none := by
        cases hx : s.stored b.id with
        | none => rfl
        | some x => simp [hx] at hsome
      exact ⟨⟨rfl, rfl, rfl, rfl, rfl, rfl, rfl, rfl, rfl, rfl⟩, Or.inr ⟨hn, ptd, rfl, rfl, rfl⟩⟩

theorem storeBlock_succeeds {s : State} {b : Block} {ptd : Nat} (h : s.tds b.parent = some ptd) :
    ∃ s', storeBlock s b = some s' := by
  unfold storeBlock
  by_cases hsome : (s.stored b.id).isSome = true
  · exact ⟨s, by simp only [hsome, if_true]⟩
  · exact ⟨{ s with stored := upd s.stored b.id (some b), tds := upd s.tds b.id (some (b.diff + ptd)) },
      by simp only [hsome, Bool.false_eq_true, if_false, h]⟩

/-- lock step for `maybeAcceptBlock` on a fresh tree block. -/
theorem rel_accept {F : Nat} (ht : Tree g T) {s1 s2 : State} (h : Rel g T s1 s2) (hs : TBase g T F s2) {b : Block}
    (hbU : b ∈ g :: T) (hfresh : ∀ x ∈ s2.index, x.id ≠ b.id) (hforph : ∀ o ∈ s2.orphans, o.id ≠ b.id) :
    ∃ s1' s2' res, maybeAcceptBlock s1 b = (s1', res) ∧ maybeAcceptBlock s2 b = (s2', res) ∧
      Rel g T s1' s2' ∧ TBase g T F s2' := by
  cases hl : lookup s2.index b.parent with
  | none =>
    exact ⟨s1, s2, .err .parentNoExist, by simp only [maybeAcceptBlock, h.index, hl],
      by simp only [maybeAcceptBlock, hl], h, hs⟩
  | some p =>
    obtain ⟨hp, hpid⟩ := lookup_some hl
    by_cases hh : b.height = p.height + 1
    · obtain ⟨s21, tp, hst2, htp, hi0, e1, e2, e3, e4, e5, e6, e7, e8⟩ := hs.inv.addBlock hp hpid hh hfresh hforph
      obtain ⟨s', r, hacc, _, hs', _, _⟩ := accept_tbase ht hs hbU hfresh hforph hp hpid
      have hTDb : TD (g :: T) b = b.diff + TD (g :: T) p := TD_child ht.uniq (hs.idxSub p hp) hpid hh
      have htpe : tp = TD (g :: T) p := by
        have := hs.tdEq p hp; rw [htp] at this; exact Option.some.inj this
      have hm0 : Mid g T (addIndex s21 b) := by
        refine ⟨hi0, ?_, ?_, by rw [e8, e3]; exact hs.txv⟩
        · intro x hx
          rw [e1] at hx
          rcases List.mem_cons.mp hx with hxb | hx
          · rw [hxb]; exact hbU
          · exact hs.idxSub x hx
        · intro x hx
          rw [e1] at hx; rw [e7]
          rcases List.mem_cons.mp hx with hxb | hx
          · rw [hxb, upd_same, hTDb, htpe]
          · rw [upd_other _ _ _ _ (hfresh x hx)]; exact hs.tdEq x hx
      have hptd1 : s1.tds b.parent = some tp := by rw [← hpid, h.tdsI p hp]; exact htp
      obtain ⟨s11, hst1⟩ := storeBlock_succeeds hptd1
      obtain ⟨fr1, hcase1⟩ := storeBlock_spec hst1
      obtain ⟨fr2, _⟩ := storeBlock_spec hst2
      -- what the recovered side holds for `b` after the store step
      have hA : s11.stored b.id = some b ∧ s11.tds b.id = some (TD (g :: T) b) ∧
          ∀ i, i ≠ b.id → s11.stored i = s1.stored i ∧ s11.tds i = s1.tds i := by
        rcases hcase1 with ⟨hsome, heq⟩ | ⟨_, ptd, hptd, hst, htd⟩
        · obtain ⟨x, hx⟩ := Option.isSome_iff_exists.mp hsome
          obtain ⟨hxU, hxid, hxtd⟩ := h.extra b.id x hx
          have hxb : x = b := ht.uniq x hxU b hbU hxid
          rw [heq]
          exact ⟨by rw [hx, hxb], by rw [hxtd, hxb], fun i _ => ⟨rfl, rfl⟩⟩
        · have hpe : ptd = tp := by rw [hptd1] at hptd; exact (Option.some.inj hptd).symm
          rw [hst, htd, hpe]
          refine ⟨upd_same _ _ _, by rw [upd_same, hTDb, htpe], fun i hi => ?_⟩
          exact ⟨upd_other _ _ _ _ hi, upd_other _ _ _ _ hi⟩
      have hrelA : Rel g T (addIndex s11 b) (addIndex s21 b) := by
        constructor
        · show s11.fin = _; rw [fr1.fin, e4]; exact h.fin
        · show s11.margin = _; rw [fr1.margin, e5]; exact h.margin
        · show s11.recSeq = _; rw [fr1.recSeq, e6]; exact h.recSeq
        · show b :: s11.index = _; rw [fr1.index, e1, h.index]
        · show s11.orphans = _; rw [fr1.orphans, e2]; exact h.orphans
        · show s11.best = _; rw [fr1.best, e3]; exact h.best
        · show s11.h2h = s21.h2h; rw [fr1.h2h, fr2.h2h]; exact h.h2h
        · show s11.last = s21.last; rw [fr1.last, fr2.last]; exact h.last
        · show s11.txIdx = s21.txIdx; rw [fr1.txIdx, fr2.txIdx]; exact h.txIdx
        · intro x hx
          rw [e1] at hx
          show s11.tds x.id = (addIndex s21 b).tds x.id
          rw [e7]
          rcases List.mem_cons.mp hx with hxb | hx
          · rw [hxb, upd_same, hA.2.1, hTDb, htpe]
          · rw [upd_other _ _ _ _ (hfresh x hx), (hA.2.2 x.id (hfresh x hx)).2]; exact h.tdsI x hx
        · intro x hx
          show s11.stored x.id = (addIndex s21 b).stored x.id
          rw [hi0.stored x hx]
          rw [e1] at hx
          rcases List.mem_cons.mp hx with hxb | hx
          · rw [hxb]; exact hA.1
          · rw [(hA.2.2 x.id (hfresh x hx)).1, h.storedI x hx]; exact hs.inv.stored x hx
        · intro i x hx
          have hx' : s11.stored i = some x := hx
          show x ∈ g :: T ∧ x.id = i ∧ s11.tds i = some (TD (g :: T) x)
          by_cases hib : i = b.id
          · rw [hib, hA.1] at hx'
            have hxb : b = x := Option.some.inj hx'
            rw [← hxb, hib]
            exact ⟨hbU, rfl, hA.2.1⟩
          · rw [(hA.2.2 i hib).1] at hx'
            rw [(hA.2.2 i hib).2]
            exact h.extra i x hx'
        · show s11.recSeq = true → 0 ≤ s11.lastSeq
          rw [fr1.recSeq, fr1.lastSeq]; exact h.seqOk
      obtain ⟨a1, a2, res, hcb1, hcb2, hrel⟩ := rel_connectBestChain ht hrelA hm0 (b := b) (p := p)
        (by rw [e1]; simp) (by rw [e1]; exact List.mem_cons_of_mem _ hp) hpid hh
      have hacc1 : maybeAcceptBlock s1 b = (a1, res) := by
        simp only [maybeAcceptBlock, h.index, hl, hh, ne_eq, not_true_eq_false, if_false, hst1, hcb1]
      have hacc2 : maybeAcceptBlock s2 b = (a2, res) := by
        simp only [maybeAcceptBlock, hl, hh, ne_eq, not_true_eq_false, if_false, hst2, hcb2]
      have : s' = a2 := by rw [hacc] at hacc2; exact (Prod.mk.inj hacc2).1
      exact ⟨a1, a2, res, hacc1, hacc2, hrel, this ▸ hs'⟩
    · exact ⟨s1, s2, .err .heightNoMatch,
        by simp only [maybeAcceptBlock, h.index, hl, ne_eq, hh, not_false_eq_true, if_true],
        by simp only [maybeAcceptBlock, hl, ne_eq, hh, not_false_eq_true, if_true], h, hs⟩

theorem rel_processOrphans {F : Nat} (ht : Tree g T) : ∀ (fuel : Nat) (q : List Nat) (s1 s2 : State),
    Rel g T s1 s2 → TBase g T F s2 →
    ∃ s1' s2' e, processOrphans fuel q s1 = (s1', e) ∧ processOrphans fuel q s2 = (s2', e) ∧
      Rel g T s1' s2' ∧ TBase g T F s2' := by
  intro fuel
  induction fuel with
  | zero => intro q s1 s2 h hs; exact ⟨s1, s2, some .stuck, rfl, rfl, h, hs⟩
  | succ n ih =>
    intro q s1 s2 h hs
    cases q with
    | nil => exact ⟨s1, s2, none, rfl, rfl, h, hs⟩
    | cons hd rest =>
      cases ho : s2.orphans.find? (fun o => o.parent == hd) with
      | none =>
        obtain ⟨c1, c2, e, h1, h2, hrel, hs'⟩ := ih rest s1 s2 h hs
        exact ⟨c1, c2, e, by simp only [processOrphans, h.orphans, ho]; exact h1,
          by simp only [processOrphans, ho]; exact h2, hrel, hs'⟩
      | some o =>
        have hom : o ∈ s2.orphans := List.mem_of_find?_eq_some ho
        obtain ⟨a1, a2, res, hacc1, hacc2, hrel, hs2⟩ := rel_accept ht (rel_dropOrphan h o.id) (hs.dropOrphan o.id)
          (b := o) (hs.orphSub o hom) (fun x hx => hs.inv.orphFresh o hom x hx) (dropOrphan_fresh s2 o.id)
        cases res with
        | err e =>
          exact ⟨a1, a2, some e, by simp only [processOrphans, h.orphans, ho, hacc1],
            by simp only [processOrphans, ho, hacc2], hrel, hs2⟩
        | main =>
          obtain ⟨c1, c2, e, h1, h2, hrel', hs'⟩ := ih (hd :: rest ++ [o.id]) a1 a2 hrel hs2
          exact ⟨c1, c2, e, by simp only [processOrphans, h.orphans, ho, hacc1]; exact h1,
            by simp only [processOrphans, ho, hacc2]; exact h2, hrel', hs'⟩
        | side =>
          obtain ⟨c1, c2, e, h1, h2, hrel', hs'⟩ := ih (hd :: rest ++ [o.id]) a1 a2 hrel hs2
          exact ⟨c1, c2, e, by simp only [processOrphans, h.orphans, ho, hacc1]; exact h1,
            by simp only [processOrphans, ho, hacc2]; exact h2, hrel', hs'⟩
        | orphan =>
          obtain ⟨c1, c2, e, h1, h2, hrel', hs'⟩ := ih (hd :: rest ++ [o.id]) a1 a2 hrel hs2
          exact ⟨c1, c2, e, by simp only [processOrphans, h.orphans, ho, hacc1]; exact h1,
            by simp only [processOrphans, ho, hacc2]; exact h2, hrel', hs'⟩


theorem rel_acceptAndDrain {F : Nat} (ht : Tree g T) {s1 s2 : State} (h : Rel g T s1 s2) (hs : TBase g T F s2)
    {b : Block} (hbU : b ∈ g :: T) (hfresh : ∀ x ∈ s2.index, x.id ≠ b.id) (hforph : ∀ o ∈ s2.orphans, o.id ≠ b.id) :
    Rel g T (acceptAndDrain s1 b).1 (acceptAndDrain s2 b).1 ∧ TBase g T F (acceptAndDrain s2 b).1 := by
  obtain ⟨a1, a2, res, hacc1, hacc2, hrel, hs1⟩ := rel_accept ht h hs hbU hfresh hforph
  have hf : orphanFuel a1 = orphanFuel a2 := by simp only [orphanFuel, hrel.orphans]
  obtain ⟨c1, c2, e, h1, h2, hrel', hs'⟩ := rel_processOrphans ht (orphanFuel a2) [b.id] a1 a2 hrel hs1
  cases res with
  | err e' => simp only [acceptAndDrain, hacc1, hacc2]; exact ⟨hrel, hs1⟩
  | main => cases e <;> (simp only [acceptAndDrain, hacc1, hacc2, hf, h1, h2]; exact ⟨hrel', hs'⟩)
  | side => cases e <;> (simp only [acceptAndDrain, hacc1, hacc2, hf, h1, h2]; exact ⟨hrel', hs'⟩)
  | orphan => cases e <;> (simp only [acceptAndDrain, hacc1, hacc2, hf, h1, h2]; exact ⟨hrel', hs'⟩)

/-- lock step for one `ProcessBlock` of a tree block. -/
theorem rel_processBlock {F : Nat} (ht : Tree g T) {s1 s2 : State} (h : Rel g T s1 s2) (hs : TBase g T F s2)
    {b : Block} (hb : b ∈ g :: T) :
    Rel g T (processBlock s1 b).1 (processBlock s2 b).1 ∧ TBase g T F (processBlock s2 b).1 := by
  have hhave : haveBlock s1 b.id = haveBlock s2 b.id := by simp only [haveBlock, h.index]
  have hko : isKnownOrphan s1 b.id = isKnownOrphan s2 b.id := by simp only [isKnownOrphan, h.orphans]
  have hhp : haveBlock s1 b.parent = haveBlock s2 b.parent := by simp only [haveBlock, h.index]
  have hu := rel_unorphan h b
  have hhu : haveBlock (unorphan s1 b) b.parent = haveBlock (unorphan s2 b) b.parent := by
    simp only [haveBlock, hu.index]
  unfold processBlock
  rw [hhave, hko, hhp, hhu]
  by_cases h1 : haveBlock s2 b.id = true
  · simp only [h1, if_true]; exact ⟨h, hs⟩
  · simp only [h1, Bool.false_eq_true, if_false]
    have hfresh : ∀ x ∈ s2.index, x.id ≠ b.id := not_haveBlock_fresh h1
    by_cases h2 : isKnownOrphan s2 b.id = true ∧ (!haveBlock s2 b.parent) = true
    · simp only [h2, and_self, if_true]; exact ⟨h, hs⟩
    · simp only [h2, if_false]
      have hs0 := hs.unorphan b
      have hidx0 := unorphan_index s2 b
      have hfresh0 : ∀ x ∈ (unorphan s2 b).index, x.id ≠ b.id := by rw [hidx0]; exact hfresh
      have hforph0 := unorphan_fresh s2 b
      by_cases h3 : (!haveBlock (unorphan s2 b) b.parent) = true
      · simp only [h3, if_true]
        refine ⟨rel_addOrphan hu b, ?_⟩
        refine ⟨hs0.inv.addOrphan hfresh0 hforph0, hs0.gIn, hs0.idxSub, ?_, hs0.tdEq, hs0.tipMax, hs0.win,
          hs0.finLe, hs0.txv⟩
        intro o hom
        simp only [addOrphan] at hom
        rcases List.mem_append.mp hom with h' | h'
        · exact hs0.orphSub o h'
        · simp at h'; rw [h']; exact hb
      · simp only [h3, Bool.false_eq_true, if_false]
        exact rel_acceptAndDrain ht hu hs0 hb hfresh0 hforph0

theorem rel_deliverAll {F : Nat} (ht : Tree g T) : ∀ (ds : List Block) (s1 s2 : State), Rel g T s1 s2 →
    TBase g T F s2 → (∀ b ∈ ds, b ∈ g :: T) → Rel g T (deliverAll s1 ds) (deliverAll s2 ds) := by
  intro ds
  induction ds with
  | nil => intro s1 s2 h _ _; exact h
  | cons b bs ih =>
    intro s1 s2 h hs hds
    obtain ⟨hrel, hs'⟩ := rel_processBlock ht h hs (hds b (by simp))
    simp only [deliverAll, List.foldl_cons]
    exact ih _ _ hrel hs' (fun x hx => hds x (List.mem_cons_of_mem _ hx))

/-! the clean partner: a fresh node fed the recovered chain in order -/

/-- in-order delivery onto a node whose index is its best chain: index = best chain, no orphans. -/
theorem deliver_in_order' {U : List Block} (hu : UniqIds U) :
    ∀ (l : List Block) (s : State), Inv s → s.orphans = [] → s.index = s.best →
      (∀ y ∈ s.index, y ∈ U) → (∀ x ∈ l, x ∈ U) → Linked (l.reverse ++ s.best) →
      (deliverAll s l).best = l.reverse ++ s.best ∧ (deliverAll s l).index = l.reverse ++ s.best ∧
      (deliverAll s l).orphans = [] := by
  intro l
  induction l with
  | nil => intro s _ horph hib _ _ _; exact ⟨by simp [deliverAll], by simp [deliverAll, hib], by simpa [deliverAll] using horph⟩
  | cons x l ih =>
    intro s hi horph hib hiU hlU hl
    obtain ⟨t, r, hbest⟩ := List.exists_cons_of_ne_nil hi.linked.ne_nil
    have hl' : Linked (x :: s.best) := by
      have : (x :: l).reverse ++ s.best = l.reverse ++ x :: s.best := by simp
      rw [this] at hl
      exact Linked.suffix _ hl
    have hfresh : ∀ y ∈ s.index, y.id ≠ x.id := by
      intro y hy hid
      have hlt := hl'.height_lt y (hib ▸ hy)
      have := hu y (hiU y hy) x (hlU x (by simp)) hid
      rw [this] at hlt; omega
    rw [hbest] at hl'
    obtain ⟨h1, h2, h3, h4⟩ := extend_step hi horph hbest hl'.1 hl'.2.1 hfresh
    have := ih (processBlock s x).1 h2 h3 (by rw [h4, h1, hib])
      (fun y hy => by
        rw [h4] at hy
        rcases List.mem_cons.mp hy with h | h
        · rw [h]; exact hlU x (by simp)
        · exact hiU y h)
      (fun y hy => hlU y (List.mem_cons_of_mem _ hy))
      (by rw [h1]; simpa using hl)
    simp only [deliverAll, List.foldl_cons] at this ⊢
    rw [h1] at this
    exact ⟨by rw [this.1]; simp, by rw [this.2.1]; simp, this.2.2⟩

/-- `isRecordBlockSequence` never changes. -/
theorem recSeq_mainPred (r : Bool) : MainPred (fun s => s.recSeq = r) where
  frame := by intro s s' h e; rw [e.2.2.2.2.2.2.1]; exact h
  conn := by
    intro s b s' h hc
    obtain ⟨_, _, sq, _, _, _, hsq, _, rfl⟩ := connectBlock_ok hc
    rw [← h]; exact (saveSeq_frame hsq).2.2.1
  disc := by
    intro s b s' h hc
    obtain ⟨_, _, sq, _, _, hsq, rfl⟩ := disconnectBlock_ok hc
    rw [← h]; exact (saveSeq_frame hsq).2.2.1

theorem applyAll_recSeq : ∀ (ws : List Write) (d : Disk), (applyAll d ws).recSeq = d.recSeq := by
  intro ws
  induction ws with
  | nil => intro d; rfl
  | cons w ws ih =>
    intro d
    rw [applyAll_cons, ih]
    cases w with
    | store b td => rfl
    | state b => rfl
    | connect b td seq => cases seq <;> rfl
    | disconnect b seq => cases seq <;> rfl


/-- **The recovered node is related to a clean node.**  After ANY crash point of a run over a block
tree (no finaliser: finalised height 0), start-up succeeds and the recovered node is `Rel`-related
to a fresh node that was fed the recovered chain (`path`, bottom first) in order; that clean node
satisfies the tree invariant of C25. -/
theorem resume_rel (ht : Tree g T) (m : Nat) (r : Bool) (ds : List Block) (hds : ∀ b ∈ ds, b ∈ T) (n : Nat) :
    ∃ sr path, recover 0 m r (crash 0 m r g ds n) = some sr ∧ (∀ b ∈ path, b ∈ T) ∧
      Rel g T sr (deliverAll (init 0 m r g) path) ∧ TBase g T 0 (deliverAll (init 0 m r g) path) := by
  obtain ⟨hsim, hcons⟩ := crash_image ht 0 m r ds hds n
  obtain ⟨sr, hrec, e1, e2, e3, e4, e5, e6, e7, e8, _, _, e11, e12, e13, e14⟩ := recover_of_sim 0 m r hsim hcons
  obtain ⟨t, rest, hb⟩ := List.exists_cons_of_ne_nil hcons.linked.ne_nil
  have htU : t ∈ g :: T := (hcons.blocks t (by rw [hb]; simp)).1
  have hchain : chainTo (g :: T) t.height t = t :: rest :=
    chainTo_of_linked ht.uniq rest t (fun y hy => (hcons.blocks y (hb ▸ hy)).1) (hb ▸ hcons.linked)
  obtain ⟨pre, hp, hl, hpre⟩ := path_ends_in_g ht htU
  have hpath : t :: rest = pre ++ [g] := by rw [← hchain]; exact hp
  have hi0 := init_inv 0 m r g ht.gh
  obtain ⟨c1, c2, c3⟩ := deliver_in_order' ht.uniq pre.reverse (init 0 m r g) hi0 rfl rfl
    (fun y hy => by simp [init] at hy; rw [hy]; simp)
    (fun x hx => List.mem_cons_of_mem _ (hpre x (List.mem_reverse.mp hx)))
    (by simpa [init] using hl)
  have hsub : ∀ b ∈ pre.reverse, b ∈ T := fun b hb => hpre b (List.mem_reverse.mp hb)
  have hbase := (deliverAll_run ht 0 m r pre.reverse hsub).base
  have hbestc : (deliverAll (init 0 m r g) pre.reverse).best = t :: rest := by rw [c1, hpath]; simp [init]
  have hidxc : (deliverAll (init 0 m r g) pre.reverse).index = t :: rest := by rw [c2, hpath]; simp [init]
  have hrecN : (stateAt (init 0 m r g) (deliverAllT (init 0 m r g) ds) n).recSeq = r := by
    rw [← hsim.recSeq]
    unfold crash
    rw [applyAll_recSeq]
    rfl
  refine ⟨sr, pre.reverse, hrec, hsub, ?_, hbase⟩
  constructor
  · rw [e12]; have := hbase.finLe; omega
  · rw [e13]; exact ((margin_mainPred m).deliverAll _ _ rfl).symm
  · rw [e14]; exact ((recSeq_mainPred r).deliverAll _ _ rfl).symm
  · rw [e2, hb, hidxc]
  · rw [e3, c3]
  · rw [e1, hb, hbestc]
  · funext h; rw [e6, hcons.h2h h, hbase.inv.h2h h, hb, hbestc]
  · rw [e7, hcons.last t rest hb, hbase.inv.last t rest hbestc]
  · rw [e8, hcons.txv, hbase.txv, hb, hbestc]
  · intro x hx
    rw [e5, hbase.tdEq x hx]
    rw [hidxc] at hx
    exact (hcons.blocks x (hb ▸ hx)).2.2
  · intro x hx
    rw [e4, hbase.inv.stored x hx]
    rw [hidxc] at hx
    exact (hcons.blocks x (hb ▸ hx)).2.1
  · intro i x hx
    rw [e4] at hx; rw [e5]
    exact hcons.storedOk i x hx
  · intro hr
    rw [e11]
    rw [e14] at hr
    exact hcons.seqOk (by rw [hrecN]; exact hr)

end C29
