import Chain33Model.Proofs.C29Inv
import Chain33Model.Proofs.C29Sim
import Chain33Model.Proofs.C25Lift
import Chain33Model.Proofs.C26
/-!
C29, part 5 — lifting principle for write traces: a `MainPred` (a predicate on the main-chain part
of the state that every successful `connectBlock` / `disconnectBlock` preserves — C25Lift) holds in
EVERY state of the write trace of a run, not only after whole deliveries.  Applied to C26's log
invariant it gives: after any crash point the sequence log replays to the recovered chain.
-/
namespace C29
open C25

variable {P : State → Prop}

theorem mp_connectBlockT (hP : MainPred P) {s : State} {b : Block} (h : P s) :
    ∀ e ∈ connectBlockT s b, P e.2 := by
  intro e he
  rcases connectBlockT_mem he with h' | h'
  · rw [h']; exact h
  · exact hP.conn s b e.2 h h'

theorem mp_disconnectBlockT (hP : MainPred P) {s : State} {b : Block} (h : P s) :
    ∀ e ∈ disconnectBlockT s b, P e.2 := by
  intro e he
  exact hP.disc s b e.2 h (disconnectBlockT_mem he)

theorem mp_runStepsT_conn (hP : MainPred P) : ∀ (l : List Block) (s : State), P s →
    ∀ e ∈ runStepsT connectBlock connectBlockT s l, P e.2 := by
  intro l
  induction l with
  | nil => intro s _ e he; simp [runStepsT] at he
  | cons b bs ih =>
    intro s h e he
    simp only [runStepsT] at he
    rcases List.mem_append.mp he with he | he
    · exact mp_connectBlockT hP h e he
    · cases hc : connectBlock s b with
      | ok s' => rw [hc] at he; exact ih s' (hP.conn s b s' h hc) e he
      | error err => rw [hc] at he; cases he

theorem mp_runStepsT_disc (hP : MainPred P) : ∀ (l : List Block) (s : State), P s →
    ∀ e ∈ runStepsT disconnectBlock disconnectBlockT s l, P e.2 := by
  intro l
  induction l with
  | nil => intro s _ e he; simp [runStepsT] at he
  | cons b bs ih =>
    intro s h e he
    simp only [runStepsT] at he
    rcases List.mem_append.mp he with he | he
    · exact mp_disconnectBlockT hP h e he
    · cases hc : disconnectBlock s b with
      | ok s' => rw [hc] at he; exact ih s' (hP.disc s b s' h hc) e he
      | error err => rw [hc] at he; cases he

theorem mp_reorganizeT (hP : MainPred P) (s : State) (d a : List Block) (h : P s) :
    ∀ e ∈ reorganizeT s d a, P e.2 := by
  intro e he
  unfold reorganizeT at he
  split at he
  · cases he
  · rcases List.mem_append.mp he with he | he
    · exact mp_runStepsT_disc hP d s h e he
    · have h1 := hP.runSteps_disc d s h
      cases hr : runSteps disconnectBlock s d with
      | mk s1 oe =>
        rw [hr] at he h1
        cases oe with
        | some err => cases he
        | none => exact mp_runStepsT_conn hP a s1 h1 e he

theorem mp_reorgToT (hP : MainPred P) (s : State) (b : Block) (f : Option Block) (h : P s) :
    ∀ e ∈ reorgToT s b f, P e.2 := by
  unfold reorgToT
  exact mp_reorganizeT hP _ _ _ (hP.frame s _ h (sameMain_resetFin s f))

theorem mp_connectBestChainT (hP : MainPred P) (s : State) (b : Block) (h : P s) :
    ∀ e ∈ connectBestChainT s b, P e.2 := by
  intro e he
  unfold connectBestChainT at he
  split at he
  · cases he
  · split at he
    · exact mp_connectBlockT hP h e he
    · split at he
      · cases he
      · split at he
        · cases he
        · split at he
          · cases he
          · split at he
            · cases he
            · exact mp_reorgToT hP s b _ h e he

theorem mp_maybeAcceptBlockT (hP : MainPred P) (s : State) (b : Block) (h : P s) :
    ∀ e ∈ maybeAcceptBlockT s b, P e.2 := by
  intro e he
  unfold maybeAcceptBlockT at he
  split at he
  · cases he
  · split at he
    · cases he
    · split at he
      · cases he
      · rename_i s1 hs1
        have h1 : P s1 := hP.frame s s1 h (sameMain_storeBlock hs1)
        rcases List.mem_append.mp he with he | he
        · have := storeBlockT_mem he
          rw [hs1] at this
          cases this
          exact h1
        · exact mp_connectBestChainT hP _ b (hP.frame _ _ h1 (sameMain_addIndex s1 b)) e he

theorem mp_processOrphansT (hP : MainPred P) : ∀ (fuel : Nat) (q : List Nat) (s : State), P s →
    ∀ e ∈ processOrphansT fuel q s, P e.2 := by
  intro fuel
  induction fuel with
  | zero => intro q s _ e he; simp [processOrphansT] at he
  | succ n ih =>
    intro q s h e he
    cases q with
    | nil => simp [processOrphansT] at he
    | cons hd rest =>
      simp only [processOrphansT] at he
      cases ho : s.orphans.find? (fun o => o.parent == hd) with
      | none => rw [ho] at he; exact ih rest s h e he
      | some o =>
        rw [ho] at he
        dsimp only at he
        have h0 : P (dropOrphan s o.id) := hP.frame s _ h (sameMain_dropOrphan s o.id)
        have h2 := hP.maybeAcceptBlock _ o h0
        rcases List.mem_append.mp he with he | he
        · exact mp_maybeAcceptBlockT hP _ o h0 e he
        · cases hacc : maybeAcceptBlock (dropOrphan s o.id) o with
          | mk s2 r =>
            rw [hacc] at he h2
            cases r with
            | err er => cases he
            | main => exact ih _ s2 h2 e he
            | side => exact ih _ s2 h2 e he
            | orphan => exact ih _ s2 h2 e he

theorem mp_acceptAndDrainT (hP : MainPred P) (s : State) (b : Block) (h : P s) :
    ∀ e ∈ acceptAndDrainT s b, P e.2 := by
  intro e he
  unfold acceptAndDrainT at he
  have h2 := hP.maybeAcceptBlock s b h
  rcases List.mem_append.mp he with he | he
  · exact mp_maybeAcceptBlockT hP s b h e he
  · cases hacc : maybeAcceptBlock s b with
    | mk s1 r =>
      rw [hacc] at he h2
      cases r with
      | err er => cases he
      | main => exact mp_processOrphansT hP _ _ s1 h2 e he
      | side => exact mp_processOrphansT hP _ _ s1 h2 e he
      | orphan => exact mp_processOrphansT hP _ _ s1 h2 e he

theorem mp_processBlockT (hP : MainPred P) (s : State) (b : Block) (h : P s) :
    ∀ e ∈ processBlockT s b, P e.2 := by
  intro e he
  unfold processBlockT at he
  split at he
  · cases he
  · split at he
    · cases he
    · split at he
      · cases he
      · exact mp_acceptAndDrainT hP _ b (hP.frame s _ h (sameMain_unorphan s b)) e he

/-- **Lifting to traces**: a `MainPred` that holds at the start holds in every state of the write
trace of any delivery history. -/
theorem mp_deliverAllT (hP : MainPred P) : ∀ (ds : List Block) (s : State), P s →
    ∀ e ∈ deliverAllT s ds, P e.2 := by
  intro ds
  induction ds with
  | nil => intro s _ e he; simp [deliverAllT] at he
  | cons b bs ih =>
    intro s h e he
    simp only [deliverAllT] at he
    rcases List.mem_append.mp he with he | he
    · exact mp_processBlockT hP s b h e he
    · exact ih _ (hP.processBlock s b h) e he

/-- … hence in the state right after the `n`-th write, for every `n`. -/
theorem mp_stateAt (hP : MainPred P) (ds : List Block) (s : State) (h : P s) (n : Nat) :
    P (stateAt s (deliverAllT s ds) n) := by
  unfold stateAt
  cases hl : ((deliverAllT s ds).take n).getLast? with
  | none => exact h
  | some e =>
    exact mp_deliverAllT hP ds s h e (List.mem_of_mem_take (List.mem_of_getLast? hl))

/-- the sequence log of the state after any write replays to that state's best chain, numbers are
consecutive from 0. -/
theorem seq_stateAt (F m : Nat) (g : Block) (ds : List Block) (n : Nat) :
    let s := stateAt (init F m true g) (deliverAllT (init F m true g) ds) n
    C26.replay (seqLog s) = some (s.best.map (·.id)) ∧ 0 ≤ s.lastSeq ∧
      ∀ i : Nat, (s.seqTab i).isSome ↔ (i : Int) ≤ s.lastSeq := by
  intro s
  have h := mp_stateAt (C26.logInv_mainPred _ (C26.init_lastSeq_ge F m true g)) ds _
    (C26.logInv_init F m true g) n
  have hrec : s.recSeq = true := mp_stateAt (C26.recSeq_mainPred true) ds _ rfl n
  exact ⟨h.2.2 hrec, h.1.2.2 hrec, h.1.2.1⟩

end C29
