import Chain33Model.Model.C29
import Chain33Model.Proofs.C25Basic
/-!
C29, part 1 — the write trace is faithful to the chain model.

`Sim d s`: the disk `d` is the durable image of the in-memory node state `s` (same chain tables;
the state tree of every best-chain block is in the store).  `Ok d tr s'`: starting from `d`, after
EVERY entry `(w, s₁)` of the trace the disk is the image of `s₁`, and after the whole trace it is
the image of `s'`.  One lemma per `…T` function; no invariant of the chain model is needed — the
facts used are the very checks the code makes (`parent = tip` before `ExecBlock`, …).
-/
namespace C29
open C25

structure Sim (d : Disk) (s : State) : Prop where
  stored : d.stored = s.stored
  tds : d.tds = s.tds
  h2h : d.h2h = s.h2h
  last : d.last = s.last
  seqTab : d.seqTab = s.seqTab
  hashSeq : d.hashSeq = s.hashSeq
  lastSeq : d.lastSeq = s.lastSeq
  txIdx : d.txIdx = s.txIdx
  roots : ∀ x ∈ s.best, d.roots x.id = true
  recSeq : d.recSeq = s.recSeq

/-- `s'` has the same durable tables and the same best chain as `s`. -/
structure SameDur (s s' : State) : Prop where
  stored : s'.stored = s.stored
  tds : s'.tds = s.tds
  h2h : s'.h2h = s.h2h
  last : s'.last = s.last
  seqTab : s'.seqTab = s.seqTab
  hashSeq : s'.hashSeq = s.hashSeq
  lastSeq : s'.lastSeq = s.lastSeq
  txIdx : s'.txIdx = s.txIdx
  best : s'.best = s.best
  recSeq : s'.recSeq = s.recSeq

theorem SameDur.refl (s : State) : SameDur s s := ⟨rfl, rfl, rfl, rfl, rfl, rfl, rfl, rfl, rfl, rfl⟩

theorem Sim.frame {d : Disk} {s s' : State} (h : Sim d s) (e : SameDur s s') : Sim d s' :=
  ⟨h.stored.trans e.stored.symm, h.tds.trans e.tds.symm, h.h2h.trans e.h2h.symm, h.last.trans e.last.symm,
   h.seqTab.trans e.seqTab.symm, h.hashSeq.trans e.hashSeq.symm, h.lastSeq.trans e.lastSeq.symm,
   h.txIdx.trans e.txIdx.symm, fun x hx => h.roots x (e.best ▸ hx), h.recSeq.trans e.recSeq.symm⟩

def writes (tr : Trace) : List Write := tr.map (·.1)

@[simp] theorem writes_nil : writes [] = [] := rfl
@[simp] theorem writes_cons (e : Write × State) (tr : Trace) : writes (e :: tr) = e.1 :: writes tr := rfl
@[simp] theorem writes_append (a b : Trace) : writes (a ++ b) = writes a ++ writes b := by
  simp [writes]

@[simp] theorem applyAll_nil (d : Disk) : applyAll d [] = d := rfl
@[simp] theorem applyAll_cons (d : Disk) (w : Write) (ws : List Write) :
    applyAll d (w :: ws) = applyAll (apply d w) ws := rfl
theorem applyAll_append (d : Disk) (a b : List Write) : applyAll d (a ++ b) = applyAll (applyAll d a) b := by
  simp [applyAll, List.foldl_append]

/-- after every entry the disk is the image of the entry's state. -/
def Follows : Disk → Trace → Prop
  | _, [] => True
  | d, e :: tr => Sim (apply d e.1) e.2 ∧ Follows (apply d e.1) tr

theorem Follows.append : ∀ {t1 : Trace} {d : Disk} {t2 : Trace}, Follows d t1 →
    Follows (applyAll d (writes t1)) t2 → Follows d (t1 ++ t2) := by
  intro t1
  induction t1 with
  | nil => intro d t2 _ h; simpa using h
  | cons e t1 ih =>
    intro d t2 h1 h2
    exact ⟨h1.1, ih h1.2 (by simpa using h2)⟩

structure Ok (d : Disk) (tr : Trace) (s' : State) : Prop where
  follows : Follows d tr
  final : Sim (applyAll d (writes tr)) s'

theorem Ok.nil {d : Disk} {s' : State} (h : Sim d s') : Ok d [] s' := ⟨trivial, h⟩

theorem Ok.append {d : Disk} {t1 t2 : Trace} {s1 s2 : State} (h1 : Ok d t1 s1)
    (h2 : Ok (applyAll d (writes t1)) t2 s2) : Ok d (t1 ++ t2) s2 :=
  ⟨h1.follows.append h2.follows, by rw [writes_append, applyAll_append]; exact h2.final⟩

theorem Ok.frame {d : Disk} {tr : Trace} {s s' : State} (h : Ok d tr s) (e : SameDur s s') : Ok d tr s' :=
  ⟨h.follows, h.final.frame e⟩

/-- result state of an `Except` step, keeping the old state on error (as `runSteps` does). -/
def orElse (r : Except Err State) (s : State) : State :=
  match r with
  | .ok s' => s'
  | .error _ => s

theorem sim_state {d : Disk} {s : State} {b tip : Block} {rest : List Block} (h : Sim d s)
    (hb : s.best = tip :: rest) (hp : b.parent = tip.id) : Sim (apply d (.state b)) s := by
  refine ⟨h.stored, h.tds, h.h2h, h.last, h.seqTab, h.hashSeq, h.lastSeq, h.txIdx, ?_, h.recSeq⟩
  intro x hx
  show setRoot d.roots b.id (d.roots b.parent) x.id = true
  unfold setRoot
  split
  · rw [hp]; exact h.roots tip (by rw [hb]; simp)
  · exact h.roots x hx

theorem root_state {d : Disk} {s : State} {b tip : Block} {rest : List Block} (h : Sim d s)
    (hb : s.best = tip :: rest) (hp : b.parent = tip.id) : (apply d (.state b)).roots b.id = true := by
  show setRoot d.roots b.id (d.roots b.parent) b.id = true
  unfold setRoot
  rw [if_pos rfl, hp]
  exact h.roots tip (by rw [hb]; simp)

theorem sim_connect {d : Disk} {s s1 : State} {b : Block} {ptd : Nat} (h : Sim d s)
    (hroot : d.roots b.id = true) (hc : connectBlock s b = .ok s1) (hptd : s.tds b.parent = some ptd) :
    Sim (apply d (.connect b (b.diff + ptd) (nextSeq s))) s1 := by
  obtain ⟨tip, rest, sq, ptd', hbest, _, hsq, hptd', hs1⟩ := connectBlock_ok hc
  rw [hptd] at hptd'
  cases hptd'
  have hroots : ∀ x ∈ s1.best, d.roots x.id = true := by
    intro x hx
    rw [hs1] at hx
    rcases List.mem_cons.mp hx with rfl | hx
    · exact hroot
    · exact h.roots x hx
  rcases saveSeq_ok hsq with ⟨hr, hsq'⟩ | ⟨hr, _, hsq'⟩
  · have hn : nextSeq s = none := by simp [nextSeq, hr]
    rw [hn, hs1, hsq']
    exact ⟨by simp [apply, applySeq, h.stored], by simp [apply, applySeq, h.tds], by simp [apply, applySeq, h.h2h],
      by simp [apply, applySeq], by simp [apply, applySeq, h.seqTab], by simp [apply, applySeq, h.hashSeq],
      by simp [apply, applySeq, h.lastSeq], by simp [apply, applySeq, h.txIdx],
      by simpa [apply, applySeq, hs1] using hroots, by simp [apply, applySeq, h.recSeq]⟩
  · have hn : nextSeq s = some (s.lastSeq + 1) := by simp [nextSeq, hr]
    rw [hn, hs1, hsq']
    exact ⟨by simp [apply, applySeq, seqAfter, h.stored], by simp [apply, applySeq, seqAfter, h.tds],
      by simp [apply, applySeq, seqAfter, h.h2h], by simp [apply, applySeq, seqAfter],
      by simp [apply, applySeq, seqAfter, h.seqTab], by simp [apply, applySeq, seqAfter, h.hashSeq],
      by simp [apply, applySeq, seqAfter], by simp [apply, applySeq, seqAfter, h.txIdx],
      by simpa [apply, applySeq, seqAfter, hs1] using hroots, by simp [apply, applySeq, seqAfter, h.recSeq]⟩

theorem sim_disconnect {d : Disk} {s s1 : State} {b : Block} (h : Sim d s)
    (hc : disconnectBlock s b = .ok s1) : Sim (apply d (.disconnect b (nextSeq s))) s1 := by
  obtain ⟨tip, rest, sq, hbest, _, hsq, hs1⟩ := disconnectBlock_ok hc
  have hroots : ∀ x ∈ s1.best, d.roots x.id = true := by
    intro x hx
    rw [hs1] at hx
    exact h.roots x (by rw [hbest]; exact List.mem_cons_of_mem _ hx)
  rcases saveSeq_ok hsq with ⟨hr, hsq'⟩ | ⟨hr, _, hsq'⟩
  · have hn : nextSeq s = none := by simp [nextSeq, hr]
    rw [hn, hs1, hsq']
    exact ⟨by simp [apply, applySeq, h.stored], by simp [apply, applySeq, h.tds], by simp [apply, applySeq, h.h2h],
      by simp [apply, applySeq], by simp [apply, applySeq, h.seqTab], by simp [apply, applySeq, h.hashSeq],
      by simp [apply, applySeq, h.lastSeq], by simp [apply, applySeq, h.txIdx],
      by simpa [apply, applySeq, hs1] using hroots, by simp [apply, applySeq, h.recSeq]⟩
  · have hn : nextSeq s = some (s.lastSeq + 1) := by simp [nextSeq, hr]
    rw [hn, hs1, hsq']
    exact ⟨by simp [apply, applySeq, seqAfter, h.stored], by simp [apply, applySeq, seqAfter, h.tds],
      by simp [apply, applySeq, seqAfter, h.h2h], by simp [apply, applySeq, seqAfter],
      by simp [apply, applySeq, seqAfter, h.seqTab], by simp [apply, applySeq, seqAfter, h.hashSeq],
      by simp [apply, applySeq, seqAfter], by simp [apply, applySeq, seqAfter, h.txIdx],
      by simpa [apply, applySeq, seqAfter, hs1] using hroots, by simp [apply, applySeq, seqAfter, h.recSeq]⟩

theorem connectBlockT_ok {d : Disk} {s : State} (b : Block) (h : Sim d s) :
    Ok d (connectBlockT s b) (orElse (connectBlock s b) s) := by
  unfold connectBlockT
  cases hbest : s.best with
  | nil =>
    have : connectBlock s b = .error .panic := by simp [connectBlock, hbest]
    simpa [this, orElse] using Ok.nil h
  | cons tip rest =>
    by_cases hp : b.parent = tip.id
    · simp only [hp, ne_eq, not_true_eq_false, if_false]
      have h1 := sim_state (b := b) h hbest hp
      have hr := root_state (b := b) h hbest hp
      cases hc : connectBlock s b with
      | error e =>
        refine ⟨⟨h1, trivial⟩, ?_⟩
        simpa [orElse] using h1
      | ok s1 =>
        obtain ⟨_, _, _, ptd, _, _, _, hptd, _⟩ := connectBlock_ok hc
        rw [← hp, hptd]
        have h2 := sim_connect h1 hr hc hptd
        refine ⟨⟨h1, h2, trivial⟩, ?_⟩
        simpa [orElse] using h2
    · have : connectBlock s b = .error .hashNoMatch := by simp [connectBlock, hbest, hp]
      simpa [hp, this, orElse] using Ok.nil h

theorem disconnectBlockT_ok {d : Disk} {s : State} (b : Block) (h : Sim d s) :
    Ok d (disconnectBlockT s b) (orElse (disconnectBlock s b) s) := by
  unfold disconnectBlockT
  cases hc : disconnectBlock s b with
  | error e => simpa [orElse] using Ok.nil h
  | ok s1 =>
    have h2 := sim_disconnect h hc
    refine ⟨⟨h2, trivial⟩, ?_⟩
    simpa [orElse] using h2

theorem runStepsT_ok {f : State → Block → Except Err State} {fT : State → Block → Trace}
    (hf : ∀ (d : Disk) (s : State) (b : Block), Sim d s → Ok d (fT s b) (orElse (f s b) s)) :
    ∀ (l : List Block) (d : Disk) (s : State), Sim d s → Ok d (runStepsT f fT s l) (runSteps f s l).1 := by
  intro l
  induction l with
  | nil => intro d s h; simpa [runStepsT, runSteps] using Ok.nil h
  | cons b bs ih =>
    intro d s h
    have h1 := hf d s b h
    simp only [runStepsT, runSteps]
    cases hc : f s b with
    | ok s' =>
      rw [hc] at h1
      exact h1.append (ih _ s' h1.final)
    | error e =>
      rw [hc] at h1
      simpa [orElse] using h1

theorem reorganizeT_ok {d : Disk} {s : State} (det att : List Block) (h : Sim d s) :
    Ok d (reorganizeT s det att) (reorganize s det att).1 := by
  unfold reorganizeT reorganize
  by_cases hall : (det ++ att).all (fun n => (s.stored n.id).isSome) = true
  · simp only [hall, Bool.not_true, Bool.false_eq_true, if_false]
    have h1 := runStepsT_ok (fun d s b => disconnectBlockT_ok b) det d s h
    cases hr : runSteps disconnectBlock s det with
    | mk s1 oe =>
      rw [hr] at h1
      cases oe with
      | some e => simpa using h1
      | none =>
        have h2 := runStepsT_ok (fun d s b => connectBlockT_ok b) att _ s1 h1.final
        exact h1.append h2
  · simp only [hall, Bool.not_false, if_true]
    exact Ok.nil h

theorem sameDur_resetFin (s : State) (f : Option Block) : SameDur s (resetFin s f) := by
  unfold resetFin
  split
  · split
    · exact ⟨rfl, rfl, rfl, rfl, rfl, rfl, rfl, rfl, rfl, rfl⟩
    · exact SameDur.refl s
  · exact SameDur.refl s

theorem reorgToT_ok {d : Disk} {s : State} (b : Block) (fork : Option Block) (h : Sim d s) :
    Ok d (reorgToT s b fork) (reorgTo s b fork).1 := by
  have h1 := reorganizeT_ok (getReorganizeNodes (resetFin s fork) b fork).1
    (getReorganizeNodes (resetFin s fork) b fork).2 (h.frame (sameDur_resetFin s fork))
  have e : (reorgTo s b fork).1 = (reorganize (resetFin s fork) (getReorganizeNodes (resetFin s fork) b fork).1
      (getReorganizeNodes (resetFin s fork) b fork).2).1 := by
    unfold reorgTo
    dsimp only
    split <;> (rename_i heq; rw [heq])
  rw [e]
  exact h1

theorem connectBestChainT_ok {d : Disk} {s : State} (b : Block) (h : Sim d s) :
    Ok d (connectBestChainT s b) (connectBestChain s b).1 := by
  have h1 := connectBlockT_ok b h
  unfold connectBestChainT connectBestChain
  cases hbest : s.best with
  | nil => exact Ok.nil h
  | cons tip rest =>
    dsimp only
    by_cases hp : b.parent = tip.id
    · simp only [hp, if_true]
      cases hc : connectBlock s b with
      | ok s1 => rw [hc] at h1; simpa [orElse, hp] using h1
      | error e => rw [hc] at h1; simpa [orElse, hp] using h1
    · simp only [hp, if_false]
      cases htt : s.tds tip.id with
      | none => exact Ok.nil h
      | some tiptd =>
        dsimp only
        cases hpt : s.tds b.parent with
        | none => exact Ok.nil h
        | some ptd =>
          dsimp only
          cases hff : findFork s b with
          | none => exact Ok.nil h
          | some f =>
            dsimp only
            by_cases hside : b.diff + ptd ≤ tiptd ∨ b.height < s.fin + s.margin
            · simp only [hside, if_true]
              exact Ok.nil h
            · simp only [hside, if_false]
              exact reorgToT_ok b _ h

theorem storeBlockT_ok {d : Disk} {s s1 : State} (b : Block) (h : Sim d s) (hs : storeBlock s b = some s1) :
    Ok d (storeBlockT s b) s1 := by
  unfold storeBlockT
  by_cases hsome : (s.stored b.id).isSome = true
  · have : s1 = s := by
      unfold storeBlock at hs
      simp only [hsome, if_true] at hs
      exact (Option.some.inj hs).symm
    rw [this]
    simpa [hsome] using Ok.nil h
  · simp only [hsome, Bool.false_eq_true, if_false]
    cases hptd : s.tds b.parent with
    | none =>
      unfold storeBlock at hs
      simp [hsome, hptd] at hs
    | some ptd =>
      have hst : storeBlock s b = some { s with stored := upd s.stored b.id (some b), tds := upd s.tds b.id (some (b.diff + ptd)) } := by
        simp [storeBlock, hsome, hptd]
      have e : s1 = { s with stored := upd s.stored b.id (some b), tds := upd s.tds b.id (some (b.diff + ptd)) } := by
        rw [hst] at hs; exact (Option.some.inj hs).symm
      rw [hst]
      dsimp only
      have h2 : Sim (apply d (.store b (b.diff + ptd))) s1 := by
        rw [e]
        exact ⟨by simp [apply, h.stored], by simp [apply, h.tds], h.h2h, h.last, h.seqTab, h.hashSeq, h.lastSeq,
          h.txIdx, h.roots, h.recSeq⟩
      rw [← e]
      exact ⟨⟨h2, trivial⟩, h2⟩

theorem sameDur_addIndex (s : State) (b : Block) : SameDur s (addIndex s b) :=
  ⟨rfl, rfl, rfl, rfl, rfl, rfl, rfl, rfl, rfl, rfl⟩

theorem sameDur_dropOrphan (s : State) (id : Nat) : SameDur s (dropOrphan s id) :=
  ⟨rfl, rfl, rfl, rfl, rfl, rfl, rfl, rfl, rfl, rfl⟩

theorem sameDur_addOrphan (s : State) (b : Block) : SameDur s (addOrphan s b) :=
  ⟨rfl, rfl, rfl, rfl, rfl, rfl, rfl, rfl, rfl, rfl⟩

theorem sameDur_unorphan (s : State) (b : Block) : SameDur s (unorphan s b) := by
  unfold unorphan
  split
  · exact sameDur_dropOrphan s b.id
  · exact SameDur.refl s

theorem maybeAcceptBlockT_ok {d : Disk} {s : State} (b : Block) (h : Sim d s) :
    Ok d (maybeAcceptBlockT s b) (maybeAcceptBlock s b).1 := by
  unfold maybeAcceptBlockT maybeAcceptBlock
  cases hl : lookup s.index b.parent with
  | none => exact Ok.nil h
  | some p =>
    dsimp only
    by_cases hh : b.height = p.height + 1
    · simp only [hh, ne_eq, not_true_eq_false, if_false]
      cases hs1 : storeBlock s b with
      | none => exact Ok.nil h
      | some s1 =>
        dsimp only
        have h1 := storeBlockT_ok b h hs1
        exact h1.append (connectBestChainT_ok b (h1.final.frame (sameDur_addIndex s1 b)))
    · simp only [hh, ne_eq, not_false_eq_true, if_true]
      exact Ok.nil h

theorem processOrphansT_ok : ∀ (fuel : Nat) (q : List Nat) (d : Disk) (s : State), Sim d s →
    Ok d (processOrphansT fuel q s) (processOrphans fuel q s).1 := by
  intro fuel
  induction fuel with
  | zero => intro q d s h; simpa [processOrphansT, processOrphans] using Ok.nil h
  | succ n ih =>
    intro q d s h
    cases q with
    | nil => simpa [processOrphansT, processOrphans] using Ok.nil h
    | cons hd rest =>
      simp only [processOrphansT, processOrphans]
      cases ho : s.orphans.find? (fun o => o.parent == hd) with
      | none => exact ih rest d s h
      | some o =>
        dsimp only
        have h1 := maybeAcceptBlockT_ok o (h.frame (sameDur_dropOrphan s o.id))
        cases hacc : maybeAcceptBlock (dropOrphan s o.id) o with
        | mk s2 r =>
          rw [hacc] at h1
          cases r with
          | err e => simpa using h1
          | main => exact h1.append (ih _ _ s2 h1.final)
          | side => exact h1.append (ih _ _ s2 h1.final)
          | orphan => exact h1.append (ih _ _ s2 h1.final)

theorem acceptAndDrainT_ok {d : Disk} {s : State} (b : Block) (h : Sim d s) :
    Ok d (acceptAndDrainT s b) (acceptAndDrain s b).1 := by
  unfold acceptAndDrainT acceptAndDrain
  have h1 := maybeAcceptBlockT_ok b h
  cases hacc : maybeAcceptBlock s b with
  | mk s1 r =>
    rw [hacc] at h1
    have h2 := processOrphansT_ok (orphanFuel s1) [b.id] _ s1 h1.final
    have h3 := h1.append h2
    cases r with
    | err e => simpa using h1
    | main => dsimp only; split <;> (rename_i heq2; rw [heq2] at h3; exact h3)
    | side => dsimp only; split <;> (rename_i heq2; rw [heq2] at h3; exact h3)
    | orphan => dsimp only; split <;> (rename_i heq2; rw [heq2] at h3; exact h3)

theorem processBlockT_ok {d : Disk} {s : State} (b : Block) (h : Sim d s) :
    Ok d (processBlockT s b) (processBlock s b).1 := by
  unfold processBlockT processBlock
  have h0 : Sim d (unorphan s b) := h.frame (sameDur_unorphan s b)
  by_cases h1 : haveBlock s b.id = true
  · simp only [h1, if_true]; exact Ok.nil h
  · simp only [h1, Bool.false_eq_true, if_false]
    by_cases h2 : isKnownOrphan s b.id = true ∧ (!haveBlock s b.parent) = true
    · simp only [h2, and_self, if_true]; exact Ok.nil h
    · simp only [h2, if_false]
      by_cases h3 : (!haveBlock (unorphan s b) b.parent) = true
      · simp only [h3, if_true]; exact Ok.nil (h0.frame (sameDur_addOrphan _ b))
      · simp only [h3, Bool.false_eq_true, if_false]; exact acceptAndDrainT_ok b h0

theorem deliverAllT_ok : ∀ (ds : List Block) (d : Disk) (s : State), Sim d s →
    Ok d (deliverAllT s ds) (deliverAll s ds) := by
  intro ds
  induction ds with
  | nil => intro d s h; simpa [deliverAllT, deliverAll] using Ok.nil h
  | cons b bs ih =>
    intro d s h
    have h1 := processBlockT_ok b h
    simp only [deliverAllT, deliverAll, List.foldl_cons]
    exact h1.append (ih _ _ h1.final)

/-- the in-memory state right after the `n`-th write of a trace that started in `s`. -/
def stateAt (s : State) (tr : Trace) (n : Nat) : State :=
  match (tr.take n).getLast? with
  | none => s
  | some e => e.2

theorem follows_take : ∀ (tr : Trace) (d : Disk) (s : State), Sim d s → Follows d tr → ∀ n,
    Sim (applyAll d ((writes tr).take n)) (stateAt s tr n) := by
  intro tr
  induction tr with
  | nil => intro d s h _ n; simpa [stateAt] using h
  | cons e tr ih =>
    intro d s h hf n
    cases n with
    | zero => simpa [stateAt] using h
    | succ n =>
      have := ih (apply d e.1) e.2 hf.1 hf.2 n
      simp only [writes_cons, List.take_succ_cons, applyAll_cons]
      have hst : stateAt s (e :: tr) (n + 1) = stateAt e.2 tr n := by
        unfold stateAt
        simp only [List.take_succ_cons]
        cases htk : tr.take n with
        | nil => simp
        | cons a l =>
          rw [List.getLast?_cons_cons]
          cases hg : (a :: l).getLast? with
          | none => simp at hg
          | some x => rfl
      rw [hst]
      exact this

end C29
