import Chain33Model.Model.C29
/-!
C29 — concrete witnesses used by the refutations in `Props/C29.lean`.

`tie…`: genesis 0; blocks 1, 2 on genesis (work 1 each); 3 (work 1) and 4 (work 2) on block 1;
5 (work 1) on block 3.  Total difficulties above genesis: 1, 1, 2, 3, 3 — blocks 4 and 5 TIE at
the top.  History 5, 3, 2, 4, 1 (margin 1, no sequence recording): 5 and 3 wait as orphans, 2 is
connected, 4 waits, then 1 arrives and `ProcessOrphans` takes its children in arrival order
(3: reorganise to 0–1–3; 4: heavier, reorganise to 0–1–4), then 5 only ties: final chain 0–1–4.
The writes are `B2 S2 C2 B1 B3 D2 S1 C1 S3 C3 B4 D3 S4 C4 B5`.

`sfx…`: blocks 1, 2 on genesis (work 1 each), 3 (work 2) on block 2; history 1, 2, 3.
-/
namespace C29
open C25

def tieG : Block := ⟨0, 0, 0, 5, []⟩
def tieT : List Block :=
  [⟨1, 0, 1, 1, []⟩, ⟨2, 0, 1, 1, []⟩, ⟨3, 1, 2, 1, []⟩, ⟨4, 1, 2, 2, []⟩, ⟨5, 3, 3, 1, []⟩]
def tieDs : List Block :=
  [⟨5, 3, 3, 1, []⟩, ⟨3, 1, 2, 1, []⟩, ⟨2, 0, 1, 1, []⟩, ⟨4, 1, 2, 2, []⟩, ⟨1, 0, 1, 1, []⟩]

def sfxG : Block := ⟨0, 0, 0, 5, []⟩
def sfxT : List Block := [⟨1, 0, 1, 1, []⟩, ⟨2, 0, 1, 1, []⟩, ⟨3, 2, 2, 2, []⟩]

end C29
