import Chain33Model.Model.C30
/-!
C30 — helper lemmas about `addTxs`, `varintLen`, `markExpired` (core Lean only).
-/
namespace C30

/-! ### count -/

theorem addTxs_count_le (active : Bool) (maxTx : Int) (bound : Nat) (count : Int) (size : Nat)
    (pool : List Entry) (h : count ≤ maxTx) :
    count + (addTxs active maxTx bound count size pool).length ≤ maxTx := by
  fun_induction addTxs active maxTx bound count size pool with
  | case1 => simpa using h
  | case2 _ _ _ ih => exact ih h
  | case3 _ _ _ _ _ ih => exact ih h
  | case4 => simpa using h
  | case5 => simpa using h
  | case6 count size t rest _ h1 _ ih =>
    have := ih (by omega)
    simp only [List.length_cons]; omega
  | case7 _ _ _ _ _ ih => exact ih h
  | case8 => simpa using h
  | case9 => simpa using h
  | case10 count size ts rest _ h1 _ ih =>
    have := ih (by omega)
    simp only [List.length_append]; omega

theorem addTxs_nil_of_count_gt (active : Bool) (maxTx : Int) (bound : Nat) (count : Int) (size : Nat)
    (pool : List Entry) (h : maxTx < count) :
    addTxs active maxTx bound count size pool = [] := by
  fun_induction addTxs active maxTx bound count size pool with
  | case1 => rfl
  | case2 _ _ _ ih => exact ih h
  | case3 _ _ _ _ _ ih => exact ih h
  | case4 => rfl
  | case5 => rfl
  | case6 count size t rest _ h1 _ ih => omega
  | case7 _ _ _ _ _ ih => exact ih h
  | case8 => rfl
  | case9 => rfl
  | case10 count size ts rest _ h1 _ ih => omega

/-! ### size -/

theorem sizeSum_append (a b : List Tx) : sizeSum (a ++ b) = sizeSum a + sizeSum b := by
  simp [sizeSum]

theorem sizeSum_cons (t : Tx) (b : List Tx) : sizeSum (t :: b) = t.size + sizeSum b := by
  simp [sizeSum]

theorem addTxs_size_le (active : Bool) (maxTx : Int) (bound : Nat) (count : Int) (size : Nat)
    (pool : List Entry) (h : size ≤ bound) :
    size + sizeSum (addTxs active maxTx bound count size pool) ≤ bound := by
  fun_induction addTxs active maxTx bound count size pool with
  | case1 => simpa [sizeSum] using h
  | case2 _ _ _ ih => exact ih h
  | case3 _ _ _ _ _ ih => exact ih h
  | case4 => simpa [sizeSum] using h
  | case5 => simpa [sizeSum] using h
  | case6 count size t rest _ _ h2 ih =>
    have := ih (by omega)
    rw [sizeSum_cons]; omega
  | case7 _ _ _ _ _ ih => exact ih h
  | case8 => simpa [sizeSum] using h
  | case9 => simpa [sizeSum] using h
  | case10 count size ts rest _ _ h2 ih =>
    have := ih (by omega)
    rw [sizeSum_append]; omega

theorem addTxs_nil_of_size_gt (active : Bool) (maxTx : Int) (bound : Nat) (count : Int) (size : Nat)
    (pool : List Entry) (h : bound < size) :
    addTxs active maxTx bound count size pool = [] := by
  fun_induction addTxs active maxTx bound count size pool with
  | case1 => rfl
  | case2 _ _ _ ih => exact ih h
  | case3 _ _ _ _ _ ih => exact ih h
  | case4 => rfl
  | case5 => rfl
  | case6 count size t rest _ _ h2 ih => omega
  | case7 _ _ _ _ _ ih => exact ih h
  | case8 => rfl
  | case9 => rfl
  | case10 count size ts rest _ _ h2 ih => omega

/-! ### encoded size -/

theorem varintLen_le (k : Nat) : ∀ n, n < 128 ^ (k + 1) → varintLen n ≤ k + 1 := by
  induction k with
  | zero => intro n h; unfold varintLen; simp at h; simp [h]
  | succ k ih =>
    intro n h
    unfold varintLen
    split
    · omega
    · have : n / 128 < 128 ^ (k + 1) := by
        rw [Nat.div_lt_iff_lt_mul (by decide)]
        calc n < 128 ^ (k + 1 + 1) := h
          _ = 128 ^ (k + 1) * 128 := by rw [Nat.pow_succ]
      have := ih _ this
      omega

theorem framed_le (s : Nat) (h : s < 2 ^ 28) : framed s ≤ s + 5 := by
  have : varintLen s ≤ 4 := varintLen_le 3 s (by simpa using h)
  unfold framed; omega

theorem mem_size_le_sizeSum {t : Tx} {ts : List Tx} (h : t ∈ ts) : t.size ≤ sizeSum ts := by
  induction ts with
  | nil => cases h
  | cons a rest ih =>
    rw [sizeSum_cons]
    cases h with
    | head => omega
    | tail _ h => have := ih h; omega

theorem encodedGrowth_le (ts : List Tx) (h : ∀ t ∈ ts, t.size < 2 ^ 28) :
    encodedGrowth ts ≤ sizeSum ts + 5 * ts.length := by
  induction ts with
  | nil => simp [encodedGrowth, sizeSum]
  | cons a rest ih =>
    have h1 := framed_le a.size (h a (by simp))
    have h2 := ih (fun t ht => h t (by simp [ht]))
    simp only [encodedGrowth, sizeSum, List.map_cons, List.sum_cons, List.length_cons] at *
    omega

theorem addTxs_replicate (maxTx : Int) (bound : Nat) (t : Tx) (hb : t.blocked = false) :
    ∀ (n : Nat) (count : Int) (size : Nat), count + n ≤ maxTx → size + n * t.size ≤ bound →
      addTxs true maxTx bound count size (List.replicate n (.single t)) = List.replicate n t := by
  intro n
  induction n with
  | zero => intro count size _ _; rfl
  | succ k ih =>
    intro count size hc hs
    rw [List.replicate_succ, addTxs]
    have h1 : ¬ count + 1 > maxTx := by omega
    have h2 : ¬ size + t.size > bound := by
      have : (k + 1) * t.size = k * t.size + t.size := by rw [Nat.add_mul]; simp
      omega
    simp only [hb, Bool.and_false, Bool.false_eq_true, if_false, h1, h2]
    rw [ih (count + 1) (size + t.size) (by omega) (by
      have : (k + 1) * t.size = k * t.size + t.size := by rw [Nat.add_mul]; simp
      omega)]
    rfl

theorem encodedGrowth_replicate (t : Tx) (n : Nat) :
    encodedGrowth (List.replicate n t) = n * framed t.size := by
  induction n with
  | zero => simp [encodedGrowth]
  | succ k ih =>
    simp only [encodedGrowth] at ih ⊢
    rw [List.replicate_succ, List.map_cons, List.sum_cons, ih, Nat.add_mul]; omega

/-! ### structure of the result: whole entries, in order -/

/-- entries an `addTxs` run takes -/
def taken (active : Bool) (maxTx : Int) (bound : Nat) : Int → Nat → List Entry → List Entry
  | _, _, [] => []
  | count, size, .bad :: rest => taken active maxTx bound count size rest
  | count, size, .single t :: rest =>
    if active && t.blocked then taken active maxTx bound count size rest
    else if count + 1 > maxTx then []
    else if size + t.size > bound then []
    else .single t :: taken active maxTx bound (count + 1) (size + t.size) rest
  | count, size, .group ts :: rest =>
    if active && ts.any (·.blocked) then taken active maxTx bound count size rest
    else if count + ts.length > maxTx then []
    else if size + sizeSum ts > bound then []
    else .group ts :: taken active maxTx bound (count + ts.length) (size + sizeSum ts) rest

theorem taken_sublist (active : Bool) (maxTx : Int) (bound : Nat) (count : Int) (size : Nat)
    (pool : List Entry) : (taken active maxTx bound count size pool).Sublist pool := by
  fun_induction taken active maxTx bound count size pool with
  | case1 => exact List.Sublist.slnil
  | case2 _ _ _ ih => exact ih.cons _
  | case3 _ _ _ _ _ ih => exact ih.cons _
  | case4 => exact List.nil_sublist _
  | case5 => exact List.nil_sublist _
  | case6 _ _ _ _ _ _ _ ih => exact ih.cons_cons _
  | case7 _ _ _ _ _ ih => exact ih.cons _
  | case8 => exact List.nil_sublist _
  | case9 => exact List.nil_sublist _
  | case10 _ _ _ _ _ _ _ ih => exact ih.cons_cons _

theorem addTxs_eq_taken (active : Bool) (maxTx : Int) (bound : Nat) (count : Int) (size : Nat)
    (pool : List Entry) :
    addTxs active maxTx bound count size pool
      = (taken active maxTx bound count size pool).flatMap Entry.expand := by
  fun_induction taken active maxTx bound count size pool with
  | case1 => simp [addTxs]
  | case2 _ _ _ ih => simpa [addTxs] using ih
  | case3 _ _ _ _ h ih => simp only [addTxs, h, if_true]; exact ih
  | case4 _ _ _ _ h h1 => simp [addTxs, h, h1]
  | case5 _ _ _ _ h h1 h2 => simp [addTxs, h, h1, h2]
  | case6 _ _ _ _ h h1 h2 ih => simp [addTxs, h, h1, h2, Entry.expand, ih]
  | case7 _ _ _ _ h ih => simp only [addTxs, h, if_true]; exact ih
  | case8 _ _ _ _ h h1 => simp [addTxs, h, h1]
  | case9 _ _ _ _ h h1 h2 => simp [addTxs, h, h1, h2]
  | case10 _ _ _ _ h h1 h2 ih => simp [addTxs, h, h1, h2, Entry.expand, ih]

theorem taken_not_blocked (maxTx : Int) (bound : Nat) (count : Int) (size : Nat)
    (pool : List Entry) :
    ∀ e ∈ taken true maxTx bound count size pool, ∀ t ∈ e.expand, t.blocked = false := by
  fun_induction taken true maxTx bound count size pool with
  | case1 => simp
  | case2 _ _ _ ih => exact ih
  | case3 _ _ _ _ _ ih => exact ih
  | case4 => simp
  | case5 => simp
  | case6 _ _ t _ h _ _ ih =>
    intro e he
    rcases List.mem_cons.mp he with rfl | he
    · intro x hx; simp [Entry.expand] at hx; subst hx; simpa using h
    · exact ih e he
  | case7 _ _ _ _ _ ih => exact ih
  | case8 => simp
  | case9 => simp
  | case10 _ _ ts _ h _ _ ih =>
    intro e he
    rcases List.mem_cons.mp he with rfl | he
    · intro x hx; simp [Entry.expand] at hx
      simp at h
      exact h x hx
    · exact ih e he

theorem sublist_flatMap {α β : Type} (f : α → List β) {l₁ l₂ : List α} (h : l₁.Sublist l₂) :
    (l₁.flatMap f).Sublist (l₂.flatMap f) := by
  induction h with
  | slnil => simp
  | cons a _ ih => simp only [List.flatMap_cons]; exact ih.trans (List.sublist_append_right _ _)
  | cons_cons a _ ih => simp only [List.flatMap_cons]; exact List.Sublist.append (List.Sublist.refl _) ih

/-! ### per-height limit lookup -/

theorem pickFork_spec (h : Int) : ∀ (forks : List (Int × Int)) (best : Option (Int × Int)),
    (∀ b, best = some b → b.1 ≤ h) →
    (∀ b, pickFork h best forks = some b → b.1 ≤ h ∧ (best = some b ∨ b ∈ forks)) ∧
    (∀ g ∈ forks, g.1 ≤ h → ∃ b, pickFork h best forks = some b ∧ g.1 ≤ b.1) ∧
    (∀ b0, best = some b0 → ∃ b, pickFork h best forks = some b ∧ b0.1 ≤ b.1) ∧
    (pickFork h best forks = none → best = none ∧ ∀ g ∈ forks, ¬ g.1 ≤ h) := by
  intro forks
  induction forks with
  | nil =>
    intro best hb
    simp only [pickFork]
    refine ⟨fun b e => ⟨hb b e, Or.inl e⟩, by simp, fun b0 e => ⟨b0, e, Int.le_refl _⟩, fun e => ⟨e, by simp⟩⟩
  | cons f rest ih =>
    intro best hb
    unfold pickFork
    by_cases hf : f.1 ≤ h
    · simp only [hf, if_true]
      cases best with
      | none =>
        simp only
        obtain ⟨i1, i2, i3, i4⟩ := ih (some f) (by intro b e; injection e with e; subst e; exact hf)
        refine ⟨?_, ?_, by simp, ?_⟩
        · intro b e
          obtain ⟨h1, h2⟩ := i1 b e
          refine ⟨h1, Or.inr ?_⟩
          rcases h2 with h2 | h2
          · injection h2 with h2; subst h2; simp
          · simp [h2]
        · intro g hg hgh
          rcases List.mem_cons.mp hg with rfl | hg
          · exact i3 g rfl
          · exact i2 g hg hgh
        · intro e
          obtain ⟨c, _⟩ := i4 e
          cases c
      | some b0 =>
        simp only
        have hb0 := hb b0 rfl
        by_cases hlt : b0.1 < f.1
        · simp only [hlt, if_true]
          obtain ⟨i1, i2, i3, i4⟩ := ih (some f) (by intro b e; injection e with e; subst e; exact hf)
          refine ⟨?_, ?_, ?_, ?_⟩
          · intro b e
            obtain ⟨h1, h2⟩ := i1 b e
            refine ⟨h1, Or.inr ?_⟩
            rcases h2 with h2 | h2
            · injection h2 with h2; subst h2; simp
            · simp [h2]
          · intro g hg hgh
            rcases List.mem_cons.mp hg with rfl | hg
            · exact i3 g rfl
            · exact i2 g hg hgh
          · intro b1 e
            injection e with e; subst e
            obtain ⟨b, hb1, hb2⟩ := i3 f rfl
            exact ⟨b, hb1, by omega⟩
          · intro e
            obtain ⟨c, _⟩ := i4 e
            cases c
        · simp only [hlt, if_false]
          obtain ⟨i1, i2, i3, i4⟩ := ih (some b0) hb
          refine ⟨?_, ?_, i3, ?_⟩
          · intro b e
            obtain ⟨h1, h2⟩ := i1 b e
            refine ⟨h1, ?_⟩
            rcases h2 with h2 | h2
            · exact Or.inl h2
            · exact Or.inr (by simp [h2])
          · intro g hg hgh
            rcases List.mem_cons.mp hg with rfl | hg
            · obtain ⟨b, hb1, hb2⟩ := i3 b0 rfl
              exact ⟨b, hb1, by omega⟩
            · exact i2 g hg hgh
          · intro e
            obtain ⟨c, _⟩ := i4 e
            cases c
    · simp only [hf, if_false]
      obtain ⟨i1, i2, i3, i4⟩ := ih best hb
      refine ⟨?_, ?_, i3, ?_⟩
      · intro b e
        obtain ⟨h1, h2⟩ := i1 b e
        refine ⟨h1, ?_⟩
        rcases h2 with h2 | h2
        · exact Or.inl h2
        · exact Or.inr (by simp [h2])
      · intro g hg hgh
        rcases List.mem_cons.mp hg with rfl | hg
        · exact absurd hgh hf
        · exact i2 g hg hgh
      · intro e
        obtain ⟨h1, h2⟩ := i4 e
        refine ⟨h1, ?_⟩
        intro g hg
        rcases List.mem_cons.mp hg with rfl | hg
        · exact hf
        · exact h2 g hg

theorem fst_unique {forks : List (Int × Int)} (hn : (forks.map (·.1)).Nodup) {a b : Int × Int}
    (ha : a ∈ forks) (hb : b ∈ forks) (e : a.1 = b.1) : a = b := by
  induction forks with
  | nil => cases ha
  | cons f rest ih =>
    rw [List.map_cons, List.nodup_cons] at hn
    rcases List.mem_cons.mp ha with rfl | ha' <;> rcases List.mem_cons.mp hb with rfl | hb'
    · rfl
    · exact absurd (List.mem_map.mpr ⟨b, hb', e.symm⟩) hn.1
    · exact absurd (List.mem_map.mpr ⟨a, ha', e⟩) hn.1
    · exact ih hn.2 ha' hb'

/-! ### CheckTxExpire on a well-formed expanded list -/

/-- a segment of a well-formed expanded list: a single transaction (`GroupCount = 0`) or a whole
group (every member carries `GroupCount = ` the group's length). -/
def WellFormedSeg (s : List ETx) : Prop :=
  (∃ t, s = [t] ∧ t.gc = 0) ∨ (s ≠ [] ∧ ∀ t ∈ s, t.gc = (s.length : Int))

/-- what the marking loop does with one segment -/
def markSeg (exp : ETx → Bool) (s : List ETx) : List (Option ETx) :=
  if s.any exp then s.map (fun _ => none) else s.map some

theorem markExpired_seg (exp : ETx → Bool) (s rest : List ETx) (h : WellFormedSeg s) :
    markExpired exp (s ++ rest) = (markExpired exp rest).map (fun r => markSeg exp s ++ r) := by
  rcases h with ⟨t, rfl, h0⟩ | ⟨hne, hall⟩
  · rw [List.singleton_append, markExpired]
    simp only [h0, dite_true, markSeg, List.any_cons, List.any_nil, Bool.or_false]
    cases markExpired exp rest <;> cases exp t <;> simp
  · match s, hne with
    | t :: s', _ =>
      have ht : t.gc = ((t :: s').length : Int) := hall t (by simp)
      rw [List.cons_append, markExpired]
      have h1 : ¬ t.gc = 0 := by simp at ht; omega
      have h2 : ¬ t.gc > ((s' ++ rest).length + 1 : Nat) := by simp at ht ⊢; omega
      have h3 : ¬ t.gc < 0 := by simp at ht; omega
      have hn : t.gc.toNat = s'.length + 1 := by simp at ht; omega
      simp only [h1, h2, h3, dite_false, if_false, hn]
      have e1 : (t :: (s' ++ rest)).take (s'.length + 1) = t :: s' := by simp
      have e2 : (t :: (s' ++ rest)).drop (s'.length + 1) = rest := by simp
      rw [e1, e2]; rfl

theorem filterMap_markSeg (exp : ETx → Bool) (s : List ETx) :
    (markSeg exp s).filterMap id = if s.any exp then [] else s := by
  unfold markSeg
  split
  · induction s <;> simp_all
  · induction s <;> simp_all

theorem checkTxExpire_segs (exp : ETx → Bool) (segs : List (List ETx))
    (h : ∀ s ∈ segs, WellFormedSeg s) :
    checkTxExpire exp segs.flatten = some ((segs.filter (fun s => !s.any exp)).flatten) := by
  unfold checkTxExpire
  induction segs with
  | nil => simp [markExpired]
  | cons s rest ih =>
    have ih := ih (fun x hx => h x (by simp [hx]))
    rw [List.flatten_cons, markExpired_seg exp s _ (h s (by simp))]
    cases hm : markExpired exp rest.flatten with
    | none => simp [hm] at ih
    | some r =>
      simp only [hm, Option.map_some, Option.some.injEq] at ih ⊢
      rw [List.filterMap_append, filterMap_markSeg, ih, List.filter_cons]
      cases s.any exp <;> simp

theorem any_congr_mem {α : Type} (f g : α → Bool) (s : List α) (h : ∀ t ∈ s, f t = g t) :
    s.any f = s.any g := by
  induction s with
  | nil => rfl
  | cons a rest ih =>
    simp only [List.any_cons]
    rw [h a (by simp), ih (fun t ht => h t (by simp [ht]))]

end C30
