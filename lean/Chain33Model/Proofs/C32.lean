import Chain33Model.Model.C32
/-! Helper lemmas for C32: the task loop refines the specification acceptor. -/
namespace C32

/-- simulation relation between the task state and the specification state. -/
structure R (t : Task) (s : Spec) : Prop where
  p : s.p = t.persisted
  pend : s.pending = none
  md : s.mustDeact = false
  run_dead : t.running = true → s.dead = false
  run_fails : t.running = true → s.fails = t.fails ∧ t.fails < 3
  run_last : t.running = true → t.persisted ≥ 1 → t.last = t.persisted
  run_active : t.running = true → t.active = true
  stop_dead : t.running = false → s.dead = true
  unreg : t.registered = false → t.persisted = -1 ∧ t.running = false ∧ s.anyPost = false ∧ t.active = false
  act_reg : t.active = true → t.registered = true

/-- closes the ten components of `R` after a step. -/
macro "finishR" : tactic =>
  `(tactic| (constructor <;> (try simp_all [spawn]) <;> (try split) <;> (try simp_all) <;> (try omega)))

theorem R_init : R {} {} := by
  constructor <;> simp

theorem accept_post_ok (c : Cfg) (s : Spec) (a b : Int) (hd : s.dead = false) (hp : s.pending = none)
    (hm : s.mustDeact = false) (hr : 1 ≤ a ∧ a ≤ b ∧ b - a + 1 ≤ (c.maxSeq : Int)) (hs : s.p ≥ 1 → a = s.p + 1) :
    accept c s (.post a b true) = some { s with fails := 0, pending := some b, anyPost := true } := by
  have g2 : ¬ (s.p ≥ 1 ∧ a ≠ s.p + 1) := fun ⟨x, y⟩ => y (hs x)
  simp only [accept, hd, hp, hm, Option.isSome_none, Bool.or_false, Bool.false_eq_true, if_false, hr,
    and_self, decide_true, Bool.not_true, g2, if_true]

theorem accept_post_fail (c : Cfg) (s : Spec) (a b : Int) (hd : s.dead = false) (hp : s.pending = none)
    (hm : s.mustDeact = false) (hr : 1 ≤ a ∧ a ≤ b ∧ b - a + 1 ≤ (c.maxSeq : Int)) (hs : s.p ≥ 1 → a = s.p + 1) :
    accept c s (.post a b false) =
      if s.fails + 1 ≥ 3 then some { s with fails := s.fails + 1, mustDeact := true, anyPost := true }
      else some { s with fails := s.fails + 1, anyPost := true } := by
  have g2 : ¬ (s.p ≥ 1 ∧ a ≠ s.p + 1) := fun ⟨x, y⟩ => y (hs x)
  simp only [accept, hd, hp, hm, Option.isSome_none, Bool.or_false, Bool.false_eq_true, if_false, hr,
    and_self, decide_true, Bool.not_true, g2]

theorem sim_step (c : Cfg) (hc : 1 ≤ c.maxSeq) (t : Task) (s : Spec) (i : In) (h : R t s) :
    ∃ s', acceptAll c s (step c t i).2 = some s' ∧ R (step c t i).1 s' := by
  obtain ⟨hp, hpend, hmd, hrd, hrf, hrl, hra, hsd, hun, har⟩ := h
  cases i with
  | tick =>
    simp only [step]
    split
    · refine ⟨s, rfl, ?_⟩
      finishR
    · exact ⟨s, rfl, ⟨hp, hpend, hmd, hrd, hrf, hrl, hra, hsd, hun, har⟩⟩
  | restart =>
    simp only [step]
    split
    · rename_i hact
      have hreg := har hact
      refine ⟨{ s with dead := false, fails := 0 }, ?_, ?_⟩
      · simp [acceptAll, accept, hpend, hmd]
      · finishR
    · rename_i hact
      have hnr : t.running = false := by
        cases hr : t.running
        · rfl
        · exact absurd (hra hr) hact
      refine ⟨s, rfl, ?_⟩
      finishR
  | subscribe resume =>
    simp only [step]
    split
    · rename_i hreg
      split
      · rename_i hrun
        refine ⟨s, rfl, ?_⟩
        finishR
      · rename_i hrun
        refine ⟨{ s with dead := false, fails := 0 }, ?_, ?_⟩
        · simp [acceptAll, accept, hpend, hmd]
        · finishR
    · rename_i hreg
      have hreg' : t.registered = false := by simpa using hreg
      obtain ⟨u1, u2, u3, u4⟩ := hun hreg'
      have hdead := hsd u2
      by_cases hres : resume ≥ 1
      · refine ⟨{ s with p := resume, dead := false, fails := 0 }, ?_, ?_⟩
        · have hp1 : s.p < 1 := by rw [hp, u1]; decide
          simp [acceptAll, accept, hres, hpend, hmd, hdead, u3, hp1]
        · finishR
      · refine ⟨{ s with dead := false, fails := 0 }, ?_, ?_⟩
        · simp [acceptAll, accept, hres, hpend, hmd]
        · finishR
  | seqUpdate latest cut ok =>
    simp only [step]
    split
    · refine ⟨s, rfl, ⟨hp, hpend, hmd, hrd, hrf, hrl, hra, hsd, hun, har⟩⟩
    · rename_i hrun
      have hrun' : t.running = true := by simpa using hrun
      have hreg : t.registered = true := har (hra hrun')
      obtain ⟨hf1, hf2⟩ := hrf hrun'
      have hdead := hrd hrun'
      split
      · refine ⟨s, rfl, ?_⟩
        finishR
      · split
        · refine ⟨s, rfl, ?_⟩
          finishR
        · rename_i hge
          split
          · rename_i hle
            -- no resume point: start from the newest (t.last ≤ 0 forces persisted < 1)
            have hpers : ¬ t.persisted ≥ 1 := by
              intro hh; have := hrl hrun' hh; omega
            refine ⟨s, rfl, ?_⟩
            finishR
          · rename_i hpos
            have hlast : 0 < t.last := by omega
            have hlt : t.last < latest := by omega
            -- range facts
            have hn1 : (1 : Int) ≤ max 1 (min (min (c.maxSeq : Int) (latest - t.last)) (cut : Int)) := by omega
            have hn2 : max 1 (min (min (c.maxSeq : Int) (latest - t.last)) (cut : Int)) ≤ (c.maxSeq : Int) := by
              have : (1 : Int) ≤ (c.maxSeq : Int) := by exact_mod_cast hc
              omega
            have hstart : s.p ≥ 1 → t.last + 1 = s.p + 1 := by
              intro hh; rw [hp] at hh ⊢; rw [hrl hrun' hh]
            generalize hN : max 1 (min (min (c.maxSeq : Int) (latest - t.last)) (cut : Int)) = n at hn1 hn2 ⊢
            have hr : 1 ≤ t.last + 1 ∧ t.last + 1 ≤ t.last + n ∧ t.last + n - (t.last + 1) + 1 ≤ (c.maxSeq : Int) := by
              omega
            split
            · -- acknowledged
              refine ⟨{ s with p := t.last + n, fails := 0, pending := none, anyPost := true }, ?_, ?_⟩
              · simp only [acceptAll]
                rw [accept_post_ok c s _ _ hdead hpend hmd hr hstart]
                simp [accept]
              · finishR
            · split
              · -- third failure in a row
                rename_i hthree
                refine ⟨{ s with fails := 0, mustDeact := false, dead := true, anyPost := true }, ?_, ?_⟩
                · simp only [acceptAll]
                  rw [accept_post_fail c s _ _ hdead hpend hmd hr hstart]
                  have g3 : s.fails + 1 ≥ 3 := by rw [hf1]; exact hthree
                  simp [g3, accept]
                · finishR
              · rename_i hthree
                refine ⟨{ s with fails := s.fails + 1, anyPost := true }, ?_, ?_⟩
                · simp only [acceptAll]
                  rw [accept_post_fail c s _ _ hdead hpend hmd hr hstart]
                  have g3 : ¬ s.fails + 1 ≥ 3 := by rw [hf1]; exact hthree
                  simp [g3]
                · finishR

end C32
