import Chain33Model.Model.C32
/-! Helper lemmas for C32: the task loop refines the specification acceptor. -/
namespace C32

/-- simulation relation between the task state and the specification state (`k`: strict mode). -/
structure R (k : Bool) (t : Task) (s : Spec) : Prop where
  p : s.p = t.persisted
  pend : k = true → s.pending = none
  md : s.mustDeact = false
  run_dead : t.running = true → s.dead = false
  run_fails : t.running = true → s.fails = t.fails ∧ t.fails < 3
  run_q : t.running = true → s.q = t.last ∨ s.q < 1
  run_active : t.running = true → t.active = true
  stop_dead : t.running = false → s.dead = true
  unreg : t.registered = false → t.persisted = -1 ∧ t.running = false ∧ s.anyPost = false ∧ t.active = false
  act_reg : t.active = true → t.registered = true
  ap : s.anyPost = false → s.pending = none

/-- closes the components of `R` after a step. -/
macro "finishR" : tactic =>
  `(tactic| (constructor <;> (try simp_all [spawn]) <;> (try split) <;> (try simp_all) <;> (try omega)))

theorem R_init (k : Bool) : R k {} {} := by
  constructor <;> simp

/-- the guard of `.post` / `.skip` passes. -/
theorem guard_false (k : Bool) (s : Spec) (hd : s.dead = false) (hm : s.mustDeact = false)
    (hp : k = true → s.pending = none) : (s.dead || s.mustDeact || (k && s.pending.isSome)) = false := by
  cases k with
  | false => simp [hd, hm]
  | true => simp [hd, hm, hp rfl]

theorem accept_post_ok (c : Cfg) (k : Bool) (s : Spec) (a b : Int) (hd : s.dead = false)
    (hp : k = true → s.pending = none)
    (hm : s.mustDeact = false) (hr : 1 ≤ a ∧ a ≤ b ∧ b - a + 1 ≤ (c.maxSeq : Int)) (hs : s.q ≥ 1 → a = s.q + 1) :
    accept c k s (.post a b true) = some { s with fails := 0, pending := some b, q := b, anyPost := true } := by
  have g2 : ¬ (s.q ≥ 1 ∧ a ≠ s.q + 1) := fun ⟨x, y⟩ => y (hs x)
  simp only [accept, guard_false k s hd hm hp, Bool.false_eq_true, if_false, hr,
    and_self, decide_true, Bool.not_true, g2, if_true]

theorem accept_post_fail (c : Cfg) (k : Bool) (s : Spec) (a b : Int) (hd : s.dead = false)
    (hp : k = true → s.pending = none)
    (hm : s.mustDeact = false) (hr : 1 ≤ a ∧ a ≤ b ∧ b - a + 1 ≤ (c.maxSeq : Int)) (hs : s.q ≥ 1 → a = s.q + 1) :
    accept c k s (.post a b false) =
      if s.fails + 1 ≥ 3 then some { s with fails := s.fails + 1, pending := none, mustDeact := true, anyPost := true }
      else some { s with fails := s.fails + 1, pending := none, anyPost := true } := by
  have g2 : ¬ (s.q ≥ 1 ∧ a ≠ s.q + 1) := fun ⟨x, y⟩ => y (hs x)
  simp only [accept, guard_false k s hd hm hp, Bool.false_eq_true, if_false, hr,
    and_self, decide_true, Bool.not_true, g2]

theorem accept_skip (c : Cfg) (k : Bool) (s : Spec) (a b : Int) (hd : s.dead = false)
    (hp : k = true → s.pending = none)
    (hm : s.mustDeact = false) (hr : 1 ≤ a ∧ a ≤ b ∧ b - a + 1 ≤ (c.maxSeq : Int)) (hs : s.q ≥ 1 → a = s.q + 1) :
    accept c k s (.skip a b) = some { s with fails := 0, pending := none, q := b } := by
  have g2 : ¬ (s.q ≥ 1 ∧ a ≠ s.q + 1) := fun ⟨x, y⟩ => y (hs x)
  simp only [accept, guard_false k s hd hm hp, Bool.false_eq_true, if_false, hr,
    and_self, decide_true, Bool.not_true, g2]

theorem accept_started (c : Cfg) (k : Bool) (s : Spec) (hp : k = true → s.pending = none)
    (hm : s.mustDeact = false) :
    accept c k s .started = some { s with dead := false, fails := 0, pending := none, q := s.p } := by
  cases k with
  | false => simp [accept, hm]
  | true => simp [accept, hm, hp rfl]

/-- a node restart keeps the relation. -/
theorem sim_reboot (c : Cfg) (k : Bool) (t : Task) (s : Spec) (h : R k t s) :
    ∃ s', acceptAll c k s (reboot t).2 = some s' ∧ R k (reboot t).1 s' := by
  obtain ⟨hp, hpend, hmd, hrd, hrf, hrq, hra, hsd, hun, har, hap⟩ := h
  simp only [reboot]
  split
  · rename_i hact
    have hreg := har hact
    refine ⟨{ s with dead := false, fails := 0, pending := none, q := s.p }, ?_, ?_⟩
    · simp [acceptAll, accept_started c k s hpend hmd]
    · finishR
  · rename_i hact
    have hnr : t.running = false := by
      cases hr : t.running
      · rfl
      · exact absurd (hra hr) hact
    refine ⟨s, rfl, ?_⟩
    finishR

theorem sim_step (c : Cfg) (hc : 1 ≤ c.maxSeq) (k : Bool) (t : Task) (s : Spec) (i : In)
    (hi : k = true → i.noLoss = true) (h : R k t s) :
    ∃ s', acceptAll c k s (step c t i).2 = some s' ∧ R k (step c t i).1 s' := by
  have h0 := h
  obtain ⟨hp, hpend, hmd, hrd, hrf, hrq, hra, hsd, hun, har, hap⟩ := h
  cases i with
  | tick =>
    simp only [step]
    split
    · refine ⟨s, rfl, ?_⟩
      finishR
    · exact ⟨s, rfl, h0⟩
  | restart => exact sim_reboot c k t s h0
  | subscribe resume =>
    simp only [step]
    split
    · rename_i hreg
      split
      · rename_i hrun
        refine ⟨s, rfl, ?_⟩
        finishR
      · rename_i hrun
        refine ⟨{ s with dead := false, fails := 0, pending := none, q := s.p }, ?_, ?_⟩
        · simp [acceptAll, accept_started c k s hpend hmd]
        · finishR
    · rename_i hreg
      have hreg' : t.registered = false := by simpa using hreg
      obtain ⟨u1, u2, u3, u4⟩ := hun hreg'
      have hdead := hsd u2
      have hq : s.pending = none := hap u3
      by_cases hres : resume ≥ 1
      · -- the resume point is recorded, then the task starts
        have hp1 : s.p < 1 := by rw [hp, u1]; decide
        refine ⟨{ s with p := resume, dead := false, fails := 0, pending := none, q := resume }, ?_, ?_⟩
        · have e1 : accept c k s (.persisted resume) = some { s with p := resume } := by
            simp [accept, hq, hdead, u3, hp1, hres, hmd]
          have hpend' : k = true → ({ s with p := resume } : Spec).pending = none := fun _ => hq
          have e2 := accept_started c k { s with p := resume } hpend' hmd
          simp [acceptAll, hres, e1, e2]
        · finishR
      · refine ⟨{ s with dead := false, fails := 0, pending := none, q := s.p }, ?_, ?_⟩
        · simp [acceptAll, hres, accept_started c k s hpend hmd]
        · finishR
  | seqUpdate latest cut empty ok after =>
    simp only [step]
    split
    · exact ⟨s, rfl, h0⟩
    · rename_i hrun
      have hrun' : t.running = true := by simpa using hrun
      have hreg : t.registered = true := har (hra hrun')
      obtain ⟨hf1, hf2⟩ := hrf hrun'
      have hdead := hrd hrun'
      have hq := hrq hrun'
      split
      · refine ⟨s, rfl, ?_⟩
        finishR
      · split
        · refine ⟨s, rfl, ?_⟩
          finishR
        · rename_i hge
          split
          · -- no resume point: start from the newest (the specification has no cursor yet)
            rename_i hle
            have hq' : s.q < 1 := by
              rcases hq with h1 | h1
              · omega
              · exact h1
            refine ⟨s, rfl, ?_⟩
            finishR
          · rename_i hpos
            have hlast : 0 < t.last := by omega
            have hlt : t.last < latest := by omega
            have hc1 : (1 : Int) ≤ (c.maxSeq : Int) := by exact_mod_cast hc
            have hstart : s.q ≥ 1 → t.last + 1 = s.q + 1 := by
              intro hh
              rcases hq with h1 | h1
              · rw [h1]
              · omega
            split
            · -- no matching data in the range
              split
              · refine ⟨{ s with fails := 0, pending := none }, ?_, ?_⟩
                · simp [acceptAll, accept, guard_false k s hdead hmd hpend]
                · finishR
              · rename_i hn
                generalize hN : min (min (c.maxSeq : Int) (latest - t.last)) (cut : Int) = n at hn ⊢
                have hr : 1 ≤ t.last + 1 ∧ t.last + 1 ≤ t.last + n ∧ t.last + n - (t.last + 1) + 1 ≤ (c.maxSeq : Int) := by
                  omega
                refine ⟨{ s with fails := 0, pending := none, q := t.last + n }, ?_, ?_⟩
                · simp only [acceptAll]
                  rw [accept_skip c k s _ _ hdead hpend hmd hr hstart]
                · finishR
            · have hn1 : (1 : Int) ≤ max 1 (min (min (c.maxSeq : Int) (latest - t.last)) (cut : Int)) := by omega
              have hn2 : max 1 (min (min (c.maxSeq : Int) (latest - t.last)) (cut : Int)) ≤ (c.maxSeq : Int) := by
                omega
              generalize hN : max 1 (min (min (c.maxSeq : Int) (latest - t.last)) (cut : Int)) = n at hn1 hn2 ⊢
              have hr : 1 ≤ t.last + 1 ∧ t.last + 1 ≤ t.last + n ∧ t.last + n - (t.last + 1) + 1 ≤ (c.maxSeq : Int) := by
                omega
              split
              · -- acknowledged
                cases after with
                | record =>
                  refine ⟨{ s with p := t.last + n, fails := 0, pending := none, q := t.last + n, anyPost := true }, ?_, ?_⟩
                  · simp only [acceptAll]
                    rw [accept_post_ok c k s _ _ hdead hpend hmd hr hstart]
                    simp [accept, hmd]
                  · finishR
                | storeFail =>
                  have hk : k = false := by
                    cases k with
                    | false => rfl
                    | true => exact absurd (hi rfl) (by simp [In.noLoss])
                  refine ⟨{ s with fails := 0, pending := some (t.last + n), q := t.last + n, anyPost := true }, ?_, ?_⟩
                  · simp only [acceptAll]
                    rw [accept_post_ok c k s _ _ hdead hpend hmd hr hstart]
                  · subst hk
                    finishR
                | crash =>
                  have hk : k = false := by
                    cases k with
                    | false => rfl
                    | true => exact absurd (hi rfl) (by simp [In.noLoss])
                  subst hk
                  -- the acknowledgement is accepted; then the node starts again over the unchanged store
                  have hact : t.active = true := hra hrun'
                  refine ⟨{ s with dead := false, fails := 0, pending := none, q := s.p, anyPost := true }, ?_, ?_⟩
                  · simp only [acceptAll, reboot, hact, if_true]
                    rw [accept_post_ok c false s _ _ hdead hpend hmd hr hstart]
                    simp [accept, hmd]
                  · simp only [reboot, hact, if_true]
                    finishR
              · split
                · -- third failure in a row
                  rename_i hthree
                  refine ⟨{ s with fails := 0, pending := none, mustDeact := false, dead := true, anyPost := true }, ?_, ?_⟩
                  · simp only [acceptAll]
                    rw [accept_post_fail c k s _ _ hdead hpend hmd hr hstart]
                    have g3 : s.fails + 1 ≥ 3 := by rw [hf1]; exact hthree
                    simp [g3, accept]
                  · finishR
                · rename_i hthree
                  refine ⟨{ s with fails := s.fails + 1, pending := none, anyPost := true }, ?_, ?_⟩
                  · simp only [acceptAll]
                    rw [accept_post_fail c k s _ _ hdead hpend hmd hr hstart]
                    have g3 : ¬ s.fails + 1 ≥ 3 := by rw [hf1]; exact hthree
                    simp [g3]
                  · finishR

/-! ### histories without empty ranges produce no `.skip` -/

/-- the input does not claim a range without matching data (block / header / tx-result subscriptions). -/
def In.dense : In → Bool
  | .seqUpdate _ _ e _ _ => !e
  | _ => true

theorem noSkip_append (e1 e2 : List Ev) : noSkip (e1 ++ e2) = (noSkip e1 && noSkip e2) := by
  induction e1 with
  | nil => simp [noSkip]
  | cons e es ih => cases e <;> simp [noSkip, ih]

theorem reboot_noSkip (t : Task) : noSkip (reboot t).2 = true := by
  simp only [reboot]; split <;> simp [noSkip]

theorem step_noSkip (c : Cfg) (t : Task) (i : In) (h : i.dense = true) : noSkip (step c t i).2 = true := by
  cases i with
  | tick => simp only [step]; split <;> simp [noSkip]
  | restart => exact reboot_noSkip t
  | subscribe r => simp only [step]; split <;> split <;> simp [noSkip]
  | seqUpdate latest cut empty ok after =>
    have he : empty = false := by simpa [In.dense] using h
    subst he
    simp only [step]
    split
    · simp [noSkip]
    · split
      · simp [noSkip]
      · split
        · simp [noSkip]
        · split
          · simp [noSkip]
          · simp only [Bool.false_eq_true, if_false]
            split
            · cases after with
              | record => simp [noSkip]
              | storeFail => simp [noSkip]
              | crash =>
                have := reboot_noSkip { t with sleep := 0 }
                simpa [noSkip] using this
            · split <;> simp [noSkip]

theorem run_noSkip (c : Cfg) (ins : List In) (t : Task) (h : ∀ i ∈ ins, i.dense = true) :
    noSkip (run c t ins).2 = true := by
  induction ins generalizing t with
  | nil => simp [run, noSkip]
  | cons i is ih =>
    simp only [run, noSkip_append]
    rw [step_noSkip c t i (h i (by simp)), ih _ (fun j hj => h j (by simp [hj]))]
    rfl

/-! ### the batch loop after the fix -/

theorem batchNew_count_ge (M : Nat) (l : List Blk) (b : Batch) : b.count ≤ (batchNew M b l).count := by
  induction l generalizing b with
  | nil => simp [batchNew]
  | cons x rest ih =>
    cases x with
    | none => simp only [batchNew]; have := ih { b with count := b.count + 1 }; simp only at this; omega
    | some sz =>
      simp only [batchNew]
      split
      · exact Nat.le_refl _
      · have := ih { total := b.total + sz, incl := b.incl ++ [b.count], count := b.count + 1 }
        simp only at this; omega

theorem batchNew_incl_ne_nil (M : Nat) (l : List Blk) (b : Batch) (h : b.incl ≠ []) : (batchNew M b l).incl ≠ [] := by
  induction l generalizing b with
  | nil => simpa [batchNew] using h
  | cons x rest ih =>
    cases x with
    | none => simp only [batchNew]; exact ih _ h
    | some sz =>
      simp only [batchNew]
      split
      · exact h
      · exact ih _ (by simp)

/-- what is appended is exactly the matching blocks among the `count` blocks the batch went over. -/
theorem batchNew_incl (M : Nat) (l : List Blk) (b : Batch) :
    (batchNew M b l).incl = b.incl ++ matchPos b.count (l.take ((batchNew M b l).count - b.count)) := by
  induction l generalizing b with
  | nil => simp [batchNew, matchPos]
  | cons x rest ih =>
    cases x with
    | none =>
      simp only [batchNew]
      have hge := batchNew_count_ge M rest { b with count := b.count + 1 }
      have := ih { b with count := b.count + 1 }
      simp only at this hge
      obtain ⟨k, hk⟩ : ∃ k, (batchNew M { b with count := b.count + 1 } rest).count = b.count + 1 + k :=
        ⟨_, (Nat.add_sub_cancel' hge).symm⟩
      rw [this, hk]
      have e1 : b.count + 1 + k - (b.count + 1) = k := by omega
      have e2 : b.count + 1 + k - b.count = k + 1 := by omega
      rw [e1, e2]
      simp [matchPos]
    | some sz =>
      simp only [batchNew]
      split
      · simp [matchPos]
      · have hge := batchNew_count_ge M rest { total := b.total + sz, incl := b.incl ++ [b.count], count := b.count + 1 }
        have := ih { total := b.total + sz, incl := b.incl ++ [b.count], count := b.count + 1 }
        simp only at this hge
        obtain ⟨k, hk⟩ : ∃ k, (batchNew M { total := b.total + sz, incl := b.incl ++ [b.count], count := b.count + 1 } rest).count
            = b.count + 1 + k := ⟨_, (Nat.add_sub_cancel' hge).symm⟩
        rw [this, hk]
        have e1 : b.count + 1 + k - (b.count + 1) = k := by omega
        have e2 : b.count + 1 + k - b.count = k + 1 := by omega
        rw [e1, e2]
        simp [matchPos]

/-- with nothing appended yet, a non-empty range is advanced over by at least one block. -/
theorem batchNew_progress_from (M : Nat) (l : List Blk) (b : Batch) (h0 : b.total = 0) (hl : l ≠ []) :
    b.count + 1 ≤ (batchNew M b l).count := by
  cases l with
  | nil => exact absurd rfl hl
  | cons x rest =>
    cases x with
    | none =>
      simp only [batchNew]
      have := batchNew_count_ge M rest { b with count := b.count + 1 }
      simpa using this
    | some sz =>
      simp only [batchNew, h0]
      have := batchNew_count_ge M rest { total := 0 + sz, incl := b.incl ++ [b.count], count := b.count + 1 }
      simpa using this

/-- with nothing appended yet, the first matching block of the range is appended whatever its size. -/
theorem batchNew_first_match_from (M : Nat) (l : List Blk) (b : Batch) (h0 : b.total = 0)
    (hm : ∃ sz, some sz ∈ l) : (batchNew M b l).incl ≠ [] := by
  induction l generalizing b with
  | nil => obtain ⟨_, h⟩ := hm; simp at h
  | cons x rest ih =>
    cases x with
    | none =>
      simp only [batchNew]
      refine ih _ h0 ?_
      obtain ⟨sz, h⟩ := hm
      exact ⟨sz, by simpa using h⟩
    | some sz =>
      simp only [batchNew, h0]
      exact batchNew_incl_ne_nil M rest _ (by simp)

end C32
