import Chain33Model.Model.C33
/-!
Helper lemmas for C33 / C34: the index operations of buildPendBlock stay in range for every queued block.
-/
namespace C33

theorem setSlot_ok (l : Slots) (k : Nat) (v : TxId) (h : k < l.length) :
    ∃ l', setSlot l k v = .ok l' ∧ l'.length = l.length ∧ ∀ j : Nat, l'[j]? = some none → l[j]? = some none := by
  induction l generalizing k with
  | nil => simp at h
  | cons x r ih =>
    cases k with
    | zero =>
      refine ⟨some v :: r, rfl, rfl, ?_⟩
      intro j hj
      cases j with
      | zero => simp at hj
      | succ j => simpa using hj
    | succ k =>
      have hk : k < r.length := by simpa using h
      obtain ⟨l', h1, h2, h3⟩ := ih k hk
      refine ⟨x :: l', by simp [setSlot, h1, Res.map], by simp [h2], ?_⟩
      intro j hj
      cases j with
      | zero => simpa using hj
      | succ j => simpa using h3 j (by simpa using hj)

theorem expand_ok (g : List TxId) (txs : Slots) (index j : Nat) (h : index + j + g.length ≤ txs.length) :
    ∃ t, expand txs index g j = .ok t ∧ t.length = txs.length ∧ ∀ i : Nat, t[i]? = some none → txs[i]? = some none := by
  induction g generalizing txs j with
  | nil => exact ⟨txs, rfl, rfl, fun _ h => h⟩
  | cons a gs ih =>
    have hlt : index + j < txs.length := by simp at h; omega
    obtain ⟨t1, h1, hl1, hs1⟩ := setSlot_ok txs (index + j) a hlt
    have h' : index + (j + 1) + gs.length ≤ t1.length := by simp at h; omega
    obtain ⟨t2, h2, hl2, hs2⟩ := ih t1 (j + 1) h'
    exact ⟨t2, by simp [expand, h1, h2], by omega, fun i hi => hs1 i (hs2 i hi)⟩

/-- the second loop never indexes out of range (repaired code), keeps the length and only fills slots -/
theorem fill_total (pool : Pool) (w : List (Nat × SH)) (txs : Slots) (ok : Bool)
    (hw : ∀ e ∈ w, e.1 < txs.length) :
    ∃ r, fill pool w txs ok = .ok r ∧ r.1.length = txs.length ∧ ∀ j : Nat, r.1[j]? = some none → txs[j]? = some none := by
  induction w generalizing txs ok with
  | nil => exact ⟨(txs, ok), rfl, rfl, fun _ h => h⟩
  | cons e w ih =>
    obtain ⟨index, h⟩ := e
    have hlt : index < txs.length := hw (index, h) (by simp)
    have hw' : ∀ e ∈ w, e.1 < txs.length := fun e he => hw e (by simp [he])
    have hget : txs[index]? = some txs[index] := List.getElem?_eq_getElem hlt
    unfold fill
    rw [hget]
    cases hx : txs[index] with
    | some v => simpa using ih txs ok hw'
    | none =>
      simp only
      cases hp : pool.get h with
      | none => simpa using ih txs false hw'
      | some t =>
        simp only
        split
        · exact ih txs false hw'
        · rename_i hfit
          obtain ⟨t1, h1, hl1, hs1⟩ := setSlot_ok txs index t.id hlt
          obtain ⟨t2, h2, hl2, hs2⟩ := expand_ok t.group t1 index 0 (by omega)
          rw [h1]; simp only; rw [h2]; simp only
          have hl : t2.length = txs.length := by omega
          obtain ⟨r, hr, hrl, hrs⟩ := ih t2 ok (by rw [hl]; exact hw')
          exact ⟨r, hr, by omega, fun j hj => hs1 j (hs2 j (hrs j hj))⟩

/-- every empty slot of the block has a short hash: `sTxHashes[i]` of the first loop is in range -/
def Cover (hashes : List SH) (txs : Slots) (i : Nat) : Prop := ∀ j : Nat, txs[j]? = some none → i + j < hashes.length

theorem missing_total (hashes : List SH) (txs : Slots) (i : Nat) (hc : Cover hashes txs i) :
    ∃ w, missing hashes txs i = .ok w ∧ ∀ e ∈ w, i ≤ e.1 ∧ e.1 < i + txs.length := by
  induction txs generalizing i with
  | nil => exact ⟨[], rfl, fun e he => by simp at he⟩
  | cons x r ih =>
    have hc' : Cover hashes r (i + 1) := by
      intro j hj
      have := hc (j + 1) (by simpa using hj)
      omega
    obtain ⟨w, hw, hwi⟩ := ih (i + 1) hc'
    cases x with
    | some v =>
      refine ⟨w, by simp [missing, hw], ?_⟩
      intro e he; have := hwi e he; simp; omega
    | none =>
      have hi : i < hashes.length := by simpa using hc 0 (by simp)
      have hget : hashes[i]? = some hashes[i] := List.getElem?_eq_getElem hi
      refine ⟨(i, hashes[i]) :: w, by simp [missing, hget, hw, Res.map], ?_⟩
      intro e he
      simp at he
      rcases he with rfl | he
      · simp
      · have := hwi e he; simp; omega

theorem missing_cover (hashes : List SH) (txs : Slots) (i : Nat) (w : List (Nat × SH))
    (h : missing hashes txs i = .ok w) : Cover hashes txs i := by
  induction txs generalizing i w with
  | nil => intro j hj; simp at hj
  | cons x r ih =>
    cases x with
    | some v =>
      simp only [missing] at h
      intro j hj
      cases j with
      | zero => simp at hj
      | succ j => have := ih (i + 1) w h j (by simpa using hj); omega
    | none =>
      simp only [missing] at h
      split at h
      · simp at h
      · rename_i hh hget
        cases hm : missing hashes r (i + 1) with
        | panic => simp [hm, Res.map] at h
        | ok w' =>
          intro j hj
          cases j with
          | zero =>
            have : i < hashes.length := by
              rcases Nat.lt_or_ge i hashes.length with h1 | h1
              · exact h1
              · rw [List.getElem?_eq_none h1] at hget; simp at hget
            simpa using this
          | succ j => have := ih (i + 1) w' hm j (by simpa using hj); omega

/-- a queued / fresh pending block on which buildPendBlock cannot index out of range -/
def PendOk (pd : Pend) : Prop := Cover pd.hashes pd.txs 0

theorem build_total (pool : Pool) (pd : Pend) (h : PendOk pd) (hs : pool.short = false) :
    ∃ r, build pool pd = .ok r ∧ PendOk r.pd := by
  unfold build
  split
  · exact ⟨_, rfl, h⟩
  · obtain ⟨w, hw, hwi⟩ := missing_total pd.hashes pd.txs 0 h
    rw [hw]; simp only
    split
    · exact ⟨_, rfl, h⟩
    · simp only [hs, Bool.false_and, Bool.false_eq_true, if_false]
      obtain ⟨r, hr, hrl, hrs⟩ := fill_total pool w pd.txs true (fun e he => by have := hwi e he; omega)
      rw [hr]
      obtain ⟨txs, ok⟩ := r
      have hc : Cover pd.hashes txs 0 := fun j hj => h j (hrs j hj)
      simp only
      split <;> exact ⟨_, rfl, hc⟩

/-- whatever `build` returns without panicking leaves a block that can be built again -/
theorem build_keeps_ok (pool : Pool) (pd : Pend) (r : BuildOut) (h : build pool pd = .ok r) (hd : r.done = false)
    (hs : pool.short = false) : PendOk r.pd := by
  have hpd : PendOk pd := by
    unfold build at h
    split at h
    · simp at h; subst h; simp at hd
    · split at h
      · simp at h
      · rename_i w hw
        exact missing_cover _ _ _ _ hw
  obtain ⟨r', hr', hok⟩ := build_total pool pd hpd hs
  rw [h] at hr'
  simp at hr'; subst hr'; exact hok

theorem pendList_total (pool : Pool) (now timeout : Int) (l : List Pend) (h : ∀ pd ∈ l, PendOk pd)
    (hs : pool.short = false) :
    ∃ keep posted tmo, pendList pool now timeout l = .ok (keep, posted, tmo) ∧ ∀ pd ∈ keep, PendOk pd := by
  induction l with
  | nil => exact ⟨[], [], [], rfl, fun _ h => by simp at h⟩
  | cons pd rest ih =>
    obtain ⟨r, hr, hrok⟩ := build_total pool pd (h pd (by simp)) hs
    obtain ⟨keep, posted, tmo, hr2, hk⟩ := ih (fun q hq => h q (by simp [hq]))
    unfold pendList
    rw [hr]; simp only; rw [hr2]
    simp only
    split
    · split <;> exact ⟨_, _, _, rfl, hk⟩
    · split
      · exact ⟨_, _, _, rfl, hk⟩
      · refine ⟨_, _, _, rfl, ?_⟩
        intro q hq
        simp at hq
        rcases hq with rfl | hq
        · exact hrok
        · exact hk q hq

theorem reqList_ok (s : State) (l : List BlockReq) (h : s.chain ≠ .items 0) : ∃ r, reqList s l = .ok r := by
  induction l with
  | nil => exact ⟨_, rfl⟩
  | cons q rest ih =>
    obtain ⟨r, hr⟩ := ih
    have hq : ∃ o, handleReq s q = .ok o := by
      unfold handleReq
      split
      · exact ⟨_, rfl⟩
      · cases hc : s.chain with
        | err => exact ⟨_, rfl⟩
        | otherType => exact ⟨_, rfl⟩
        | items n =>
          cases n with
          | zero => exact absurd hc h
          | succ n => exact ⟨_, rfl⟩
    obtain ⟨o, ho⟩ := hq
    unfold reqList
    rw [ho]; simp only; rw [hr]
    obtain ⟨keep, outs⟩ := r
    cases o <;> exact ⟨_, rfl⟩

/-- executable check of "the group behind every hash fits" (non-vacuity examples of C34) -/
def GroupsFit (pool : Pool) (hashes : List SH) (n : Nat) : Prop :=
  ∀ i h t, hashes[i]? = some h → pool.get h = some t → i + t.group.length ≤ n

/-! ### inputs (definitions used by the property statements of Props/C33.lean) -/

/-- everything a peer can trigger, including the later background processing of stored input -/
inductive Input where
  | lt (i : LtIn)                       -- light block on the pubsub topic
  | pendTick                            -- one tick of pendBlockLoop
  | blockReq (r : BlockReq)             -- peer message: block request
  | reqTick                             -- one tick of blockRequestLoop
  | blockResp (decodable : Bool) (key : String)
  | block (key : String)                -- full block that passed validateBlock
  | deniedTick                          -- one tick of manageDeniedPeer
  | dlOld (rd : ReadRes) (hasMessage : Bool) (start end_ : Int)
  | dlNew (rd : ReadRes) (start end_ : Int)
  | dlReply (r : DlReply)
  | version (rd : ReadRes) (sameChannel addrOk : Bool)
  | peerInfo (old : Bool) (rd : ReadRes)
  | peerInfoReply (rd : ReadRes)                      -- answer to queryPeerInfo (height / header announcement of a peer)
  | versionReply (rd : ReadRes) (addrBad : Bool)      -- answer to queryVersion
  | vBlock (b : VBlock)                               -- topic validators (run inline in the pubsub goroutine, no recover)
  | vTx (self decodable : Bool) (t : VTx)
  | vBatch (self decodable : Bool) (txs : List VTx)

/-- (path the input runs on, did it panic) -/
def runInput (s : State) : Input → Path × Bool
  | .lt i => (.recvLt, (recvLt s i).isPanic)
  | .pendTick => (.pendTick, (tick s).isPanic)
  | .blockReq r => (.recvReq, (recvReq s r).isPanic)
  | .reqTick => (.reqTick, (reqTick s).isPanic)
  | .blockResp _ _ => (.recvResp, false)
  | .block _ => (.recvResp, false)
  | .deniedTick => (.deniedTick, (deniedTick s).isPanic)
  | .dlOld rd hm a b => (.dlOld, (dlOld s.chain rd hm a b).isPanic)
  | .dlNew rd a b => (.dlNew, (dlNew s.chain rd a b).isPanic)
  | .dlReply r => (.dlReply, (dlReply r).isPanic)
  | .version rd sc ao => (.version, (version rd sc ao).isPanic)
  | .peerInfo o rd => (.peerInfo, (peerInfo o rd).isPanic)
  | .peerInfoReply rd => (.peerQuery, (queryInfo rd).isPanic)
  | .versionReply rd ab => (.peerQuery, (queryVersion rd ab).isPanic)
  -- the validators contain no index / nil operation on peer data: the model functions are total by construction,
  -- crash-freedom of these three paths (and of the snappy/protobuf decode in front of them) rests on the tie alone
  | .vBlock _ => (.validate, false)
  | .vTx _ _ _ => (.validate, false)
  | .vBatch _ _ _ => (.validate, false)

/-- the process is still alive after the input -/
def nodeSurvives (s : State) (i : Input) : Bool :=
  let r := runInput s i
  !r.2 || recovered r.1

/-- state changes a peer / the environment can cause -/
def applyInput (s : State) : Input → State
  | .lt i => (recvLtTotal s i).1
  | .pendTick => match tick s with | .ok (s', _) => s' | .panic => s
  | .blockReq r => match recvReq s r with | .ok (s', _) => s' | .panic => s
  | .reqTick => match reqTick s with | .ok (s', _) => s' | .panic => s
  | .blockResp d k => (recvResp s d k).1
  | .block k => recvBlock s k
  | .deniedTick => match deniedTick s with | .ok s' => s' | .panic => s
  | .vBlock b => (validateBlock s b).1
  | .vTx sf d t => (validateTx s sf d t).1
  | .vBatch sf d txs => (validateBatch s sf d txs).1
  | _ => s

end C33
