import Chain33Model.Model.C33
/-!
Helper lemmas for C33 / C34: when do the index operations of buildPendBlock stay in range.
-/
namespace C33

theorem setSlot_ok (l : Slots) (k : Nat) (v : TxId) (h : k < l.length) :
    ∃ l', setSlot l k v = .ok l' ∧ l'.length = l.length := by
  induction l generalizing k with
  | nil => simp at h
  | cons x r ih =>
    cases k with
    | zero => exact ⟨some v :: r, rfl, rfl⟩
    | succ k =>
      have hk : k < r.length := by simpa using h
      obtain ⟨l', h1, h2⟩ := ih k hk
      exact ⟨x :: l', by simp [setSlot, h1, Res.map], by simp [h2]⟩

theorem setSlot_panic (l : Slots) (k : Nat) (v : TxId) (h : l.length ≤ k) : setSlot l k v = .panic := by
  induction l generalizing k with
  | nil => rfl
  | cons x r ih =>
    cases k with
    | zero => simp at h
    | succ k =>
      have hk : r.length ≤ k := by simpa using h
      simp [setSlot, ih k hk, Res.map]

theorem expand_ok (g : List TxId) (txs : Slots) (index j : Nat) (h : index + j + g.length ≤ txs.length) :
    ∃ t, expand txs index g j = .ok t ∧ t.length = txs.length := by
  induction g generalizing txs j with
  | nil => exact ⟨txs, rfl, rfl⟩
  | cons a gs ih =>
    have hlt : index + j < txs.length := by simp at h; omega
    obtain ⟨t1, h1, hl1⟩ := setSlot_ok txs (index + j) a hlt
    have h' : index + (j + 1) + gs.length ≤ t1.length := by simp at h; omega
    obtain ⟨t2, h2, hl2⟩ := ih t1 (j + 1) h'
    exact ⟨t2, by simp [expand, h1, h2], by omega⟩

/-- every group reachable through a hash of the block fits behind its slot -/
def GroupsFit (pool : Pool) (hashes : List SH) (n : Nat) : Prop :=
  ∀ i h t, hashes[i]? = some h → pool.get h = some t → i + t.group.length ≤ n

/-- executable check of `GroupsFit` (used for the non-vacuity examples) -/
def groupsFitFrom (pool : Pool) (n : Nat) : List SH → Nat → Bool
  | [], _ => true
  | h :: r, i =>
    (match pool.get h with
     | none => true
     | some t => decide (i + t.group.length ≤ n)) && groupsFitFrom pool n r (i + 1)

theorem groupsFitFrom_sound (pool : Pool) (n : Nat) (l : List SH) (i : Nat) (hb : groupsFitFrom pool n l i = true) :
    ∀ j h t, l[j]? = some h → pool.get h = some t → (i + j) + t.group.length ≤ n := by
  induction l generalizing i with
  | nil => intro j h t hj; simp at hj
  | cons a r ih =>
    simp only [groupsFitFrom, Bool.and_eq_true] at hb
    intro j h t hj hg
    cases j with
    | zero =>
      simp at hj; subst hj
      have := hb.1
      rw [hg] at this
      simpa using this
    | succ j =>
      have := ih (i + 1) hb.2 j h t (by simpa using hj) hg
      omega

theorem groupsFit_of_check (pool : Pool) (hashes : List SH) (n : Nat) (hb : groupsFitFrom pool n hashes 0 = true) :
    GroupsFit pool hashes n := by
  intro i h t hi hg
  have := groupsFitFrom_sound pool n hashes 0 hb i h t hi hg
  omega

/-- work list entries point into the block and carry the hash of their slot -/
def WorkOk (hashes : List SH) (n : Nat) (w : List (Nat × SH)) : Prop :=
  ∀ e ∈ w, e.1 < n ∧ hashes[e.1]? = some e.2

theorem fill_ok (pool : Pool) (hashes : List SH) (w : List (Nat × SH)) (txs : Slots) (ok : Bool)
    (hw : WorkOk hashes txs.length w) (hg : GroupsFit pool hashes txs.length) :
    ∃ r, fill pool w txs ok = .ok r ∧ r.1.length = txs.length := by
  induction w generalizing txs ok with
  | nil => exact ⟨(txs, ok), rfl, rfl⟩
  | cons e w ih =>
    obtain ⟨index, h⟩ := e
    have he := hw (index, h) (by simp)
    have hw' : WorkOk hashes txs.length w := fun e he' => hw e (by simp [he'])
    have hlt : index < txs.length := he.1
    have hget : txs[index]? = some txs[index] := List.getElem?_eq_getElem hlt
    unfold fill
    rw [hget]
    cases hx : txs[index] with
    | some v => simpa using ih txs ok hw' hg
    | none =>
      simp only
      cases hp : pool.get h with
      | none => simpa using ih txs false hw' hg
      | some t =>
        simp only
        obtain ⟨t1, h1, hl1⟩ := setSlot_ok txs index t.id hlt
        have hfit := hg index h t he.2 hp
        obtain ⟨t2, h2, hl2⟩ := expand_ok t.group t1 index 0 (by omega)
        rw [h1]; simp only; rw [h2]; simp only
        have hl : t2.length = txs.length := by omega
        obtain ⟨r, hr, hrl⟩ := ih t2 ok (by rw [hl]; exact hw') (by rw [hl]; exact hg)
        exact ⟨r, hr, by omega⟩

theorem missing_ok (hashes : List SH) (txs : Slots) (i n : Nat) (hn : i + txs.length = n) (h : n ≤ hashes.length) :
    ∃ w, missing hashes txs i = .ok w ∧ WorkOk hashes n w := by
  induction txs generalizing i with
  | nil => exact ⟨[], rfl, fun e he => by simp at he⟩
  | cons x r ih =>
    have hn' : (i + 1) + r.length = n := by simp at hn; omega
    obtain ⟨w, hw, hwo⟩ := ih (i + 1) hn'
    cases x with
    | some v => exact ⟨w, by simp [missing, hw], hwo⟩
    | none =>
      have hi : i < hashes.length := by simp at hn; omega
      have hget : hashes[i]? = some hashes[i] := List.getElem?_eq_getElem hi
      refine ⟨(i, hashes[i]) :: w, by simp [missing, hget, hw, Res.map], ?_⟩
      intro e he
      simp at he
      rcases he with rfl | he
      · exact ⟨by simp at hn; omega, hget⟩
      · exact hwo e he

/-- a queued / fresh pending block on which buildPendBlock cannot index out of range -/
def PendOk (pool : Pool) (pd : Pend) : Prop :=
  pd.txs.length ≤ pd.hashes.length ∧ GroupsFit pool pd.hashes pd.txs.length

theorem build_ok (pool : Pool) (pd : Pend) (h : PendOk pool pd) :
    ∃ r, build pool pd = .ok r ∧ r.pd.txs.length = pd.txs.length ∧ r.pd.hashes = pd.hashes := by
  unfold build
  split
  · exact ⟨_, rfl, rfl, rfl⟩
  · obtain ⟨w, hw, hwo⟩ := missing_ok pd.hashes pd.txs 0 pd.txs.length (by simp) h.1
    rw [hw]; simp only
    split
    · exact ⟨_, rfl, rfl, rfl⟩
    · obtain ⟨r, hr, hrl⟩ := fill_ok pool pd.hashes w pd.txs true hwo h.2
      rw [hr]
      obtain ⟨txs, ok⟩ := r
      simp only
      split
      · exact ⟨_, rfl, by simpa using hrl, rfl⟩
      · exact ⟨_, rfl, by simpa using hrl, rfl⟩

theorem pendList_ok (pool : Pool) (now timeout : Int) (l : List Pend) (h : ∀ pd ∈ l, PendOk pool pd) :
    ∃ r, pendList pool now timeout l = .ok r := by
  induction l with
  | nil => exact ⟨_, rfl⟩
  | cons pd rest ih =>
    obtain ⟨r, hr, _⟩ := build_ok pool pd (h pd (by simp))
    obtain ⟨r2, hr2⟩ := ih (fun q hq => h q (by simp [hq]))
    unfold pendList
    rw [hr]; simp only; rw [hr2]
    obtain ⟨keep, posted, tmo⟩ := r2
    simp only
    split
    · split <;> exact ⟨_, rfl⟩
    · split <;> exact ⟨_, rfl⟩

theorem reqList_ok (s : State) (l : List BlockReq) (h : s.chain ≠ .items 0) : ∃ r, reqList s l = .ok r := by
  induction l with
  | nil => exact ⟨_, rfl⟩
  | cons q rest ih =>
    obtain ⟨r, hr⟩ := ih
    have hq : ∃ o, handleReq s q = .ok o := by
      unfold handleReq
      split
      · exact ⟨_, rfl⟩
      · cases hc : s.chain with
        | err => exact ⟨_, rfl⟩
        | items n =>
          cases n with
          | zero => exact absurd hc h
          | succ n => exact ⟨_, rfl⟩
    obtain ⟨o, ho⟩ := hq
    unfold reqList
    rw [ho]; simp only; rw [hr]
    obtain ⟨keep, outs⟩ := r
    cases o <;> exact ⟨_, rfl⟩

/-! ### inputs (definitions used by the property statements of Props/C33.lean) -/

/-- everything a peer can trigger, including the later background processing of stored input -/
inductive Input where
  | lt (i : LtIn)                       -- light block on the pubsub topic
  | pendTick                            -- one tick of pendBlockLoop
  | blockReq (r : BlockReq)             -- peer message: block request
  | reqTick                             -- one tick of blockRequestLoop
  | blockResp (decodable : Bool) (key : String)
  | block (key : String)                -- full block that passed validateBlock
  | deniedTick                          -- one tick of manageDeniedPeer
  | dlOld (rd : ReadRes) (hasMessage : Bool) (start end_ : Int)
  | dlNew (rd : ReadRes) (start end_ : Int)
  | dlReply (r : DlReply)
  | version (rd : ReadRes) (sameChannel addrOk : Bool)
  | peerInfo (old : Bool) (rd : ReadRes)

/-- (path the input runs on, did it panic) -/
def runInput (s : State) : Input → Path × Bool
  | .lt i => (.recvLt, (recvLt s i).isPanic)
  | .pendTick => (.pendTick, (tick s).isPanic)
  | .blockReq r => (.recvReq, (recvReq s r).isPanic)
  | .reqTick => (.reqTick, (reqTick s).isPanic)
  | .blockResp _ _ => (.recvResp, false)
  | .block _ => (.recvResp, false)
  | .deniedTick => (.deniedTick, (deniedTick s).isPanic)
  | .dlOld rd hm a b => (.dlOld, (dlOld s.chain rd hm a b).isPanic)
  | .dlNew rd a b => (.dlNew, (dlNew s.chain rd a b).isPanic)
  | .dlReply r => (.dlReply, (dlReply r).isPanic)
  | .version rd sc ao => (.version, (version rd sc ao).isPanic)
  | .peerInfo o rd => (.peerInfo, (peerInfo o rd).isPanic)

/-- the process is still alive after the input -/
def nodeSurvives (s : State) (i : Input) : Bool :=
  let r := runInput s i
  !r.2 || recovered r.1

/-- state changes a peer / the environment can cause -/
def applyInput (s : State) : Input → State
  | .lt i => (recvLtTotal s i).1
  | .pendTick => match tick s with | .ok (s', _) => s' | .panic => s
  | .blockReq r => match recvReq s r with | .ok (s', _) => s' | .panic => s
  | .reqTick => match reqTick s with | .ok (s', _) => s' | .panic => s
  | .blockResp d k => (recvResp s d k).1
  | .block k => recvBlock s k
  | .deniedTick => match deniedTick s with | .ok s' => s' | .panic => s
  | _ => s

end C33
