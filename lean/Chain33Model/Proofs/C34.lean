import Chain33Model.Proofs.C33
/-!
C34 helper lemmas: buildPendBlock on an honest light block whose transactions are all in the pool
fills every slot with the original transaction, groups expanded in place.
-/
namespace C33

/-- the work list buildPendBlock derives for consecutive empty slots starting at index k -/
def enumWork : Nat → List SH → List (Nat × SH)
  | _, [] => []
  | k, h :: r => (k, h) :: enumWork (k + 1) r

theorem enumWork_append (k : Nat) (a b : List SH) :
    enumWork k (a ++ b) = enumWork k a ++ enumWork (k + a.length) b := by
  induction a generalizing k with
  | nil => simp [enumWork]
  | cons x r ih => simp [enumWork, ih, Nat.add_assoc, Nat.add_comm 1]

theorem missing_replicate (hashes : List SH) (pre hs : List SH) (post : List SH) (hh : hashes = pre ++ hs ++ post) :
    missing hashes (List.replicate hs.length none) pre.length = .ok (enumWork pre.length hs) := by
  induction hs generalizing pre with
  | nil => simp [missing, enumWork]
  | cons h r ih =>
    have hget : hashes[pre.length]? = some h := by rw [hh]; simp
    have := ih (pre ++ [h]) (by rw [hh]; simp)
    simp only [List.length_append, List.length_cons, List.length_nil, Nat.zero_add] at this
    simp [List.replicate_succ, missing, hget, this, Res.map, enumWork]

theorem getElem?_pre (pre : Slots) (x : Option TxId) (post : Slots) : (pre ++ x :: post)[pre.length]? = some x := by
  simp

theorem setSlot_at (pre : Slots) (x : Option TxId) (post : Slots) (v : TxId) :
    setSlot (pre ++ x :: post) pre.length v = .ok (pre ++ some v :: post) := by
  induction pre with
  | nil => simp [setSlot]
  | cons a r ih => simp [setSlot, ih, Res.map]

/-- group expansion writes the members over the slots behind `index` -/
theorem expand_at (pre : Slots) (g : List TxId) :
    ∀ (done ys post : Slots), ys.length = g.length →
      expand (pre ++ done ++ ys ++ post) pre.length g done.length = .ok (pre ++ done ++ g.map some ++ post) := by
  induction g with
  | nil => intro done ys post h; simp at h; subst h; simp [expand]
  | cons a gs ih =>
    intro done ys post h
    cases ys with
    | nil => simp at h
    | cons y ys =>
      have hset : setSlot (pre ++ done ++ (y :: ys) ++ post) (pre.length + done.length) a =
          .ok (pre ++ done ++ (some a :: ys) ++ post) := by
        have := setSlot_at (pre ++ done) y (ys ++ post) a
        simpa [List.append_assoc] using this
      simp only [expand, hset]
      have := ih (done ++ [some a]) ys post (by simpa using h)
      simpa [List.append_assoc] using this

/-- slots already filled are skipped -/
theorem fill_skip (pool : Pool) (pre : Slots) (filled : List TxId) (post : Slots) (hs : List SH) (w : List (Nat × SH))
    (ok : Bool) (hl : hs.length = filled.length) :
    fill pool (enumWork pre.length hs ++ w) (pre ++ filled.map some ++ post) ok =
      fill pool w (pre ++ filled.map some ++ post) ok := by
  induction hs generalizing pre filled with
  | nil => simp [enumWork]
  | cons h r ih =>
    cases filled with
    | nil => simp at hl
    | cons t ts =>
      have hget : (pre ++ (t :: ts).map some ++ post)[pre.length]? = some (some t) := by simp
      have := ih (pre ++ [some t]) ts (by simpa using hl)
      simp only [List.length_append, List.length_cons, List.length_nil, Nat.zero_add] at this
      simp only [enumWork, List.cons_append, fill, hget]
      simpa [List.append_assoc] using this

/-- one segment (a single transaction, or a whole group) whose head is in the pool -/
theorem fill_segment (pool : Pool) (sh : TxId → SH) (t : TxId) (rest : List TxId) (pre post : Slots)
    (w : List (Nat × SH)) (ok : Bool)
    (hp : pool.get (sh t) = some ⟨t, if rest = [] then [] else t :: rest⟩) :
    fill pool (enumWork pre.length ((t :: rest).map sh) ++ w) (pre ++ List.replicate (t :: rest).length none ++ post) ok =
      fill pool w (pre ++ (t :: rest).map some ++ post) ok := by
  have hget : (pre ++ List.replicate (t :: rest).length none ++ post)[pre.length]? = some none := by
    simp [List.replicate_succ]
  have hset : setSlot (pre ++ List.replicate (t :: rest).length none ++ post) pre.length t =
      .ok (pre ++ some t :: (List.replicate rest.length none ++ post)) := by
    have := setSlot_at pre none (List.replicate rest.length none ++ post) t
    simpa [List.replicate_succ, List.append_assoc] using this
  cases rest with
  | nil =>
    simp only [if_true] at hp
    have hfit : ¬ (pre.length + ([] : List TxId).length > (pre ++ List.replicate [t].length none ++ post).length) := by
      simp
    simp only [List.map_cons, List.map_nil, enumWork, List.cons_append, List.nil_append, fill, hget, hp, hfit, if_false, hset]
    simp [expand]
  | cons r rs =>
    simp only [List.cons_ne_nil, if_false] at hp
    have hfit : ¬ (pre.length + (t :: r :: rs).length >
        (pre ++ List.replicate (t :: r :: rs).length none ++ post).length) := by
      simp
    have hw : enumWork pre.length ((t :: r :: rs).map sh) =
        (pre.length, sh t) :: enumWork (pre.length + 1) ((r :: rs).map sh) := rfl
    rw [hw]
    simp only [List.cons_append, fill, hget, hp, hfit, if_false, hset]
    have hexp := expand_at pre (t :: r :: rs) [] (some t :: List.replicate (r :: rs).length none) post (by simp)
    simp only [List.append_nil, List.length_nil] at hexp
    have hexp' : expand (pre ++ some t :: (List.replicate (r :: rs).length none ++ post)) pre.length (t :: r :: rs) 0 =
        .ok (pre ++ (t :: r :: rs).map some ++ post) := by
      simpa [List.append_assoc] using hexp
    rw [hexp']
    simp only
    have hskip := fill_skip pool (pre ++ [some t]) (r :: rs) post ((r :: rs).map sh) w ok (by simp)
    simp only [List.length_append, List.length_cons, List.length_nil, Nat.zero_add] at hskip
    simpa [List.append_assoc] using hskip

/-- every segment's head is in the pool under its short hash, carrying the whole group when it is one -/
def Available (pool : Pool) (sh : TxId → SH) (segs : List (List TxId)) : Prop :=
  ∀ seg ∈ segs, ∃ t rest, seg = t :: rest ∧ pool.get (sh t) = some ⟨t, if rest = [] then [] else t :: rest⟩

theorem fill_segments (pool : Pool) (sh : TxId → SH) (segs : List (List TxId)) (hav : Available pool sh segs) :
    ∀ (pre : Slots) (ok : Bool),
      fill pool (enumWork pre.length (segs.flatten.map sh)) (pre ++ List.replicate segs.flatten.length none) ok =
        .ok (pre ++ segs.flatten.map some, ok) := by
  induction segs with
  | nil => intro pre ok; simp [enumWork, fill]
  | cons seg segs ih =>
    intro pre ok
    obtain ⟨t, rest, rfl, hp⟩ := hav (seg) (by simp)
    have hav' : Available pool sh segs := fun s hs => hav s (by simp [hs])
    have h1 := fill_segment pool sh t rest pre (List.replicate segs.flatten.length none)
      (enumWork (pre.length + (t :: rest).length) (segs.flatten.map sh)) ok hp
    have h2 := ih hav' (pre ++ (t :: rest).map some) ok
    have e1 : enumWork pre.length (((t :: rest) :: segs).flatten.map sh) =
        enumWork pre.length ((t :: rest).map sh) ++ enumWork (pre.length + (t :: rest).length) (segs.flatten.map sh) := by
      rw [List.flatten_cons, List.map_append, enumWork_append, List.length_map]
    have e2 : pre ++ List.replicate ((t :: rest) :: segs).flatten.length none =
        pre ++ List.replicate (t :: rest).length none ++ List.replicate segs.flatten.length none := by
      rw [List.flatten_cons, List.length_append, ← List.replicate_append_replicate, List.append_assoc]
    have h2' : fill pool (enumWork (pre.length + (t :: rest).length) (segs.flatten.map sh))
        (pre ++ (t :: rest).map some ++ List.replicate segs.flatten.length none) ok =
        .ok (pre ++ (t :: rest).map some ++ segs.flatten.map some, ok) := by
      simpa using h2
    rw [e1, e2, h1, h2']
    simp [List.append_assoc]

end C33

namespace C33

/-! ### the pool as a map: first push wins -/

theorem Pool.get_push_same (p : Pool) (h : SH) (t : PoolTx) (hn : p.get h = none) : (p.push h t).get h = some t := by
  unfold Pool.push
  rw [hn]
  unfold Pool.get at hn ⊢
  simp only
  split at hn
  · simp at hn
  · rename_i hf
    rw [List.find?_append, hf]
    simp

theorem Pool.get_push_other (p : Pool) (h h' : SH) (t : PoolTx) (hne : h' ≠ h) : (p.push h t).get h' = p.get h' := by
  unfold Pool.push
  cases hg : p.get h with
  | some _ => rfl
  | none =>
    unfold Pool.get
    simp only
    rw [List.find?_append]
    cases hf : List.find? (fun e => e.1 == h') p.ents with
    | some e => simp
    | none =>
      have : ¬ (h == h') = true := by simpa using fun e => hne e.symm
      simp [this]

theorem Pool.get_push_keep (p : Pool) (h h' : SH) (t u : PoolTx) (hs : p.get h' = some u) : (p.push h t).get h' = some u := by
  by_cases e : h' = h
  · subst e
    unfold Pool.push; rw [hs]; exact hs
  · rw [Pool.get_push_other p h h' t e]; exact hs

/-- what the mempool indexes for a segment: the transaction, or the group head carrying the whole group -/
def segEntry : List TxId → Option (TxId × PoolTx)
  | [] => none
  | t :: rest => some (t, ⟨t, if rest = [] then [] else t :: rest⟩)

def pushSeg (sh : TxId → SH) (p : Pool) (seg : List TxId) : Pool :=
  match segEntry seg with
  | none => p
  | some (t, e) => p.push (sh t) e

def pushAll (sh : TxId → SH) (p : Pool) : List (List TxId) → Pool
  | [] => p
  | seg :: r => pushAll sh (pushSeg sh p seg) r

theorem pushAll_keep (sh : TxId → SH) (segs : List (List TxId)) (p : Pool) (h : SH) (u : PoolTx) (hs : p.get h = some u) :
    (pushAll sh p segs).get h = some u := by
  induction segs generalizing p with
  | nil => exact hs
  | cons seg r ih =>
    apply ih
    unfold pushSeg
    cases seg with
    | nil => exact hs
    | cons t rest => exact Pool.get_push_keep p (sh t) h _ u hs

/-- heads of the segments -/
def heads : List (List TxId) → List TxId
  | [] => []
  | [] :: r => heads r
  | (t :: _) :: r => t :: heads r

/-- **all transactions available ∧ short hashes pairwise distinct ⇒ `Available`**: pushing every segment of the
block into a pool that holds none of their short hashes makes every head retrievable by its short hash -/
theorem available_of_pushes (sh : TxId → SH) (segs : List (List TxId)) (p : Pool)
    (hne : ∀ seg ∈ segs, seg ≠ [])
    (hdist : ((heads segs).map sh).Nodup) (hfree : ∀ t ∈ heads segs, p.get (sh t) = none) :
    Available (pushAll sh p segs) sh segs := by
  induction segs generalizing p with
  | nil => intro seg hs; simp at hs
  | cons seg r ih =>
    cases seg with
    | nil => exact absurd rfl (hne [] (by simp))
    | cons t rest =>
      simp only [heads, List.map_cons, List.nodup_cons] at hdist
      have hfree' : ∀ u ∈ heads r, (pushSeg sh p (t :: rest)).get (sh u) = none := by
        intro u hu
        have hne' : sh u ≠ sh t := by
          intro e; exact hdist.1 (e ▸ List.mem_map_of_mem hu)
        unfold pushSeg
        simp only [segEntry]
        rw [Pool.get_push_other _ _ _ _ hne']
        exact hfree u (by simp [heads, hu])
      have ih' := ih (pushSeg sh p (t :: rest)) (fun s hs => hne s (by simp [hs])) hdist.2 hfree'
      intro seg hs
      simp at hs
      rcases hs with rfl | hs
      · refine ⟨t, rest, rfl, ?_⟩
        simp only [pushAll]
        apply pushAll_keep
        unfold pushSeg
        simp only [segEntry]
        exact Pool.get_push_same p (sh t) _ (hfree t (by simp [heads]))
      · exact ih' seg hs

/-! ### what a tick does with each queued block -/

theorem build_meta (pool : Pool) (pd : Pend) (r : BuildOut) (h : build pool pd = .ok r) :
    r.pd.sender = pd.sender ∧ r.pd.height = pd.height ∧ r.pd.key = pd.key ∧ r.pd.recvT = pd.recvT := by
  unfold build at h
  split at h
  · simp at h; subst h; simp
  · split at h
    · simp at h
    · split at h
      · simp at h; subst h; simp
      · split at h
        · simp at h
        · split at h
          · simp at h
          · rename_i txs ok _
            split at h <;> (simp at h; subst h; simp)

theorem pendList_mem (pool : Pool) (now timeout : Int) (l : List Pend) (keep : List Pend)
    (posted : List (Slots × Pend)) (tmo : List Pend) (h : pendList pool now timeout l = .ok (keep, posted, tmo))
    (pd : Pend) (hpd : pd ∈ l) :
    ∃ r, build pool pd = .ok r ∧
      (r.done = false → now - pd.recvT ≥ timeout → r.pd ∈ tmo) ∧
      (r.done = false → now - pd.recvT < timeout → r.pd ∈ keep) ∧
      (∀ t, r.done = true → r.posted = some t → (t, r.pd) ∈ posted) := by
  induction l generalizing keep posted tmo with
  | nil => simp at hpd
  | cons a rest ih =>
    unfold pendList at h
    split at h
    · simp at h
    · rename_i ra hra
      split at h
      · simp at h
      · rename_i keep' posted' tmo' hrest
        simp at hpd
        rcases hpd with rfl | hpd
        · refine ⟨ra, hra, ?_, ?_, ?_⟩
          · intro hd hl
            simp [hd, hl] at h
            obtain ⟨_, _, rfl⟩ := h; simp
          · intro hd hl
            have : ¬ (now - pd.recvT ≥ timeout) := by omega
            simp [hd, this] at h
            obtain ⟨rfl, _, _⟩ := h; simp
          · intro t hd hp
            simp [hd, hp] at h
            obtain ⟨_, rfl, _⟩ := h; simp
        · obtain ⟨r, hr, h1, h2, h3⟩ := ih keep' posted' tmo' hrest hpd
          refine ⟨r, hr, ?_, ?_, ?_⟩
          · intro hd hl
            have := h1 hd hl
            split at h
            · split at h <;> (simp at h; obtain ⟨_, _, rfl⟩ := h; exact this)
            · split at h
              · simp at h; obtain ⟨_, _, rfl⟩ := h; simp [this]
              · simp at h; obtain ⟨_, _, rfl⟩ := h; exact this
          · intro hd hl
            have := h2 hd hl
            split at h
            · split at h <;> (simp at h; obtain ⟨rfl, _, _⟩ := h; exact this)
            · split at h
              · simp at h; obtain ⟨rfl, _, _⟩ := h; exact this
              · simp at h; obtain ⟨rfl, _, _⟩ := h; simp [this]
          · intro t hd hp
            have := h3 t hd hp
            split at h
            · split at h
              · simp at h; obtain ⟨_, rfl, _⟩ := h; simp [this]
              · simp at h; obtain ⟨_, rfl, _⟩ := h; exact this
            · split at h <;> (simp at h; obtain ⟨_, rfl, _⟩ := h; exact this)

end C33

namespace C33

/-! ### some segments in the pool, some not -/

/-- a segment none of whose short hashes is in the pool leaves its slots empty and clears `buildSuccess` -/
theorem fill_absent (pool : Pool) (sh : TxId → SH) (l : List TxId) :
    ∀ (pre post : Slots) (w : List (Nat × SH)) (ok : Bool), (∀ t ∈ l, pool.get (sh t) = none) →
      fill pool (enumWork pre.length (l.map sh) ++ w) (pre ++ List.replicate l.length none ++ post) ok =
        fill pool w (pre ++ List.replicate l.length none ++ post) (ok && l.isEmpty) := by
  induction l with
  | nil => intro pre post w ok _; simp [enumWork]
  | cons t r ih =>
    intro pre post w ok hab
    have hget : (pre ++ List.replicate (t :: r).length none ++ post)[pre.length]? = some none := by
      simp [List.replicate_succ]
    have hnone := hab t (by simp)
    simp only [List.map_cons, enumWork, List.cons_append, fill, hget, hnone]
    have := ih (pre ++ [none]) post w false (fun x hx => hab x (by simp [hx]))
    simp only [List.length_append, List.length_cons, List.length_nil, Nat.zero_add, Bool.false_and] at this
    simpa [List.replicate_succ, List.append_assoc] using this

/-- a segment with its availability mark -/
abbrev Marked := List TxId × Bool

def SegOk (pool : Pool) (sh : TxId → SH) (m : Marked) : Prop :=
  if m.2 then ∃ t rest, m.1 = t :: rest ∧ pool.get (sh t) = some ⟨t, if rest = [] then [] else t :: rest⟩
  else m.1 ≠ [] ∧ ∀ t ∈ m.1, pool.get (sh t) = none

def segSlots (m : Marked) : Slots := if m.2 then m.1.map some else List.replicate m.1.length none

def flatOf (marks : List Marked) : List TxId := (marks.map (·.1)).flatten

theorem fill_mixed (pool : Pool) (sh : TxId → SH) (marks : List Marked) (hok : ∀ m ∈ marks, SegOk pool sh m) :
    ∀ (pre : Slots) (ok : Bool),
      fill pool (enumWork pre.length ((flatOf marks).map sh)) (pre ++ List.replicate (flatOf marks).length none) ok =
        .ok (pre ++ (marks.map segSlots).flatten, ok && marks.all (·.2)) := by
  induction marks with
  | nil => intro pre ok; simp [flatOf, enumWork, fill]
  | cons m marks ih =>
    intro pre ok
    obtain ⟨seg, b⟩ := m
    have hok' : ∀ m ∈ marks, SegOk pool sh m := fun x hx => hok x (by simp [hx])
    have hm := hok (seg, b) (by simp)
    have e1 : enumWork pre.length ((flatOf ((seg, b) :: marks)).map sh) =
        enumWork pre.length (seg.map sh) ++ enumWork (pre.length + seg.length) ((flatOf marks).map sh) := by
      simp only [flatOf, List.map_cons, List.flatten_cons]
      rw [List.map_append, enumWork_append, List.length_map]
    have e2 : pre ++ List.replicate (flatOf ((seg, b) :: marks)).length none =
        pre ++ List.replicate seg.length none ++ List.replicate (flatOf marks).length none := by
      simp only [flatOf, List.map_cons, List.flatten_cons]
      rw [List.length_append, ← List.replicate_append_replicate, List.append_assoc]
    rw [e1, e2]
    cases b with
    | true =>
      simp only [SegOk, if_true] at hm
      obtain ⟨t, rest, rfl, hp⟩ := hm
      rw [fill_segment pool sh t rest pre _ _ ok hp]
      have h2 := ih hok' (pre ++ (t :: rest).map some) ok
      simp only [List.length_append, List.length_map] at h2
      rw [h2]
      simp [segSlots, List.append_assoc]
    | false =>
      simp only [SegOk, Bool.false_eq_true, if_false] at hm
      rw [fill_absent pool sh seg pre _ _ ok hm.2]
      have hne : seg.isEmpty = false := by cases seg with | nil => exact absurd rfl hm.1 | cons _ _ => rfl
      have h2 := ih hok' (pre ++ List.replicate seg.length none) (ok && seg.isEmpty)
      simp only [List.length_append, List.length_replicate] at h2
      rw [h2]
      simp [segSlots, hne, List.append_assoc]

theorem segSlots_all (marks : List Marked) (h : marks.all (·.2) = true) :
    (marks.map segSlots).flatten = (flatOf marks).map some := by
  induction marks with
  | nil => rfl
  | cons m r ih =>
    simp only [List.all_cons, Bool.and_eq_true] at h
    have := ih h.2
    simp only [flatOf] at this ⊢
    simp [segSlots, h.1, this]

/-- where the timed-out blocks of a pass come from: only blocks whose rebuild failed at this very pass -/
theorem pendList_tmo_origin (pool : Pool) (now timeout : Int) (l : List Pend) (keep : List Pend)
    (posted : List (Slots × Pend)) (tmo : List Pend) (h : pendList pool now timeout l = .ok (keep, posted, tmo))
    (x : Pend) (hx : x ∈ tmo) :
    ∃ pd ∈ l, ∃ r, build pool pd = .ok r ∧ r.done = false ∧ now - pd.recvT ≥ timeout ∧ x = r.pd := by
  induction l generalizing keep posted tmo with
  | nil => simp [pendList] at h; obtain ⟨_, _, rfl⟩ := h; simp at hx
  | cons a rest ih =>
    unfold pendList at h
    split at h
    · simp at h
    · rename_i ra hra
      split at h
      · simp at h
      · rename_i keep' posted' tmo' hrest
        have lift : x ∈ tmo' → ∃ pd ∈ a :: rest, ∃ r, build pool pd = .ok r ∧ r.done = false ∧ now - pd.recvT ≥ timeout ∧ x = r.pd := by
          intro hx'
          obtain ⟨pd, hpd, r, h1, h2, h3, h4⟩ := ih keep' posted' tmo' hrest hx'
          exact ⟨pd, by simp [hpd], r, h1, h2, h3, h4⟩
        split at h
        · split at h <;> (simp at h; obtain ⟨_, _, rfl⟩ := h; exact lift hx)
        · rename_i hnd
          split at h
          · rename_i hlate
            simp at h; obtain ⟨_, _, rfl⟩ := h
            simp at hx
            rcases hx with rfl | hx
            · exact ⟨a, by simp, ra, hra, by simpa using hnd, hlate, rfl⟩
            · exact lift hx
          · simp at h; obtain ⟨_, _, rfl⟩ := h; exact lift hx

/-! ### a queued block that was partly filled, then the rest arrives -/

theorem missing_append (hashes : List SH) (a b : Slots) (i : Nat) :
    missing hashes (a ++ b) i =
      match missing hashes a i with
      | .panic => .panic
      | .ok w1 => (missing hashes b (i + a.length)).map (fun w2 => w1 ++ w2) := by
  induction a generalizing i with
  | nil => simp [missing]; cases missing hashes b i <;> simp [Res.map]
  | cons x r ih =>
    cases x with
    | some v =>
      simp only [List.cons_append, missing, ih (i + 1), List.length_cons]
      have : i + 1 + r.length = i + (r.length + 1) := by omega
      rw [this]
    | none =>
      simp only [List.cons_append, missing, List.length_cons]
      cases hashes[i]? with
      | none => rfl
      | some h =>
        simp only [ih (i + 1)]
        have : i + 1 + r.length = i + (r.length + 1) := by omega
        rw [this]
        cases missing hashes r (i + 1) with
        | panic => simp [Res.map]
        | ok w1 => cases missing hashes b (i + (r.length + 1)) <;> simp [Res.map]

theorem missing_somes (hashes : List SH) (l : List TxId) (i : Nat) : missing hashes (l.map some) i = .ok [] := by
  induction l generalizing i with
  | nil => rfl
  | cons a r ih => simp [missing, ih]

/-- the work list of the second attempt: only the segments that were absent the first time -/
def workOf (sh : TxId → SH) : List Marked → Nat → List (Nat × SH)
  | [], _ => []
  | (seg, true) :: r, k => workOf sh r (k + seg.length)
  | (seg, false) :: r, k => enumWork k (seg.map sh) ++ workOf sh r (k + seg.length)

theorem missing_marks (sh : TxId → SH) (hashes : List SH) (marks : List Marked) :
    ∀ (pre post : List SH), hashes = pre ++ (flatOf marks).map sh ++ post →
      missing hashes ((marks.map segSlots).flatten) pre.length = .ok (workOf sh marks pre.length) := by
  induction marks with
  | nil => intro pre post _; simp [missing, workOf]
  | cons m r ih =>
    intro pre post hh
    obtain ⟨seg, b⟩ := m
    have hh' : hashes = (pre ++ seg.map sh) ++ (flatOf r).map sh ++ post := by
      rw [hh]; simp [flatOf]
    have ihr := ih (pre ++ seg.map sh) post hh'
    simp only [List.length_append, List.length_map] at ihr
    simp only [List.map_cons, List.flatten_cons, missing_append]
    cases b with
    | true =>
      simp only [segSlots, if_true, missing_somes, List.length_map, ihr, workOf, Res.map, List.nil_append]
    | false =>
      have hm := missing_replicate hashes pre (seg.map sh) ((flatOf r).map sh ++ post) (by rw [hh]; simp [flatOf])
      simp only [List.length_map] at hm
      simp only [segSlots, Bool.false_eq_true, if_false, hm, List.length_replicate, ihr, workOf, Res.map]

theorem fill_marks (pool : Pool) (sh : TxId → SH) (marks : List Marked)
    (hav : Available pool sh (marks.map (·.1))) :
    ∀ (pre post : Slots) (w : List (Nat × SH)) (ok : Bool),
      fill pool (workOf sh marks pre.length ++ w) (pre ++ (marks.map segSlots).flatten ++ post) ok =
        fill pool w (pre ++ (flatOf marks).map some ++ post) ok := by
  induction marks with
  | nil => intro pre post w ok; simp [workOf, flatOf]
  | cons m r ih =>
    intro pre post w ok
    obtain ⟨seg, b⟩ := m
    have hav' : Available pool sh (r.map (·.1)) := fun s hs => hav s (by simp [hs])
    have ihr := ih hav' (pre ++ seg.map some) post w ok
    simp only [List.length_append, List.length_map] at ihr
    cases b with
    | true =>
      simp only [workOf, List.map_cons, List.flatten_cons, segSlots, if_true]
      simpa [flatOf, List.append_assoc] using ihr
    | false =>
      obtain ⟨t, rest, hseg, hp⟩ := hav seg (by simp)
      subst hseg
      simp only [workOf, List.map_cons, List.flatten_cons, segSlots, Bool.false_eq_true, if_false, List.append_assoc]
      have hs := fill_segment pool sh t rest pre ((r.map segSlots).flatten ++ post)
        (workOf sh r (pre.length + (t :: rest).length) ++ w) ok hp
      have hw : enumWork pre.length (sh t :: List.map sh rest) = enumWork pre.length (List.map sh (t :: rest)) := rfl
      simp only [List.append_assoc] at hs
      rw [hw, hs]
      simpa [flatOf, List.append_assoc] using ihr

theorem postChain_pend (s : State) (key : String) : (postChain s key).pend = s.pend := by
  unfold postChain; split <;> rfl

end C33
