import Chain33Model.Model.C35
/-!
C35 helper lemmas (model of the repaired code): a potential that strictly decreases with every worker
step; per-worker invariants (own list without duplicates, asked peers pairwise distinct and no longer in
the list, delivered height = requested height); a worker alone.
-/
namespace C35

/-- remaining-steps potential of one worker -/
def mu (wk : Worker) : Nat :=
  match wk.phase with
  | .ready => 2 * (52 - wk.retry)
  | .fetching _ => 2 * (52 - wk.retry) + 1
  | _ => 0

def phi : List Worker → Nat
  | [] => 0
  | wk :: r => mu wk + phi r

/-- per-worker invariant -/
structure WInv (wk : Worker) : Prop where
  tries : (wk.phase = .ready ∨ ∃ p, wk.phase = .fetching p) → wk.retry ≤ maxTry
  viewNodup : wk.view.Nodup
  askedNodup : wk.asked.Nodup
  askedGone : ∀ q ∈ wk.asked, q ∈ wk.view → wk.phase = .fetching q ∨ ∃ h, wk.phase = .delivered q h
  rightHeight : ∀ p h, wk.phase = .delivered p h → h = wk.height

def Inv (s : State) : Prop := ∀ wk ∈ s.workers, WInv wk

theorem phi_set (l : List Worker) (w : Nat) (wk x : Worker) (h : l[w]? = some wk) (hx : mu x < mu wk) :
    phi (l.set w x) < phi l := by
  induction l generalizing w with
  | nil => simp at h
  | cons a r ih =>
    cases w with
    | zero =>
      simp at h; subst h
      simp [phi]; omega
    | succ w =>
      have := ih w (by simpa using h)
      simp [phi]; omega

theorem inv_set (l : List Worker) (w : Nat) (x : Worker) (h : ∀ wk ∈ l, WInv wk) (hx : WInv x) :
    ∀ wk ∈ l.set w x, WInv wk := by
  intro wk hwk
  rcases List.mem_or_eq_of_mem_set hwk with h1 | h1
  · exact h wk h1
  · subst h1; exact hx

theorem avail_mem (tn : Nat → Nat) (ph : Nat → Int) (h : Int) (lim : Nat) (l : List Nat) (p : Nat)
    (ha : avail tn ph h lim l = some p) : p ∈ l := by
  induction l with
  | nil => simp [avail] at ha
  | cons a r ih =>
    simp only [avail] at ha
    split at ha
    · exact List.mem_cons_of_mem _ (ih ha)
    · split at ha
      · simp at ha; subst ha; simp
      · exact List.mem_cons_of_mem _ (ih ha)

/-- every enabled step keeps the invariant and strictly decreases the potential -/
theorem step_decreases (s s' : State) (l : Label) (o : Out) (hi : Inv s) (h : step s l = some (s', o)) :
    Inv s' ∧ phi s'.workers < phi s.workers := by
  cases l with
  | pick w =>
    simp only [step] at h
    split at h
    · simp at h
    · rename_i wk hw
      have hwi : WInv wk := hi wk (List.mem_of_getElem? hw)
      split at h
      · simp at h
      · rename_i hready
        have hready' : wk.phase = .ready := by simpa using hready
        have hr : wk.retry ≤ maxTry := hwi.tries (Or.inl hready')
        unfold maxTry at hr
        have hgone : ∀ q ∈ wk.asked, q ∉ wk.view := by
          intro q hq hv
          rcases hwi.askedGone q hq hv with h1 | ⟨_, h1⟩ <;> rw [hready'] at h1 <;> simp at h1
        split at h
        · simp only [Option.some.injEq, Prod.mk.injEq] at h
          obtain ⟨rfl, _⟩ := h
          refine ⟨inv_set _ _ _ hi ⟨by intro hc; rcases hc with hc | ⟨p, hc⟩ <;> simp at hc, hwi.viewNodup,
            hwi.askedNodup, fun q hq hv => absurd hv (hgone q hq), by intro p h hc; simp at hc⟩, ?_⟩
          exact phi_set _ w wk _ hw (by simp [mu, hready']; omega)
        · split at h
          · simp only [Option.some.injEq, Prod.mk.injEq] at h
            obtain ⟨rfl, _⟩ := h
            refine ⟨inv_set _ _ _ hi ⟨by intro hc; rcases hc with hc | ⟨p, hc⟩ <;> simp at hc, hwi.viewNodup,
              hwi.askedNodup, fun q hq hv => absurd hv (hgone q hq), by intro p h hc; simp at hc⟩, ?_⟩
            exact phi_set _ w wk _ hw (by simp [mu, hready']; omega)
          · rename_i hlt
            have hlt' : wk.retry + 1 ≤ 50 := by unfold maxTry at hlt; omega
            split at h
            · simp only [Option.some.injEq, Prod.mk.injEq] at h
              obtain ⟨rfl, _⟩ := h
              refine ⟨inv_set _ _ _ hi ⟨by intro _; simp [maxTry]; omega, hwi.viewNodup, hwi.askedNodup,
                fun q hq hv => absurd hv (hgone q hq), by intro p h hc; simp [hready'] at hc⟩, ?_⟩
              exact phi_set _ w wk _ hw (by simp [mu, hready']; omega)
            · rename_i p hav
              have hpv : p ∈ wk.view := avail_mem _ _ _ _ _ _ hav
              simp only [Option.some.injEq, Prod.mk.injEq] at h
              obtain ⟨rfl, _⟩ := h
              refine ⟨inv_set _ _ _ hi ⟨by intro _; simp [maxTry]; omega, hwi.viewNodup,
                List.nodup_cons.mpr ⟨fun hq => hgone p hq hpv, hwi.askedNodup⟩, ?_, by intro q h hc; simp at hc⟩, ?_⟩
              · intro q hq hv
                simp at hq
                rcases hq with rfl | hq
                · exact Or.inl rfl
                · exact absurd hv (hgone q hq)
              · exact phi_set _ w wk _ hw (by simp [mu, hready']; omega)
  | ret w reply =>
    simp only [step] at h
    split at h
    · simp at h
    · rename_i wk hw
      have hwi : WInv wk := hi wk (List.mem_of_getElem? hw)
      split at h
      · rename_i p hph
        have hr : wk.retry ≤ maxTry := hwi.tries (Or.inr ⟨p, hph⟩)
        unfold maxTry at hr
        split at h
        · simp only [Option.some.injEq, Prod.mk.injEq] at h
          obtain ⟨rfl, _⟩ := h
          refine ⟨inv_set _ _ _ hi ⟨by intro hc; rcases hc with hc | ⟨q, hc⟩ <;> simp at hc, hwi.viewNodup,
            hwi.askedNodup, ?_, by intro q h hc; simp at hc; exact hc.2.symm⟩, ?_⟩
          · intro q hq hv
            rcases hwi.askedGone q hq hv with h1 | ⟨_, h1⟩
            · rw [hph] at h1; simp at h1; subst h1; exact Or.inr ⟨_, rfl⟩
            · rw [hph] at h1; simp at h1
          · exact phi_set _ w wk _ hw (by simp [mu, hph])
        · simp only [Option.some.injEq, Prod.mk.injEq] at h
          obtain ⟨rfl, _⟩ := h
          refine ⟨inv_set _ _ _ hi ⟨by intro _; simp [maxTry]; omega, hwi.viewNodup.erase p, hwi.askedNodup, ?_,
            by intro q h hc; simp at hc⟩, ?_⟩
          · intro q hq hv
            have hv' : q ∈ wk.view := List.mem_of_mem_erase hv
            rcases hwi.askedGone q hq hv' with h1 | ⟨_, h1⟩
            · rw [hph] at h1; simp at h1; subst h1
              exact absurd hv (List.Nodup.not_mem_erase hwi.viewNodup)
            · rw [hph] at h1; simp at h1
          · exact phi_set _ w wk _ hw (by simp [mu, hph])
      · simp at h

theorem run_length (s s' : State) (ls : List Label) (outs : List Out) (hi : Inv s)
    (h : run s ls = some (s', outs)) : ls.length + phi s'.workers ≤ phi s.workers := by
  induction ls generalizing s outs with
  | nil => simp [run] at h; obtain ⟨rfl, _⟩ := h; simp
  | cons l ls ih =>
    simp only [run] at h
    split at h
    · simp at h
    · rename_i s1 o hs
      split at h
      · simp at h
      · rename_i s2 os hr
        simp only [Option.some.injEq, Prod.mk.injEq] at h
        obtain ⟨rfl, _⟩ := h
        obtain ⟨hi1, hd⟩ := step_decreases s s1 l o hi hs
        have := ih s1 os hi1 hr
        simp; omega

theorem phi_init (n : Nat) (hs : List Int) : phi (init n hs).workers = 104 * hs.length := by
  simp only [init]
  induction hs with
  | nil => rfl
  | cons a r ih => simp [phi, mu, ih]; omega

theorem inv_init (n : Nat) (hs : List Int) : Inv (init n hs) := by
  intro wk hwk
  simp [init] at hwk
  obtain ⟨h, _, rfl⟩ := hwk
  exact ⟨by intro _; simp [maxTry], List.nodup_range, by simp, by intro q hq; simp at hq, by intro p h hc; simp at hc⟩

/-! ### one worker alone -/

structure Alone (s : State) (wk : Worker) : Prop where
  ws : s.workers = [wk]
  ready : wk.phase = .ready
  tn : ∀ p, s.taskNum p = 0
  ph : ∀ p, wk.height ≤ s.peerHeight p

theorem limit_pos (n : Nat) : 0 < limit n := by
  unfold limit; simp only; split <;> (try split) <;> omega

/-- state of a worker alone after `pick` chose peer p (first in its list) -/
def pickState (s : State) (wk : Worker) (p : Nat) : State :=
  { s with taskNum := upd s.taskNum p (s.taskNum p + 1), workers := [{ wk with retry := wk.retry + 1, phase := .fetching p, asked := p :: wk.asked }] }

theorem alone_pick (s : State) (wk : Worker) (p : Nat) (rest : List Nat)
    (hA : Alone s wk) (hv : wk.view = p :: rest) (hr : wk.retry < 50) :
    step s (.pick 0) = some (pickState s wk p, .ask p) := by
  have hph : ¬ s.peerHeight p < wk.height := by have := hA.ph p; omega
  have hlim : s.taskNum p < limit (rest.length + 1) := by rw [hA.tn p]; exact limit_pos _
  simp [step, pickState, hA.ws, hA.ready, maxTry, show ¬ (50 < wk.retry + 1) by omega, hv, avail, hph, hlim, setWorker]

theorem alone_fail_round (beh : Behaviour) (s : State) (wk : Worker) (q : Nat) (rest : List Nat)
    (hA : Alone s wk) (hv : wk.view = q :: rest) (hr : wk.retry < 50) (hb : beh q wk.height ≠ some wk.height) :
    ∃ s2 wk2, (∀ f, runAlone beh (f + 2) s = runAlone beh f s2) ∧ Alone s2 wk2 ∧ wk2.view = rest ∧
      wk2.retry = wk.retry + 1 ∧ wk2.asked = q :: wk.asked ∧ wk2.height = wk.height := by
  refine ⟨{ s with taskNum := upd (upd s.taskNum q (s.taskNum q + 1)) q (upd s.taskNum q (s.taskNum q + 1) q - 1),
                   workers := [{ wk with retry := wk.retry + 1, phase := .ready, asked := q :: wk.asked, view := rest }] },
          { wk with retry := wk.retry + 1, phase := .ready, asked := q :: wk.asked, view := rest }, ?_, ?_, rfl, rfl, rfl, rfl⟩
  · intro f
    have h1 := alone_pick s wk q rest hA hv hr
    conv => lhs; unfold runAlone
    simp only [hA.ws, List.getElem?_cons_zero, hA.ready, h1]
    conv => lhs; unfold runAlone
    simp [pickState, step, hb, upd, setWorker, hv]
  · exact ⟨rfl, rfl, by intro p; simp [upd, hA.tn], hA.ph⟩

theorem alone_ok_round (beh : Behaviour) (s : State) (wk : Worker) (p : Nat) (rest : List Nat)
    (hA : Alone s wk) (hv : wk.view = p :: rest) (hr : wk.retry < 50) (hb : beh p wk.height = some wk.height) :
    ∀ f, ∃ wk', (runAlone beh (f + 2) s).workers = [wk'] ∧ wk'.phase = .delivered p wk.height ∧
      wk'.asked = p :: wk.asked ∧ wk'.height = wk.height := by
  intro f
  have h1 := alone_pick s wk p rest hA hv hr
  refine ⟨{ wk with retry := wk.retry + 1, phase := .delivered p wk.height, asked := p :: wk.asked }, ?_, rfl, rfl, rfl⟩
  conv => lhs; unfold runAlone
  simp only [hA.ws, List.getElem?_cons_zero, hA.ready, h1]
  conv => lhs; unfold runAlone
  simp only [pickState, List.getElem?_cons_zero, step, hb, setWorker, List.set_cons_zero, if_true]
  cases f with
  | zero => simp [runAlone]
  | succ f => simp [runAlone]

/-- a worker alone asks the peers of its list in order, each once, and stops at the first that answers with the
requested height -/
theorem alone_delivers (beh : Behaviour) (pre : List Nat) :
    ∀ (s : State) (wk : Worker) (p : Nat) (post : List Nat) (fuel : Nat),
      Alone s wk → wk.view = pre ++ p :: post → (∀ q ∈ pre, beh q wk.height ≠ some wk.height) →
      beh p wk.height = some wk.height → wk.retry + pre.length < 50 → 2 * pre.length + 2 ≤ fuel →
      ∃ wk', (runAlone beh fuel s).workers = [wk'] ∧ wk'.phase = .delivered p wk.height ∧
        wk'.asked = p :: (pre.reverse ++ wk.asked) ∧ wk'.height = wk.height := by
  induction pre with
  | nil =>
    intro s wk p post fuel hA hv _ hb hr hf
    obtain ⟨f, rfl⟩ : ∃ f, fuel = f + 2 := ⟨fuel - 2, by simp at hf; omega⟩
    simpa using alone_ok_round beh s wk p post hA (by simpa using hv) (by simpa using hr) hb f
  | cons q pre ih =>
    intro s wk p post fuel hA hv hfail hb hr hf
    obtain ⟨f, rfl⟩ : ∃ f, fuel = f + 2 := ⟨fuel - 2, by simp at hf; omega⟩
    obtain ⟨s2, wk2, hrun, hA2, hv2, hr2, ha2, hh2⟩ :=
      alone_fail_round beh s wk q (pre ++ p :: post) hA (by simpa using hv) (by simp at hr; omega) (hfail q (by simp))
    rw [hrun f]
    obtain ⟨wk', h1, h2, h3, h4⟩ := ih s2 wk2 p post f hA2 hv2
      (by intro x hx; rw [hh2]; exact hfail x (by simp [hx])) (by rw [hh2]; exact hb)
      (by rw [hr2]; simp at hr; omega) (by simp at hf; omega)
    exact ⟨wk', h1, by rw [h2, hh2], by rw [h3, ha2]; simp, by rw [h4, hh2]⟩

/-- the first element of a list that satisfies a decidable predicate, with what precedes it -/
theorem first_split {α : Type} (P : α → Prop) [DecidablePred P] (l : List α) (h : ∃ x ∈ l, P x) :
    ∃ pre x post, l = pre ++ x :: post ∧ (∀ q ∈ pre, ¬ P q) ∧ P x := by
  induction l with
  | nil => obtain ⟨x, hx, _⟩ := h; simp at hx
  | cons a r ih =>
    by_cases ha : P a
    · exact ⟨[], a, r, rfl, by simp, ha⟩
    · have : ∃ x ∈ r, P x := by
        obtain ⟨x, hx, hp⟩ := h
        simp at hx
        rcases hx with rfl | hx
        · exact absurd hp ha
        · exact ⟨x, hx, hp⟩
      obtain ⟨pre, x, post, h1, h2, h3⟩ := ih this
      refine ⟨a :: pre, x, post, by simp [h1], ?_, h3⟩
      intro q hq
      simp at hq
      rcases hq with rfl | hq
      · exact ha
      · exact h2 q hq

end C35
