import Chain33Model.Model.C35
/-!
C35 helper lemmas: a potential function that strictly decreases with every worker step.
-/
namespace C35

/-- remaining-steps potential of one worker -/
def mu (wk : Worker) : Nat :=
  match wk.phase with
  | .ready => 2 * (52 - wk.retry)
  | .fetching _ => 2 * (52 - wk.retry) + 1
  | _ => 0

def phi : List Worker → Nat
  | [] => 0
  | wk :: r => mu wk + phi r

/-- running workers have not used up their tries -/
def WInv (wk : Worker) : Prop :=
  (wk.phase = .ready ∨ ∃ p, wk.phase = .fetching p) → wk.retry ≤ maxTry

def Inv (s : State) : Prop := ∀ wk ∈ s.workers, WInv wk

theorem phi_set (l : List Worker) (w : Nat) (wk x : Worker) (h : l[w]? = some wk) (hx : mu x < mu wk) :
    phi (l.set w x) < phi l := by
  induction l generalizing w with
  | nil => simp at h
  | cons a r ih =>
    cases w with
    | zero =>
      simp at h; subst h
      simp [phi]; omega
    | succ w =>
      have := ih w (by simpa using h)
      simp [phi]; omega

theorem inv_set (l : List Worker) (w : Nat) (x : Worker) (h : ∀ wk ∈ l, WInv wk) (hx : WInv x) :
    ∀ wk ∈ l.set w x, WInv wk := by
  intro wk hwk
  rcases List.mem_or_eq_of_mem_set hwk with h1 | h1
  · exact h wk h1
  · subst h1; exact hx

theorem mem_of_getElem? {l : List Worker} {w : Nat} {wk : Worker} (h : l[w]? = some wk) : wk ∈ l :=
  List.mem_of_getElem? h

/-- every enabled step keeps the invariant and strictly decreases the potential -/
theorem step_decreases (s s' : State) (l : Label) (o : Out) (hi : Inv s) (h : step s l = some (s', o)) :
    Inv s' ∧ phi s'.workers < phi s.workers := by
  cases l with
  | pick w =>
    simp only [step] at h
    split at h
    · simp at h
    · rename_i wk hw
      have hwi : WInv wk := hi wk (mem_of_getElem? hw)
      split at h
      · simp at h
      · rename_i hready
        have hready' : wk.phase = .ready := by simpa using hready
        have hr : wk.retry ≤ maxTry := hwi (Or.inl hready')
        unfold maxTry at hr
        split at h
        · simp only [Option.some.injEq, Prod.mk.injEq] at h
          obtain ⟨rfl, _⟩ := h
          refine ⟨inv_set _ _ _ hi (by intro hc; rcases hc with hc | ⟨p, hc⟩ <;> simp at hc), ?_⟩
          exact phi_set _ w wk _ hw (by simp [mu, hready']; omega)
        · split at h
          · simp only [Option.some.injEq, Prod.mk.injEq] at h
            obtain ⟨rfl, _⟩ := h
            refine ⟨inv_set _ _ _ hi (by intro hc; rcases hc with hc | ⟨p, hc⟩ <;> simp at hc), ?_⟩
            exact phi_set _ w wk _ hw (by simp [mu, hready']; omega)
          · rename_i hlt
            have hlt' : wk.retry + 1 ≤ 50 := by unfold maxTry at hlt; omega
            split at h
            · simp only [Option.some.injEq, Prod.mk.injEq] at h
              obtain ⟨rfl, _⟩ := h
              refine ⟨inv_set _ _ _ hi (by intro _; simp [maxTry]; omega), ?_⟩
              exact phi_set _ w wk _ hw (by simp [mu, hready']; omega)
            · simp only [Option.some.injEq, Prod.mk.injEq] at h
              obtain ⟨rfl, _⟩ := h
              refine ⟨inv_set _ _ _ hi (by intro _; simp [maxTry]; omega), ?_⟩
              exact phi_set _ w wk _ hw (by simp [mu, hready']; omega)
  | ret w reply =>
    simp only [step] at h
    split at h
    · simp at h
    · rename_i wk hw
      have hwi : WInv wk := hi wk (mem_of_getElem? hw)
      split at h
      · rename_i p hph
        have hr : wk.retry ≤ maxTry := hwi (Or.inr ⟨p, hph⟩)
        unfold maxTry at hr
        split at h
        · simp only [Option.some.injEq, Prod.mk.injEq] at h
          obtain ⟨rfl, _⟩ := h
          refine ⟨inv_set _ _ _ hi (by intro hc; rcases hc with hc | ⟨q, hc⟩ <;> simp at hc), ?_⟩
          exact phi_set _ w wk _ hw (by simp [mu, hph])
        · split at h
          · simp only [Option.some.injEq, Prod.mk.injEq] at h
            obtain ⟨rfl, _⟩ := h
            refine ⟨inv_set _ _ _ hi (by intro _; simp [maxTry]; omega), ?_⟩
            exact phi_set _ w wk _ hw (by simp [mu, hph])
          · simp only [Option.some.injEq, Prod.mk.injEq] at h
            obtain ⟨rfl, _⟩ := h
            refine ⟨inv_set _ _ _ hi (by intro _; simp [maxTry]; omega), ?_⟩
            exact phi_set _ w wk _ hw (by simp [mu, hph])
      · simp at h

theorem run_length (s s' : State) (ls : List Label) (outs : List Out) (hi : Inv s)
    (h : run s ls = some (s', outs)) : ls.length + phi s'.workers ≤ phi s.workers := by
  induction ls generalizing s outs with
  | nil => simp [run] at h; obtain ⟨rfl, _⟩ := h; simp
  | cons l ls ih =>
    simp only [run] at h
    split at h
    · simp at h
    · rename_i s1 o hs
      split at h
      · simp at h
      · rename_i s2 os hr
        simp only [Option.some.injEq, Prod.mk.injEq] at h
        obtain ⟨rfl, _⟩ := h
        obtain ⟨hi1, hd⟩ := step_decreases s s1 l o hi hs
        have := ih s1 os hi1 hr
        simp; omega

theorem phi_init (n : Nat) (hs : List Int) : phi (init n hs).workers = 104 * hs.length := by
  simp only [init]
  induction hs with
  | nil => rfl
  | cons a r ih => simp [phi, mu, ih]; omega

theorem inv_init (n : Nat) (hs : List Int) : Inv (init n hs) := by
  intro wk hwk
  simp [init] at hwk
  obtain ⟨h, _, rfl⟩ := hwk
  intro _; simp [maxTry]

end C35

namespace C35

/-- one worker alone at label ReDownload: nobody else touches the array or the counters -/
structure Alone (s : State) (wk : Worker) : Prop where
  ws : s.workers = [wk]
  ready : wk.phase = .ready
  len : wk.len ≤ s.arr.length
  tn : ∀ p, s.taskNum p = 0
  ph : ∀ p, wk.height ≤ s.peerHeight p

theorem limit_pos (n : Nat) : 0 < limit n := by
  unfold limit; simp only; split <;> (try split) <;> omega

theorem view_cons_len {arr : List Nat} {n p : Nat} {rest : List Nat} (hv : arr.take n = p :: rest) (hn : n ≤ arr.length) :
    n = rest.length + 1 := by
  have := congrArg List.length hv
  simp at this; omega

theorem shift_view {arr : List Nat} {n p : Nat} {rest : List Nat} (hv : arr.take n = p :: rest) (hn : n ≤ arr.length) :
    (shiftLeft arr 0 n).take (n - 1) = rest ∧ (shiftLeft arr 0 n).length = arr.length := by
  have hlen := view_cons_len hv hn
  unfold shiftLeft
  rw [hv]
  simp only [List.take_zero, List.nil_append, List.drop_succ_cons, List.drop_zero]
  constructor
  · rw [hlen]; simp
  · simp; omega

/-- state of a worker alone after `pick` chose peer p (first in its view) -/
def pickState (s : State) (wk : Worker) (p : Nat) : State :=
  { s with taskNum := upd s.taskNum p (s.taskNum p + 1), index := upd s.index p 0, workers := [{ wk with retry := wk.retry + 1, phase := .fetching p, asked := p :: wk.asked }] }

theorem alone_pick (s : State) (wk : Worker) (p : Nat) (rest : List Nat)
    (hA : Alone s wk) (hv : s.arr.take wk.len = p :: rest) (hr : wk.retry < 50) :
    step s (.pick 0) = some (pickState s wk p, .ask p) := by
  have hlen := view_cons_len hv hA.len
  have hne : ¬ wk.len = 0 := by omega
  have hph : ¬ s.peerHeight p < wk.height := by have := hA.ph p; omega
  have hlim : s.taskNum p < limit wk.len := by rw [hA.tn p]; exact limit_pos _
  simp [step, pickState, hA.ws, hA.ready, hne, maxTry, show ¬ (50 < wk.retry + 1) by omega, hv, avail, hph, hlim, setWorker]

/-- the two labels of a failing round, for a worker alone -/
theorem alone_fail_round (beh : Behaviour) (s : State) (wk : Worker) (q : Nat) (rest : List Nat)
    (hA : Alone s wk) (hv : s.arr.take wk.len = q :: rest) (hr : wk.retry < 50) (hb : beh q wk.height = none) :
    ∃ s2 wk2, (∀ f, runAlone beh (f + 2) s = runAlone beh f s2) ∧ Alone s2 wk2 ∧ s2.arr.take wk2.len = rest ∧
      wk2.retry = wk.retry + 1 ∧ wk2.asked = q :: wk.asked ∧ wk2.height = wk.height := by
  have hlen := view_cons_len hv hA.len
  have hne : ¬ wk.len = 0 := by omega
  have hph : ¬ s.peerHeight q < wk.height := by have := hA.ph q; omega
  have hlim : s.taskNum q < limit wk.len := by rw [hA.tn q]; exact limit_pos _
  have hsv := shift_view hv hA.len
  refine ⟨{ s with taskNum := upd (upd s.taskNum q (s.taskNum q + 1)) q (upd s.taskNum q (s.taskNum q + 1) q - 1),
                   index := upd s.index q 0, arr := shiftLeft s.arr 0 wk.len,
                   workers := [{ wk with retry := wk.retry + 1, phase := .ready, asked := q :: wk.asked, len := wk.len - 1 }] },
          { wk with retry := wk.retry + 1, phase := .ready, asked := q :: wk.asked, len := wk.len - 1 }, ?_, ?_, ?_, rfl, rfl, rfl⟩
  · intro f
    have h1 := alone_pick s wk q rest hA hv hr
    conv => lhs; unfold runAlone
    simp only [hA.ws, List.getElem?_cons_zero, hA.ready, h1]
    conv => lhs; unfold runAlone
    simp [pickState, step, hb, upd, setWorker, hlen]
  · exact ⟨rfl, rfl, by simp [hsv.2]; have := hA.len; omega,
      by intro p; simp [upd, hA.tn], hA.ph⟩
  · simpa using hsv.1

theorem alone_ok_round (beh : Behaviour) (s : State) (wk : Worker) (p : Nat) (rest : List Nat) (h' : Int)
    (hA : Alone s wk) (hv : s.arr.take wk.len = p :: rest) (hr : wk.retry < 50) (hb : beh p wk.height = some h') :
    ∀ f, ∃ wk', (runAlone beh (f + 2) s).workers = [wk'] ∧ wk'.phase = .delivered p h' ∧
      wk'.asked = p :: wk.asked ∧ wk'.height = wk.height := by
  intro f
  have hlen := view_cons_len hv hA.len
  have hne : ¬ wk.len = 0 := by omega
  have hph : ¬ s.peerHeight p < wk.height := by have := hA.ph p; omega
  have hlim : s.taskNum p < limit wk.len := by rw [hA.tn p]; exact limit_pos _
  have h1 := alone_pick s wk p rest hA hv hr
  refine ⟨{ wk with retry := wk.retry + 1, phase := .delivered p h', asked := p :: wk.asked }, ?_, rfl, rfl, rfl⟩
  conv => lhs; unfold runAlone
  simp only [hA.ws, List.getElem?_cons_zero, hA.ready, h1]
  conv => lhs; unfold runAlone
  simp only [pickState, List.getElem?_cons_zero, step, hb, setWorker, List.set_cons_zero]
  cases f with
  | zero => simp [runAlone]
  | succ f => simp [runAlone]

/-- **a worker alone asks the peers of its list in order, each at most once, and stops at the first that answers** -/
theorem alone_delivers (beh : Behaviour) (h' : Int) (pre : List Nat) :
    ∀ (s : State) (wk : Worker) (p : Nat) (post : List Nat) (fuel : Nat),
      Alone s wk → s.arr.take wk.len = pre ++ p :: post → (∀ q ∈ pre, beh q wk.height = none) →
      beh p wk.height = some h' → wk.retry + pre.length < 50 → 2 * pre.length + 2 ≤ fuel →
      ∃ wk', (runAlone beh fuel s).workers = [wk'] ∧ wk'.phase = .delivered p h' ∧
        wk'.asked = p :: (pre.reverse ++ wk.asked) ∧ wk'.height = wk.height := by
  induction pre with
  | nil =>
    intro s wk p post fuel hA hv _ hb hr hf
    obtain ⟨f, rfl⟩ : ∃ f, fuel = f + 2 := ⟨fuel - 2, by simp at hf; omega⟩
    simpa using alone_ok_round beh s wk p post h' hA (by simpa using hv) (by simpa using hr) hb f
  | cons q pre ih =>
    intro s wk p post fuel hA hv hfail hb hr hf
    obtain ⟨f, rfl⟩ : ∃ f, fuel = f + 2 := ⟨fuel - 2, by simp at hf; omega⟩
    obtain ⟨s2, wk2, hrun, hA2, hv2, hr2, ha2, hh2⟩ :=
      alone_fail_round beh s wk q (pre ++ p :: post) hA (by simpa using hv) (by simp at hr; omega) (hfail q (by simp))
    rw [hrun f]
    obtain ⟨wk', h1, h2, h3, h4⟩ := ih s2 wk2 p post f hA2 hv2
      (by intro x hx; rw [hh2]; exact hfail x (by simp [hx])) (by rw [hh2]; exact hb)
      (by rw [hr2]; simp at hr; omega) (by simp at hf; omega)
    exact ⟨wk', h1, h2, by rw [h3, ha2]; simp, by rw [h4, hh2]⟩


end C35
