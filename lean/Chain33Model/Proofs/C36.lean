import Chain33Model.Model.C36
/-! Helper lemmas for C36: the pool-discipline invariant of the message-bus LTS. -/
namespace C36

@[simp] theorem upd_same (f : Obj → ObjSt) (o : Obj) (v : ObjSt) : upd f o v o = v := by simp [upd]
theorem upd_other (f : Obj → ObjSt) (o x : Obj) (v : ObjSt) (h : x ≠ o) : upd f o v x = f x := by simp [upd, h]

/-- number of entries of `l` that belong to object `o`. -/
def cnt (o : Obj) (l : List Tag) : Nat := l.countP (fun t => t.obj == o)

@[simp] theorem cnt_nil (o : Obj) : cnt o [] = 0 := rfl
theorem cnt_append (o : Obj) (a b : List Tag) : cnt o (a ++ b) = cnt o a + cnt o b := by
  simp [cnt, List.countP_append]
theorem cnt_cons (o : Obj) (t : Tag) (l : List Tag) :
    cnt o (t :: l) = cnt o l + (if t.obj = o then 1 else 0) := by
  simp [cnt, List.countP_cons]
theorem cnt_pos_of_mem {t : Tag} {l : List Tag} (h : t ∈ l) : 1 ≤ cnt t.obj l := by
  unfold cnt; exact List.countP_pos_iff.mpr ⟨t, h, by simp⟩
theorem obj_ne_of_cnt_zero {o : Obj} {l : List Tag} (h : cnt o l = 0) : ∀ t ∈ l, t.obj ≠ o := by
  unfold cnt at h; rw [List.countP_eq_zero] at h; intro a ha; simpa using h a ha

theorem cnt_removeFirst_self {t : Tag} {l : List Tag} (h : t ∈ l) :
    cnt t.obj (removeFirst t l) + 1 = cnt t.obj l := by
  induction l with
  | nil => simp at h
  | cons x xs ih =>
    unfold removeFirst
    split
    · rename_i hx; subst hx; simp [cnt_cons]
    · rename_i hx
      have : t ∈ xs := by
        rcases List.mem_cons.mp h with h | h
        · exact absurd h.symm hx
        · exact h
      have := ih this
      simp only [cnt_cons] at *
      omega

theorem cnt_removeFirst_le (o : Obj) (t : Tag) (l : List Tag) : cnt o (removeFirst t l) ≤ cnt o l := by
  induction l with
  | nil => simp [removeFirst]
  | cons x xs ih =>
    unfold removeFirst
    split
    · simp only [cnt_cons]; omega
    · simp only [cnt_cons]; omega

theorem mem_of_mem_removeFirst {t x : Tag} {l : List Tag} (h : x ∈ removeFirst t l) : x ∈ l := by
  induction l with
  | nil => simp [removeFirst] at h
  | cons y ys ih =>
    unfold removeFirst at h
    split at h
    · exact List.mem_cons_of_mem _ h
    · rcases List.mem_cons.mp h with h | h
      · subst h; exact List.mem_cons_self
      · exact List.mem_cons_of_mem _ (ih h)

theorem tag_eta (t : Tag) : t = ⟨t.obj, t.gen⟩ := by cases t; rfl

/-- how many in-flight entries object `o` has, over all five places. -/
def total (o : Obj) (s : State) : Nat :=
  cnt o s.high + cnt o s.low + cnt o s.held + cnt o s.blockedHigh + cnt o s.blockedLow

structure Inv (s : State) : Prop where
  buf : ∀ o t, (s.objs o).buf = some t → t = ⟨o, (s.objs o).gen⟩ ∧ (s.objs o).phase = .replied
  chan : ∀ t, t ∈ s.high ++ s.low → (s.objs t.obj).gen = t.gen ∧ (s.objs t.obj).phase = .queued
  held : ∀ t, t ∈ s.held → (s.objs t.obj).gen = t.gen ∧ (s.objs t.obj).phase = .held
  blk : ∀ t, t ∈ s.blockedHigh ++ s.blockedLow → (s.objs t.obj).gen = t.gen ∧ (s.objs t.obj).phase = .sending
  uniq : ∀ o, total o s ≤ 1

theorem inv_init : Inv {} := by
  constructor <;> simp [total]

theorem buf_none_of_phase (s : State) (h : Inv s) (o : Obj) (hp : (s.objs o).phase ≠ .replied) :
    (s.objs o).buf = none := by
  cases hb : (s.objs o).buf with
  | none => rfl
  | some t => exact absurd (h.buf o t hb).2 hp

/-- The work-horse: a step that rewrites one object `o` to `v` and changes the lists so that every
entry of the new lists is either an old entry of another object, or an entry of `o` matching `v`. -/
theorem inv_of (s s' : State) (h : Inv s) (o : Obj) (v : ObjSt)
    (hobjs : s'.objs = upd s.objs o v)
    (hchan : ∀ t, t ∈ s'.high ++ s'.low →
      (t ∈ s.high ++ s.low ∧ t.obj ≠ o) ∨ (t.obj = o ∧ v.gen = t.gen ∧ v.phase = .queued))
    (hheld : ∀ t, t ∈ s'.held → (t ∈ s.held ∧ t.obj ≠ o) ∨ (t.obj = o ∧ v.gen = t.gen ∧ v.phase = .held))
    (hblk : ∀ t, t ∈ s'.blockedHigh ++ s'.blockedLow →
      (t ∈ s.blockedHigh ++ s.blockedLow ∧ t.obj ≠ o) ∨ (t.obj = o ∧ v.gen = t.gen ∧ v.phase = .sending))
    (hbuf : ∀ t, v.buf = some t → t = ⟨o, v.gen⟩ ∧ v.phase = .replied)
    (huniq : ∀ x, total x s' ≤ 1) : Inv s' := by
  constructor
  · intro x t hx
    rw [hobjs] at hx ⊢
    by_cases e : x = o
    · subst e; simp only [upd_same] at hx ⊢; exact hbuf t hx
    · simp only [upd_other _ _ _ _ e] at hx ⊢; exact h.buf x t hx
  · intro t ht
    rw [hobjs]
    rcases hchan t ht with ⟨hm, hne⟩ | ⟨he, hg, hp⟩
    · simp only [upd_other _ _ _ _ hne]; exact h.chan t hm
    · rw [he]; simp only [upd_same]; exact ⟨hg, hp⟩
  · intro t ht
    rw [hobjs]
    rcases hheld t ht with ⟨hm, hne⟩ | ⟨he, hg, hp⟩
    · simp only [upd_other _ _ _ _ hne]; exact h.held t hm
    · rw [he]; simp only [upd_same]; exact ⟨hg, hp⟩
  · intro t ht
    rw [hobjs]
    rcases hblk t ht with ⟨hm, hne⟩ | ⟨he, hg, hp⟩
    · simp only [upd_other _ _ _ _ hne]; exact h.blk t hm
    · rw [he]; simp only [upd_same]; exact ⟨hg, hp⟩
  · exact huniq

/-- an object whose phase is none of the in-flight phases has no entry anywhere. -/
theorem total_zero_of_phase (s : State) (h : Inv s) (o : Obj)
    (hq : (s.objs o).phase ≠ .queued) (hh : (s.objs o).phase ≠ .held) (hs : (s.objs o).phase ≠ .sending) :
    total o s = 0 := by
  have a : ∀ t ∈ s.high ++ s.low, ¬ ((fun t : Tag => t.obj == o) t = true) := by
    intro t ht he; simp only [beq_iff_eq] at he
    have := (h.chan t ht).2; rw [he] at this; exact hq this
  have b : ∀ t ∈ s.held, ¬ ((fun t : Tag => t.obj == o) t = true) := by
    intro t ht he; simp only [beq_iff_eq] at he
    have := (h.held t ht).2; rw [he] at this; exact hh this
  have c : ∀ t ∈ s.blockedHigh ++ s.blockedLow, ¬ ((fun t : Tag => t.obj == o) t = true) := by
    intro t ht he; simp only [beq_iff_eq] at he
    have := (h.blk t ht).2; rw [he] at this; exact hs this
  have a' := List.countP_eq_zero.mpr a
  have b' := List.countP_eq_zero.mpr b
  have c' := List.countP_eq_zero.mpr c
  rw [List.countP_append] at a' c'
  unfold total cnt; omega

/-- entries of other lists belong to other objects when `o`'s count there is zero. -/
theorem ne_of_zero2 {o : Obj} {a b : List Tag} (ha : cnt o a = 0) (hb : cnt o b = 0) :
    ∀ t, t ∈ a ++ b → t.obj ≠ o := by
  intro t ht
  rcases List.mem_append.mp ht with h | h
  · exact obj_ne_of_cnt_zero ha t h
  · exact obj_ne_of_cnt_zero hb t h

/-- rewriting an object that has no in-flight entry (new, free, wait). -/
theorem inv_upd_idle (s : State) (h : Inv s) (o : Obj) (v : ObjSt)
    (hq : (s.objs o).phase ≠ .queued) (hh : (s.objs o).phase ≠ .held) (hs : (s.objs o).phase ≠ .sending)
    (hb : ∀ t, v.buf = some t → t = ⟨o, v.gen⟩ ∧ v.phase = .replied) :
    Inv { s with objs := upd s.objs o v } := by
  have hz := total_zero_of_phase s h o hq hh hs
  unfold total at hz
  have z1 : cnt o s.high = 0 := by omega
  have z2 : cnt o s.low = 0 := by omega
  have z3 : cnt o s.held = 0 := by omega
  have z4 : cnt o s.blockedHigh = 0 := by omega
  have z5 : cnt o s.blockedLow = 0 := by omega
  apply inv_of s _ h o v rfl
  · intro t ht; exact Or.inl ⟨ht, ne_of_zero2 z1 z2 t ht⟩
  · intro t ht; exact Or.inl ⟨ht, obj_ne_of_cnt_zero z3 t ht⟩
  · intro t ht; exact Or.inl ⟨ht, ne_of_zero2 z4 z5 t ht⟩
  · exact hb
  · intro x; exact h.uniq x

/-- which of the five lists an entry is appended to. -/
inductive Place where
  | high | low | bhigh | blow
  deriving DecidableEq

def addTo (s : State) (p : Place) (t : Tag) (objs : Obj → ObjSt) : State :=
  match p with
  | .high => { s with high := s.high ++ [t], objs := objs }
  | .low => { s with low := s.low ++ [t], objs := objs }
  | .bhigh => { s with blockedHigh := s.blockedHigh ++ [t], objs := objs }
  | .blow => { s with blockedLow := s.blockedLow ++ [t], objs := objs }

def Place.phase : Place → Phase
  | .high => .queued | .low => .queued | .bhigh => .sending | .blow => .sending

/-- a fresh object enters a channel or a blocked-senders list. -/
theorem inv_add (s : State) (h : Inv s) (o : Obj) (hp : (s.objs o).phase = .fresh) (p : Place) :
    Inv (addTo s p ⟨o, (s.objs o).gen⟩ (upd s.objs o { s.objs o with phase := p.phase })) := by
  have hz := total_zero_of_phase s h o (by rw [hp]; decide) (by rw [hp]; decide) (by rw [hp]; decide)
  have hbn := buf_none_of_phase s h o (by rw [hp]; decide)
  unfold total at hz
  have z1 : cnt o s.high = 0 := by omega
  have z2 : cnt o s.low = 0 := by omega
  have z3 : cnt o s.held = 0 := by omega
  have z4 : cnt o s.blockedHigh = 0 := by omega
  have z5 : cnt o s.blockedLow = 0 := by omega
  cases p
  all_goals
    apply inv_of s _ h o _ rfl
    · intro t ht
      simp only [addTo, List.mem_append, List.mem_singleton] at ht
      first
      | (rcases ht with (a | a) | a
         · exact Or.inl ⟨List.mem_append.mpr (Or.inl a), obj_ne_of_cnt_zero z1 t a⟩
         · subst a; exact Or.inr ⟨rfl, rfl, rfl⟩
         · exact Or.inl ⟨List.mem_append.mpr (Or.inr a), obj_ne_of_cnt_zero z2 t a⟩)
      | (rcases ht with a | a | a
         · exact Or.inl ⟨List.mem_append.mpr (Or.inl a), obj_ne_of_cnt_zero z1 t a⟩
         · exact Or.inl ⟨List.mem_append.mpr (Or.inr a), obj_ne_of_cnt_zero z2 t a⟩
         · subst a; exact Or.inr ⟨rfl, rfl, rfl⟩)
      | (rcases ht with a | a
         · exact Or.inl ⟨List.mem_append.mpr (Or.inl a), obj_ne_of_cnt_zero z1 t a⟩
         · exact Or.inl ⟨List.mem_append.mpr (Or.inr a), obj_ne_of_cnt_zero z2 t a⟩)
    · intro t ht
      simp only [addTo] at ht
      exact Or.inl ⟨ht, obj_ne_of_cnt_zero z3 t ht⟩
    · intro t ht
      simp only [addTo, List.mem_append, List.mem_singleton] at ht
      first
      | (rcases ht with (a | a) | a
         · exact Or.inl ⟨List.mem_append.mpr (Or.inl a), obj_ne_of_cnt_zero z4 t a⟩
         · subst a; exact Or.inr ⟨rfl, rfl, rfl⟩
         · exact Or.inl ⟨List.mem_append.mpr (Or.inr a), obj_ne_of_cnt_zero z5 t a⟩)
      | (rcases ht with a | a | a
         · exact Or.inl ⟨List.mem_append.mpr (Or.inl a), obj_ne_of_cnt_zero z4 t a⟩
         · exact Or.inl ⟨List.mem_append.mpr (Or.inr a), obj_ne_of_cnt_zero z5 t a⟩
         · subst a; exact Or.inr ⟨rfl, rfl, rfl⟩)
      | (rcases ht with a | a
         · exact Or.inl ⟨List.mem_append.mpr (Or.inl a), obj_ne_of_cnt_zero z4 t a⟩
         · exact Or.inl ⟨List.mem_append.mpr (Or.inr a), obj_ne_of_cnt_zero z5 t a⟩)
    · intro t ht; simp [hbn] at ht
    · intro x
      have hu := h.uniq x
      unfold total at hu ⊢
      simp only [addTo, cnt_append, cnt_cons, cnt_nil]
      by_cases e : o = x
      · subst e; simp; omega
      · simp [e]; omega

end C36

namespace C36

/-- the subscriber takes the oldest message of a channel. -/
theorem inv_take (s : State) (h : Inv s) (fromHigh : Bool) (t : Tag) (rest : List Tag)
    (hl : (if fromHigh then s.high else s.low) = t :: rest) :
    Inv { s with high := if fromHigh then rest else s.high, low := if fromHigh then s.low else rest,
                 held := s.held ++ [t],
                 objs := upd s.objs t.obj { s.objs t.obj with phase := .held } } := by
  have hmem : t ∈ s.high ++ s.low := by
    cases fromHigh
    · simp only [Bool.false_eq_true, if_false] at hl; simp [hl]
    · simp only [if_true] at hl; simp [hl]
  obtain ⟨hg, hq⟩ := h.chan t hmem
  have hbn := buf_none_of_phase s h t.obj (by rw [hq]; decide)
  have hu := h.uniq t.obj
  unfold total at hu
  have hz : cnt t.obj (if fromHigh then rest else s.high) = 0 ∧
            cnt t.obj (if fromHigh then s.low else rest) = 0 ∧ cnt t.obj s.held = 0 ∧
            cnt t.obj s.blockedHigh = 0 ∧ cnt t.obj s.blockedLow = 0 := by
    cases fromHigh
    · simp only [Bool.false_eq_true, if_false] at hl ⊢
      rw [hl, cnt_cons] at hu; simp at hu; omega
    · simp only [if_true] at hl ⊢
      rw [hl, cnt_cons] at hu; simp at hu; omega
  obtain ⟨z1, z2, z3, z4, z5⟩ := hz
  apply inv_of s _ h t.obj _ rfl
  · intro x hx
    refine Or.inl ⟨?_, ne_of_zero2 z1 z2 x hx⟩
    cases fromHigh
    · simp only [Bool.false_eq_true, if_false] at hl hx ⊢
      rw [hl]; simp only [List.mem_append, List.mem_cons] at hx ⊢
      rcases hx with a | a
      · exact Or.inl a
      · exact Or.inr (Or.inr a)
    · simp only [if_true] at hl hx ⊢
      rw [hl]; simp only [List.mem_append, List.mem_cons] at hx ⊢
      rcases hx with a | a
      · exact Or.inl (Or.inr a)
      · exact Or.inr a
  · intro x hx
    simp only [List.mem_append, List.mem_singleton] at hx
    rcases hx with a | rfl
    · exact Or.inl ⟨a, obj_ne_of_cnt_zero z3 x a⟩
    · exact Or.inr ⟨rfl, hg, rfl⟩
  · intro x hx; exact Or.inl ⟨hx, ne_of_zero2 z4 z5 x hx⟩
  · intro u hu'; simp [hbn] at hu'
  · intro x
    have hux := h.uniq x
    unfold total at hux ⊢
    cases fromHigh
    · simp only [Bool.false_eq_true, if_false] at hl ⊢
      rw [hl, cnt_cons] at hux; simp only [cnt_append, cnt_cons, cnt_nil]; omega
    · simp only [if_true] at hl ⊢
      rw [hl, cnt_cons] at hux; simp only [cnt_append, cnt_cons, cnt_nil]; omega

/-- a responder answers the request it holds. -/
theorem inv_answer (s : State) (h : Inv s) (t : Tag) (ht : t ∈ s.held) :
    Inv { s with held := removeFirst t s.held,
                 objs := upd s.objs t.obj { s.objs t.obj with buf := some t, phase := .replied } } := by
  obtain ⟨hg, hq⟩ := h.held t ht
  have hu := h.uniq t.obj
  unfold total at hu
  have h1 := cnt_pos_of_mem ht
  have hrm := cnt_removeFirst_self ht
  have z1 : cnt t.obj s.high = 0 := by omega
  have z2 : cnt t.obj s.low = 0 := by omega
  have z3 : cnt t.obj (removeFirst t s.held) = 0 := by omega
  have z4 : cnt t.obj s.blockedHigh = 0 := by omega
  have z5 : cnt t.obj s.blockedLow = 0 := by omega
  apply inv_of s _ h t.obj _ rfl
  · intro x hx; exact Or.inl ⟨hx, ne_of_zero2 z1 z2 x hx⟩
  · intro x hx; exact Or.inl ⟨mem_of_mem_removeFirst hx, obj_ne_of_cnt_zero z3 x hx⟩
  · intro x hx; exact Or.inl ⟨hx, ne_of_zero2 z4 z5 x hx⟩
  · intro u hu'
    simp only [Option.some.injEq] at hu'; subst hu'
    refine ⟨?_, rfl⟩
    show t = ⟨t.obj, (s.objs t.obj).gen⟩
    rw [hg]
  · intro x
    have := h.uniq x
    have := cnt_removeFirst_le x t s.held
    unfold total at *; simp only; omega

/-- a blocked sender leaves the blocked list: into its channel (`toChan`), or with an error. -/
theorem inv_unblock (s : State) (h : Inv s) (sync : Bool) (t : Tag)
    (ht : t ∈ (if sync then s.blockedHigh else s.blockedLow)) (toChan : Bool) :
    Inv { s with blockedHigh := if sync then removeFirst t s.blockedHigh else s.blockedHigh,
                 blockedLow := if sync then s.blockedLow else removeFirst t s.blockedLow,
                 high := if toChan && sync then s.high ++ [t] else s.high,
                 low := if toChan && !sync then s.low ++ [t] else s.low,
                 objs := upd s.objs t.obj { s.objs t.obj with phase := if toChan then .queued else .failed } } := by
  have hmem : t ∈ s.blockedHigh ++ s.blockedLow := by
    cases sync
    · simp only [Bool.false_eq_true, if_false] at ht; simp [ht]
    · simp only [if_true] at ht; simp [ht]
  obtain ⟨hg, hq⟩ := h.blk t hmem
  have hbn := buf_none_of_phase s h t.obj (by rw [hq]; decide)
  have hu := h.uniq t.obj
  unfold total at hu
  have hz : cnt t.obj s.high = 0 ∧ cnt t.obj s.low = 0 ∧ cnt t.obj s.held = 0 ∧
      cnt t.obj (if sync then removeFirst t s.blockedHigh else s.blockedHigh) = 0 ∧
      cnt t.obj (if sync then s.blockedLow else removeFirst t s.blockedLow) = 0 := by
    cases sync
    · simp only [Bool.false_eq_true, if_false] at ht ⊢
      have := cnt_removeFirst_self ht; have := cnt_pos_of_mem ht; omega
    · simp only [if_true] at ht ⊢
      have := cnt_removeFirst_self ht; have := cnt_pos_of_mem ht; omega
  obtain ⟨z1, z2, z3, z4, z5⟩ := hz
  apply inv_of s _ h t.obj _ rfl
  · intro x hx
    have hx' : x ∈ s.high ++ s.low ∨ (x = t ∧ toChan = true) := by
      cases toChan <;> cases sync <;>
        simp only [Bool.false_and, Bool.true_and, Bool.not_true, Bool.not_false, Bool.false_eq_true, if_false,
          if_true, List.mem_append, List.mem_singleton] at hx ⊢
      · exact Or.inl hx
      · exact Or.inl hx
      · rcases hx with a | a | a
        · exact Or.inl (Or.inl a)
        · exact Or.inl (Or.inr a)
        · exact Or.inr ⟨a, trivial⟩
      · rcases hx with (a | a) | a
        · exact Or.inl (Or.inl a)
        · exact Or.inr ⟨a, trivial⟩
        · exact Or.inl (Or.inr a)
    rcases hx' with a | ⟨rfl, htc⟩
    · exact Or.inl ⟨a, ne_of_zero2 z1 z2 x a⟩
    · exact Or.inr ⟨rfl, hg, by simp [htc]⟩
  · intro x hx; exact Or.inl ⟨hx, obj_ne_of_cnt_zero z3 x hx⟩
  · intro x hx
    refine Or.inl ⟨?_, ne_of_zero2 z4 z5 x hx⟩
    cases sync
    · simp only [Bool.false_eq_true, if_false, List.mem_append] at hx ⊢
      rcases hx with a | a
      · exact Or.inl a
      · exact Or.inr (mem_of_mem_removeFirst a)
    · simp only [if_true, List.mem_append] at hx ⊢
      rcases hx with a | a
      · exact Or.inl (mem_of_mem_removeFirst a)
      · exact Or.inr a
  · intro u hu'; simp [hbn] at hu'
  · intro x
    have hux := h.uniq x
    unfold total at hux ⊢
    have l1 := cnt_removeFirst_le x t s.blockedHigh
    have l2 := cnt_removeFirst_le x t s.blockedLow
    by_cases e : t.obj = x
    · subst e
      cases toChan <;> cases sync <;>
        simp only [Bool.false_and, Bool.true_and, Bool.not_true, Bool.not_false, Bool.false_eq_true, if_false,
          if_true, cnt_append, cnt_cons, cnt_nil] at z4 z5 ⊢ <;> omega
    · cases toChan <;> cases sync <;>
        simp only [Bool.false_and, Bool.true_and, Bool.not_true, Bool.not_false, Bool.false_eq_true, if_false,
          if_true, cnt_append, cnt_cons, cnt_nil, e] <;> omega

/-- a step that touches neither the objects nor the five lists. -/
theorem inv_congr {s s' : State} (h : Inv s) (ho : s'.objs = s.objs) (h1 : s'.high = s.high)
    (h2 : s'.low = s.low) (h3 : s'.held = s.held) (h4 : s'.blockedHigh = s.blockedHigh)
    (h5 : s'.blockedLow = s.blockedLow) : Inv s' := by
  constructor
  · rw [ho]; exact h.buf
  · rw [ho, h1, h2]; exact h.chan
  · rw [ho, h3]; exact h.held
  · rw [ho, h4, h5]; exact h.blk
  · intro o; have := h.uniq o; unfold total at *; rw [h1, h2, h3, h4, h5]; exact this

end C36

namespace C36

theorem inv_new (s : State) (h : Inv s) (o : Obj) (s' : State) (out : Out)
    (hs : step s (.new o) = some (s', out)) : Inv s' := by
  simp only [step] at hs
  split at hs
  · rename_i hp
    simp only [Option.some.injEq, Prod.mk.injEq] at hs
    obtain ⟨rfl, -⟩ := hs
    apply inv_upd_idle s h o _ (by rw [hp]; decide) (by rw [hp]; decide) (by rw [hp]; decide)
    intro t ht
    have := buf_none_of_phase s h o (by rw [hp]; decide)
    simp [this] at ht
  · simp at hs

theorem inv_free (s : State) (h : Inv s) (o : Obj) (s' : State) (out : Out)
    (hs : step s (.free o true) = some (s', out)) : Inv s' := by
  simp only [step] at hs
  split at hs
  · simp at hs
  · split at hs
    · simp at hs
    · rename_i hp hd
      simp only [Option.some.injEq, Prod.mk.injEq] at hs
      obtain ⟨rfl, -⟩ := hs
      have hfd : (s.objs o).phase = .fresh ∨ (s.objs o).phase = .done ∨ (s.objs o).phase = .failed := by
        cases hph : (s.objs o).phase <;> simp [hph] at hd ⊢
      have hq : (s.objs o).phase ≠ .queued := by rcases hfd with e | e | e <;> rw [e] <;> decide
      have hh : (s.objs o).phase ≠ .held := by rcases hfd with e | e | e <;> rw [e] <;> decide
      have hsd : (s.objs o).phase ≠ .sending := by rcases hfd with e | e | e <;> rw [e] <;> decide
      have hr : (s.objs o).phase ≠ .replied := by rcases hfd with e | e | e <;> rw [e] <;> decide
      apply inv_upd_idle s h o _ hq hh hsd
      intro t ht
      have := buf_none_of_phase s h o hr
      simp [this] at ht

/-- **Every disciplined step preserves the invariant.** -/
theorem inv_step (s : State) (h : Inv s) (l : Label) (hd : l.disciplined = true) (s' : State) (out : Out)
    (hs : step s l = some (s', out)) : Inv s' := by
  cases l with
  | new o => exact inv_new s h o s' out hs
  | free o d =>
    simp only [Label.disciplined] at hd; subst hd
    exact inv_free s h o s' out hs
  | send o sync =>
    simp only [step] at hs
    split at hs
    · simp only [Option.some.injEq, Prod.mk.injEq] at hs; rw [← hs.1]; exact h
    · split at hs
      · simp only [Option.some.injEq, Prod.mk.injEq] at hs; rw [← hs.1]; exact h
      · split at hs
        · rename_i hp
          cases sync
          · simp only [Bool.false_eq_true, if_false] at hs
            split at hs
            · simp only [Option.some.injEq, Prod.mk.injEq] at hs; rw [← hs.1]
              exact inv_add s h o hp .low
            · simp only [Option.some.injEq, Prod.mk.injEq] at hs; rw [← hs.1]
              exact inv_add s h o hp .blow
          · simp only [if_true] at hs
            split at hs
            · simp only [Option.some.injEq, Prod.mk.injEq] at hs; rw [← hs.1]
              exact inv_add s h o hp .high
            · simp only [Option.some.injEq, Prod.mk.injEq] at hs; rw [← hs.1]
              exact inv_add s h o hp .bhigh
        · simp at hs
  | unblock t sync viaDone =>
    simp only [step] at hs
    cases sync
    · simp only [Bool.false_eq_true, if_false] at hs
      split at hs
      · rename_i hc
        have ht : t ∈ s.blockedLow := by simpa using hc
        split at hs
        · split at hs
          · simp only [Option.some.injEq, Prod.mk.injEq] at hs; rw [← hs.1]
            have := inv_unblock s h false t (by simpa using ht) false
            simpa using this
          · simp at hs
        · split at hs
          · simp only [Option.some.injEq, Prod.mk.injEq] at hs; rw [← hs.1]
            have := inv_unblock s h false t (by simpa using ht) true
            simpa using this
          · simp at hs
      · simp at hs
    · simp only [if_true] at hs
      split at hs
      · rename_i hc
        have ht : t ∈ s.blockedHigh := by simpa using hc
        split at hs
        · split at hs
          · simp only [Option.some.injEq, Prod.mk.injEq] at hs; rw [← hs.1]
            have := inv_unblock s h true t (by simpa using ht) false
            simpa using this
          · simp at hs
        · split at hs
          · simp only [Option.some.injEq, Prod.mk.injEq] at hs; rw [← hs.1]
            have := inv_unblock s h true t (by simpa using ht) true
            simpa using this
          · simp at hs
      · simp at hs
  | recv fromHigh =>
    simp only [step] at hs
    split at hs
    · simp at hs
    · rename_i t rest hl
      simp only [Option.some.injEq, Prod.mk.injEq] at hs; rw [← hs.1]
      have hmem : t ∈ s.high ++ s.low := by
        cases fromHigh
        · simp only [Bool.false_eq_true, if_false] at hl; simp [hl]
        · simp only [if_true] at hl; simp [hl]
      obtain ⟨hg, hq⟩ := h.chan t hmem
      have := inv_take s h fromHigh t rest hl
      simpa [hg, hq] using this
  | reply t =>
    simp only [step] at hs
    split at hs
    · rename_i hc
      have ht : t ∈ s.held := by simpa using hc
      split at hs
      · simp at hs
      · simp only [Option.some.injEq, Prod.mk.injEq] at hs; rw [← hs.1]
        obtain ⟨hg, hq⟩ := h.held t ht
        have := inv_answer s h t ht
        simpa [hg, hq] using this
    · simp at hs
  | wait o viaDone =>
    simp only [step] at hs
    split at hs
    · split at hs
      · simp only [Option.some.injEq, Prod.mk.injEq] at hs; rw [← hs.1]; exact h
      · simp at hs
    · split at hs
      · rename_i t hb
        simp only [Option.some.injEq, Prod.mk.injEq] at hs; rw [← hs.1]
        have hr := (h.buf o t hb).2
        apply inv_upd_idle s h o _ (by rw [hr]; decide) (by rw [hr]; decide) (by rw [hr]; decide)
        intro u hu; simp at hu
      · simp at hs
  | timeout o =>
    simp only [step, Option.some.injEq, Prod.mk.injEq] at hs; rw [← hs.1]; exact h
  | closeTopic =>
    simp only [step, Option.some.injEq, Prod.mk.injEq] at hs; rw [← hs.1]
    exact inv_congr h rfl rfl rfl rfl rfl rfl
  | closeQueue =>
    simp only [step, Option.some.injEq, Prod.mk.injEq] at hs; rw [← hs.1]
    exact inv_congr h rfl rfl rfl rfl rfl rfl
  | subReq =>
    simp only [step] at hs
    split at hs <;> (simp only [Option.some.injEq, Prod.mk.injEq] at hs; rw [← hs.1])
    · exact h
    · exact inv_congr h rfl rfl rfl rfl rfl rfl
  | closeEnter =>
    simp only [step] at hs
    split at hs
    · simp only [Option.some.injEq, Prod.mk.injEq] at hs; rw [← hs.1]; exact h
    · split at hs <;> (simp only [Option.some.injEq, Prod.mk.injEq] at hs; rw [← hs.1])
      · exact h
      · exact inv_congr h rfl rfl rfl rfl rfl rfl
  | closeDone =>
    simp only [step] at hs
    split at hs
    · simp at hs
    · split at hs <;> (simp only [Option.some.injEq, Prod.mk.injEq] at hs; rw [← hs.1]) <;>
        exact inv_congr h rfl rfl rfl rfl rfl rfl
  | closeFinish =>
    simp only [step] at hs
    split at hs
    · simp at hs
    · split at hs <;> (simp only [Option.some.injEq, Prod.mk.injEq] at hs; rw [← hs.1]) <;>
        exact inv_congr h rfl rfl rfl rfl rfl rfl

end C36

/-! ### History: a request, once handed to the subscriber, never becomes receivable again -/
namespace C36

/-- phases that follow `queued` within one generation. -/
def After (p : Phase) : Prop := p = .held ∨ p = .replied ∨ p = .done ∨ p = .pooled

/-- `t` lies in the past of its object: the object moved on to a later generation, or it is in a phase
that follows `queued` within the same generation. -/
def Past (s : State) (t : Tag) : Prop :=
  t.gen < (s.objs t.obj).gen ∨ (t.gen = (s.objs t.obj).gen ∧ After (s.objs t.obj).phase)

/-- an object only moves forward: later generation, or same generation and `After` is kept. -/
def ObjLe (a b : ObjSt) : Prop := a.gen < b.gen ∨ (a.gen = b.gen ∧ (After a.phase → After b.phase))

theorem ObjLe.refl (a : ObjSt) : ObjLe a a := Or.inr ⟨rfl, id⟩

theorem objle_upd (f : Obj → ObjSt) (o : Obj) (v : ObjSt) (h : ObjLe (f o) v) : ∀ x, ObjLe (f x) (upd f o v x) := by
  intro x
  by_cases e : x = o
  · subst e; simpa using h
  · rw [upd_other _ _ _ _ e]; exact ObjLe.refl _

theorem past_mono {s s' : State} {t : Tag} (h : ObjLe (s.objs t.obj) (s'.objs t.obj)) (hp : Past s t) : Past s' t := by
  unfold Past at *
  rcases h with h | ⟨hg, ha⟩
  · rcases hp with hp | ⟨hp, _⟩
    · exact Or.inl (Nat.lt_trans hp h)
    · exact Or.inl (hp ▸ h)
  · rcases hp with hp | ⟨hp, hq⟩
    · exact Or.inl (hg ▸ hp)
    · exact Or.inr ⟨hp.trans hg, ha hq⟩

/-- every step (disciplined or not) of a state satisfying the invariant moves every object forward. -/
theorem step_objle (s : State) (h : Inv s) (l : Label) (s' : State) (out : Out)
    (hs : step s l = some (s', out)) : ∀ x, ObjLe (s.objs x) (s'.objs x) := by
  cases l with
  | new o =>
    simp only [step] at hs
    split at hs
    · simp only [Option.some.injEq, Prod.mk.injEq] at hs; rw [← hs.1]
      exact objle_upd _ _ _ (Or.inl (Nat.lt_succ_self _))
    · simp at hs
  | free o d =>
    simp only [step] at hs
    split at hs
    · simp at hs
    · split at hs
      · simp at hs
      · simp only [Option.some.injEq, Prod.mk.injEq] at hs; rw [← hs.1]
        exact objle_upd _ _ _ (Or.inr ⟨rfl, fun _ => Or.inr (Or.inr (Or.inr rfl))⟩)
  | send o sync =>
    simp only [step] at hs
    split at hs
    · simp only [Option.some.injEq, Prod.mk.injEq] at hs; rw [← hs.1]; exact fun x => ObjLe.refl _
    · split at hs
      · simp only [Option.some.injEq, Prod.mk.injEq] at hs; rw [← hs.1]; exact fun x => ObjLe.refl _
      · split at hs
        · rename_i hp
          have hna : ¬ After (s.objs o).phase := by rw [hp]; simp [After]
          cases sync
          · simp only [Bool.false_eq_true, if_false] at hs
            split at hs <;> (simp only [Option.some.injEq, Prod.mk.injEq] at hs; rw [← hs.1]) <;>
              exact objle_upd _ _ _ (Or.inr ⟨rfl, fun a => absurd a hna⟩)
          · simp only [if_true] at hs
            split at hs <;> (simp only [Option.some.injEq, Prod.mk.injEq] at hs; rw [← hs.1]) <;>
              exact objle_upd _ _ _ (Or.inr ⟨rfl, fun a => absurd a hna⟩)
        · simp at hs
  | unblock t sync viaDone =>
    simp only [step] at hs
    have key : t ∈ s.blockedHigh ++ s.blockedLow → ¬ After (s.objs t.obj).phase := by
      intro hm; rw [(h.blk t hm).2]; simp [After]
    cases sync
    · simp only [Bool.false_eq_true, if_false] at hs
      split at hs
      · rename_i hc
        have hna := key (by simp [show t ∈ s.blockedLow by simpa using hc])
        split at hs <;> split at hs <;>
          first
          | (simp at hs; done)
          | (simp only [Option.some.injEq, Prod.mk.injEq] at hs; rw [← hs.1]
             exact objle_upd _ _ _ (Or.inr ⟨rfl, fun a => absurd a hna⟩))
      · simp at hs
    · simp only [if_true] at hs
      split at hs
      · rename_i hc
        have hna := key (by simp [show t ∈ s.blockedHigh by simpa using hc])
        split at hs <;> split at hs <;>
          first
          | (simp at hs; done)
          | (simp only [Option.some.injEq, Prod.mk.injEq] at hs; rw [← hs.1]
             exact objle_upd _ _ _ (Or.inr ⟨rfl, fun a => absurd a hna⟩))
      · simp at hs
  | recv fromHigh =>
    simp only [step] at hs
    split at hs
    · simp at hs
    · rename_i t rest hl
      simp only [Option.some.injEq, Prod.mk.injEq] at hs; rw [← hs.1]
      show ∀ x, ObjLe (s.objs x) ((if (s.objs t.obj).gen = t.gen ∧ (s.objs t.obj).phase = .queued
          then upd s.objs t.obj { s.objs t.obj with phase := .held } else s.objs) x)
      split
      · rename_i hc
        exact objle_upd _ _ _ (Or.inr ⟨rfl, fun _ => Or.inl rfl⟩)
      · exact fun x => ObjLe.refl _
  | reply t =>
    simp only [step] at hs
    split at hs
    · split at hs
      · simp at hs
      · simp only [Option.some.injEq, Prod.mk.injEq] at hs; rw [← hs.1]
        refine objle_upd _ _ _ (Or.inr ⟨rfl, fun a => ?_⟩)
        show After (if (s.objs t.obj).gen = t.gen ∧ (s.objs t.obj).phase = .held then Phase.replied else (s.objs t.obj).phase)
        split
        · exact Or.inr (Or.inl rfl)
        · exact a
    · simp at hs
  | wait o viaDone =>
    simp only [step] at hs
    split at hs
    · split at hs
      · simp only [Option.some.injEq, Prod.mk.injEq] at hs; rw [← hs.1]; exact fun x => ObjLe.refl _
      · simp at hs
    · split at hs
      · simp only [Option.some.injEq, Prod.mk.injEq] at hs; rw [← hs.1]
        refine objle_upd _ _ _ (Or.inr ⟨rfl, fun a => ?_⟩)
        show After (if (s.objs o).phase = .replied then Phase.done else (s.objs o).phase)
        split
        · exact Or.inr (Or.inr (Or.inl rfl))
        · exact a
      · simp at hs
  | timeout o =>
    simp only [step, Option.some.injEq, Prod.mk.injEq] at hs; rw [← hs.1]; exact fun x => ObjLe.refl _
  | closeTopic =>
    simp only [step, Option.some.injEq, Prod.mk.injEq] at hs; rw [← hs.1]; exact fun x => ObjLe.refl _
  | closeQueue =>
    simp only [step, Option.some.injEq, Prod.mk.injEq] at hs; rw [← hs.1]; exact fun x => ObjLe.refl _
  | subReq =>
    simp only [step] at hs
    split at hs <;> (simp only [Option.some.injEq, Prod.mk.injEq] at hs; rw [← hs.1]) <;> exact fun x => ObjLe.refl _
  | closeEnter =>
    simp only [step] at hs
    split at hs
    · simp only [Option.some.injEq, Prod.mk.injEq] at hs; rw [← hs.1]; exact fun x => ObjLe.refl _
    · split at hs <;> (simp only [Option.some.injEq, Prod.mk.injEq] at hs; rw [← hs.1]) <;> exact fun x => ObjLe.refl _
  | closeDone =>
    simp only [step] at hs
    split at hs
    · simp at hs
    · split at hs <;> (simp only [Option.some.injEq, Prod.mk.injEq] at hs; rw [← hs.1]) <;> exact fun x => ObjLe.refl _
  | closeFinish =>
    simp only [step] at hs
    split at hs
    · simp at hs
    · split at hs <;> (simp only [Option.some.injEq, Prod.mk.injEq] at hs; rw [← hs.1]) <;> exact fun x => ObjLe.refl _

/-- what a `recv` hands out was receivable (current generation, `queued`), and is in the past afterwards. -/
theorem recv_past (s : State) (h : Inv s) (b : Bool) (t : Tag) (s' : State)
    (hs : step s (.recv b) = some (s', .tag t)) :
    ((s.objs t.obj).gen = t.gen ∧ (s.objs t.obj).phase = .queued) ∧ ¬ Past s t ∧ Past s' t := by
  simp only [step] at hs
  split at hs
  · simp at hs
  · rename_i u rest hl
    simp only [Option.some.injEq, Prod.mk.injEq, Out.tag.injEq] at hs
    obtain ⟨hs', rfl⟩ := hs
    have hmem : u ∈ s.high ++ s.low := by
      cases b
      · simp only [Bool.false_eq_true, if_false] at hl; simp [hl]
      · simp only [if_true] at hl; simp [hl]
    obtain ⟨hg, hq⟩ := h.chan u hmem
    refine ⟨⟨hg, hq⟩, ?_, ?_⟩
    · unfold Past; rw [hg, hq]; simp [After]
    · rw [← hs']; unfold Past
      simp [hg, hq, After]

/-- the tags handed out by the `recv` labels of a trace, in order. -/
def recvTags : List Label → List Out → List Tag
  | .recv _ :: ls, .tag t :: os => t :: recvTags ls os
  | _ :: ls, _ :: os => recvTags ls os
  | _, _ => []

theorem recvTags_cons_not_recv (l : Label) (o : Out) (ls : List Label) (os : List Out)
    (h : ∀ b, l ≠ .recv b) : recvTags (l :: ls) (o :: os) = recvTags ls os := by
  cases l <;> first | rfl | exact absurd rfl (h _)

/-- along any disciplined run from a state satisfying the invariant: the received tags are pairwise
distinct, and none of them lay in the past at the start. -/
theorem run_recv_nodup : ∀ (ls : List Label) (s s' : State) (os : List Out), Inv s →
    (∀ l ∈ ls, l.disciplined = true) → run s ls = some (s', os) →
    (recvTags ls os).Nodup ∧ ∀ t ∈ recvTags ls os, ¬ Past s t := by
  intro ls
  induction ls with
  | nil => intro s s' os _ _ hr; simp only [run, Option.some.injEq, Prod.mk.injEq] at hr; rw [← hr.2]; simp [recvTags]
  | cons l ls ih =>
    intro s s' os hi hd hr
    simp only [run] at hr
    split at hr
    · simp at hr
    · rename_i s1 o hst
      split at hr
      · simp at hr
      · rename_i s2 os' hrun
        simp only [Option.some.injEq, Prod.mk.injEq] at hr
        obtain ⟨-, rfl⟩ := hr
        have hi1 := inv_step s hi l (hd l List.mem_cons_self) s1 o hst
        obtain ⟨hnd, hnp⟩ := ih s1 s2 os' hi1 (fun l' hl' => hd l' (List.mem_cons_of_mem _ hl')) hrun
        have hle := step_objle s hi l s1 o hst
        have back : ∀ t ∈ recvTags ls os', ¬ Past s t := fun t ht hp => hnp t ht (past_mono (hle t.obj) hp)
        by_cases hrecv : ∃ b, l = .recv b
        · obtain ⟨b, rfl⟩ := hrecv
          cases o with
          | tag t =>
            obtain ⟨-, hn, hp⟩ := recv_past s hi b t s1 hst
            simp only [recvTags, List.nodup_cons, List.mem_cons]
            refine ⟨⟨fun hm => hnp t hm hp, hnd⟩, ?_⟩
            intro u hu
            rcases hu with rfl | hu
            · exact hn
            · exact back u hu
          | _ => exact ⟨hnd, back⟩
        · have hne : ∀ b, l ≠ .recv b := fun b e => hrecv ⟨b, e⟩
          rw [recvTags_cons_not_recv l o ls os' hne]
          exact ⟨hnd, back⟩

end C36

/-! ### The requester's `Close`: counters and the panic -/
namespace C36

def Label.isClose : Label → Bool
  | .closeEnter | .closeDone | .closeFinish => true
  | _ => false

structure CInv (s : State) : Prop where
  /-- the code under test is the current one (compare-and-swap at the entry of `Close`). -/
  cur : s.oldClose = false
  /-- nobody took the `isCloseing` flag yet: no `Close` is in flight and nothing is closed. -/
  idle : s.closing = false → s.closersA = 0 ∧ s.closersB = 0 ∧ s.clientDone = false ∧ s.clientClosed = false
  /-- at most one `Close` call runs the close sequence. -/
  one : s.closersA + s.closersB ≤ 1
  aOpen : s.closersA = 1 → s.clientDone = false
  bOpen : s.closersB = 1 → s.clientClosed = false
  notDone : s.clientDone = false → s.closersB = 0 ∧ s.clientClosed = false

/-- no label changes the configuration. -/
theorem oldClose_step (s s' : State) (l : Label) (out : Out) (hs : step s l = some (s', out)) :
    s'.oldClose = s.oldClose := by
  cases l <;>
    (simp only [step] at hs
     repeat' split at hs
     all_goals first
       | (simp at hs; done)
       | (simp only [Option.some.injEq, Prod.mk.injEq] at hs; rw [← hs.1]))

theorem close_frame (s s' : State) (l : Label) (out : Out) (hs : step s l = some (s', out))
    (hl : l.isClose = false) :
    s'.closersA = s.closersA ∧ s'.closersB = s.closersB ∧ s'.clientDone = s.clientDone ∧
    s'.clientClosed = s.clientClosed ∧ s'.closing = s.closing := by
  cases l <;> first
    | (exact absurd hl (by decide))
    | (simp only [step] at hs
       repeat' split at hs
       all_goals first
         | (simp at hs; done)
         | (simp only [Option.some.injEq, Prod.mk.injEq] at hs; rw [← hs.1]; simp))

theorem panic_only_close (s s' : State) (l : Label) (hs : step s l = some (s', .panic)) :
    l = .closeDone ∨ l = .closeFinish := by
  cases l <;> first
    | (exact Or.inl rfl)
    | (exact Or.inr rfl)
    | (simp only [step] at hs
       repeat' split at hs
       all_goals (simp at hs))

theorem cinv_step (s : State) (h : CInv s) (l : Label) (s' : State) (out : Out)
    (hs : step s l = some (s', out)) : CInv s' := by
  have hcur : s'.oldClose = false := by rw [oldClose_step s s' l out hs]; exact h.cur
  by_cases hl : l.isClose = false
  · obtain ⟨e1, e2, e3, e4, e5⟩ := close_frame s s' l out hs hl
    constructor
    · exact hcur
    · rw [e1, e2, e3, e4, e5]; exact h.idle
    · rw [e1, e2]; exact h.one
    · rw [e1, e3]; exact h.aOpen
    · rw [e2, e4]; exact h.bOpen
    · rw [e2, e3, e4]; exact h.notDone
  · have hid := h.idle; have hone := h.one; have hao := h.aOpen; have hbo := h.bOpen; have hnd := h.notDone
    have hc := h.cur
    cases l <;> first
      | (exact absurd rfl hl)
      | skip
    · -- closeEnter
      simp only [step] at hs
      split at hs
      · simp only [Option.some.injEq, Prod.mk.injEq] at hs; rw [← hs.1]; exact h
      · split at hs <;> (simp only [Option.some.injEq, Prod.mk.injEq] at hs; rw [← hs.1])
        · exact h
        · rename_i hcl
          have hclosing : s.closing = false := by
            cases hx : s.closing
            · rfl
            · simp [hx, hc] at hcl
          obtain ⟨a0, b0, d0, c0⟩ := hid hclosing
          constructor
          · exact hc
          · intro hx; simp at hx
          · simp only; omega
          · intro _; exact d0
          · intro hx; simp only at hx; omega
          · exact hnd
    · -- closeDone
      simp only [step] at hs
      split at hs
      · simp at hs
      · rename_i a ha
        have hA : s.closersA = 1 := by omega
        have hB : s.closersB = 0 := by omega
        have hd := hao hA
        simp only [hd, Bool.false_eq_true, if_false, Option.some.injEq, Prod.mk.injEq] at hs
        rw [← hs.1]
        have ha0 : a = 0 := by omega
        subst ha0
        have hclosing : s.closing = true := by
          cases hx : s.closing
          · have := (hid hx).1; omega
          · rfl
        constructor
        · exact hc
        · intro hx; simp [hclosing] at hx
        · simp only; omega
        · intro hx; simp at hx
        · intro _; exact (hnd hd).2
        · intro hx; simp at hx
    · -- closeFinish
      simp only [step] at hs
      split at hs
      · simp at hs
      · rename_i b hb
        have hB : s.closersB = 1 := by omega
        have hA : s.closersA = 0 := by omega
        have hcc := hbo hB
        simp only [hcc, Bool.false_eq_true, if_false, Option.some.injEq, Prod.mk.injEq] at hs
        rw [← hs.1]
        have hb0 : b = 0 := by omega
        subst hb0
        have hclosing : s.closing = true := by
          cases hx : s.closing
          · have := (hid hx).2.1; omega
          · rfl
        constructor
        · exact hc
        · intro hx; simp [hclosing] at hx
        · simp only; omega
        · exact hao
        · intro hx; simp at hx
        · intro hx; have := (hnd hx).1; omega

end C36
