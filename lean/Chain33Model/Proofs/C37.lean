import Chain33Model.Model.C37
/-! Helper lemmas for C37: key derivation length, xor cancellation, CBC chaining round trip, re-encryption loop. -/
namespace C37

theorem kdf_length (pw : Bytes) : (kdf pw).length = 32 := by
  unfold kdf
  split
  · simp [List.length_take]; omega
  · simp [List.length_append]; omega

theorem xor_length (a b : Bytes) : (xor a b).length = min a.length b.length := by
  simp [xor, List.length_zipWith]

theorem xor_xor_cancel : ∀ (a b : Bytes), a.length = b.length → xor (xor a b) b = a
  | [], [], _ => rfl
  | x :: a, y :: b, h => by
    simp only [List.length_cons, Nat.add_right_cancel_iff] at h
    have ih := xor_xor_cancel a b h
    simp only [xor, List.zipWith_cons_cons, List.cons.injEq] at ih ⊢
    exact ⟨by rw [UInt8.xor_assoc, UInt8.xor_self, UInt8.xor_zero], ih⟩
  | [], _ :: _, h => by simp at h
  | _ :: _, [], h => by simp at h

theorem cbcEncN_length (C : BlockCipher) (k : Bytes) : ∀ (n : Nat) (prev pt : Bytes),
    prev.length = 16 → pt.length = 16 * n → (cbcEncN C k n prev pt).length = 16 * n
  | 0, _, _, _, _ => by simp [cbcEncN]
  | n + 1, prev, pt, hp, hl => by
    have h16 : (xor (pt.take 16) prev).length = 16 := by
      rw [xor_length, List.length_take, hp, hl]; omega
    have hc := C.enc_len k _ h16
    have ih := cbcEncN_length C k n (C.enc k (xor (pt.take 16) prev)) (pt.drop 16) hc
      (by rw [List.length_drop, hl]; omega)
    simp only [cbcEncN, List.length_append, hc, ih]; omega

/-- CBC decryption undoes CBC encryption, for any number of blocks and any 16-byte IV. -/
theorem cbcN_roundtrip (C : BlockCipher) (k : Bytes) : ∀ (n : Nat) (prev pt : Bytes),
    prev.length = 16 → pt.length = 16 * n → cbcDecN C k n prev (cbcEncN C k n prev pt) = pt
  | 0, _, pt, _, hl => by
    have : pt = [] := List.eq_nil_of_length_eq_zero (by omega)
    simp [cbcEncN, cbcDecN, this]
  | n + 1, prev, pt, hp, hl => by
    have ht : (pt.take 16).length = 16 := by rw [List.length_take, hl]; omega
    have h16 : (xor (pt.take 16) prev).length = 16 := by rw [xor_length, ht, hp]; omega
    have hc := C.enc_len k _ h16
    have hd : (pt.drop 16).length = 16 * n := by rw [List.length_drop, hl]; omega
    have ih := cbcN_roundtrip C k n (C.enc k (xor (pt.take 16) prev)) (pt.drop 16) hc hd
    simp only [cbcEncN, cbcDecN]
    have htk : (C.enc k (xor (pt.take 16) prev) ++ cbcEncN C k n (C.enc k (xor (pt.take 16) prev)) (pt.drop 16)).take 16
        = C.enc k (xor (pt.take 16) prev) := by
      rw [List.take_append_of_le_length (by omega), List.take_of_length_le (by omega)]
    have hdr : (C.enc k (xor (pt.take 16) prev) ++ cbcEncN C k n (C.enc k (xor (pt.take 16) prev)) (pt.drop 16)).drop 16
        = cbcEncN C k n (C.enc k (xor (pt.take 16) prev)) (pt.drop 16) := by
      rw [List.drop_append_of_le_length (by omega), List.drop_of_length_le (by omega), List.nil_append]
    rw [htk, hdr, C.dec_enc k _ h16, xor_xor_cancel _ _ (by rw [ht, hp]), ih, List.take_append_drop]

theorem cbcDecN_length (C : BlockCipher) (k : Bytes) : ∀ (n : Nat) (prev ct : Bytes),
    prev.length = 16 → ct.length = 16 * n → (cbcDecN C k n prev ct).length = 16 * n
  | 0, _, _, _, _ => by simp [cbcDecN]
  | n + 1, prev, ct, hp, hl => by
    have ht : (ct.take 16).length = 16 := by rw [List.length_take, hl]; omega
    have ih := cbcDecN_length C k n (ct.take 16) (ct.drop 16) ht (by rw [List.length_drop, hl]; omega)
    simp only [cbcDecN, List.length_append, xor_length, C.dec_len k _ ht, hp, ih]; omega

/-- what the re-encryption loop does to each record, position by position. -/
theorem reencAll_spec (C : BlockCipher) (old new : Bytes) (ivs : Nat → Bytes) :
    ∀ (as : List Acct) (i : Nat) (as' : List Acct), reencAll C old new ivs i as = .ok as' →
      as'.length = as.length ∧
      ∀ j a, as[j]? = some a → ∃ a', as'[j]? = some a' ∧ reencAcct C old new (ivs (i + j)) a = .ok a'
  | [], i, as', h => by
    simp only [reencAll, Outcome.ok.injEq] at h
    subst h
    exact ⟨rfl, fun j a hj => by simp at hj⟩
  | a :: as, i, as', h => by
    simp only [reencAll] at h
    split at h
    · simp at h
    · rename_i a1 ha1
      split at h
      · simp at h
      · rename_i as1 has1
        simp only [Outcome.ok.injEq] at h
        subst h
        have ih := reencAll_spec C old new ivs as (i + 1) as1 has1
        refine ⟨by simp [ih.1], ?_⟩
        intro j b hj
        cases j with
        | zero =>
          simp only [List.getElem?_cons_zero, Option.some.injEq] at hj
          subst hj
          exact ⟨a1, by simp, by simpa using ha1⟩
        | succ j =>
          simp only [List.getElem?_cons_succ] at hj
          obtain ⟨b', hb', hr⟩ := ih.2 j b hj
          exact ⟨b', by simpa using hb', by rw [← hr]; congr 2; omega⟩

end C37
