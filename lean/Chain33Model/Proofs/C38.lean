import Chain33Model.Model.C38
/-! Helper lemmas for C38: reachability and the inductive invariants of the lock-flag LTS. -/
namespace C38

/-- states reachable by ANY interleaving of any length (the initial wallet is locked; whether the password is
cached in memory is arbitrary). -/
inductive Reach (v : Variant) : State → Prop where
  | init (m : Bool) : Reach v { memPw := m }
  | step {s s' : State} {l : Label} {o : Out} : Reach v s → step v s l = some (s', o) → Reach v s'

theorem reach_of_run (v : Variant) : ∀ (ls : List Label) (s s' : State) (os : List Out),
    Reach v s → run v s ls = some (s', os) → Reach v s'
  | [], s, s', os, hr, h => by simp [run] at h; exact h.1 ▸ hr
  | l :: ls, s, s', os, hr, h => by
    simp only [run] at h
    split at h
    · simp at h
    · rename_i s1 o hs
      split at h
      · simp at h
      · rename_i s2 os2 hrun
        simp only [Option.some.injEq, Prod.mk.injEq] at h
        exact h.1 ▸ reach_of_run v ls s1 s2 os2 (Reach.step hr hs) hrun

theorem reach_of_run_state (v : Variant) (ls : List Label) (s s' : State)
    (hr : Reach v s) (h : (run v s ls).map Prod.fst = some s') : Reach v s' := by
  cases hrun : run v s ls with
  | none => simp [hrun] at h
  | some r =>
    obtain ⟨s1, os⟩ := r
    simp only [hrun, Option.map_some, Option.some.injEq] at h
    exact h ▸ reach_of_run v ls s s1 os hr hrun

/-- scheduling hypothesis of the partial theorems: no Lock / timeout step falls between the `load` and the
`cas` of a running ProcWalletSetPasswd (two adjacent source lines). -/
def Sched (s : State) (l : Label) : Prop :=
  (l = .lock ∨ l = .timer) → ∀ c, s.sp = some c → c.nxt ≠ .cas

inductive ReachS (v : Variant) : State → Prop where
  | init (m : Bool) : ReachS v { memPw := m }
  | step {s s' : State} {l : Label} {o : Out} :
      ReachS v s → Sched s l → step v s l = some (s', o) → ReachS v s'

def CallInv (v : Variant) (s : State) (c : Call) : Prop :=
  ((c.nxt = .load ∨ c.nxt = .cas) → c.deferOn = false) ∧
  (c.nxt = .restore → c.deferOn = true) ∧
  (v.verifyFirst = true → c.nxt = .verify → c.deferOn = false) ∧
  (v.verifyFirst = true → c.nxt ≠ .verify → c.oldOk = true) ∧
  (if c.deferOn then (c.temp = false → s.locked = false → s.auth = true) ∧ (c.temp = true → s.auth = false)
   else (s.locked = false → s.auth = true) ∧ (c.nxt = .cas → c.temp = s.locked))

def InvG (v : Variant) (s : State) : Prop :=
  (s.locked = true → s.auth = false) ∧
  match s.sp with
  | none => (s.locked = false → s.auth = true)
  | some c => CallInv v s c

theorem invG_init (v : Variant) (m : Bool) : InvG v { memPw := m } := by
  simp [InvG]

theorem invG_spExec (v : Variant) (lk au ar mp tk : Bool) (c : Call)
    (hi : InvG v { locked := lk, auth := au, armed := ar, memPw := mp, ticket := tk, sp := some c }) :
    InvG v (spExec v { locked := lk, auth := au, armed := ar, memPw := mp, ticket := tk, sp := some c } c).1 := by
  obtain ⟨nxt, temp, oldOk, writeOk, deferOn, res⟩ := c
  obtain ⟨vf, tu⟩ := v
  cases nxt <;> cases deferOn <;> cases lk <;> cases au <;> cases temp <;>
    simp_all [InvG, CallInv, spExec, failWith] <;> (try split) <;> simp_all <;> grind

theorem invG_step (v : Variant) (s s' : State) (l : Label) (o : Out)
    (hi : InvG v s) (hs : Sched s l) (h : step v s l = some (s', o)) : InvG v s' := by
  obtain ⟨lk, au, ar, mp, tk, sp⟩ := s
  cases sp with
  | none =>
    cases l <;> simp only [step] at h
    all_goals (try (split at h)) <;> simp_all [InvG, CallInv, firstOp] <;> grind
  | some c =>
    obtain ⟨nxt, temp, oldOk, writeOk, deferOn, res⟩ := c
    cases l <;> simp only [step] at h
    case unlock => simp at h
    case guarded => simp at h
    case sign => simp at h
    case guardedTicket => simp at h
    case reporter =>
      simp only [Option.some.injEq, Prod.mk.injEq] at h
      obtain ⟨rfl, rfl⟩ := h
      exact hi
    case spBegin => simp at h
    case restart => simp at h
    case read =>
      simp only [Option.some.injEq, Prod.mk.injEq] at h
      obtain ⟨rfl, rfl⟩ := h
      exact hi
    case lock =>
      have := hs (Or.inl rfl) _ rfl
      simp only [Option.some.injEq, Prod.mk.injEq] at h
      obtain ⟨rfl, rfl⟩ := h
      simp_all [InvG, CallInv]
    case timer =>
      have := hs (Or.inr rfl) _ rfl
      split at h
      · simp only [Option.some.injEq, Prod.mk.injEq] at h
        obtain ⟨rfl, rfl⟩ := h
        simp_all [InvG, CallInv]
      · simp at h
    case spStep =>
      simp only [Option.some.injEq] at h
      have := invG_spExec v lk au ar mp tk _ hi
      rw [h] at this
      exact this

theorem reachS_inv {v : Variant} {s : State} (h : ReachS v s) : InvG v s := by
  induction h with
  | init m => exact invG_init v m
  | step _ hs hst ih => exact invG_step v _ _ _ _ ih hs hst

/-- structural facts about a running call that hold under EVERY schedule. -/
def StructInv (v : Variant) (s : State) : Prop :=
  ∀ c, s.sp = some c →
    (v.verifyFirst = true → c.nxt = .verify → c.deferOn = false) ∧
    (v.verifyFirst = true → c.nxt ≠ .verify → c.oldOk = true) ∧
    (v.tempUnlock = false → v.verifyFirst = true → (c.nxt = .verify ∨ c.nxt = .write) ∧ c.deferOn = false)

theorem struct_spExec (v : Variant) (s : State) (c : Call) (hsp : s.sp = some c) (hi : StructInv v s) :
    StructInv v (spExec v s c).1 := by
  have h := hi c hsp
  obtain ⟨nxt, temp, oldOk, writeOk, deferOn, res⟩ := c
  obtain ⟨vf, tu⟩ := v
  obtain ⟨lk, au, ar, mp, tk, sp⟩ := s
  cases nxt <;> cases deferOn <;> cases vf <;> cases tu <;> cases oldOk <;> cases writeOk <;> cases lk <;>
    intro c' hc' <;> simp [spExec, failWith] at hc' <;> (try subst hc') <;> first | done | simp_all

/-- a step that is not `spStep` leaves a running call untouched and can only start one at its first op. -/
theorem struct_step (v : Variant) (s s' : State) (l : Label) (o : Out)
    (hi : StructInv v s) (h : step v s l = some (s', o)) : StructInv v s' := by
  obtain ⟨lk, au, ar, mp, tk, sp⟩ := s
  cases l with
  | spStep =>
    cases sp with
    | none => simp [step] at h
    | some c =>
      simp only [step, Option.some.injEq] at h
      have := struct_spExec v _ c rfl hi
      rw [h] at this
      exact this
  | read =>
    simp only [step, Option.some.injEq, Prod.mk.injEq] at h
    obtain ⟨rfl, rfl⟩ := h
    exact hi
  | lock =>
    simp only [step, Option.some.injEq, Prod.mk.injEq] at h
    obtain ⟨rfl, rfl⟩ := h
    exact hi
  | timer =>
    simp only [step] at h
    split at h
    · simp only [Option.some.injEq, Prod.mk.injEq] at h
      obtain ⟨rfl, rfl⟩ := h
      exact hi
    · simp at h
  | guarded =>
    cases sp with
    | some c => simp [step] at h
    | none =>
      simp only [step] at h
      split at h <;> simp only [Option.some.injEq, Prod.mk.injEq] at h <;> obtain ⟨rfl, rfl⟩ := h <;> exact hi
  | sign a p =>
    cases sp with
    | some c => simp [step] at h
    | none =>
      simp only [step, Option.some.injEq, Prod.mk.injEq] at h
      obtain ⟨rfl, rfl⟩ := h
      exact hi
  | guardedTicket =>
    cases sp with
    | some c => simp [step] at h
    | none =>
      simp only [step] at h
      (repeat' split at h) <;> simp only [Option.some.injEq, Prod.mk.injEq] at h <;> obtain ⟨rfl, rfl⟩ := h <;> exact hi
  | reporter b =>
    simp only [step, Option.some.injEq, Prod.mk.injEq] at h
    obtain ⟨rfl, rfl⟩ := h
    exact hi
  | restart =>
    cases sp with
    | some c => simp [step] at h
    | none =>
      simp only [step, Option.some.injEq, Prod.mk.injEq] at h
      obtain ⟨rfl, rfl⟩ := h
      intro c hc; simp at hc
  | unlock pwOk ticketOnly timeout =>
    cases sp with
    | some c => simp [step] at h
    | none =>
      simp only [step] at h
      split at h
      · simp only [Option.some.injEq, Prod.mk.injEq] at h
        obtain ⟨rfl, rfl⟩ := h
        exact hi
      · split at h <;> simp only [Option.some.injEq, Prod.mk.injEq] at h <;> obtain ⟨rfl, rfl⟩ := h <;>
          (intro c hc; simp at hc)
  | spBegin oldOk newValid writeOk =>
    cases sp with
    | some c => simp [step] at h
    | none =>
      simp only [step] at h
      split at h
      · simp only [Option.some.injEq, Prod.mk.injEq] at h
        obtain ⟨rfl, rfl⟩ := h
        exact hi
      · simp only [Option.some.injEq, Prod.mk.injEq] at h
        obtain ⟨rfl, rfl⟩ := h
        intro c hc
        simp only [Option.some.injEq] at hc
        subst hc
        obtain ⟨vf, tu⟩ := v
        cases vf <;> cases tu <;> simp [firstOp]

theorem reach_struct {v : Variant} {s : State} (h : Reach v s) : StructInv v s := by
  induction h with
  | init m => intro c hc; simp at hc
  | step _ hst ih => exact struct_step v _ _ _ _ ih hst

/-- flag invariant of the variant without a temporary unlock: holds under every schedule. -/
def InvR (s : State) : Prop := (s.locked = true → s.auth = false) ∧ (s.locked = false → s.auth = true)

/-- in the variant without a temporary unlock no micro-step of ProcWalletSetPasswd touches flag or ghost. -/
theorem code_spExec_flag (s : State) (c : Call) (hn : c.nxt = .verify ∨ c.nxt = .write) (hd : c.deferOn = false) :
    (spExec code s c).1.locked = s.locked ∧ (spExec code s c).1.auth = s.auth := by
  obtain ⟨nxt, temp, oldOk, writeOk, deferOn, res⟩ := c
  simp only at hn hd
  subst hd
  rcases hn with rfl | rfl <;> cases oldOk <;> cases writeOk <;> simp [spExec, failWith, code]

theorem invR_step (s s' : State) (l : Label) (o : Out) (hst : StructInv code s)
    (hi : InvR s) (h : step code s l = some (s', o)) : InvR s' := by
  obtain ⟨lk, au, ar, mp, tk, sp⟩ := s
  cases l with
  | spStep =>
    cases sp with
    | none => simp [step] at h
    | some c =>
      simp only [step, Option.some.injEq] at h
      have hc := (hst c rfl).2.2 rfl rfl
      have := code_spExec_flag { locked := lk, auth := au, armed := ar, memPw := mp, ticket := tk, sp := some c } c hc.1 hc.2
      rw [h] at this
      simp only at this
      simp only [InvR] at hi ⊢
      rw [this.1, this.2]
      exact hi
  | read =>
    simp only [step, Option.some.injEq, Prod.mk.injEq] at h
    obtain ⟨rfl, rfl⟩ := h
    exact hi
  | lock =>
    simp only [step, Option.some.injEq, Prod.mk.injEq] at h
    obtain ⟨rfl, rfl⟩ := h
    simp [InvR]
  | timer =>
    simp only [step] at h
    split at h
    · simp only [Option.some.injEq, Prod.mk.injEq] at h
      obtain ⟨rfl, rfl⟩ := h
      simp [InvR]
    · simp at h
  | guarded =>
    cases sp with
    | some c => simp [step] at h
    | none =>
      simp only [step] at h
      split at h <;> simp only [Option.some.injEq, Prod.mk.injEq] at h <;> obtain ⟨rfl, rfl⟩ := h <;> exact hi
  | sign a p =>
    cases sp with
    | some c => simp [step] at h
    | none =>
      simp only [step, Option.some.injEq, Prod.mk.injEq] at h
      obtain ⟨rfl, rfl⟩ := h
      exact hi
  | guardedTicket =>
    cases sp with
    | some c => simp [step] at h
    | none =>
      simp only [step] at h
      (repeat' split at h) <;> simp only [Option.some.injEq, Prod.mk.injEq] at h <;> obtain ⟨rfl, rfl⟩ := h <;> exact hi
  | reporter b =>
    simp only [step, Option.some.injEq, Prod.mk.injEq] at h
    obtain ⟨rfl, rfl⟩ := h
    exact hi
  | restart =>
    cases sp with
    | some c => simp [step] at h
    | none =>
      simp only [step, Option.some.injEq, Prod.mk.injEq] at h
      obtain ⟨rfl, rfl⟩ := h
      simp [InvR]
  | unlock pwOk ticketOnly timeout =>
    cases sp with
    | some c => simp [step] at h
    | none =>
      simp only [step] at h
      split at h
      · simp only [Option.some.injEq, Prod.mk.injEq] at h
        obtain ⟨rfl, rfl⟩ := h
        exact hi
      · split at h <;> simp only [Option.some.injEq, Prod.mk.injEq] at h <;> obtain ⟨rfl, rfl⟩ := h
        · exact hi
        · simp [InvR]
  | spBegin oldOk newValid writeOk =>
    cases sp with
    | some c => simp [step] at h
    | none =>
      simp only [step] at h
      split at h <;> simp only [Option.some.injEq, Prod.mk.injEq] at h <;> obtain ⟨rfl, rfl⟩ := h <;> exact hi

theorem reach_code_inv {s : State} (h : Reach code s) : InvR s := by
  induction h with
  | init m => simp [InvR]
  | step hr hst ih => exact invR_step _ _ _ _ (reach_struct hr) ih hst

/-- interleavings without any ProcWalletSetPasswd step. -/
inductive ReachNoSp (v : Variant) : State → Prop where
  | init (m : Bool) : ReachNoSp v { memPw := m }
  | step {s s' : State} {l : Label} {o : Out} : ReachNoSp v s →
      (∀ a b c, l ≠ .spBegin a b c) → l ≠ .spStep → step v s l = some (s', o) → ReachNoSp v s'

theorem noSp_sp_none {v : Variant} {s : State} (h : ReachNoSp v s) : s.sp = none := by
  induction h with
  | init m => rfl
  | @step s s' l o _ hb hs hst ih =>
    cases l with
    | spBegin a b c => exact absurd rfl (hb a b c)
    | spStep => exact absurd rfl hs
    | read => simp only [step, Option.some.injEq, Prod.mk.injEq] at hst; rw [← hst.1]; exact ih
    | lock => simp only [step, Option.some.injEq, Prod.mk.injEq] at hst; rw [← hst.1]; exact ih
    | timer =>
      simp only [step] at hst
      split at hst
      · simp only [Option.some.injEq, Prod.mk.injEq] at hst; rw [← hst.1]; exact ih
      · simp at hst
    | guarded =>
      simp only [step, ih] at hst
      split at hst <;> simp only [Option.some.injEq, Prod.mk.injEq] at hst <;> rw [← hst.1] <;> exact ih
    | sign a p => simp only [step, ih, Option.some.injEq, Prod.mk.injEq] at hst; rw [← hst.1]; exact ih
    | guardedTicket =>
      simp only [step, ih] at hst
      (repeat' split at hst) <;> simp only [Option.some.injEq, Prod.mk.injEq] at hst <;> rw [← hst.1] <;> exact ih
    | reporter b => simp only [step, Option.some.injEq, Prod.mk.injEq] at hst; rw [← hst.1]; exact ih
    | restart => simp only [step, ih, Option.some.injEq, Prod.mk.injEq] at hst; rw [← hst.1]
    | unlock a b c =>
      simp only [step, ih] at hst
      split at hst
      · simp only [Option.some.injEq, Prod.mk.injEq] at hst; rw [← hst.1]; exact ih
      · split at hst <;> simp only [Option.some.injEq, Prod.mk.injEq] at hst <;> rw [← hst.1] <;> exact ih

theorem noSp_reachS {v : Variant} {s : State} (h : ReachNoSp v s) : ReachS v s := by
  induction h with
  | init m => exact ReachS.init m
  | step hr _ _ hst ih =>
    exact ReachS.step ih (fun _ c hc => by rw [noSp_sp_none hr] at hc; simp at hc) hst

end C38
