import Chain33Model.Model.C39
import Std.Data.String.ToNat
/-!
C39 — helper lemmas: (1) the two struct types of the JSON-RPC path read the same `Method` from every
member list; (2) the text of a non-loopback address is never the default whitelist entry `127.0.0.1`.
-/
namespace C39

/-! ### field matching of `clientRequest` and `serverRequest` -/

theorem findField_client_server (k : String) :
    (findField clientRequest k).map (·.name) = (findField serverRequest k).map (·.name) ∧
    (∀ f, findField clientRequest k = some f → f.name = "method" → f.ty = .string) ∧
    (∀ f, findField serverRequest k = some f → f.name = "method" → f.ty = .string) := by
  unfold findField clientRequest serverRequest
  simp only [List.find?_cons, List.find?_nil]
  generalize ("method" == k) = e1
  generalize ("params" == k) = e2
  generalize ("id" == k) = e3
  generalize (foldKey "method" == foldKey k) = f1
  generalize (foldKey "params" == foldKey k) = f2
  generalize (foldKey "id" == foldKey k) = f3
  cases e1 <;> cases e2 <;> cases e3 <;> cases f1 <;> cases f2 <;> cases f3 <;> simp <;> decide

theorem stepField_method_eq (cur : Option JV) (kv : String × JV) :
    stepField clientRequest "method" cur kv = stepField serverRequest "method" cur kv := by
  obtain ⟨hn, hc, hs⟩ := findField_client_server kv.1
  unfold stepField
  cases h1 : findField clientRequest kv.1 with
  | none =>
    cases h2 : findField serverRequest kv.1 with
    | none => rfl
    | some g => simp [h1, h2] at hn
  | some f =>
    cases h2 : findField serverRequest kv.1 with
    | none => simp [h1, h2] at hn
    | some g =>
      have hfg : f.name = g.name := by simpa [h1, h2] using hn
      by_cases hm : f.name = "method"
      · have hf := hc f h1 hm
        have hg := hs g h2 (hfg ▸ hm)
        simp [← hfg, hm, hf, hg]
      · have hm' : ¬ g.name = "method" := hfg ▸ hm
        simp [hm, hm']

/-- **Every member list**: the gate's struct and the dispatcher's struct end up with the same `Method`. -/
theorem methodOf_client_eq_server (ms : List (String × JV)) :
    methodOf clientRequest ms = methodOf serverRequest ms := by
  have h : ∀ (ms : List (String × JV)) (cur : Option JV),
      ms.foldl (stepField clientRequest "method") cur = ms.foldl (stepField serverRequest "method") cur := by
    intro ms
    induction ms with
    | nil => intro cur; rfl
    | cons kv rest ih => intro cur; simp only [List.foldl_cons, stepField_method_eq]; exact ih _
  unfold methodOf fieldVal
  rw [h]

/-- a member the dispatcher's decoder rejects is rejected by the gate's decoder as well
(the gate's field types are the stricter ones). -/
theorem memberBad_server_client (kv : String × JV) (h : memberBad serverRequest kv = true) :
    memberBad clientRequest kv = true := by
  obtain ⟨k, v⟩ := kv
  revert h
  unfold memberBad findField clientRequest serverRequest
  simp only [List.find?_cons, List.find?_nil]
  generalize ("method" == k) = e1
  generalize ("params" == k) = e2
  generalize ("id" == k) = e3
  generalize (foldKey "method" == foldKey k) = f1
  generalize (foldKey "params" == foldKey k) = f2
  generalize (foldKey "id" == foldKey k) = f3
  cases e1 <;> cases e2 <;> cases e3 <;> cases f1 <;> cases f2 <;> cases f3 <;> cases v <;> simp [store]

theorem decodeBad_server_client (ms : List (String × JV)) (h : decodeBad serverRequest ms = true) :
    decodeBad clientRequest ms = true := by
  unfold decodeBad at *
  rw [List.any_eq_true] at *
  obtain ⟨kv, hm, hb⟩ := h
  exact ⟨kv, hm, memberBad_server_client kv hb⟩

/-- whatever the gate decoded is what the dispatcher decodes from the same body. -/
theorem gate_dispatch_agree (b : Body) (m : String) (h : gateMethod b = some m) :
    dispatchMethod b = some m := by
  unfold gateMethod dispatchMethod decodeMethod at *
  cases b with
  | null => exact h
  | other => exact h
  | obj ms =>
    simp only at h ⊢
    by_cases hb : decodeBad clientRequest ms = true
    · simp [hb] at h
    · have hs : ¬ decodeBad serverRequest ms = true := fun h' => hb (decodeBad_server_client ms h')
      simp only [hb, hs, if_false, Bool.false_eq_true] at h ⊢
      rw [← methodOf_client_eq_server]; exact h

/-! ### the name `net/rpc` looks up is the segment the gate judged -/

theorem lastSeg_fold (cs : List Char) :
    (∀ r, afterLastDot cs = some r →
      ∀ acc, cs.foldl (fun acc c => if c == '.' then [] else acc ++ [c]) acc = r) ∧
    (afterLastDot cs = none →
      ∀ acc, cs.foldl (fun acc c => if c == '.' then [] else acc ++ [c]) acc = acc ++ cs) := by
  induction cs with
  | nil => simp [afterLastDot]
  | cons c cs ih =>
    obtain ⟨ih1, ih2⟩ := ih
    unfold afterLastDot
    cases h : afterLastDot cs with
    | some r' =>
      constructor
      · intro r hr acc
        simp only [Option.some.injEq] at hr
        subst hr
        simp only [List.foldl_cons]
        exact ih1 r' h _
      · intro hn; simp at hn
    | none =>
      by_cases hc : c = '.'
      · subst hc
        constructor
        · intro r hr acc
          simp only [beq_self_eq_true, if_true, Option.some.injEq] at hr
          subst hr
          simp only [List.foldl_cons, beq_self_eq_true, if_true]
          simpa using ih2 h []
        · intro hn; simp at hn
      · have hb : (c == '.') = false := by simpa using hc
        constructor
        · intro r hr; simp [hb] at hr
        · intro _ acc
          simp only [List.foldl_cons, hb, Bool.false_eq_true, if_false]
          rw [ih2 h]; simp

theorem rpcMethodName_eq_lastSeg (m fn : String) (h : rpcMethodName m = some fn) : fn = lastSeg m '.' := by
  unfold rpcMethodName at h
  cases ha : afterLastDot m.toList with
  | none => simp [ha] at h
  | some r =>
    simp only [ha, Option.map_some, Option.some.injEq] at h
    subst h
    unfold lastSeg lastSegL
    rw [(lastSeg_fold m.toList).1 r ha []]

/-! ### a non-loopback address never has the text `127.0.0.1` -/

theorem sep_prefix_unique {α : Type} (c : α) :
    ∀ (xs ys r r' : List α), c ∉ xs → c ∉ ys → xs ++ c :: r = ys ++ c :: r' → xs = ys
  | [], [], _, _, _, _, _ => rfl
  | [], y :: ys, r, r', _, hy, h => by
    simp only [List.nil_append, List.cons_append, List.cons.injEq] at h
    exact absurd (h.1 ▸ List.mem_cons_self) hy
  | x :: xs, [], r, r', hx, _, h => by
    simp only [List.nil_append, List.cons_append, List.cons.injEq] at h
    exact absurd (h.1 ▸ List.mem_cons_self) hx
  | x :: xs, y :: ys, r, r', hx, hy, h => by
    simp only [List.cons_append, List.cons.injEq] at h
    rw [h.1, sep_prefix_unique c xs ys r r' (fun m => hx (List.mem_cons_of_mem _ m))
      (fun m => hy (List.mem_cons_of_mem _ m)) h.2]

theorem dot_not_mem_repr (n : Nat) : '.' ∉ n.repr.toList := by
  intro h
  rw [Nat.toList_repr] at h
  have := Nat.isDigit_of_mem_toDigits (by decide) (by decide) h
  revert this; decide

theorem dotted_eq_default (a b c d : Nat) (h : dotted a b c d = "127.0.0.1") : a = 127 := by
  have hl := congrArg String.toList h
  unfold dotted at hl
  simp only [String.toList_append] at hl
  have e : "127.0.0.1".toList = (127 : Nat).repr.toList ++ '.' :: "0.0.1".toList := by decide
  have e' : ".".toList = ['.'] := by decide
  rw [e, e'] at hl
  simp only [List.append_assoc, List.singleton_append] at hl
  have := sep_prefix_unique '.' _ _ _ _ (dot_not_mem_repr a) (dot_not_mem_repr 127) hl
  exact Nat.repr_inj.mp (String.toList_inj.mp this)

theorem v6_ne_default (pre post : String) : pre ++ ":" ++ post ≠ "127.0.0.1" := by
  intro h
  have hl := congrArg String.toList h
  simp only [String.toList_append] at hl
  have hm : ':' ∈ "127.0.0.1".toList := by
    rw [← hl]; simp [show ":".toList = [':'] by decide]
  revert hm; decide

/-- what `net.ParseIP` classifies as non-loopback never renders as the default entry. -/
theorem norm_ne_default (ip : IP) (hl : ip.isLoopback = false) : ip.norm ≠ "127.0.0.1" := by
  cases ip with
  | v4 a b c d =>
    intro h; have := dotted_eq_default a b c d h
    simp [IP.isLoopback, this] at hl
  | mapped a b c d =>
    intro h; have := dotted_eq_default a b c d h
    simp [IP.isLoopback, this] at hl
  | lo6 => simp [IP.isLoopback] at hl
  | v6 pre post => exact v6_ne_default pre post

end C39
