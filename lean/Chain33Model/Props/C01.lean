import Chain33Model.Model.C01
/-! C01 — property theorems (work in progress). -/
namespace C01

theorem toList_leaf (k v : Bytes) (m : Meta) : (Node.leaf k v m).toList = [(k, v)] := rfl

end C01
