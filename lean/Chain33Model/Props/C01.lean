import Chain33Model.Proofs.C01Batch
/-!
C01 — State tree behaves as a persistent versioned map.  Property theorems only (helpers: Proofs/C01*.lean).

Model: `Chain33Model/Model/C01.lean` (`Node.set/get/balance/traverse` mirror system/store/mavl/db/node.go).
`ST` = search-tree ordering, `WF` = stored height/size correct + AVL balance, `TInv` = both (tree level).
Spec side: `SMap` (strictly sorted association list), `lastWrite`, `sel` (range filter in direction), `runCb`.
-/
namespace C01
open Node

/-- **set_inv** — `set` never panics and preserves the search-tree ordering, the stored height/size fields and
the AVL balance (for every tree satisfying them, every key and value). -/
theorem set_inv (t : Node) (k v : Bytes) (hst : ST t) (hwf : WF t) :
    ∃ t' u, t.set k v = some (t', u) ∧ ST t' ∧ WF t' ∧
      (u = true → t'.height = t.height ∧ t'.size = t.size) ∧
      (u = false → t'.size = t.size + 1 ∧ t.height ≤ t'.height ∧ t'.height ≤ t.height + 1) := by
  obtain ⟨t', u, e, _, hst'⟩ := set_spec t k v hst
  obtain ⟨hwf', h1, h2⟩ := set_WF t k v hwf t' u e
  exact ⟨t', u, e, hst', hwf', h1, h2⟩

/-- non-vacuity: a concrete two-level tree satisfies the hypotheses of `set_inv`. -/
example : ST (.inner [98] 1 2 (.leaf [97] [1] Meta.fresh) (.leaf [98] [2] Meta.fresh) Meta.fresh) ∧
          WF (.inner [98] 1 2 (.leaf [97] [1] Meta.fresh) (.leaf [98] [2] Meta.fresh) Meta.fresh) := by
  refine ⟨⟨trivial, trivial, ?_, ?_⟩, trivial, trivial, rfl, rfl, by decide, by decide⟩ <;>
    simp [lt, le, cmpB]

/-- **set_total** — `set` (hence `balance`, `rotateLeft/Right`) never panics, on any tree whatsoever. -/
theorem set_total (t : Node) (k v : Bytes) : ∃ r, t.set k v = some r := set_isSome t k v

/-- **get_set** — reading any key after a write: the written value for the written key, the old answer for
every other key. -/
theorem get_set (t t' : Node) (k v : Bytes) (u : Bool) (hst : ST t) (e : t.set k v = some (t', u)) (k' : Bytes) :
    (t'.get k').2 = if k' = k then some v else (t.get k').2 := by
  obtain ⟨t'', u', e', hl, hst'⟩ := set_spec t k v hst
  rw [e] at e'
  obtain ⟨rfl, rfl⟩ : t' = t'' ∧ u = u' := by simpa using e'
  rw [get_eq_lookup t' k' hst', hl, SMap.lookup_ins, get_eq_lookup t k' hst]

/-- **toList_set** — refinement: the in-order leaf list after `set` is the sorted-map insertion. -/
theorem toList_set (t t' : Node) (k v : Bytes) (u : Bool) (hst : ST t) (e : t.set k v = some (t', u)) :
    t'.toList = SMap.ins k v t.toList := by
  obtain ⟨t'', u', e', hl, _⟩ := set_spec t k v hst
  rw [e] at e'
  obtain ⟨rfl, rfl⟩ : t' = t'' ∧ u = u' := by simpa using e'
  exact hl

/-- **toList_sorted** — the leaves of a search tree are strictly ascending by key: each key exactly once. -/
theorem toList_strictly_sorted (t : Node) (hst : ST t) : t.toList.Pairwise (fun a b => lt a.1 b.1) :=
  toList_sorted t hst

/-- **toList_foldl_set** — refinement for whole histories: applying any list of batches (each batch an ordered
list of writes, as `SetKVPair` does) to a tree satisfying the invariant never panics, keeps the invariant, and the
resulting leaf list is the sorted map obtained by inserting all writes in order. -/
theorem toList_foldl_set (t : Tree) (bs : List (List (Bytes × Bytes))) (hi : TInv t) :
    ∃ t', applyBatches t bs = some t' ∧ TInv t' ∧
      Tree.toList t' = SMap.insMany (Tree.toList t) bs.flatten :=
  let ⟨t', e, hl, hi'⟩ := applyBatches_spec t bs hi
  ⟨t', e, hi', hl⟩

/-- **read_latest** — for any history of batches starting from the empty state, reading key `k` in the tree of
batch `i` (= after the first `i` batches, for every `i` since `bs` is arbitrary) returns the value of the most
recent write to `k` in those batches, or nothing if it was never written. -/
theorem read_latest (bs : List (List (Bytes × Bytes))) :
    ∃ t, applyBatches none bs = some t ∧ TInv t ∧ ∀ k, (Tree.get t k).2 = lastWrite bs.flatten k := by
  obtain ⟨t, e, hl, hi⟩ := applyBatches_spec none bs trivial
  refine ⟨t, e, hi, fun k => ?_⟩
  rw [Tree.get_eq_lookup t k hi, hl, lookup_insMany]
  cases lastWrite bs.flatten k <;> simp [Tree.toList, SMap.lookup]

/-- the same statement relative to an arbitrary earlier version `t` (a fork from any committed root):
writes of the later batches win, otherwise the answer of the parent version is kept. -/
theorem read_latest_from (t : Tree) (bs : List (List (Bytes × Bytes))) (hi : TInv t) :
    ∃ t', applyBatches t bs = some t' ∧ TInv t' ∧
      ∀ k, (Tree.get t' k).2 = (lastWrite bs.flatten k).orElse (fun _ => (Tree.get t k).2) := by
  obtain ⟨t', e, hl, hi'⟩ := applyBatches_spec t bs hi
  refine ⟨t', e, hi', fun k => ?_⟩
  rw [Tree.get_eq_lookup t' k hi', hl, lookup_insMany, Tree.get_eq_lookup t k hi]

/-- **iterRange_spec** — for every bounds / direction / inclusiveness and every callback `f` (arbitrary state and
stop decision), `traverseInRange` is exactly: run `f` over the leaves whose key is inside the bounds, in ascending
(resp. descending) key order, and stop at the first `true`.  With `toList_strictly_sorted` this says: exactly the
state's keys inside the bounds, each once, in the requested order, up to and including the first stop. -/
theorem iterRange_spec {σ : Type} (start stop : Option Bytes) (asc incl : Bool)
    (f : σ → Bytes → Bytes → σ × Bool) (t : Node) (hst : ST t) (st : σ) :
    t.traverse start stop asc incl f st = runCb f (sel start stop asc incl t.toList) st :=
  traverse_spec start stop asc incl f t hst st

/-- corollary for the never-stopping collecting callback used by `IterateRangeByStateHash` callers that
return `false`: the visited sequence is the filtered leaf list (reversed when descending). -/
theorem iterate_all (start stop : Option Bytes) (asc incl : Bool) (t : Node) (hst : ST t) :
    (Tree.iterate (some t) start stop asc incl none).1 = sel start stop asc incl t.toList := by
  simp only [Tree.iterate]
  rw [traverse_spec start stop asc incl (collectCb none) t hst []]
  generalize sel start stop asc incl t.toList = l
  suffices h : ∀ acc, (runCb (collectCb none) l acc).1 = acc ++ l by simpa using h []
  induction l with
  | nil => intro acc; simp [runCb]
  | cons a rest ih =>
    intro acc
    obtain ⟨k, v⟩ := a
    simp [runCb, collectCb, ih]

/-- stored `size` = number of leaves (so `Tree.Size` is the number of keys of the state). -/
theorem size_is_count (t : Node) (hwf : WF t) : t.size = t.toList.length := size_eq_length t hwf

end C01
