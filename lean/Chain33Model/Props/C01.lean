import Chain33Model.Proofs.C01Depth
import Chain33Model.Proofs.C01StoreInv
import Chain33Model.Proofs.C04
import Chain33Model.Proofs.C01Batch
import Chain33Model.Proofs.C01Store
import Chain33Model.Proofs.C01Consistent
import Chain33Model.Proofs.C01Remove
/-!
C01 — State tree behaves as a persistent versioned map.  Property theorems only (helpers: Proofs/C01*.lean).

Model: `Chain33Model/Model/C01.lean` (`Node.set/get/balance/traverse` mirror system/store/mavl/db/node.go).
`ST` = search-tree ordering, `WF` = stored height/size correct + AVL balance, `TInv` = both (tree level).
Spec side: `SMap` (strictly sorted association list), `lastWrite`, `sel` (range filter in direction), `runCb`.
-/
namespace C01
open Node

/-- **set_inv** — `set` never panics and preserves the search-tree ordering, the stored height/size fields and
the AVL balance (for every tree satisfying them, every key and value). -/
theorem set_inv (t : Node) (k v : Bytes) (hst : ST t) (hwf : WF t) :
    ∃ t' u, t.set k v = some (t', u) ∧ ST t' ∧ WF t' ∧
      (u = true → t'.height = t.height ∧ t'.size = t.size) ∧
      (u = false → t'.size = t.size + 1 ∧ t.height ≤ t'.height ∧ t'.height ≤ t.height + 1) := by
  obtain ⟨t', u, e, _, hst'⟩ := set_spec t k v hst
  obtain ⟨hwf', h1, h2⟩ := set_WF t k v hwf t' u e
  exact ⟨t', u, e, hst', hwf', h1, h2⟩

/-- non-vacuity: a concrete two-level tree satisfies the hypotheses of `set_inv`. -/
example : ST (.inner [98] 1 2 (.leaf [97] [1] Meta.fresh) (.leaf [98] [2] Meta.fresh) Meta.fresh) ∧
          WF (.inner [98] 1 2 (.leaf [97] [1] Meta.fresh) (.leaf [98] [2] Meta.fresh) Meta.fresh) := by
  refine ⟨⟨trivial, trivial, ?_, ?_⟩, trivial, trivial, rfl, rfl, by decide, by decide⟩ <;>
    simp [lt, le, cmpB]

/-- **set_total** — `set` (hence `balance`, `rotateLeft/Right`) never panics, on any tree whatsoever. -/
theorem set_total (t : Node) (k v : Bytes) : ∃ r, t.set k v = some r := set_isSome t k v

/-- **get_set** — reading any key after a write: the written value for the written key, the old answer for
every other key. -/
theorem get_set (t t' : Node) (k v : Bytes) (u : Bool) (hst : ST t) (e : t.set k v = some (t', u)) (k' : Bytes) :
    (t'.get k').2 = if k' = k then some v else (t.get k').2 := by
  obtain ⟨t'', u', e', hl, hst'⟩ := set_spec t k v hst
  rw [e] at e'
  obtain ⟨rfl, rfl⟩ : t' = t'' ∧ u = u' := by simpa using e'
  rw [get_eq_lookup t' k' hst', hl, SMap.lookup_ins, get_eq_lookup t k' hst]

/-- **toList_set** — refinement: the in-order leaf list after `set` is the sorted-map insertion. -/
theorem toList_set (t t' : Node) (k v : Bytes) (u : Bool) (hst : ST t) (e : t.set k v = some (t', u)) :
    t'.toList = SMap.ins k v t.toList := by
  obtain ⟨t'', u', e', hl, _⟩ := set_spec t k v hst
  rw [e] at e'
  obtain ⟨rfl, rfl⟩ : t' = t'' ∧ u = u' := by simpa using e'
  exact hl

/-- **toList_sorted** — the leaves of a search tree are strictly ascending by key: each key exactly once. -/
theorem toList_strictly_sorted (t : Node) (hst : ST t) : t.toList.Pairwise (fun a b => lt a.1 b.1) :=
  toList_sorted t hst

/-- **toList_foldl_set** — refinement for whole histories: applying any list of batches (each batch an ordered
list of writes, as `SetKVPair` does) to a tree satisfying the invariant never panics, keeps the invariant, and the
resulting leaf list is the sorted map obtained by inserting all writes in order. -/
theorem toList_foldl_set (t : Tree) (bs : List (List (Bytes × Bytes))) (hi : TInv t) :
    ∃ t', applyBatches t bs = some t' ∧ TInv t' ∧
      Tree.toList t' = SMap.insMany (Tree.toList t) bs.flatten :=
  let ⟨t', e, hl, hi'⟩ := applyBatches_spec t bs hi
  ⟨t', e, hi', hl⟩

/-- **read_latest** — for any history of batches starting from the empty state, reading key `k` in the tree of
batch `i` (= after the first `i` batches, for every `i` since `bs` is arbitrary) returns the value of the most
recent write to `k` in those batches, or nothing if it was never written. -/
theorem read_latest (bs : List (List (Bytes × Bytes))) :
    ∃ t, applyBatches none bs = some t ∧ TInv t ∧ ∀ k, (Tree.get t k).2 = lastWrite bs.flatten k := by
  obtain ⟨t, e, hl, hi⟩ := applyBatches_spec none bs trivial
  refine ⟨t, e, hi, fun k => ?_⟩
  rw [Tree.get_eq_lookup t k hi, hl, lookup_insMany]
  cases lastWrite bs.flatten k <;> simp [Tree.toList, SMap.lookup]

/-- the same statement relative to an arbitrary earlier version `t` (a fork from any committed root):
writes of the later batches win, otherwise the answer of the parent version is kept. -/
theorem read_latest_from (t : Tree) (bs : List (List (Bytes × Bytes))) (hi : TInv t) :
    ∃ t', applyBatches t bs = some t' ∧ TInv t' ∧
      ∀ k, (Tree.get t' k).2 = (lastWrite bs.flatten k).orElse (fun _ => (Tree.get t k).2) := by
  obtain ⟨t', e, hl, hi'⟩ := applyBatches_spec t bs hi
  refine ⟨t', e, hi', fun k => ?_⟩
  rw [Tree.get_eq_lookup t' k hi', hl, lookup_insMany, Tree.get_eq_lookup t k hi]

/-- **iterRange_spec** — for every bounds / direction / inclusiveness and every callback `f` (arbitrary state and
stop decision), `traverseInRange` is exactly: run `f` over the leaves whose key is inside the bounds, in ascending
(resp. descending) key order, and stop at the first `true`.  With `toList_strictly_sorted` this says: exactly the
state's keys inside the bounds, each once, in the requested order, up to and including the first stop. -/
theorem iterRange_spec {σ : Type} (start stop : Option Bytes) (asc incl : Bool)
    (f : σ → Bytes → Bytes → σ × Bool) (t : Node) (hst : ST t) (st : σ) :
    t.traverse start stop asc incl f st = runCb f (sel start stop asc incl t.toList) st :=
  traverse_spec start stop asc incl f t hst st

/-- corollary for the never-stopping collecting callback used by `IterateRangeByStateHash` callers that
return `false`: the visited sequence is the filtered leaf list (reversed when descending). -/
theorem iterate_all (start stop : Option Bytes) (asc incl : Bool) (t : Node) (hst : ST t) :
    (Tree.iterate (some t) start stop asc incl none).1 = sel start stop asc incl t.toList := by
  simp only [Tree.iterate]
  rw [traverse_spec start stop asc incl (collectCb none) t hst []]
  generalize sel start stop asc incl t.toList = l
  suffices h : ∀ acc, (runCb (collectCb none) l acc).1 = acc ++ l by simpa using h []
  induction l with
  | nil => intro acc; simp [runCb]
  | cons a rest ih =>
    intro acc
    obtain ⟨k, v⟩ := a
    simp [runCb, collectCb, ih]

/-- stored `size` = number of leaves (so `Tree.Size` is the number of keys of the state). -/
theorem size_is_count (t : Node) (hwf : WF t) : t.size = t.toList.length := size_eq_length t hwf

/-! ### persistence: committed versions stay readable (node records, `save` / `load`) -/

/-- **load_stored** — a tree whose records are in the database (`Stored`) is read back exactly: same keys, values
(elided under MVCC), stored heights/sizes and node keys; `FitsRec` = the tree fits the Go/wire types. -/
theorem load_stored (cfg : Cfg) (db : NodeDB) (n : Node) (hs : Stored cfg db n) (hf : FitsRec n)
    (fuel : Nat) (top : Bool) (h : Bytes) (hh : n.info.hk = some h) (hd : depth n < fuel) :
    load db fuel top h = .ok (asLoaded cfg n) :=
  load_of_stored cfg db n hs hf fuel top h hh hd

/-- **old_roots_stable** — whatever is committed later, and after close + reopen (the same record map): as long
as the earlier records are still there (`Sub db db'`), every earlier root loads to exactly the same tree. -/
theorem old_roots_stable (cfg : Cfg) (db db' : NodeDB) (hsub : Sub db db') (n : Node) (hs : Stored cfg db n)
    (hf : FitsRec n) (fuel : Nat) (top : Bool) (h : Bytes) (hh : n.info.hk = some h) (hd : depth n < fuel) :
    load db' fuel top h = load db fuel top h :=
  load_stable cfg db db' hsub n hs hf fuel top h hh hd

/-- **load_save_partial** — `save` then `load` under the hypothesis `Consistent`: no database key receives two
different records (neither among the records written by this `save`, nor against a record already present).
Under a fixed configuration without height prefix this is what collision-freeness gives (key = hash of the
content: `load_save_or_collision` below derives it), and with the height prefix it can genuinely fail for the
*root* record (same root hash, other child keys — the C02 finding lives there).  Then: the saved tree is read back
exactly, every earlier record is kept (so `old_roots_stable` applies to all earlier roots), and the returned tree
is stored. -/
theorem load_save_partial (cfg : Cfg) (n n' : Node) (db db' : NodeDB) (hsave : save cfg n db = some (n', db'))
    (hps : PersistedStored cfg db n) (hf : FitsRec n)
    (hc : ∀ ws, writes cfg n = some ws → Consistent ws db)
    (root : Bytes) (hroot : n.info.hk = some root) (fuel : Nat) (top : Bool) (hd : depth n < fuel) :
    load db' fuel top root = .ok (asLoaded cfg n) ∧ Sub db db' ∧ Stored cfg db' n' :=
  load_save cfg n n' db db' hsave hps hf hc root hroot fuel top hd

/-- non-vacuity of `load_save_partial` / `load_stored`: a fresh leaf saved into the empty database. -/
example : ∃ (n' : Node) (db' : NodeDB),
    save Cfg.default (.leaf [1] [2] ⟨some [9], false⟩) {} = some (n', db') ∧
    PersistedStored Cfg.default {} (.leaf [1] [2] ⟨some [9], false⟩) ∧ FitsRec (.leaf [1] [2] ⟨some [9], false⟩) ∧
    (∀ ws, writes Cfg.default (.leaf [1] [2] ⟨some [9], false⟩) = some ws → Consistent ws {}) := by
  refine ⟨_, _, rfl, ?_, ?_, ?_⟩
  · intro h; simp at h
  · refine ⟨by decide, by decide, ?_⟩
    intro h e; simp at e; subst e; decide
  · intro ws e
    simp [writes] at e
    subst e
    refine ⟨?_, ?_⟩
    · intro p hp q hq _; simp at hp hq; rw [hp, hq]
    · intro p hp v hv; simp at hv

/-! ### `Consistent` discharged: stores without the height prefix -/

/-- **set_keyMin** — `set` keeps "the inner key is the smallest key of the right subtree" (the part of the tree
invariant that makes a node record a function of the node's hashed content). -/
theorem set_keeps_keyMin (t : Node) (k v : Bytes) (hst : ST t) (hkm : KeyMin t) (t' : Node) (u : Bool)
    (e : t.set k v = some (t', u)) : KeyMin t' :=
  set_keyMin t k v hst hkm t' u e

/-- **merkle_binding** — two well-formed trees with the same hash have the same content (keys, values, shape,
stored heights and sizes, inner keys), or two DIFFERENT strings among those hashed in the two trees
(`C03.treeTrace`: the leaf and inner-node encodings, an explicit finite list) have the same hash. -/
theorem merkle_binding {H : Bytes → Bytes} (hlen : ∀ x, (H x).length = 32) (n m : Node)
    (sn : C03.Shape n) (sm : C03.Shape m) (kn : KeyMin n) (km : KeyMin m)
    (e : C02.pureHash H n = C02.pureHash H m) :
    C02.erase n = C02.erase m ∨ C03.CollisionIn H (C03.treeTrace H n ++ C03.treeTrace H m) :=
  pureHash_inj hlen n m sn sm kn km e

/-- **load_save_or_collision** (full, store without `EnableMavlPrefix`) — `PH H n`: every node of the tree is keyed by the hash of
its content (what `Node.Hash` does without the prefix: `hashNode_keys_content`); `DBInv … W`: every record of the
database is the record of a well-formed node from the explicit list `W` (the nodes saved so far), under that node's
hash (kept by `save` for `W ++ subnodes n`, part of the conclusion).  Then `save` makes the tree loadable exactly
as saved and keeps every earlier record — or two different strings among those hashed in the tree and in the nodes
of `W` have the same hash (a located collision; the unlocated `∃ x ≠ y, H x = H y` would be true of every
32-byte-valued function by counting and is not what is stated).
With the height prefix the statement is false for the *root* record (same root hash, other child keys: the
mechanism behind the C02 finding); there `load_save_partial` with its explicit `Consistent` stays. -/
theorem load_save_or_collision {H : Bytes → Bytes} (hlen : ∀ x, (H x).length = 32) (cfg : Cfg) (n n' : Node) (db db' : NodeDB)
    (W : List Node)
    (hsave : save cfg n db = some (n', db')) (hp : PH H n) (hs : C03.Shape n) (hk : KeyMin n)
    (hdb : DBInv H cfg db W) (hps : PersistedStored cfg db n) (hf : FitsRec n)
    (fuel : Nat) (top : Bool) (hd : depth n < fuel) :
    (load db' fuel top (C02.pureHash H n) = .ok (asLoaded cfg n) ∧ Sub db db' ∧ Stored cfg db' n' ∧
      DBInv H cfg db' (W ++ subnodes n)) ∨ C03.CollisionIn H (C03.treeTrace H n ++ tracesOf H W) :=
  load_save_full hlen cfg n n' db db' W hsave hp hs hk hdb hps hf fuel top hd

/-- how `PH` comes about: without the prefix, `Node.Hash` on a tree whose untouched parts are keyed by content
(`PHoF`, kept by `set`: `set_phoF`) keys every node by the hash of its content and returns the pure hash. -/
theorem hashNode_keys_content {H : Bytes → Bytes} (cfg : Cfg) (hpf : cfg.pfx = false) (bh rh : Nat) (t : Node)
    (hf : PHoF H t) : PH H (hashNode H cfg bh rh t).1 ∧ (hashNode H cfg bh rh t).2 = C02.pureHash H t :=
  let ⟨a, b, _⟩ := hashNode_PH cfg hpf bh rh t hf
  ⟨a, b⟩

/-- non-vacuity: the empty database satisfies `DBInv`; a fresh leaf is `PHoF`, `KeyMin`, `Shape`. -/
example (H : Bytes → Bytes) : DBInv H Cfg.default {} [] ∧ PHoF H (.leaf [1] [2] Meta.fresh) ∧
    KeyMin (.leaf [1] [2] Meta.fresh) ∧ C03.Shape (.leaf [1] [2] Meta.fresh) :=
  ⟨fun k v h => by simp at h, Or.inl rfl, trivial, trivial⟩

/-! ### removal (`Tree.Remove` / `DelKVPair`) -/

/-- **remove_inv** — `Node.remove` never panics and, when it rebuilds the subtree, keeps the search-tree order, the
stored height/size fields with the AVL balance, and "inner key = leftmost key of the right subtree" (that is what the
`newKey` propagation is for); one leaf less, at most one level less. -/
theorem remove_inv (t : Node) (key : Bytes) (hst : ST t) (hwf : WF t) (hkm : KeyMin t) :
    ∃ res, t.remove key = some res ∧
      ∀ n' nkey v, res = .replaced n' nkey v →
        ST n' ∧ WF n' ∧ KeyMin n' ∧ n'.size + 1 = t.size ∧ n'.height ≤ t.height ∧ t.height ≤ n'.height + 1 := by
  obtain ⟨res, e, ok⟩ := remove_spec t key hst hkm
  refine ⟨res, e, ?_⟩
  intro n' nkey v hr
  subst hr
  obtain ⟨_, _, o3, o4, _, _⟩ := ok
  obtain ⟨w, a, b, c⟩ := remove_WF t key hwf n' nkey v e
  exact ⟨o3, w, o4, a, b, c⟩

/-- **get_remove** — `Tree.Remove` returns the value the key had, the new tree satisfies the invariant, its leaf list
is the old one without that key, and reading any key afterwards gives nothing for the removed key and the old answer
for every other key. -/
theorem get_remove (t : Tree) (k : Bytes) (hi : TInvK t) :
    ∃ t' v, Tree.remove t k = some (t', v) ∧ TInvK t' ∧ v = (Tree.get t k).2 ∧
      Tree.toList t' = dropKey k (Tree.toList t) ∧
      ∀ k', (Tree.get t' k').2 = if k' = k then none else (Tree.get t k').2 := by
  obtain ⟨t', v, e, hi', hv, hl⟩ := Tree.remove_spec t k hi
  refine ⟨t', v, e, hi', hv, hl, ?_⟩
  intro k'
  have g1 : (Tree.get t' k').2 = SMap.lookup k' (Tree.toList t') := by
    cases t' with
    | none => rfl
    | some n => exact get_eq_lookup n k' hi'.1
  have g2 : (Tree.get t k').2 = SMap.lookup k' (Tree.toList t) := by
    cases t with
    | none => rfl
    | some n => exact get_eq_lookup n k' hi.1
  rw [g1, hl, lookup_dropKey, g2]

/-- non-vacuity: a two-leaf tree satisfies `TInvK`. -/
example : TInvK (some (.inner [98] 1 2 (.leaf [97] [1] Meta.fresh) (.leaf [98] [2] Meta.fresh) Meta.fresh)) := by
  refine ⟨⟨trivial, trivial, ?_, ?_⟩, ⟨trivial, trivial, rfl, rfl, by decide, by decide⟩, ⟨trivial, trivial, rfl⟩⟩ <;>
    simp [lt, le, cmpB]

/-! ### the side conditions of the save/load theorems, discharged -/

/-- **depth_lt_loadFuel** — `load` never runs out of its recursion budget on a tree the store can hold: a balanced
tree whose stored size fits an int32 is lower than `loadFuel` (an AVL tree of height h has at least 2^(h/2) leaves).
Discharges `depth n < fuel` of `load_stored` / `old_roots_stable` / `load_save_*` for `loadTree`. -/
theorem depth_lt_loadFuel (n : Node) (hw : WF n) (hf : FitsRec n) : depth n < loadFuel :=
  depth_lt_loadFuel_aux n hw hf

/-- **save_total** — `save` cannot take its "node without hash" branch after `Node.Hash`: on a tree whose untouched
parts are hashed (`HoF`, kept by `set`: `C02.set_hoF`) `hashRoot` leaves a key on every node, and `save` of such a
tree answers (this is the "both panic" disjunct of `C02.memset_commit_eq_set`, unreachable). -/
theorem save_total {H : Bytes → Bytes} (hlen : ∀ x, (H x).length = 32) (cfg : Cfg) (bh : Nat) (t : Node)
    (hf : C02.HoF H t) (db : NodeDB) : ∃ n' db', save cfg (hashRoot H cfg bh t).1 db = some (n', db') := by
  obtain ⟨hh, _⟩ := C02.hashNode_spec hlen cfg bh t.height t hf
  obtain ⟨n', db', e, _⟩ := save_total_keyed cfg _ (keyed_of_hashed _ hh) db
  exact ⟨n', db', e⟩

/-- **loaded_tree_inv** — what `load` returns for a saved tree (`asLoaded`, `load_stored`) is again a tree the next
batch can be applied to: same leaf keys, search-tree order, stored heights/sizes with the AVL balance, inner keys,
node keys; and — only when MVCC does not elide the values (`cfg.mvcc = false`) — the same key/value list and the
content-keyed property `PH`.  Under `enableMVCC` the loaded leaves carry no values: reads of values at a root are a
property of the mvcc store (C09), not of this tree. -/
theorem loaded_tree_inv {H : Bytes → Bytes} (cfg : Cfg) (n : Node) :
    (ST n → ST (asLoaded cfg n)) ∧ (WF n → WF (asLoaded cfg n)) ∧ (KeyMin n → KeyMin (asLoaded cfg n)) ∧
    (C03.Shape n → C03.Shape (asLoaded cfg n)) ∧ (asLoaded cfg n).info.hk = n.info.hk ∧
    (cfg.mvcc = false → (asLoaded cfg n).toList = n.toList ∧ (PH H n → PH H (asLoaded cfg n))) :=
  ⟨asLoaded_ST cfg n, (asLoaded_inv cfg n).1, (asLoaded_inv cfg n).2.1, (asLoaded_inv cfg n).2.2, asLoaded_hk cfg n,
    fun hm => ⟨asLoaded_toList cfg hm n, fun hp => (asLoaded_PH cfg hm n hp).1⟩⟩

/-! ### store level: reading at a stored root, after later commits and after reopen -/

/-- **get_at_stored_root** — `Store.Get` at the root of a tree that is stored in the database (what `save` leaves:
`Stored`, conclusion of `load_save_*`), in ANY later store state `s'` whose database
still holds the earlier records (`Sub`: every later commit only adds records) and that has no pending tree under
that root — in particular after close + reopen — answers, for every key, the value in the saved tree's key/value
list.  Without MVCC (`cfg.mvcc = false`; under `enableMVCC` the loaded leaves carry no values).  `C04.CacheOK`: the
node cache only holds what the database holds (true of a fresh / reopened store, kept by MemSet / Rollback / Get).
Together with `toList_foldl_set` (the list after the batches is the sorted map of the writes) this is the read clause
for one root; the fold over `Store.setKV` histories that establishes `Stored` for every root is not composed. -/
theorem get_at_stored_root (cfg : Cfg) (hm : cfg.mvcc = false) (db : NodeDB) (n : Node) (r : Bytes)
    (hs : Stored cfg db n) (hf : FitsRec n) (hw : WF n) (hst : ST n) (hr : n.info.hk = some r)
    (hr0 : ¬ (r.isEmpty ∨ r = List.replicate 32 0))
    (s' : Store) (hsub : Sub db s'.db) (hc : C04.CacheOK s')
    (hno : ∀ x, lookupTree s'.trees r ≠ some (some x)) (ks : List Bytes) :
    (s'.get r ks).1 = .ok (ks.map (fun k => SMap.lookup k n.toList)) ∧
    (s'.reopen.get r ks).1 = .ok (ks.map (fun k => SMap.lookup k n.toList)) := by
  have hl : ∀ db', Sub db db' → C04.dbRead db' r ks = .ok (ks.map (fun k => SMap.lookup k n.toList)) := by
    intro db' hsub'
    have e := load_of_stored cfg db' n (hs.mono hsub') hf loadFuel true r hr (depth_lt_loadFuel_aux n hw hf)
    unfold C04.dbRead loadTree
    rw [if_neg hr0, e]
    simp only [Res.ok.injEq]
    apply List.map_congr_left
    intro k _
    simp only [Tree.get]
    rw [get_eq_lookup _ k (asLoaded_ST cfg n hst), asLoaded_toList cfg hm n]
  refine ⟨?_, ?_⟩
  · rw [C04.get_reply_db s' hc r ks hno]; exact hl _ hsub
  · rw [C04.get_reply_db s'.reopen (C04.reopen_cacheOK s') r ks (by intro x; simp [Store.reopen, lookupTree])]
    exact hl _ hsub

/-- non-vacuity of `get_at_stored_root`: a one-leaf state stored under the key `[9]`, read in a store over that
database with nothing pending and an empty cache. -/
example :
    let n : Node := .leaf [1] [2] ⟨some [9], true⟩
    let db : NodeDB := ({} : NodeDB).insert [9] (storeRec Cfg.default [1] [2] [] [] 0 1)
    Stored Cfg.default db n ∧ FitsRec n ∧ WF n ∧ ST n ∧ ¬ (([9] : Bytes).isEmpty ∨ [9] = List.replicate 32 0) ∧
      C04.CacheOK ⟨Cfg.default, db, [], {}⟩ ∧ ∀ x, lookupTree ([] : List (Bytes × Option Node)) [9] ≠ some (some x) := by
  intro n db
  refine ⟨⟨[9], rfl, by simp [db]⟩, ⟨by decide, by decide, ?_⟩, trivial, trivial, by decide, ?_, ?_⟩
  · intro h e; simp at e; subst e; decide
  · intro h x e; simp at e
  · intro x e; simp [lookupTree] at e

/-! ### store level, end to end: histories of `Store.Set` from the empty store -/

/-- **store_reads_latest** — the read clause on the executable store model that the driver runs, for stores without
`EnableMavlPrefix` and without `enableMVCC` (any of the other flags): commit the batches `bs` one after the other
through `Store.Set` starting from a new store (`hist`: block `i` at height `i`, on top of the previous root).  Then
every `Store.Set` answers a root, and in the FINAL store — after all later commits — and in the final store after
close + reopen, `Store.Get` at the root of batch `i` answers for every key the value of the most recent write to it
in the batches `1..i`, nothing if it was never written.
Or two DIFFERENT strings among the node encodings hashed on the way (`tracesOf H` of the nodes `Node.Hash` hashed,
returned by `hist` as a ghost component: an explicit finite list) have the same hash.
Hypotheses: 32-byte outputs; no hash is the all-zero root (`loadTree` reads an all-zero root as the empty state, as
the code does); keys/values shorter than 2^64 bytes; fewer than 2^31 keys in every state (int32 size field).
All side conditions of the save/load theorems (`PersistedStored`, `FitsRec`, `PH`, `Shape`, `KeyMin`, `DBInv`,
`depth < loadFuel`, `save` total) are discharged inside by the invariant `SInv` (`setKV_sinv`). -/
theorem store_reads_latest {H : Bytes → Bytes} (hlen : ∀ x, (H x).length = 32) (hz : ∀ x, H x ≠ zero32) (cfg : Cfg)
    (hp : cfg.pfx = false) (hm : cfg.mvcc = false) (bs : List (List (Bytes × Bytes)))
    (hb : ∀ b ∈ bs, ∀ p ∈ b, p.1.length < 2 ^ 64 ∧ p.2.length < 2 ^ 64)
    (hsz : ∀ i, i ≤ bs.length → (SMap.insMany [] (bs.take i).flatten).length < 2 ^ 31) :
    ((hist H (Store.new cfg) [] 1 bs).2.1.length = bs.length ∧
      ∀ i root, (hist H (Store.new cfg) [] 1 bs).2.1[i]? = some root → ∀ ks,
        ((hist H (Store.new cfg) [] 1 bs).1.get root ks).1 = .ok (ks.map (lastWrite (bs.take (i + 1)).flatten)) ∧
        ((hist H (Store.new cfg) [] 1 bs).1.reopen.get root ks).1 = .ok (ks.map (lastWrite (bs.take (i + 1)).flatten))) ∨
    C03.CollisionIn H (tracesOf H (hist H (Store.new cfg) [] 1 bs).2.2) := by
  rcases hist_sinv hlen hz bs (Store.new cfg) [] [([], [])] [] [] 1 (sinv_new H cfg hp hm) (by simp) hb hsz with
    ⟨hl, R', hi, _, hroots⟩ | col
  · left
    refine ⟨hl, ?_⟩
    intro i root e ks
    have hmem := hroots i root e
    have hlk : ∀ k, SMap.lookup k (SMap.insMany [] (bs.take (i + 1)).flatten) = lastWrite (bs.take (i + 1)).flatten k := by
      intro k
      rw [lookup_insMany]
      cases lastWrite (bs.take (i + 1)).flatten k <;> simp [SMap.lookup]
    simp only [List.nil_append] at hi
    refine ⟨?_, ?_⟩
    · rw [sinv_get hlen _ _ R' hi root _ hmem ks]; simp only [hlk]
    · rw [sinv_get hlen _ _ R' (sinv_reopen hi) root _ hmem ks]; simp only [hlk]
  · right
    simpa using col

/-- non-vacuity of the hypotheses of `store_reads_latest` on a two-batch history (the bounds; `hlen` is satisfied
by any 32-byte-valued function, `hz` by any such function that avoids one value, e.g. a constant one). -/
example : (∃ H : Bytes → Bytes, (∀ x, (H x).length = 32) ∧ ∀ x, H x ≠ zero32) ∧
    (∀ b ∈ [[(([1] : Bytes), ([2] : Bytes))], [([1], [3]), ([4], [5])]], ∀ p ∈ b, p.1.length < 2 ^ 64 ∧ p.2.length < 2 ^ 64) ∧
    ∀ i, i ≤ 2 → (SMap.insMany [] (([[(([1] : Bytes), ([2] : Bytes))], [([1], [3]), ([4], [5])]].take i).flatten)).length < 2 ^ 31 := by
  refine ⟨⟨fun _ => List.replicate 32 1, fun _ => by simp, fun _ => by show List.replicate 32 (1 : UInt8) ≠ zero32; decide⟩, by decide, ?_⟩
  intro i hi
  have : i = 0 ∨ i = 1 ∨ i = 2 := by omega
  rcases this with rfl | rfl | rfl <;> decide

end C01
