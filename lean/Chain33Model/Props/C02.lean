import Chain33Model.Model.C02
/-! C02 — property theorems (work in progress). -/
namespace C02
open C01

theorem rollback_db (s : Store) (r : Bytes) : (rollback s r).2.db = s.db := by
  unfold rollback; split <;> rfl

end C02
