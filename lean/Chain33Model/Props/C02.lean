import Chain33Model.Proofs.C02
import Chain33Model.Proofs.C01Depth
/-!
C02 — State root depends only on prior root and ordered writes.  Property theorems only (helpers: Proofs/C02.lean).

`H` is the hash function (parameter; only `∀ x, (H x).length = 32` is used).  `roots H cfg t blocks` is the list of
root hashes a store with configuration `cfg` computes when the blocks `(height, ordered writes)` are applied to the
state tree `t` (`applyBlock` = the loop of `SetKVPair` / `MemSet` followed by `Node.Hash`).
-/
namespace C02
open C01 C03

/-- **root_cfg_independent** — two stores with *any* two configurations that apply the same ordered writes — even
at different block heights — compute the same root hash after every block.  What this says, flag by flag: `roots`
(the in-memory evolution: the writes followed by `Node.Hash`) reads exactly ONE field of the configuration, `cfg.pfx`
(key prefixing; `EnableMavlPrune` forces it); the theorem's content is that the prefix, and the block height that
goes into it, never reach a root hash.  `prune`, `memTree`, `memVal` and `mvcc` do not occur in `roots` at all, so
independence from them holds by construction of the model: their effects lie in save/load (MVCC elides values on
reload), in the pruning bookkeeping and in the memTree cache, and for those the statement "the model's `roots` is
what the code computes" is established by the differential run only (all 32 option sets) — where it FAILS for
memTree (`cache_transparent_full_false`, KNOWN-FINDING). -/
theorem root_cfg_independent {H : Bytes → Bytes} (hlen : ∀ x, (H x).length = 32) (cfg₁ cfg₂ : Cfg)
    (blocks : List (Nat × Nat × List (Bytes × Bytes))) (rs : List Bytes)
    (h : roots H cfg₁ none (blocks.map fun b => (b.1, b.2.2)) = some rs) :
    roots H cfg₂ none (blocks.map fun b => (b.2.1, b.2.2)) = some rs :=
  roots_rel hlen cfg₁ cfg₂ blocks (t1 := none) (t2 := none) trivial rs h

/-- the same from any pair of related states (`Rel`: same abstract tree, consistent node keys, un-prefixed root
key) — e.g. one committed root loaded in two differently configured stores WITHOUT MVCC (a tree loaded under
`enableMVCC` has its values elided, is not `Hashed` and is not covered; that `load` of a saved tree gives `Rel` is
`C01.loaded_tree_inv` for the shape/keys and is not composed here). -/
theorem root_cfg_independent_from {H : Bytes → Bytes} (hlen : ∀ x, (H x).length = 32) (cfg₁ cfg₂ : Cfg)
    (t₁ t₂ : Tree) (hr : Rel H t₁ t₂) (blocks : List (Nat × Nat × List (Bytes × Bytes))) (rs : List Bytes)
    (h : roots H cfg₁ t₁ (blocks.map fun b => (b.1, b.2.2)) = some rs) :
    roots H cfg₂ t₂ (blocks.map fun b => (b.2.1, b.2.2)) = some rs :=
  roots_rel hlen cfg₁ cfg₂ blocks hr rs h

/-- non-vacuity of the hypothesis `roots … = some rs`: computing the roots never panics, from any tree. -/
theorem roots_total (H : Bytes → Bytes) (cfg : Cfg) (blocks : List (Nat × List (Bytes × Bytes))) :
    ∀ t : Tree, ∃ rs, roots H cfg t blocks = some rs := by
  induction blocks with
  | nil => intro t; exact ⟨[], rfl⟩
  | cons b rest ih =>
    obtain ⟨bh, kvs⟩ := b
    intro t
    obtain ⟨t', e⟩ := Tree.setMany_isSome kvs t
    cases t' with
    | none =>
      obtain ⟨rs, e2⟩ := ih none
      exact ⟨[] :: rs, by simp [roots, applyBlock, e, e2]⟩
    | some n =>
      obtain ⟨rs, e2⟩ := ih (some (hashRoot H cfg bh n).1)
      exact ⟨(hashRoot H cfg bh n).2 :: rs, by simp [roots, applyBlock, e, e2]⟩

/-- non-vacuity of `hlen`: a function with 32-byte outputs exists (SHA-256 is one; this one is trivial). -/
example : ∃ H : Bytes → Bytes, ∀ x, (H x).length = 32 := ⟨fun _ => List.replicate 32 0, fun _ => by simp⟩

/-- **hashNode_Hashed** — under every configuration, block height and prefix decision, `Node.Hash` leaves every
node with a key whose last 32 bytes are the hash of its encoding, and that hash is the pure hash of the abstract
tree.  (This is the hypothesis `Hashed` of the C03 theorems: they hold under every `Cfg`.) -/
theorem hashNode_Hashed {H : Bytes → Bytes} (hlen : ∀ x, (H x).length = 32) (cfg : Cfg) (bh rh : Nat) (t : Node)
    (hf : HoF H t) :
    Hashed H (hashNode H cfg bh rh t).1 ∧ last32 (hashNode H cfg bh rh t).2 = pureHash H t :=
  let ⟨a, _, c, _⟩ := hashNode_spec hlen cfg bh rh t hf
  ⟨a, c⟩

/-- **memset_commit_eq_set** — applying the writes as a pending update (`MemSet`) returns the same root as
applying them in one step (`Set`); committing the pending update returns that root again and leaves the same
database.  (The only other possibility listed is the unreachable "node without hash" branch of `save`, in which
both paths report a panic.) -/
theorem memset_commit_eq_set (H : Bytes → Bytes) (s : Store) (parent : Bytes) (bh : Nat)
    (kvs : List (Bytes × Bytes)) (root : Bytes) (s1 : Store)
    (h : memSet H s parent bh kvs = (.ok root, s1)) (hne : kvs ≠ []) :
    (∃ s2 s3, Store.setKV H s parent bh kvs = (.ok root, s2) ∧ commit s1 root = (.ok root, s3) ∧ s3.db = s2.db) ∨
    (∃ s2 s3, Store.setKV H s parent bh kvs = (.panic, s2) ∧ commit s1 root = (.panic, s3)) := by
  unfold memSet at h
  have hne' : kvs.isEmpty = false := by cases kvs <;> simp_all
  simp only [hne', Bool.false_eq_true, if_false] at h
  unfold Store.setKV
  generalize s.loadRoot parent = lr at h ⊢
  obtain ⟨res, s'⟩ := lr
  cases res with
  | notfound => simp at h
  | panic => simp at h
  | ok t =>
    simp only at h ⊢
    cases hsm : Tree.setMany t kvs with
    | none => simp [hsm] at h
    | some t' =>
      cases t' with
      | none => simp [hsm] at h
      | some n =>
        simp only [hsm] at h ⊢
        generalize hhr : hashRoot H s'.cfg bh n = hr at h
        obtain ⟨n', root'⟩ := hr
        simp only [Prod.mk.injEq, Res.ok.injEq] at h
        obtain ⟨rfl, rfl⟩ := h
        simp only [saveTree, hhr, commit, lookupTree_storeTree]
        cases hsv : save s'.cfg n' s'.db with
        | none => exact Or.inr ⟨_, _, rfl, rfl⟩
        | some p =>
          obtain ⟨n'', db'⟩ := p
          exact Or.inl ⟨_, _, rfl, rfl, by simp [Store.cacheTree]⟩

/-- **memset_commit_eq_set_total** — the same without the panic disjunct: when the parent's tree, as the store loads
it, is "hashed or fresh" (`HoFT`; a loaded tree is fully keyed, `set` keeps it: `Tree.setMany_hoF`), `Node.Hash` leaves
a key on every node and `save` answers (`C01.save_total`), so Set and MemSet→Commit both answer the root and leave
the same database. -/
theorem memset_commit_eq_set_total (H : Bytes → Bytes) (hlen : ∀ x, (H x).length = 32) (s : Store) (parent : Bytes)
    (bh : Nat) (kvs : List (Bytes × Bytes)) (root : Bytes) (s1 : Store)
    (h : memSet H s parent bh kvs = (.ok root, s1)) (hne : kvs ≠ [])
    (hl : ∀ t s', s.loadRoot parent = (.ok t, s') → HoFT H t) :
    ∃ s2 s3, Store.setKV H s parent bh kvs = (.ok root, s2) ∧ commit s1 root = (.ok root, s3) ∧ s3.db = s2.db := by
  rcases memset_commit_eq_set H s parent bh kvs root s1 h hne with ok | ⟨s2, s3, e1, _⟩
  · exact ok
  · exfalso
    unfold memSet at h
    have hne' : kvs.isEmpty = false := by cases kvs <;> simp_all
    simp only [hne', Bool.false_eq_true, if_false] at h
    unfold Store.setKV at e1
    have hl' := hl
    generalize s.loadRoot parent = lr at h e1 hl'
    obtain ⟨res, s'⟩ := lr
    cases res with
    | notfound => simp at h
    | panic => simp at h
    | ok t =>
      simp only at h e1
      cases hsm : Tree.setMany t kvs with
      | none => simp [hsm] at h
      | some t' =>
        cases t' with
        | none => simp [hsm] at h
        | some n =>
          have hf : HoF H n := Tree.setMany_hoF kvs t (hl' t s' rfl) (some n) hsm
          simp only [hsm, saveTree] at e1
          obtain ⟨hh, _⟩ := hashNode_spec hlen s'.cfg bh n.height n hf
          obtain ⟨n', db', e, _⟩ := C01.save_total_keyed s'.cfg _ (C01.keyed_of_hashed _ hh) s'.db
          change save s'.cfg (hashRoot H s'.cfg bh n).1 s'.db = some (n', db') at e
          generalize hhr : hashRoot H s'.cfg bh n = hr at e1 e
          obtain ⟨hn, hroot⟩ := hr
          simp only at e
          simp [e] at e1

/-! ### memTree: the cache is *not* transparent in the code (finding, replayed by `h_c02` hunt mode) -/

/-- full statement the design aimed at (`cache_transparent`): whatever pending updates were hashed and whatever
was saved, every subtree readable from the database alone is readable through `GetNode` (memTree first). -/
def Mem.CacheTransparent : Prop :=
  ∀ (ops : List Mem.Op) (k : Mem.Key) (fuel : Nat),
    Mem.readable (Mem.find (Mem.run ops).db) fuel k = true →
    Mem.readable (Mem.getNode (Mem.run ops)) fuel k = true

/-- **cache_transparent_full_false** — the witness of the finding: base tree `10 ↦ (1, 2)` saved; a pending
update at height h₁ hashes root `100 ↦ (10, 31)` and its new leaf `31` (memVal off: the leaf is not cached) and is
never committed; the same writes at height h₂ are saved as `100 ↦ (10, 32)`, `32`.  The database can read root
`100`; `GetNode` gets the stale `100 ↦ (10, 31)` from memTree and `31` exists nowhere.
Real code: `set . 1 a,b; mset P 5 c; rollback; set P 6 c; mset R 7 …` panics (KNOWN-FINDING C02|Store.MemSet|…). -/
theorem cache_transparent_full_false : ¬ Mem.CacheTransparent := by
  intro h
  have := h [ .save [(1, ⟨none⟩), (2, ⟨none⟩), (10, ⟨some (1, 2)⟩)],
              .hashPending [(31, ⟨none⟩), (100, ⟨some (10, 31)⟩)] false,
              .save [(32, ⟨none⟩), (100, ⟨some (10, 32)⟩)] ] 100 5 (by decide)
  revert this
  decide

/-- the cache agrees with the database on every key it holds. -/
def Mem.MemOK (s : Mem.St) : Prop := ∀ k r, Mem.find s.mem k = some r → Mem.find s.db k = some r

/-- **cache_transparent_partial** — with the added hypothesis that memTree only holds what the database holds
under the same key (true when every hashed pending update is committed before a different tree with the same
root key is saved, e.g. in the MemSet→Commit discipline without rollbacks), `GetNode` answers exactly what the
database answers, so reading through the cache equals reading the database. -/
theorem cache_transparent_partial (s : Mem.St) (hok : Mem.MemOK s) (fuel : Nat) (k : Mem.Key) :
    Mem.readable (Mem.getNode s) fuel k = Mem.readable (Mem.find s.db) fuel k := by
  have hg : ∀ k, Mem.getNode s k = Mem.find s.db k := by
    intro k
    unfold Mem.getNode
    cases hm : Mem.find s.mem k with
    | none => rfl
    | some r => simp [hok k r hm]
  induction fuel generalizing k with
  | zero => rfl
  | succ n ih =>
    simp only [Mem.readable, hg k]
    cases Mem.find s.db k with
    | none => rfl
    | some r =>
      obtain ⟨c⟩ := r
      cases c with
      | none => rfl
      | some p => obtain ⟨l, r⟩ := p; simp [ih]

/-- non-vacuity of `MemOK`: the state after "save, then hash the very same nodes" (a committed MemSet). -/
example : Mem.MemOK (Mem.run [.save [(1, ⟨none⟩), (2, ⟨none⟩), (10, ⟨some (1, 2)⟩)],
    .hashPending [(10, ⟨some (1, 2)⟩)] false]) := by
  intro k r h
  have : Mem.run [.save [(1, ⟨none⟩), (2, ⟨none⟩), (10, ⟨some (1, 2)⟩)],
      .hashPending [(10, ⟨some (1, 2)⟩)] false] = ⟨[(1, ⟨none⟩), (2, ⟨none⟩), (10, ⟨some (1, 2)⟩)], [(10, ⟨some (1, 2)⟩)]⟩ := by
    rfl
  rw [this] at h ⊢
  simp only [Mem.find] at h ⊢
  split at h
  · rename_i hk; subst hk; simpa using h
  · simp at h

/-- **memOK_quiescent** — `MemOK` (the hypothesis of `cache_transparent_partial`) holds at every quiescent point
of the discipline "each hashed pending update is saved before the next one is hashed" (MemSet → Commit, no
rollback, no abandoned update), under content addressing (`G`: a key determines its record — what fails for the
un-prefixed root key in a prefixed store, the finding): after any number of such pairs from the empty state, with
the `TreeMap.Add` toggle accounted for, memTree holds only what the database holds.  Between the `hashPending` and
its `save` `MemOK` is false (the new nodes are in memTree only) — that window is where reads of the pending root
happen, and they are served by memTree alone. -/
theorem memOK_quiescent (G : Mem.Key → Option Mem.Rec) (cs : List (Mem.Tbl × Bool))
    (hc : ∀ c ∈ cs, ∀ p ∈ c.1, G p.1 = some p.2) : Mem.MemOK (cs.foldl Mem.commitPair ⟨[], []⟩) := by
  suffices h : ∀ s : Mem.St, (∀ k r, Mem.find s.mem k = some r → Mem.find s.db k = some r) →
      (∀ k r, Mem.find s.db k = some r → G k = some r) → (∀ c ∈ cs, ∀ p ∈ c.1, G p.1 = some p.2) →
      Mem.MemOK (cs.foldl Mem.commitPair s) from
    h ⟨[], []⟩ (fun k r e => by simp [Mem.find] at e) (fun k r e => by simp [Mem.find] at e) hc
  induction cs with
  | nil => intro s hm _ _; exact hm
  | cons c rest ih =>
    intro s hm hd hc'
    obtain ⟨a, b⟩ := Mem.commitPair_ok G s c hm hd (hc' c (by simp))
    exact ih (fun c' h' => hc c' (by simp [h'])) _ a b (fun c' h' => hc' c' (by simp [h']))

/-- non-vacuity: two committed updates sharing a subtree, with the content-addressing table `G`. -/
example : ∀ c ∈ [([(1, ⟨none⟩), (2, ⟨none⟩), (10, ⟨some (1, 2)⟩)], false), ([(3, ⟨none⟩), (11, ⟨some (10, 3)⟩)], true)],
    ∀ p ∈ c.1, (fun k => if k = 10 then some ⟨some (1, 2)⟩ else if k = 11 then some ⟨some (10, 3)⟩
      else if k ≤ 3 then some (⟨none⟩ : Mem.Rec) else none) p.1 = some p.2 := by
  decide

end C02
