import Chain33Model.Model.C03
/-! C03 — property theorems (work in progress). -/
namespace C03
open C01

theorem verify_undecodable (H : Bytes → Bytes) (root k v p : Bytes) (h : decodeProof p = none) :
    verifyKVPairProof H root k v p = false := by
  simp [verifyKVPairProof, h]

end C03
