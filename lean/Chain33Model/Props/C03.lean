import Chain33Model.Proofs.C03Old
import Chain33Model.Proofs.C03Member
import Chain33Model.Proofs.C03Total
/-!
C03 — State proofs are complete, sound and crash-free.  Property theorems only
(helpers: Proofs/C03.lean, C03Bytes.lean, C03Old.lean, C03Member.lean).

`H : Bytes → Bytes` is the hash function (SHA-256 in the drivers): a parameter, used only through
`hlen : ∀ x, (H x).length = 32`; soundness concludes `… ∨ Collision` with the colliding pair *located* among the
strings actually hashed.  `Hashed H t` = every node of `t` carries a database key whose last 32 bytes are the hash of
its encoding (what `Node.Hash` establishes under every configuration, `C02.hashNode_Hashed`); `Shape t` = inner nodes
have height ≥ 1 and size ≥ 2 (`shape_of_WF`: every tree `set` builds); `Fits t` = int32 height/size, keys < 2^32 B.

`Proof.verify` / `verifyKVPairProof` model the code after /repo 5751cd9 (a branch with `Height < 1 || Size < 2`
makes `Proof.Verify` return false); `…Old` is the code before, kept for the regression witnesses at the end.
-/
namespace C03
open C01 C02

/-- **proof_complete** (structure level) — for every key that `get` finds in a hashed search tree there is a
proof (`constructProof` succeeds with the stored value) and `Proof.Verify` accepts it against the tree's own root
hash together with that key and value. -/
theorem proof_complete {H : Bytes → Bytes} (hlen : ∀ x, (H x).length = 32) (t : Node) (hh : Hashed H t)
    (hs : Shape t) (k v : Bytes) (hg : (t.get k).2 = some v) :
    ∃ lh ins root, constructProof t k = .found v lh ins ∧ t.info.hk = some root ∧
      Proof.verify H ⟨H (leafEnc k v), ins, last32 root⟩ k v (last32 root) = true := by
  obtain ⟨lh, ins, root, e, e1, e2⟩ := proof_complete_old hlen t hh k v hg
  refine ⟨lh, ins, root, e, e1, ?_⟩
  rw [verify_eq_old, e2]
  simpa using constructProof_good t hs k v lh ins e

/-- **proof_complete_bytes** — byte level: the *bytes* `Tree.Proof` / `GetKVPairProof` produce for a key that
`get` finds are accepted by `VerifyKVPairProof` (proto3 `Unmarshal` included, round trip proved) against the
32-byte root together with the stored value. -/
theorem proof_complete_bytes {H : Bytes → Bytes} (hlen : ∀ x, (H x).length = 32) (t : Node)
    (hh : Hashed H t) (hs : Shape t) (hfit : Fits t) (k v root : Bytes) (hg : (t.get k).2 = some v)
    (hr : t.info.hk = some root) (hroot : root.length = 32) :
    ∃ lh ins, constructProof t k = .found v lh ins ∧ verifyKVPairProof H root k v (encProof ins) = true := by
  obtain ⟨lh, ins, e, e2⟩ := proof_complete_bytes_old hlen t hh hfit k v root hg hr hroot
  refine ⟨lh, ins, e, ?_⟩
  rw [verifyKV_eq_old, e2, decodeProof_encProof ins (constructProof_norm t hfit k v lh ins e)]
  simpa using constructProof_good t hs k v lh ins e

/-- non-vacuity of `Hashed` / `Shape` / `Fits` / the root-length hypothesis: a two-leaf tree hashed without prefix,
for any hash function with 32-byte outputs. -/
example (H : Bytes → Bytes) (hlen : ∀ x, (H x).length = 32) :
    let l : Node := .leaf [97] [1] ⟨some (H (leafEnc [97] [1])), true⟩
    let r : Node := .leaf [98] [2] ⟨some (H (leafEnc [98] [2])), true⟩
    let root := H (innerEnc (H (leafEnc [97] [1])) (H (leafEnc [98] [2])) 1 2)
    let t : Node := .inner [98] 1 2 l r ⟨some root, true⟩
    Hashed H t ∧ Shape t ∧ Fits t ∧ ST t ∧ root.length = 32 ∧ (t.get [98]).2 = some [2] := by
  intro l r root t
  refine ⟨⟨⟨_, rfl, last32_of_length (hlen _)⟩, ⟨_, rfl, last32_of_length (hlen _)⟩, _, _, _, rfl, rfl, rfl,
    last32_of_length (hlen _)⟩, ⟨trivial, trivial, by decide, by decide⟩, ?_, ?_, hlen _, ?_⟩
  · refine ⟨?_, ?_, by decide, by decide, ?_⟩ <;> intro h e <;> simp at e <;> subst e <;> simp [hlen, root]
  · refine ⟨trivial, trivial, ?_, ?_⟩ <;> simp [l, r, lt, le, cmpB]
  · simp [t, r, Node.get, cmpB]

/-- **proof_sound** — one proof (the same bytes) cannot be accepted for two different (key, value) pairs against
the same root, unless two DIFFERENT strings among those the two verification runs hash (`verifyTrace`: the leaf
encoding and one inner-node encoding per branch, an explicit finite list) have the same hash.  (The unlocated
`∃ x ≠ y, H x = H y` holds of every function with 32-byte outputs by counting; it is not what is stated.) -/
theorem proof_sound {H : Bytes → Bytes} (hlen : ∀ x, (H x).length = 32) (root k v k' v' pb : Bytes)
    (h1 : verifyKVPairProof H root k v pb = true) (h2 : verifyKVPairProof H root k' v' pb = true) :
    (k' = k ∧ v' = v) ∨ CollisionIn H (verifyTrace H k v pb ++ verifyTrace H k' v' pb) :=
  proof_sound_located_old hlen root k v k' v' pb (verifyKV_old_of_new h1) (verifyKV_old_of_new h2)

/-- **verify_other_root** — a proof accepted for `(k, v)` against `root` is rejected against every other root. -/
theorem verify_other_root (H : Bytes → Bytes) (root root' k v pb : Bytes)
    (h1 : verifyKVPairProof H root k v pb = true) (hne : root' ≠ root) :
    verifyKVPairProof H root' k v pb = false := by
  rw [verifyKV_eq_old, verify_other_root_old H root root' k v pb (verifyKV_old_of_new h1) hne]
  simp

/-- **verify_total** — `VerifyKVPairProof` on arbitrary bytes never panics.  `verifyKVPairProofP` is the verifier
with the Go operations that CAN panic on this path written out with their panic outcome — the slice expressions
`h[len(h)-32:]` in `Proof.Verify` (leaf hash) and `InnerNode.Hash` (both child hashes), `sliceFrom` — and it is what
the driver runs against the implementation (which reports `panic` under `recover`).  For every input it returns
`.ok`, namely the Bool-valued `verifyKVPairProof` all other theorems are about; undecodable bytes are rejected.
(Not modelled as panic sources: `proto.Unmarshal` returns an error instead of panicking and allocates every element
of the repeated field, so `branch.Height` never dereferences nil — compared with the implementation on ~10^4
arbitrary byte strings per run, not proved.) -/
theorem verify_total (H : Bytes → Bytes) (root k v pb : Bytes) :
    verifyKVPairProofP H root k v pb = .ok (verifyKVPairProof H root k v pb) ∧
    (decodeProof pb = none → verifyKVPairProof H root k v pb = false) :=
  ⟨verifyKVPairProofP_ok H root k v pb, fun h => by simp [verifyKVPairProof, h]⟩

/-- **verify_membership** (what 5751cd9 buys) — *any* bytes accepted by `VerifyKVPairProof` for `(k, v)` against
the root of a hashed search tree prove that `(k, v)` is in that state — or exhibit a collision between two of the
strings actually hashed: one by the verification run (`verifyTrace`), one inside the tree (`treeTrace`).
The proof is the Merkle argument from the root down; the new branch check is what separates a leaf encoding
(height 0 ⇒ field 3 absent) from every branch encoding (`encXY_inj`). -/
theorem verify_membership {H : Bytes → Bytes} (hlen : ∀ x, (H x).length = 32) (t : Node)
    (hst : ST t) (hs : Shape t) (hh : Hashed H t) (root : Bytes) (hr : t.info.hk = some root)
    (hroot : root.length = 32) (k v pb : Bytes) (hv : verifyKVPairProof H root k v pb = true) :
    (t.get k).2 = some v ∨ CollisionIn H (verifyTrace H k v pb ++ treeTrace H t) := by
  obtain ⟨root', e1, e2⟩ := hashed_pure hh
  rw [hr] at e1; cases e1
  rw [last32_of_length hroot] at e2
  have hold := verifyKV_old_of_new hv
  rw [verifyKV_eq_old] at hv
  unfold verifyKVPairProofOld at hold
  unfold verifyTrace
  cases hd : decodeProof pb with
  | none => simp [hd] at hold
  | some ins =>
    simp only [hd, Bool.and_eq_true] at hv
    simp only [hd, Proof.verifyOld, bne_self_eq_false, Bool.false_eq_true, if_false,
      last32_of_length (hlen (leafEnc k v)), beq_iff_eq] at hold
    have := member_core hlen k v t hst hs ins hv.2 (hold.trans e2)
    simpa [List.append_assoc] using this

/-! ### regression witnesses about the code BEFORE 5751cd9 -/

/-- **membership_forgery_old** — with the old `Proof.Verify`, for every hash function: the one-leaf state
`{A ↦ B}`, `A = H(leafEnc k' v')`, and the "proof" `[{LeftHash: nil, RightHash: B, Height: 0, Size: 1}]` made
`VerifyKVPairProof` accept the absent `(k', v')` (finding C03|VerifyKVPairProof|accepts-forged-proof-leaf-reread-
as-inner-node, fixed by 5751cd9). -/
theorem membership_forgery_old (H : Bytes → Bytes) (hlen : ∀ x, (H x).length = 32) (k' v' b : Bytes)
    (hb2 : b.length ≤ 32) (hne : k' ≠ H (leafEnc k' v')) :
    let a := H (leafEnc k' v')
    let root := H (leafEnc a b)
    let t : Node := .leaf a b ⟨some root, true⟩
    Hashed H t ∧ (t.get k').2 = none ∧
      verifyKVPairProofOld H root k' v' (encProof [⟨[], b, 0, 1⟩]) = true :=
  forgery_old_key H hlen k' v' b hb2 hne

/-- **membership_forgery_value_old** — the same through a crafted 32-byte *value* under a key of 1..32 bytes. -/
theorem membership_forgery_value_old (H : Bytes → Bytes) (hlen : ∀ x, (H x).length = 32) (k' v' sk : Bytes)
    (hs1 : sk ≠ []) (hs2 : sk.length ≤ 32) (hne : k' ≠ sk) :
    let a := H (leafEnc k' v')
    let root := H (leafEnc sk a)
    let t : Node := .leaf sk a ⟨some root, true⟩
    Hashed H t ∧ (t.get k').2 = none ∧
      verifyKVPairProofOld H root k' v' (encProof [⟨sk, [], 0, 1⟩]) = true :=
  forgery_old_value H hlen k' v' sk hs1 hs2 hne

/-- the same forged proofs are rejected by the current code (both variants: crafted key, crafted value). -/
theorem forgery_rejected (H : Bytes → Bytes) (root k' v' x y : Bytes) (rest : List InnerNode)
    (hn : ∀ n ∈ (⟨x, y, 0, 1⟩ : InnerNode) :: rest, Norm n) :
    verifyKVPairProof H root k' v' (encProof (⟨x, y, 0, 1⟩ :: rest)) = false := by
  rw [verifyKV_eq_old, decodeProof_encProof _ hn]
  simp [goodBranch]

/-! ### every branch record binds the child hash (seeded regression C03b) -/

/-- **branch_binds_child** — the fold step of `Proof.Verify` (`InnerNodeProofHash`) binds the hash coming up from
the leaf for EVERY branch record, whatever sides it carries (one — what the store emits —, both, none): left empty
⇒ the child is hashed as the left side; otherwise the child REPLACES the right side.  Two different 32-byte child
hashes give different results, or the two strings hashed by the step (`stepPre`) are a collision.
(`proof_sound`, `verify_membership` are stated for arbitrary proof bytes / records and rest on this step.) -/
theorem branch_binds_child {H : Bytes → Bytes} (b : InnerNode) (c c' : Bytes) (hc : c.length = 32)
    (hc' : c'.length = 32) (e : innerNodeProofHash H c b = innerNodeProofHash H c' b) :
    c = c' ∨ CollisionIn H [stepPre c b, stepPre c' b] := by
  rw [step_eq, step_eq] at e
  by_cases hpre : stepPre c b = stepPre c' b
  · left
    unfold stepPre at hpre
    split at hpre
    · exact innerEnc_inj_left hc hc' hpre
    · exact innerEnc_inj_right hc hc' hpre
  · exact Or.inr ⟨_, by simp, _, by simp, hpre, e⟩

/-- **own_record_is_no_proof** — the node's own database record (both child hashes filled in) offered as the only
branch of a proof: accepted for `(k, v)` only if the leaf hash of `(k, v)` IS the right child hash (the leaf on the
right of a height-1 root, a pair that is in the state) — or the string the verifier hashes and the node's own
encoding are a collision. -/
theorem own_record_is_no_proof {H : Bytes → Bytes} (hlen : ∀ x, (H x).length = 32) (l r : Bytes) (ht sz : Int)
    (hl : l ≠ []) (hr : r.length = 32) (k v : Bytes)
    (hv : (⟨H (leafEnc k v), [⟨l, r, ht, sz⟩], H (innerEnc l r ht sz)⟩ : Proof).verify H k v
      (H (innerEnc l r ht sz)) = true) :
    H (leafEnc k v) = r ∨ CollisionIn H [innerEnc l (H (leafEnc k v)) ht sz, innerEnc l r ht sz] := by
  have e1 : l.isEmpty = false := by cases l <;> simp_all
  cases hg : goodBranch ⟨l, r, ht, sz⟩ with
  | false => simp [Proof.verify, verifyLoop, hg] at hv
  | true =>
    simp only [Proof.verify, bne_self_eq_false, Bool.false_eq_true, if_false, last32_of_length (hlen _),
      verifyLoop, hg, if_true, innerNodeProofHash, e1, beq_iff_eq] at hv
    by_cases e : innerEnc l (H (leafEnc k v)) ht sz = innerEnc l r ht sz
    · exact Or.inl (innerEnc_inj_right (hlen _) hr e)
    · exact Or.inr ⟨_, by simp, _, by simp, e, hv⟩

/-- **fill_only_empty_side_forgery** (regression witness) — had the step filled the child hash only into an EMPTY
side (`innerNodeProofHashFill`), the root's own record would verify EVERY `(k, v)` against that root. -/
theorem fill_only_empty_side_forgery (H : Bytes → Bytes) (hlen : ∀ x, (H x).length = 32) (l r : Bytes) (ht sz : Int)
    (hl : l ≠ []) (hr : r ≠ []) (hht : 1 ≤ ht) (hsz : 2 ≤ sz) (k v : Bytes) :
    (⟨H (leafEnc k v), [⟨l, r, ht, sz⟩], H (innerEnc l r ht sz)⟩ : Proof).verifyWith (innerNodeProofHashFill H) H k v
      (H (innerEnc l r ht sz)) = true ∧
    ∀ p k v root, Proof.verifyWith (innerNodeProofHash H) H p k v root = p.verify H k v root :=
  ⟨fill_root_record_accepts_all H hlen l r ht sz hl hr hht hsz k v, verifyWith_eq H⟩

end C03
