import Chain33Model.Proofs.C04
import Chain33Model.Proofs.C01Consistent
/-!
C04 — Pending state updates never leak into committed state.  Property theorems only (helpers: Proofs/C04.lean).

The store is the LTS of `Model/C04.lean` (`step`, labels Set / MemSet / Commit / Rollback / Get / restart) over the
state `(cfg, db, trees, cache)` of C01/C02.  "Committed" = written to `db`; a restart (`Store.reopen`) forgets
`trees` and `cache`.  Reads at a root are functions of `db` (through `load`), so "no read changes" is proved as
"`db` does not change" / "the restarted store is the same store".
-/
namespace C04
open C01 C02

/-- **uncommitted_noop** — computing a pending update writes nothing: the database is untouched and after a
restart the store is exactly the store that never computed it. -/
theorem uncommitted_noop (H : Bytes → Bytes) (s : Store) (p : Bytes) (bh : Nat) (kvs : List (Bytes × Bytes)) :
    (memSet H s p bh kvs).2.db = s.db ∧ (memSet H s p bh kvs).2.reopen = s.reopen :=
  let ⟨a, b⟩ := memSet_frame H s p bh kvs
  ⟨a, reopen_eq_of_frame a b⟩

/-- **rollback_noop** — rolling a pending update back writes nothing either. -/
theorem rollback_noop (s : Store) (r : Bytes) :
    (rollback s r).2.db = s.db ∧ (rollback s r).2.reopen = s.reopen :=
  let ⟨a, b⟩ := rollback_frame s r
  ⟨a, reopen_eq_of_frame a b⟩

/-- **never_committed_noop** — any interleaving of MemSet / Rollback / Get / restart requests (on any parents,
heights, roots) leaves the database as it was: every committed root reads as before, also after a restart. -/
theorem never_committed_noop (H : Bytes → Bytes) (s : Store) (ls : List Label)
    (hl : ∀ l ∈ ls, l.pendingOnly = true) :
    (run H s ls).db = s.db ∧ (run H s ls).reopen = s.reopen :=
  let ⟨a, b⟩ := run_frame H ls hl s
  ⟨a, reopen_eq_of_frame a b⟩

/-- non-vacuity: a history with a pending update, a rollback of an unknown root and a restart. -/
example : ∀ l ∈ [Label.memSet [] 1 [([1], [2])], Label.rollback [9], Label.restart, Label.get [] [[1]]],
    l.pendingOnly = true := by
  intro l hl; simp at hl; rcases hl with rfl | rfl | rfl | rfl <;> rfl

/-- **memSet_empty_keeps_pending** (/repo e6adcc5) — an empty `MemSet` whose parent hash has a pending entry leaves
the store exactly as it was (`LoadOrStore`). -/
theorem memSet_empty_keeps_pending (H : Bytes → Bytes) (s : Store) (r : Bytes) (bh : Nat) (x : Option Node)
    (h : lookupTree s.trees r = some x) : memSet H s r bh [] = (.ok r, s) := by
  simp [memSet, h]

/-- **commit_exact** — a pending update stays pending whatever other pending updates are computed: after *any*
sequence of `MemSet` requests (any parents, heights, writes — empty ones on top of this very root included) there
is still a hashed, unsaved tree stored under its root `r`, and `Commit r`, when it answers ok, has written the
record of `r`: the committed root exists in the database.  (`PendOK`: pending trees are stored under their own root
key and unsaved — true of every entry `MemSet` creates, `memSet_pending`.)  What the saved tree then reads as is
`commit_exact_content`. -/
theorem commit_exact (H : Bytes → Bytes) (s : Store) (hp : PendOK s) (r : Bytes) (n : Node)
    (hn : lookupTree s.trees r = some (some n)) (ls : List Label) (hl : ∀ l ∈ ls, l.isMemSet = true)
    (s2 : Store) (hc : commit (run H s ls) r = (.ok r, s2)) : s2.db[r]? ≠ none := by
  obtain ⟨hp', keep⟩ := run_memSets_pending H ls hl s hp
  obtain ⟨n', hn'⟩ := keep r n hn
  obtain ⟨hk, hper⟩ := hp' r n' hn'
  unfold commit at hc
  simp only [hn'] at hc
  cases hs : save (run H s ls).cfg n' (run H s ls).db with
  | none => simp [hs] at hc
  | some pr =>
    obtain ⟨n'', db'⟩ := pr
    simp only [hs, Prod.mk.injEq, true_and] at hc
    subst hc
    simpa [Store.cacheTree] using save_root_record _ n' n'' _ db' r hs hk hper

/-- non-vacuity of `PendOK` and of a pending entry: the store right after one non-empty `MemSet` on the empty
state (for any hash function). -/
example (H : Bytes → Bytes) : PendOK (memSet H (Store.new Cfg.default) [] 1 [([1], [2])]).2 :=
  (memSet_pending H _ (by intro r n h; simp [Store.new, lookupTree] at h) [] 1 [([1], [2])]).1

/-- the statement `commit_exact` makes, for the store BEFORE e6adcc5 (`memSetOld`: the empty-KV branch overwrote the
entry): one MemSet in between, Commit ok ⇒ the root record exists. -/
def CommitExactOld : Prop :=
  ∀ (H : Bytes → Bytes) (s : Store) (r : Bytes) (n : Node), lookupTree s.trees r = some (some n) →
    ∀ (p : Bytes) (bh : Nat) (kvs : List (Bytes × Bytes)) (s2 : Store),
      commit (memSetOld H s p bh kvs).2 r = (.ok r, s2) → s2.db[r]? ≠ none

/-- **commit_exact_old_false** — regression witness (S-C04, fixed by e6adcc5): a pending leaf under `r`, an empty
MemSet with parent `r`, then Commit `r`: reply "ok r", no record for `r`. -/
theorem commit_exact_old_false : ¬ CommitExactOld := by
  intro h
  let n : Node := .leaf [1] [2] ⟨some [7], false⟩
  let s : Store := ⟨Cfg.default, {}, [([7], some n)], {}⟩
  have := h (fun x => x) s [7] n (by simp [s, lookupTree]) [7] 5 []
    ⟨Cfg.default, {}, [], {}⟩ (by simp [s, memSetOld, commit, lookupTree, storeTree])
  simp at this

/-- `Commit` of the "nothing to do" marker (an empty update on a parent that was *not* pending) reports success
without writing anything — the parent is a committed root already. -/
theorem commit_marker_writes_nothing (s : Store) (r : Bytes) (h : lookupTree s.trees r = some none) :
    (commit s r).1 = .ok r ∧ (commit s r).2.db = s.db := by
  simp [commit, h]

/-- **second_commit_notfound** — `Commit` consumes the entry: a second `Commit` of the same root (the node issues
one per block, so an empty block on a block whose state was pending leads to two) finds nothing, answers
`ErrHashNotFound` and changes nothing — the content committed by the first one stays readable. -/
theorem second_commit_notfound (s s' : Store) (r : Bytes) (hc : commit s r = (.ok r, s')) :
    commit s' r = (.notfound, s') := by
  have hno : lookupTree s'.trees r = none := by
    unfold commit at hc
    have hf : ∀ ts : List (Bytes × Option Node), lookupTree (ts.filter (fun p => !(p.1 == r))) r = none := by
      intro ts
      simp only [lookupTree]
      have : (ts.filter (fun p => !(p.1 == r))).find? (fun p => p.1 == r) = none := by
        apply List.find?_eq_none.mpr
        intro x hx
        simp only [List.mem_filter] at hx
        simpa using hx.2
      rw [this]
    split at hc
    · simp at hc
    · simp at hc; rw [← hc]; exact hf _
    · split at hc
      · simp at hc
      · simp at hc; rw [← hc]; simpa [Store.cacheTree] using hf _
  simp [commit, hno]

/-- **commit_exact_content** (◐: assumes C01's `Consistent`) — for the tree that is the entry under `r` when Commit runs, given `Consistent` (no key receives two different records, as in `C01.load_save_partial`): Commit makes
exactly the pending tree readable at `r`, and keeps every earlier record. -/
theorem commit_exact_content (s s' : Store) (r : Bytes) (n : Node)
    (hp : lookupTree s.trees r = some (some n)) (hr : n.info.hk = some r)
    (hc : commit s r = (.ok r, s'))
    (hps : PersistedStored s.cfg s.db n) (hf : FitsRec n)
    (hcons : ∀ ws, writes s.cfg n = some ws → Consistent ws s.db)
    (fuel : Nat) (top : Bool) (hd : depth n < fuel) :
    load s'.db fuel top r = .ok (asLoaded s.cfg n) ∧ Sub s.db s'.db := by
  unfold commit at hc
  simp only [hp] at hc
  cases hs : save s.cfg n s.db with
  | none => simp [hs] at hc
  | some pr =>
    obtain ⟨n', db'⟩ := pr
    simp only [hs, Prod.mk.injEq, true_and] at hc
    subst hc
    obtain ⟨a, b, _⟩ := load_save s.cfg n n' s.db db' hs hps hf hcons r hr fuel top hd
    simpa [Store.cacheTree] using And.intro a b

/-- **forks_independent** — committing one branch only adds records (given `Consistent`), so whatever was stored
for another branch's committed root loads to exactly the same tree afterwards. -/
theorem forks_independent (s s' : Store) (r₂ : Bytes) (n₂ : Node)
    (hp : lookupTree s.trees r₂ = some (some n₂)) (hr : n₂.info.hk = some r₂)
    (hc : commit s r₂ = (.ok r₂, s'))
    (hps : PersistedStored s.cfg s.db n₂) (hf : FitsRec n₂)
    (hcons : ∀ ws, writes s.cfg n₂ = some ws → Consistent ws s.db)
    (n₁ : Node) (r₁ : Bytes) (h1 : Stored s.cfg s.db n₁) (hf1 : FitsRec n₁) (hr1 : n₁.info.hk = some r₁)
    (fuel : Nat) (top : Bool) (hd : depth n₁ < fuel) :
    load s'.db fuel top r₁ = load s.db fuel top r₁ := by
  obtain ⟨_, hsub⟩ := commit_exact_content s s' r₂ n₂ hp hr hc hps hf hcons (depth n₂ + 1) true (by omega)
  exact load_stable s.cfg s.db s'.db hsub n₁ h1 hf1 fuel top r₁ hr1 hd

/-- **commit_exact_content_full / forks_independent_full** (store without the height prefix) — no `Consistent`
hypothesis: the pending tree is keyed by the hashes of its content (`PH`, `C01.hashNode_keys_content`), every record
of the database is the record of a node of the explicit list `W` (`DBInv`).  Commit then makes exactly the pending
tree loadable at its root, keeps every earlier record (so every other branch's committed root loads to the same
tree, `C01.old_roots_stable`) and keeps `DBInv` — or two different strings among those hashed in the pending tree
and in the nodes of `W` have the same hash (located collision). -/
theorem commit_exact_content_full {H : Bytes → Bytes} (hlen : ∀ x, (H x).length = 32) (s s' : Store) (r : Bytes)
    (n : Node) (W : List Node) (hp : lookupTree s.trees r = some (some n)) (hc : commit s r = (.ok r, s'))
    (hph : PH H n) (hs : C03.Shape n) (hk : KeyMin n) (hdb : DBInv H s.cfg s.db W)
    (hps : PersistedStored s.cfg s.db n) (hf : FitsRec n) (fuel : Nat) (top : Bool) (hd : depth n < fuel) :
    (load s'.db fuel top (pureHash H n) = .ok (asLoaded s.cfg n) ∧ Sub s.db s'.db ∧
      DBInv H s.cfg s'.db (W ++ subnodes n)) ∨
      C03.CollisionIn H (C03.treeTrace H n ++ tracesOf H W) := by
  unfold commit at hc
  simp only [hp] at hc
  cases hsv : save s.cfg n s.db with
  | none => simp [hsv] at hc
  | some pr =>
    obtain ⟨n', db'⟩ := pr
    simp only [hsv, Prod.mk.injEq, true_and] at hc
    subst hc
    rcases load_save_full hlen s.cfg n n' s.db db' W hsv hph hs hk hdb hps hf fuel top hd with ⟨a, b, _, d⟩ | c
    · exact Or.inl (by simpa [Store.cacheTree] using And.intro a (And.intro b d))
    · exact Or.inr c

theorem forks_independent_full {H : Bytes → Bytes} (hlen : ∀ x, (H x).length = 32) (s s' : Store) (r₂ : Bytes)
    (n₂ : Node) (W : List Node) (hp : lookupTree s.trees r₂ = some (some n₂)) (hc : commit s r₂ = (.ok r₂, s'))
    (hph : PH H n₂) (hs : C03.Shape n₂) (hk : KeyMin n₂) (hdb : DBInv H s.cfg s.db W)
    (hps : PersistedStored s.cfg s.db n₂) (hf : FitsRec n₂)
    (n₁ : Node) (r₁ : Bytes) (h1 : Stored s.cfg s.db n₁) (hf1 : FitsRec n₁) (hr1 : n₁.info.hk = some r₁)
    (fuel : Nat) (top : Bool) (hd : depth n₁ < fuel) :
    load s'.db fuel top r₁ = load s.db fuel top r₁ ∨ C03.CollisionIn H (C03.treeTrace H n₂ ++ tracesOf H W) := by
  rcases commit_exact_content_full hlen s s' r₂ n₂ W hp hc hph hs hk hdb hps hf (depth n₂ + 1) true (by omega) with
    ⟨_, hsub, _⟩ | c
  · exact Or.inl (load_stable s.cfg s.db s'.db hsub n₁ h1 hf1 fuel top r₁ hr1 hd)
  · exact Or.inr c

/-- **ops_commute** (for the requests that do not write) — the reply of `MemSet` depends only on the configuration
and the database, which MemSet / Rollback / Get / restart never change: after *any* two interleavings of such
requests the same MemSet gets the same reply (so concurrent pending updates on any parents cannot influence each
other's roots).  `CacheOK`: the node cache only holds what the database holds (true initially, kept by every
request: `run_cacheOK`; a fresh or restarted store satisfies it). -/
theorem ops_commute (H : Bytes → Bytes) (s : Store) (ls₁ ls₂ : List Label)
    (h1 : ∀ l ∈ ls₁, l.pendingOnly = true) (h2 : ∀ l ∈ ls₂, l.pendingOnly = true)
    (hc : CacheOK s)
    (p : Bytes) (bh : Nat) (kvs : List (Bytes × Bytes)) :
    (memSet H (run H s ls₁) p bh kvs).1 = (memSet H (run H s ls₂) p bh kvs).1 := by
  obtain ⟨a1, b1⟩ := run_frame H ls₁ h1 s
  obtain ⟨a2, b2⟩ := run_frame H ls₂ h2 s
  exact memSet_reply_eq H (run H s ls₂) (run H s ls₁) (run_cacheOK H ls₂ h2 s hc) (run_cacheOK H ls₁ h1 s hc)
    (a1.trans a2.symm) (b1.trans b2.symm) p bh kvs

end C04
