import Chain33Model.Model.C04
/-! C04 — property theorems (work in progress). -/
namespace C04
open C01 C02

theorem rollback_db (s : Store) (r : Bytes) : (rollback s r).2.db = s.db := by
  unfold rollback; split <;> rfl

end C04
