import Chain33Model.Proofs.C04
import Chain33Model.Proofs.C01Consistent
import Chain33Model.Proofs.C01Depth
import Chain33Model.Proofs.C01StoreInv
/-!
C04 — Pending state updates never leak into committed state.  Property theorems only (helpers: Proofs/C04.lean).

The store is the LTS of `Model/C04.lean` (`step`, labels Set / MemSet / Commit / Rollback / Get / restart) over the
state `(cfg, db, trees, cache)` of C01/C02.  "Committed" = written to `db`; a restart (`Store.reopen`) forgets
`trees` and `cache`.  Reads at a root are functions of `db` (through `load`), so "no read changes" is proved as
"`db` does not change" / "the restarted store is the same store".
-/
namespace C04
open C01 C02

/-- **uncommitted_noop** — computing a pending update writes nothing: the database is untouched, after a
restart the store is exactly the store that never computed it, and — without a restart — `Store.Get` at every
root that has no pending tree of its own (every committed root that is not also pending) answers what it answered
before.  (`dbRead`: the answer computed from the database alone; `CacheOK`: the node cache only holds what the
database holds — true of a fresh or restarted store and kept by every request.) -/
theorem uncommitted_noop (H : Bytes → Bytes) (s : Store) (p : Bytes) (bh : Nat) (kvs : List (Bytes × Bytes)) :
    (memSet H s p bh kvs).2.db = s.db ∧ (memSet H s p bh kvs).2.reopen = s.reopen ∧
    (CacheOK s → ∀ r ks, (∀ n, lookupTree s.trees r ≠ some (some n)) →
      (∀ n, lookupTree (memSet H s p bh kvs).2.trees r ≠ some (some n)) →
      ((memSet H s p bh kvs).2.get r ks).1 = (s.get r ks).1) := by
  obtain ⟨a, b⟩ := memSet_frame H s p bh kvs
  refine ⟨a, reopen_eq_of_frame a b, ?_⟩
  intro hc r ks h1 h2
  rw [get_reply_db _ (memSet_cacheOK H s hc p bh kvs) r ks h2, get_reply_db s hc r ks h1, a]

/-- **rollback_noop** — rolling a pending update back writes nothing either; reads at roots without a pending tree
are unchanged. -/
theorem rollback_noop (s : Store) (r : Bytes) :
    (rollback s r).2.db = s.db ∧ (rollback s r).2.reopen = s.reopen ∧
    (CacheOK s → ∀ r' ks, (∀ n, lookupTree s.trees r' ≠ some (some n)) →
      (∀ n, lookupTree (rollback s r).2.trees r' ≠ some (some n)) →
      ((rollback s r).2.get r' ks).1 = (s.get r' ks).1) := by
  obtain ⟨a, b⟩ := rollback_frame s r
  refine ⟨a, reopen_eq_of_frame a b, ?_⟩
  intro hc r' ks h1 h2
  rw [get_reply_db _ (rollback_cacheOK s hc r) r' ks h2, get_reply_db s hc r' ks h1, a]

/-- **never_committed_noop** — any interleaving of MemSet / Rollback / Get / restart requests (on any parents,
heights, roots) leaves the database as it was, the restarted store is the same store, and `Store.Get` at every root
that has no pending tree (before and after) — every committed root — answers exactly what it answered before. -/
theorem never_committed_noop (H : Bytes → Bytes) (s : Store) (ls : List Label)
    (hl : ∀ l ∈ ls, l.pendingOnly = true) :
    (run H s ls).db = s.db ∧ (run H s ls).reopen = s.reopen ∧
    (CacheOK s → ∀ r ks, (∀ n, lookupTree s.trees r ≠ some (some n)) →
      (∀ n, lookupTree (run H s ls).trees r ≠ some (some n)) →
      ((run H s ls).get r ks).1 = (s.get r ks).1) := by
  obtain ⟨a, b⟩ := run_frame H ls hl s
  refine ⟨a, reopen_eq_of_frame a b, ?_⟩
  intro hc r ks h1 h2
  rw [get_reply_db _ (run_cacheOK H ls hl s hc) r ks h2, get_reply_db s hc r ks h1, a]

/-- non-vacuity of the read clause: a fresh store is `CacheOK` and has no pending tree. -/
example : CacheOK (Store.new Cfg.default) ∧ ∀ r n, lookupTree (Store.new Cfg.default).trees r ≠ some (some n) :=
  ⟨fun h n e => by simp [Store.new] at e, fun r n e => by simp [Store.new, lookupTree] at e⟩

/-- non-vacuity: a history with a pending update, a rollback of an unknown root and a restart. -/
example : ∀ l ∈ [Label.memSet [] 1 [([1], [2])], Label.rollback [9], Label.restart, Label.get [] [[1]]],
    l.pendingOnly = true := by
  intro l hl; simp at hl; rcases hl with rfl | rfl | rfl | rfl <;> rfl

/-- **memSet_empty_keeps_pending** (/repo e6adcc5) — an empty `MemSet` whose parent hash has a pending entry leaves
the store exactly as it was (`LoadOrStore`). -/
theorem memSet_empty_keeps_pending (H : Bytes → Bytes) (s : Store) (r : Bytes) (bh : Nat) (x : Option Node)
    (h : lookupTree s.trees r = some x) : memSet H s r bh [] = (.ok r, s) := by
  simp [memSet, h]

/-- **commit_exact** — a pending update stays pending whatever else the store is asked to do: after *any*
sequence of requests other than `Commit r`, `Rollback r` and a restart — Set, MemSet (any parents, heights, writes,
empty ones on top of this very root included), Commit and Rollback of other roots, Get — there is still a hashed,
unsaved tree stored under its root `r` (`n'`, keyed `r`; it is `n` unless a MemSet computed the root `r` again), and
`Commit r`, when it answers ok, has written the record of `r`: the committed root exists in the database.
(`PendOK`: pending trees are stored under their own root key and unsaved — true of every entry `MemSet` creates,
`memSet_pending`.)  What the saved tree `n'` then reads as is `commit_exact_content` / `commit_exact_content_full`
applied to the store `run H s ls` and the entry `n'` given here. -/
theorem commit_exact (H : Bytes → Bytes) (s : Store) (hp : PendOK s) (r : Bytes) (n : Node)
    (hn : lookupTree s.trees r = some (some n)) (ls : List Label) (hl : ∀ l ∈ ls, l.keeps r = true)
    (s2 : Store) (hc : commit (run H s ls) r = (.ok r, s2)) :
    (∃ n', lookupTree (run H s ls).trees r = some (some n') ∧ n'.info.hk = some r ∧ n'.info.persisted = false) ∧
      s2.db[r]? ≠ none := by
  obtain ⟨hp', keep⟩ := run_keeps_pending H r ls hl s hp
  obtain ⟨n', hn'⟩ := keep n hn
  obtain ⟨hk, hper⟩ := hp' r n' hn'
  refine ⟨⟨n', hn', hk, hper⟩, ?_⟩
  unfold commit at hc
  simp only [hn'] at hc
  cases hs : save (run H s ls).cfg n' (run H s ls).db with
  | none => simp [hs] at hc
  | some pr =>
    obtain ⟨n'', db'⟩ := pr
    simp only [hs, Prod.mk.injEq, true_and] at hc
    subst hc
    simpa [Store.cacheTree] using save_root_record _ n' n'' _ db' r hs hk hper

/-- non-vacuity of the label condition: a Set, a MemSet on top of `r`, Commit and Rollback of another root, a Get. -/
example : ∀ l ∈ [Label.set [] 1 [([1], [2])], Label.memSet [7] 2 [], Label.commit [8], Label.rollback [9],
    Label.get [7] [[1]]], l.keeps [7] = true := by
  intro l hl; simp at hl; rcases hl with rfl | rfl | rfl | rfl | rfl <;> decide

/-- non-vacuity of `PendOK` and of a pending entry: the store right after one non-empty `MemSet` on the empty
state (for any hash function). -/
example (H : Bytes → Bytes) : PendOK (memSet H (Store.new Cfg.default) [] 1 [([1], [2])]).2 :=
  (memSet_pending H _ (by intro r n h; simp [Store.new, lookupTree] at h) [] 1 [([1], [2])]).1

/-- the statement `commit_exact` makes, for the store BEFORE e6adcc5 (`memSetOld`: the empty-KV branch overwrote the
entry): one MemSet in between, Commit ok ⇒ the root record exists. -/
def CommitExactOld : Prop :=
  ∀ (H : Bytes → Bytes) (s : Store) (r : Bytes) (n : Node), lookupTree s.trees r = some (some n) →
    ∀ (p : Bytes) (bh : Nat) (kvs : List (Bytes × Bytes)) (s2 : Store),
      commit (memSetOld H s p bh kvs).2 r = (.ok r, s2) → s2.db[r]? ≠ none

/-- **commit_exact_old_false** — regression witness (S-C04, fixed by e6adcc5): a pending leaf under `r`, an empty
MemSet with parent `r`, then Commit `r`: reply "ok r", no record for `r`. -/
theorem commit_exact_old_false : ¬ CommitExactOld := by
  intro h
  let n : Node := .leaf [1] [2] ⟨some [7], false⟩
  let s : Store := ⟨Cfg.default, {}, [([7], some n)], {}⟩
  have := h (fun x => x) s [7] n (by simp [s, lookupTree]) [7] 5 []
    ⟨Cfg.default, {}, [], {}⟩ (by simp [s, memSetOld, commit, lookupTree, storeTree])
  simp at this

/-- `Commit` of the "nothing to do" marker (an empty update on a parent that was *not* pending) reports success
without writing anything — the parent is a committed root already. -/
theorem commit_marker_writes_nothing (s : Store) (r : Bytes) (h : lookupTree s.trees r = some none) :
    (commit s r).1 = .ok r ∧ (commit s r).2.db = s.db := by
  simp [commit, h]

/-- **second_commit_notfound** — `Commit` consumes the entry: a second `Commit` of the same root (the node issues
one per block, so an empty block on a block whose state was pending leads to two) finds nothing, answers
`ErrHashNotFound` and changes nothing — the content committed by the first one stays readable. -/
theorem second_commit_notfound (s s' : Store) (r : Bytes) (hc : commit s r = (.ok r, s')) :
    commit s' r = (.notfound, s') := by
  have hno : lookupTree s'.trees r = none := by
    unfold commit at hc
    have hf : ∀ ts : List (Bytes × Option Node), lookupTree (ts.filter (fun p => !(p.1 == r))) r = none := by
      intro ts
      simp only [lookupTree]
      have : (ts.filter (fun p => !(p.1 == r))).find? (fun p => p.1 == r) = none := by
        apply List.find?_eq_none.mpr
        intro x hx
        simp only [List.mem_filter] at hx
        simpa using hx.2
      rw [this]
    split at hc
    · simp at hc
    · simp at hc; rw [← hc]; exact hf _
    · split at hc
      · simp at hc
      · simp at hc; rw [← hc]; simpa [Store.cacheTree] using hf _
  simp [commit, hno]

/-- **commit_exact_content** (◐: assumes C01's `Consistent`) — for the tree that is the entry under `r` when Commit runs, given `Consistent` (no key receives two different records, as in `C01.load_save_partial`): Commit makes
exactly the pending tree readable at `r`, and keeps every earlier record. -/
theorem commit_exact_content (s s' : Store) (r : Bytes) (n : Node)
    (hp : lookupTree s.trees r = some (some n)) (hr : n.info.hk = some r)
    (hc : commit s r = (.ok r, s'))
    (hps : PersistedStored s.cfg s.db n) (hf : FitsRec n)
    (hcons : ∀ ws, writes s.cfg n = some ws → Consistent ws s.db)
    (fuel : Nat) (top : Bool) (hd : depth n < fuel) :
    load s'.db fuel top r = .ok (asLoaded s.cfg n) ∧ Sub s.db s'.db := by
  unfold commit at hc
  simp only [hp] at hc
  cases hs : save s.cfg n s.db with
  | none => simp [hs] at hc
  | some pr =>
    obtain ⟨n', db'⟩ := pr
    simp only [hs, Prod.mk.injEq, true_and] at hc
    subst hc
    obtain ⟨a, b, _⟩ := load_save s.cfg n n' s.db db' hs hps hf hcons r hr fuel top hd
    simpa [Store.cacheTree] using And.intro a b

/-- **forks_independent** — committing one branch only adds records (given `Consistent`), so whatever was stored
for another branch's committed root loads to exactly the same tree afterwards. -/
theorem forks_independent (s s' : Store) (r₂ : Bytes) (n₂ : Node)
    (hp : lookupTree s.trees r₂ = some (some n₂)) (hr : n₂.info.hk = some r₂)
    (hc : commit s r₂ = (.ok r₂, s'))
    (hps : PersistedStored s.cfg s.db n₂) (hf : FitsRec n₂)
    (hcons : ∀ ws, writes s.cfg n₂ = some ws → Consistent ws s.db)
    (n₁ : Node) (r₁ : Bytes) (h1 : Stored s.cfg s.db n₁) (hf1 : FitsRec n₁) (hr1 : n₁.info.hk = some r₁)
    (fuel : Nat) (top : Bool) (hd : depth n₁ < fuel) :
    load s'.db fuel top r₁ = load s.db fuel top r₁ := by
  obtain ⟨_, hsub⟩ := commit_exact_content s s' r₂ n₂ hp hr hc hps hf hcons (depth n₂ + 1) true (by omega)
  exact load_stable s.cfg s.db s'.db hsub n₁ h1 hf1 fuel top r₁ hr1 hd

/-- **commit_exact_content_full / forks_independent_full** (store without the height prefix) — no `Consistent`
hypothesis: the pending tree is keyed by the hashes of its content (`PH`, `C01.hashNode_keys_content`), every record
of the database is the record of a node of the explicit list `W` (`DBInv`).  Commit then makes exactly the pending
tree loadable at its root, keeps every earlier record (so every other branch's committed root loads to the same
tree, `C01.old_roots_stable`) and keeps `DBInv` — or two different strings among those hashed in the pending tree
and in the nodes of `W` have the same hash (located collision). -/
theorem commit_exact_content_full {H : Bytes → Bytes} (hlen : ∀ x, (H x).length = 32) (s s' : Store) (r : Bytes)
    (n : Node) (W : List Node) (hp : lookupTree s.trees r = some (some n)) (hc : commit s r = (.ok r, s'))
    (hph : PH H n) (hs : C03.Shape n) (hk : KeyMin n) (hdb : DBInv H s.cfg s.db W)
    (hps : PersistedStored s.cfg s.db n) (hf : FitsRec n) (fuel : Nat) (top : Bool) (hd : depth n < fuel) :
    (load s'.db fuel top (pureHash H n) = .ok (asLoaded s.cfg n) ∧ Sub s.db s'.db ∧
      DBInv H s.cfg s'.db (W ++ subnodes n)) ∨
      C03.CollisionIn H (C03.treeTrace H n ++ tracesOf H W) := by
  unfold commit at hc
  simp only [hp] at hc
  cases hsv : save s.cfg n s.db with
  | none => simp [hsv] at hc
  | some pr =>
    obtain ⟨n', db'⟩ := pr
    simp only [hsv, Prod.mk.injEq, true_and] at hc
    subst hc
    rcases load_save_full hlen s.cfg n n' s.db db' W hsv hph hs hk hdb hps hf fuel top hd with ⟨a, b, _, d⟩ | c
    · exact Or.inl (by simpa [Store.cacheTree] using And.intro a (And.intro b d))
    · exact Or.inr c

theorem forks_independent_full {H : Bytes → Bytes} (hlen : ∀ x, (H x).length = 32) (s s' : Store) (r₂ : Bytes)
    (n₂ : Node) (W : List Node) (hp : lookupTree s.trees r₂ = some (some n₂)) (hc : commit s r₂ = (.ok r₂, s'))
    (hph : PH H n₂) (hs : C03.Shape n₂) (hk : KeyMin n₂) (hdb : DBInv H s.cfg s.db W)
    (hps : PersistedStored s.cfg s.db n₂) (hf : FitsRec n₂)
    (n₁ : Node) (r₁ : Bytes) (h1 : Stored s.cfg s.db n₁) (hf1 : FitsRec n₁) (hr1 : n₁.info.hk = some r₁)
    (fuel : Nat) (top : Bool) (hd : depth n₁ < fuel) :
    load s'.db fuel top r₁ = load s.db fuel top r₁ ∨ C03.CollisionIn H (C03.treeTrace H n₂ ++ tracesOf H W) := by
  rcases commit_exact_content_full hlen s s' r₂ n₂ W hp hc hph hs hk hdb hps hf (depth n₂ + 1) true (by omega) with
    ⟨_, hsub, _⟩ | c
  · exact Or.inl (load_stable s.cfg s.db s'.db hsub n₁ h1 hf1 fuel top r₁ hr1 hd)
  · exact Or.inr c

/-- **ops_commute** (for the requests that do not write) — the reply of `MemSet` depends only on the configuration
and the database, which MemSet / Rollback / Get / restart never change: after *any* two interleavings of such
requests the same MemSet gets the same reply (so concurrent pending updates on any parents cannot influence each
other's roots).  `CacheOK`: the node cache only holds what the database holds (true initially, kept by every
request: `run_cacheOK`; a fresh or restarted store satisfies it). -/
theorem ops_commute (H : Bytes → Bytes) (s : Store) (ls₁ ls₂ : List Label)
    (h1 : ∀ l ∈ ls₁, l.pendingOnly = true) (h2 : ∀ l ∈ ls₂, l.pendingOnly = true)
    (hc : CacheOK s)
    (p : Bytes) (bh : Nat) (kvs : List (Bytes × Bytes)) :
    (memSet H (run H s ls₁) p bh kvs).1 = (memSet H (run H s ls₂) p bh kvs).1 := by
  obtain ⟨a1, b1⟩ := run_frame H ls₁ h1 s
  obtain ⟨a2, b2⟩ := run_frame H ls₂ h2 s
  exact memSet_reply_eq H (run H s ls₂) (run H s ls₁) (run_cacheOK H ls₂ h2 s hc) (run_cacheOK H ls₁ h1 s hc)
    (a1.trans a2.symm) (b1.trans b2.symm) p bh kvs

/-- **pending_root_frame** — "whatever other updates were computed, committed or rolled back earlier": the root a
`MemSet` on parent `p` answers is the same in any two stores with the same configuration in which the parent's tree
is stored, whatever their pending entries (`trees`) and node caches hold and whatever else was committed in between
(`Sub s.db s'.db`: commits only add records — `commit_exact_content*`).  `n` is the parent's tree as stored in the
older database (balanced, int32 sizes: `C01.depth_lt_loadFuel` discharges the recursion budget). -/
theorem pending_root_frame (H : Bytes → Bytes) (s s' : Store) (hc : CacheOK s) (hc' : CacheOK s')
    (hcfg : s'.cfg = s.cfg) (n : Node) (p : Bytes) (hs : Stored s.cfg s.db n) (hf : FitsRec n) (hw : WF n)
    (hp : n.info.hk = some p) (hsub : Sub s.db s'.db) (bh : Nat) (kvs : List (Bytes × Bytes)) :
    (memSet H s' p bh kvs).1 = (memSet H s p bh kvs).1 :=
  memSet_reply_frame H s s' hc hc' hcfg p bh kvs
    (loadTree_stable s.cfg s.db s'.db hsub n hs hf p hp (depth_lt_loadFuel_aux n hw hf))

/-- non-vacuity of the hypotheses of `commit_exact_content_full` / `forks_independent_full`, jointly, on a two-leaf
pending tree keyed by the hashes of its content in a store with an empty database (any hash function with 32-byte
outputs): pending entry under its root, `PH`, `Shape`, `KeyMin`, `DBInv … []`, `PersistedStored`, `FitsRec`, depth. -/
example (H : Bytes → Bytes) (hlen : ∀ x, (H x).length = 32) :
    let la : Node := .leaf [97] [1] ⟨some (H (leafEnc [97] [1])), false⟩
    let lb : Node := .leaf [98] [2] ⟨some (H (leafEnc [98] [2])), false⟩
    let root := H (innerEnc (H (leafEnc [97] [1])) (H (leafEnc [98] [2])) 1 2)
    let n : Node := .inner [98] 1 2 la lb ⟨some root, false⟩
    let s : Store := ⟨Cfg.default, {}, [(root, some n)], {}⟩
    lookupTree s.trees root = some (some n) ∧ PH H n ∧ C03.Shape n ∧ KeyMin n ∧ DBInv H s.cfg s.db [] ∧
      PersistedStored s.cfg s.db n ∧ FitsRec n ∧ depth n < loadFuel ∧ pureHash H n = root := by
  intro la lb root n s
  have l64 : ∀ x, (H x).length < 2 ^ 64 := fun x => by rw [hlen]; decide
  refine ⟨by simp [s, lookupTree], ⟨rfl, rfl, rfl⟩, ⟨trivial, trivial, by decide, by decide⟩, ⟨trivial, trivial, rfl⟩,
    fun k v h => by simp [s] at h, ⟨fun h => by simp at h, fun _ => ⟨fun h => by simp at h, fun h => by simp at h⟩⟩,
    ⟨⟨by decide, by decide, ?_⟩, ⟨by decide, by decide, ?_⟩, by decide, by decide, by decide, by decide, ?_⟩,
    by simp [n, la, lb, depth, loadFuel], rfl⟩
  · intro h e; simp at e; subst e; exact l64 _
  · intro h e; simp at e; subst e; exact l64 _
  · intro h e; simp at e; subst e; exact l64 _

/-- **pending_entry_reachable** — the hypotheses of `commit_exact_content_full` / `forks_independent_full` are
reachable: in a store without `EnableMavlPrefix` / `enableMVCC` that satisfies the invariant `C01.SInv` (a new store
does, `C01.sinv_new`; every `Store.Set` on a known root keeps it or exhibits a located collision, `C01.setKV_sinv`),
a non-empty `MemSet` on a known root `r` (standing for the key/value list `L`) answers a root and leaves under it a
pending tree `n` with that very root as its hash, `PH`, `Shape`, `KeyMin`, `PersistedStored`, `FitsRec`,
`depth n < loadFuel`, over a database with `DBInv … W` — and `n` holds exactly `L` updated by the writes.  So
`Commit` of that root makes exactly this content loadable (`commit_exact_content_full` applies as is).
Not covered: pending entries carried across later Sets/Commits inside one invariant (`SInv` has no pending part;
`PersistedStored` is monotone in the database, `C01.PersistedStored.mono`, which is the lemma that extension needs). -/
theorem pending_entry_reachable {H : Bytes → Bytes} (hlen : ∀ x, (H x).length = 32) (s : Store) (W : List Node)
    (R : List (Bytes × List (Bytes × Bytes))) (hi : SInv H s W R) (r : Bytes) (L : List (Bytes × Bytes))
    (hr : (r, L) ∈ R) (bh : Nat) (kvs : List (Bytes × Bytes)) (hne : kvs ≠ [])
    (hb : ∀ p ∈ kvs, p.1.length < 2 ^ 64 ∧ p.2.length < 2 ^ 64) (hsz : (SMap.insMany L kvs).length < 2 ^ 31) :
    ∃ root s1 n, memSet H s r bh kvs = (.ok root, s1) ∧ lookupTree s1.trees root = some (some n) ∧
      root = pureHash H n ∧ PH H n ∧ C03.Shape n ∧ KeyMin n ∧ DBInv H s1.cfg s1.db W ∧
      PersistedStored s1.cfg s1.db n ∧ FitsRec n ∧ depth n < loadFuel ∧ n.toList = SMap.insMany L kvs := by
  obtain ⟨t, s1, el, pre, tl, ti, hi1, edb, ecfg⟩ := loadRoot_sinv hlen s W R hi r L hr
  obtain ⟨t', es, tl', ti'⟩ := Tree.setMany_spec t kvs ti
  have pre' := setMany_pre kvs hb t pre t' es
  have hne' : kvs.isEmpty = false := by cases kvs <;> simp_all
  unfold memSet
  simp only [hne', Bool.false_eq_true, if_false, el, es]
  rw [tl] at tl'
  cases t' with
  | none =>
    exfalso
    exact insMany_ne_nil kvs L (Or.inr hne) (by simpa [Tree.toList] using tl'.symm)
  | some n1 =>
    simp only [Tree.toList] at tl'
    have hs1 : n1.size < 2 ^ 31 := by rw [size_eq_length n1 ti'.2, tl']; exact hsz
    have hp1 : Pre H s1.cfg s1.db n1 := by rw [edb, ecfg]; exact pre'
    have hpf : s1.cfg.pfx = false := hi1.pfx
    obtain ⟨a1, _, _, a4, a5, a6, _, a8, a9, a10, _, a12, a13⟩ := hash_step hlen s1.cfg hpf s1.db bh n1 hp1 hs1
    refine ⟨(hashRoot H s1.cfg bh n1).2, _, (hashRoot H s1.cfg bh n1).1, rfl, lookupTree_storeTree _ _ _, ?_, a1, a5, a4,
      hi1.dbinv, a6, a8, a9, by rw [a10, tl']⟩
    rw [a12, a13]

end C04
