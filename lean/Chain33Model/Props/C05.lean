import Chain33Model.Model.C05
/-! C05 — property theorems (work in progress). -/
namespace C05
open C01

theorem restart_db (s : PState) : s.restart.db = s.db := rfl

end C05
