import Chain33Model.Proofs.C05
/-!
C05 — State pruning never deletes live state.  Property theorems only (helpers: Proofs/C05.lean).

Three layers.  (1) byte level: the leaf-count key format parses back (`leafCountKey_roundtrip`), so the pruning scan
sees exactly the (key, height, hash) triples `SaveNode` wrote.  (2) the decision rule: `C05.delRule` is the very
function the executable model's `deleteVersions` (= `deleteNode` / `deleteOldNode`) applies to one key's versions;
the theorems below say which versions it can delete.  (3) the index as a transition system over abstract ids
(`IState`, `saveBlock`, `emptyBlock`): when is "the index holds exactly the current chain's versions" (`IdxInv`)
preserved — and when not (S-C05).
-/
namespace C05
open C01

/-- **leafCountKey_roundtrip** — `getKeyHeightFromLeafCountKey ∘ genLeafCountKey = id`, for the first-level and the
second-level prefix, arbitrary binary keys, hashes of 32..999 bytes and heights below 10^10 (`%010d`). -/
theorem leafCountKey_roundtrip (key hash : Bytes) (h : Nat) (hh : h < 10 ^ 10)
    (hl1 : 32 ≤ hash.length) (hl2 : hash.length < 1000) :
    parseLeafCountKey leafCountPrefix (leafCountKey leafCountPrefix key hash h) = .ok (key, h, hash) ∧
    parseLeafCountKey oldLeafCountPrefix (leafCountKey oldLeafCountPrefix key hash h) = .ok (key, h, hash) :=
  ⟨parse_leafCountKey _ key hash h hh hl1 hl2, parse_leafCountKey _ key hash h hh hl1 hl2⟩

/-- **prune_deletes_only_dead** (leaf versions) — let `vs` be the versions of one key written on the current chain,
newest first, one per height (what the index holds for that key under `IdxInv`).  A pruning run at height `cur` with
interval `ph` deletes `delRule (eligible cur ph vs)`.  The version used by the state at any height `H > cur - ph`
(the tip and every retained state) is never among them. -/
theorem prune_deletes_only_dead (vs : List HashData) (hd : Desc vs) (cur ph H : Nat) (hH : cur < H + ph)
    (v : HashData) (hc : currentAt vs H = some v) : v ∉ delRule (eligible cur ph vs) :=
  delRule_spares_current vs hd cur ph H hH v hc

/-- non-vacuity: three versions, the two older ones eligible; the newest eligible one is kept, the state at a
retained height uses the newest version. -/
example : Desc [⟨9, [3]⟩, ⟨4, [2]⟩, ⟨1, [1]⟩] ∧ currentAt [⟨9, [3]⟩, ⟨4, [2]⟩, ⟨1, [1]⟩] 8 = some ⟨4, [2]⟩ ∧
    delRule (eligible 10 3 [⟨9, [3]⟩, ⟨4, [2]⟩, ⟨1, [1]⟩]) = [⟨1, [1]⟩] := by
  refine ⟨by simp [Desc], by decide, by decide⟩

/-- **prune_deletes_only_dead** (parents) — the parents recorded for a deleted leaf version are nodes that have
that leaf below them; such a node occurs in no search tree that holds another version of the key.  So deleting the
recorded parents cannot remove a node of a retained state. -/
theorem pruned_parents_dead (T P : Node) (hst : ST T) (k v : Bytes) (m : Meta) (ℓT : Node)
    (hT : leafNode T k = some ℓT) (hℓ : IsSub (.leaf k v m) P) (hne : Node.leaf k v m ≠ ℓT) : ¬ IsSub P T :=
  pruned_parent_not_in_tree T P hst k v m ℓT hT hℓ hne

/-- what the rule does when the index is *not* the chain's versions (S-C05 at the level of one key): the index also
holds `x@2` written by an abandoned branch; the chain's only version `a@1` is what every retained state uses, and a
run at height 6 with interval 3 deletes it. -/
theorem prune_with_stale_entry_deletes_live :
    currentAt [⟨1, [97]⟩] 5 = some ⟨1, [97]⟩ ∧
    (⟨1, [97]⟩ : HashData) ∈ delRule (eligible 6 3 [⟨2, [120]⟩, ⟨1, [97]⟩]) := by decide

/-- **IdxInv_preserved** — a block that goes through `Tree.Save` at height `h` (fresh height or re-commit after a
reorganisation) re-establishes `IdxInv` up to `h`, provided no index entry sits strictly between the previous tip
and `h` (automatic for `h ≤ tip + 1`). -/
theorem IdxInv_preserved (s : IState) (t h : Nat) (ws : List (Nat × Nat)) (hi : IdxInv s t)
    (hgap : ∀ e ∈ s.index, t < e.height → h ≤ e.height) (hchain : ∀ b ∈ s.chain, b.1 ≤ t) :
    IdxInv (saveBlock s h ws) h :=
  IdxInv_saveBlock s t h ws hi hgap hchain

/-- full statement: the invariant survives every kind of block, also one without state change (which never
reaches `Save`). -/
def IdxInvPreservedFull : Prop :=
  ∀ (s : IState) (t h : Nat), IdxInv s t → (∀ b ∈ s.chain, b.1 ≤ t) → IdxInv (emptyBlock s h) h

/-- **IdxInv_preserved_full_false** — witness (S-C05): branch A writes at heights 1 and 2, the chain is reorganised
to height 1 and the new block at height 2 has no state change: the entry of the abandoned branch stays in the index.
Replayed on the real code by `h_c05`: KNOWN-FINDING
C05|PruningTree|live-key-unreadable-after-reorg-with-height-not-recommitted-through-Save. -/
theorem IdxInv_preserved_full_false : ¬ IdxInvPreservedFull := idxInv_full_false_aux

/-- **IdxInv_preserved_partial** — a block without state change keeps the invariant under the added hypothesis that
the index holds nothing above the truncated chain up to `h`, i.e. every height of the abandoned branch up to `h`
has been re-committed through `Save`. -/
theorem IdxInv_preserved_partial (s : IState) (t h : Nat) (hi : IdxInv s t)
    (hclean : ∀ e ∈ s.index, e.height ≤ h → ∃ b ∈ s.chain, b.1 < h ∧ e ∈ entriesOf b.1 b.2)
    (hchain : ∀ b ∈ s.chain, b.1 ≤ t) : IdxInv (emptyBlock s h) h :=
  IdxInv_emptyBlock_partial s t h hi hclean hchain

/-- non-vacuity of `IdxInv` and of the hypotheses of `IdxInv_preserved`: the empty store, then a first block. -/
example : IdxInv ⟨[], []⟩ 0 ∧ IdxInv (saveBlock ⟨[], []⟩ 1 [(0, 10)]) 1 := by
  have h0 : IdxInv ⟨[], []⟩ 0 := by intro e _; simp [chainEntries]
  exact ⟨h0, IdxInv_saveBlock _ 0 1 _ h0 (by simp) (by simp)⟩

/-! ### towards the end-to-end statement -/

/-- a linear history on the executable store model: block `i` (1-based) is committed through `Store.Set` at height
`i` on top of the previous root (the store's own trigger prunes inside `setKV`). -/
def linRun (H : Bytes → Bytes) : PState → Bytes → Nat → List (List (Bytes × Bytes)) → PState × List (Nat × Bytes)
  | s, _, _, [] => (s, [])
  | s, parent, h, b :: rest =>
    match setKV H s parent h b with
    | (.ok root, s') => let r := linRun H s' root (h + 1) rest; (r.1, (h, root) :: r.2)
    | (_, s') => (s', [])

/-- the end-to-end statement for linear histories, on the byte-level model that the driver runs: after any number of
blocks (pruning triggered by the store itself), every key of the tip state and of every state within `ph` below the
tip reads the value of its most recent write — or the hash function has a collision.  NOT proved, and as written
only a marker of the aim: the disjunct is the unlocated `∃ x ≠ y, H x = H y`, which every 32-byte-valued function
satisfies by counting, so the intended statement has the collision located among the node encodings hashed by the
run (`C03.CollisionIn H (C01.tracesOf H <nodes saved by the run>)`, as in `C01.load_save_or_collision`).  What is proved is
the composition `retained_state_survives_pruning_partial` below plus its ingredients, and the byte-level model is
tied to the code by the differential run (digest of the whole database after every pruning run). -/
def PruneSafeFull : Prop :=
  ∀ (H : Bytes → Bytes), (∀ x, (H x).length = 32) → ∀ (ph : Nat) (blocks : List (List (Bytes × Bytes))),
    ∀ hr ∈ (linRun H (PState.new ph) [] 1 blocks).2, blocks.length < hr.1 + ph →
      ∀ k, get (linRun H (PState.new ph) [] 1 blocks).1 hr.2 [k] = .ok [C01.lastWrite ((blocks.take hr.1).flatten) k] ∨
        C03.Collision H

/-- **retained_state_survives_pruning_partial** — one pruning run against one retained state, composed from
`prune_deletes_only_dead`, `pruned_parents_dead` and the uniqueness of a key's leaf in a search tree.
Added hypotheses (the missing lemmas towards `PruneSafeFull`): `hidx` — the leaf the state holds for `K` is the newest
indexed version not above its height (the byte-level counterpart of `IdxInv`, whose preservation is proved on the
abstract index only: `IdxInv_preserved`); `hpar`/`hleaf` — `PruneData` lists keys of nodes that have the leaf version
below them; `U`/`hdist`/`hinj` — among the nodes of the store (`U`) keys identify nodes (content addressing with the height prefix; not derived from
collision-freeness).  Conclusion: no node of the retained state is among the deleted records, for any key `K`. -/
theorem retained_state_survives_pruning_partial (T : Node) (hst : ST T) (cur ph H : Nat) (hH : cur < H + ph)
    (K : Bytes) (vs : List HashData) (hdesc : Desc vs) (par : HashData → List Bytes)
    (hidx : ∀ ℓ, leafNode T K = some ℓ → ∃ v, currentAt vs H = some v ∧ ℓ.info.hk = some v.hash)
    (U : Node → Prop) (hU : ∀ x ∈ subnodes T, U x)
    (hpar : ∀ v ∈ vs, ∀ p ∈ par v, ∃ P val m, U P ∧ P.info.hk = some p ∧ (Node.leaf K val m).info.hk = some v.hash ∧
        IsSub (.leaf K val m) P)
    (hleaf : ∀ v ∈ vs, ∃ val m, U (.leaf K val m) ∧ (Node.leaf K val m).info.hk = some v.hash)
    (hdist : ∀ a ∈ vs, ∀ b ∈ vs, a.hash = b.hash → a = b)
    (hinj : ∀ (x y : Node) (h : Bytes), U x → U y → x.info.hk = some h → y.info.hk = some h → x = y) :
    ∀ x ∈ subnodes T, ∀ d ∈ deletedFor cur ph vs par, x.info.hk ≠ some d :=
  retained_nodes_survive T hst cur ph H hH K vs hdesc par hidx U hU hpar hleaf hdist hinj

/-- non-vacuity of the hypotheses of `retained_state_survives_pruning_partial`: a one-leaf state whose leaf is the only
indexed version of its key. -/
example : ∃ (T : Node) (vs : List HashData) (U : Node → Prop),
    ST T ∧ Desc vs ∧ (∀ x ∈ subnodes T, U x) ∧
    (∀ ℓ, leafNode T [1] = some ℓ → ∃ v, currentAt vs 5 = some v ∧ ℓ.info.hk = some v.hash) ∧
    (∀ v ∈ vs, ∃ val m, U (.leaf [1] val m) ∧ (Node.leaf [1] val m).info.hk = some v.hash) ∧
    (∀ (x y : Node) (h : Bytes), U x → U y → x.info.hk = some h → y.info.hk = some h → x = y) := by
  refine ⟨.leaf [1] [2] ⟨some [9], true⟩, [⟨3, [9]⟩], fun x => x = .leaf [1] [2] ⟨some [9], true⟩,
    trivial, by simp [Desc], ?_, ?_, ?_, ?_⟩
  · intro x hx; simpa [subnodes] using hx
  · intro ℓ h; simp [leafNode, cmpB] at h; subst h; exact ⟨⟨3, [9]⟩, by decide, rfl⟩
  · intro v hv; simp at hv; subst hv; exact ⟨[2], ⟨some [9], true⟩, rfl, rfl⟩
  · intro x y h hx hy _ _; rw [hx, hy]

/-- **split_groups_keep_more** — `pruningFirstLevelNode` flushes its per-key groups whenever 999 keys / 10000 entries
have accumulated, so the deletion rule may see the eligible versions of one key in several contiguous pieces
(newest first).  Whatever piece `g` of the eligible list `E` it is applied to, it deletes only versions that the rule
deletes on the whole list `E` (for which `prune_deletes_only_dead` holds): splitting keeps more, never less.
NOT proved: that the groups `pruneFirst` builds from `scanDesc` (byte order of `%010d` heights) ARE contiguous
pieces, newest first, of `eligible cur ph (idx K)` — the byte-level link is tied by the differential run. -/
theorem split_groups_keep_more (E g pre post : List HashData) (hd : Desc E) (he : E = pre ++ g ++ post)
    (v : HashData) (hv : v ∈ delRule g) : v ∈ delRule E :=
  delRule_piece E g pre post hd he v hv

/-- non-vacuity: the middle piece of four versions. -/
example : Desc [⟨9, [4]⟩, ⟨7, [3]⟩, ⟨4, [2]⟩, ⟨1, [1]⟩] ∧
    [⟨9, [4]⟩, ⟨7, [3]⟩, ⟨4, [2]⟩, ⟨1, [1]⟩] = [(⟨9, [4]⟩ : HashData)] ++ [⟨7, [3]⟩, ⟨4, [2]⟩] ++ [⟨1, [1]⟩] ∧
    delRule [(⟨7, [3]⟩ : HashData), ⟨4, [2]⟩] = [⟨4, [2]⟩] := by
  refine ⟨by simp [Desc], rfl, by decide⟩

end C05
