import Chain33Model.Proofs.C06Prefix
import Chain33Model.Proofs.C06Map
/-!
C06 — Key-value backends agree with an ordered-map model.  Property theorems only
(helpers live in `Proofs/C06*.lean`).  The model (`Model/C06.lean`) is tied to
`common/db` by the differential run of `h_c06` vs `drv_c06`.
-/
namespace C06

/-- `bytesPrefix`: a key lies in `[p, prefixUpper p)` (no upper bound when `prefixUpper p` is
`nil`, i.e. `p` empty or all `0xff`) exactly when `p` is a prefix of it. -/
theorem prefixUpper_spec (p k : Bytes) :
    (ble p k = true ∧ (match prefixUpper p with
                       | none => True
                       | some u => blt k u = true)) ↔ p <+: k := by
  rw [← List.isPrefixOf_iff_prefix, ← prefixUpper_spec_bool]
  cases prefixUpper p <;> simp [belowUpper]

/-- non-vacuity: the all-`0xff` and the empty prefix have no upper bound, an ordinary one has. -/
example : prefixUpper [0xff, 0xff] = none ∧ prefixUpper [] = none
    ∧ prefixUpper [0x61, 0xff] = some [0x62] := by decide

/-- a read after a write sees it; other keys are untouched. -/
theorem read_your_write (m : Map) (k v k₂ : Bytes) :
    get (insert m k v) k = some v ∧ (k ≠ k₂ → get (insert m k v) k₂ = get m k₂) :=
  ⟨get_insert_self m k v, fun h => get_insert_other m v h⟩

/-- a read after a delete does not see the key; other keys are untouched. -/
theorem read_your_delete {m : Map} (hs : Sorted m) (k k₂ : Bytes) :
    get (erase m k) k = none ∧ (k ≠ k₂ → get (erase m k) k₂ = get m k₂) :=
  ⟨get_erase_self hs k, fun h => get_erase_other m h⟩

/-- every write keeps the map strictly sorted (so the invariant of the theorems below holds
in every reachable state, starting from the empty database). -/
theorem sorted_reachable {m : Map} (hs : Sorted m) (ops : List BOp) : Sorted (applyBatch m ops) :=
  sorted_applyBatch hs ops

/-- A batch applies all of its operations in order: the value of every key afterwards is
decided by the *last* operation of the batch that touches it, untouched keys keep their value. -/
theorem batch_in_order {m : Map} (hs : Sorted m) (ops : List BOp) (k : Bytes) :
    get (applyBatch m ops) k = (match lastWrite ops k with
                               | some r => r
                               | none => get m k) :=
  get_applyBatch hs ops k

/-- splitting a batch is the same as writing the two halves one after the other. -/
theorem batch_append (m : Map) (ops₁ ops₂ : List BOp) :
    applyBatch m (ops₁ ++ ops₂) = applyBatch (applyBatch m ops₁) ops₂ := by
  simp [applyBatch, List.foldl_append]

example : Sorted (applyBatch [] [.set [1] [1], .set [0] [], .del [1], .set [1] [2]])
    ∧ get (applyBatch [] [.set [1] [1], .set [0] [], .del [1], .set [1] [2]]) [1] = some [2] := by
  constructor
  · exact sorted_applyBatch sorted_nil _
  · decide

end C06
