import Chain33Model.Proofs.C06Prefix
import Chain33Model.Proofs.C06Map
import Chain33Model.Proofs.C06Iter
import Chain33Model.Proofs.C06Badger
import Chain33Model.Proofs.C06BadgerStep
import Chain33Model.Proofs.C06Batch
import Chain33Model.Proofs.C06Session
/-!
C06 — Key-value backends agree with an ordered-map model.  Property theorems only
(helpers live in `Proofs/C06*.lean`).  The model (`Model/C06.lean`) is tied to
`common/db` by the differential run of `h_c06` vs `drv_c06`.
-/
namespace C06

/-- `bytesPrefix`: a key lies in `[p, prefixUpper p)` (no upper bound when `prefixUpper p` is
`nil`, i.e. `p` empty or all `0xff`) exactly when `p` is a prefix of it. -/
theorem prefixUpper_spec (p k : Bytes) :
    (ble p k = true ∧ (match prefixUpper p with
                       | none => True
                       | some u => blt k u = true)) ↔ p <+: k := by
  rw [← List.isPrefixOf_iff_prefix, ← prefixUpper_spec_bool]
  cases prefixUpper p <;> simp [belowUpper]

/-- non-vacuity: the all-`0xff` and the empty prefix have no upper bound, an ordinary one has. -/
example : prefixUpper [0xff, 0xff] = none ∧ prefixUpper [] = none
    ∧ prefixUpper [0x61, 0xff] = some [0x62] := by decide

/-- a read after a write sees it; other keys are untouched. -/
theorem read_your_write (m : Map) (k v k₂ : Bytes) :
    get (insert m k v) k = some v ∧ (k ≠ k₂ → get (insert m k v) k₂ = get m k₂) :=
  ⟨get_insert_self m k v, fun h => get_insert_other m v h⟩

/-- a read after a delete does not see the key; other keys are untouched. -/
theorem read_your_delete {m : Map} (hs : Sorted m) (k k₂ : Bytes) :
    get (erase m k) k = none ∧ (k ≠ k₂ → get (erase m k) k₂ = get m k₂) :=
  ⟨get_erase_self hs k, fun h => get_erase_other m h⟩

/-- every write keeps the map strictly sorted (so the invariant of the theorems below holds
in every reachable state, starting from the empty database). -/
theorem sorted_reachable {m : Map} (hs : Sorted m) (ops : List BOp) : Sorted (applyBatch m ops) :=
  sorted_applyBatch hs ops

/-- A batch applies all of its operations in order: the value of every key afterwards is
decided by the *last* operation of the batch that touches it, untouched keys keep their value. -/
theorem batch_in_order {m : Map} (hs : Sorted m) (ops : List BOp) (k : Bytes) :
    get (applyBatch m ops) k = (match lastWrite ops k with
                               | some r => r
                               | none => get m k) :=
  get_applyBatch hs ops k

/-- splitting a batch is the same as writing the two halves one after the other. -/
theorem batch_append (m : Map) (ops₁ ops₂ : List BOp) :
    applyBatch m (ops₁ ++ ops₂) = applyBatch (applyBatch m ops₁) ops₂ := by
  simp [applyBatch, List.foldl_append]

example : Sorted (applyBatch [] [.set [1] [1], .set [0] [], .del [1], .set [1] [2]])
    ∧ get (applyBatch [] [.set [1] [1], .set [0] [], .del [1], .set [1] [2]]) [1] = some [2] := by
  constructor
  · exact sorted_applyBatch sorted_nil _
  · decide

/-! ### iterators (`goLevelDBIt` on GoLevelDB / GoMemDB) -/

/-- what "in range" means: `range m lo hi` holds exactly the entries of `m` with `lo ≤ key < hi`,
and it is strictly ascending — so "equal to `range …`" below says: exactly the in-range keys,
in order, each once. -/
theorem range_exact {m : Map} {lo : Bytes} {hi : Option Bytes} {e : Entry} :
    e ∈ range m lo hi ↔ e ∈ m ∧ ble lo e.1 = true ∧ (match hi with
                                                     | none => True
                                                     | some h => blt e.1 h = true) := by
  rw [mem_range]
  cases hi <;> simp [inRange, belowUpper]

theorem range_sorted {m : Map} (hs : Sorted m) (lo : Bytes) (hi : Option Bytes) :
    Sorted (range m lo hi) := sorted_range lo hi hs

/-- forward iteration (`Rewind`, then `Next` while `Valid`) visits exactly the in-range
entries in ascending order, each once. -/
theorem iter_forward {m : Map} (hs : Sorted m) (start : Bytes) (end_ : Option Bytes) :
    (Iter.mk' m start end_ false).scan = range m start (effEnd start end_) := by
  have := Iter.scan_eq_all (Iter.wf_mk' hs start end_ false)
  simpa [Iter.all, Iter.mk'] using this

/-- reverse iteration visits exactly the in-range entries in descending order, each once. -/
theorem iter_reverse {m : Map} (hs : Sorted m) (start : Bytes) (end_ : Option Bytes) :
    (Iter.mk' m start end_ true).scan = (range m start (effEnd start end_)).reverse := by
  have := Iter.scan_eq_all (Iter.wf_mk' hs start end_ true)
  simpa [Iter.all, Iter.mk'] using this

/-- prefix scan (`end = nil`): exactly the entries whose key has the prefix — including all-`0xff`
and empty prefixes.  (Hypothesis: `bytesPrefix(p)` is not literally the `types.EmptyValue`
sentinel — for that one 43-byte prefix the code scans without upper bound.) -/
theorem iter_prefix {m : Map} (hs : Sorted m) (p : Bytes) (rev : Bool)
    (hq : prefixUpper p ≠ some emptyValue) :
    (Iter.mk' m p none rev).scan = if rev then (withPrefix m p).reverse else withPrefix m p := by
  have heff : effEnd p none = prefixUpper p := by
    unfold effEnd
    cases hu : prefixUpper p with
    | none => rfl
    | some u =>
      have : u ≠ emptyValue := by rintro rfl; exact hq hu
      simp [this]
  have hr : range m p (prefixUpper p) = withPrefix m p := by
    unfold range withPrefix
    congr 1
    funext e
    exact prefixUpper_spec_bool p e.1
  cases rev with
  | false => rw [iter_forward hs, heff, hr]; rfl
  | true => rw [iter_reverse hs, heff, hr]; rfl

example : (Iter.mk' [([0x61], [1]), ([0x61, 0xff], []), ([0x62], [2])] [0x61] none true).scan
    = [([0x61, 0xff], []), ([0x61], [1])] := by decide

/-- forward `Seek(k)` lands on the least in-range key ≥ `k`; invalid iff there is none. -/
theorem seek_lands_forward {m : Map} (hs : Sorted m) (start : Bytes) (end_ : Option Bytes) (k : Bytes) :
    let it := ((Iter.mk' m start end_ false).seek k).1
    let R := range m start (effEnd start end_)
    match it.cur with
    | some x => it.valid = true ∧ x ∈ R ∧ ble k x.1 = true ∧ ∀ y ∈ R, ble k y.1 = true → ble x.1 y.1 = true
    | none => it.valid = false ∧ ∀ y ∈ R, blt y.1 k = true := by
  intro it R
  have hwf0 := Iter.wf_mk' hs start end_ false
  obtain ⟨hwf, hrest, _, _⟩ := Iter.seek_rest hwf0 k
  have hall : (Iter.mk' m start end_ false).all = R := by simp [Iter.all, Iter.mk', R]
  have hrev : (Iter.mk' m start end_ false).reverse = false := rfl
  rw [hall, hrev] at hrest
  have hspec := dropWhile_spec (before false k) R
  have hsR : Sorted R := sorted_range _ _ hs
  cases hd : R.dropWhile (before false k) with
  | nil =>
    rw [hd] at hspec hrest
    have hv : it.valid = false := by
      cases hv : it.valid with
      | false => rfl
      | true => exact absurd hrest ((Iter.valid_iff_rest hwf).mp hv)
    have hc : it.cur = none := by
      have := Iter.valid_eq_uValid hwf
      rw [hv] at this
      simpa [Iter.uValid] using this.symm
    rw [hc]
    exact ⟨hv, fun y hy => by simpa [before] using hspec y hy⟩
  | cons x r =>
    rw [hd] at hspec hrest
    obtain ⟨hpx, hxR, hall', hsub⟩ := hspec
    obtain ⟨_, _, hc⟩ := Iter.head_of_rest hwf hrest
    rw [hc]
    refine ⟨(Iter.valid_iff_rest hwf).mpr (by rw [hrest]; simp), hxR, ?_, ?_⟩
    · simpa [before, ble] using hpx
    · intro y hy hky
      have : y ∈ x :: r := hall' y hy (by simpa [before, ble] using hky)
      rcases List.mem_cons.mp this with rfl | hyr
      · exact ble_refl _
      · have hs' : Sorted (x :: r) := List.Pairwise.sublist hsub hsR
        exact ble_of_blt ((sorted_cons.mp hs').1 y hyr)

/-- reverse `Seek(k)` lands on the greatest in-range key ≤ `k`; invalid iff there is none. -/
theorem seek_lands_reverse {m : Map} (hs : Sorted m) (start : Bytes) (end_ : Option Bytes) (k : Bytes) :
    let it := ((Iter.mk' m start end_ true).seek k).1
    let R := range m start (effEnd start end_)
    match it.cur with
    | some x => it.valid = true ∧ x ∈ R ∧ ble x.1 k = true ∧ ∀ y ∈ R, ble y.1 k = true → ble y.1 x.1 = true
    | none => it.valid = false ∧ ∀ y ∈ R, blt k y.1 = true := by
  intro it R
  have hwf0 := Iter.wf_mk' hs start end_ true
  obtain ⟨hwf, hrest, _, _⟩ := Iter.seek_rest hwf0 k
  have hall : (Iter.mk' m start end_ true).all = R.reverse := by simp [Iter.all, Iter.mk', R]
  have hrev : (Iter.mk' m start end_ true).reverse = true := rfl
  rw [hall, hrev] at hrest
  have hspec := dropWhile_spec (before true k) R.reverse
  have hsR : Sorted R := sorted_range _ _ hs
  cases hd : R.reverse.dropWhile (before true k) with
  | nil =>
    rw [hd] at hspec hrest
    have hv : it.valid = false := by
      cases hv : it.valid with
      | false => rfl
      | true => exact absurd hrest ((Iter.valid_iff_rest hwf).mp hv)
    have hc : it.cur = none := by
      have := Iter.valid_eq_uValid hwf
      rw [hv] at this
      simpa [Iter.uValid] using this.symm
    rw [hc]
    exact ⟨hv, fun y hy => by simpa [before] using hspec y (List.mem_reverse.mpr hy)⟩
  | cons x r =>
    rw [hd] at hspec hrest
    obtain ⟨hpx, hxR, hall', hsub⟩ := hspec
    obtain ⟨_, _, hc⟩ := Iter.head_of_rest hwf hrest
    rw [hc]
    refine ⟨(Iter.valid_iff_rest hwf).mpr (by rw [hrest]; simp), List.mem_reverse.mp hxR, ?_, ?_⟩
    · simpa [before, ble] using hpx
    · intro y hy hky
      have : y ∈ x :: r := hall' y (List.mem_reverse.mpr hy) (by simpa [before, ble] using hky)
      rcases List.mem_cons.mp this with rfl | hyr
      · exact ble_refl _
      · -- x :: r is a sublist of R.reverse, which is descending
        have hdesc : (R.reverse).Pairwise (fun a b => blt b.1 a.1 = true) := List.pairwise_reverse.mpr hsR
        have hs' := List.Pairwise.sublist hsub hdesc
        exact ble_of_blt ((List.pairwise_cons.mp hs').1 y hyr)

example : (((Iter.mk' [([1], [1]), ([3], [3]), ([5], [5])] [] (some [5]) true).seek [4]).1.cur = some ([3], [3]))
    ∧ (((Iter.mk' [([1], [1]), ([3], [3]), ([5], [5])] [] (some [5]) false).seek [2]).1.cur = some ([3], [3])) := by
  decide

/-! ### the batch wrappers refine the specification (`memBatch`, `goLevelDBBatch`, `GoBadgerDBBatch`)

`C06.Batch` is the implementation-side model: the `writes` list of `memBatch` (`Set` appends
`kv{cloneByte(k), cloneByte(v)}` — `cloneByte(nil)` is non-nil —, `Delete` appends `kv{k, nil}`,
`Write` deletes where `kv.v == nil` and sets otherwise, returning only the last error), `Reset`,
and the `ValueSize`/`ValueLen` counters.  It is tied to all three backends by the differential run
(every `batch` line: error, `ValueSize`, `ValueLen`, then the state through `get`/iterators). -/

/-- **A batch built through the `Batch` interface and written applies `applyBatch` of its calls, in
call order**: `Set(k, v)` is a write of `v` — a *nil* `v` is stored as the empty value, it is not a
delete —, `Delete(k)` a delete, `Reset()` forgets everything buffered before it. -/
theorem batch_impl_refines (calls : List BCall) (m : Map) :
    ((calls.foldl Batch.call {}).write m).1 = applyBatch m (callsToOps calls) := by
  rw [Batch.write_state, toBOps_calls, callsToOps_eq]
  rfl

/-- in particular (the shape of the seeded regression): after `Set(k, nil)` — alone, or after a
`Delete(k)` in the same batch — the key is present with the empty value; `Delete(k)` last removes it. -/
theorem batch_set_nil_is_stored {m : Map} (hs : Sorted m) (k : Bytes) :
    get ((([BCall.set k none]).foldl Batch.call {}).write m).1 k = some []
    ∧ get ((([BCall.delete k, BCall.set k none]).foldl Batch.call {}).write m).1 k = some []
    ∧ get ((([BCall.set k none, BCall.delete k]).foldl Batch.call {}).write m).1 k = none := by
  refine ⟨?_, ?_, ?_⟩ <;>
    (rw [batch_impl_refines, batch_in_order hs]; simp [callsToOps, storedValue, lastWrite])

/-- `Reset()` discards the buffered calls and zeroes the counters. -/
theorem batch_reset_discards (pre post : List BCall) :
    (pre ++ BCall.reset :: post).foldl Batch.call {} = post.foldl Batch.call {} :=
  calls_after_reset {} pre post

/-- `memBatch.Write` returns the error of its *last* write only: an error exactly when that write
is a delete of a key that is absent once the earlier writes are applied (memdb reports it). -/
theorem batch_write_error (ws : List (Bytes × Option Bytes)) (kv : Bytes × Option Bytes) (m : Map) :
    (({ writes := ws ++ [kv] } : Batch).write m).2
      = (match kv.2 with
         | none => (get (applyBatch m ({ writes := ws } : Batch).toBOps) kv.1).isNone
         | some _ => false) :=
  Batch.write_error ws kv 0 0 m

/-- `ValueSize` sums `len(key) + len(value)`; `ValueLen` grows by `len(value)` per `Set` and by 1
per `Delete` (as the code is written — it is not the number of operations). -/
theorem batch_counters (calls : List BCall) (h : ∀ c ∈ calls, c ≠ .reset) :
    (calls.foldl Batch.call {}).size = (calls.map callSize).sum
    ∧ (calls.foldl Batch.call {}).len = (calls.map callLen).sum := by
  have := counters_noReset {} calls h
  simpa using this

example : ((([BCall.set [1] (some [7, 7]), .reset, .delete [2], .set [3] none]).foldl Batch.call {}).write
      [([2], [5])]) = ([([3], [])], false)
    ∧ (([BCall.delete [2], .set [3] none]).foldl Batch.call {}).size = 2
    ∧ (([BCall.delete [2], .set [3] none]).foldl Batch.call {}).len = 1 := by decide

/-! ### small facts about the helpers of db.go / go_mem_db.go -/

/-- `itBase.checkKey` never rejects what the range-restricted goleveldb/memdb iterator delivers:
for `goLevelDBIt`, `Valid()` is the underlying `Valid()` (the inclusive `key ≤ end` test on top of
the exclusive limit is redundant there). -/
theorem valid_is_underlying_valid {m : Map} (hs : Sorted m) (start : Bytes) (end_ : Option Bytes) (rev : Bool)
    (steps : List IStep) :
    let it := steps.foldl (fun (i : Iter) st => (i.step st).1) (Iter.mk' m start end_ rev)
    it.valid = it.uValid :=
  Iter.valid_eq_uValid (Iter.steps_wf (Iter.wf_mk' hs start end_ rev) steps)

/-- the `types.EmptyValue` sentinel as `end` means "no upper bound". -/
theorem emptyValue_unbounded {m : Map} (hs : Sorted m) (start : Bytes) :
    effEnd start (some emptyValue) = none
    ∧ (Iter.mk' m start (some emptyValue) false).scan = m.filter (fun e => ble start e.1) := by
  have h1 : effEnd start (some emptyValue) = none := by simp [effEnd]
  refine ⟨h1, ?_⟩
  rw [iter_forward hs, h1]
  unfold range
  apply List.filter_congr
  intro e _; simp [inRange, belowUpper]

/-- `memBatch`: `Set(k, empty)` stores an empty value (the key is present), only `Delete(k)` removes
the key — in whatever order they meet in one batch, the last one wins. -/
theorem batch_empty_value_is_stored {m : Map} (hs : Sorted m) (k : Bytes) :
    get (applyBatch m [.set k []]) k = some []
    ∧ get (applyBatch m [.del k]) k = none
    ∧ get (applyBatch m [.del k, .set k []]) k = some []
    ∧ get (applyBatch m [.set k [], .del k]) k = none := by
  refine ⟨?_, ?_, ?_, ?_⟩ <;> (rw [batch_in_order hs]; simp [lastWrite])

/-! ### every iterator session against the specification -/

/-- **"with rewind, seek and next"**: every session of `Rewind` / `Seek k` / `Next` calls on
`goLevelDBIt` (GoLevelDB, GoMemDB) is answered like the specification cursor over the in-range
entries `all` (ascending, or descending for a reverse iterator): `Rewind` shows `all`, `Seek k` shows
`all.dropWhile (before k)` (forward: from the least key ≥ `k`; reverse: from the greatest key ≤ `k`),
`Next` drops the head; the answer after each call is (non-empty?, head).  A first `Next` on a fresh
iterator is `Rewind` forward and finds nothing in reverse. -/
theorem iter_session_spec {m : Map} (hs : Sorted m) (start : Bytes) (end_ : Option Bytes) (rev : Bool)
    (steps : List IStep) :
    (Iter.mk' m start end_ rev).session steps
      = specSession (if rev then (range m start (effEnd start end_)).reverse
                     else range m start (effEnd start end_)) rev none steps := by
  have h := (RelI.init hs start end_ rev).session steps
  rw [h]
  cases rev <;> rfl

/-- the shape the reviewers asked for: after any calls, `Seek k` followed by `Next` while valid
visits exactly `all.dropWhile (before k)`. -/
theorem seek_then_drain {m : Map} (hs : Sorted m) (start : Bytes) (end_ : Option Bytes) (rev : Bool)
    (steps : List IStep) (k : Bytes) :
    let it := steps.foldl (fun (i : Iter) st => (i.step st).1) (Iter.mk' m start end_ rev)
    Iter.drain (m.length + 1) (it.seek k).1
      = (if rev then (range m start (effEnd start end_)).reverse
         else range m start (effEnd start end_)).dropWhile (before rev k) := by
  intro it
  have hw : it.WF := Iter.steps_wf (Iter.wf_mk' hs start end_ rev) steps
  obtain ⟨hents, hrev⟩ := Iter.steps_fields (Iter.wf_mk' hs start end_ rev) steps
  obtain ⟨hw', hrest, _, he'⟩ := Iter.seek_rest hw k
  have hlen : (it.seek k).1.rest.length ≤ m.length + 1 := by
    have h1 := @Iter.rest_length_le (it.seek k).1
    rw [he', hents] at h1
    have h2 : (Iter.mk' m start end_ rev).ents.length ≤ m.length := by
      simp only [Iter.mk', range]; exact List.length_filter_le _ _
    omega
  rw [Iter.drain_eq_rest hw' hlen, hrest]
  have hall : it.all = (if rev then (range m start (effEnd start end_)).reverse
      else range m start (effEnd start end_)) := by
    unfold Iter.all; rw [hents, hrev]; cases rev <;> rfl
  rw [hall, hrev]
  rfl

example : (Iter.mk' [([1], [1]), ([3], [3]), ([5], [5])] [] none false).session
      [.seek [2], .next, .next, .next, .rewind]
    = ([(true, some ([3], [3])), (true, some ([5], [5])), (false, none), (false, none),
        (true, some ([1], [1]))] : List Obs) := by decide

/-! ### GoBadgerDB iterator (repaired code, /repo commits 0f6664f, 406d120, 5ca8d51)

`BIter` mirrors `goBadgerDBIt` as repaired: the constructor leaves the iterator unpositioned
(`fresh`; the first `Next` is `Rewind` forward and finds nothing in reverse), `Valid` requires
`start ≤ key < end`, `Rewind` of a reverse iterator skips the bound, `Seek` clamps the target into
`[start, end)`, a reverse `Seek` with an empty target is `done`, `Next` on an exhausted iterator
returns false.  The earlier refutation (`badger_iter_full_false`) no longer applies; its witness
and those of the later deviations are kept as regression inputs (`corpus/C06/*.ops`). -/

/-- forward badger iteration (`Rewind`, then `Next` while `Valid`) visits exactly the in-range
entries in ascending order, each once — the same statement as `iter_forward`. -/
theorem badger_iter_forward {m : Map} (hs : Sorted m) (start : Bytes) (end_ : Option Bytes) :
    (BIter.mk' m start end_ false).scan = range m start (effEnd start end_) :=
  BIter.scan_forward hs start end_

/-- reverse badger iteration visits exactly the in-range entries in descending order, each once —
the same statement as `iter_reverse` (the bound itself is skipped). -/
theorem badger_iter_reverse {m : Map} (hs : Sorted m) (start : Bytes) (end_ : Option Bytes) :
    (BIter.mk' m start end_ true).scan = (range m start (effEnd start end_)).reverse :=
  BIter.scan_reverse hs start end_

/-- **the repaired Badger iterator scans like the goleveldb/memdb iterator**, for every map, every
bounds (prefix mode, explicit range, `EmptyValue`) and both directions. -/
theorem badger_iter_eq_leveldb {m : Map} (hs : Sorted m) (start : Bytes) (end_ : Option Bytes) (rev : Bool) :
    (BIter.mk' m start end_ rev).scan = (Iter.mk' m start end_ rev).scan := by
  cases rev with
  | false => rw [badger_iter_forward hs, iter_forward hs]
  | true => rw [badger_iter_reverse hs, iter_reverse hs]

/-- **Step-level equivalence (full statement).** Every session of `Rewind` / `Seek k` / `Next`
calls on a freshly created Badger iterator is answered exactly like the same session on the
goleveldb/memdb iterator: the same returned Bool after every call and, when `Valid()`, the same
`Key()` and `Value()` — for every database that Badger can hold (it rejects the empty key), every
`start`/`end` (prefix mode, explicit range, `EmptyValue`, even an explicit empty end), both
directions, every call sequence and every seek target (empty, outside the range, …).
(The model has no `0xff` restriction; that restriction is the harness's, for the real backend.) -/
def BadgerSessionFull : Prop :=
  ∀ (m : Map) (start : Bytes) (end_ : Option Bytes) (rev : Bool) (steps : List IStep),
    Sorted m → (∀ e ∈ m, e.1 ≠ []) →
    (BIter.mk' m start end_ rev).session steps = (Iter.mk' m start end_ rev).session steps

theorem badger_session_eq_leveldb : BadgerSessionFull :=
  fun m start end_ rev steps hs hne => (Sim.init hs hne start end_ rev).session steps

/-- the Badger iterator, too, answers every session like the specification cursor. -/
theorem badger_session_spec {m : Map} (hs : Sorted m) (hne : ∀ e ∈ m, e.1 ≠ []) (start : Bytes)
    (end_ : Option Bytes) (rev : Bool) (steps : List IStep) :
    (BIter.mk' m start end_ rev).session steps
      = specSession (if rev then (range m start (effEnd start end_)).reverse
                     else range m start (effEnd start end_)) rev none steps := by
  rw [badger_session_eq_leveldb m start end_ rev steps hs hne, iter_session_spec hs]

/-- non-vacuity: a reverse session with a fresh `Next`, a seek above the bound, an empty seek
target, and steps past the end. -/
example :
    (BIter.mk' [([0x61], [1]), ([0x62], [2]), ([0x63], [3])] [0x61] (some [0x63]) true).session
        [.next, .seek [0x7f], .next, .next, .next, .seek [], .next, .rewind, .seek [0x61, 0x00]]
      = ([(false, none), (true, some ([0x62], [2])), (true, some ([0x61], [1])), (false, none), (false, none),
         (false, none), (false, none), (true, some ([0x62], [2])), (true, some ([0x61], [1]))] : List Obs) := by
  decide

/-- the reason for the no-empty-key condition: on goleveldb a stored empty key is found by a
reverse `Seek("")`; Badger cannot store it. -/
example : (Iter.mk' [([], [9]), ([0x61], [1])] [] none true).session [.seek []]
    = ([(true, some (([] : Bytes), ([9] : Bytes)))] : List Obs) := by decide

example : (BIter.mk' [([], [9]), ([0x61], [1])] [] none true).session [.seek []]
    = ([(false, none)] : List Obs) := by decide

/-- regression witness of S-C06: keys `a`, `b`; the prefix scan of `a` returns only `a`. -/
example : (BIter.mk' [([0x61], [1]), ([0x62], [2])] [0x61] none false).scan = [([0x61], [1])]
    ∧ (BIter.mk' [([0x61], [1]), ([0x62], [2])] [0x61] none true).scan = [([0x61], [1])] := by decide

end C06
