import Chain33Model.Proofs.C07Plain
import Chain33Model.Proofs.C07Union
/-!
C07 — Paged listing returns every live entry exactly once.  Property theorems only
(helpers: `Proofs/C07Cursor`, `C07Pages`, `C07Plain`, `C07Merged`).

Vocabulary: `withPrefix m p` = entries of `m` whose key has prefix `p`; `live` drops the
tombstones (empty values); `ordered rev` = ascending, or descending when `rev`;
`remaining all rev key` = what follows `key` in that order (everything for an empty `key`);
`takeC count 0` = the first `count` (all when `count = 0`); `pagedAll` = the client protocol
"first request with an empty key, every further request continues after the last returned key,
stop at the first empty page".  `prefixUpper pfx ≠ some emptyValue` excludes the single 43-byte
prefix whose `bytesPrefix` is literally the `types.EmptyValue` sentinel.
-/
namespace C07
open C06

/-- the target of the listing: exactly the live entries of `m` under the prefix, each once,
in key order (ascending / descending). -/
theorem target_exact {m : Map} (hs : Sorted m) (pfx : Bytes) (rev : Bool) :
    (∀ e, e ∈ live (ordered rev (withPrefix m pfx)) ↔ (e ∈ m ∧ pfx <+: e.1 ∧ e.2 ≠ []))
    ∧ DSorted rev (live (ordered rev (withPrefix m pfx))) := by
  constructor
  · intro e
    simp only [live, List.mem_filter, mem_ordered, withPrefix, isDeleted]
    rw [List.isPrefixOf_iff_prefix]
    constructor
    · rintro ⟨⟨h1, h2⟩, h3⟩
      exact ⟨h1, h2, by simpa using h3⟩
    · rintro ⟨h1, h2, h3⟩
      exact ⟨⟨h1, h2⟩, by simpa using h3⟩
  · exact List.Pairwise.sublist List.filter_sublist (dsorted_ordered (sorted_withPrefix hs pfx) rev)

/-- One page (`List(prefix, key, count, direction)` on a single database) is: the first `count`
live entries that follow `key` under the prefix, in the requested order. -/
theorem list_page {m : Map} (hs : Sorted m) (pfx key : Bytes) (count dir : Nat)
    (hq : prefixUpper pfx ≠ some emptyValue) :
    listEntriesPlain m pfx key count dir
      = some (takeC count 0 (live (remaining (ordered (!isASC dir) (withPrefix m pfx)) (!isASC dir) key))) :=
  listEntriesPlain_spec hs pfx key count dir hq

/-- the returned items are the page entries through `collector.collect` (all encodings), except
for the special `ListSeek` request (`count = 1`, `direction = 2`, non-empty key). -/
theorem list_encodes (m : Map) (pfx key : Bytes) (count dir : Nat)
    (h : ¬ (key ≠ [] ∧ count = 1 ∧ dir = ListSeek)) :
    listPlain m pfx key count dir = (listEntriesPlain m pfx key count dir).map (encodeItems dir) := by
  unfold listPlain list listEntriesPlain
  have : (!key.isEmpty && count == 1 && dir == ListSeek) = false := by
    cases hk : key with
    | nil => simp
    | cons a as =>
      have h' : ¬ (count = 1 ∧ dir = ListSeek) := fun hh => h ⟨by simp [hk], hh⟩
      simp only [List.isEmpty_cons, Bool.not_false, Bool.true_and]
      cases hc : (count == 1) with
      | false => simp
      | true =>
        cases hd : (dir == ListSeek) with
        | false => simp
        | true => exact absurd ⟨by simpa using hc, by simpa using hd⟩ h'
  simp [this]

/-- **Pages concatenate to exactly the live entries under the prefix, in key order, each once** —
for every page size `count ≥ 1`, both directions, starting from either end. -/
theorem pages_concat {m : Map} (hs : Sorted m) (pfx : Bytes) (hk : ∀ e ∈ m, pfx <+: e.1 → e.1 ≠ [])
    (count dir : Nat)
    (hc : 1 ≤ count) (hq : prefixUpper pfx ≠ some emptyValue) :
    pagedAll (fun key => listEntriesPlain m pfx key count dir) (m.length + 1) []
      = some (live (ordered (!isASC dir) (withPrefix m pfx))) := by
  have hlen : (ordered (!isASC dir) (withPrefix m pfx)).length < m.length + 1 := by
    rw [length_ordered]; have := withPrefix_length_le m pfx; omega
  exact pagedAll_spec (P := []) (fun key => listEntriesPlain_spec hs pfx key count dir hq)
    (dsorted_ordered (sorted_withPrefix hs pfx) _)
    (fun e he => hk e (List.mem_filter.mp (mem_ordered.mp he)).1
      (List.isPrefixOf_iff_prefix.mp (List.mem_filter.mp (mem_ordered.mp he)).2))
    hc rfl (by simp [remaining]) hlen

/-- non-vacuity: three keys under the prefix, one tombstoned, one foreign key; page size 1, descending. -/
example : pagedAll (fun key => listEntriesPlain
      [([0x61], [1]), ([0x61, 0x00], []), ([0x61, 0xff], [2]), ([0x62], [3])] [0x61] key 1 0) 5 []
    = some [([0x61, 0xff], [2]), ([0x61], [1])] := by decide

/-- a page never contains an entry outside the prefix, an entry that is not in the database,
or a tombstone — whatever `key` the request continues from. -/
theorem no_foreign {m : Map} (hs : Sorted m) (pfx key : Bytes) (count dir : Nat)
    (hq : prefixUpper pfx ≠ some emptyValue) {p : List Entry}
    (hp : listEntriesPlain m pfx key count dir = some p) :
    ∀ e ∈ p, e ∈ m ∧ pfx <+: e.1 ∧ e.2 ≠ [] := by
  rw [listEntriesPlain_spec hs pfx key count dir hq] at hp
  cases hp
  intro e he
  have h1 : e ∈ live (remaining (ordered (!isASC dir) (withPrefix m pfx)) (!isASC dir) key) := by
    unfold takeC at he
    split at he
    · exact List.mem_of_mem_take he
    · exact he
  have h2 := List.mem_filter.mp h1
  have h3 : e ∈ ordered (!isASC dir) (withPrefix m pfx) := by
    have := h2.1
    unfold remaining at this
    split at this
    · exact this
    · have hsk : ∀ (D : List Entry), e ∈ skipKey key D → e ∈ D := by
        intro D hD
        cases D with
        | nil => exact hD
        | cons a D' =>
          simp only [skipKey] at hD
          by_cases ha : (a.1 == key) = true
          · rw [if_pos ha] at hD; exact List.mem_cons_of_mem _ hD
          · rw [if_neg ha] at hD; exact hD
      exact (List.dropWhile_sublist _).mem (hsk _ this)
  have h4 := List.mem_filter.mp (mem_ordered.mp h3)
  exact ⟨h4.1, List.isPrefixOf_iff_prefix.mp h4.2, by simpa [isDeleted] using h2.2⟩

/-- `PrefixCount` = number of live entries under the prefix. -/
theorem prefixCount_eq {m : Map} (hs : Sorted m) (pfx : Bytes) (hq : prefixUpper pfx ≠ some emptyValue) :
    countPlain m pfx = some (live (withPrefix m pfx)).length :=
  countPlain_spec hs pfx hq

example : countPlain [([0x61], [1]), ([0x61, 0x00], []), ([0xff], [2]), ([0xff, 0xff], [3])] [0xff] = some 2 := by
  decide

/-! ### edge cases of `List` -/

/-- the answer of the `ListSeek` request in terms of live entries: the first live entry of `D`. -/
theorem seekAnswer_eq (D : List Entry) :
    seekAnswer D = (match (live D).head? with
                    | some e => [e.1, e.2]
                    | none => []) := by
  induction D with
  | nil => rfl
  | cons a D ih =>
    by_cases hd : isDeleted a.2 = true
    · simp only [seekAnswer, List.dropWhile_cons, hd, if_true, live, List.filter_cons, Bool.not_true,
        Bool.false_eq_true, if_false]
      exact ih
    · have hd' : isDeleted a.2 = false := by simpa using hd
      simp [seekAnswer, List.dropWhile_cons, hd', live, List.filter_cons]

/-- **`ListSeek`** (`count = 1`, `direction = 2`, non-empty key): the answer is `[key', value']` of
the greatest live entry under the prefix with `key' ≤ key` (the first live entry walking down from
`key`), or nothing. -/
theorem list_seek {m : Map} (hs : Sorted m) (pfx key : Bytes) (hk : key ≠ [])
    (hq : prefixUpper pfx ≠ some emptyValue) :
    listPlain m pfx key 1 ListSeek
      = some (match (live ((withPrefix m pfx).reverse.dropWhile (fun e => blt key e.1))).head? with
              | some e => [e.1, e.2]
              | none => []) := by
  rw [listPlain_spec hs pfx key 1 ListSeek hq, ← seekAnswer_eq]
  have hne : key.isEmpty = false := by
    cases key with
    | nil => exact absurd rfl hk
    | cons _ _ => rfl
  simp [listSpec, hne, ListSeek, ordered]
  rfl

/-- `count = 0` means "no limit": one request from the start returns every live entry. -/
theorem list_count_zero {m : Map} (hs : Sorted m) (pfx : Bytes) (dir : Nat)
    (hq : prefixUpper pfx ≠ some emptyValue) :
    listEntriesPlain m pfx [] 0 dir = some (live (ordered (!isASC dir) (withPrefix m pfx))) := by
  rw [list_page hs pfx [] 0 dir hq]
  simp [takeC, remaining]

/-! ### the merged view over layered databases (`merge_iter.go`) -/

/-- The merged view `mergeMaps layers`, specified by point reads: it is an ordered map and a key
reads as in the first (highest-priority) layer that holds it — tombstones are entries too, so an
empty value in an upper layer hides the lower ones. -/
theorem mergeMaps_spec {layers : List Map} (hs : ∀ m ∈ layers, Sorted m) :
    Sorted (mergeMaps layers) ∧ ∀ k, get (mergeMaps layers) k = layers.findSome? (fun m => get m k) :=
  ⟨sorted_mergeMaps hs, fun k => get_mergeMaps hs k⟩

/-- **The merged iterator is the left-biased union.** The merged iterator over the layers and the
single-database iterator over `mergeMaps layers` are cursors over one and the same entry list (the
in-range entries of the union, in iteration order): `Rewind` positions both at its start, `Seek(k)`
at its first entry not before `k`, `Valid/Key/Value` show the head of what remains and `Next` drops
it (`RangeCursor`, `Proofs/C07Cursor.lean`).  For any number of layers — including the single-layer
case, where `NewMergedIterator` defaults its `reverse` flag to `true` whatever the direction (the
flag is then never consulted: `selMin_irrel`, `munion_irrel`). -/
theorem merged_eq_union {layers : List Map} (hs : ∀ m ∈ layers, Sorted m)
    (start : Bytes) (end_ : Option Bytes) (rev : Bool) :
    let all := ordered rev (range (mergeMaps layers) start (effEnd start end_))
    RangeCursor mergedOps (MInv rev) MIter.rest (mergedIter layers start end_ rev) all rev
    ∧ RangeCursor iterOps Iter.WF Iter.rest (Iter.mk' (mergeMaps layers) start end_ rev) all rev := by
  intro all
  constructor
  · have := mergedRangeCursor hs start end_ rev
    rwa [mergedAll_eq hs] at this
  · have := iterRangeCursor (Iter.wf_mk' (sorted_mergeMaps hs) start end_ rev)
    have hall : (Iter.mk' (mergeMaps layers) start end_ rev).all = all := by
      cases rev <;> simp [Iter.all, Iter.mk', ordered, all]
    rwa [hall] at this

/-- consequently every page and every count over the layers equals the one over the union map. -/
theorem list_merged_eq_plain {layers : List Map} (hs : ∀ m ∈ layers, Sorted m)
    (pfx key : Bytes) (count dir : Nat) (hq : prefixUpper pfx ≠ some emptyValue) :
    listEntriesMerged layers pfx key count dir = listEntriesPlain (mergeMaps layers) pfx key count dir
    ∧ countMerged layers pfx = countPlain (mergeMaps layers) pfx := by
  rw [listEntriesMerged_spec hs pfx key count dir hq,
    listEntriesPlain_spec (sorted_mergeMaps hs) pfx key count dir hq,
    countMerged_spec hs pfx hq, countPlain_spec (sorted_mergeMaps hs) pfx hq]
  exact ⟨rfl, rfl⟩

/-- pages over the merged view concatenate to exactly its live entries under the prefix, in key
order, each once. -/
theorem pages_concat_merged {layers : List Map} (hs : ∀ m ∈ layers, Sorted m)
    (pfx : Bytes) (hk : ∀ m ∈ layers, ∀ e ∈ m, pfx <+: e.1 → e.1 ≠ []) (count dir : Nat)
    (hc : 1 ≤ count) (hq : prefixUpper pfx ≠ some emptyValue) :
    pagedAll (fun key => listEntriesMerged layers pfx key count dir) (layersSize layers + 1) []
      = some (live (ordered (!isASC dir) (withPrefix (mergeMaps layers) pfx))) := by
  have hlen : (ordered (!isASC dir) (withPrefix (mergeMaps layers) pfx)).length < layersSize layers + 1 := by
    rw [length_ordered]
    have := withPrefix_length_le (mergeMaps layers) pfx
    have := length_mergeMaps_le layers
    omega
  have hkm : ∀ e ∈ mergeMaps layers, pfx <+: e.1 → e.1 ≠ [] := by
    intro e he hp
    obtain ⟨m, hm, hem⟩ := mem_munion he
    exact hk m hm e hem hp
  exact pagedAll_spec (P := []) (fun key => listEntriesMerged_spec hs pfx key count dir hq)
    (dsorted_ordered (sorted_withPrefix (sorted_mergeMaps hs) pfx) _)
    (fun e he => hkm e (List.mem_filter.mp (mem_ordered.mp he)).1
      (List.isPrefixOf_iff_prefix.mp (List.mem_filter.mp (mem_ordered.mp he)).2))
    hc rfl (by simp [remaining]) hlen

/-- no foreign / tombstoned / hidden entry in any page of the merged view: every returned entry
reads back through the layers (first layer holding the key) with that live value. -/
theorem no_foreign_merged {layers : List Map} (hs : ∀ m ∈ layers, Sorted m)
    (pfx key : Bytes) (count dir : Nat) (hq : prefixUpper pfx ≠ some emptyValue) {p : List Entry}
    (hp : listEntriesMerged layers pfx key count dir = some p) :
    ∀ e ∈ p, layers.findSome? (fun m => get m e.1) = some e.2 ∧ pfx <+: e.1 ∧ e.2 ≠ [] := by
  rw [(list_merged_eq_plain hs pfx key count dir hq).1] at hp
  intro e he
  obtain ⟨h1, h2', h3⟩ := no_foreign (sorted_mergeMaps hs) pfx key count dir hq hp e he
  refine ⟨?_, h2', h3⟩
  have := get_mergeMaps hs e.1
  unfold unionGet at this
  rw [← this]
  exact get_of_mem (sorted_mergeMaps hs) h1

/-- `PrefixCount` over the merged view = number of its live entries under the prefix. -/
theorem prefixCount_eq_merged {layers : List Map} (hs : ∀ m ∈ layers, Sorted m)
    (pfx : Bytes) (hq : prefixUpper pfx ≠ some emptyValue) :
    countMerged layers pfx = some (live (withPrefix (mergeMaps layers) pfx)).length :=
  countMerged_spec hs pfx hq

/-- non-vacuity: three layers; the top layer tombstones `a1`, the middle one overrides `a`;
page size 1 ascending; count. -/
example :
    pagedAll (fun key => listEntriesMerged
      [[([0x61, 0x31], [])], [([0x61], [9])], [([0x61], [1]), ([0x61, 0x31], [2]), ([0x61, 0x32], [3]), ([0x62], [4])]]
      [0x61] key 1 1) 7 []
      = some [([0x61], [9]), ([0x61, 0x32], [3])]
    ∧ countMerged
      [[([0x61, 0x31], [])], [([0x61], [9])], [([0x61], [1]), ([0x61, 0x31], [2]), ([0x61, 0x32], [3]), ([0x62], [4])]]
      [0x61] = some 2 := by decide

/-- the single-layer code path (`NewMergedIterator` with one iterator: `reverse := true` by default),
listed forward with page size 1. -/
example :
    pagedAll (fun key => listEntriesMerged [[([0x61], [1]), ([0x61, 0x31], []), ([0x62], [2])]] [] key 1 1) 4 []
      = some [([0x61], [1]), ([0x62], [2])] := by decide

end C07
