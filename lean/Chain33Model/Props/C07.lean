import Chain33Model.Model.C07
import Chain33Model.Proofs.C06Map
/-!
C07 — Paged listing returns every live entry exactly once.  Property theorems only.
-/
namespace C07
open C06

/-- `collect` never invents data: a key-only item is the key, a value item is the value. -/
theorem collect_keyOnly (k v : Bytes) : collect ListKeyOnly k v = k ∧ collect (ListKeyOnly + ListASC) k v = k := by
  constructor <;> rfl

end C07
