import Chain33Model.Model.C08
import Chain33Model.Proofs.C06Map
/-!
C08 — Layered local database obeys nested-transaction semantics.  Property theorems only.
-/
namespace C08
open C06 C07

/-- rolling back drops the transaction layer and nothing else. -/
theorem rollback_keeps_committed (l : LocalDB) :
    l.rollback.cache = l.cache ∧ l.rollback.main = l.main ∧ l.rollback.txcache = none ∧ l.rollback.intx = false := by
  simp [LocalDB.rollback, LocalDB.resetTx]

end C08
