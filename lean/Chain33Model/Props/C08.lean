import Chain33Model.Proofs.C08
/-!
C08 — Layered local database obeys nested-transaction semantics.  Property theorems only
(helpers: `Proofs/C08.lean`; the merged listing comes from C07).

`Spec` (Model/C08.lean) is the property's own vocabulary: `(base, overlay, tx : Option overlay)`;
a read (`Spec.get`) returns the newest write visible from the open transaction, then the committed
overlay, then the base, an empty value hides the key; `Spec.merged` is the ordered map of all
visible pairs (characterised by `merged_spec`).  `Refines l s` (Proofs/C08.lean) relates a `LocalDB`
state to a `Spec` state — only the *combined* view `cache`-over-`maindb` is related to
`overlay`-over-`base`, which is what makes the read-through copies invisible.
-/
namespace C08
open C06 C07

/-- the freshly created `LocalDB` over a (sorted) base refines the fresh specification state. -/
theorem refines_init {main : Map} (hs : Sorted main) : Refines (LocalDB.new main) (Spec.new main) :=
  refines_new hs

/-- `Spec.merged` is an ordered map and reads like the layered lookup. -/
theorem merged_spec {s : Spec} (h : s.WF) :
    Sorted s.merged ∧ ∀ k, C06.get s.merged k = s.rawGet k :=
  ⟨sorted_mergeMaps h.sorted_view, h.get_merged⟩

/-- **LocalDB refines the specification**: every operation returns the specification's answer
(`Get`: newest visible write, tombstones hidden; `List`/`PrefixCount`: the listing over the merged
view; the rest `ok`) and the states stay related — whatever the read-through cache contains. -/
theorem localdb_refines_spec {l : LocalDB} {s : Spec} (h : Refines l s) (op : Op) (hp : op.okPrefix) :
    (l.step op).2 = s.out op ∧ Refines (l.step op).1 (s.step op) :=
  step_refines h op hp

/-- … hence along every history from a fresh `LocalDB` (every reachable state). -/
theorem reachable_refines {main : Map} (hs : Sorted main) (ops : List Op) (hp : ∀ op ∈ ops, op.okPrefix) :
    ((LocalDB.new main).run ops).2 = (Spec.new main).outs ops
    ∧ Refines ((LocalDB.new main).run ops).1 ((Spec.new main).run ops) :=
  run_refines (refines_new hs) ops hp

/-- non-vacuity: a concrete history with a read-then-write, a delete of a base entry, a rollback
and a commit; the implementation's answers are the specification's. -/
example :
    let main : Map := [([0x61], [1]), ([0x62], [2])]
    let ops : List Op := [.get [0x61], .begin, .set [0x61] [], .set [0x63] [3], .get [0x61], .list [] [] 0 9,
      .rollback, .get [0x61], .begin, .set [0x62] [7], .commit, .get [0x62], .count []]
    ((LocalDB.new main).run ops).2 = [.val (some [1]), .ok, .ok, .ok, .val none, .items (some [[0x62], [0x63]]),
      .ok, .val (some [1]), .ok, .ok, .ok, .val (some [7]), .num (some 2)] := by decide

/-- **Rolling back discards exactly the open transaction's writes.** From a state without an open
transaction: `Begin`, then any reads/writes/listings, then `Rollback` — the implementation refines
the *same* specification state as before `Begin`, so every later answer is the one it would have
given then. -/
theorem rollback_discards_exactly_tx {l : LocalDB} {s : Spec} (h : Refines l s) (hnt : s.tx = none)
    (ops : List Op) (hd : ∀ op ∈ ops, op.isData = true) (hp : ∀ op ∈ ops, op.okPrefix) :
    Refines (l.run (.begin :: ops ++ [.rollback])).1 s := by
  have hp' : ∀ op ∈ (Op.begin :: ops ++ [Op.rollback]), op.okPrefix := by
    intro op hop
    simp only [List.cons_append, List.mem_cons, List.mem_append, List.mem_nil_iff, or_false] at hop
    rcases hop with rfl | hop | rfl
    · trivial
    · exact hp op hop
    · trivial
  have hr := (run_refines h (.begin :: ops ++ [.rollback]) hp').2
  have hspec : s.run (.begin :: ops ++ [.rollback]) = s := by
    have : s.run (.begin :: ops ++ [.rollback]) = ((s.begin).run ops).rollback := by
      simp [Spec.run, Spec.step, List.foldl_append]
    rw [this]
    obtain ⟨t', ht'⟩ := run_data_in_tx (s := s.begin) (t := []) rfl ops hd
    rw [ht']
    cases s
    simp_all [Spec.rollback, Spec.begin]
  rwa [hspec] at hr

/-- **Committing keeps them**: after `Commit` no transaction is open and every point read, the
merged map (hence every listing and count) is what it was inside the transaction. -/
theorem commit_keeps {s : Spec} (h : s.WF) :
    s.commit.tx = none ∧ (∀ k, s.commit.get k = s.get k) ∧ s.commit.merged = s.merged := by
  refine ⟨?_, ?_, ?_⟩
  · unfold Spec.commit; cases hs : s.tx <;> simp [hs]
  · intro k; unfold Spec.get; rw [commit_rawGet h]
  · apply sorted_ext (sorted_mergeMaps (commit_wf h).sorted_view) (sorted_mergeMaps h.sorted_view)
    intro k
    have h1 := (commit_wf h).get_merged k
    have h2 := h.get_merged k
    unfold Spec.merged at h1 h2
    rw [h1, h2, commit_rawGet h]

/-- a write is read back, and hides older values: inside a transaction and outside. -/
theorem read_your_write {s : Spec} (k v : Bytes) :
    (s.set k v).rawGet k = some v := by
  unfold Spec.set Spec.rawGet Spec.view
  cases hs : s.tx with
  | none => simp [hs, findSome2, get_insert_self]
  | some t => simp [hs, findSome3, get_insert_self]

/-- **List and count agree with point reads at every state**: listing a prefix completely
(no count limit, from the start, either direction, any encoding) returns the encoded entries of an
ordered list `L` whose pairs are exactly the `(k, v)` with the prefix that `Get k` returns, and
`PrefixCount` is its length. -/
theorem list_agrees_get {l : LocalDB} {s : Spec} (h : Refines l s) (pfx : Bytes) (dir : Nat)
    (hq : prefixUpper pfx ≠ some emptyValue) :
    ∃ L : List Entry, Sorted L
      ∧ l.list pfx [] 0 dir = some (encodeItems dir (ordered (!isASC dir) L))
      ∧ l.prefixCount pfx = some L.length
      ∧ ∀ k v, (k, v) ∈ L ↔ (pfx <+: k ∧ (l.get k).2 = some v) := by
  refine ⟨live (withPrefix s.merged pfx), ?_, ?_, count_spec h pfx hq, ?_⟩
  · exact (Sorted.filter _ (sorted_withPrefix (sorted_mergeMaps h.spec_wf.sorted_view) pfx))
  · rw [list_spec h pfx [] 0 dir hq]
    simp only [listSpec, List.isEmpty_nil, Bool.not_true, Bool.false_and, Bool.false_eq_true, if_false,
      remaining, if_true, takeC, Nat.lt_irrefl]
    cases (!isASC dir) <;> simp [ordered, live, List.filter_reverse]
  · intro k v
    rw [(get_spec h k).1]
    exact h.spec_wf.listed_iff pfx k v

/-- every single page (`count`, continuation key, direction, encoding) is the one of the paged
listing of C07 over the merged view — so C07's `pages_concat_merged` applies to `LocalDB.List`. -/
theorem list_is_merged_listing {l : LocalDB} {s : Spec} (h : Refines l s) (pfx key : Bytes) (count dir : Nat)
    (hq : prefixUpper pfx ≠ some emptyValue) :
    l.list pfx key count dir = listPlain s.merged pfx key count dir := by
  have := listPlain_spec (sorted_mergeMaps h.spec_wf.sorted_view) pfx key count dir hq
  rw [list_spec h pfx key count dir hq]
  exact this.symm

/-! ### read-only mode -/

/-- **Read-only `LocalDB`** (`NewLocalDB(maindb, true)`, used for transaction checks): whatever is
called — `Begin`/`Commit`/`Rollback` included — every read, listing and count is answered from the
base database exactly as the specification state with no overlay and no transaction answers it,
the base is never changed, and `Set` is the explicit `panic` outcome. -/
theorem readonly_answers_from_base {main : Map} (hs : Sorted main) (l : RoLocalDB) (hl : l.main = main)
    (op : Op) (hp : op.okPrefix) :
    (l.step op).1.main = main
    ∧ (l.step op).2 = (match op with
                       | .set _ _ => Out.panic
                       | _ => (Spec.new main).out op) := by
  have hmerged : (Spec.new main).merged = mergeMaps [main] := by
    simp [Spec.merged, Spec.new, Spec.view, mergeMaps, munion]
  have hsl : ∀ m ∈ [main], Sorted m := by intro m hm; simp at hm; rw [hm]; exact hs
  cases op with
  | begin => exact ⟨hl, rfl⟩
  | commit => exact ⟨hl, rfl⟩
  | rollback => exact ⟨hl, rfl⟩
  | set k v => exact ⟨hl, rfl⟩
  | get k =>
    refine ⟨hl, ?_⟩
    simp only [RoLocalDB.step, Spec.out, RoLocalDB.get, Spec.get, Spec.rawGet, Spec.new, Spec.view, hl]
    have : List.findSome? (fun m => C06.get m k) ([] ++ [[], main]) = C06.get main k := by
      simp only [List.nil_append, findSome2, get_nil, Option.none_or]
    rw [this]
  | list p k c d =>
    refine ⟨hl, ?_⟩
    simp only [RoLocalDB.step, Spec.out, hl]
    rw [listMerged_spec hsl p k c d hp, hmerged]
  | count p =>
    refine ⟨hl, ?_⟩
    simp only [RoLocalDB.step, Spec.out, hl]
    rw [countMerged_spec hsl p hp, hmerged]

example : ((RoLocalDB.new [([0x61], [1]), ([0x62], [])]).step (.set [0x61] [9])).2 = Out.panic
    ∧ ((RoLocalDB.new [([0x61], [1]), ([0x62], [])]).step (.get [0x62])).2 = Out.val none
    ∧ ((RoLocalDB.new [([0x61], [1]), ([0x62], [])]).step (.count [])).2 = Out.num (some 1) := by decide

end C08
