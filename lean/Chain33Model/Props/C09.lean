import Chain33Model.Model.C09
/-!
C09 — property theorems (work in progress).
-/
namespace C09

end C09
