import Chain33Model.Proofs.C09
import Chain33Model.Proofs.C09Bridge
/-!
C09 — Versioned reads return the right key at the right version.  Property theorems only.

Vocabulary (Model/C09.lean): `getKey k i` is the data key of key `k` at version `i`; a store `db`
is `WF K db` when it is sorted and every record is `getKey k i` for some `k ∈ K`, `i < 2^63`
(what `AddMVCC`/`DelMVCC` produce, `applyAdd_wf`); `specRead db k v` is the value of the record of
`k` with the greatest version `≤ v` ("most recent write to k at a version not above v");
`getV` mirrors `SimpleMVCC.GetV`, `trash` mirrors `MVCCHelper.Trash`.
-/
namespace C09

/-! ### 1. zero padding -/

/-- `pad` (20 digits) is an order isomorphism from `0 ≤ v < 10^20` (⊇ int64) to byte strings. -/
theorem pad_order (a b : Nat) (ha : a < 10 ^ 20) (hb : b < 10 ^ 20) :
    (ble (pad20 a) (pad20 b) = true ↔ a ≤ b) ∧ (pad20 a = pad20 b ↔ a = b) :=
  ⟨padN_ble 20 a b ha hb, ⟨padN_inj 20 a b ha hb, fun h => by rw [h]⟩⟩

/-! ### 2. reads -/

/-- FULL statement of the first sentence of C09: for every store of version records and every key,
`GetV k v` answers the most recent write to `k` at a version `≤ v`, or not-found. -/
def getV_correct_full : Prop :=
  ∀ (K : List Bytes) (db : DB) (k : Bytes) (v : Nat),
    WF K db → k ∈ K → v < 2 ^ 63 → getV db k v = specResult db k v

/-- PARTIAL (added hypotheses: `SepFree K` — no key followed by '.' is a prefix of another key —
and `NoEmpty db` — no version stored the empty value): `GetV` is correct. -/
theorem getV_correct_partial (K : List Bytes) (db : DB) (k : Bytes) (v : Nat)
    (hwf : WF K db) (hk : k ∈ K) (hv : v < 2 ^ 63) (hsep : SepFree K) (hne : NoEmpty db) :
    getV db k v = specResult db k v := by
  have hwin := seek_window K db k v hwf hne hk hsep hv
  have hspec := specRead_spec db k v
  unfold getV seekRev specResult
  cases hr : specRead db k v with
  | none =>
    have hno := hspec.2 hr
    have : db.filter (fun e => inRange (keyPrefix k) e.1 && ble e.1 (getKey k v) && !e.2.isEmpty) = [] := by
      apply List.filter_eq_nil_iff.2
      intro e he hp
      obtain ⟨i, hi, hkey⟩ := (hwin e he).1 hp
      exact (get_eq_none_iff db (getKey k i)).1 (hno i hi) e he hkey
    simp [this]
  | some val =>
    obtain ⟨i, hi, hget, hnone⟩ := hspec.1 val hr
    have hmem : (getKey k i, val) ∈ db := (get_eq_some_iff db hwf.1 _ _).1 hget
    have hib : i < 2 ^ 63 := by omega
    have hlast : (db.filter (fun e => inRange (keyPrefix k) e.1 && ble e.1 (getKey k v) && !e.2.isEmpty)).getLast?
        = some (getKey k i, val) := by
      apply getLast?_of_max _ (sorted_filter db hwf.1 _)
      · exact List.mem_filter.2 ⟨hmem, (hwin _ hmem).2 ⟨i, hi, rfl⟩⟩
      · intro e' he'
        obtain ⟨hm', hp'⟩ := List.mem_filter.1 he'
        obtain ⟨j, hj, hkey'⟩ := (hwin e' hm').1 hp'
        rw [hkey']
        apply (ble_getKey k j i (by omega) hib).2
        by_cases hji : j ≤ i
        · exact hji
        · exfalso
          exact (get_eq_none_iff db (getKey k j)).1 (hnone j (by omega) hj) e' hm' hkey'
    have hval : val ≠ [] := hne _ hmem
    have hemp : val.isEmpty = false := by
      cases val with
      | nil => exact absurd rfl hval
      | cons _ _ => rfl
    simp only [hlast, getVersion_getKey k i hib, hemp]
    simp
    exact hi

/-- The reverse seek of `GetV` is not a separate re-model: on the store seen as a C06 ordered map
(bytes as UInt8), `ListHelper.List(prefix, key, 1, ListSeek)` as modelled in C07 — `nextKeyValue`
over the `goLevelDBIt` wrapper `C06.Iter`: reverse iterator on `[prefix, bytesPrefix prefix)`,
`Seek(key)`, step over deleted values — returns exactly the record `seekRev` returns (C07.list_seek
is the iterator-level theorem; this is the bridge to the closed form used in the theorems here). -/
theorem getV_seek_is_list_seek (db : DB) (k : Bytes) (v : Nat) (hs : Sorted db) (hsm : SmallDB db)
    (hk : Small k) :
    C07.listPlain (embed db) (u8 (keyPrefix k)) (u8 (getKey k v)) 1 C07.ListSeek =
      some (match seekRev db (keyPrefix k) (getKey k v) with
            | some e => [u8 e.1, u8 e.2]
            | none => []) :=
  seekRev_is_list_seek db k v hs hsm hk

/-- non-vacuity: a store with two keys sharing a prefix ("a", "a!") and three versions meets the
hypotheses, and the read is a real value. -/
example :
    let K : List Bytes := [[97], [97, 33]]
    let db : DB := [(getKey [97, 33] 1, [7]), (getKey [97] 0, [1]), (getKey [97] 2, [3])]
    WF K db ∧ SepFree K ∧ NoEmpty db ∧ getV db [97] 1 = .val [1] ∧ getV db [97] 5 = .val [3] := by
  refine ⟨⟨by decide, ?_⟩, by decide, by decide, by decide, by decide⟩
  intro e he
  simp only [List.mem_cons, List.not_mem_nil, or_false] at he
  rcases he with h | h | h <;> subst h
  · exact ⟨[97, 33], by simp, 1, by decide, rfl⟩
  · exact ⟨[97], by simp, 0, by decide, rfl⟩
  · exact ⟨[97], by simp, 2, by decide, rfl⟩

/-- S-C09a witness store: key "a" written only at version 9, key "a.!" written at version 3. -/
def witnessA : DB := [(getKey [97, 46, 33] 3, [120]), (getKey [97] 9, [121])]

theorem witnessA_wf : WF [[97], [97, 46, 33]] witnessA := by
  refine ⟨by decide, ?_⟩
  intro e he
  simp only [witnessA, List.mem_cons, List.not_mem_nil, or_false] at he
  rcases he with h | h <;> subst h
  · exact ⟨[97, 46, 33], by simp, 3, by decide, rfl⟩
  · exact ⟨[97], by simp, 9, by decide, rfl⟩

/-- non-vacuity of the bridge: the S-C09a store is a small sorted store and the seek of
`GetV("a", 5)` lands on the record of "a.!" in both models. -/
example :
    Sorted witnessA ∧ SmallDB witnessA ∧ Small [97] ∧
    seekRev witnessA (keyPrefix [97]) (getKey [97] 5) = some (getKey [97, 46, 33] 3, [120]) := by
  decide

/-- REFUTED: the full statement is false of the model (and of the code: corpus/C09/s_c09a.ops):
`GetV("a", 5)` returns the value written under "a.!" although "a" has no write at or below 5. -/
theorem getV_correct_full_false : ¬ getV_correct_full := by
  intro h
  have := h [[97], [97, 46, 33]] witnessA [97] 5 witnessA_wf (by simp) (by decide)
  revert this
  decide

/-- the same statement for separator-free key sets but stores that may hold empty values. -/
def getV_correct_sepfree : Prop :=
  ∀ (K : List Bytes) (db : DB) (k : Bytes) (v : Nat),
    WF K db → k ∈ K → v < 2 ^ 63 → SepFree K → getV db k v = specResult db k v

/-- S-C09c witness store: "a" = "y" at version 0, "a" = empty value at version 1. -/
def witnessC : DB := [(getKey [97] 0, [121]), (getKey [97] 1, [])]

theorem witnessC_wf : WF [[97]] witnessC := by
  refine ⟨by decide, ?_⟩
  intro e he
  simp only [witnessC, List.mem_cons, List.not_mem_nil, or_false] at he
  rcases he with h | h <;> subst h
  · exact ⟨[97], by simp, 0, by decide, rfl⟩
  · exact ⟨[97], by simp, 1, by decide, rfl⟩

/-- REFUTED: without `NoEmpty` the statement is false even for a single key
(corpus/C09/s_c09c.ops): the version that stored the empty value is skipped and the older value
is returned. -/
theorem getV_correct_sepfree_false : ¬ getV_correct_sepfree := by
  intro h
  have := h [[97]] witnessC [97] 1 witnessC_wf (by simp) (by decide) (by decide)
  revert this
  decide

/-! ### 3. histories: what AddMVCC / DelMVCC keep invariant -/

/-- adding version `n` (in order: every record so far is below `n`) keeps the store well formed,
keeps the versions in order and stores no empty value if none is written. -/
theorem applyAdd_wf (K : List Bytes) (db : DB) (n : Nat) (kvs : List (Bytes × Bytes))
    (hwf : WF K db) (hb : Below n db) (hn : n < 2 ^ 63) (hk : ∀ kv ∈ kvs, kv.1 ∈ K) :
    WF K (applyAdd db n kvs) ∧ Below (n + 1) (applyAdd db n kvs) ∧
      (NoEmpty db → (∀ kv ∈ kvs, kv.2 ≠ []) → NoEmpty (applyAdd db n kvs)) := by
  refine ⟨⟨sorted_applyAdd db n kvs hwf.1, ?_⟩, ?_, ?_⟩
  · intro e he
    rcases mem_applyAdd db n kvs e he with h | ⟨kv, hkv, h⟩
    · exact hwf.2 e h
    · subst h; exact ⟨kv.1, hk kv hkv, n, hn, rfl⟩
  · intro e he
    rcases mem_applyAdd db n kvs e he with h | ⟨kv, hkv, h⟩
    · obtain ⟨k, i, hi, hkey⟩ := hb e h
      exact ⟨k, i, by omega, hkey⟩
    · subst h; exact ⟨kv.1, n, by omega, rfl⟩
  · intro hne hv e he
    rcases mem_applyAdd db n kvs e he with h | ⟨kv, hkv, h⟩
    · exact hne e h
    · subst h; exact hv kv hkv

/-- every version chain (versions 0, 1, 2, … added in order; removing from the top gives a shorter
chain by `delTop_restores`) yields a well-formed store whose records all come from writes of the
chain: the hypotheses `WF` / `NoEmpty` of the theorems above are met by every history. -/
theorem history_wf (K : List Bytes) (vs : List (List (Bytes × Bytes)))
    (hk : ∀ kvs ∈ vs, ∀ kv ∈ kvs, kv.1 ∈ K) (hlen : vs.length < 2 ^ 63) :
    WF K (dataOf vs) ∧ Below vs.length (dataOf vs) ∧
      ((∀ kvs ∈ vs, ∀ kv ∈ kvs, kv.2 ≠ []) → NoEmpty (dataOf vs)) ∧
      ∀ e ∈ dataOf vs, ∃ i kvs kv, vs[i]? = some kvs ∧ kv ∈ kvs ∧ e = (getKey kv.1 i, kv.2) := by
  have gen : ∀ (rest : List (List (Bytes × Bytes))) (db : DB) (n : Nat),
      WF K db → Below n db → n + rest.length < 2 ^ 63 → (∀ kvs ∈ rest, ∀ kv ∈ kvs, kv.1 ∈ K) →
      WF K (dataFrom db n rest) ∧ Below (n + rest.length) (dataFrom db n rest) ∧
      ((NoEmpty db ∧ ∀ kvs ∈ rest, ∀ kv ∈ kvs, kv.2 ≠ []) → NoEmpty (dataFrom db n rest)) ∧
      ∀ e ∈ dataFrom db n rest, e ∈ db ∨
        ∃ i kvs kv, rest[i]? = some kvs ∧ kv ∈ kvs ∧ e = (getKey kv.1 (n + i), kv.2) := by
    intro rest
    induction rest with
    | nil =>
      intro db n hwf hb _ _
      exact ⟨hwf, hb, fun h => h.1, fun e he => Or.inl he⟩
    | cons kvs rest ih =>
      intro db n hwf hb hn hk'
      have hstep := applyAdd_wf K db n kvs hwf hb (by simp at hn; omega) (hk' kvs List.mem_cons_self)
      have hrec := ih (applyAdd db n kvs) (n + 1) hstep.1 hstep.2.1 (by simp at hn ⊢; omega)
        (fun kvs' h => hk' kvs' (List.mem_cons_of_mem _ h))
      simp only [dataFrom]
      refine ⟨hrec.1, ?_, ?_, ?_⟩
      · have := hrec.2.1
        simp only [List.length_cons]
        rw [show n + (rest.length + 1) = n + 1 + rest.length by omega]
        exact this
      · rintro ⟨hne, hv⟩
        exact hrec.2.2.1 ⟨hstep.2.2 hne (hv kvs List.mem_cons_self),
          fun kvs' h => hv kvs' (List.mem_cons_of_mem _ h)⟩
      · intro e he
        rcases hrec.2.2.2 e he with h | ⟨i, kvs', kv, h1, h2, h3⟩
        · rcases mem_applyAdd db n kvs e h with h' | ⟨kv, hkv, h'⟩
          · left; exact h'
          · right; exact ⟨0, kvs, kv, rfl, hkv, by simpa using h'⟩
        · right
          refine ⟨i + 1, kvs', kv, by simpa using h1, h2, ?_⟩
          rw [h3, show n + 1 + i = n + (i + 1) by omega]
  have h := gen vs [] 0 ⟨by simp [Sorted], fun e he => by cases he⟩ (fun e he => by cases he)
    (by omega) hk
  have hb : Below vs.length (dataOf vs) := by
    have := h.2.1
    simp only [Nat.zero_add] at this
    exact this
  refine ⟨h.1, hb, fun hv => h.2.2.1 ⟨(fun e he => by cases he), hv⟩, ?_⟩
  intro e he
  rcases h.2.2.2 e he with h' | ⟨i, kvs, kv, h1, h2, h3⟩
  · cases h'
  · exact ⟨i, kvs, kv, h1, h2, by simpa using h3⟩

/-- versions in order ⇒ the next version is fresh. -/
theorem fresh_of_below (db : DB) (n : Nat) (hn : n < 2 ^ 63) (hb : Below n db) : Fresh n db := by
  intro e he k hkey
  obtain ⟨k', i, hi, hkey'⟩ := hb e he
  rw [hkey'] at hkey
  have := (getKey_inj k' k i n (by omega) hn hkey).2
  omega

/-- "Removing the top version restores every read to its result before that version was added":
`DelMVCC` of the version just added gives back the very same data region, hence every `GetV`
(for every key shape — no hypothesis on the keys). -/
theorem delTop_restores (db : DB) (n : Nat) (kvs : List (Bytes × Bytes)) (hfresh : Fresh n db) :
    applyDel (applyAdd db n kvs) n (kvs.map (·.1)) = db ∧
      ∀ k v, getV (applyDel (applyAdd db n kvs) n (kvs.map (·.1))) k v = getV db k v := by
  have h : applyDel (applyAdd db n kvs) n (kvs.map (·.1)) = db := by
    rw [applyDel_eq_filter]
    rw [applyAdd_filter db n kvs (fun key => (kvs.map (·.1)).all (fun k => key != getKey k n))]
    · apply List.filter_eq_self.2
      intro e he
      simp only [List.all_eq_true, List.mem_map, bne_iff_ne, ne_eq, forall_exists_index, and_imp]
      intro k kv _ hk
      subst hk
      exact hfresh e he kv.1
    · intro kv hkv
      simp only [List.all_eq_false, List.mem_map]
      exact ⟨kv.1, ⟨kv, hkv, rfl⟩, by simp⟩
  exact ⟨h, fun k v => by rw [h]⟩

/-- the same on the whole helper state: a successful `AddMVCC` of version `ver` followed by a
successful strict `DelMVCC` of it restores the data region. -/
theorem delTop_restores_state (s s1 s2 : State) (ver : Nat) (hash : Bytes) (prev : Option Bytes)
    (kvs : List (Bytes × Bytes)) (hfresh : Fresh ver s.data)
    (h1 : add s ver hash prev kvs = (s1, .ok)) (h2 : del s1 ver hash = (s2, .ok)) :
    s2.data = s.data := by
  have hs1 : s1.data = applyAdd s.data ver kvs ∧ assocGet s1.keyList ver = some (kvs.map (·.1)) := by
    unfold add at h1
    simp only at h1
    split at h1
    · split at h1
      · simp at h1
      · split at h1
        · simp at h1
        · split at h1
          · simp only [Prod.mk.injEq, and_true] at h1
            subst h1
            simp [assocGet, assocSet]
          · simp at h1
    · simp only [Prod.mk.injEq, and_true] at h1
      subst h1
      simp [assocGet, assocSet]
  unfold del at h2
  rw [hs1.2] at h2
  simp only at h2
  split at h2
  · simp at h2
  · split at h2
    · simp at h2
    · split at h2
      · simp at h2
      · split at h2
        · simp at h2
        · simp only [Prod.mk.injEq, and_true] at h2
          subst h2
          simp only
          rw [hs1.1]
          exact (delTop_restores s.data ver kvs hfresh).1

/-- non-vacuity: a fresh version over adversarial keys ("a", "a.!") is added and removed. -/
example :
    let db : DB := [(getKey [97, 46, 33] 0, [120]), (getKey [97] 1, [121])]
    Fresh 2 db ∧ applyAdd db 2 [([97], [5]), ([97, 46, 33], [6])] ≠ db := by
  refine ⟨?_, by decide⟩
  apply fresh_of_below _ 2 (by decide)
  intro e he
  simp only [List.mem_cons, List.not_mem_nil, or_false] at he
  rcases he with h | h <;> subst h
  · exact ⟨[97, 46, 33], 0, by decide, rfl⟩
  · exact ⟨[97], 1, by decide, rfl⟩

/-! ### 3b. MVCCIter: the "last" records -/

/-- `MVCCIter.AddMVCC` keeps the last records right, for every key shape and every value: after
adding version `n` (in order) the last record of every key is the value of its newest version. -/
theorem iadd_keeps_last (db last : DB) (n : Nat) (kvs : List (Bytes × Bytes))
    (hb : Below n db) (hn : n + 1 < 2 ^ 63) (hok : LastOK last db n) :
    LastOK (lastAdd last kvs) (applyAdd db n kvs) (n + 1) := by
  intro k
  have hn' : n < 2 ^ 63 := by omega
  have hl : get (lastAdd last kvs) k = match lastOf kvs k with | some v => some v | none => get last k :=
    get_foldl_put kvs last k
  have htop : get (applyAdd db n kvs) (getKey k (n + 1)) = none := by
    rw [get_applyAdd_other db n (n + 1) kvs k hn' hn (by omega)]
    exact get_none_of_below db n (n + 1) k hb hn (by omega)
  have hat : get (applyAdd db n kvs) (getKey k n) = match lastOf kvs k with | some v => some v | none => none := by
    rw [get_applyAdd_same, get_none_of_below db n n k hb hn' (Nat.le_refl _)]
    cases lastOf kvs k <;> rfl
  have hdbn : get db (getKey k n) = none := get_none_of_below db n n k hb hn' (Nat.le_refl _)
  rw [hl]
  simp only [specRead, htop]
  cases n with
  | zero =>
    simp only [specRead, hat]
    cases hlo : lastOf kvs k with
    | some v => rfl
    | none => simp only; rw [hok k]; simp only [specRead]; exact hdbn
  | succ m =>
    simp only [specRead, hat]
    cases hlo : lastOf kvs k with
    | some v => rfl
    | none =>
      simp only
      rw [hok k]
      simp only [specRead, hdbn]
      exact (specRead_applyAdd_older db (m + 1) kvs k hn' m (by omega)).symm

/-- FULL statement for the removal: `MVCCIter.DelMVCC` of the version just added succeeds and
leaves the last records right for the restored data region. -/
def idel_restores_last_full : Prop :=
  ∀ (K : List Bytes) (db last1 : DB) (n : Nat) (kvs : List (Bytes × Bytes)),
    WF K db → Below n db → n + 1 < 2 ^ 63 → (∀ kv ∈ kvs, kv.1 ∈ K) →
    LastOK last1 (applyAdd db n kvs) (n + 1) →
    ∃ last2, iterDelLast (applyAdd db n kvs) n (kvs.map (·.1)) last1 = .ok last2 ∧ LastOK last2 db n

/-- PARTIAL (added hypotheses: the removed version is not version 0; `SepFree K`; no empty values —
the two hypotheses under which the reads `GetV(key, n-1)` the removal makes are right). -/
theorem idel_restores_last_partial (K : List Bytes) (db last1 : DB) (n : Nat)
    (kvs : List (Bytes × Bytes)) (hwf : WF K db) (hb : Below n db) (hn : n + 1 < 2 ^ 63)
    (hk : ∀ kv ∈ kvs, kv.1 ∈ K) (hok : LastOK last1 (applyAdd db n kvs) (n + 1))
    (hn0 : n ≠ 0) (hsep : SepFree K) (hne : NoEmpty db) (hv : ∀ kv ∈ kvs, kv.2 ≠ []) :
    ∃ last2, iterDelLast (applyAdd db n kvs) n (kvs.map (·.1)) last1 = .ok last2 ∧ LastOK last2 db n := by
  have hn' : n < 2 ^ 63 := by omega
  obtain ⟨m, hm⟩ : ∃ m, n = m + 1 := ⟨n - 1, by omega⟩
  have hadd := applyAdd_wf K db n kvs hwf hb hn' hk
  have hne1 : NoEmpty (applyAdd db n kvs) := hadd.2.2 hne hv
  -- every read of the loop is right
  have hread : ∀ k ∈ kvs.map (·.1), getV (applyAdd db n kvs) k (n - 1) =
      match specRead db k (n - 1) with | some v => .val v | none => .notfound := by
    intro k hkm
    obtain ⟨kv, hkv, hkk⟩ := List.mem_map.1 hkm
    have hkK : k ∈ K := by rw [← hkk]; exact hk kv hkv
    rw [getV_correct_partial K _ k (n - 1) hadd.1 hkK (by omega) hsep hne1]
    unfold specResult
    rw [specRead_applyAdd_older db n kvs k hn' (n - 1) (by omega)]
    cases hs : specRead db k (n - 1) with
    | none => rfl
    | some v =>
      have hvne : v ≠ [] := by
        obtain ⟨i, _, hget, _⟩ := (specRead_spec db k (n - 1)).1 v hs
        exact hne _ ((get_eq_some_iff db hwf.1 _ _).1 hget)
      cases v with
      | nil => exact absurd rfl hvne
      | cons _ _ => rfl
  obtain ⟨last2, h1, h2⟩ := iterDelLast_spec (applyAdd db n kvs) n hn0 (fun k => specRead db k (n - 1))
    (kvs.map (·.1)) last1 hread
  refine ⟨last2, h1, ?_⟩
  intro k
  have hdbn : get db (getKey k n) = none := get_none_of_below db n n k hb hn' (Nat.le_refl _)
  have hsn : specRead db k n = specRead db k (n - 1) := by
    subst hm
    simp only [specRead, hdbn, Nat.add_sub_cancel]
  rw [h2 k, hsn]
  by_cases hkm : k ∈ kvs.map (·.1)
  · simp [hkm]
  · simp only [hkm, if_false]
    rw [hok k]
    have hlo : lastOf kvs k = none := (lastOf_none_iff kvs k).2 hkm
    have htop : get (applyAdd db n kvs) (getKey k (n + 1)) = none := by
      rw [get_applyAdd_other db n (n + 1) kvs k hn' hn (by omega)]
      exact get_none_of_below db n (n + 1) k hb hn (by omega)
    have hat : get (applyAdd db n kvs) (getKey k n) = none := by
      rw [get_applyAdd_same, hlo]; exact hdbn
    subst hm
    simp only [specRead, htop, hat, Nat.add_sub_cancel]
    exact specRead_applyAdd_older db (m + 1) kvs k hn' m (by omega)

theorem lastOK_empty : LastOK [] [] 0 := by
  intro k; rfl

/-- REFUTED (S-C09d): removing version 0 leaves the last records of its keys (the loop is skipped
for `version = 0`).  corpus/C09/s_c09d.ops. -/
theorem idel_restores_last_full_false_version0 : ¬ idel_restores_last_full := by
  intro h
  have hl := iadd_keeps_last [] [] 0 [([97], [120])] (fun e he => by cases he) (by decide) lastOK_empty
  obtain ⟨last2, h1, h2⟩ := h [[97]] [] (lastAdd [] [([97], [120])]) 0 [([97], [120])]
    ⟨by decide, fun e he => by cases he⟩ (fun e he => by cases he) (by decide)
    (by intro kv hkv; simp only [List.mem_singleton] at hkv; subst hkv; simp) hl
  have hcomp : iterDelLast (applyAdd [] 0 [([97], [120])]) 0 ([([97], [120])].map (·.1))
      (lastAdd [] [([97], [120])]) = .ok [([97], [120])] := by decide
  rw [hcomp] at h1
  have hl2 : last2 = [([97], [120])] := by
    cases h1; rfl
  have := h2 [97]
  rw [hl2] at this
  revert this
  decide

/-- REFUTED (S-C09a through the removal): with key "a.!" stored at version 0, adding and removing
version 1 = {a} restores the last record of "a" from the record of "a.!".
corpus/C09/s_c09a_iter.ops. -/
theorem idel_restores_last_full_false_foreign : ¬ idel_restores_last_full := by
  intro h
  have hl0 := iadd_keeps_last [] [] 0 [([97, 46, 33], [120])] (fun e he => by cases he) (by decide) lastOK_empty
  have hb1 : Below 1 (applyAdd [] 0 [([97, 46, 33], [120])]) :=
    (applyAdd_wf [[97], [97, 46, 33]] [] 0 [([97, 46, 33], [120])] ⟨by decide, fun e he => by cases he⟩
      (fun e he => by cases he) (by decide)
      (by intro kv hkv; simp only [List.mem_singleton] at hkv; subst hkv; simp)).2.1
  have hwf1 : WF [[97], [97, 46, 33]] (applyAdd [] 0 [([97, 46, 33], [120])]) :=
    (applyAdd_wf [[97], [97, 46, 33]] [] 0 [([97, 46, 33], [120])] ⟨by decide, fun e he => by cases he⟩
      (fun e he => by cases he) (by decide)
      (by intro kv hkv; simp only [List.mem_singleton] at hkv; subst hkv; simp)).1
  have hl1 := iadd_keeps_last _ _ 1 [([97], [121])] hb1 (by decide) hl0
  obtain ⟨last2, h1, h2⟩ := h [[97], [97, 46, 33]] _ _ 1 [([97], [121])] hwf1 hb1 (by decide)
    (by intro kv hkv; simp only [List.mem_singleton] at hkv; subst hkv; simp) hl1
  have hcomp : iterDelLast (applyAdd (applyAdd [] 0 [([97, 46, 33], [120])]) 1 [([97], [121])]) 1
      ([([97], [121])].map (·.1)) (lastAdd (lastAdd [] [([97, 46, 33], [120])]) [([97], [121])])
      = .ok [([97], [120]), ([97, 46, 33], [120])] := by decide
  rw [hcomp] at h1
  have hl2 : last2 = [([97], [120]), ([97, 46, 33], [120])] := by
    cases h1; rfl
  have := h2 [97]
  rw [hl2] at this
  revert this
  decide

/-- non-vacuity of `idel_restores_last_partial`: separator-free keys, version 1 added on top of
version 0 and removed again; the last records go a=x,b=y → a=z,b=y → a=x,b=y. -/
example :
    let db : DB := applyAdd [] 0 [([97], [120]), ([98], [121])]
    SepFree [[97], [98]] ∧ NoEmpty db ∧
    iterDelLast (applyAdd db 1 [([97], [122])]) 1 [[97]] (lastAdd (lastAdd [] [([97], [120]), ([98], [121])]) [([97], [122])])
      = .ok [([97], [120]), ([98], [121])] := by
  decide

/-! ### 3c. StateDB.Get with MVCC enabled (`stateGet` = version of the state hash, then `GetV`) -/

theorem assocGet_set_self {β : Type} (l : List (Bytes × β)) (a : Bytes) (b : β) :
    assocGet (assocSet l a b) a = some b := by
  simp [assocGet, assocSet]

theorem assocGet_set_other {β : Type} (l : List (Bytes × β)) (a : Bytes) (b : β) (h : Bytes) (hne : h ≠ a) :
    assocGet (assocSet l a b) h = assocGet l h := by
  have h1 : (a == h) = false := by simpa using fun e => hne e.symm
  simp only [assocGet, assocSet, List.find?, h1, List.find?_filter]
  congr 2
  funext x
  by_cases hx : x.1 = h
  · simp [hx, hne]
  · simp [hx]

/-- A successful `AddMVCC(kvs, hash, prev, ver)` records `hash ↦ ver` — the version `StateDB` will
read at for that state hash — leaves the version of every other hash alone, and writes exactly the
data records of `kvs` at version `ver`. -/
theorem add_records_version (s s' : State) (ver : Nat) (hash : Bytes) (prev : Option Bytes)
    (kvs : List (Bytes × Bytes)) (h : add s ver hash prev kvs = (s', .ok)) :
    assocGet s'.verOf hash = some ver ∧ (∀ h', h' ≠ hash → assocGet s'.verOf h' = assocGet s.verOf h') ∧
      s'.data = applyAdd s.data ver kvs := by
  have fin : ∀ t : State, t = { s with data := applyAdd s.data ver kvs, verOf := assocSet s.verOf hash ver, hashAt := assocSet s.hashAt ver hash, keyList := assocSet s.keyList ver (kvs.map (·.1)) } →
      assocGet t.verOf hash = some ver ∧ (∀ h', h' ≠ hash → assocGet t.verOf h' = assocGet s.verOf h') ∧
        t.data = applyAdd s.data ver kvs := by
    intro t ht
    subst ht
    exact ⟨assocGet_set_self _ _ _, fun h' hne => assocGet_set_other _ _ _ h' hne, rfl⟩
  unfold add at h
  simp only at h
  split at h
  · split at h
    · simp at h
    · split at h
      · simp at h
      · split at h
        · simp only [Prod.mk.injEq, and_true] at h; exact fin s' h.symm
        · simp at h
  · simp only [Prod.mk.injEq, and_true] at h; exact fin s' h.symm

/-- FULL statement for the `StateDB.Get` observation point: a read through the state hash recorded
at version `v` answers the most recent write at a version ≤ `v` (an unknown hash: not-found). -/
def stateGet_correct_full : Prop :=
  ∀ (K : List Bytes) (s : State) (hash k : Bytes) (v : Nat),
    WF K s.data → k ∈ K → v < 2 ^ 63 → assocGet s.verOf hash = some v →
    stateGet s hash k = specResult s.data k v

/-- PARTIAL (same added hypotheses as `getV_correct_partial`: `SepFree K`, no empty values). -/
theorem stateGet_correct_partial (K : List Bytes) (s : State) (hash k : Bytes) (v : Nat)
    (hwf : WF K s.data) (hk : k ∈ K) (hv : v < 2 ^ 63) (hver : assocGet s.verOf hash = some v)
    (hsep : SepFree K) (hne : NoEmpty s.data) :
    stateGet s hash k = specResult s.data k v := by
  unfold stateGet
  rw [hver]
  exact getV_correct_partial K s.data k v hwf hk hv hsep hne

theorem stateGet_unknown_hash (s : State) (hash k : Bytes) (h : assocGet s.verOf hash = none) :
    stateGet s hash k = .notfound := by
  unfold stateGet; rw [h]

/-- A state hash keeps answering the same after newer versions were added: the specification
read at version `v < n` does not see the records of version `n` (so, with the theorem above, a
`StateDB` opened at an old state hash reads the old state). -/
theorem specResult_stable_under_add (db : DB) (n : Nat) (kvs : List (Bytes × Bytes)) (k : Bytes)
    (v : Nat) (hn : n < 2 ^ 63) (hv : v < n) :
    specResult (applyAdd db n kvs) k v = specResult db k v := by
  unfold specResult
  rw [specRead_applyAdd_older db n kvs k hn v hv]

/-- REFUTED (S-C09a through StateDB): on the store of `witnessA`, reading "a" through a state hash
recorded at version 5 returns the value of "a.!". -/
theorem stateGet_correct_full_false : ¬ stateGet_correct_full := by
  intro h
  have := h [[97], [97, 46, 33]] { data := witnessA, verOf := [([1], 5)] } [1] [97] 5 witnessA_wf
    (by simp) (by decide) (by decide)
  revert this
  decide

/-- non-vacuity: two versions added through `add` with their state hashes; the read through the
first hash sees version 0 only, the read through the second sees version 1. -/
example :
    let s1 := (add {} 0 [1] none [([97], [120])]).1
    let s2 := (add s1 1 [2] (some [1]) [([97], [121])]).1
    (add s1 1 [2] (some [1]) [([97], [121])]).2 = .ok ∧
    stateGet s2 [1] [97] = .val [120] ∧ stateGet s2 [2] [97] = .val [121] ∧ stateGet s2 [3] [97] = .notfound := by
  decide

/-! ### 4. garbage collection -/

theorem cutOf_getKey (k : Bytes) (i : Nat) : cutOf (getKey k i) = dataPrefix ++ k := by
  simp [cutOf, cutVersion_getKey]

/-- EXACTLY what `Trash(cut)` removes from a well-formed store (after repo commit 3f54487): a record
goes iff its version is at most the cut and the next greater record of the store is a record of
the same key (same `cutVersion`).  Everything else remains. -/
theorem trash_removes_iff (K : List Bytes) (db : DB) (cut : Nat) (e : Bytes × Bytes)
    (hwf : WF K db) (he : e ∈ db) :
    e ∉ trash db cut ↔
      (∃ front s back, db = front ++ e :: s :: back ∧ cutVersion s.1 = cutVersion e.1) ∧
      ∃ v, getVersion e.1 = some v ∧ v ≤ Int.ofNat cut := by
  have hcs : ∀ a ∈ db, ∃ k i, a.1 = getKey k i := fun a ha => by
    obtain ⟨k, _, i, _, h⟩ := hwf.2 a ha; exact ⟨k, i, h⟩
  have hc : ∀ a ∈ db.reverse, (cutVersion a.1).isSome := by
    intro a ha
    obtain ⟨k, i, h⟩ := hcs a (List.mem_reverse.1 ha)
    rw [h, cutVersion_getKey]; rfl
  have hdel : e ∉ trash db cut ↔ e.1 ∈ trashDels db cut := by
    unfold trash
    simp only [List.mem_filter, he, true_and, Bool.not_eq_true', List.contains_eq_mem,
      decide_eq_false_iff_not, Decidable.not_not]
  rw [hdel]
  unfold trashDels
  rw [trash_fold_exact cut db.reverse sentinel [] hc e.1]
  obtain ⟨ke, ie, hek⟩ := hcs e he
  constructor
  · rintro (h | ⟨l1, e', l2, hl, hk, hp, hv⟩)
    · cases h
    · have he' : e' ∈ db := List.mem_reverse.1 (by rw [hl]; simp)
      have hee : e' = e := key_unique db hwf.1 e' e he' he hk
      subst hee
      refine ⟨?_, hv⟩
      rcases snoc_cases l1 with h | ⟨l1', s, h⟩
      · subst h
        exfalso
        simp only [prevCut, List.getLast?_nil] at hp
        rw [hek, cutOf_getKey] at hp
        simp [sentinel, dataPrefix] at hp
      · subst h
        have hdb : db = l2.reverse ++ e' :: s :: l1'.reverse := by
          have := congrArg List.reverse hl
          simpa using this
        refine ⟨l2.reverse, s, l1'.reverse, hdb, ?_⟩
        have hs : s ∈ db := by rw [hdb]; simp
        obtain ⟨ks, is, hsk⟩ := hcs s hs
        have hp' : cutOf e'.1 = cutOf s.1 := by
          simpa [prevCut] using hp
        rw [hsk, hek, cutOf_getKey, cutOf_getKey] at hp'
        rw [hsk, hek, cutVersion_getKey, cutVersion_getKey, hp']
  · rintro ⟨⟨front, s, back, hdb, hcut⟩, hv⟩
    right
    refine ⟨back.reverse ++ [s], e, front.reverse, by rw [hdb]; simp, rfl, ?_, hv⟩
    have hs : s ∈ db := by rw [hdb]; simp
    obtain ⟨ks, is, hsk⟩ := hcs s hs
    simp only [prevCut, List.getLast?_append, List.getLast?_singleton, Option.some_or]
    unfold cutOf
    rw [hcut]

/-- "Collecting versions older than `cut` never removes a key's newest version nor any version
newer than `cut`" — for EVERY well-formed store, no hypothesis on the key shapes any more. -/
theorem trash_keeps_newest (K : List Bytes) (db : DB) (cut : Nat) (k : Bytes) (i : Nat) (val : Bytes)
    (hwf : WF K db) (hi : i < 2 ^ 63) (hmem : (getKey k i, val) ∈ db)
    (hkeep : cut < i ∨ ∀ j val', j < 2 ^ 63 → (getKey k j, val') ∈ db → j ≤ i) :
    (getKey k i, val) ∈ trash db cut := by
  apply Classical.byContradiction
  intro hnot
  obtain ⟨⟨front, s, back, hdb, hcut⟩, v, hv, hle⟩ := (trash_removes_iff K db cut _ hwf hmem).1 hnot
  simp only at hv hcut
  rw [getVersion_getKey k i hi] at hv
  simp only [Option.some.injEq] at hv
  subst hv
  have hicut : i ≤ cut := by simpa using hle
  have hs : s ∈ db := by rw [hdb]; simp
  obtain ⟨k', _, j, hj, hsk⟩ := hwf.2 s hs
  rw [hsk, cutVersion_getKey, cutVersion_getKey] at hcut
  have hkk : k' = k := List.append_cancel_left (Option.some.inj hcut)
  subst hkk
  have hlt : blt (getKey k' i) (getKey k' j) = true := by
    have hsd := hwf.1
    rw [hdb] at hsd
    have h2 := (List.pairwise_append.1 hsd).2.1
    have := (List.pairwise_cons.1 h2).1 s (by simp)
    rw [hsk] at this
    exact this
  have hji : i < j := by
    have hb : ble (getKey k' j) (getKey k' i) = false := by simpa [blt] using hlt
    by_cases hle' : j ≤ i
    · rw [(ble_getKey k' j i hj hi).2 hle'] at hb; cases hb
    · omega
  rcases hkeep with h | h
  · omega
  · have := h j s.2 hj (by rw [← hsk]; exact hs)
    omega

/-- S-C09b store: keys "a" and "a!" written once, at version 1. -/
def witnessB : DB := [(getKey [97, 33] 1, [120]), (getKey [97] 1, [121])]

theorem witnessB_wf : WF [[97], [97, 33]] witnessB := by
  refine ⟨by decide, ?_⟩
  intro e he
  simp only [witnessB, List.mem_cons, List.not_mem_nil, or_false] at he
  rcases he with h | h <;> subst h
  · exact ⟨[97, 33], by simp, 1, by decide, rfl⟩
  · exact ⟨[97], by simp, 1, by decide, rfl⟩

/-- REGRESSION WITNESS (S-C09b, fixed by repo commit 3f54487): the loop with the former
`HasPrefix` test removes the only version of "a!" as an "older version of a"; the loop as it is
now keeps it.  corpus/C09/s_c09b.ops replays the store on the code. -/
theorem old_trash_removes_newest :
    (getKey [97, 33] 1, [120]) ∈ witnessB ∧
    (getKey [97, 33] 1, [120]) ∉ trashOld witnessB 5 ∧
    (getKey [97, 33] 1, [120]) ∈ trash witnessB 5 ∧
    (getKey ([97, 46] ++ pad20 5) 0, [2]) ∈
      trashOld [(getKey [97] 5, [1]), (getKey ([97, 46] ++ pad20 5) 0, [2])] 7 ∧
    (getKey [97] 5, [1]) ∉ trashOld [(getKey [97] 5, [1]), (getKey ([97, 46] ++ pad20 5) 0, [2])] 7 ∧
    trash [(getKey [97] 5, [1]), (getKey ([97, 46] ++ pad20 5) 0, [2])] 7 =
      [(getKey [97] 5, [1]), (getKey ([97, 46] ++ pad20 5) 0, [2])] := by
  decide

/-- non-vacuity: prefix-related keys "a", "a!", "ab" with several versions; the collection at cut 1
removes exactly the version-0 and version-1 records of "a" (each is followed by a newer record of "a")
and nothing else. -/
example :
    let db : DB := [(getKey [97, 33] 0, [9]), (getKey [97] 0, [1]), (getKey [97] 1, [2]), (getKey [97] 3, [3]),
                    (getKey [97, 98] 0, [4])]
    Sorted db ∧ trash db 1 =
      [(getKey [97, 33] 0, [9]), (getKey [97] 3, [3]), (getKey [97, 98] 0, [4])] := by
  decide

end C09
