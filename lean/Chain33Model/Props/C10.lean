import Chain33Model.Model.C10
/-!
C10 — property theorems (work in progress).
-/
namespace C10

end C10
