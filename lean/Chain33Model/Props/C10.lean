import Chain33Model.Proofs.C10Multi
import Chain33Model.Proofs.C10JoinOps
/-!
C10 — Indexed tables keep rows and indexes consistent.  Property theorems only.

Vocabulary (Model/C10.lean): `run t ops` buffers operations in the table cache (`Table.Add/Replace/
Update/Del`), `saveKVs` is the kv list `Table.Save` returns, `applyKVs` writes it
(`util.SaveKVList`).  The specification is a map `Spec = pk → Option Row` with `specStep`/`specRun`
(Add fails exactly when the key is present …).  `Rep db m`: for every primary key without the '-'
separator the db holds exactly the encoding of `m pk` — the data record and one entry per index
under the row's value and under no other value (no stale, no missing entry).
-/
namespace C10
open C09 (Bytes get)

/-- FULL statement of C10 for one save: any buffered operation sequence answers like the map and
the save brings the db to the encoding of the map after the operations. -/
def multi_op_refines_full : Prop :=
  ∀ (db : TDB) (m : Spec) (ops : List Op),
    Rep db m → (∀ op ∈ ops, NoSep op.pk) →
    (run { db := db } ops).2 = (specRun m ops).2 ∧
    ∃ kvs, saveKVs (run { db := db } ops).1 = some kvs ∧ Rep (applyKVs db kvs) (specRun m ops).1

/-- If each primary key is touched at most once between two saves, the table behaves like the
map: every operation answers as the map does (Add fails exactly when the key is present, Update /
Del exactly when it is absent) and `Save` brings the db to the encoding of the map after the
operations — data records and every index, no stale and no missing entry. -/
theorem single_op_per_key_refines (db : TDB) (m : Spec) (ops : List Op)
    (hrep : Rep db m) (hns : ∀ op ∈ ops, NoSep op.pk) (hnd : (ops.map Op.pk).Nodup) :
    (run { db := db } ops).2 = (specRun m ops).2 ∧
    ∃ kvs, saveKVs (run { db := db } ops).1 = some kvs ∧ Rep (applyKVs db kvs) (specRun m ops).1 := by
  have hrun := run_miss db m ops { db := db } rfl (fun op hop => hrep op.pk (hns op hop)) hnd
    (by intro op _ e he; cases he)
  have hspec := specRun_nodup m ops hnd
  obtain ⟨_, hrows, hres⟩ := hrun
  constructor
  · rw [hres, hspec.1]
    apply List.map_congr_left
    intro op _
    exact rowOfSpec_res m op
  · have hsave : saveKVs (run { db := db } ops).1 =
        some (delDupKey ((rowsOf m ops).map rowKVs).flatten) := by
      unfold saveKVs
      rw [hrows]
      simp only [List.nil_append]
      rw [mapM_saveRow]
      · rfl
      · intro r hr
        simp only [rowsOf, List.mem_filterMap] at hr
        obtain ⟨op, _, hop⟩ := hr
        exact saveRow_rowOfSpec m op r hop
    refine ⟨_, hsave, ?_⟩
    intro p hp
    have hfinal := hspec.2 p
    cases hf : ops.find? (fun op => op.pk == p) with
    | none =>
      rw [hf] at hfinal
      apply repAtG_congr (get db) _ m _ p _ hfinal.symm (hrep p hp)
      intro key hk
      rw [get_applyKVs, lastW_delDupKey, lastW_rows m ops p key hp hk hns hnd, hf]
      rfl
    | some op =>
      rw [hf] at hfinal
      have hopp : op.pk = p := by simpa using List.find?_some hf
      have hopm : op ∈ ops := List.mem_of_find?_eq_some hf
      have hB := op_kvs_correct (get db) m op (hns op hopm) (hrep op.pk (hns op hopm))
      rw [hopp] at hB
      apply repAtG_congr _ _ _ _ p _ hfinal.symm hB
      intro key hk
      rw [get_applyKVs, lastW_delDupKey, lastW_rows m ops p key hp hk hns hnd, hf]

/-- the same save keeps the db sorted and made of table records of non-empty separator-free
primary keys (`Shape`) — the standing hypotheses of `listIndex_exact`. -/
theorem single_op_per_key_keeps_shape (db : TDB) (m : Spec) (ops : List Op)
    (hrep : Rep db m) (hns : ∀ op ∈ ops, NoSep op.pk) (hne : ∀ op ∈ ops, op.pk ≠ [])
    (hnd : (ops.map Op.pk).Nodup) (hs : C09.Sorted db) (hshape : Shape db) :
    ∀ kvs, saveKVs (run { db := db } ops).1 = some kvs →
      C09.Sorted (applyKVs db kvs) ∧ Shape (applyKVs db kvs) := by
  intro kvs hk
  have hrun := run_miss db m ops { db := db } rfl (fun op hop => hrep op.pk (hns op hop)) hnd
    (by intro op _ e he; cases he)
  obtain ⟨_, hrows, _⟩ := hrun
  have hsave : saveKVs (run { db := db } ops).1 =
      some (delDupKey ((rowsOf m ops).map rowKVs).flatten) := by
    unfold saveKVs
    rw [hrows]
    simp only [List.nil_append]
    rw [mapM_saveRow]
    · rfl
    · intro r hr
      simp only [rowsOf, List.mem_filterMap] at hr
      obtain ⟨op, _, hop⟩ := hr
      exact saveRow_rowOfSpec m op r hop
  rw [hsave] at hk
  have hkvs := (Option.some.inj hk).symm
  subst hkvs
  refine ⟨sorted_applyKVs db _ hs, ?_⟩
  intro e he
  rcases mem_applyKVs db _ e he with h | h
  · exact hshape e h
  · have h1 := mem_delDupKey _ _ h
    simp only [List.mem_flatten, List.mem_map] at h1
    obtain ⟨l, ⟨r, hr, hl⟩, hmem⟩ := h1
    subst hl
    simp only [rowsOf, List.mem_filterMap] at hr
    obtain ⟨op, hop, hrow⟩ := hr
    have hprim := rowOfSpec_primary m op r hrow
    rcases rowKVs_vals r e.1 e.2 hmem with h2 | ⟨ix, hix, x, h2, h3⟩
    · left; exact ⟨r.primary, h2⟩
    · right
      refine ⟨ix, hix, x, r.primary, by rw [hprim]; exact hns op hop, by rw [hprim]; exact hne op hop, ?_⟩
      exact Prod.ext h2 h3

/-- PARTIAL (added hypothesis `GoodRun m (fun _ => .fresh) ops`, a condition on the operation
sequence and the map at the last save only): several operations per key before one save are merged
correctly — every answer is the map's answer and the save brings the db to the encoding of the
map after the operations — as long as, for a key that was stored at the last save, nothing follows
a buffered Del (Update/Replace … followed by Del is included since repo commit 24b2bb6); for a key
that was not stored
(Add→Update, Add→Del, Add→Del→Add, Replace→Replace→Del …) there is no restriction. -/
theorem multi_op_refines_partial (db : TDB) (m : Spec) (ops : List Op)
    (hrep : Rep db m) (hns : ∀ op ∈ ops, NoSep op.pk ∧ op.pk ≠ []) (hgood : GoodRun m (fun _ => .fresh) ops) :
    (run { db := db } ops).2 = (specRun m ops).2 ∧
    ∃ kvs, saveKVs (run { db := db } ops).1 = some kvs ∧ Rep (applyKVs db kvs) (specRun m ops).1 := by
  obtain ⟨hres, fl', hinv⟩ := run_inv db m hrep ops { db := db } m (fun _ => .fresh) (inv_init db m) hns hgood
  exact ⟨hres, inv_save db m hrep _ _ fl' hinv⟩

/-- the same save keeps the db sorted and of table shape, for every good run (not only for
distinct keys). -/
theorem multi_op_keeps_shape (db : TDB) (m : Spec) (ops : List Op)
    (hrep : Rep db m) (hns : ∀ op ∈ ops, NoSep op.pk ∧ op.pk ≠ []) (hgood : GoodRun m (fun _ => .fresh) ops)
    (hs : C09.Sorted db) (hshape : Shape db) :
    ∀ kvs, saveKVs (run { db := db } ops).1 = some kvs →
      C09.Sorted (applyKVs db kvs) ∧ Shape (applyKVs db kvs) := by
  intro kvs hk
  obtain ⟨_, fl', hinv⟩ := run_inv db m hrep ops { db := db } m (fun _ => .fresh) (inv_init db m) hns hgood
  exact inv_shape db m _ _ fl' hinv hs hshape kvs hk

/-- HISTORIES: any sequence of batches, each a good run with respect to the map at its own last
save, each followed by `Save`: every answer of every batch is the map's answer, no Save fails, and
the final db encodes the final map (data and every index exact), sorted and of table shape — so
`listIndex_exact` applies after every save of the history. -/
theorem multi_save_refines (db : TDB) (m : Spec) (bs : List (List Op))
    (hrep : Rep db m) (hs : C09.Sorted db) (hshape : Shape db)
    (hns : ∀ b ∈ bs, ∀ op ∈ b, NoSep op.pk ∧ op.pk ≠ []) (hgood : GoodBatches m bs) :
    ∃ db', runSaves db bs = some (db', (specSaves m bs).2) ∧
      Rep db' (specSaves m bs).1 ∧ C09.Sorted db' ∧ Shape db' := by
  induction bs generalizing db m with
  | nil => exact ⟨db, rfl, hrep, hs, hshape⟩
  | cons b rest ih =>
    obtain ⟨hg1, hg2⟩ := hgood
    have hnb := hns b List.mem_cons_self
    obtain ⟨hres, kvs, hk, hrep'⟩ := multi_op_refines_partial db m b hrep hnb hg1
    obtain ⟨hs', hshape'⟩ := multi_op_keeps_shape db m b hrep hnb hg1 hs hshape kvs hk
    obtain ⟨db', h1, h2, h3, h4⟩ := ih (applyKVs db kvs) (specRun m b).1 hrep' hs' hshape'
      (fun b' hb' => hns b' (List.mem_cons_of_mem _ hb')) hg2
    refine ⟨db', ?_, h2, h3, h4⟩
    simp only [runSaves, hk, h1, specSaves, Option.map_some, hres]

/-! ### index lookups -/

/-- `ListIndex(index, value)` on a saved table returns exactly the present rows whose indexed field
equals the value — no stale and no missing row — and not-found exactly when there is none.
Hypotheses: the db encodes the map (`Rep`, what `single_op_per_key_refines` establishes), holds only
table records of non-empty separator-free primary keys (`Shape`), index values have the width of
the queried value and the value has no 0xff byte (so that the prefix scan is an equality scan). -/
theorem listIndex_exact (db : TDB) (m : Spec) (ix : Bytes × (Row → Bytes)) (val : Bytes) (asc : Bool)
    (hs : C09.Sorted db) (hrep : Rep db m) (hshape : Shape db) (hix : ix ∈ indexes)
    (hw : ∀ p r, m p = some r → (ix.2 r).length = val.length) (hff : ∀ b ∈ val, b < 255) :
    (∀ rs, listIndex db ix.1 ix.2 (some val) [] 0 asc = .rows rs →
        ∀ r, r ∈ rs ↔ ∃ p, NoSep p ∧ p ≠ [] ∧ m p = some r ∧ ix.2 r = val) ∧
    (listIndex db ix.1 ix.2 (some val) [] 0 asc = .notfound →
        ¬ ∃ p r, NoSep p ∧ p ≠ [] ∧ m p = some r ∧ ix.2 r = val) ∧
    listIndex db ix.1 ix.2 (some val) [] 0 asc ≠ .decode := by
  have hwin := index_window db m ix val hs hrep hshape hix hw hff
  -- the scanned sequence
  let ents := db.filter (fun e => C09.inRange (indexPrefix ix.1 ++ val) e.1)
  let S := if asc then ents else ents.reverse
  have hS : ∀ e, e ∈ S ↔ ∃ p r, NoSep p ∧ p ≠ [] ∧ m p = some r ∧ ix.2 r = val ∧
      e = (indexKey ix.1 val p, Val.pk p) := by
    intro e
    have : e ∈ S ↔ e ∈ ents := by
      simp only [S]; split <;> simp
    rw [this, ← hwin e]
    simp [ents, List.mem_filter]
  have hlive : (S.filter (fun e => !valEmpty e.2)) = S := by
    apply List.filter_eq_self.2
    intro e he
    obtain ⟨p, r, _, hpne, _, _, heq⟩ := (hS e).1 he
    subst heq
    cases p with
    | nil => exact absurd rfl hpne
    | cons _ _ => rfl
  have hrow : ∀ e ∈ S, ∀ p r, m p = some r → NoSep p → e = (indexKey ix.1 val p, Val.pk p) →
      rowOfVal db e.2 = some r := by
    intro e _ p r hm hp heq
    subst heq
    have hd := (hrep p hp).1
    rw [hm] at hd
    simp [rowOfVal, getData, hd]
  have hsome : ∀ v ∈ S.map (·.2), (rowOfVal db v).isSome := by
    intro v hv
    obtain ⟨e, he, hev⟩ := List.mem_map.1 hv
    obtain ⟨p, r, hp, _, hm, _, heq⟩ := (hS e).1 he
    rw [← hev, hrow e he p r hm hp heq]; rfl
  have hmem : ∀ r, r ∈ (S.map (·.2)).filterMap (rowOfVal db) ↔
      ∃ p, NoSep p ∧ p ≠ [] ∧ m p = some r ∧ ix.2 r = val := by
    intro r
    simp only [List.mem_filterMap, List.mem_map]
    constructor
    · rintro ⟨v, ⟨e, he, hev⟩, hr⟩
      obtain ⟨p, r', hp, hpne, hm, hv, heq⟩ := (hS e).1 he
      have := hrow e he p r' hm hp heq
      rw [hev, hr] at this
      have hrr : r = r' := Option.some.inj this
      subst hrr
      exact ⟨p, hp, hpne, hm, hv⟩
    · rintro ⟨p, hp, hpne, hm, hv⟩
      have he : (indexKey ix.1 val p, Val.pk p) ∈ S := (hS _).2 ⟨p, r, hp, hpne, hm, hv, rfl⟩
      exact ⟨Val.pk p, ⟨_, he, rfl⟩, hrow _ he p r hm hp rfl⟩
  -- evaluate the listing
  have heval : listIndex db ix.1 ix.2 (some val) [] 0 asc =
      if (S.map (·.2)).isEmpty then .notfound
      else collectRows db (S.map (·.2)) [] := by
    simp only [listIndex, List.isEmpty_nil, if_true, listKV]
    show (match (if ((S.filter (fun e => !valEmpty e.2)).map (·.2)).isEmpty then none
        else some ((S.filter (fun e => !valEmpty e.2)).map (·.2))) with
      | none => ListRes.notfound
      | some vals => collectRows db vals []) = _
    rw [hlive]
    split <;> rename_i h
    · split at h
      · rename_i h'; simp [h']
      · cases h
    · split at h
      · cases h
      · rename_i h'
        simp only [Option.some.injEq] at h
        subst h
        simp [h']
  rw [heval, collectRows_eq db _ [] hsome]
  simp only [List.reverse_nil, List.nil_append]
  by_cases hemp : (S.map (·.2)).isEmpty
  · -- nothing scanned
    simp only [hemp, if_true]
    refine ⟨fun rs h => (by cases h), fun _ => ?_, (by simp)⟩
    rintro ⟨p, r, hp, hpne, hm, hv⟩
    have := (hmem r).2 ⟨p, hp, hpne, hm, hv⟩
    have hnil : S.map (·.2) = [] := by simpa using hemp
    simp [hnil] at this
  · simp only [hemp]
    have hne : ¬ ((S.map (·.2)).filterMap (rowOfVal db)).isEmpty := by
      intro hE
      have hnil : (S.map (·.2)).filterMap (rowOfVal db) = [] := by simpa using hE
      cases hS' : S with
      | nil => simp [hS'] at hemp
      | cons e rest =>
        obtain ⟨p, r, hp, hpne, hm, hv, _⟩ := (hS e).1 (by rw [hS']; exact List.mem_cons_self)
        have := (hmem r).2 ⟨p, hp, hpne, hm, hv⟩
        rw [hnil] at this
        cases this
    simp only [hne]
    refine ⟨fun rs h r => ?_, fun h => (by simp at h), (by simp)⟩
    simp only [Bool.false_eq_true, if_false, ListRes.rows.injEq] at h
    subst h
    exact hmem r

/-! ### witnesses: several operations on one key before a save -/

/-- the empty db encodes the empty map. -/
theorem rep_empty : Rep [] (fun _ => none) := by
  intro p _
  exact ⟨rfl, fun _ _ _ => rfl⟩

def p0 : Bytes := [112, 48]
def v0 : Bytes := [118, 48]
def v1 : Bytes := [118, 49]
def r0 : Row := ⟨p0, v0, v0, [100]⟩

/-- db and map after `Add r0; Save` on the empty table (obtained from the theorem above, so that
`Rep db1 m1` holds by construction). -/
def db1 : TDB := applyKVs [] (addRow ⟨.add, p0, r0, none⟩)
def m1 : Spec := (specRun (fun _ => none) [.add r0]).1

theorem rep_db1 : Rep db1 m1 := by
  have h := single_op_per_key_refines [] (fun _ => none) [.add r0] rep_empty
    (by intro op hop; simp only [List.mem_singleton] at hop; subst hop; decide) (by simp)
  obtain ⟨_, kvs, hk, hrep⟩ := h
  have : kvs = addRow ⟨.add, p0, r0, none⟩ := by
    have h2 : saveKVs (run { db := [] } [.add r0]).1 = some (addRow ⟨.add, p0, r0, none⟩) := by decide
    rw [h2] at hk
    exact (Option.some.inj hk).symm
  rw [this] at hrep
  exact hrep

theorem shape_db1 : C09.Sorted db1 ∧ Shape db1 := by
  have h := single_op_per_key_keeps_shape [] (fun _ => none) [.add r0] rep_empty
    (by intro op hop; simp only [List.mem_singleton] at hop; subst hop; decide)
    (by intro op hop; simp only [List.mem_singleton] at hop; subst hop; decide) (by simp)
    (by simp [C09.Sorted]) (by intro e he; cases he)
    (addRow ⟨.add, p0, r0, none⟩) (by decide)
  exact h

/-- non-vacuity of `listIndex_exact`: on the saved one-row table the lookup f1 = "v0" returns the
row and the lookup f1 = "v1" is not-found. -/
example :
    Rep db1 m1 ∧ Shape db1 ∧ C09.Sorted db1 ∧
    listIndex db1 nameF1 Row.f1 (some v0) [] 0 true = .rows [r0] ∧
    listIndex db1 nameF1 Row.f1 (some v1) [] 0 false = .notfound :=
  ⟨rep_db1, shape_db1.2, shape_db1.1, by decide, by decide⟩

/-- non-vacuity of `single_op_per_key_refines`: a stored row, three distinct keys touched (one
update that changes an indexed field, one add, one failing del). -/
example :
    Rep db1 m1 ∧
    (run { db := db1 } [.update ⟨p0, v1, v0, [101]⟩, .add ⟨[112, 49], v0, v1, [102]⟩, .del [112, 50]]).2
      = [.ok, .ok, .notfound] :=
  ⟨rep_db1, by decide⟩

/-- non-vacuity of `multi_op_refines_partial`: on the one-row table, a good run with several
operations per key (Update→Replace on the stored key; Add→Update→Del→Add on a new key; a failing
Del), whose answers are not all `ok`; the two refuting runs below are NOT good. -/
example :
    GoodRun m1 (fun _ => .fresh)
      [.update ⟨p0, v1, v0, [101]⟩, .replace ⟨p0, v1, v1, [102]⟩, .add ⟨[112, 49], v0, v1, [103]⟩,
       .update ⟨[112, 49], v1, v1, [104]⟩, .del [112, 49], .add ⟨[112, 49], v0, v0, [105]⟩, .del [112, 50]] ∧
    (run { db := db1 }
      [.update ⟨p0, v1, v0, [101]⟩, .replace ⟨p0, v1, v1, [102]⟩, .add ⟨[112, 49], v0, v1, [103]⟩,
       .update ⟨[112, 49], v1, v1, [104]⟩, .del [112, 49], .add ⟨[112, 49], v0, v0, [105]⟩, .del [112, 50]]).2
      = [.ok, .ok, .ok, .ok, .ok, .ok, .notfound] ∧
    ¬ GoodRun m1 (fun _ => .fresh) [.del p0, .add r0] ∧
    ¬ GoodRun m1 (fun _ => .fresh) [.del p0, .replace ⟨p0, v0, v1, [100]⟩] := by
  decide

/-- non-vacuity of `multi_save_refines`: from the empty table, three saves — add p0; update p0
(f1 changed) then delete it in one batch; add p0 again together with p1 — all batches good, the
answers are the map's, and the run of the model goes through. -/
example :
    let bs : List (List Op) :=
      [[.add r0], [.update ⟨p0, v1, v0, [101]⟩, .del p0], [.add r0, .add ⟨[112, 49], v0, v1, [102]⟩, .update ⟨[112, 50], v0, v0, [1]⟩]]
    GoodBatches (fun _ => none) bs ∧
    (runSaves [] bs).map (·.2) = some [[.ok], [.ok, .ok], [.ok, .ok, .notfound]] ∧
    (specSaves (fun _ => none) bs).2 = [[.ok], [.ok, .ok], [.ok, .ok, .notfound]] := by
  refine ⟨⟨by decide, by decide, by decide, trivial⟩, by decide, by decide⟩

/-- REFUTED (S-C10a): `Del p0; Add p0` before a save — the map says the Add succeeds (the key is
absent), the table answers dup.  Replayed on the code by corpus/C10/s_c10a.ops. -/
theorem multi_op_refines_full_false_a : ¬ multi_op_refines_full := by
  intro h
  have := (h db1 m1 [.del p0, .add r0] rep_db1
    (by intro op hop; simp only [List.mem_cons, List.not_mem_nil, or_false] at hop
        rcases hop with h | h <;> subst h <;> decide)).1
  revert this
  decide

/-- REFUTED (S-C10b): `Del p0; Replace p0` (f2 changed, f1 unchanged) before a save — the saved db
has no f1 index entry for the present row.  corpus/C10/s_c10b.ops. -/
theorem multi_op_refines_full_false_b : ¬ multi_op_refines_full := by
  intro h
  obtain ⟨_, kvs, hk, hrep⟩ := h db1 m1 [.del p0, .replace ⟨p0, v0, v1, [100]⟩] rep_db1
    (by intro op hop; simp only [List.mem_cons, List.not_mem_nil, or_false] at hop
        rcases hop with h | h <;> subst h <;> decide)
  have h2 : saveKVs (run { db := db1 } [.del p0, .replace ⟨p0, v0, v1, [100]⟩]).1 = some
      [(dataKey p0, some (.row p0 ⟨p0, v0, v1, [100]⟩)), (indexKey nameF1 v0 p0, none),
       (indexKey nameF2 v0 p0, none), (indexKey nameF2 v1 p0, some (.pk p0))] := by decide
  rw [h2] at hk
  have hkvs := (Option.some.inj hk).symm
  subst hkvs
  have := (hrep p0 (by decide)).2 (nameF1, Row.f1) (by simp [indexes]) v0
  revert this
  decide

/-- REGRESSION WITNESS (S-C10c, fixed by repo commit 24b2bb6): `Update p0` (f1: v0 → v1) then the
FORMER `Del` (`delOld`: the Del record carried the new data) saved deletions for the new value only
and left the stored entry f1 = v0 behind; the `Del` as it is now deletes the stored entries, and
such runs are covered by `multi_op_refines_partial`.  corpus/C10/s_c10c.ops replays it on the code. -/
theorem old_del_leaves_stale_index :
    saveKVs (delOld (update { db := db1 } p0 ⟨p0, v1, v0, [100]⟩).1 p0).1 =
      some [(dataKey p0, none), (indexKey nameF1 v1 p0, none), (indexKey nameF2 v0 p0, none)] ∧
    get (applyKVs db1 [(dataKey p0, none), (indexKey nameF1 v1 p0, none), (indexKey nameF2 v0 p0, none)])
      (indexKey nameF1 v0 p0) = some (Val.pk p0) ∧
    saveKVs (del (update { db := db1 } p0 ⟨p0, v1, v0, [100]⟩).1 p0).1 =
      some [(dataKey p0, none), (indexKey nameF1 v0 p0, none), (indexKey nameF2 v0 p0, none)] ∧
    GoodRun m1 (fun _ => .fresh) [.update ⟨p0, v1, v0, [100]⟩, .del p0] := by
  decide

end C10

/-! ### join tables (Model/C10Join.lean) -/
namespace C10J
open C09 (Bytes get)
open C10 (NoSep)

/-- FULL statement for join tables, one operation between two saves: any operation on the left
table (its row naming an existing game) is answered like the map and the save brings left table,
right table and BOTH join indexes to the encoding of the maps (no stale, no missing join entry). -/
def join_single_op_refines_full : Prop :=
  ∀ (db : TDB) (s : JSpec) (op : LOp),
    JRep db s → Integrity s → NoSep op.tx →
    (match op with
     | .add _ g _ | .replace _ g _ | .update _ g _ => NoSep g ∧ s.R g ≠ none
     | .del _ => True) →
    (execL db initJT op).2 = (specL s op).2 ∧
    ∃ kvs jt2, saveJoin db (execL db initJT op).1 = .ok (kvs, jt2) ∧ JRep (applyKVs db kvs) (specL s op).1

/-- PARTIAL (added hypothesis inside `LOpOK`: rewriting an existing left row keeps its foreign key,
forced by S-C10d): one buffered operation on the left table — Add, Replace, Update of the non-key
index field, Del — is answered like the map, `JoinTable.Save` succeeds and brings the db to the
encoding of the maps after the operation: left records, right records and both join indexes
"addr#status" / "#status" hold exactly one entry per joined row under its current value. -/
theorem join_single_op_refines_partial (db : TDB) (s : JSpec) (op : LOp)
    (hrep : JRep db s) (hint : Integrity s) (htx : NoSep op.tx) (hok : LOpOK s op) :
    (execL db initJT op).2 = (specL s op).2 ∧
    ∃ kvs jt2, saveJoin db (execL db initJT op).1 = .ok (kvs, jt2) ∧ JRep (applyKVs db kvs) (specL s op).1 := by
  have hnothing : ∀ s', (∀ p, s'.L p = s.L p) → (∀ p, s'.R p = s.R p) →
      ∃ kvs jt2, saveJoin db initJT = .ok (kvs, jt2) ∧ JRep (applyKVs db kvs) s' :=
    fun s' h1 h2 => ⟨[], initJT, save_nothing db, jrep_congr db s s' h1 h2 hrep⟩
  cases op with
  | add tx g a =>
    simp only [LOp.tx] at htx
    obtain ⟨hg, hRne⟩ := hok
    obtain ⟨st, hR⟩ := Option.ne_none_iff_exists'.1 hRne
    have hdl := left_data_of_rep db s tx hrep htx
    have hdr := right_data_of_rep db s g st hrep hg hR
    cases hL : s.L tx with
    | none =>
      rw [hL] at hdl
      rw [exec_add_new db tx g a hdl]
      obtain ⟨kvs, jt2, h1, h2⟩ := save_add db tx g a st hdr
      simp only [specL, hL]
      exact ⟨trivial, kvs, jt2, h1, jrep_add db s tx g a st kvs hrep htx hL hR h2⟩
    | some la =>
      rw [hL] at hdl
      rw [exec_add_dup db tx g a _ hdl]
      simp only [specL, hL]
      exact ⟨trivial, hnothing s (fun _ => rfl) (fun _ => rfl)⟩
  | replace tx g a =>
    simp only [LOp.tx] at htx
    obtain ⟨hg, hRne, hfk⟩ := hok
    obtain ⟨st, hR⟩ := Option.ne_none_iff_exists'.1 hRne
    have hdl := left_data_of_rep db s tx hrep htx
    have hdr := right_data_of_rep db s g st hrep hg hR
    cases hL : s.L tx with
    | none =>
      rw [hL] at hdl
      rw [exec_replace_new db tx g a hdl]
      obtain ⟨kvs, jt2, h1, h2⟩ := save_add db tx g a st hdr
      simp only [specL]
      exact ⟨trivial, kvs, jt2, h1, jrep_add db s tx g a st kvs hrep htx hL hR h2⟩
    | some la =>
      obtain ⟨g0, a0⟩ := la
      have hg0 : g0 = g := hfk _ hL
      subst hg0
      rw [hL] at hdl
      rw [exec_replace_old db tx g0 a0 a hdl]
      simp only [specL]
      by_cases ha : a = a0
      · subst ha
        obtain ⟨jt2, h1⟩ := save_update_same db tx g0 a
        refine ⟨trivial, [], jt2, h1, jrep_congr db s _ ?_ (fun _ => rfl) hrep⟩
        intro p
        by_cases hp : p = tx
        · subst hp; simp [hL]
        · simp [hp]
      · obtain ⟨kvs, jt2, h1, h2⟩ := save_update db tx g0 a0 a st ha hdr
        exact ⟨trivial, kvs, jt2, h1, jrep_update db s tx g0 a0 a st kvs hrep htx hL hR ha h2⟩
  | update tx g a =>
    simp only [LOp.tx] at htx
    obtain ⟨hg, hRne, hfk⟩ := hok
    obtain ⟨st, hR⟩ := Option.ne_none_iff_exists'.1 hRne
    have hdl := left_data_of_rep db s tx hrep htx
    have hdr := right_data_of_rep db s g st hrep hg hR
    cases hL : s.L tx with
    | none =>
      rw [hL] at hdl
      rw [exec_update_missing db tx g a hdl]
      simp only [specL, hL]
      exact ⟨trivial, hnothing s (fun _ => rfl) (fun _ => rfl)⟩
    | some la =>
      obtain ⟨g0, a0⟩ := la
      have hg0 : g0 = g := hfk _ hL
      subst hg0
      rw [hL] at hdl
      rw [exec_update_old db tx g0 a0 a hdl]
      simp only [specL, hL]
      by_cases ha : a = a0
      · subst ha
        obtain ⟨jt2, h1⟩ := save_update_same db tx g0 a
        refine ⟨trivial, [], jt2, h1, jrep_congr db s _ ?_ (fun _ => rfl) hrep⟩
        intro p
        by_cases hp : p = tx
        · subst hp; simp [hL]
        · simp [hp]
      · obtain ⟨kvs, jt2, h1, h2⟩ := save_update db tx g0 a0 a st ha hdr
        exact ⟨trivial, kvs, jt2, h1, jrep_update db s tx g0 a0 a st kvs hrep htx hL hR ha h2⟩
  | del tx =>
    simp only [LOp.tx] at htx
    have hdl := left_data_of_rep db s tx hrep htx
    cases hL : s.L tx with
    | none =>
      rw [hL] at hdl
      rw [exec_del_missing db tx hdl]
      simp only [specL, hL]
      exact ⟨trivial, hnothing s (fun _ => rfl) (fun _ => rfl)⟩
    | some la =>
      obtain ⟨g0, a0⟩ := la
      obtain ⟨hg, hRne⟩ := hint tx _ hL
      obtain ⟨st, hR⟩ := Option.ne_none_iff_exists'.1 hRne
      have hdr := right_data_of_rep db s g0 st hrep hg hR
      rw [hL] at hdl
      rw [exec_del_old db tx g0 a0 hdl]
      obtain ⟨kvs, jt2, h1, h2⟩ := save_del db tx g0 a0 st hdr
      simp only [specL, hL]
      exact ⟨trivial, kvs, jt2, h1, jrep_del db s tx g0 a0 st kvs hrep htx hL hR h2⟩

/-! witnesses -/

def bG0 : Bytes := [103, 48]
def bG1 : Bytes := [103, 49]
def bG2 : Bytes := [103, 50]
def bT0 : Bytes := [116, 48]
def bT2 : Bytes := [116, 50]
def bT3 : Bytes := [116, 51]
def bA0 : Bytes := [97, 48]
def bA1 : Bytes := [97, 49]
def b2 : Bytes := [50]
def b3 : Bytes := [51]

theorem jrep_empty : JRep [] ⟨fun _ => none, fun _ => none⟩ := by
  refine ⟨?_, ?_, ?_⟩ <;> intro p _ <;> exact ⟨fun _ => rfl, fun _ _ _ => rfl⟩

/-- kvs of a committed left row (what `join_single_op_refines_partial` writes for an Add). -/
def kvLeft (tx g a st : Bytes) : List KV := kvAddJ tx a st ++ kvAddL tx g a

/-- S-C10d store: games g1 = 2, g2 = 3; left row t3 -> g1, addr a1. -/
def specD : JSpec :=
  ⟨fun p => if p = bT3 then some (bG1, bA1) else none,
   fun p => if p = bG2 then some b3 else if p = bG1 then some b2 else none⟩
def dbD : TDB := applyKVs (applyKVs (applyKVs [] (kvAddR bG1 b2)) (kvAddR bG2 b3)) (kvLeft bT3 bG1 bA1 b2)

theorem jrep_dbD : JRep dbD specD := by
  have h1 := jrep_put_right [] ⟨fun _ => none, fun _ => none⟩ bG1 b2 jrep_empty (by decide) rfl
    (by intro tx la h; cases h)
  have h2 := jrep_put_right _ _ bG2 b3 h1 (by decide) (by decide) (by intro tx la h; cases h)
  have h3 := jrep_add _ _ bT3 bG1 bA1 b2 (kvLeft bT3 bG1 bA1 b2) h2 (by decide) rfl (by decide)
    (fun _ _ => rfl)
  exact jrep_congr _ _ specD (fun p => by simp [specD]) (fun p => by simp [specD]) h3

/-- REFUTED (S-C10d): a single Replace that moves left row t3 from game g1 to game g2 with the same
addr leaves the join entry of t3 under status 2 in the db.  corpus/C10/join_s_c10d.ops. -/
theorem join_single_op_refines_full_false : ¬ join_single_op_refines_full := by
  intro h
  obtain ⟨_, kvs, jt2, hsave, hjrep⟩ := h dbD specD (.replace bT3 bG2 bA1) jrep_dbD
    (by
      intro tx la hL
      simp only [specD] at hL
      by_cases ht : tx = bT3
      · simp [ht] at hL; subst hL; exact ⟨by decide, by decide⟩
      · simp [ht] at hL)
    (by decide) ⟨by decide, by decide⟩
  have hk : (match saveJoin dbD (execL dbD initJT (.replace bT3 bG2 bA1)).1 with
      | .ok (k, _) => some k | .error _ => none) =
      some [(dataKey leftCfg bT3, some (.row bT3 (leftRow bT3 bG2 bA1))),
            (indexKey leftCfg nGameID bG1 bT3, none), (indexKey leftCfg nGameID bG2 bT3, some (.pk bT3))] := by
    decide
  rw [hsave] at hk
  simp only [Option.some.injEq] at hk
  subst hk
  have := ((repRow_join _ _ _).1 (hjrep.2.2 bT3 (by decide))).2 (joinKey [] b2)
  revert this
  decide

/-- FULL statement for a batch: right operations and left operations, every primary key of either
table touched at most once between two saves, referential integrity kept, foreign keys kept. -/
def join_batch_refines_full : Prop :=
  ∀ (db : TDB) (s : JSpec) (rops : List ROp) (lops : List LOp),
    JRep db s → Integrity s → (rops.map ROp.g).Nodup → (lops.map LOp.tx).Nodup →
    (∀ op ∈ rops, NoSep op.g ∧ ROpOK (specBatch s [] lops) op) →
    (∀ op ∈ lops, NoSep op.tx ∧ LOpOK (specBatch s rops []) op) →
    ∃ kvs jt2, saveJoin db (runBatch db initJT rops lops) = .ok (kvs, jt2) ∧
      JRep (applyKVs db kvs) (specBatch s rops lops)

/-- S-C10e store: game g0 = 2; left rows t0 -> g0 (addr a1), t2 -> g0 (addr a0). -/
def specE : JSpec :=
  ⟨fun p => if p = bT2 then some (bG0, bA0) else if p = bT0 then some (bG0, bA1) else none,
   fun p => if p = bG0 then some b2 else none⟩
def dbE : TDB :=
  applyKVs (applyKVs (applyKVs [] (kvAddR bG0 b2)) (kvLeft bT0 bG0 bA1 b2)) (kvLeft bT2 bG0 bA0 b2)

theorem jrep_dbE : JRep dbE specE := by
  have h1 := jrep_put_right [] ⟨fun _ => none, fun _ => none⟩ bG0 b2 jrep_empty (by decide) rfl
    (by intro tx la h; cases h)
  have h2 := jrep_add _ _ bT0 bG0 bA1 b2 (kvLeft bT0 bG0 bA1 b2) h1 (by decide) rfl (by decide) (fun _ _ => rfl)
  have h3 := jrep_add _ _ bT2 bG0 bA0 b2 (kvLeft bT2 bG0 bA0 b2) h2 (by decide) (by decide) (by decide)
    (fun _ _ => rfl)
  exact jrep_congr _ _ specE (fun p => by simp [specE]) (fun p => by simp [specE]) h3

/-- REFUTED (S-C10e): one save carrying the update of game g0 (2 → 3) and the deletion of left row
t2 that names g0 writes a join entry for the deleted row under status 3.
corpus/C10/join_s_c10e.ops. -/
theorem join_batch_refines_full_false : ¬ join_batch_refines_full := by
  intro h
  obtain ⟨kvs, jt2, hsave, hjrep⟩ := h dbE specE [.replace bG0 b3] [.del bT2] jrep_dbE
    (by
      intro tx la hL
      simp only [specE] at hL
      by_cases h2 : tx = bT2
      · simp [h2] at hL; subst hL; exact ⟨by decide, by decide⟩
      · by_cases h0 : tx = bT0
        · simp [h2, h0] at hL
          have : bT0 ≠ bT2 := by decide
          simp [this] at hL; subst hL; exact ⟨by decide, by decide⟩
        · simp [h2, h0] at hL)
    (by decide) (by decide)
    (by intro op hop; simp only [List.mem_singleton] at hop; subst hop; exact ⟨by decide, trivial⟩)
    (by intro op hop; simp only [List.mem_singleton] at hop; subst hop; exact ⟨by decide, trivial⟩)
  have hk : ((match saveJoin dbE (runBatch dbE initJT [.replace bG0 b3] [.del bT2]) with
      | .ok (k, _) => some k | .error _ => none).map
        (fun k => overlay (lastW k (indexKey joinCfg jS (joinKey [] b3) bT2)) none)) = some (some (.pk bT2)) := by
    decide
  rw [hsave] at hk
  simp only [Option.map_some, Option.some.injEq] at hk
  have := ((repRow_join _ _ _).1 (hjrep.2.2 bT2 (by decide))).2 (joinKey [] b3)
  rw [get_applyKVs] at this
  have hdb : get dbE (indexKey joinCfg jS (joinKey [] b3) bT2) = none := by decide
  rw [hdb, hk] at this
  revert this
  decide

/-- non-vacuity of `join_single_op_refines_partial`: on the S-C10e store (one game named by two left
rows) the hypotheses hold for an Update of the addr of t0, a Del of t2 and an Add of t3. -/
example :
    JRep dbE specE ∧ LOpOK specE (.update bT0 bG0 bA0) ∧ LOpOK specE (.add bT3 bG0 bA1) ∧
    (execL dbE initJT (.update bT0 bG0 bA0)).2 = .ok ∧ (execL dbE initJT (.add bT0 bG0 bA0)).2 = .dup := by
  refine ⟨jrep_dbE, ⟨by decide, by decide, ?_⟩, ⟨by decide, by decide⟩, by decide, by decide⟩
  intro la hL
  have : specE.L bT0 = some (bG0, bA1) := by decide
  rw [this] at hL
  cases hL; rfl

end C10J
