import Chain33Model.Proofs.C10
/-!
C10 — Indexed tables keep rows and indexes consistent.  Property theorems only.

Vocabulary (Model/C10.lean): `run t ops` buffers operations in the table cache (`Table.Add/Replace/
Update/Del`), `saveKVs` is the kv list `Table.Save` returns, `applyKVs` writes it
(`util.SaveKVList`).  The specification is a map `Spec = pk → Option Row` with `specStep`/`specRun`
(Add fails exactly when the key is present …).  `Rep db m`: for every primary key without the '-'
separator the db holds exactly the encoding of `m pk` — the data record and one entry per index
under the row's value and under no other value (no stale, no missing entry).
-/
namespace C10
open C09 (Bytes get)

/-- FULL statement of C10 for one save: any buffered operation sequence answers like the map and
the save brings the db to the encoding of the map after the operations. -/
def multi_op_refines_full : Prop :=
  ∀ (db : TDB) (m : Spec) (ops : List Op),
    Rep db m → (∀ op ∈ ops, NoSep op.pk) →
    (run { db := db } ops).2 = (specRun m ops).2 ∧
    ∃ kvs, saveKVs (run { db := db } ops).1 = some kvs ∧ Rep (applyKVs db kvs) (specRun m ops).1

/-- If each primary key is touched at most once between two saves, the table behaves like the
map: every operation answers as the map does (Add fails exactly when the key is present, Update /
Del exactly when it is absent) and `Save` brings the db to the encoding of the map after the
operations — data records and every index, no stale and no missing entry. -/
theorem single_op_per_key_refines (db : TDB) (m : Spec) (ops : List Op)
    (hrep : Rep db m) (hns : ∀ op ∈ ops, NoSep op.pk) (hnd : (ops.map Op.pk).Nodup) :
    (run { db := db } ops).2 = (specRun m ops).2 ∧
    ∃ kvs, saveKVs (run { db := db } ops).1 = some kvs ∧ Rep (applyKVs db kvs) (specRun m ops).1 := by
  have hrun := run_miss db m ops { db := db } rfl (fun op hop => hrep op.pk (hns op hop)) hnd
    (by intro op _ e he; cases he)
  have hspec := specRun_nodup m ops hnd
  obtain ⟨_, hrows, hres⟩ := hrun
  constructor
  · rw [hres, hspec.1]
    apply List.map_congr_left
    intro op _
    exact rowOfSpec_res m op
  · have hsave : saveKVs (run { db := db } ops).1 =
        some (delDupKey ((rowsOf m ops).map rowKVs).flatten) := by
      unfold saveKVs
      rw [hrows]
      simp only [List.nil_append]
      rw [mapM_saveRow]
      · rfl
      · intro r hr
        simp only [rowsOf, List.mem_filterMap] at hr
        obtain ⟨op, _, hop⟩ := hr
        exact saveRow_rowOfSpec m op r hop
    refine ⟨_, hsave, ?_⟩
    intro p hp
    have hfinal := hspec.2 p
    cases hf : ops.find? (fun op => op.pk == p) with
    | none =>
      rw [hf] at hfinal
      apply repAtG_congr (get db) _ m _ p _ hfinal.symm (hrep p hp)
      intro key hk
      rw [get_applyKVs, lastW_delDupKey, lastW_rows m ops p key hp hk hns hnd, hf]
      rfl
    | some op =>
      rw [hf] at hfinal
      have hopp : op.pk = p := by simpa using List.find?_some hf
      have hopm : op ∈ ops := List.mem_of_find?_eq_some hf
      have hB := op_kvs_correct (get db) m op (hns op hopm) (hrep op.pk (hns op hopm))
      rw [hopp] at hB
      apply repAtG_congr _ _ _ _ p _ hfinal.symm hB
      intro key hk
      rw [get_applyKVs, lastW_delDupKey, lastW_rows m ops p key hp hk hns hnd, hf]

/-! ### witnesses: several operations on one key before a save -/

/-- the empty db encodes the empty map. -/
theorem rep_empty : Rep [] (fun _ => none) := by
  intro p _
  exact ⟨rfl, fun _ _ _ => rfl⟩

def p0 : Bytes := [112, 48]
def v0 : Bytes := [118, 48]
def v1 : Bytes := [118, 49]
def r0 : Row := ⟨p0, v0, v0, [100]⟩

/-- db and map after `Add r0; Save` on the empty table (obtained from the theorem above, so that
`Rep db1 m1` holds by construction). -/
def db1 : TDB := applyKVs [] (addRow ⟨.add, p0, r0, none⟩)
def m1 : Spec := (specRun (fun _ => none) [.add r0]).1

theorem rep_db1 : Rep db1 m1 := by
  have h := single_op_per_key_refines [] (fun _ => none) [.add r0] rep_empty
    (by intro op hop; simp only [List.mem_singleton] at hop; subst hop; decide) (by simp)
  obtain ⟨_, kvs, hk, hrep⟩ := h
  have : kvs = addRow ⟨.add, p0, r0, none⟩ := by
    have h2 : saveKVs (run { db := [] } [.add r0]).1 = some (addRow ⟨.add, p0, r0, none⟩) := by decide
    rw [h2] at hk
    exact (Option.some.inj hk).symm
  rw [this] at hrep
  exact hrep

/-- non-vacuity of `single_op_per_key_refines`: a stored row, three distinct keys touched (one
update that changes an indexed field, one add, one failing del). -/
example :
    Rep db1 m1 ∧
    (run { db := db1 } [.update ⟨p0, v1, v0, [101]⟩, .add ⟨[112, 49], v0, v1, [102]⟩, .del [112, 50]]).2
      = [.ok, .ok, .notfound] :=
  ⟨rep_db1, by decide⟩

/-- REFUTED (S-C10a): `Del p0; Add p0` before a save — the map says the Add succeeds (the key is
absent), the table answers dup.  Replayed on the code by corpus/C10/s_c10a.ops. -/
theorem multi_op_refines_full_false_a : ¬ multi_op_refines_full := by
  intro h
  have := (h db1 m1 [.del p0, .add r0] rep_db1
    (by intro op hop; simp only [List.mem_cons, List.not_mem_nil, or_false] at hop
        rcases hop with h | h <;> subst h <;> decide)).1
  revert this
  decide

/-- REFUTED (S-C10b): `Del p0; Replace p0` (f2 changed, f1 unchanged) before a save — the saved db
has no f1 index entry for the present row.  corpus/C10/s_c10b.ops. -/
theorem multi_op_refines_full_false_b : ¬ multi_op_refines_full := by
  intro h
  obtain ⟨_, kvs, hk, hrep⟩ := h db1 m1 [.del p0, .replace ⟨p0, v0, v1, [100]⟩] rep_db1
    (by intro op hop; simp only [List.mem_cons, List.not_mem_nil, or_false] at hop
        rcases hop with h | h <;> subst h <;> decide)
  have h2 : saveKVs (run { db := db1 } [.del p0, .replace ⟨p0, v0, v1, [100]⟩]).1 = some
      [(dataKey p0, some (.row p0 ⟨p0, v0, v1, [100]⟩)), (indexKey nameF1 v0 p0, none),
       (indexKey nameF2 v0 p0, none), (indexKey nameF2 v1 p0, some (.pk p0))] := by decide
  rw [h2] at hk
  have hkvs := (Option.some.inj hk).symm
  subst hkvs
  have := (hrep p0 (by decide)).2 (nameF1, Row.f1) (by simp [indexes]) v0
  revert this
  decide

/-- REFUTED (S-C10c): `Update p0` (f1 changed) then `Del p0` before a save — the old f1 index entry
stays in the db although the row is gone.  corpus/C10/s_c10c.ops. -/
theorem multi_op_refines_full_false_c : ¬ multi_op_refines_full := by
  intro h
  obtain ⟨_, kvs, hk, hrep⟩ := h db1 m1 [.update ⟨p0, v1, v0, [100]⟩, .del p0] rep_db1
    (by intro op hop; simp only [List.mem_cons, List.not_mem_nil, or_false] at hop
        rcases hop with h | h <;> subst h <;> decide)
  have h2 : saveKVs (run { db := db1 } [.update ⟨p0, v1, v0, [100]⟩, .del p0]).1 = some
      [(dataKey p0, none), (indexKey nameF1 v1 p0, none), (indexKey nameF2 v0 p0, none)] := by decide
  rw [h2] at hk
  have hkvs := (Option.some.inj hk).symm
  subst hkvs
  have := (hrep p0 (by decide)).2 (nameF1, Row.f1) (by simp [indexes]) v0
  revert this
  decide

end C10
