import Chain33Model.Proofs.C11
import Chain33Model.Proofs.C11Local
import Chain33Model.Proofs.C11Block
/-!
C11 — failed transactions leave only their fee behind.  Property theorems only.

`StateDB.SEq` (Proofs/C11) is observational equivalence of two StateDBs; `SEq.runS_eq` shows it is a
bisimulation, so the theorems below conclude with "every later sequence of StateDB operations
(`runS`: get / set / begin / commit / rollback / startTx — everything later transactions can do)
returns the same reads".
-/
namespace C11
open StateDB
open C12 (Bytes)

/-- **state_rollback_exact** — a transaction that fails during block execution (its receipt carries
an error log) leaves, in its receipt, exactly the KVs of the fee-only transaction, and every later
StateDB read — under any later sequence of operations — returns what it returns in the run where
the transaction only paid its fee (`feeOnly tx`: same sender, fee and executor, fails at once).
Holds from ForkExecRollback on (before it there is no db transaction to roll back). -/
theorem state_rollback_exact (env : Env) (hfr : env.forkExecRollback = true)
    (st : St) (tx : Tx) (r : Receipt) (obs : List Obs) (st' : St)
    (h : execTx env st tx = .done [r] [obs] st') (hf : r.failed = true) :
    ∃ rF stF, execTx env st (feeOnly tx) = .done [rF] [[]] stF ∧ rF.kv = r.kv ∧ rF.ty = r.ty ∧
      ∀ ops, runS st'.sdb ops = runS stF.sdb ops := by
  have he : (feeOnly tx).execer = tx.execer := rfl
  have hfee : execFee env st (feeOnly tx) = execFee env st tx := rfl
  unfold execTx at h ⊢
  rw [he, hfee]
  split at h
  · -- executor name not allowed: both runs take the same path
    rename_i hname
    simp only [hname, if_true]
    injection h with h1 h2 h3
    injection h1 with h1 _
    subst h1; subst h3
    exact ⟨_, _, rfl, rfl, rfl, fun _ => rfl⟩
  · rename_i hname
    simp only [hname, if_false]
    cases hfe : execFee env st tx with
    | panic => rw [hfe] at h; cases h
    | err e st1 =>
      rw [hfe] at h
      simp only at h ⊢
      injection h with h1 h2 h3
      injection h1 with h1 _
      subst h1; subst h3
      exact ⟨_, _, rfl, rfl, rfl, fun _ => rfl⟩
    | ok feelog st1 =>
      rw [hfe] at h
      simp only at h ⊢
      have hbegin : (st1.begin env).sdb.intx = true := by simp [St.begin, hfr, StateDB.begin]
      have hp0 : Pres (st1.begin env).sdb (st1.begin env).sdb := Pres.refl hbegin
      cases hA : execTxOne env (st1.begin env) feelog tx with
      | blockPanic => rw [hA] at h; cases h
      | ok r2 st2 obs2 =>
        rw [hA] at h
        simp only at h
        injection h with h1 _ _
        injection h1 with h1 _
        subst h1
        have := execTxOne_ok_not_failed env _ feelog tx _ _ _ (execFee_ok_not_failed env st tx feelog st1 hfe) hA
        rw [this] at hf; cases hf
      | failed r2 st2 obs2 =>
        rw [hA] at h
        simp only at h
        injection h with h1 _ h3
        injection h1 with h1 _
        subst h1; subst h3
        -- the failing transaction ran on a synthetic driver
        cases hd : loadDriver env tx.execer with
        | none =>
          obtain ⟨_, _, hok⟩ := execTxOne_none_ok env (st1.begin env) feelog tx hd
          rw [hok] at hA; cases hA
        | some d =>
          obtain ⟨stX, hB⟩ := execTxOne_feeOnly env (st1.begin env) feelog tx d hd
          rw [hB]
          simp only
          obtain ⟨e, hr⟩ := execTxOne_failed_shape env _ feelog tx _ _ _ hA
          refine ⟨_, _, rfl, by rw [hr]; rfl, by rw [hr]; rfl, fun ops => ?_⟩
          have pA : Pres (st1.begin env).sdb st2.sdb := by
            have := execTxOne_pres env (st1.begin env) feelog tx _ hp0
            rw [hA] at this; exact this
          have pB : Pres (st1.begin env).sdb stX.sdb := by
            have := execTxOne_pres env (st1.begin env) feelog (feeOnly tx) _ hp0
            rw [hB] at this; exact this
          have : SEq (st2.rollback env).sdb (stX.rollback env).sdb := by
            simp only [St.rollback, hfr, if_true]
            exact pA.rollback_SEq.trans pB.rollback_SEq.symm
          exact this.runS_eq ops

/-- non-vacuity: a transaction that writes state, then fails, in a state where the key is committed. -/
example :
    let env : Env := { cfg := { isPara := false, title := [], forkExecKey := true },
                       allowUser := synthAllowUser, registry := fullRegistry }
    let tx : Tx := { acctKey := [1], fee := 1, execer := [118, 102, 97],
                     execOps := [.setS [109, 97, 118, 108, 45, 118, 102, 97, 45, 107] [9], .fail], localOps := [] }
    let st := initSt [([1], .acct 10)] []
    ∃ r obs st', execTx env st tx = .done [r] [obs] st' ∧ r.failed = true := by
  refine ⟨_, _, _, rfl, by decide⟩


/-- **group_all_or_fee** — when any member of a transaction group fails (some receipt of the group
carries an error log), every member's receipt is reset to `ExecPack`, the head keeps exactly the
fee KV, no other member keeps any KV, and every later StateDB read returns what it returns right
after the group fee was charged (`st1` = the state `execFee` produced; `resetTx` is the identity
between transactions).  Needs ForkExecRollback and ForkResetTx0, as in the code. -/
theorem group_all_or_fee (env : Env) (hfr : env.forkExecRollback = true) (h0 : env.forkResetTx0 = true)
    (st : St) (head : Tx) (members : List Tx) (feelog : Receipt) (st1 : St)
    (rs : List Receipt) (obs : List (List Obs)) (st' : St)
    (hfee : execFee env st head = .ok feelog st1)
    (h : execTxGroup env st (head :: members) = .done rs obs st')
    (hf : ∃ r ∈ rs, r.failed = true) :
    rs.length = members.length + 1 ∧ (∀ r ∈ rs, r.ty = 1) ∧
      rs.head?.map (·.kv) = some feelog.kv ∧ (∀ r ∈ rs.tail, r.kv = []) ∧
      ∀ ops, runS st'.sdb ops = runS st1.sdb.resetTx ops := by
  have hty := execFee_ok_ty env st head feelog st1 hfee
  have hnf := execFee_ok_not_failed env st head feelog st1 hfee
  unfold execTxGroup at h
  simp only at h
  rw [hfee] at h
  simp only at h
  have hbegin : (st1.begin env).sdb.intx = true := by simp [St.begin, hfr, StateDB.begin]
  have hp0 : Pres (st1.begin env).sdb (st1.begin env).sdb := Pres.refl hbegin
  have hreset : (st1.begin env).sdb.resetTx = st1.sdb.resetTx := by
    simp [St.begin, hfr, StateDB.begin, StateDB.resetTx]
  have hpack : ∀ r ∈ List.replicate members.length emptyPack, r.ty = 1 ∧ r.kv = [] := by
    intro r hr; rw [List.eq_of_mem_replicate hr]; exact ⟨rfl, rfl⟩
  cases hA : execTxOne env (st1.begin env) feelog head with
  | blockPanic => rw [hA] at h; cases h
  | failed r0 st2 o0 =>
    rw [hA] at h
    simp only at h
    injection h with h1 _ h3
    subst h1; subst h3
    obtain ⟨e, hr⟩ := execTxOne_failed_shape env _ feelog head _ _ _ hA
    have pA : Pres (st1.begin env).sdb st2.sdb := by
      have := execTxOne_pres env (st1.begin env) feelog head _ hp0
      rw [hA] at this; exact this
    refine ⟨by simp, ?_, by simp [hr, addErr], ?_, fun ops => ?_⟩
    · intro r hm
      rcases List.mem_cons.1 hm with hm | hm
      · subst hm; rw [hr]; exact hty
      · exact (hpack r hm).1
    · intro r hm
      exact (hpack r (by simpa using hm)).2
    · have : SEq (st2.rollback env).sdb (st1.begin env).sdb.resetTx := by
        simp only [St.rollback, hfr, if_true]
        exact pA.rollback_SEq
      rw [← hreset]
      exact this.runS_eq ops
  | ok r0 st2 o0 =>
    rw [hA] at h
    simp only at h
    have pA : Pres (st1.begin env).sdb st2.sdb := by
      have := execTxOne_pres env (st1.begin env) feelog head _ hp0
      rw [hA] at this; exact this
    have hr0 := execTxOne_ok_not_failed env _ feelog head _ _ _ hnf hA
    cases hM : execMembers env members st2 [] [] with
    | blockPanic => rw [hM] at h; cases h
    | ok rsM obsM st3 =>
      rw [hM] at h
      simp only at h
      injection h with h1 _ _
      subst h1
      have hall := execMembers_ok_not_failed env members st2 [] [] _ _ _ (by simp) hM
      obtain ⟨r, hm, hfr'⟩ := hf
      rcases List.mem_cons.1 hm with hm | hm
      · subst hm; rw [hr0] at hfr'; cases hfr'
      · rw [hall r hm] at hfr'; cases hfr'
    | failed nb r obsM st3 =>
      rw [hM] at h
      simp only [h0, if_true] at h
      injection h with h1 _ h3
      subst h1; subst h3
      obtain ⟨e, hr⟩ := execMembers_failed_shape env members st2 [] [] _ _ _ _ hM
      have pM : Pres (st1.begin env).sdb st3.sdb := by
        have := execMembers_pres env members st2 [] [] _ pA
        rw [hM] at this; exact this
      have hmid : ∀ x ∈ List.replicate nb emptyPack ++ [r] ++ List.replicate (members.length - nb - 1) emptyPack,
          x.ty = 1 ∧ x.kv = [] := by
        intro x hx
        simp only [List.mem_append, List.mem_singleton] at hx
        rcases hx with (hx | hx) | hx
        · rw [List.eq_of_mem_replicate hx]; exact ⟨rfl, rfl⟩
        · subst hx; rw [hr]; exact ⟨rfl, rfl⟩
        · rw [List.eq_of_mem_replicate hx]; exact ⟨rfl, rfl⟩
      refine ⟨?_, ?_, by simp, ?_, fun ops => ?_⟩
      · have hnb := execMembers_failed_nb env members st2 [] [] _ _ _ _ hM
        simp at hnb ⊢
        omega
      · intro x hm
        rcases List.mem_cons.1 hm with hm | hm
        · subst hm; exact hty
        · exact (hmid x hm).1
      · intro x hm
        exact (hmid x (by simpa using hm)).2
      · have : SEq (st3.rollback env).sdb (st1.begin env).sdb.resetTx := by
          simp only [St.rollback, hfr, if_true]
          exact pM.rollback_SEq
        rw [← hreset]
        exact this.runS_eq ops


/-! ### local data

`LocalDB.LEq` (Proofs/C11Local) is observational equivalence of two `executor.LocalDB`s between
transactions (equal up to the read cache, both satisfying the coherence invariant `LocalDB.Inv`);
`LEq.runL_eq` shows it is a bisimulation for every later sequence of local transactions `runL`
(Begin; any Get / Set / List / StartTx / access-flag changes; Commit or Rollback).
`LocalDB.Inv` is the invariant block execution maintains: `initSt_linv`, `execUnit_linv`. -/

open LocalDB in
/-- **local_rollback_exact** (repaired `LocalDB.Rollback`, /repo c51e8d4) — after a transaction that
fails during block execution, every later local transaction — any later sequence of LocalDB reads,
writes and listings — observes exactly what it observes in the run where the transaction only paid
its fee.  `hinv`/`hidle`: the LocalDB is in a state block execution can reach between transactions
(they hold initially and after every unit: `initSt_linv`, `execUnit_linv`). -/
theorem local_rollback_exact (env : Env) (hfr : env.forkExecRollback = true)
    (st : St) (hinv : Inv st.ldb) (hidle : st.ldb.intx = false)
    (tx : Tx) (r : Receipt) (obs : List Obs) (st' : St)
    (h : execTx env st tx = .done [r] [obs] st') (hf : r.failed = true) :
    ∃ rF stF, execTx env st (feeOnly tx) = .done [rF] [[]] stF ∧
      ∀ ts, runL st'.ldb ts = runL stF.ldb ts := by
  have he : (feeOnly tx).execer = tx.execer := rfl
  have hfee : execFee env st (feeOnly tx) = execFee env st tx := rfl
  unfold execTx at h ⊢
  rw [he, hfee]
  split at h
  · rename_i hname
    simp only [hname, if_true]
    injection h with h1 h2 h3
    subst h3
    exact ⟨_, _, rfl, fun _ => rfl⟩
  · rename_i hname
    simp only [hname, if_false]
    cases hfe : execFee env st tx with
    | panic => rw [hfe] at h; cases h
    | err e st1 =>
      rw [hfe] at h
      simp only at h ⊢
      injection h with h1 h2 h3
      subst h3
      exact ⟨_, _, rfl, fun _ => rfl⟩
    | ok feelog st1 =>
      rw [hfe] at h
      simp only at h ⊢
      have hl := execFee_ldb env st tx feelog st1 hfe
      have hb := begin_txf env hfr st1 (by rw [hl]; exact hinv) (by rw [hl]; exact hidle)
      cases hA : execTxOne env (st1.begin env) feelog tx with
      | blockPanic => rw [hA] at h; cases h
      | ok r2 st2 obs2 =>
        rw [hA] at h
        simp only at h
        injection h with h1 _ _
        injection h1 with h1 _
        subst h1
        have := execTxOne_ok_not_failed env _ feelog tx _ _ _ (execFee_ok_not_failed env st tx feelog st1 hfe) hA
        rw [this] at hf; cases hf
      | failed r2 st2 obs2 =>
        rw [hA] at h
        simp only at h
        injection h with h1 _ h3
        subst h3
        cases hd : loadDriver env tx.execer with
        | none =>
          obtain ⟨_, _, hok⟩ := execTxOne_none_ok env (st1.begin env) feelog tx hd
          rw [hok] at hA; cases hA
        | some d =>
          obtain ⟨stX, hB⟩ := execTxOne_feeOnly env (st1.begin env) feelog tx d hd
          rw [hB]
          simp only
          refine ⟨_, _, rfl, fun ts => ?_⟩
          have tA := execTxOne_txf env (st1.begin env) feelog tx _ _ _ hb
          have tB := execTxOne_txf env (st1.begin env) feelog (feeOnly tx) _ _ _ hb
          rw [hA] at tA
          rw [hB, he] at tB
          obtain ⟨ia, xa, ea⟩ := TxF.rollback tA
          obtain ⟨ib, _, eb⟩ := TxF.rollback tB
          have hra : (st2.rollback env).ldb = st2.ldb.rollback := by simp [St.rollback, hfr]
          have hrb : (stX.rollback env).ldb = stX.ldb.rollback := by simp [St.rollback, hfr]
          rw [hra, hrb]
          exact LEq.runL_eq ⟨by rw [ea, eb], ia, ib⟩ xa ts

/-- non-vacuity of the hypotheses of `local_rollback_exact`: the initial state of every block. -/
example : LocalDB.Inv (initSt [([1], .acct 10)] []).ldb ∧ (initSt [([1], .acct 10)] []).ldb.intx = false :=
  initSt_linv _ _

/-- regression witness for the pre-repair `Rollback` (`LocalDB.rollbackOld`, finding S-C11, repaired in
/repo c51e8d4): it kept the buffered writes, so a write of a rolled back transaction reached the
remote store with the next transaction's commit.  The repaired `rollback` does not. -/
theorem rollbackOld_leaks_regression :
    let l : LocalDB := {}
    let k : Bytes := [107]
    (((l.begin.set k [7]).1.rollbackOld.begin.commit).remote.cview k = some [7]) ∧
    (((l.begin.set k [7]).1.rollback.begin.commit).remote.cview k = none) := by
  decide


namespace Witness
/-- "LODB-vfb-k" -/
def kB : Bytes := [76, 79, 68, 66, 45, 118, 102, 98, 45, 107]
def env0 : Env := { cfg := { isPara := false, title := [], forkExecKey := true },
                    allowUser := synthAllowUser, registry := fullRegistry }
end Witness

open LocalDB in
/-- **rollback_exact** — the two single-transaction theorems about *the same* fee-only run: one `stF`,
whose StateDB and LocalDB are both observationally equal to those left by the failed transaction. -/
theorem rollback_exact (env : Env) (hfr : env.forkExecRollback = true)
    (st : St) (hinv : Inv st.ldb) (hidle : st.ldb.intx = false)
    (tx : Tx) (r : Receipt) (obs : List Obs) (st' : St)
    (h : execTx env st tx = .done [r] [obs] st') (hf : r.failed = true) :
    ∃ rF stF, execTx env st (feeOnly tx) = .done [rF] [[]] stF ∧ rF.kv = r.kv ∧ rF.ty = r.ty ∧
      (∀ ops, runS st'.sdb ops = runS stF.sdb ops) ∧ (∀ ts, runL st'.ldb ts = runL stF.ldb ts) := by
  obtain ⟨rF, stF, h1, h2, h3, h4⟩ := state_rollback_exact env hfr st tx r obs st' h hf
  obtain ⟨rF', stF', h1', h5⟩ := local_rollback_exact env hfr st hinv hidle tx r obs st' h hf
  rw [h1] at h1'
  injection h1' with _ _ e3
  subst e3
  exact ⟨rF, stF, h1, h2, h3, h4, h5⟩

open LocalDB in
/-- **group_local_rollback_exact** — local data of a failed group: every later sequence of local
transactions observes exactly what it observes right after the group fee was charged (`st1`; charging
the fee does not touch the LocalDB, so this is the LocalDB before the group).  `LClean`: the LocalDB
as block execution leaves it between units (`initSt_lclean`, `execUnit_lclean`). -/
theorem group_local_rollback_exact (env : Env) (hfr : env.forkExecRollback = true)
    (st : St) (hclean : LClean st.ldb)
    (head : Tx) (members : List Tx) (feelog : Receipt) (st1 : St)
    (rs : List Receipt) (obs : List (List Obs)) (st' : St)
    (hfee : execFee env st head = .ok feelog st1)
    (h : execTxGroup env st (head :: members) = .done rs obs st')
    (hf : ∃ r ∈ rs, r.failed = true) :
    ∀ ts, runL st'.ldb ts = runL st1.ldb ts := by
  have hnf := execFee_ok_not_failed env st head feelog st1 hfee
  have hl := execFee_ldb env st head feelog st1 hfee
  have c1 : LClean st1.ldb := by rw [hl]; exact hclean
  have hb := begin_txf_clean env hfr st1 c1
  have hroll : ∀ s : St, (s.rollback env).ldb = s.ldb.rollback := fun s => by simp [St.rollback, hfr]
  have fin : ∀ s : St, TxF st1.ldb false false s.ldb → ∀ ts, runL (s.rollback env).ldb ts = runL st1.ldb ts := by
    intro s t ts
    obtain ⟨ia, xa, ea⟩ := TxF.rollback t
    rw [hroll]
    exact LEq.runL_eq ⟨by rw [ea, c1.erase_eq], ia, c1.inv⟩ xa ts
  unfold execTxGroup at h
  simp only at h
  rw [hfee] at h
  simp only at h
  have tA := execTxOne_txf_ff env (st1.begin env) feelog head _ hb
  cases hA : execTxOne env (st1.begin env) feelog head with
  | blockPanic => rw [hA] at h; cases h
  | failed r0 st2 o0 =>
    rw [hA] at h tA
    simp only at h
    injection h with _ _ h3
    subst h3
    exact fin st2 tA
  | ok r0 st2 o0 =>
    rw [hA] at h tA
    simp only at h
    have hr0 := execTxOne_ok_not_failed env _ feelog head _ _ _ hnf hA
    have tM := execMembers_txf_ff env members st2 [] [] _ tA
    cases hM : execMembers env members st2 [] [] with
    | blockPanic => rw [hM] at h; cases h
    | ok rsM obsM st3 =>
      rw [hM] at h
      simp only at h
      injection h with h1 _ _
      subst h1
      have hall := execMembers_ok_not_failed env members st2 [] [] _ _ _ (by simp) hM
      obtain ⟨r, hm, hfr'⟩ := hf
      rcases List.mem_cons.1 hm with hm | hm
      · subst hm; rw [hr0] at hfr'; cases hfr'
      · rw [hall r hm] at hfr'; cases hfr'
    | failed nb r obsM st3 =>
      rw [hM] at h tM
      simp only at h
      injection h with _ _ h3
      subst h3
      exact fin st3 tM

/-- satisfiability of the hypotheses of `group_all_or_fee` / `group_local_rollback_exact`: the head (vfa)
succeeds, the second member (vfb) writes state and a local key, then fails. -/
example :
    let env : Env := Witness.env0
    let head : Tx := { acctKey := [1], fee := 2, execer := [118, 102, 97],
                       execOps := [.setS [109, 97, 118, 108, 45, 118, 102, 97, 45, 107] [9]], localOps := [] }
    let m2 : Tx := { acctKey := [1], fee := 0, execer := [118, 102, 98],
                     execOps := [.setS [109, 97, 118, 108, 45, 118, 102, 98, 45, 107] [8]],
                     localOps := [.hidL Witness.kB [7], .fail] }
    let st := initSt [([1], .acct 10)] []
    env.forkExecRollback = true ∧ env.forkResetTx0 = true ∧ LClean st.ldb ∧
    ∃ feelog st1 rs obs st', execFee env st head = .ok feelog st1 ∧
      execTxGroup env st [head, m2] = .done rs obs st' ∧ ∃ r ∈ rs, r.failed = true := by
  refine ⟨rfl, rfl, initSt_lclean _ _, _, _, _, _, _, rfl, rfl, ?_⟩
  decide


/-! ### the same, observed through block execution itself

`execBlock_congr` (Proofs/C11Block): two executor states whose StateDBs are `SEq` and whose LocalDBs are
`LEq` cannot be told apart by *any* continuation of the block — `execBlock` itself, with `checkKV`
reading the written-key list, the access flags, interleaved state and local operations, fees, groups:
same receipts, same observations of every later transaction. -/

open LocalDB in
/-- **rollback_exact_block** — the property text, literally: after a failed transaction, the rest of the
block (`us`, any units) produces the same receipts and every later transaction observes the same
state and local reads as after the transaction that only paid its fee. -/
theorem rollback_exact_block (env : Env) (hfr : env.forkExecRollback = true)
    (st : St) (hinv : Inv st.ldb) (hidle : st.ldb.intx = false)
    (tx : Tx) (r : Receipt) (obs : List Obs) (st' : St)
    (h : execTx env st tx = .done [r] [obs] st') (hf : r.failed = true) :
    ∃ rF stF, execTx env st (feeOnly tx) = .done [rF] [[]] stF ∧ rF.kv = r.kv ∧ rF.ty = r.ty ∧
      ∀ us rs0 obs0, blockView (execBlock env us st' rs0 obs0) = blockView (execBlock env us stF rs0 obs0) := by
  have he : (feeOnly tx).execer = tx.execer := rfl
  have hfee : execFee env st (feeOnly tx) = execFee env st tx := rfl
  have same : ∀ s : St, Inv s.ldb → s.ldb.intx = false → StIdle s s :=
    fun s i x => ⟨SEq.refl _, ⟨rfl, i, i⟩, x⟩
  unfold execTx at h ⊢
  rw [he, hfee]
  split at h
  · rename_i hname
    simp only [hname, if_true]
    injection h with h1 h2 h3
    injection h1 with h1 _
    subst h1; subst h3
    exact ⟨_, _, rfl, rfl, rfl, fun us rs0 obs0 => execBlock_congr env hfr us _ _ rs0 obs0 (same _ hinv hidle)⟩
  · rename_i hname
    simp only [hname, if_false]
    cases hfe : execFee env st tx with
    | panic => rw [hfe] at h; cases h
    | err e st1 =>
      rw [hfe] at h
      simp only at h ⊢
      injection h with h1 h2 h3
      injection h1 with h1 _
      subst h1; subst h3
      have hl := execFee_err_ldb env st tx e st1 hfe
      exact ⟨_, _, rfl, rfl, rfl, fun us rs0 obs0 => execBlock_congr env hfr us _ _ rs0 obs0
        (same _ (by rw [hl]; exact hinv) (by rw [hl]; exact hidle))⟩
    | ok feelog st1 =>
      rw [hfe] at h
      simp only at h ⊢
      have hl := execFee_ldb env st tx feelog st1 hfe
      have hb := begin_txf env hfr st1 (by rw [hl]; exact hinv) (by rw [hl]; exact hidle)
      have hbegin : (st1.begin env).sdb.intx = true := by simp [St.begin, hfr, StateDB.begin]
      have hp0 : Pres (st1.begin env).sdb (st1.begin env).sdb := Pres.refl hbegin
      cases hA : execTxOne env (st1.begin env) feelog tx with
      | blockPanic => rw [hA] at h; cases h
      | ok r2 st2 obs2 =>
        rw [hA] at h
        simp only at h
        injection h with h1 _ _
        injection h1 with h1 _
        subst h1
        have := execTxOne_ok_not_failed env _ feelog tx _ _ _ (execFee_ok_not_failed env st tx feelog st1 hfe) hA
        rw [this] at hf; cases hf
      | failed r2 st2 obs2 =>
        rw [hA] at h
        simp only at h
        injection h with h1 _ h3
        injection h1 with h1 _
        subst h1; subst h3
        cases hd : loadDriver env tx.execer with
        | none =>
          obtain ⟨_, _, hok⟩ := execTxOne_none_ok env (st1.begin env) feelog tx hd
          rw [hok] at hA; cases hA
        | some d =>
          obtain ⟨stX, hB⟩ := execTxOne_feeOnly env (st1.begin env) feelog tx d hd
          rw [hB]
          simp only
          obtain ⟨e, hr⟩ := execTxOne_failed_shape env _ feelog tx _ _ _ hA
          refine ⟨_, _, rfl, by rw [hr]; rfl, by rw [hr]; rfl, fun us rs0 obs0 => ?_⟩
          have pA : Pres (st1.begin env).sdb st2.sdb := by
            have := execTxOne_pres env (st1.begin env) feelog tx _ hp0
            rw [hA] at this; exact this
          have pB : Pres (st1.begin env).sdb stX.sdb := by
            have := execTxOne_pres env (st1.begin env) feelog (feeOnly tx) _ hp0
            rw [hB] at this; exact this
          have tA := execTxOne_txf env (st1.begin env) feelog tx _ _ _ hb
          have tB := execTxOne_txf env (st1.begin env) feelog (feeOnly tx) _ _ _ hb
          rw [hA] at tA
          rw [hB, he] at tB
          obtain ⟨ia, xa, ea⟩ := TxF.rollback tA
          obtain ⟨ib, _, eb⟩ := TxF.rollback tB
          have hid : StIdle (st2.rollback env) (stX.rollback env) := by
            simp only [St.rollback, hfr, if_true]
            exact ⟨pA.rollback_SEq.trans pB.rollback_SEq.symm, ⟨by rw [ea, eb], ia, ib⟩, xa⟩
          exact execBlock_congr env hfr us _ _ rs0 obs0 hid

open LocalDB in
/-- **group_rollback_exact_block** — a failed group: the rest of the block behaves exactly as from the
state right after the group fee was charged (`st1`, its StateDB out of any transaction). -/
theorem group_rollback_exact_block (env : Env) (hfr : env.forkExecRollback = true)
    (st : St) (hclean : LClean st.ldb)
    (head : Tx) (members : List Tx) (feelog : Receipt) (st1 : St)
    (rs : List Receipt) (obs : List (List Obs)) (st' : St)
    (hfee : execFee env st head = .ok feelog st1)
    (h : execTxGroup env st (head :: members) = .done rs obs st')
    (hf : ∃ r ∈ rs, r.failed = true) :
    ∀ us rs0 obs0, blockView (execBlock env us st' rs0 obs0) =
      blockView (execBlock env us { st1 with sdb := st1.sdb.resetTx } rs0 obs0) := by
  have hnf := execFee_ok_not_failed env st head feelog st1 hfee
  have hl := execFee_ldb env st head feelog st1 hfee
  have c1 : LClean st1.ldb := by rw [hl]; exact hclean
  have hb := begin_txf_clean env hfr st1 c1
  have hbegin : (st1.begin env).sdb.intx = true := by simp [St.begin, hfr, StateDB.begin]
  have hp0 : Pres (st1.begin env).sdb (st1.begin env).sdb := Pres.refl hbegin
  have hreset : (st1.begin env).sdb.resetTx = st1.sdb.resetTx := by
    simp [St.begin, hfr, StateDB.begin, StateDB.resetTx]
  have fin : ∀ s : St, TxF st1.ldb false false s.ldb → Pres (st1.begin env).sdb s.sdb →
      StIdle (s.rollback env) { st1 with sdb := st1.sdb.resetTx } := by
    intro s t p
    obtain ⟨ia, xa, ea⟩ := TxF.rollback t
    simp only [St.rollback, hfr, if_true]
    exact ⟨by rw [← hreset]; exact p.rollback_SEq, ⟨by rw [ea, c1.erase_eq], ia, c1.inv⟩, xa⟩
  intro us rs0 obs0
  unfold execTxGroup at h
  simp only at h
  rw [hfee] at h
  simp only at h
  have tA := execTxOne_txf_ff env (st1.begin env) feelog head _ hb
  have pA := execTxOne_pres env (st1.begin env) feelog head _ hp0
  cases hA : execTxOne env (st1.begin env) feelog head with
  | blockPanic => rw [hA] at h; cases h
  | failed r0 st2 o0 =>
    rw [hA] at h tA pA
    simp only at h
    injection h with _ _ h3
    subst h3
    exact execBlock_congr env hfr us _ _ rs0 obs0 (fin st2 tA pA)
  | ok r0 st2 o0 =>
    rw [hA] at h tA pA
    simp only at h
    have hr0 := execTxOne_ok_not_failed env _ feelog head _ _ _ hnf hA
    have tM := execMembers_txf_ff env members st2 [] [] _ tA
    have pM := execMembers_pres env members st2 [] [] _ pA
    cases hM : execMembers env members st2 [] [] with
    | blockPanic => rw [hM] at h; cases h
    | ok rsM obsM st3 =>
      rw [hM] at h
      simp only at h
      injection h with h1 _ _
      subst h1
      have hall := execMembers_ok_not_failed env members st2 [] [] _ _ _ (by simp) hM
      obtain ⟨r, hm, hfr'⟩ := hf
      rcases List.mem_cons.1 hm with hm | hm
      · subst hm; rw [hr0] at hfr'; cases hfr'
      · rw [hall r hm] at hfr'; cases hfr'
    | failed nb r obsM st3 =>
      rw [hM] at h tM pM
      simp only at h
      injection h with _ _ h3
      subst h3
      exact execBlock_congr env hfr us _ _ rs0 obs0 (fin st3 tM pM)

end C11
