import Chain33Model.Model.C11
namespace C11
theorem placeholder : True := trivial
end C11
