import Chain33Model.Proofs.C11
/-!
C11 — failed transactions leave only their fee behind.  Property theorems only.

`StateDB.SEq` (Proofs/C11) is observational equivalence of two StateDBs; `SEq.runS_eq` shows it is a
bisimulation, so the theorems below conclude with "every later sequence of StateDB operations
(`runS`: get / set / begin / commit / rollback / startTx — everything later transactions can do)
returns the same reads".
-/
namespace C11
open StateDB
open C12 (Bytes)

/-- **state_rollback_exact** — a transaction that fails during block execution (its receipt carries
an error log) leaves, in its receipt, exactly the KVs of the fee-only transaction, and every later
StateDB read — under any later sequence of operations — returns what it returns in the run where
the transaction only paid its fee (`feeOnly tx`: same sender, fee and executor, fails at once).
Holds from ForkExecRollback on (before it there is no db transaction to roll back). -/
theorem state_rollback_exact (env : Env) (hfr : env.forkExecRollback = true)
    (st : St) (tx : Tx) (r : Receipt) (obs : List Obs) (st' : St)
    (h : execTx env st tx = .done [r] [obs] st') (hf : r.failed = true) :
    ∃ rF stF, execTx env st (feeOnly tx) = .done [rF] [[]] stF ∧ rF.kv = r.kv ∧ rF.ty = r.ty ∧
      ∀ ops, runS st'.sdb ops = runS stF.sdb ops := by
  have he : (feeOnly tx).execer = tx.execer := rfl
  have hfee : execFee env st (feeOnly tx) = execFee env st tx := rfl
  unfold execTx at h ⊢
  rw [he, hfee]
  split at h
  · -- executor name not allowed: both runs take the same path
    rename_i hname
    simp only [hname, if_true]
    injection h with h1 h2 h3
    injection h1 with h1 _
    subst h1; subst h3
    exact ⟨_, _, rfl, rfl, rfl, fun _ => rfl⟩
  · rename_i hname
    simp only [hname, if_false]
    cases hfe : execFee env st tx with
    | panic => rw [hfe] at h; cases h
    | err e st1 =>
      rw [hfe] at h
      simp only at h ⊢
      injection h with h1 h2 h3
      injection h1 with h1 _
      subst h1; subst h3
      exact ⟨_, _, rfl, rfl, rfl, fun _ => rfl⟩
    | ok feelog st1 =>
      rw [hfe] at h
      simp only at h ⊢
      have hbegin : (st1.begin env).sdb.intx = true := by simp [St.begin, hfr, StateDB.begin]
      have hp0 : Pres (st1.begin env).sdb (st1.begin env).sdb := Pres.refl hbegin
      cases hA : execTxOne env (st1.begin env) feelog tx with
      | blockPanic => rw [hA] at h; cases h
      | ok r2 st2 obs2 =>
        rw [hA] at h
        simp only at h
        injection h with h1 _ _
        injection h1 with h1 _
        subst h1
        have := execTxOne_ok_not_failed env _ feelog tx _ _ _ (execFee_ok_not_failed env st tx feelog st1 hfe) hA
        rw [this] at hf; cases hf
      | failed r2 st2 obs2 =>
        rw [hA] at h
        simp only at h
        injection h with h1 _ h3
        injection h1 with h1 _
        subst h1; subst h3
        -- the failing transaction ran on a synthetic driver
        cases hd : loadDriver env tx.execer with
        | none =>
          obtain ⟨_, _, hok⟩ := execTxOne_none_ok env (st1.begin env) feelog tx hd
          rw [hok] at hA; cases hA
        | some d =>
          obtain ⟨stX, hB⟩ := execTxOne_feeOnly env (st1.begin env) feelog tx d hd
          rw [hB]
          simp only
          obtain ⟨e, hr⟩ := execTxOne_failed_shape env _ feelog tx _ _ _ hA
          refine ⟨_, _, rfl, by rw [hr]; rfl, by rw [hr]; rfl, fun ops => ?_⟩
          have pA : Pres (st1.begin env).sdb st2.sdb := by
            have := execTxOne_pres env (st1.begin env) feelog tx _ hp0
            rw [hA] at this; exact this
          have pB : Pres (st1.begin env).sdb stX.sdb := by
            have := execTxOne_pres env (st1.begin env) feelog (feeOnly tx) _ hp0
            rw [hB] at this; exact this
          have : SEq (st2.rollback env).sdb (stX.rollback env).sdb := by
            simp only [St.rollback, hfr, if_true]
            exact pA.rollback_SEq.trans pB.rollback_SEq.symm
          exact this.runS_eq ops

/-- non-vacuity: a transaction that writes state, then fails, in a state where the key is committed. -/
example :
    let env : Env := { cfg := { isPara := false, title := [], forkExecKey := true },
                       allowUser := synthAllowUser, registry := fullRegistry }
    let tx : Tx := { acctKey := [1], fee := 1, execer := [118, 102, 97],
                     execOps := [.setS [109, 97, 118, 108, 45, 118, 102, 97, 45, 107] [9], .fail], localOps := [] }
    let st := initSt [([1], .acct 10)] []
    ∃ r obs st', execTx env st tx = .done [r] [obs] st' ∧ r.failed = true := by
  refine ⟨_, _, _, rfl, by decide⟩


/-- **group_all_or_fee** — when any member of a transaction group fails (some receipt of the group
carries an error log), every member's receipt is reset to `ExecPack`, the head keeps exactly the
fee KV, no other member keeps any KV, and every later StateDB read returns what it returns right
after the group fee was charged (`st1` = the state `execFee` produced; `resetTx` is the identity
between transactions).  Needs ForkExecRollback and ForkResetTx0, as in the code. -/
theorem group_all_or_fee (env : Env) (hfr : env.forkExecRollback = true) (h0 : env.forkResetTx0 = true)
    (st : St) (head : Tx) (members : List Tx) (feelog : Receipt) (st1 : St)
    (rs : List Receipt) (obs : List (List Obs)) (st' : St)
    (hfee : execFee env st head = .ok feelog st1)
    (h : execTxGroup env st (head :: members) = .done rs obs st')
    (hf : ∃ r ∈ rs, r.failed = true) :
    rs.length = members.length + 1 ∧ (∀ r ∈ rs, r.ty = 1) ∧
      rs.head?.map (·.kv) = some feelog.kv ∧ (∀ r ∈ rs.tail, r.kv = []) ∧
      ∀ ops, runS st'.sdb ops = runS st1.sdb.resetTx ops := by
  have hty := execFee_ok_ty env st head feelog st1 hfee
  have hnf := execFee_ok_not_failed env st head feelog st1 hfee
  unfold execTxGroup at h
  simp only at h
  rw [hfee] at h
  simp only at h
  have hbegin : (st1.begin env).sdb.intx = true := by simp [St.begin, hfr, StateDB.begin]
  have hp0 : Pres (st1.begin env).sdb (st1.begin env).sdb := Pres.refl hbegin
  have hreset : (st1.begin env).sdb.resetTx = st1.sdb.resetTx := by
    simp [St.begin, hfr, StateDB.begin, StateDB.resetTx]
  have hpack : ∀ r ∈ List.replicate members.length emptyPack, r.ty = 1 ∧ r.kv = [] := by
    intro r hr; rw [List.eq_of_mem_replicate hr]; exact ⟨rfl, rfl⟩
  cases hA : execTxOne env (st1.begin env) feelog head with
  | blockPanic => rw [hA] at h; cases h
  | failed r0 st2 o0 =>
    rw [hA] at h
    simp only at h
    injection h with h1 _ h3
    subst h1; subst h3
    obtain ⟨e, hr⟩ := execTxOne_failed_shape env _ feelog head _ _ _ hA
    have pA : Pres (st1.begin env).sdb st2.sdb := by
      have := execTxOne_pres env (st1.begin env) feelog head _ hp0
      rw [hA] at this; exact this
    refine ⟨by simp, ?_, by simp [hr, addErr], ?_, fun ops => ?_⟩
    · intro r hm
      rcases List.mem_cons.1 hm with hm | hm
      · subst hm; rw [hr]; exact hty
      · exact (hpack r hm).1
    · intro r hm
      exact (hpack r (by simpa using hm)).2
    · have : SEq (st2.rollback env).sdb (st1.begin env).sdb.resetTx := by
        simp only [St.rollback, hfr, if_true]
        exact pA.rollback_SEq
      rw [← hreset]
      exact this.runS_eq ops
  | ok r0 st2 o0 =>
    rw [hA] at h
    simp only at h
    have pA : Pres (st1.begin env).sdb st2.sdb := by
      have := execTxOne_pres env (st1.begin env) feelog head _ hp0
      rw [hA] at this; exact this
    have hr0 := execTxOne_ok_not_failed env _ feelog head _ _ _ hnf hA
    cases hM : execMembers env members st2 [] [] with
    | blockPanic => rw [hM] at h; cases h
    | ok rsM obsM st3 =>
      rw [hM] at h
      simp only at h
      injection h with h1 _ _
      subst h1
      have hall := execMembers_ok_not_failed env members st2 [] [] _ _ _ (by simp) hM
      obtain ⟨r, hm, hfr'⟩ := hf
      rcases List.mem_cons.1 hm with hm | hm
      · subst hm; rw [hr0] at hfr'; cases hfr'
      · rw [hall r hm] at hfr'; cases hfr'
    | failed nb r obsM st3 =>
      rw [hM] at h
      simp only [h0, if_true] at h
      injection h with h1 _ h3
      subst h1; subst h3
      obtain ⟨e, hr⟩ := execMembers_failed_shape env members st2 [] [] _ _ _ _ hM
      have pM : Pres (st1.begin env).sdb st3.sdb := by
        have := execMembers_pres env members st2 [] [] _ pA
        rw [hM] at this; exact this
      have hmid : ∀ x ∈ List.replicate nb emptyPack ++ [r] ++ List.replicate (members.length - nb - 1) emptyPack,
          x.ty = 1 ∧ x.kv = [] := by
        intro x hx
        simp only [List.mem_append, List.mem_singleton] at hx
        rcases hx with (hx | hx) | hx
        · rw [List.eq_of_mem_replicate hx]; exact ⟨rfl, rfl⟩
        · subst hx; rw [hr]; exact ⟨rfl, rfl⟩
        · rw [List.eq_of_mem_replicate hx]; exact ⟨rfl, rfl⟩
      refine ⟨?_, ?_, by simp, ?_, fun ops => ?_⟩
      · have hnb := execMembers_failed_nb env members st2 [] [] _ _ _ _ hM
        simp at hnb ⊢
        omega
      · intro x hm
        rcases List.mem_cons.1 hm with hm | hm
        · subst hm; exact hty
        · exact (hmid x hm).1
      · intro x hm
        exact (hmid x (by simpa using hm)).2
      · have : SEq (st3.rollback env).sdb (st1.begin env).sdb.resetTx := by
          simp only [St.rollback, hfr, if_true]
          exact pM.rollback_SEq
        rw [← hreset]
        exact this.runS_eq ops


/-! ### local data -/

/-- the mechanism of finding S-C11, as a fact about the model of `executor.LocalDB`:
`Rollback` keeps the buffered writes. -/
theorem localdb_rollback_keeps_kvs (l : LocalDB) : l.rollback.kvs = l.kvs := by
  unfold LocalDB.rollback LocalDB.resetTx
  cases l.hasbegin <;> rfl

def laterSame (a b : Option (List Receipt × List (List Obs))) : Prop :=
  match a, b with
  | some (rs, obs), some (rs', obs') => rs.tail = rs'.tail ∧ obs.tail = obs'.tail
  | some _, none => False
  | none, _ => True

def headFailed (a : Option (List Receipt × List (List Obs))) : Prop :=
  match a with
  | some (r :: _, _) => r.failed = true
  | _ => False

instance (a b : Option (List Receipt × List (List Obs))) : Decidable (laterSame a b) := by
  unfold laterSame; split <;> infer_instance
instance (a : Option (List Receipt × List (List Obs))) : Decidable (headFailed a) := by
  unfold headFailed; split <;> infer_instance

/-- The property text for local data, at block level: if the first transaction of a block fails, every
later transaction produces the same receipt and observes the same state **and local** reads as in the
block where that transaction only paid its fee. -/
def LocalRollbackExact : Prop :=
  ∀ (env : Env) (store : List (Bytes × Val)) (main : List (Bytes × Bytes)) (t : Tx) (post : List TxUnit),
    env.forkExecRollback = true →
    headFailed (runBlock env store main (.single t :: post)) →
    laterSame (runBlock env store main (.single t :: post)) (runBlock env store main (.single (feeOnly t) :: post))

namespace Witness
/-- "LODB-vfb-k" -/
def kB : Bytes := [76, 79, 68, 66, 45, 118, 102, 98, 45, 107]
def env0 : Env := { cfg := { isPara := false, title := [], forkExecKey := true },
                    allowUser := synthAllowUser, registry := fullRegistry }
/-- a vfb (ExecLocalSameTime) transaction whose ExecLocal writes a local key directly, then fails -/
def t1 : Tx := { acctKey := [1], fee := 1, execer := [118, 102, 98], execOps := [], localOps := [.hidL kB [7], .fail] }
/-- a later vfb transaction listing the prefix -/
def t2 : Tx := { acctKey := [1], fee := 1, execer := [118, 102, 98], execOps := [.listL kB], localOps := [] }
def store0 : List (Bytes × Val) := [([1], .acct 10)]
end Witness

/-- **S-C11**: the full statement is false of the model (and of the code: the same block is replayed on
the real executor by corpus/C11/s-c11.ops): `LocalDB.Rollback` does not drop the buffered `kvs`, the
next `save()` flushes them, and the later transaction lists the failed transaction's write. -/
theorem local_rollback_exact_full_false : ¬ LocalRollbackExact := by
  intro h
  exact absurd (h Witness.env0 Witness.store0 [] Witness.t1 [.single Witness.t2] rfl (by decide)) (by decide)

/-- **local_rollback_exact_partial** — added hypothesis: the failing transaction runs on a driver that is
*not* ExecLocalSameTime (its ExecLocal runs only when the block is added) and ForkLocalDBAccess is
active.  Then the LocalDB after the failed transaction is *identical* (all caches, the buffered
writes and the remote layered store) to the LocalDB after the fee-only transaction. -/
theorem local_rollback_exact_partial (env : Env) (hfr : env.forkExecRollback = true)
    (hfa : env.forkLocalDBAccess = true)
    (st : St) (tx : Tx) (d : Drv) (hd : loadDriver env tx.execer = some d) (hs : d.sameTime = false)
    (r : Receipt) (obs : List Obs) (st' : St)
    (h : execTx env st tx = .done [r] [obs] st') (hf : r.failed = true) :
    ∃ rF stF, execTx env st (feeOnly tx) = .done [rF] [[]] stF ∧ st'.ldb = stF.ldb := by
  have he : (feeOnly tx).execer = tx.execer := rfl
  have hfee : execFee env st (feeOnly tx) = execFee env st tx := rfl
  have hsame : isExecLocalSameTime env tx.execer = false := by unfold isExecLocalSameTime; rw [hd]; exact hs
  unfold execTx at h ⊢
  rw [he, hfee]
  split at h
  · rename_i hname
    simp only [hname, if_true]
    injection h with h1 h2 h3
    subst h3
    exact ⟨_, _, rfl, rfl⟩
  · rename_i hname
    simp only [hname, if_false]
    cases hfe : execFee env st tx with
    | panic => rw [hfe] at h; cases h
    | err e st1 =>
      rw [hfe] at h
      simp only at h ⊢
      injection h with h1 h2 h3
      subst h3
      exact ⟨_, _, rfl, rfl⟩
    | ok feelog st1 =>
      rw [hfe] at h
      simp only at h ⊢
      cases hA : execTxOne env (st1.begin env) feelog tx with
      | blockPanic => rw [hA] at h; cases h
      | ok r2 st2 obs2 =>
        rw [hA] at h
        simp only at h
        injection h with h1 _ _
        injection h1 with h1 _
        subst h1
        have := execTxOne_ok_not_failed env _ feelog tx _ _ _ (execFee_ok_not_failed env st tx feelog st1 hfe) hA
        rw [this] at hf; cases hf
      | failed r2 st2 obs2 =>
        rw [hA] at h
        simp only at h
        injection h with h1 _ h3
        subst h3
        obtain ⟨stX, hB⟩ := execTxOne_feeOnly env (st1.begin env) feelog tx d hd
        rw [hB]
        simp only
        refine ⟨_, _, rfl, ?_⟩
        have e2 := execTxOne_failed_state_ordinary env _ feelog tx _ _ _ hsame hA
        have eX := execTxOne_failed_state_ordinary env _ feelog (feeOnly tx) _ _ _ hsame hB
        have l2 := execPhase_ldb_ordinary env (st1.begin env).startTx tx d hd hs hfa
        have lX := execPhase_ldb_ordinary env (st1.begin env).startTx (feeOnly tx) d hd hs hfa
        have : st2.ldb = stX.ldb := by rw [e2, eX, l2, lX]
        simp only [St.rollback, hfr, if_true, this]

/-- non-vacuity of `local_rollback_exact_partial`: a vfa (ordinary driver) transaction that fails. -/
example : ∃ d, loadDriver Witness.env0 [118, 102, 97] = some d ∧ d.sameTime = false := ⟨_, rfl, rfl⟩

end C11
