import Chain33Model.Model.C11
namespace C12
theorem placeholder : True := trivial
end C12
