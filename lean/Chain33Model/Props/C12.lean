import Chain33Model.Proofs.C12
/-!
C12 — transactions can only write where their executor is allowed.  Property theorems only.
-/
namespace C12

/-- The grammar of state keys a transaction with executor name `txExecer` (driver code name
`realExecer`) may report in its receipt.  The key must be `mavl-<x>-…` and
* lie in its own namespace (`x` = the executor name with the para-chain title stripped), or
* (before ForkExecKey only) be one of the two historical exceptions, or
* lie in *its own* deposit area inside any executor (`mavl-<x>-<y>-exec-<addr(txExecer)>:…`), or
* be approved by the owning executor's friend rule — the owner being the driver `realExecer`
  when the key lies in `realExecer`'s deposit area, and `x` otherwise. -/
def AllowedSpec (cfg : Cfg) (execAddr : Bytes → Bytes) (friend : Bytes → Bytes → Bytes → Bool)
    (key realExecer txExecer : Bytes) : Prop :=
  ∃ x, OwnerOf key x ∧
    ( x = getParaExec cfg txExecer
    ∨ (cfg.forkExecKey = false ∧ getParaExec cfg txExecer = sManage ∧ x = sConfig)
    ∨ (cfg.forkExecKey = false ∧ getParaExec cfg txExecer = sToken ∧ ∃ t, key = sCreateToken ++ t)
    ∨ DepositOf key (execAddr txExecer)
    ∨ (DepositOf key (execAddr realExecer) ∧ friend realExecer key txExecer = true)
    ∨ (¬ DepositOf key (execAddr realExecer) ∧ friend x key txExecer = true))

/-- **allow_iff_spec** — the code-shaped predicate (`isAllowKeyWrite`, index loops and all) accepts
exactly the keys of the grammar, for every configuration (main chain / `user.p.x.` para chain,
before / after ForkExecKey), every address function and every friend oracle. -/
theorem allow_iff_spec (cfg : Cfg) (execAddr : Bytes → Bytes) (friend : Bytes → Bytes → Bytes → Bool)
    (key realExecer txExecer : Bytes) :
    isAllowKeyWrite cfg execAddr friend key realExecer txExecer = true ↔
      AllowedSpec cfg execAddr friend key realExecer txExecer := by
  unfold isAllowKeyWrite AllowedSpec
  cases hf : findExecer key with
  | error e =>
    simp only [Bool.false_eq_true, false_iff]
    rintro ⟨x, hx, _⟩
    rw [findExecer_ok.2 hx] at hf; cases hf
  | ok ke =>
    have hke := findExecer_ok.1 hf
    have huniq : ∀ x, OwnerOf key x → x = ke := by
      intro x hx
      have := findExecer_ok.2 hx
      rw [hf] at this; injection this with this; exact this.symm
    have hdep : ∀ a, getExecKey key = some a ↔ DepositOf key a := fun a => getExecKey_some
    simp only
    split
    · rename_i h1
      simp only [true_iff]
      exact ⟨_, h1 ▸ hke, Or.inl rfl⟩
    · rename_i h1
      split
      · rename_i h2
        simp only [Bool.and_eq_true, Bool.not_eq_true', decide_eq_true_eq] at h2
        simp only [true_iff]
        exact ⟨ke, hke, Or.inr (Or.inl ⟨h2.1.1, h2.1.2, h2.2⟩)⟩
      · rename_i h2
        split
        · rename_i h3
          simp only [Bool.and_eq_true, Bool.not_eq_true', decide_eq_true_eq] at h3
          simp only [true_iff]
          exact ⟨ke, hke, Or.inr (Or.inr (Or.inl ⟨h3.1.1, h3.1.2, isPrefixOf_iff.1 h3.2⟩))⟩
        · rename_i h3
          have n2 : ¬ (cfg.forkExecKey = false ∧ getParaExec cfg txExecer = sManage ∧ ke = sConfig) := by
            intro h; apply h2
            simp only [Bool.and_eq_true, Bool.not_eq_true', decide_eq_true_eq]
            exact ⟨⟨h.1, h.2.1⟩, h.2.2⟩
          have n3 : ¬ (cfg.forkExecKey = false ∧ getParaExec cfg txExecer = sToken ∧ ∃ t, key = sCreateToken ++ t) := by
            intro h; apply h3
            simp only [Bool.and_eq_true, Bool.not_eq_true', decide_eq_true_eq]
            exact ⟨⟨h.1, h.2.1⟩, isPrefixOf_iff.2 h.2.2⟩
          split
          · rename_i h4
            simp only [true_iff]
            exact ⟨ke, hke, Or.inr (Or.inr (Or.inr (Or.inl ((hdep _).1 h4))))⟩
          · rename_i h4
            have n4 : ¬ DepositOf key (execAddr txExecer) := fun h => h4 ((hdep _).2 h)
            split
            · rename_i h5
              have d5 := (hdep _).1 h5
              constructor
              · intro hfr
                exact ⟨ke, hke, Or.inr (Or.inr (Or.inr (Or.inr (Or.inl ⟨d5, hfr⟩))))⟩
              · rintro ⟨x, hx, h⟩
                have := huniq x hx; subst this
                rcases h with h | h | h | h | h | h
                · exact absurd h h1
                · exact absurd h n2
                · exact absurd h n3
                · exact absurd h n4
                · exact h.2
                · exact absurd d5 h.1
            · rename_i h5
              have n5 : ¬ DepositOf key (execAddr realExecer) := fun h => h5 ((hdep _).2 h)
              constructor
              · intro hfr
                exact ⟨ke, hke, Or.inr (Or.inr (Or.inr (Or.inr (Or.inr ⟨n5, hfr⟩))))⟩
              · rintro ⟨x, hx, h⟩
                have := huniq x hx; subst this
                rcases h with h | h | h | h | h | h
                · exact absurd h h1
                · exact absurd h n2
                · exact absurd h n3
                · exact absurd h n4
                · exact absurd h.1 n5
                · exact h.2

end C12
