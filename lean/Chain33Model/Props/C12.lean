import Chain33Model.Proofs.C12
import Chain33Model.Proofs.C11
/-!
C12 — transactions can only write where their executor is allowed.  Property theorems only.
-/
namespace C12

/-- The grammar of state keys a transaction with executor name `txExecer` (driver code name
`realExecer`) may report in its receipt.  The key must be `mavl-<x>-…` and
* lie in its own namespace (`x` = the executor name with the para-chain title stripped), or
* (before ForkExecKey only) be one of the two historical exceptions, or
* lie in *its own* deposit area inside any executor (`mavl-<x>-<y>-exec-<addr(txExecer)>:…`), or
* be approved by the owning executor's friend rule — the owner being the driver `realExecer`
  when the key lies in `realExecer`'s deposit area, and `x` otherwise. -/
def AllowedSpec (cfg : Cfg) (execAddr : Bytes → Bytes) (friend : Bytes → Bytes → Bytes → Bool)
    (key realExecer txExecer : Bytes) : Prop :=
  ∃ x, OwnerOf key x ∧
    ( x = getParaExec cfg txExecer
    ∨ (cfg.forkExecKey = false ∧ getParaExec cfg txExecer = sManage ∧ x = sConfig)
    ∨ (cfg.forkExecKey = false ∧ getParaExec cfg txExecer = sToken ∧ ∃ t, key = sCreateToken ++ t)
    ∨ DepositOf key (execAddr txExecer)
    ∨ (DepositOf key (execAddr realExecer) ∧ friend realExecer key txExecer = true)
    ∨ (¬ DepositOf key (execAddr realExecer) ∧ friend x key txExecer = true))

/-- **allow_iff_spec** — the code-shaped predicate (`isAllowKeyWrite`, index loops and all) accepts
exactly the keys of the grammar, for every configuration (main chain / `user.p.x.` para chain,
before / after ForkExecKey), every address function and every friend oracle. -/
theorem allow_iff_spec (cfg : Cfg) (execAddr : Bytes → Bytes) (friend : Bytes → Bytes → Bytes → Bool)
    (key realExecer txExecer : Bytes) :
    isAllowKeyWrite cfg execAddr friend key realExecer txExecer = true ↔
      AllowedSpec cfg execAddr friend key realExecer txExecer := by
  unfold isAllowKeyWrite AllowedSpec
  cases hf : findExecer key with
  | error e =>
    simp only [Bool.false_eq_true, false_iff]
    rintro ⟨x, hx, _⟩
    rw [findExecer_ok.2 hx] at hf; cases hf
  | ok ke =>
    have hke := findExecer_ok.1 hf
    have huniq : ∀ x, OwnerOf key x → x = ke := by
      intro x hx
      have := findExecer_ok.2 hx
      rw [hf] at this; injection this with this; exact this.symm
    have hdep : ∀ a, getExecKey key = some a ↔ DepositOf key a := fun a => getExecKey_some
    simp only
    split
    · rename_i h1
      simp only [true_iff]
      exact ⟨_, h1 ▸ hke, Or.inl rfl⟩
    · rename_i h1
      split
      · rename_i h2
        simp only [Bool.and_eq_true, Bool.not_eq_true', decide_eq_true_eq] at h2
        simp only [true_iff]
        exact ⟨ke, hke, Or.inr (Or.inl ⟨h2.1.1, h2.1.2, h2.2⟩)⟩
      · rename_i h2
        split
        · rename_i h3
          simp only [Bool.and_eq_true, Bool.not_eq_true', decide_eq_true_eq] at h3
          simp only [true_iff]
          exact ⟨ke, hke, Or.inr (Or.inr (Or.inl ⟨h3.1.1, h3.1.2, isPrefixOf_iff.1 h3.2⟩))⟩
        · rename_i h3
          have n2 : ¬ (cfg.forkExecKey = false ∧ getParaExec cfg txExecer = sManage ∧ ke = sConfig) := by
            intro h; apply h2
            simp only [Bool.and_eq_true, Bool.not_eq_true', decide_eq_true_eq]
            exact ⟨⟨h.1, h.2.1⟩, h.2.2⟩
          have n3 : ¬ (cfg.forkExecKey = false ∧ getParaExec cfg txExecer = sToken ∧ ∃ t, key = sCreateToken ++ t) := by
            intro h; apply h3
            simp only [Bool.and_eq_true, Bool.not_eq_true', decide_eq_true_eq]
            exact ⟨⟨h.1, h.2.1⟩, isPrefixOf_iff.2 h.2.2⟩
          split
          · rename_i h4
            simp only [true_iff]
            exact ⟨ke, hke, Or.inr (Or.inr (Or.inr (Or.inl ((hdep _).1 h4))))⟩
          · rename_i h4
            have n4 : ¬ DepositOf key (execAddr txExecer) := fun h => h4 ((hdep _).2 h)
            split
            · rename_i h5
              have d5 := (hdep _).1 h5
              constructor
              · intro hfr
                exact ⟨ke, hke, Or.inr (Or.inr (Or.inr (Or.inr (Or.inl ⟨d5, hfr⟩))))⟩
              · rintro ⟨x, hx, h⟩
                have := huniq x hx; subst this
                rcases h with h | h | h | h | h | h
                · exact absurd h h1
                · exact absurd h n2
                · exact absurd h n3
                · exact absurd h n4
                · exact h.2
                · exact absurd d5 h.1
            · rename_i h5
              have n5 : ¬ DepositOf key (execAddr realExecer) := fun h => h5 ((hdep _).2 h)
              constructor
              · intro hfr
                exact ⟨ke, hke, Or.inr (Or.inr (Or.inr (Or.inr (Or.inr ⟨n5, hfr⟩))))⟩
              · rintro ⟨x, hx, h⟩
                have := huniq x hx; subst this
                rcases h with h | h | h | h | h | h
                · exact absurd h h1
                · exact absurd h n2
                · exact absurd h n3
                · exact absurd h n4
                · exact absurd h.1 n5
                · exact h.2


/-! ### local keys -/

/-- `key = "LODB-" ++ execer ++ "-" ++ rest` with a non-empty `rest` (and a non-empty executor name). -/
def LocalSpec (execer key : Bytes) : Prop :=
  execer ≠ [] ∧ ∃ rest, rest ≠ [] ∧ key = localPrefix ++ dash :: (execer ++ dash :: rest)

/-- **localkey_iff** — `isAllowLocalKey2` (length and index checks) accepts exactly the keys that carry
the executor's local prefix followed by something. -/
theorem localkey_iff (execer key : Bytes) :
    isAllowLocalKey2 execer key = none ↔ LocalSpec execer key := by
  unfold isAllowLocalKey2 LocalSpec
  constructor
  · intro h
    split at h
    · cases h
    · rename_i h0
      simp only at h
      split at h
      · cases h
      · rename_i hlen
        split at h
        · cases h
        · rename_i hd
          split at h
          · cases h
          · rename_i hp
            split at h
            · cases h
            · rename_i he
              simp only [Bool.not_eq_true, Bool.not_eq_false'] at hp he
              simp only [Bool.or_eq_true, bne_iff_ne, ne_eq, not_or, Classical.not_not] at hd
              obtain ⟨t, ht⟩ := isPrefixOf_iff.1 hp
              subst ht
              have hl4 : localPrefix.length = 4 := rfl
              have hd2 := hd.2
              rw [hl4] at hd2
              cases t with
              | nil => simp [localPrefix] at hd2
              | cons c t' =>
                have hc : c = dash := by simpa [localPrefix] using hd2
                subst hc
                have hdrop : (localPrefix ++ dash :: t').drop (localPrefix.length + 1) = t' := by
                  simp [localPrefix]
                rw [hdrop] at he
                obtain ⟨u, hu⟩ := isPrefixOf_iff.1 he
                subst hu
                have hd1 := hd.1
                have hidx : localPrefix.length + execer.length + 2 - 1 = 4 + 1 + execer.length := by
                  rw [hl4]; omega
                rw [hidx] at hd1
                have : (localPrefix ++ dash :: (execer ++ u))[4 + 1 + execer.length]? = u[0]? := by
                  rw [List.getElem?_append_right (by simp [localPrefix]; omega)]
                  simp only [hl4]
                  rw [show 4 + 1 + execer.length - 4 = execer.length + 1 by omega]
                  rw [List.getElem?_cons_succ]
                  rw [List.getElem?_append_right (by omega)]
                  simp
                rw [this] at hd1
                cases u with
                | nil => simp at hd1
                | cons c2 rest =>
                  have hc2 : c2 = dash := by simpa using hd1
                  subst hc2
                  refine ⟨?_, rest, ?_, rfl⟩
                  · intro h; subst h; simp at h0
                  · intro h; subst h
                    simp [localPrefix] at hlen
                    omega
  · rintro ⟨hne, rest, hr, hk⟩
    subst hk
    have hl4 : localPrefix.length = 4 := rfl
    have h0 : ¬ execer.length < 1 := by
      cases execer with
      | nil => exact absurd rfl hne
      | cons _ _ => simp
    have hrl : 0 < rest.length := by
      cases rest with
      | nil => exact absurd rfl hr
      | cons _ _ => simp
    simp only [h0, if_false]
    have hlen : ¬ (localPrefix ++ dash :: (execer ++ dash :: rest)).length ≤ localPrefix.length + execer.length + 2 := by
      simp [localPrefix]; omega
    simp only [hlen, if_false]
    have hidx : localPrefix.length + execer.length + 2 - 1 = 4 + 1 + execer.length := by
      rw [hl4]; omega
    have g1 : (localPrefix ++ dash :: (execer ++ dash :: rest))[localPrefix.length + execer.length + 2 - 1]? = some dash := by
      rw [hidx]
      rw [List.getElem?_append_right (by simp [localPrefix]; omega)]
      simp only [hl4]
      rw [show 4 + 1 + execer.length - 4 = execer.length + 1 by omega]
      rw [List.getElem?_cons_succ]
      rw [List.getElem?_append_right (by omega)]
      simp
    have g2 : (localPrefix ++ dash :: (execer ++ dash :: rest))[localPrefix.length]? = some dash := by
      simp [localPrefix]
    have g3 : localPrefix.isPrefixOf (localPrefix ++ dash :: (execer ++ dash :: rest)) = true :=
      isPrefixOf_iff.2 ⟨_, rfl⟩
    have g4 : execer.isPrefixOf ((localPrefix ++ dash :: (execer ++ dash :: rest)).drop (localPrefix.length + 1)) = true := by
      have : (localPrefix ++ dash :: (execer ++ dash :: rest)).drop (localPrefix.length + 1) = execer ++ dash :: rest := by
        simp [localPrefix]
      rw [this]
      exact isPrefixOf_iff.2 ⟨_, rfl⟩
    simp only [g1, g2, g3, g4]
    simp

/-- `isAllowLocalKey` (what `checkPrefix` calls): the prefix of the transaction's executor name or of
its real (driver) name. -/
theorem localkey_real_iff (execer key : Bytes) :
    isAllowLocalKey execer key = none ↔ LocalSpec execer key ∨ LocalSpec (getRealExecName execer) key := by
  unfold isAllowLocalKey
  cases h2 : isAllowLocalKey2 execer key with
  | none => simp only [true_iff]; exact Or.inl ((localkey_iff _ _).1 h2)
  | some e =>
    have n1 : ¬ LocalSpec execer key := fun h => by rw [(localkey_iff _ _).2 h] at h2; cases h2
    simp only
    split
    · rename_i hne
      rw [localkey_iff]
      exact ⟨Or.inr, fun h => h.resolve_left n1⟩
    · rename_i heq
      simp only [bne_iff_ne, ne_eq, Classical.not_not] at heq
      simp only [reduceCtorEq, false_iff, not_or]
      exact ⟨n1, by rw [heq]; exact n1⟩

example : LocalSpec [118, 102, 98] [76, 79, 68, 66, 45, 118, 102, 98, 45, 107] :=
  ⟨by decide, [107], by decide, by decide⟩

/-! ### success implies coverage -/

open C11 in
/-- **exec_ok_implies_covered** — if `execTxOne` succeeds for a transaction run by a (synthetic) driver
inside a db transaction, then the receipt is ExecOk, its KVs are the fee KVs followed by the driver's
KVs `kv`, every key the program wrote through the StateDB is among `kv` (`checkKV`), and every key of
`kv` lies in the grammar `AllowedSpec` (own namespace | own deposit area | friend-approved).
(Otherwise the transaction fails, and by C11 `state_rollback_exact` its writes are discarded.) -/
theorem exec_ok_implies_covered (env : Env) (st : St) (feelog : Receipt) (tx : Tx) (d : Drv)
    (hd : loadDriver env tx.execer = some d) (hin : st.sdb.intx = true)
    (r : Receipt) (st' : St) (obs : List Obs) (h : execTxOne env st feelog tx = .ok r st' obs) :
    ∃ kv, r.ty = 2 ∧ r.kv = feelog.kv ++ kv ∧
      (∀ k ∈ stateWrites tx.execOps, k ∈ kv.map (·.1)) ∧
      (∀ p ∈ kv, AllowedSpec env.cfg env.execAddr (friendOracle env) p.1 (realExecName env tx.execer) tx.execer) := by
  obtain ⟨stE, kv, obsE, hE, hck, hall, hr, _⟩ := execTxOne_ok_shape env st feelog tx r st' obs h
  refine ⟨kv, ?_, ?_, ?_, ?_⟩
  · rw [hr, hd]; rfl
  · rw [hr, hd]; rfl
  · intro k hk
    have hkeys := execPhase_keys env st.startTx tx d hd (by simpa [St.startTx, StateDB.startTx] using hin)
    rw [hE] at hkeys
    simp only [startTx_keys, List.nil_append] at hkeys
    unfold checkKV at hck
    rw [List.all_eq_true] at hck
    have := hck k (by rw [hkeys]; exact hk)
    simpa using this
  · intro p hp
    exact (allow_iff_spec _ _ _ _ _ _).1 (hall p hp)

open C11 in
/-- **local_ok_prefix** — the local clause for *every* driver path that goes through `execLocalTx`
(`execLocalSameTime` inside `execTxOne`, and `procExecAddBlock → execLocalTx` when a block is
connected): if `execLocalTx` accepts the local KVs `decl` the driver's ExecLocal returned from state
`st`, each of them carries the local prefix of the transaction's executor name or of its driver name.
(Not modelled: `procExecDelBlock → checkPrefix` on the KVs of ExecDelLocal — the same `isAllowLocalKey`
predicate, characterised by `localkey_real_iff`, applied in a loop that panics on the first mismatch.) -/
theorem local_ok_prefix (st : St) (tx : Tx) (obs : List Obs) (st' : St) (obs' : List Obs)
    (h : execLocalTx st tx obs = .ok st' obs') :
    ∃ decl, (runLocalOps tx.localOps st [] obs).2.1 = .ok decl ∧
      ∀ kv ∈ decl, LocalSpec tx.execer kv.1 ∨ LocalSpec (getRealExecName tx.execer) kv.1 := by
  obtain ⟨decl, hd, hk⟩ := execLocalTx_ok_keys st tx obs st' obs' h
  exact ⟨decl, hd, fun kv hkv => (localkey_real_iff _ _).1 (hk kv hkv)⟩

open C11 in
/-- the same inside block execution: when the transaction of an ExecLocalSameTime driver succeeds, the
local KVs its ExecLocal produced **from the state `Exec` left** (`execPhase env st.startTx tx`) carry
the executor's local prefix. -/
theorem exec_ok_local_prefix (env : Env) (st : St) (feelog : Receipt) (tx : Tx)
    (hs : isExecLocalSameTime env tx.execer = true)
    (r : Receipt) (st' : St) (obs : List Obs) (h : execTxOne env st feelog tx = .ok r st' obs) :
    ∃ decl, (runLocalOps tx.localOps (execPhase env st.startTx tx).1 [] (execPhase env st.startTx tx).2.2).2.1 = .ok decl ∧
      ∀ kv ∈ decl, LocalSpec tx.execer kv.1 ∨ LocalSpec (getRealExecName tx.execer) kv.1 := by
  obtain ⟨stE, kv, obsE, hE, _, _, _, hl⟩ := execTxOne_ok_shape env st feelog tx r st' obs h
  obtain ⟨stL, obsL, hlr⟩ := hl hs
  rw [hE]
  exact local_ok_prefix stE tx obsE stL obsL hlr

open C11 in
/-- non-vacuity of `exec_ok_implies_covered`: a vfa transaction writing its own key inside a db
transaction succeeds, with a non-empty `stateWrites`. -/
example :
    let env : Env := { cfg := { isPara := false, title := [], forkExecKey := true },
                       allowUser := synthAllowUser, registry := fullRegistry }
    let tx : Tx := { acctKey := [1], fee := 1, execer := [118, 102, 97],
                     execOps := [.setS [109, 97, 118, 108, 45, 118, 102, 97, 45, 107] [9]], localOps := [] }
    let st : St := (initSt [([1], .acct 10)] []).begin env
    (∃ d, loadDriver env tx.execer = some d) ∧ st.sdb.intx = true ∧ stateWrites tx.execOps ≠ [] ∧
      ∃ r st' obs, execTxOne env st emptyPack tx = .ok r st' obs := by
  refine ⟨⟨_, rfl⟩, rfl, by decide, _, _, _, rfl⟩

/-- non-vacuity of `allow_iff_spec` / `exec_ok_implies_covered`: a deposit-area key is in the grammar. -/
example : AllowedSpec { isPara := false, title := [], forkExecKey := true } (fun _ => [65]) (fun _ _ _ => false)
    (mavlPrefix ++ [99] ++ [dash] ++ [98] ++ [dash] ++ execSeg ++ [dash] ++ [65] ++ [colon] ++ [117]) [120] [120] := by
  rw [← allow_iff_spec]; decide

end C12
