import Chain33Model.Proofs.C13
/-!
C13 — block execution is deterministic.  Property theorems only: order-irrelevance of every modelled source of
run-to-run variation (Go map iteration order, goroutine completion order).  A `List.Perm` hypothesis is "the same
things in any order".
-/
namespace C13

/-- **plugin order**: whatever order the map iteration yields the names in, the sorted list is the same —
`sortedPluginNames` (and `TransactionSort`'s title list) do not depend on Go's map randomisation. -/
theorem plugins_order_irrelevant {α : Type} {le : α → α → Bool} (h : LinOrd le) {l l' : List α} (p : l.Perm l') :
    sortI le l = sortI le l' := by
  induction p with
  | nil => rfl
  | cons x _ ih => simp [sortI, ih]
  | swap x y l => simp only [sortI]; exact ins_comm h _ _ _
  | trans _ _ ih1 ih2 => exact ih1.trans ih2

example : LinOrd (fun a b : Nat => decide (a ≤ b)) :=
  ⟨fun a b => by simp; omega, fun a b c => by simp; omega, fun a b => by simp; omega⟩

example : sortI (fun a b : Nat => decide (a ≤ b)) [3, 1, 2] = sortI (fun a b : Nat => decide (a ≤ b)) [2, 3, 1] := by decide

/-! ### fan-in by index -/

/-- **fan-in by index**: the goroutines of `GetMerkleRoot` / `calcMultiLayerMerkleInfo` deliver `(index, hash)`
pairs in an arbitrary order; storing each at its index yields the results in index order whatever the arrival
order was. -/
theorem fanin_by_index {α : Type} (n : Nat) (f : Nat → α) (arrivals : List (Nat × α))
    (h : arrivals.Perm ((List.range n).map (fun i => (i, f i)))) :
    collect n arrivals = (List.range n).map (fun i => some (f i)) := by
  have hnodup : (arrivals.map (·.1)).Nodup := by
    have hp := h.map (·.1)
    rw [List.map_map] at hp
    have : (List.map ((fun x => x.1) ∘ fun i => (i, f i)) (List.range n)) = List.range n := by
      simp [Function.comp_def]
    rw [this] at hp
    exact hp.nodup_iff.mpr List.nodup_range
  apply List.ext_getElem?
  intro i
  by_cases hi : i < n
  · have hm : (i, f i) ∈ arrivals := h.mem_iff.mpr (by simp only [List.mem_map, List.mem_range]; exact ⟨i, hi, rfl⟩)
    unfold collect
    rw [getElem?_foldl_set arrivals hnodup _ i (f i) hm (by simp [hi])]
    simp [hi]
  · have h1 : (collect n arrivals).length = n := by unfold collect; rw [length_foldl_set]; simp
    rw [List.getElem?_eq_none (by omega), List.getElem?_eq_none (by simp; omega)]

example : collect 3 [(2, "c"), (0, "a"), (1, "b")] = [some "a", some "b", some "c"] := by decide

/-! ### signature verification -/

/-- **verification fan-in**: the verdict is the conjunction of the workers' results, whatever the order in which
they arrive (including where the first failure stops the loop). -/
theorem verify_all_order_irrelevant {l l' : List Bool} (p : l.Perm l') : verifyLoop l = verifyLoop l' := by
  induction p with
  | nil => rfl
  | cons x _ ih => simp [verifyLoop, ih]
  | swap x y l => cases x <;> cases y <;> simp [verifyLoop]
  | trans _ _ ih1 ih2 => exact ih1.trans ih2

theorem verifyLoop_iff (l : List Bool) : verifyLoop l = true ↔ ∀ r ∈ l, r = true := by
  induction l with
  | nil => simp [verifyLoop]
  | cons r rest ih => cases r <;> simp [verifyLoop, ih]

theorem mem_zip_of_mem_right {α β : Type} (as : List α) (bs : List β) (h : as.length = bs.length) (b : β) (hb : b ∈ bs) :
    ∃ a, (a, b) ∈ as.zip bs := by
  induction bs generalizing as with
  | nil => simp at hb
  | cons x rest ih =>
    cases as with
    | nil => simp at h
    | cons a as' =>
      simp only [List.length_cons, Nat.add_right_cancel_iff] at h
      rcases List.mem_cons.mp hb with e | e
      · exact ⟨a, by simp [e]⟩
      · obtain ⟨a', ha'⟩ := ih as' h e
        exact ⟨a', by simp [ha']⟩

/-- **any number of workers ≥ 1, any distribution of the transactions over them, any arrival order**: the verdict of
the worker pool is the conjunction of all signature verdicts — independent of `runtime.NumCPU()`, of which goroutine
took which transaction and of the order the results arrive in. -/
theorem verify_worker_count_irrelevant (w : Nat) (hw : 1 ≤ w) (takes : List Nat) (verdicts : List Bool)
    (hl : takes.length = verdicts.length) (ht : ∀ t ∈ takes, t < w) (arrivals : List Bool)
    (hp : arrivals.Perm (workerResults w takes verdicts).flatten) : verifyLoop arrivals = verifyLoop verdicts := by
  have _ := hw
  rw [Bool.eq_iff_iff, verifyLoop_iff, verifyLoop_iff]
  have hmem : ∀ b, b ∈ arrivals ↔ b ∈ verdicts := by
    intro b
    rw [hp.mem_iff]
    simp only [workerResults, List.mem_flatten, List.mem_map, List.mem_range, List.mem_filter, decide_eq_true_eq]
    constructor
    · rintro ⟨l, ⟨k, _, rfl⟩, hb⟩
      simp only [List.mem_map, List.mem_filter, decide_eq_true_eq] at hb
      obtain ⟨p, ⟨hpz, _⟩, rfl⟩ := hb
      exact (List.of_mem_zip hpz).2
    · intro hb
      obtain ⟨t, hz⟩ := mem_zip_of_mem_right takes verdicts hl b hb
      have htw := ht t (List.of_mem_zip hz).1
      refine ⟨_, ⟨t, htw, rfl⟩, ?_⟩
      simp only [List.mem_map, List.mem_filter, decide_eq_true_eq]
      exact ⟨(t, b), ⟨hz, rfl⟩, rfl⟩
  exact ⟨fun h r hr => h r ((hmem r).mpr hr), fun h r hr => h r ((hmem r).mp hr)⟩

example : verifyLoop (workerResults 3 [2, 0, 2, 1] [true, false, true, true]).flatten = verifyLoop [true, false, true, true] := by decide

/-- why the worker count must never be 0 (it cannot with `runtime.NumCPU()`): without workers nothing is verified and
the empty result stream reads as "all signatures good" although one is bad. -/
theorem zero_workers_accept_invalid :
    verifyLoop (workerResults 0 [] [false]).flatten = true ∧ verifyLoop [false] = false := by decide

/-! ### checkKV -/

/-- **checkKV**: the verdict depends neither on the order of the written keys nor on the order (or the Go map
layout) of the receipt's key set. -/
theorem checkKV_order_irrelevant {K V : Type} [DecidableEq K] {m m' : List K} {l l' : List (K × V)}
    (pm : m.Perm m') (pl : l.Perm l') : checkKV m l = checkKV m' l' := by
  rw [Bool.eq_iff_iff]
  simp only [checkKV, List.all_eq_true, List.any_eq_true, decide_eq_true_eq]
  constructor
  · intro h k hk
    obtain ⟨p, hp, e⟩ := h k (pm.mem_iff.mpr hk)
    exact ⟨p, pl.mem_iff.mp hp, e⟩
  · intro h k hk
    obtain ⟨p, hp, e⟩ := h k (pm.mem_iff.mp hk)
    exact ⟨p, pl.mem_iff.mpr hp, e⟩

/-! ### DelDupKey -/

/-- **DelDupKey**: the output keys are the first occurrences of the input keys, in input order, and every key
carries the value of its LAST occurrence — a function of the input list alone (the Go map `dupindex` is only
looked up by key, never iterated). -/
theorem delDupKey_spec {K V : Type} [DecidableEq K] (l : List (K × V)) :
    (delDup l).map (·.1) = firstOcc (l.map (·.1)) ∧ ∀ k v, (k, v) ∈ delDup l → lastVal l k = some v := by
  have h := delDup_inv l [] [] (by constructor <;> simp [firstOcc])
  simp only [List.nil_append] at h
  exact h

example : delDup [(1, "a"), (2, "b"), (1, "c"), (3, "d"), (2, "e")] = [(1, "c"), (2, "e"), (3, "d")] := by decide

/-! ### cacheDB.Merge and ActionName -/

/-- **cacheDB.Merge**: copying the entries of a Go map (pairwise distinct keys) into another map gives the same
map whatever the iteration order. -/
theorem merge_order_irrelevant {K V : Type} [DecidableEq K] (m : K → Option V) {l l' : List (K × V)}
    (p : l.Perm l') (hn : (l.map (·.1)).Nodup) : mergeInto m l = mergeInto m l' := by
  unfold mergeInto
  induction p generalizing m with
  | nil => rfl
  | cons x _ ih =>
    simp only [List.foldl_cons]
    simp only [List.map_cons, List.nodup_cons] at hn
    exact ih _ hn.2
  | swap x y l =>
    simp only [List.foldl_cons]
    simp only [List.map_cons, List.nodup_cons, List.mem_cons, not_or] at hn
    congr 1
    funext k
    by_cases e1 : k = x.1
    · by_cases e2 : k = y.1
      · exact absurd (e2.symm.trans e1) hn.1.1
      · have : ¬ x.1 = y.1 := fun h => hn.1.1 h.symm
        subst e1; simp [this]
    · by_cases e2 : k = y.1
      · subst e2; simp [hn.1.1]
      · simp [e1, e2]
  | trans p1 _ ih1 ih2 =>
    rw [ih1 m hn]
    exact ih2 m ((p1.map (·.1)).nodup_iff.mp hn)

/-- **ActionName**: looking a value up by scanning a Go map finds the same key whatever the iteration order,
as long as the map is injective (distinct action numbers — true of every registered type map). -/
theorem findByValue_order_irrelevant {K V : Type} [DecidableEq V] (ty : V) {l l' : List (K × V)}
    (p : l.Perm l') (hn : (l.map (·.2)).Nodup) : findByValue ty l = findByValue ty l' := by
  induction p with
  | nil => rfl
  | cons x _ ih =>
    obtain ⟨k, v⟩ := x
    simp only [List.map_cons, List.nodup_cons] at hn
    simp only [findByValue, ih hn.2]
  | swap x y l =>
    obtain ⟨k1, v1⟩ := x
    obtain ⟨k2, v2⟩ := y
    simp only [List.map_cons, List.nodup_cons, List.mem_cons, not_or] at hn
    simp only [findByValue]
    by_cases e1 : v1 = ty <;> by_cases e2 : v2 = ty <;> simp [e1, e2]
    · exact absurd (e2.trans e1.symm) hn.1.1
  | trans p1 _ ih1 ih2 =>
    rw [ih1 hn]
    exact ih2 ((p1.map (·.2)).nodup_iff.mp hn)

end C13
