import Chain33Model.Proofs.C13
/-!
C13 — block execution is deterministic.  Property theorems only: order-irrelevance of every modelled source of
run-to-run variation (Go map iteration order, goroutine completion order).  A `List.Perm` hypothesis is "the same
things in any order".
-/
namespace C13

/-- **plugin order**: whatever order the map iteration yields the names in, the sorted list is the same —
`sortedPluginNames` (and `TransactionSort`'s title list) do not depend on Go's map randomisation. -/
theorem plugins_order_irrelevant {α : Type} {le : α → α → Bool} (h : LinOrd le) {l l' : List α} (p : l.Perm l') :
    sortI le l = sortI le l' := by
  induction p with
  | nil => rfl
  | cons x _ ih => simp [sortI, ih]
  | swap x y l => simp only [sortI]; exact ins_comm h _ _ _
  | trans _ _ ih1 ih2 => exact ih1.trans ih2

example : LinOrd (fun a b : Nat => decide (a ≤ b)) :=
  ⟨fun a b => by simp; omega, fun a b c => by simp; omega, fun a b => by simp; omega⟩

example : sortI (fun a b : Nat => decide (a ≤ b)) [3, 1, 2] = sortI (fun a b : Nat => decide (a ≤ b)) [2, 3, 1] := by decide

/-! ### fan-in by index -/

/-- **fan-in by index**: the goroutines of `GetMerkleRoot` / `calcMultiLayerMerkleInfo` deliver `(index, hash)`
pairs in an arbitrary order; storing each at its index yields the results in index order whatever the arrival
order was. -/
theorem fanin_by_index {α : Type} (n : Nat) (f : Nat → α) (arrivals : List (Nat × α))
    (h : arrivals.Perm ((List.range n).map (fun i => (i, f i)))) :
    collect n arrivals = (List.range n).map (fun i => some (f i)) := by
  have hnodup : (arrivals.map (·.1)).Nodup := by
    have hp := h.map (·.1)
    rw [List.map_map] at hp
    have : (List.map ((fun x => x.1) ∘ fun i => (i, f i)) (List.range n)) = List.range n := by
      simp [Function.comp_def]
    rw [this] at hp
    exact hp.nodup_iff.mpr List.nodup_range
  apply List.ext_getElem?
  intro i
  by_cases hi : i < n
  · have hm : (i, f i) ∈ arrivals := h.mem_iff.mpr (by simp only [List.mem_map, List.mem_range]; exact ⟨i, hi, rfl⟩)
    unfold collect
    rw [getElem?_foldl_set arrivals hnodup _ i (f i) hm (by simp [hi])]
    simp [hi]
  · have h1 : (collect n arrivals).length = n := by unfold collect; rw [length_foldl_set]; simp
    rw [List.getElem?_eq_none (by omega), List.getElem?_eq_none (by simp; omega)]

example : collect 3 [(2, "c"), (0, "a"), (1, "b")] = [some "a", some "b", some "c"] := by decide

/-! ### signature verification -/

/-- **verification fan-in**: the verdict is the conjunction of the workers' results, whatever the order in which
they arrive (including where the first failure stops the loop). -/
theorem verify_all_order_irrelevant {l l' : List Bool} (p : l.Perm l') : verifyLoop l = verifyLoop l' := by
  induction p with
  | nil => rfl
  | cons x _ ih => simp [verifyLoop, ih]
  | swap x y l => cases x <;> cases y <;> simp [verifyLoop]
  | trans _ _ ih1 ih2 => exact ih1.trans ih2

theorem verifyLoop_iff (l : List Bool) : verifyLoop l = true ↔ ∀ r ∈ l, r = true := by
  induction l with
  | nil => simp [verifyLoop]
  | cons r rest ih => cases r <;> simp [verifyLoop, ih]

theorem mem_zip_of_mem_right {α β : Type} (as : List α) (bs : List β) (h : as.length = bs.length) (b : β) (hb : b ∈ bs) :
    ∃ a, (a, b) ∈ as.zip bs := by
  induction bs generalizing as with
  | nil => simp at hb
  | cons x rest ih =>
    cases as with
    | nil => simp at h
    | cons a as' =>
      simp only [List.length_cons, Nat.add_right_cancel_iff] at h
      rcases List.mem_cons.mp hb with e | e
      · exact ⟨a, by simp [e]⟩
      · obtain ⟨a', ha'⟩ := ih as' h e
        exact ⟨a', by simp [ha']⟩

/-- **any number of workers ≥ 1, any distribution of the transactions over them, any arrival order**: the verdict of
the worker pool is the conjunction of all signature verdicts — independent of `runtime.NumCPU()`, of which goroutine
took which transaction and of the order the results arrive in. -/
theorem verify_worker_count_irrelevant (w : Nat) (hw : 1 ≤ w) (takes : List Nat) (verdicts : List Bool)
    (hl : takes.length = verdicts.length) (ht : ∀ t ∈ takes, t < w) (arrivals : List Bool)
    (hp : arrivals.Perm (workerResults w takes verdicts).flatten) : verifyLoop arrivals = verifyLoop verdicts := by
  have _ := hw
  rw [Bool.eq_iff_iff, verifyLoop_iff, verifyLoop_iff]
  have hmem : ∀ b, b ∈ arrivals ↔ b ∈ verdicts := by
    intro b
    rw [hp.mem_iff]
    simp only [workerResults, List.mem_flatten, List.mem_map, List.mem_range, List.mem_filter, decide_eq_true_eq]
    constructor
    · rintro ⟨l, ⟨k, _, rfl⟩, hb⟩
      simp only [List.mem_map, List.mem_filter, decide_eq_true_eq] at hb
      obtain ⟨p, ⟨hpz, _⟩, rfl⟩ := hb
      exact (List.of_mem_zip hpz).2
    · intro hb
      obtain ⟨t, hz⟩ := mem_zip_of_mem_right takes verdicts hl b hb
      have htw := ht t (List.of_mem_zip hz).1
      refine ⟨_, ⟨t, htw, rfl⟩, ?_⟩
      simp only [List.mem_map, List.mem_filter, decide_eq_true_eq]
      exact ⟨(t, b), ⟨hz, rfl⟩, rfl⟩
  exact ⟨fun h r hr => h r ((hmem r).mpr hr), fun h r hr => h r ((hmem r).mp hr)⟩

example : verifyLoop (workerResults 3 [2, 0, 2, 1] [true, false, true, true]).flatten = verifyLoop [true, false, true, true] := by decide

/-- why the worker count must never be 0 (it cannot with `runtime.NumCPU()`): without workers nothing is verified and
the empty result stream reads as "all signatures good" although one is bad. -/
theorem zero_workers_accept_invalid :
    verifyLoop (workerResults 0 [] [false]).flatten = true ∧ verifyLoop [false] = false := by decide

/-! ### checkKV -/

/-- **checkKV**: the verdict depends neither on the order of the written keys nor on the order (or the Go map
layout) of the receipt's key set. -/
theorem checkKV_order_irrelevant {K V : Type} [DecidableEq K] {m m' : List K} {l l' : List (K × V)}
    (pm : m.Perm m') (pl : l.Perm l') : checkKV m l = checkKV m' l' := by
  rw [Bool.eq_iff_iff]
  simp only [checkKV, List.all_eq_true, List.any_eq_true, decide_eq_true_eq]
  constructor
  · intro h k hk
    obtain ⟨p, hp, e⟩ := h k (pm.mem_iff.mpr hk)
    exact ⟨p, pl.mem_iff.mp hp, e⟩
  · intro h k hk
    obtain ⟨p, hp, e⟩ := h k (pm.mem_iff.mp hk)
    exact ⟨p, pl.mem_iff.mpr hp, e⟩

/-! ### DelDupKey -/

/-- **DelDupKey**: the output keys are the first occurrences of the input keys, in input order, and every key
carries the value of its LAST occurrence — a function of the input list alone (the Go map `dupindex` is only
looked up by key, never iterated). -/
theorem delDupKey_spec {K V : Type} [DecidableEq K] (l : List (K × V)) :
    (delDup l).map (·.1) = firstOcc (l.map (·.1)) ∧ ∀ k v, (k, v) ∈ delDup l → lastVal l k = some v := by
  have h := delDup_inv l [] [] (by constructor <;> simp [firstOcc])
  simp only [List.nil_append] at h
  exact h

example : delDup [(1, "a"), (2, "b"), (1, "c"), (3, "d"), (2, "e")] = [(1, "c"), (2, "e"), (3, "d")] := by decide

/-! ### cacheDB.Merge and ActionName -/

/-- **cacheDB.Merge**: copying the entries of a Go map (pairwise distinct keys) into another map gives the same
map whatever the iteration order. -/
theorem merge_order_irrelevant {K V : Type} [DecidableEq K] (m : K → Option V) {l l' : List (K × V)}
    (p : l.Perm l') (hn : (l.map (·.1)).Nodup) : mergeInto m l = mergeInto m l' := by
  unfold mergeInto
  induction p generalizing m with
  | nil => rfl
  | cons x _ ih =>
    simp only [List.foldl_cons]
    simp only [List.map_cons, List.nodup_cons] at hn
    exact ih _ hn.2
  | swap x y l =>
    simp only [List.foldl_cons]
    simp only [List.map_cons, List.nodup_cons, List.mem_cons, not_or] at hn
    congr 1
    funext k
    by_cases e1 : k = x.1
    · by_cases e2 : k = y.1
      · exact absurd (e2.symm.trans e1) hn.1.1
      · have : ¬ x.1 = y.1 := fun h => hn.1.1 h.symm
        subst e1; simp [this]
    · by_cases e2 : k = y.1
      · subst e2; simp [hn.1.1]
      · simp [e1, e2]
  | trans p1 _ ih1 ih2 =>
    rw [ih1 m hn]
    exact ih2 m ((p1.map (·.1)).nodup_iff.mp hn)

/-- **ActionName**: looking a value up by scanning a Go map finds the same key whatever the iteration order,
as long as the map is injective (distinct action numbers — true of every registered type map). -/
theorem findByValue_order_irrelevant {K V : Type} [DecidableEq V] (ty : V) {l l' : List (K × V)}
    (p : l.Perm l') (hn : (l.map (·.2)).Nodup) : findByValue ty l = findByValue ty l' := by
  induction p with
  | nil => rfl
  | cons x _ ih =>
    obtain ⟨k, v⟩ := x
    simp only [List.map_cons, List.nodup_cons] at hn
    simp only [findByValue, ih hn.2]
  | swap x y l =>
    obtain ⟨k1, v1⟩ := x
    obtain ⟨k2, v2⟩ := y
    simp only [List.map_cons, List.nodup_cons, List.mem_cons, not_or] at hn
    simp only [findByValue]
    by_cases e1 : v1 = ty <;> by_cases e2 : v2 = ty <;> simp [e1, e2]
    · exact absurd (e2.trans e1.symm) hn.1.1
  | trans p1 _ ih1 ih2 =>
    rw [ih1 hn]
    exact ih2 ((p1.map (·.2)).nodup_iff.mp hn)

/-! ### composite -/

/-- a schedule is a possible execution of the given block: the same plugin names, the same merkle children (one result
per index), the same signature verdicts distributed over ≥ 1 workers, the same cache entries — in some order. -/
structure Admissible {Name Hash K V : Type} (names : List Name) (n : Nat) (child : Nat → Hash) (verdicts : List Bool)
    (entries : List (K × V)) (s : Sched Name Hash K V) : Prop where
  plugins : s.pluginOrder.Perm names
  merkle : s.merkleArrivals.Perm ((List.range n).map (fun i => (i, child i)))
  workers : 1 ≤ s.workers
  takesLen : s.takes.length = verdicts.length
  takesLt : ∀ t ∈ s.takes, t < s.workers
  sigs : s.sigArrivals.Perm (workerResults s.workers s.takes verdicts).flatten
  merge : s.mergeOrder.Perm entries

/-- **two runs, partial composite**: whatever the Go runtime chooses in two executions of the same block (map iteration
orders, goroutine completion orders, number of signature workers and which of them takes which transaction), the
modelled helpers contribute the same sorted plugin list, merkle child list, signature verdict, de-duplicated KV set,
checkKV verdict and merged cache. PARTIAL with respect to the property: the transaction execution inside the dapp
drivers, the state tree and the database are not part of the model (they are compared by the repeated-execution
predicate), and `pluginBase.flag` is treated separately below. -/
theorem two_runs_equal_partial {Name Hash K V : Type} [DecidableEq K] {le : Name → Name → Bool} (hle : LinOrd le)
    (names : List Name) (n : Nat) (child : Nat → Hash) (verdicts : List Bool) (entries : List (K × V))
    (hn : (entries.map (·.1)).Nodup) (receiptKVs : List (K × V)) (memset : List K) (cache0 : K → Option V)
    (s1 s2 : Sched Name Hash K V) (h1 : Admissible names n child verdicts entries s1)
    (h2 : Admissible names n child verdicts entries s2) :
    (runHelpers le n receiptKVs memset cache0 s1).plugins = (runHelpers le n receiptKVs memset cache0 s2).plugins ∧
    (runHelpers le n receiptKVs memset cache0 s1).children = (runHelpers le n receiptKVs memset cache0 s2).children ∧
    (runHelpers le n receiptKVs memset cache0 s1).sigOk = (runHelpers le n receiptKVs memset cache0 s2).sigOk ∧
    (runHelpers le n receiptKVs memset cache0 s1).kvs = (runHelpers le n receiptKVs memset cache0 s2).kvs ∧
    (runHelpers le n receiptKVs memset cache0 s1).kvAllowed = (runHelpers le n receiptKVs memset cache0 s2).kvAllowed ∧
    (runHelpers le n receiptKVs memset cache0 s1).cache = (runHelpers le n receiptKVs memset cache0 s2).cache := by
  refine ⟨?_, ?_, ?_, rfl, rfl, ?_⟩
  · exact plugins_order_irrelevant hle (h1.plugins.trans h2.plugins.symm)
  · simp only [runHelpers]
    rw [fanin_by_index n child _ h1.merkle, fanin_by_index n child _ h2.merkle]
  · simp only [runHelpers]
    rw [verify_worker_count_irrelevant _ h1.workers _ verdicts h1.takesLen h1.takesLt _ h1.sigs,
      verify_worker_count_irrelevant _ h2.workers _ verdicts h2.takesLen h2.takesLt _ h2.sigs]
  · simp only [runHelpers]
    have hn1 : (s1.mergeOrder.map (·.1)).Nodup := (h1.merge.map (·.1)).nodup_iff.mpr hn
    exact merge_order_irrelevant cache0 (h1.merge.trans h2.merge.symm) hn1

/-- non-vacuity: two different admissible schedules of one block. -/
example :
    Admissible (Name := Nat) (Hash := Nat) (K := Nat) (V := Nat) [1, 2] 2 (fun i => i + 10) [true, false] [(5, 6)]
      { pluginOrder := [2, 1], merkleArrivals := [(1, 11), (0, 10)], workers := 2, takes := [1, 0], sigArrivals := [false, true],
        mergeOrder := [(5, 6)] } ∧
    Admissible (Name := Nat) (Hash := Nat) (K := Nat) (V := Nat) [1, 2] 2 (fun i => i + 10) [true, false] [(5, 6)]
      { pluginOrder := [1, 2], merkleArrivals := [(0, 10), (1, 11)], workers := 1, takes := [0, 0], sigArrivals := [true, false],
        mergeOrder := [(5, 6)] } := by
  constructor <;> exact ⟨by decide, by decide, by decide, by decide, by decide, by decide, by decide⟩

/-! ### pluginBase.flag -/

/-- **genesis is history-independent**: at height 0 an enabled flag-based plugin emits exactly the flag KV, whatever
the global plugin instance cached in earlier activity of the process and whatever the database holds. (The seeded
regression C13 broke exactly this.) -/
theorem checkFlag_genesis_history_independent (cached cached' db db' : Nat) :
    (checkFlag true cached db 0).1 = .ok [1] ∧ (checkFlag true cached db 0).1 = (checkFlag true cached' db' 0).1 := by
  simp [checkFlag]

/-- above height 0 the outcome is a function of the database alone as long as the cached value came from THIS database
(`cached ≠ 0 → db ≠ 0`). -/
theorem checkFlag_history_independent_consistent (en : Bool) (c1 c2 db height : Nat) (h1 : c1 ≠ 0 → db ≠ 0)
    (h2 : c2 ≠ 0 → db ≠ 0) : (checkFlag en c1 db height).1 = (checkFlag en c2 db height).1 := by
  unfold checkFlag
  cases en with
  | false => simp
  | true =>
    simp only [Bool.not_true, Bool.false_eq_true, if_false]
    by_cases e1 : c1 = 0 <;> by_cases e2 : c2 = 0 <;> by_cases eh : height = 0 <;> by_cases ed : db = 0 <;>
      simp_all

/-- ... and it IS history-dependent otherwise (unchanged code): on a database that lacks the flag (synchronised without
the plugin) a fresh process refuses height 5 with ErrDBFlag, a process whose global plugin instance already executed
another chain's genesis carries on. Outside the property's "same prior state" only in the sense that such a database is
what the check is there to reject; listed as a site, covered by the repeated-execution predicate for consistent chains. -/
theorem checkFlag_history_dependent_on_flagless_db :
    (checkFlag true 0 0 5).1 = .err ∧ (checkFlag true 1 0 5).1 = .ok [] := by decide

end C13
