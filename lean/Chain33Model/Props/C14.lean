import Chain33Model.Proofs.C14
/-!
C14 — local indexes are exactly undone when a block is removed.  Property theorems only.

`applyKVs` is `blockstore.AddTxs`/`DelTxs` (nil value => delete, else set, in order); `pluginsAdd`/`pluginsDel`,
`blockAdd`/`blockDel` are the KV lists `procExecAddBlock`/`procExecDelBlock` return; `obsEq` is equality of what a
local query can observe (absent ≡ empty value ≡ zero counter).
-/
namespace C14

/-- the keys a block creates for itself: its transactions' hash keys (incl. the 8-byte short hash and the eth
hash mapping), its per-address slots `height*MaxTxsPerBlock+index`, its fee-total key. -/
def ownKeys (b : Block) : List Key :=
  putKeys (feeIdxSteps true b.height 0 b.txs) ++ putKeys (addrSteps true b.height 0 b.txs) ++
    [Key.totalFee b.hash] ++ putKeys (txindexSteps true b)

theorem putKeys_append (a b : List Step) : putKeys (a ++ b) = putKeys a ++ putKeys b := by
  induction a with
  | nil => rfl
  | cons s rest ih => cases s <;> simp [putKeys, ih]

theorem putKeys_plugins (pf : Int × Int) (b : Block) : putKeys (pluginSteps true pf b) = ownKeys b := by
  simp [pluginSteps, ownKeys, putKeys_append, feeSteps, putKeys]

/-- **Index plugins, key by key (txindex, addrindex incl. the per-address counters, addrfeeindex, fee).** For every
store `m`, every block `b` (any number of transactions, any repetition of sender/recipient addresses, self-transfers,
any receipt types) and every key `k`: writing the add list and then the del list (computed, as in the code, against
the database that contains the block) restores `k` observationally — provided `k`, IF it is one of the block's own
keys, was unused before. Keys the block does not own need no hypothesis at all. -/
theorem del_after_add_id_plugins_key (m : Store) (b : Block) (A : List KV)
    (hA : pluginsAdd m b = some A) (k : Key) (hfresh : k ∈ ownKeys b → get m k = none) :
    obsEq (get (applyKVs (applyKVs m A) (pluginsDel (applyKVs m A) b)) k) (get m k) := by
  unfold pluginsAdd at hA
  cases hr : readFee (get m (Key.totalFee b.parent)) with
  | none => simp [hr] at hA
  | some pf =>
    simp only [hr, Option.map_some, Option.some.injEq] at hA
    subst hA
    unfold pluginsDel
    rw [applyKVs_run, applyKVs_run, ← exec_append]
    apply key_restored
    have hm := mirror_plugins pf (0, 0) b
    cases hc : k.isCounter with
    | true => exact Or.inl (mirror_counter hm k hc)
    | false => exact Or.inr (mirror_slot m hm k (by rw [putKeys_plugins]; exact hfresh) hc)

/-- **partial**: every key is restored when ALL own keys of the block were unused — including the short-hash keys
`STX:hash[:8]`, which duplicate checking does NOT guarantee (it compares full hashes): the added hypothesis is "no
transaction already on the chain shares its first 8 hash bytes with a transaction of the block". -/
theorem del_after_add_id_plugins_partial (m : Store) (b : Block) (A : List KV)
    (hA : pluginsAdd m b = some A) (hfresh : ∀ k ∈ ownKeys b, get m k = none) (k : Key) :
    obsEq (get (applyKVs (applyKVs m A) (pluginsDel (applyKVs m A) b)) k) (get m k) :=
  del_after_add_id_plugins_key m b A hA k (hfresh k)

/-- what a chain does guarantee for a new block: its full transaction keys, slots and fee-total key are unused
(duplicate checking on full hashes, removal of all higher blocks) — nothing about the 8-byte short keys. -/
def FreshExceptStx (m : Store) (b : Block) : Prop := ∀ k ∈ ownKeys b, k.isStx = false → get m k = none

/-- every key other than a short-hash key is restored under what the chain guarantees. -/
theorem del_after_add_id_plugins_except_stx (m : Store) (b : Block) (A : List KV)
    (hA : pluginsAdd m b = some A) (hfresh : FreshExceptStx m b) (k : Key) (hk : k.isStx = false) :
    obsEq (get (applyKVs (applyKVs m A) (pluginsDel (applyKVs m A) b)) k) (get m k) :=
  del_after_add_id_plugins_key m b A hA k (fun h => hfresh k h hk)

/-- the statement the property asks for: restoration of EVERY key under what the chain guarantees. -/
def PluginsFullStatement : Prop :=
  ∀ (m : Store) (b : Block) (A : List KV), pluginsAdd m b = some A → FreshExceptStx m b →
    ∀ k, obsEq (get (applyKVs (applyKVs m A) (pluginsDel (applyKVs m A) b)) k) (get m k)

/-- transaction A (hash 1,2,3,4,5,6,7,8,9) is on the chain; the block carries B (hash 1,2,3,4,5,6,7,8,77). -/
def exStxStore : Store := [(Key.stx [1,2,3,4,5,6,7,8], .blob [49]), (Key.tx true [1,2,3,4,5,6,7,8,9], .blob [5])]
def exStxTx : Tx := { hash := [1,2,3,4,5,6,7,8,77], sender := [65], to := [66], fee := 1, rty := 2, txres := [6], info := [2], feeinfo := [3] }
def exStxBlock : Block := { height := 9, hash := [8], parent := [9], quick := true, txs := [exStxTx] }

/-- **the full statement is false of the code**: `txindex` writes `STX:hash[:8]` for every transaction and
`ExecDelLocal` deletes it; removing a block whose transaction B shares its first 8 hash bytes with a transaction A
that stays on the chain deletes A's short key — and with quickIndex `BlockStore.HasTx(A)` then answers false
(duplicate detection for A is off). Replayed on the implementation with a real 8-byte hash-prefix collision. -/
theorem plugins_full_false : ¬ PluginsFullStatement := by
  intro h
  have hA : pluginsAdd exStxStore exStxBlock = some (run exStxStore (pluginSteps true (0, 0) exStxBlock)) := by decide
  have hf : FreshExceptStx exStxStore exStxBlock := by unfold FreshExceptStx; decide
  have h1 := h exStxStore exStxBlock _ hA hf (Key.stx [1,2,3,4,5,6,7,8])
  have e : get (applyKVs (applyKVs exStxStore (run exStxStore (pluginSteps true (0, 0) exStxBlock)))
      (pluginsDel (applyKVs exStxStore (run exStxStore (pluginSteps true (0, 0) exStxBlock))) exStxBlock))
      (Key.stx [1,2,3,4,5,6,7,8]) = none := by decide
  have e2 : get exStxStore (Key.stx [1,2,3,4,5,6,7,8]) = some (.blob [49]) := by decide
  rw [e, e2] at h1
  unfold obsEq at h1
  rcases h1 with h1 | ⟨_, h1⟩
  · simp at h1
  · rcases h1 with h1 | ⟨v, hv, he⟩
    · simp at h1
    · simp at hv; subst hv; simp [Val.isEmptyEnc] at he

/-- non-vacuity: a store with history (a counter at 3, a parent fee total) and a block with a self-transfer and a
repeated address satisfy the hypotheses. -/
example :
    let m : Store := [(Key.count [65], .int 3), (Key.totalFee [9], .fee 10 2)]
    let t1 : Tx := { hash := [1,1,1,1,1,1,1,1,1], sender := [65], to := [65], fee := 5, rty := 2, txres := [1], info := [2], feeinfo := [3] }
    let t2 : Tx := { hash := [2,2,2,2,2,2,2,2,2], sender := [65], to := [66], fee := 5, rty := 1, txres := [1], info := [2], feeinfo := [3] }
    let b : Block := { height := 7, hash := [8], parent := [9], quick := true, txs := [t1, t2] }
    (pluginsAdd m b).isSome = true ∧ ∀ k ∈ ownKeys b, get m k = none := by
  decide

/-- **Coins local data** (`Coins.ExecLocal` / `ExecDelLocal`, the latter per transaction in reverse block order):
for every store and every list of transactions — failed ones (receipt ExecPack), repeated addresses, withdrawals —
add then remove restores every key. The only hypothesis is a fact about heights above 0: no genesis action
executed successfully (`Exec_Genesis` fails there; there is no `ExecDelLocal_Genesis`). -/
theorem del_after_add_id_coins (m : Store) (txs : List Tx) (H : NoGenesisOk txs) (k : Key) :
    obsEq (get (applyKVs (applyKVs m (run m (coinsSteps true txs)))
      (run (applyKVs m (run m (coinsSteps true txs))) (coinsSteps false txs))) k) (get m k) := by
  rw [applyKVs_run, applyKVs_run, ← exec_append]
  exact key_restored m k _ _ (Or.inl (coins_counter k txs H))

/-- non-vacuity: a failed transfer and a successful one. -/
def exFailed : Tx := { hash := [1], sender := [65], to := [66], fee := 1, rty := 1, txres := [], info := [], feeinfo := [], coins := .transfer 5 }
def exOk : Tx := { hash := [2], sender := [65], to := [66], fee := 1, rty := 2, txres := [], info := [], feeinfo := [], coins := .transfer 7 }
example : NoGenesisOk [exFailed, exOk] := by
  intro t ht a hc
  simp at ht
  rcases ht with e | e <;> subst e <;> simp [exFailed, exOk] at hc

/-- **regression witness for the defect repaired in /repo (fix 303f1d2, S-C14)**: with the old `Coins.ExecLocal`,
which did not look at the receipt, a transfer of 5 that failed in execution (receipt ExecPack) was counted on add
and skipped on removal — the recipient's total stayed at 5; with the repaired code it stays absent. -/
theorem regression_coins_failed_transfer :
    get (applyKVs (applyKVs [] (run [] ([exFailed].flatMap coinsAddStepPreFix)))
      (run (applyKVs [] (run [] ([exFailed].flatMap coinsAddStepPreFix))) (coinsSteps false [exFailed]))) (Key.recv [66]) = some (.int 5) ∧
    get (applyKVs (applyKVs [] (run [] (coinsSteps true [exFailed])))
      (run (applyKVs [] (run [] (coinsSteps true [exFailed]))) (coinsSteps false [exFailed]))) (Key.recv [66]) = none := by
  decide

/-- **Index plugins + coins hooks of a block, partial** (the MVCC plugin and manage's local data are not part of
`blockSteps`): the order of `procExecAddBlock`/`procExecDelBlock` (per-transaction removal in reverse order), for a
block whose own keys — short-hash keys included, see `plugins_full_false` — are unused and without a successful
genesis action. -/
theorem del_after_add_id_block_partial (m : Store) (b : Block) (A : List KV)
    (hA : blockAdd m b = some A) (hfresh : ∀ k ∈ ownKeys b, get m k = none) (H : NoGenesisOk b.txs) (k : Key) :
    obsEq (get (applyKVs (applyKVs m A) (blockDel (applyKVs m A) b)) k) (get m k) := by
  unfold blockAdd at hA
  cases hr : readFee (get m (Key.totalFee b.parent)) with
  | none => simp [hr] at hA
  | some pf =>
    simp only [hr, Option.map_some, Option.some.injEq] at hA
    subst hA
    unfold blockDel
    rw [applyKVs_run, applyKVs_run, ← exec_append]
    apply key_restored
    unfold blockSteps
    have hm := mirror_plugins pf (0, 0) b
    cases hc : k.isCounter with
    | true => exact Or.inl ((mirror_counter hm k hc).append (coins_counter k b.txs H))
    | false =>
      exact Or.inr ((mirror_slot m hm k (by rw [putKeys_plugins]; exact hfresh k) hc).append_nil
        (proj_eq_nil_of_counter k _ hc (coinsSteps_shape true b.txs))
        (proj_eq_nil_of_counter k _ hc (coinsSteps_shape false b.txs)))

/-- the per-address slot number `height*MaxTxsPerBlock+index` identifies height and index as long as a block has
fewer than `MaxTxsPerBlock` transactions (so slots of different blocks never collide). -/
theorem heightstr_injective (h i h' i' : Nat) (hi : i < maxTxs) (hi' : i' < maxTxs)
    (e : slot h i = slot h' i') : h = h' ∧ i = i' := by
  unfold slot maxTxs at *
  omega

/-- **MVCC plugin.** If `AddMVCC` of version `v` succeeds on a store in which the version's own keys are unused,
and `DelMVCC` of the same version then succeeds, every key except the version's key list
`.-mvcc-.m.versionkl.<v>` (which `DelMVCC` leaves behind; no MVCC read returns it) is restored. -/
theorem mvcc_del_after_add_id (m : Store) (kvs : List (Bytes × Bytes)) (hash prev : Bytes) (prevNil : Bool) (v : Nat)
    (A D : List KV) (hA : mvccAdd m kvs hash prev prevNil v = .ok A) (hD : mvccDel (applyKVs m A) hash v = .ok D)
    (hf1 : get m (Key.mvHash hash) = none) (hf2 : get m (Key.mvVer v) = none)
    (hf3 : ∀ key, get m (Key.mvData key v) = none) (k : Key) (hk : k ≠ Key.mvKL v) :
    obsEq (get (applyKVs (applyKVs m A) D) k) (get m k) := by
  -- the add list
  have hAeq : A = [(Key.mvHash hash, some (Val.int v)), (Key.mvVer v, some (Val.blob hash))] ++
      kvs.map (fun kv => (Key.mvData kv.1 v, some (Val.blob kv.2))) ++ [(Key.mvKL v, some (Val.keys (kvs.map (·.1))))] := by
    unfold mvccAdd at hA
    simp only at hA
    split at hA
    · injection hA with hA; exact hA.symm
    · split at hA
      · cases hA
      · split at hA
        · split at hA
          · injection hA with hA; exact hA.symm
          · cases hA
        · cases hA
  have hkl : get (applyKVs m A) (Key.mvKL v) = some (Val.keys (kvs.map (·.1))) := by
    rw [hAeq]; exact get_applyKVs_last _ _ _ _
  -- the del list
  have hDeq : D = [(Key.mvHash hash, none), (Key.mvVer v, none)] ++ (kvs.map (·.1)).map (fun k => (Key.mvData k v, none)) := by
    unfold mvccDel at hD
    rw [hkl] at hD
    simp only at hD
    split at hD
    · cases hD
    · split at hD
      · cases hD
      · split at hD
        · split at hD
          · cases hD
          · split at hD
            · cases hD
            · injection hD with hD; exact hD.symm
        · cases hD
  have hDnone : ∀ kv ∈ D, kv.2 = none := by
    rw [hDeq]; intro kv hkv
    simp only [List.mem_append, List.mem_cons, List.mem_map, List.not_mem_nil, or_false] at hkv
    rcases hkv with (e | e) | ⟨_, _, e⟩ <;> (subst e; rfl)
  have hkeysA : ∀ x, x ≠ Key.mvKL v → (x ∈ A.map Prod.fst ↔ x ∈ D.map Prod.fst) := by
    intro x hx
    rw [hAeq, hDeq]
    simp only [List.map_append, List.map_cons, List.map_map, List.map_nil, List.mem_append, List.mem_cons,
      List.mem_map, Function.comp, List.not_mem_nil, or_false]
    constructor
    · rintro (h | h)
      · exact h
      · exact absurd h hx
    · intro h; exact Or.inl h
  by_cases hm : k ∈ D.map Prod.fst
  · rw [get_applyKVs_all_none _ _ _ hDnone hm]
    have : get m k = none := by
      rw [hDeq] at hm
      simp only [List.map_append, List.map_cons, List.map_map, List.map_nil, List.mem_append, List.mem_cons,
        List.mem_map, Function.comp, List.not_mem_nil, or_false] at hm
      rcases hm with (e | e) | ⟨y, _, e⟩
      · rw [e]; exact hf1
      · rw [e]; exact hf2
      · rw [← e]; exact hf3 _
    rw [this]; exact obsEq_refl _
  · rw [get_applyKVs_not_mem _ _ _ hm, get_applyKVs_not_mem _ _ _ (fun h => hm ((hkeysA k hk).mp h))]
    exact obsEq_refl _

/-- non-vacuity of `mvcc_del_after_add_id`: version 1 on top of version 0. (A block with an EMPTY state KV set is outside
the theorem: its key list is stored as an empty value, which reads as not found, and `DelMVCC` panics — `mvccDel` = panic.) -/
example :
    let m : Store := [(Key.mvVer 0, .blob [1])]
    (match mvccAdd m [([3], [4])] [2] [1] false 1 with
     | .ok A => (match mvccDel (applyKVs m A) [2] 1 with | .ok _ => true | .panic => false)
     | .panic => false) = true ∧
    get m (Key.mvHash [2]) = none ∧ get m (Key.mvVer 1) = none ∧ get m (Key.mvData [3] 1) = none ∧
    (match mvccAdd [(Key.mvVer 0, .blob [1])] [] [2] [1] false 1 with
     | .ok A => (match mvccDel (applyKVs [(Key.mvVer 0, .blob [1])] A) [2] 1 with | .ok _ => true | .panic => false)
     | .panic => true) = false := by
  decide

end C14
