import Chain33Model.Proofs.C15Old
import Chain33Model.Proofs.C15Exec
import Chain33Model.Proofs.C15Norm
/-!
C15 — Assets are conserved and balances never go negative.  Property theorems only.

Model: `Model/C15.lean` (`step : Cfg → State → Op → State × Res`, Go int64 arithmetic as explicit
`wrap`), mirroring /repo after the fixes 3bc3d2b (ExecTransfer compares storage keys), b0959e4
(`safeAdd` rejects negative amounts; the exec sub-ledger adds through `safeAdd`) and bc0ebed
(ExecDepositFrozen checks the frozen addition before issuing).  Quantities (`supply`, `subSum`,
`deficit`, `NonNeg`, `Inv`, `opSupply`, `granted`, `opDeficit`) are defined in `Proofs/`.
`σ` = address spellings, `κ` = storage keys, `c.norm` = `address.FormatAddrKey`; every theorem
holds for *every* `norm`, every configuration and every operation list.  Side hypotheses remain
only in `case_insensitive_partial` (exec-address argument in one spelling; the full statement is
refuted: `case_insensitive_exec_full_false`) and `exec_equation_partial`.
-/
set_option linter.unusedSectionVars false
namespace C15
section
variable {σ κ : Type} [DecidableEq σ] [DecidableEq κ]

/-! ## An operation that returns an error changes nothing -/

/-- For every configuration, state and operation: if the result is one of the error values
(`ErrAmount`, `ErrNoBalance`, `ErrSendSameToRecv`, `ErrNotAllowDeposit`) the store is unchanged. -/
theorem err_no_change (c : Cfg σ κ) (s : State σ κ) (op : Op σ)
    (h : (step c s op).2.isErr = true) : (step c s op).1 = s :=
  step_err_unchanged c s op h

/-! ## No balance or frozen amount becomes negative or overflows -/

/-- After any operation sequence, with any amounts (negative, huge, int64 extremes) and any
spellings, no balance and no frozen amount is negative — in the main ledger and in every exec
sub-ledger. -/
theorem nonneg (c : Cfg σ κ) (ops : List (Op σ)) : NonNeg (run c State.init ops) :=
  nonNeg_of_inv c (inv_run c ops (inv_init c))

/-- … and nothing overflows: every reachable state is well formed and every balance and frozen
amount of both ledgers lies in `[0, MaxTokenBalance]` (`Inv`), so no int64 operation of the next
step can wrap. -/
theorem no_overflow (c : Cfg σ κ) (ops : List (Op σ)) : Inv c (run c State.init ops) :=
  inv_run c ops (inv_init c)

/-- The invariant is inductive from any state that satisfies it (also across a panic). -/
theorem no_overflow_step (c : Cfg σ κ) (s : State σ κ) (op : Op σ) (h : Inv c s) :
    Inv c (step c s op).1 :=
  inv_step c op h

/-! ## Total supply changes only by minted / burned / issued / granted amounts -/

/-- For every operation list, the supply (sum of balance+frozen over the main ledger, an unbounded
integer) after the run equals the sum of the amounts of the successful Mint (+), Burn (−),
ExecIssueCoins (+), ExecDepositFrozen (+), GenesisInit (+), GenesisInitExec (+, also when its
ExecDeposit half panics after the grant was stored); every other operation and every failed
operation contributes 0. -/
theorem supply_delta (c : Cfg σ κ) (ops : List (Op σ)) :
    supply (run c State.init ops) = granted c State.init ops := by
  have := supply_run c ops (inv_init (σ := σ) (κ := κ) c)
  simpa [supply, State.init, asumP] using this

/-- Step form, from any reachable state. -/
theorem supply_delta_step (c : Cfg σ κ) (ops : List (Op σ)) (op : Op σ) :
    supply (step c (run c State.init ops) op).1
      = supply (run c State.init ops) + opSupply op (step c (run c State.init ops) op).2 :=
  have h := inv_run c ops (inv_init c)
  supply_step c h.1 h.2.1 op

/-! ## Each executor address's balance equals the sum of the accounts held under it -/

/-- Exact step equation for `deficit c s e = balance(e) − Σ(balance+frozen)(·, e)`, for every
reachable state, every exec address `e` and **arbitrary spellings of every address argument**:
a successful operation changes it by `opDeficit` — **0** for ExecFrozen, ExecActive, ExecTransfer,
ExecTransferFrozen, and for TransferToExec / TransferWithdraw / ExecDepositFrozen / GenesisInitExec
on their own exec address; `∓amount` for the raw building blocks ExecDeposit / ExecWithdraw;
`±amount` for plain Transfer / Mint / Burn / Genesis / ExecIssueCoins that touch the exec address's
own record.  (A failed operation changes nothing: `err_no_change`.) -/
theorem deficit_delta (c : Cfg σ κ) (ops : List (Op σ)) (op : Op σ)
    (hok : (step c (run c State.init ops) op).2 = .ok) (e : σ) :
    deficit c (step c (run c State.init ops) op).1 e
      = deficit c (run c State.init ops) e + opDeficit c e op :=
  have h := inv_run c ops (inv_init c)
  deficit_step c h.1 h.2.1 h.2.2 op hok e

/-- `alias_safe`: in every reachable state and for **any** spellings `from`, `to`, a successful
exec-internal transfer (balance or frozen) keeps the sum of the accounts under every exec address
unchanged. -/
theorem alias_safe (c : Cfg σ κ) (ops : List (Op σ)) (f t e : σ) (amt : Int) (e' : σ) :
    ((execTransfer c (run c State.init ops) f t e amt).2 = .ok →
      subSum e' (execTransfer c (run c State.init ops) f t e amt).1 = subSum e' (run c State.init ops)) ∧
    ((execTransferFrozen c (run c State.init ops) f t e amt).2 = .ok →
      subSum e' (execTransferFrozen c (run c State.init ops) f t e amt).1
        = subSum e' (run c State.init ops)) :=
  have h := inv_run c ops (inv_init c)
  ⟨fun hk => execTransfer_subSum c h.1 h.2.2 f t e amt hk e',
   fun hk => execTransferFrozen_subSum c h.1 h.2.2 f t e amt hk e'⟩

/-- Two spellings of one account are rejected outright, in every state and for every amount:
`ErrSendSameToRecv`, nothing changes. -/
theorem alias_rejected (c : Cfg σ κ) (s : State σ κ) (f t e : σ) (amt : Int)
    (heq : c.norm f = c.norm t) :
    execTransfer c s f t e amt = (s, .errSame) ∧ execTransferFrozen c s f t e amt = (s, .errSame) := by
  unfold execTransfer execTransferFrozen
  simp [heq]

/-- **The exec equation as an invariant.**  For every op list that (i) names the exec address `e`
by the one spelling `e` in TransferToExec / TransferWithdraw / ExecDepositFrozen / GenesisInitExec
(other exec addresses must have another storage key), (ii) never touches the main record of `e` by
a plain Transfer / Mint / Burn / GenesisInit / ExecIssueCoins, (iii) does not use the raw
ExecDeposit / ExecWithdraw on `e` (`OneSpelling`), and in which (iv) no step panicked (`NoPanic`:
a panic leaves a partial write that the caller rolls back): the balance of the exec address equals
the sum of balance + frozen of the accounts held under it.  ExecFrozen, ExecActive, ExecTransfer,
ExecTransferFrozen are unrestricted. -/
theorem exec_equation_partial (c : Cfg σ κ) (e : σ) (ops : List (Op σ))
    (hops : ∀ op ∈ ops, OneSpelling c e op) (hp : NoPanic c State.init ops) :
    (loadMain c (run c State.init ops) e).bal = subSum e (run c State.init ops) := by
  have h := deficit_run_const c e ops (inv_init c) hops hp
  have h0 : deficit c (State.init : State σ κ) e = 0 := by
    simp [deficit, loadMain, subSum, State.init, aget, asumP]
  rw [h0] at h
  unfold deficit at h
  omega

/-- A negative genesis grant is rejected in every state: `ErrAmount`, nothing changes. -/
theorem negative_grant_rejected (c : Cfg σ κ) (s : State σ κ) (a e : σ) (amt : Int) (h : amt < 0) :
    step c s (.genesis a amt) = (s, .errAmount) ∧ step c s (.genesisExec a amt e) = (s, .errAmount) := by
  simp [step, genesisExec, genesis, safeAdd_negative _ _ h]

/-! ## Spellings with the same storage key are one account -/

/-- Full statement of the last clause of the property: any two spellings of one address — as the
*account* argument and as the *exec-address* argument — read the same record. -/
def CaseInsensitiveFull (σ κ : Type) [DecidableEq σ] [DecidableEq κ] : Prop :=
  ∀ (c : Cfg σ κ) (ops : List (Op σ)) (a b e e' : σ), c.norm a = c.norm b → c.norm e = c.norm e' →
    (loadSub c (run c State.init ops) a e).bal = (loadSub c (run c State.init ops) b e').bal

/-- `case_insensitive_partial`: for every state, two spellings `a`, `b` with equal `norm` (for the
eth driver: differing only in hex letter case, see `normEth`) read the same balance and frozen
amount in the main ledger and under every exec address **given by one spelling `e`**.
Hypothesis added to the full statement: the exec-address argument is the same string on both
sides — `execAccountKey` does not normalise `execaddr` (finding, see
`case_insensitive_exec_full_false`). -/
theorem case_insensitive_partial (c : Cfg σ κ) (s : State σ κ) (a b : σ) (h : c.norm a = c.norm b) :
    (loadMain c s a).bal = (loadMain c s b).bal ∧ (loadMain c s a).frz = (loadMain c s b).frz ∧
    ∀ e, (loadSub c s a e).bal = (loadSub c s b e).bal ∧ (loadSub c s a e).frz = (loadSub c s b e).frz := by
  refine ⟨?_, ?_, fun e => ⟨?_, ?_⟩⟩
  all_goals first
    | (unfold loadMain; rw [h]; cases aget s.main (c.norm b) <;> rfl)
    | (unfold loadSub; rw [h]; cases aget s.sub (e, c.norm b) <;> rfl)

/-- … and a credit through one spelling is seen through the other: in every reachable state, after a
successful `Mint a amt` the balance read through any `b` with `norm a = norm b` has grown by `amt`. -/
theorem case_insensitive_write (c : Cfg σ κ) (ops : List (Op σ)) (a b : σ) (amt : Int)
    (h : c.norm a = c.norm b) (hok : (step c (run c State.init ops) (.mint a amt)).2 = .ok) :
    (loadMain c (step c (run c State.init ops) (.mint a amt)).1 b).bal
      = (loadMain c (run c State.init ops) b).bal + amt := by
  have hi := inv_run c ops (inv_init c)
  have := (depositBalance_effect c hi.1 hi.2.1 a amt hok).2.2 b
  simpa [mb, h, step, mint] using this

/-! ## Regression witnesses about the code BEFORE the fixes (separate `…Old` definitions) -/

/-- Old guard of ExecTransfer (spellings compared only, before 3bc3d2b), for every state: if
`from ≠ to` as strings but `norm from = norm to`, a successful old `ExecTransfer` *increases* the
sub-ledger total of the exec address by `amount` (credit without debit). -/
theorem old_guard_alias_mints (c : Cfg σ κ) (s : State σ κ) (hw : WF c s)
    (hs : SubBound 9000000000000000000 s) (f t e : σ) (amt : Int) (heq : c.norm f = c.norm t)
    (hok : (execTransferOld c s f t e amt).2 = .ok) :
    subSum e (execTransferOld c s f t e amt).1 = subSum e s + amt :=
  execTransferOld_alias_subSum c hw hs f t e amt heq hok

/-- Old `GenesisInit` (`safeAdd` without the sign check, before b0959e4), for every state whose
record of `a` is within bounds: a negative grant is accepted and subtracted — with a balance
smaller than the grant the stored balance becomes negative. -/
theorem old_genesis_accepts_negative_grant (c : Cfg σ κ) (s : State σ κ) (a : σ) (amt : Int)
    (hb0 : 0 ≤ (loadMain c s a).bal) (hb1 : (loadMain c s a).bal ≤ 9000000000000000000)
    (ha0 : -9223372036854775808 ≤ amt) (ha1 : amt < 0) :
    genesisOld c s a amt =
      (saveMain c s { loadMain c s a with bal := (loadMain c s a).bal + amt }, .ok) := by
  unfold genesisOld
  simp [safeAddOld_negative hb0 hb1 ha0 ha1]

end

/-! ## The concrete key normalisation of the eth address driver satisfies the laws -/

/-- `normEth` (the model of `address.FormatAddrKey`) is idempotent. -/
theorem normEth_idempotent (l : List Char) : normEthL (normEthL l) = normEthL l := normEthL_idem l

/-- Two spellings of a hex address (optional `0x`/`0X`, 40 hex digits) that differ only in letter
case have the same storage key; with `case_insensitive` they are one account. -/
theorem normEth_case_variants (a b : String) (ha : isHexAddr a.toList = true)
    (h : a.toList.map Char.toLower = b.toList.map Char.toLower) : normEth a = normEth b := by
  unfold normEth; rw [normEthL_case _ _ ha h]

example : isHexAddr "0xAbCdef0123456789abcdef0123456789abcdef01".toList = true ∧
    normEth "0xAbCdef0123456789abcdef0123456789abcdef01" = normEth "0XABCDEF0123456789ABCDEF0123456789ABCDEF01" ∧
    normEth "abcdef0123456789abcdef0123456789abcdef01" ≠ normEth "0xabcdef0123456789abcdef0123456789abcdef01" ∧
    normEth "14KEKbYtKKQm4wMthSK9J4La4nAiidGozt" = "14KEKbYtKKQm4wMthSK9J4La4nAiidGozt" := by decide

/-! ## Concrete runs (spellings are numbers; `2k` and `2k+1` spell account `k`) -/

def wcfg : Cfg Nat Nat := { norm := fun n => n / 2, allow := fun e => e == 100 }

/-- Old `ExecDeposit` (plain `+=`, before b0959e4): 93 un-backed deposits of the largest accepted
amount wrap int64 to a negative balance; the repaired `ExecDeposit` refuses the 91st (`ErrAmount`). -/
theorem old_execDeposit_wraps :
    (loadSub wcfg (depositsOld wcfg State.init 2 100 99999999999999999 93) 2 100).bal
      = -9146744073709551709 ∧
    (step wcfg (run wcfg State.init (List.replicate 90 (.execDeposit 2 100 99999999999999999)))
      (.execDeposit 2 100 99999999999999999)).2 = .errAmount := by
  decide +kernel

/-- old negative grant on the empty store: balance −1; and from −2^63 a transfer of 1 wrapped the
payer to +2^63−1 (the supply equation failed). -/
example : (loadMain wcfg (genesisOld wcfg State.init 0 (-1)).1 0).bal = -1 ∧
    (loadMain wcfg (transfer wcfg (genesisOld wcfg State.init 0 (-9223372036854775808)).1 0 2 1).1 0).bal
      = 9223372036854775807 := by decide

/-- The exec-address argument is NOT spelling-insensitive: after moving 400 into exec `100`, the
sub-account read through spelling `101` of the same exec address (`norm 100 = norm 101`, and the
main record of `100`/`101` is one: 400) is empty, a withdrawal through `101` fails, and a second
TransferToExec through `101` leaves `balance(exec) − Σ sub-accounts(100) = +50`. -/
theorem case_insensitive_exec_full_false : ¬ CaseInsensitiveFull Nat Nat := fun h => by
  have := h wcfg [.genesis 2 1000, .toExec 2 100 400] 2 2 100 101 rfl (by decide)
  exact absurd this (by decide)

example : (loadMain wcfg (run wcfg State.init [.genesis 2 1000, .toExec 2 100 400]) 101).bal = 400 ∧
    (step wcfg (run wcfg State.init [.genesis 2 1000, .toExec 2 100 400]) (.withdraw 2 101 10)).2
      = .errNoBalance ∧
    deficit wcfg (run wcfg State.init [.genesis 2 1000, .toExec 2 100 400, .toExec 2 101 50]) 100 = 50 := by
  decide

/-- state used by the alias examples: account 1 (spelling 2) funded, 100 moved into exec 100. -/
def aliasOps : List (Op Nat) := [.genesis 2 1000, .toExec 2 100 100]

/-! ## Non-vacuity: accepted operations exist for every theorem with an `ok` hypothesis -/

def demoOps : List (Op Nat) :=
  [.genesis 2 1000, .toExec 3 100 400, .execFrozen 2 100 150, .execTransfer 3 4 100 50,
   .execTransferFrozen 2 6 100 20, .withdraw 2 100 30, .execDepositFrozen 8 100 7, .burn 3 5]

/-- every operation of the demo run is accepted; supply = 1000 + 7 − 5. -/
example : supply (run wcfg State.init demoOps) = 1002 ∧ granted wcfg State.init demoOps = 1002 := by decide +kernel
/-- the demo state is backed (deficit 0 on the exec address) and non-empty. -/
example : deficit wcfg (run wcfg State.init demoOps) 100 = 0 := by decide +kernel
example : (loadSub wcfg (run wcfg State.init demoOps) 3 100).frz = 130 ∧
    (loadSub wcfg (run wcfg State.init demoOps) 2 100).bal = 170 := by decide +kernel
/-- `deficit_delta` / `alias_safe` / `case_insensitive_write` hypotheses are met: accepted steps. -/
example : (step wcfg (run wcfg State.init demoOps) (.execTransfer 2 4 100 10)).2 = .ok ∧
    (step wcfg (run wcfg State.init demoOps) (.toExec 2 100 10)).2 = .ok ∧
    (step wcfg (run wcfg State.init demoOps) (.mint 2 10)).2 = .ok := by decide +kernel
/-- `exec_equation_partial` is not vacuous: the demo run uses one spelling of exec 100, no panic. -/
example : (∀ op ∈ demoOps, OneSpelling wcfg 100 op) ∧ NoPanic wcfg State.init demoOps := by
  refine ⟨?_, ?_⟩
  · intro op hop
    simp only [demoOps, List.mem_cons, List.mem_nil_iff, or_false] at hop
    rcases hop with rfl | rfl | rfl | rfl | rfl | rfl | rfl | rfl <;> simp [OneSpelling, wcfg]
  · decide +kernel
/-- `old_guard_alias_mints` is not vacuous (spellings 2 ≠ 3 with equal `norm`, the old guard accepts),
and the repaired `execTransfer` rejects the same call while accepting an honest one. -/
example : wcfg.norm 2 = wcfg.norm 3 ∧
    (execTransferOld wcfg (run wcfg State.init aliasOps) 2 3 100 10).2 = .ok ∧
    (execTransfer wcfg (run wcfg State.init aliasOps) 2 3 100 10).2 = .errSame ∧
    (execTransfer wcfg (run wcfg State.init aliasOps) 2 4 100 10).2 = .ok := by decide
/-- `err_no_change` is not vacuous: an over-draft is an error. -/
example : (step wcfg (run wcfg State.init demoOps) (.transfer 2 4 100000)).2.isErr = true := by decide +kernel

end C15
