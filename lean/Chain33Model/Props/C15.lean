import Chain33Model.Proofs.C15Run
/-!
C15 — Assets are conserved and balances never go negative.  Property theorems only.

Model: `Model/C15.lean` (`step : Cfg → State → Op → State × Res`, Go int64 arithmetic as explicit
`wrap`).  Quantities (`supply`, `subSum`, `deficit`, `NonNeg`, `MainOK`, `WF`, `GenesisOK`,
`opSupply`, `granted`) are defined in `Proofs/C15.lean`.  `σ` = address spellings, `κ` = storage
keys, `c.norm` = `address.FormatAddrKey`; every theorem holds for *every* `norm`.
-/
namespace C15
section
variable {σ κ : Type} [DecidableEq σ] [DecidableEq κ]

/-! ## An operation that returns an error changes nothing -/

/-- For every configuration, state and operation: if the result is one of the error values
(`ErrAmount`, `ErrNoBalance`, `ErrSendSameToRecv`, `ErrNotAllowDeposit`) the store is unchanged. -/
theorem err_no_change (c : Cfg σ κ) (s : State σ κ) (op : Op σ)
    (h : (step c s op).2.isErr = true) : (step c s op).1 = s :=
  step_err_unchanged c s op h

/-! ## No balance or frozen amount becomes negative -/

/-- Full statement of the property text: after any operation sequence nothing is negative. -/
def NonnegFull (σ κ : Type) [DecidableEq σ] [DecidableEq κ] : Prop :=
  ∀ (c : Cfg σ κ) (ops : List (Op σ)), NonNeg (run c State.init ops)

/-- Main ledger, all sequence lengths: if no genesis grant is negative, every main balance stays
in `[0, MaxTokenBalance]` and every frozen amount non-negative (`safeAdd`, checked subtraction). -/
theorem nonneg_main_partial (c : Cfg σ κ) (ops : List (Op σ)) (hops : ∀ op ∈ ops, GenesisOK op) :
    MainOK (run c State.init ops) :=
  mainOK_run c ops hops mainOK_init

/-- Both ledgers: if no genesis grant is negative and the sequence has at most 92 operations,
no balance and no frozen amount is negative (each operation raises a sub-account field by less
than `MaxCoin·precision = 10^17`, so 92 of them stay below 2^63).  Hypotheses added to the full
statement: `GenesisOK` (finding: negative grant) and the length bound (finding: the sub-ledger
adds without `safeAdd`). -/
theorem nonneg_partial (c : Cfg σ κ) (ops : List (Op σ)) (hops : ∀ op ∈ ops, GenesisOK op)
    (hlen : ops.length ≤ 92) : NonNeg (run c State.init ops) := by
  have hm := mainOK_run c ops hops (mainOK_init (σ := σ) (κ := κ))
  have hl : (ops.length : Int) ≤ 92 := by exact_mod_cast hlen
  have hs := subB_run c ops 0 State.init (by omega) (by omega) (allv_nil _)
  exact nonNeg_of_bounds hm hs

/-! ## Total supply changes only by minted / burned / issued / granted amounts -/

/-- For every operation list without negative genesis grants, the supply (sum of balance+frozen
over the main ledger, an unbounded integer) after the run equals the sum of the amounts of the
successful Mint (+), Burn (−), ExecIssueCoins (+), ExecDepositFrozen (+), GenesisInit (+),
GenesisInitExec (+) operations; every other operation and every failed operation contributes 0. -/
theorem supply_delta_partial (c : Cfg σ κ) (ops : List (Op σ)) (hops : ∀ op ∈ ops, GenesisOK op) :
    supply (run c State.init ops) = granted c State.init ops := by
  have := supply_run c ops hops (wf_init c) (mainOK_init (σ := σ) (κ := κ))
  simpa [supply, State.init, asumP] using this

end
end C15
