import Chain33Model.Proofs.C15Deficit
import Chain33Model.Proofs.C15Norm
/-!
C15 — Assets are conserved and balances never go negative.  Property theorems only.

Model: `Model/C15.lean` (`step : Cfg → State → Op → State × Res`, Go int64 arithmetic as explicit
`wrap`).  Quantities (`supply`, `subSum`, `deficit`, `NonNeg`, `MainOK`, `WF`, `GenesisOK`,
`opSupply`, `granted`) are defined in `Proofs/C15.lean`.  `σ` = address spellings, `κ` = storage
keys, `c.norm` = `address.FormatAddrKey`; every theorem holds for *every* `norm`.
-/
namespace C15
section
variable {σ κ : Type} [DecidableEq σ] [DecidableEq κ]

/-! ## An operation that returns an error changes nothing -/

/-- For every configuration, state and operation: if the result is one of the error values
(`ErrAmount`, `ErrNoBalance`, `ErrSendSameToRecv`, `ErrNotAllowDeposit`) the store is unchanged. -/
theorem err_no_change (c : Cfg σ κ) (s : State σ κ) (op : Op σ)
    (h : (step c s op).2.isErr = true) : (step c s op).1 = s :=
  step_err_unchanged c s op h

/-! ## No balance or frozen amount becomes negative -/

/-- Full statement of the property text: after any operation sequence nothing is negative. -/
def NonnegFull (σ κ : Type) [DecidableEq σ] [DecidableEq κ] : Prop :=
  ∀ (c : Cfg σ κ) (ops : List (Op σ)), NonNeg (run c State.init ops)

/-- Main ledger, all sequence lengths: if no genesis grant is negative, every main balance stays
in `[0, MaxTokenBalance]` and every frozen amount non-negative (`safeAdd`, checked subtraction). -/
theorem nonneg_main_partial (c : Cfg σ κ) (ops : List (Op σ)) (hops : ∀ op ∈ ops, GenesisOK op) :
    MainOK (run c State.init ops) :=
  mainOK_run c ops hops mainOK_init

/-- Both ledgers: if no genesis grant is negative and the sequence has at most 92 operations,
no balance and no frozen amount is negative (each operation raises a sub-account field by less
than `MaxCoin·precision = 10^17`, so 92 of them stay below 2^63).  Hypotheses added to the full
statement: `GenesisOK` (finding: negative grant) and the length bound (finding: the sub-ledger
adds without `safeAdd`). -/
theorem nonneg_partial (c : Cfg σ κ) (ops : List (Op σ)) (hops : ∀ op ∈ ops, GenesisOK op)
    (hlen : ops.length ≤ 92) : NonNeg (run c State.init ops) := by
  have hm := mainOK_run c ops hops (mainOK_init (σ := σ) (κ := κ))
  have hl : (ops.length : Int) ≤ 92 := by exact_mod_cast hlen
  have hs := subB_run c ops 0 State.init (by omega) (by omega) (allv_nil _)
  exact nonNeg_of_bounds hm hs

/-! ## Total supply changes only by minted / burned / issued / granted amounts -/

/-- For every operation list without negative genesis grants, the supply (sum of balance+frozen
over the main ledger, an unbounded integer) after the run equals the sum of the amounts of the
successful Mint (+), Burn (−), ExecIssueCoins (+), ExecDepositFrozen (+), GenesisInit (+),
GenesisInitExec (+) operations; every other operation and every failed operation contributes 0. -/
theorem supply_delta_partial (c : Cfg σ κ) (ops : List (Op σ)) (hops : ∀ op ∈ ops, GenesisOK op) :
    supply (run c State.init ops) = granted c State.init ops := by
  have := supply_run c ops hops (wf_init c) (mainOK_init (σ := σ) (κ := κ))
  simpa [supply, State.init, asumP] using this

/-! ## Each executor address's balance equals the sum of the accounts held under it -/

/-- Exact step equation for `deficit c s e = balance(e) − Σ(balance+frozen)(·, e)` and every exec
address `e`, **for arbitrary spellings of every address argument**: a successful operation changes
it by `opDeficit` — **0** for ExecFrozen, ExecActive, ExecTransfer, ExecTransferFrozen, and for
TransferToExec / TransferWithdraw / ExecDepositFrozen / GenesisInitExec on their own exec address;
`∓amount` for the raw building blocks ExecDeposit / ExecWithdraw; `±amount` for plain Transfer /
Mint / Burn / Genesis / ExecIssueCoins that touch the exec address's own record.  Hypotheses added
to the full statement: sub-account fields at most `cap = 2^63−1−10^17` (no wrap, see
`no_overflow_partial`) and `GenesisOK`.  (The former `NoAlias` hypothesis is gone: since repo
commit 3bc3d2b ExecTransfer/ExecTransferFrozen compare the storage keys.) -/
theorem deficit_delta_partial (c : Cfg σ κ) (s : State σ κ) (hw : WF c s) (hm : MainOK s)
    (hs : SubBound cap s) (op : Op σ) (hop : GenesisOK op)
    (hok : (step c s op).2 = .ok) (e : σ) :
    deficit c (step c s op).1 e = deficit c s e + opDeficit c e op :=
  deficit_step c hw hm hs op hop hok e

/-- `alias_safe`: for **any** spellings `from`, `to` — including two spellings of one account — a
successful exec-internal transfer (balance or frozen) keeps the sum of the accounts under every
exec address unchanged (no alias hypothesis; the only remaining hypothesis is the no-wrap bound
`cap` shared with `deficit_delta_partial`). -/
theorem alias_safe (c : Cfg σ κ) (s : State σ κ) (hw : WF c s) (hs : SubBound cap s)
    (f t e : σ) (amt : Int) (e' : σ) :
    ((execTransfer c s f t e amt).2 = .ok → subSum e' (execTransfer c s f t e amt).1 = subSum e' s) ∧
    ((execTransferFrozen c s f t e amt).2 = .ok →
      subSum e' (execTransferFrozen c s f t e amt).1 = subSum e' s) :=
  ⟨fun h => execTransfer_subSum c hw hs f t e amt h e',
   fun h => execTransferFrozen_subSum c hw hs f t e amt h e'⟩

/-- Two spellings of one account are rejected outright, in every state and for every amount:
`ErrSendSameToRecv`, nothing changes. -/
theorem alias_rejected (c : Cfg σ κ) (s : State σ κ) (f t e : σ) (amt : Int)
    (heq : c.norm f = c.norm t) :
    execTransfer c s f t e amt = (s, .errSame) ∧ execTransferFrozen c s f t e amt = (s, .errSame) := by
  unfold execTransfer execTransferFrozen
  simp [heq]

/-- Regression witness about the OLD guard (`execTransferOld`, spellings compared only — the code
before repo commit 3bc3d2b), for every state: if `from ≠ to` as strings but `norm from = norm to`,
a successful old `ExecTransfer` *increases* the sub-ledger total of the exec address by `amount`. -/
theorem old_guard_alias_mints (c : Cfg σ κ) (s : State σ κ) (hw : WF c s) (hs : SubBound cap s)
    (f t e : σ) (amt : Int) (heq : c.norm f = c.norm t)
    (hok : (execTransferOld c s f t e amt).2 = .ok) :
    subSum e (execTransferOld c s f t e amt).1 = subSum e s + amt :=
  execTransferOld_alias_subSum c hw hs f t e amt heq hok

/-- **No overflow while backed.**  In a well-formed state whose main ledger is within bounds,
whose sub-ledger is non-negative and in which every exec address's balance covers its
sub-accounts (`Backed`), every sub-account field is at most `MaxTokenBalance`, so the next
operation — whatever it is — cannot wrap: the result is again non-negative.  (Hypothesis added to
the full statement: `Backed`, which raw `ExecDeposit` and the alias defect can destroy.) -/
theorem no_overflow_partial (c : Cfg σ κ) (s : State σ κ) (hm : MainOK s)
    (hn : NonNeg s) (hb : Backed c s) (op : Op σ) (hop : GenesisOK op) :
    NonNeg (step c s op).1 := by
  have h0 := backed_subB c hm hn.2 hb
  have h1 := subB_step c (by omega) (by omega) s op h0
  exact nonNeg_of_bounds (mainOK_step c op hop hm) h1

/-! ## Spellings with the same storage key are one account -/

/-- For every state: two spellings with equal `norm` (for the eth driver: differing only in hex
letter case, see `normEth`) read the same balance and frozen amount, in the main ledger and under
every exec address. -/
theorem case_insensitive (c : Cfg σ κ) (s : State σ κ) (a b : σ) (h : c.norm a = c.norm b) :
    (loadMain c s a).bal = (loadMain c s b).bal ∧ (loadMain c s a).frz = (loadMain c s b).frz ∧
    ∀ e, (loadSub c s a e).bal = (loadSub c s b e).bal ∧ (loadSub c s a e).frz = (loadSub c s b e).frz := by
  refine ⟨?_, ?_, fun e => ⟨?_, ?_⟩⟩
  all_goals first
    | (unfold loadMain; rw [h]; cases aget s.main (c.norm b) <;> rfl)
    | (unfold loadSub; rw [h]; cases aget s.sub (e, c.norm b) <;> rfl)

/-- … and a credit through one spelling is seen through the other: after a successful `Mint a amt`
the balance read through any `b` with `norm a = norm b` has grown by `amt`. -/
theorem case_insensitive_write (c : Cfg σ κ) (s : State σ κ) (hw : WF c s) (hm : MainOK s)
    (a b : σ) (amt : Int) (h : c.norm a = c.norm b) (hok : (step c s (.mint a amt)).2 = .ok) :
    (loadMain c (step c s (.mint a amt)).1 b).bal = (loadMain c s b).bal + amt := by
  have := (depositBalance_effect c hw hm a amt hok).2.2 b
  simpa [mb, h, step, mint] using this

end

/-! ## The concrete key normalisation of the eth address driver satisfies the laws -/

/-- `normEth` (the model of `address.FormatAddrKey`) is idempotent. -/
theorem normEth_idempotent (l : List Char) : normEthL (normEthL l) = normEthL l := normEthL_idem l

/-- Two spellings of a hex address (optional `0x`/`0X`, 40 hex digits) that differ only in letter
case have the same storage key; with `case_insensitive` they are one account. -/
theorem normEth_case_variants (a b : String) (ha : isHexAddr a.toList = true)
    (h : a.toList.map Char.toLower = b.toList.map Char.toLower) : normEth a = normEth b := by
  unfold normEth; rw [normEthL_case _ _ ha h]

example : isHexAddr "0xAbCdef0123456789abcdef0123456789abcdef01".toList = true ∧
    normEth "0xAbCdef0123456789abcdef0123456789abcdef01" = normEth "0XABCDEF0123456789ABCDEF0123456789ABCDEF01" ∧
    normEth "abcdef0123456789abcdef0123456789abcdef01" ≠ normEth "0xabcdef0123456789abcdef0123456789abcdef01" ∧
    normEth "14KEKbYtKKQm4wMthSK9J4La4nAiidGozt" = "14KEKbYtKKQm4wMthSK9J4La4nAiidGozt" := by decide

/-! ## Refuting witnesses (spellings are numbers; `2k` and `2k+1` spell account `k`) -/

def wcfg : Cfg Nat Nat := { norm := fun n => n / 2, allow := fun e => e == 100 }

/-- S-C15c: one negative genesis grant makes a balance negative. -/
theorem nonneg_full_false : ¬ NonnegFull Nat Nat := fun h => by
  have := (h wcfg [.genesis 0 (-1)]).1 0 ⟨0, -1, 0⟩ (by decide)
  exact absurd this.1 (by decide)

/-- Full statement restricted to non-negative grants, all lengths. -/
def NonnegValidFull (σ κ : Type) [DecidableEq σ] [DecidableEq κ] : Prop :=
  ∀ (c : Cfg σ κ) (ops : List (Op σ)), (∀ op ∈ ops, GenesisOK op) → NonNeg (run c State.init ops)

/-- S-C15b: 93 un-backed `ExecDeposit` of the largest accepted amount wrap int64. -/
def overflowOps : List (Op Nat) := List.replicate 93 (.execDeposit 2 100 99999999999999999)

theorem no_overflow_full_false : ¬ NonnegValidFull Nat Nat := fun h => by
  have hv : ∀ op ∈ overflowOps, GenesisOK op := by
    intro op hop; rw [List.eq_of_mem_replicate hop]; trivial
  have hmem : ((100, 1), (⟨2, -9146744073709551709, 0⟩ : Acct Nat)) ∈ (run wcfg State.init overflowOps).sub := by
    decide +kernel
  have := (h wcfg overflowOps hv).2 _ _ hmem
  exact absurd this.1 (by decide)

/-- state used by the alias examples: account 1 (spelling 2) funded, 100 moved into exec 100. -/
def aliasOps : List (Op Nat) := [.genesis 2 1000, .toExec 2 100 100]

/-- Without the `GenesisOK` hypothesis the supply equation fails as well: a grant of −2^63 followed
by a transfer of 1 wraps the payer to +2^63−1. -/
def SupplyFull (σ κ : Type) [DecidableEq σ] [DecidableEq κ] : Prop :=
  ∀ (c : Cfg σ κ) (ops : List (Op σ)), supply (run c State.init ops) = granted c State.init ops

theorem supply_full_false : ¬ SupplyFull Nat Nat := fun h => by
  have := h wcfg [.genesis 0 (-9223372036854775808), .transfer 0 2 1]
  exact absurd this (by decide)

/-! ## Non-vacuity: the hypotheses are met by non-trivial states -/

def demoOps : List (Op Nat) :=
  [.genesis 2 1000, .toExec 3 100 400, .execFrozen 2 100 150, .execTransfer 3 4 100 50,
   .execTransferFrozen 2 6 100 20, .withdraw 2 100 30, .execDepositFrozen 8 100 7, .burn 3 5]

example : ∀ op ∈ demoOps, GenesisOK op := by decide
example : demoOps.length ≤ 92 := by decide
/-- every operation of the demo run is accepted; supply = 1000 + 7 − 5. -/
example : supply (run wcfg State.init demoOps) = 1002 ∧ granted wcfg State.init demoOps = 1002 := by decide +kernel
/-- the demo state is backed (deficit 0 on the exec address), non-empty, and within `cap`. -/
example : deficit wcfg (run wcfg State.init demoOps) 100 = 0 := by decide +kernel
example : (loadSub wcfg (run wcfg State.init demoOps) 3 100).frz = 130 ∧
    (loadSub wcfg (run wcfg State.init demoOps) 2 100).bal = 170 := by decide +kernel
example : SubBound cap (run wcfg State.init demoOps) :=
  subB_mono (by decide) (subB_run wcfg demoOps 0 State.init (by decide) (by decide) (allv_nil _))
/-- `old_guard_alias_mints` is not vacuous (spellings 2 ≠ 3 with equal `norm`, the old guard accepts),
and the repaired `execTransfer` rejects the same call while accepting an honest one. -/
example : wcfg.norm 2 = wcfg.norm 3 ∧
    (execTransferOld wcfg (run wcfg State.init aliasOps) 2 3 100 10).2 = .ok ∧
    (execTransfer wcfg (run wcfg State.init aliasOps) 2 3 100 10).2 = .errSame ∧
    (execTransfer wcfg (run wcfg State.init aliasOps) 2 4 100 10).2 = .ok := by decide
/-- `err_no_change` is not vacuous: an over-draft is an error. -/
example : (step wcfg (run wcfg State.init demoOps) (.transfer 2 4 100000)).2.isErr = true := by decide +kernel

end C15
