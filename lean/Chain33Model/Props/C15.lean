import Chain33Model.Model.C15
namespace C15
end C15
