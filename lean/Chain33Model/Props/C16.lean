import Chain33Model.Model.C16
/-!
C16 — Transaction hash and signature bind every signed field.  Property theorems only.
-/
namespace C16

/-- `CloneTx` copies every proto field: the clone is the transaction itself. -/
theorem cloneTx_eq (t : Transaction) : cloneTx t = t := by
  cases t; rfl

end C16
