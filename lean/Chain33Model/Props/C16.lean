import Chain33Model.Model.C16
import Chain33Model.Proofs.C16Enc
/-!
C16 — Transaction hash and signature bind every signed field.  Property theorems only
(helper lemmas: `Proofs/C16Enc.lean`).

"Collision H" is the explicit disjunct `∃ x ≠ y, H x = H y` for the hash function in play;
signature schemes are a parameter with the single law `verify (sign …) = true`.
-/
namespace C16
open Proto

/-! ## encoding -/

/-- base-128 varints are injective. -/
theorem varint_injective (a b : Nat) (h : varint a = varint b) : a = b := varint_inj h

/-- length-delimited fields are prefix-free: the payload and whatever follows are determined. -/
theorem lenDelim_prefixFree (b b' r r' : Bytes)
    (h : varint b.length ++ (b ++ r) = varint b'.length ++ (b' ++ r')) : b = b' ∧ r = r' :=
  lenDelim_prefix_free b b' r r' h

/-- `types.Encode` is injective on transactions whose integer fields are in the range of their Go
types (nil = empty and 0 = absent are identified by the model, exactly as proto3 does). -/
theorem encode_injective (a b : Transaction) (ha : a.WF) (hb : b.WF) (h : encode a = encode b) : a = b :=
  encode_injective_aux ha hb h

/-- non-vacuity: a concrete signed transaction is well-formed. -/
def exTx : Transaction :=
  { execer := [0x63, 0x6f, 0x69, 0x6e, 0x73], payload := [1, 2, 3],
    signature := some { ty := 1, pubkey := [2, 7], signature := [0x30, 0x02, 1, 1] },
    fee := 100000, expire := 0, nonce := -5, to := [0x31], groupCount := 2, header := [9, 9], next := [8],
    chainID := 33 }

theorem exTx_WF : exTx.WF :=
  ⟨by decide, by decide, by decide, by decide, by decide,
   by intro s h; cases h; exact ⟨by decide⟩⟩

example : exTx.WF := exTx_WF

/-! ## hash -/

/-- **the hash binds every field except signature and header**: equal hashes mean equal
transactions up to signature and header, or an explicit collision of the hash function. -/
theorem hash_binds {α : Type} (H : Bytes → α) (a b : Transaction) (ha : a.WF) (hb : b.WF)
    (h : hashWith H a = hashWith H b) :
    stripSigHeader a = stripSigHeader b ∨ Collision H := by
  by_cases he : encode (stripSigHeader a) = encode (stripSigHeader b)
  · exact Or.inl (encode_injective_aux (WF_stripSigHeader ha) (WF_stripSigHeader hb) he)
  · exact Or.inr ⟨_, _, he, h⟩

/-- contrapositive reading: changing any hashed field changes the hash, or exhibits a collision. -/
theorem hash_changes {α : Type} (H : Bytes → α) (a b : Transaction) (ha : a.WF) (hb : b.WF)
    (hd : stripSigHeader a ≠ stripSigHeader b) :
    hashWith H a ≠ hashWith H b ∨ Collision H := by
  by_cases h : hashWith H a = hashWith H b
  · cases hash_binds H a b ha hb h with
    | inl e => exact absurd e hd
    | inr c => exact Or.inr c
  · exact Or.inl h

/-- the hash ignores the signature and the group header. -/
theorem hash_ignores {α : Type} (H : Bytes → α) (t : Transaction) (s : Option Signature) (hd : Bytes) :
    hashWith H { t with signature := s, header := hd } = hashWith H t := rfl

/-- non-vacuity of `hash_changes`: two well-formed transactions differing in one hashed field. -/
example : exTx.WF ∧ ({ exTx with fee := 100001 } : Transaction).WF ∧
    stripSigHeader exTx ≠ stripSigHeader { exTx with fee := 100001 } :=
  ⟨exTx_WF, ⟨by decide, by decide, by decide, by decide, by decide,
     by intro s h; cases h; exact ⟨by decide⟩⟩, by decide⟩

/-- the full hash binds everything (signature and header included). -/
theorem fullHash_binds {α : Type} (H : Bytes → α) (a b : Transaction) (ha : a.WF) (hb : b.WF)
    (h : fullHashWith H a = fullHashWith H b) : a = b ∨ Collision H := by
  unfold fullHashWith at h
  rw [clone_id, clone_id] at h
  by_cases he : encode a = encode b
  · exact Or.inl (encode_injective_aux ha hb he)
  · exact Or.inr ⟨_, _, he, h⟩

/-! ## clone -/

/-- `Clone` / `CloneTx` return an equal transaction, hence preserve hash and full hash. -/
theorem clone_preserves {α : Type} (H : Bytes → α) (t : Transaction) :
    clone t = t ∧ cloneTx t = t ∧ hashWith H (clone t) = hashWith H t ∧
    fullHashWith H (clone t) = fullHashWith H t := by
  refine ⟨clone_id t, cloneTx_id t, ?_, ?_⟩ <;> rw [clone_id]

/-- regenerated facts: every proto field of `Transaction` / `Signature` is assigned by `CloneTx` /
`Signature.Clone` (the two lists are re-extracted from /repo on every run and compared with the
model's constants; a new proto field that the clone forgets fails here or in the comparison). -/
theorem clone_covers_fields :
    (∀ f ∈ protoFields, f.1 ∈ cloneTxAssigned) ∧ (∀ f ∈ sigProtoFields, f.1 ∈ cloneSigAssigned) ∧
    protoFields.length = 11 ∧ cloneTxAssigned.length = 11 := by decide

/-! ## sign / verify -/

/-- the bytes a signature covers do not depend on the signature itself. -/
theorem signBytes_ignores_sig (t : Transaction) (s : Option Signature) :
    signBytes { t with signature := s } = signBytes t := rfl

/-- `Sign` signs exactly the bytes `checkSign` verifies. -/
theorem signTx_signBytes (S : Scheme) (ty : Int) (sk : S.SK) (t : Transaction) :
    (signTx S ty sk t).signature =
      some { ty := ty, pubkey := S.pub sk, signature := S.sign sk (signBytes (signTx S ty sk t)) } := by
  cases t; rfl

/-- **sign then verify**: for every scheme satisfying `verify (sign sk m) = true`, registered under
the type id `ty` resolves to and enabled at height `h`, the signed transaction passes `CheckSign`. -/
theorem sign_verify (S : Scheme) (r : Registry) (d : Driver)
    (validate : String → Bytes → Bytes → Bytes → VOut)
    (ty : Int) (h : Int) (sk : S.SK) (t : Transaction)
    (hreg : driverByType r (extractCryptoID ty) = some d)
    (hen : enabledAt d h = true)
    (hval : ∀ m p s, validate d.name m p s = if S.verify m p s then VOut.ok else VOut.fail) :
    checkSign r validate h (signTx S ty sk t) = true := by
  unfold checkSign checkSignO
  rw [signTx_signBytes]
  simp only [hreg, hen, if_true, hval, S.verify_sign]
  rfl

/-- non-vacuity: a scheme, a registry and a height satisfying the hypotheses of `sign_verify`. -/
def exScheme : Scheme :=
  { SK := Bytes, pub := fun sk => sk, sign := fun sk m => sk ++ m,
    verify := fun m p s => s == p ++ m, verify_sign := by intro sk m; simp }

def exRegistry : Registry :=
  [{ name := "secp256k1", typeID := 1, enable := true, enableHeight := 100 },
   { name := "none", typeID := 10, enable := false, enableHeight := 0 }]

example : driverByType exRegistry (extractCryptoID 8193) =
    some { name := "secp256k1", typeID := 1, enable := true, enableHeight := 100 } ∧
    enabledAt { name := "secp256k1", typeID := 1, enable := true, enableHeight := 100 } 100 = true := by
  decide

/-- **signed fields are bound**: two transactions that differ in any signed field (everything but
the signature — the group header included) are signed over different bytes, so a signature made
for one is never *the* signature the scheme's `sign` produced for the other. -/
theorem sign_binds (a b : Transaction) (ha : a.WF) (hb : b.WF)
    (hd : stripSig a ≠ stripSig b) : signBytes a ≠ signBytes b := by
  intro h
  exact hd (encode_injective_aux (WF_stripSig ha) (WF_stripSig hb) h)

/-- in particular the header is signed. -/
theorem header_is_signed (t : Transaction) (ht : t.WF) (hd : Bytes) (hne : hd ≠ t.header) :
    signBytes { t with header := hd } ≠ signBytes t := by
  apply sign_binds { t with header := hd } t ⟨ht.fee, ht.expire, ht.nonce, ht.groupCount, ht.chainID, ht.sig⟩ ht
  intro h
  have := congrArg Transaction.header h
  simp [stripSig, cloneTx] at this
  exact hne this

/-! ## altered signed field / altered public key ⇒ `CheckSign` fails

`sign_binds` only says the signed bytes differ.  That the *verification* then fails is a property of
the signature scheme, not of chain33: it needs the scheme to be message-binding (resp. key-binding).
Both hypotheses are named, shown to be necessary, and the key one is **false of the real ECDSA
drivers** (public-key recovery; replayed on the code: finding
`C16|secp256k1.Validate|pubkey-recovered-alternative-accepted`, same for secp256r1). -/

/-- a signature accepted under a key is accepted for at most one message. -/
def MsgBinding (S : Scheme) : Prop :=
  ∀ m m' p s, S.verify m p s = true → S.verify m' p s = true → m = m'

/-- a signature accepted for a message is accepted under at most one key. -/
def KeyBinding (S : Scheme) : Prop :=
  ∀ m p p' s, S.verify m p s = true → S.verify m p' s = true → p = p'

/-- the transaction `b` carrying the signature `Sign` produced for `a`. -/
def withSigOf (S : Scheme) (ty : Int) (sk : S.SK) (a b : Transaction) : Transaction :=
  { b with signature := (signTx S ty sk a).signature }

/-- `t` signed by `sk` but presented with the public key bytes `q`. -/
def withKey (S : Scheme) (ty : Int) (sk : S.SK) (q : Bytes) (t : Transaction) : Transaction :=
  { t with signature := some ⟨ty, q, S.sign sk (signBytes t)⟩ }

/-- full statement of the property text for signed fields (any scheme with `verify (sign …)`). -/
def AlteredFieldRejected : Prop :=
  ∀ (S : Scheme) (r : Registry) (d : Driver) (validate : String → Bytes → Bytes → Bytes → VOut)
    (ty h : Int) (sk : S.SK) (a b : Transaction), a.WF → b.WF →
    driverByType r (extractCryptoID ty) = some d → enabledAt d h = true →
    (∀ m p s, validate d.name m p s = if S.verify m p s then VOut.ok else VOut.fail) →
    stripSig b ≠ stripSig a → checkSign r validate h (withSigOf S ty sk a b) = false

/-- full statement for the public key. -/
def AlteredPubkeyRejected : Prop :=
  ∀ (S : Scheme) (r : Registry) (d : Driver) (validate : String → Bytes → Bytes → Bytes → VOut)
    (ty h : Int) (sk : S.SK) (t : Transaction) (q : Bytes),
    driverByType r (extractCryptoID ty) = some d → enabledAt d h = true →
    (∀ m p s, validate d.name m p s = if S.verify m p s then VOut.ok else VOut.fail) →
    q ≠ S.pub sk →
    checkSign r validate h (withKey S ty sk q t) = false

/-- a scheme satisfying the only law assumed so far, which binds nothing. -/
def laxScheme : Scheme :=
  { SK := Unit, pub := fun _ => [], sign := fun _ _ => [], verify := fun _ _ _ => true,
    verify_sign := by intro _ _; rfl }

def exTx2 : Transaction := { exTx with fee := 100001 }

theorem exTx2_WF : exTx2.WF :=
  ⟨by decide, by decide, by decide, by decide, by decide, by intro s h; cases h; exact ⟨by decide⟩⟩

/-- ✗ without a binding hypothesis on the scheme both full statements are false
(`verify (sign …) = true` alone is met by a verifier that accepts everything). -/
theorem altered_field_rejected_full_false : ¬ AlteredFieldRejected := by
  intro h
  have := h laxScheme exRegistry { name := "secp256k1", typeID := 1, enable := true, enableHeight := 100 }
    (fun _ _ _ _ => .ok) 1 100 () exTx exTx2 exTx_WF exTx2_WF (by decide) (by decide)
    (by intro m p s; rfl) (by decide)
  revert this
  decide

theorem altered_pubkey_rejected_full_false : ¬ AlteredPubkeyRejected := by
  intro h
  have := h laxScheme exRegistry { name := "secp256k1", typeID := 1, enable := true, enableHeight := 100 }
    (fun _ _ _ _ => .ok) 1 100 () exTx [7] (by decide) (by decide) (by intro m p s; rfl) (by decide)
  revert this
  decide

/-- ◐ **an altered signed field makes `CheckSign` fail** — hypothesis added w.r.t. the full
statement: the scheme is message-binding (`MsgBinding`).  `b` is any transaction differing from the
signed one in a signed field (header included) and carrying its signature. -/
theorem altered_field_rejected_partial (S : Scheme) (hb : MsgBinding S) (r : Registry) (d : Driver)
    (validate : String → Bytes → Bytes → Bytes → VOut) (ty h : Int) (sk : S.SK) (a b : Transaction)
    (ha : a.WF) (hbw : b.WF)
    (hreg : driverByType r (extractCryptoID ty) = some d)
    (hval : ∀ m p s, validate d.name m p s = if S.verify m p s then VOut.ok else VOut.fail)
    (hd : stripSig b ≠ stripSig a) :
    checkSign r validate h (withSigOf S ty sk a b) = false := by
  have hne : signBytes b ≠ signBytes a := sign_binds b a hbw ha hd
  have hsb : signBytes (withSigOf S ty sk a b) = signBytes b := rfl
  have hsa : signBytes (signTx S ty sk a) = signBytes a := by cases a; rfl
  unfold checkSign checkSignO
  have hsig : (withSigOf S ty sk a b).signature =
      some { ty := ty, pubkey := S.pub sk, signature := S.sign sk (signBytes a) } := by
    show (signTx S ty sk a).signature = _
    rw [signTx_signBytes, hsa]
  rw [hsig]
  simp only [hreg, hsb, hval]
  cases hv : S.verify (signBytes b) (S.pub sk) (S.sign sk (signBytes a)) with
  | false => split <;> simp
  | true => exact absurd (hb _ _ _ _ hv (S.verify_sign sk (signBytes a))) hne

/-- in particular an altered group header. -/
theorem altered_header_rejected_partial (S : Scheme) (hb : MsgBinding S) (r : Registry) (d : Driver)
    (validate : String → Bytes → Bytes → Bytes → VOut) (ty h : Int) (sk : S.SK) (t : Transaction)
    (ht : t.WF) (hd : Bytes) (hne : hd ≠ t.header)
    (hreg : driverByType r (extractCryptoID ty) = some d)
    (hval : ∀ m p s, validate d.name m p s = if S.verify m p s then VOut.ok else VOut.fail) :
    checkSign r validate h { signTx S ty sk t with header := hd } = false := by
  have := altered_field_rejected_partial S hb r d validate ty h sk t { t with header := hd } ht
    ⟨ht.fee, ht.expire, ht.nonce, ht.groupCount, ht.chainID, ht.sig⟩ hreg hval (by
      intro e
      have := congrArg Transaction.header e
      simp [stripSig, cloneTx] at this
      exact hne this)
  exact this

/-- ◐ **an altered public key makes `CheckSign` fail** — hypothesis added: the scheme is
key-binding (`KeyBinding`).  NOT true of plain ECDSA (secp256k1, secp256r1: a second key is
recoverable from every signature — known finding); true of ed25519 and of secp256k1eth
(which compares the recovered key). -/
theorem altered_pubkey_rejected_partial (S : Scheme) (hk : KeyBinding S) (r : Registry) (d : Driver)
    (validate : String → Bytes → Bytes → Bytes → VOut) (ty h : Int) (sk : S.SK) (t : Transaction)
    (q : Bytes)
    (hreg : driverByType r (extractCryptoID ty) = some d)
    (hval : ∀ m p s, validate d.name m p s = if S.verify m p s then VOut.ok else VOut.fail)
    (hne : q ≠ S.pub sk) :
    checkSign r validate h (withKey S ty sk q t) = false := by
  unfold checkSign checkSignO
  have hsb : signBytes (withKey S ty sk q t) = signBytes t := rfl
  have hsig : (withKey S ty sk q t).signature = some ⟨ty, q, S.sign sk (signBytes t)⟩ := rfl
  rw [hsig]
  simp only [hreg, hsb, hval]
  cases hv : S.verify (signBytes t) q (S.sign sk (signBytes t)) with
  | false => split <;> simp
  | true => exact absurd (hk _ _ _ _ hv (S.verify_sign sk (signBytes t))) hne

/-- non-vacuity: `exScheme` (signature = key ++ message) is message- and key-binding… -/
example : MsgBinding exScheme ∧ KeyBinding exScheme := by
  constructor
  · intro m m' p s h1 h2
    simp [exScheme] at h1 h2
    rw [h1] at h2
    exact (List.append_cancel_left h2)
  · intro m p p' s h1 h2
    simp [exScheme] at h1 h2
    rw [h1] at h2
    exact (List.append_cancel_right h2)

/-- **disabled types are rejected** at every non-negative height at which the driver is not enabled
(`crypto.Load` refuses it), whatever the driver's `Validate` would say; unknown type ids and
unsigned transactions are rejected at every height. -/
theorem disabled_rejects (r : Registry) (validate : String → Bytes → Bytes → Bytes → VOut)
    (h : Int) (t : Transaction) (s : Signature) (d : Driver)
    (hs : t.signature = some s)
    (hreg : driverByType r (extractCryptoID s.ty) = some d)
    (hdis : enabledAt d h = false) :
    checkSign r validate h t = false := by
  unfold checkSign checkSignO
  simp [hs, hreg, hdis]

theorem unknown_type_rejects (r : Registry) (validate : String → Bytes → Bytes → Bytes → VOut)
    (h : Int) (t : Transaction) (s : Signature)
    (hs : t.signature = some s) (hreg : driverByType r (extractCryptoID s.ty) = none) :
    checkSign r validate h t = false := by
  unfold checkSign checkSignO
  simp [hs, hreg]

theorem unsigned_rejects (r : Registry) (validate : String → Bytes → Bytes → Bytes → VOut)
    (h : Int) (t : Transaction) (hs : t.signature = none) :
    checkSign r validate h t = false := by
  unfold checkSign checkSignO
  simp [hs]

/-- a driver is enabled at `h ≥ 0` exactly when it is switched on and `0 ≤ enableHeight ≤ h`. -/
theorem enabledAt_iff (d : Driver) (h : Int) (hh : 0 ≤ h) :
    enabledAt d h = true ↔ d.enable = true ∧ 0 ≤ d.enableHeight ∧ d.enableHeight ≤ h := by
  unfold enabledAt
  simp [show ¬ h < 0 from by omega, and_assoc]

/-- non-vacuity of `disabled_rejects`: below the enable height and for the switched-off driver. -/
example : enabledAt { name := "secp256k1", typeID := 1, enable := true, enableHeight := 100 } 99 = false ∧
    enabledAt { name := "none", typeID := 10, enable := false, enableHeight := 0 } 5 = false := by decide

/-! ## altered signature bytes

Full statement of the property text at the parse layer of the drivers: *any* change of the
signature bytes makes validation fail.  It is false for the prefix-tolerant parsers (secp256k1,
secp256r1, sm2: DER sequence + ignored rest; ed25519: first 64 bytes) — finding S-C16. -/

/-- full statement: for every parser and every verifier that accepts at most one parsed signature
per (message, key), a byte string different from the accepted signature is rejected. -/
def AlteredSigRejected : Prop :=
  ∀ (p : SigParser) (verifyParsed : Bytes → Bytes → Bytes → Bool) (msg pub sig sig' : Bytes),
    (∀ s s', verifyParsed msg pub s = true → verifyParsed msg pub s' = true → s = s') →
    validateWith p verifyParsed msg pub sig = true → sig' ≠ sig →
    validateWith p verifyParsed msg pub sig' = false

/-- ✗ refuted: a 64-byte ed25519 signature with one byte appended parses to the same 64 bytes. -/
theorem altered_sig_rejected_full_false : ¬ AlteredSigRejected := by
  intro h
  have := h .first64 (fun _ _ s => s == List.replicate 64 1) [] [] (List.replicate 64 1)
    (List.replicate 64 1 ++ [0])
    (by intro s s' h1 h2; simp at h1 h2; rw [h1, h2]) (by decide) (by decide)
  revert this
  decide

/-- the same for the DER parsers: `30 06 02 01 01 02 01 01` followed by a zero byte. -/
theorem altered_sig_rejected_der_false :
    ∃ (verifyParsed : Bytes → Bytes → Bytes → Bool) (sig : Bytes),
      (∀ s s', verifyParsed [] [] s = true → verifyParsed [] [] s' = true → s = s') ∧
      validateWith .derMax72 verifyParsed [] [] sig = true ∧
      validateWith .derMax72 verifyParsed [] [] (sig ++ [0]) = true ∧
      validateWith .derPrefix verifyParsed [] [] (sig ++ [0]) = true :=
  ⟨fun _ _ s => s == [0x30, 6, 2, 1, 1, 2, 1, 1], [0x30, 6, 2, 1, 1, 2, 1, 1],
   by intro s s' h1 h2; simp at h1 h2; rw [h1, h2], by decide, by decide, by decide⟩

/-- ◐ what does hold, for every parser: validation depends on the signature bytes only through
the parsed form, and with a verifier accepting at most one parsed signature a byte string whose
parsed form differs (or that does not parse) is rejected.  Added hypothesis w.r.t. the full
statement: `parseSig p sig' ≠ parseSig p sig` instead of `sig' ≠ sig`. -/
theorem altered_sig_rejected_partial (p : SigParser) (verifyParsed : Bytes → Bytes → Bytes → Bool)
    (msg pub sig sig' : Bytes)
    (uniq : ∀ s s', verifyParsed msg pub s = true → verifyParsed msg pub s' = true → s = s')
    (hok : validateWith p verifyParsed msg pub sig = true)
    (hne : parseSig p sig' ≠ parseSig p sig) :
    validateWith p verifyParsed msg pub sig' = false := by
  unfold validateWith at *
  cases h' : parseSig p sig' with
  | none => rfl
  | some s' =>
    cases h : parseSig p sig with
    | none => rw [h] at hok; cases hok
    | some s =>
      rw [h] at hok
      simp only at hok ⊢
      cases hv : verifyParsed msg pub s' with
      | false => rfl
      | true =>
        have := uniq s' s hv hok
        rw [h', h, this] at hne
        exact absurd rfl hne

/-- for the exact-length parser (secp256k1eth) the full statement holds. -/
theorem altered_sig_rejected_exact65 (verifyParsed : Bytes → Bytes → Bytes → Bool)
    (msg pub sig sig' : Bytes)
    (uniq : ∀ s s', verifyParsed msg pub s = true → verifyParsed msg pub s' = true → s = s')
    (hok : validateWith .exact65 verifyParsed msg pub sig = true) (hne : sig' ≠ sig) :
    validateWith .exact65 verifyParsed msg pub sig' = false := by
  apply altered_sig_rejected_partial _ _ _ _ _ _ uniq hok
  have e : ∀ b : Bytes, parseSig .exact65 b = if b.length = 65 then some b else none := by
    intro b; simp [parseSig]
  have hl : sig.length = 65 := by
    unfold validateWith at hok
    rw [e] at hok
    by_cases hl : sig.length = 65
    · exact hl
    · simp [hl] at hok
  rw [e, e, if_pos hl]
  by_cases hl' : sig'.length = 65
  · rw [if_pos hl']; intro h; exact hne (Option.some.inj h)
  · rw [if_neg hl']; intro h; cases h

/-- the shape of the defect, for all inputs: whatever is appended to a signature of canonical
length reaches the verifier as the same bytes (ed25519: 64 bytes; DER: declared length). -/
theorem appended_bytes_ignored_first64 (sig suffix : Bytes) (h : sig.length = 64) :
    parseSig .first64 (sig ++ suffix) = parseSig .first64 sig := by
  unfold parseSig
  simp [List.take_append_of_le_length (Nat.le_of_eq h.symm), h, List.take_of_length_le (Nat.le_of_eq h)]

theorem appended_bytes_ignored_der (t l : UInt8) (body suffix : Bytes) (h : body.length = l.toNat) :
    parseSig .derPrefix (t :: l :: body ++ suffix) = parseSig .derPrefix (t :: l :: body) := by
  unfold parseSig
  simp only [List.cons_append]
  have h2 : l.toNat ≤ body.length := by omega
  have h1 : l.toNat ≤ body.length + suffix.length := by omega
  simp [h1, h2, List.take_append_of_le_length h2]

end C16
