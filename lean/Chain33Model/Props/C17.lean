import Chain33Model.Model.C16
/-!
C17 — Transaction groups are tamper-evident.  Property theorems only.
-/
namespace C16

/-- placeholder while the tie is brought up (replaced by the real theorems). -/
theorem c17_wip (t : Transaction) : cloneTx t = t := by
  cases t; rfl

end C16
