import Chain33Model.Model.C16
import Chain33Model.Proofs.C16Enc
import Chain33Model.Proofs.C17Chain
import Chain33Model.Proofs.C17Create
import Chain33Model.Proofs.C17Fee
import Chain33Model.Proofs.C17Resign
import Chain33Model.Props.C16
/-!
C17 — Transaction groups are tamper-evident.  Property theorems only
(model: `Model/C16.lean` group section; helper lemmas: `Proofs/C17Chain.lean`, `Proofs/C17Create.lean`).
-/
namespace C17
open C16

/-- a group accepted by `Transactions.CheckWithFork` passes the header/next/count chain check. -/
theorem check_implies_chained (H : Bytes → Bytes) (c : CheckCfg) (minfee maxFee : Int)
    (g : List Transaction) (h : groupCheckWith H c minfee maxFee g = .ok ()) : GroupChained H g := by
  cases g with
  | nil => simp [groupCheckWith] at h
  | cons head tail =>
    cases tail with
    | nil => simp [groupCheckWith] at h
    | cons u rs =>
      simp only [groupCheckWith] at h
      split at h
      · cases h
      · split at h
        · cases h
        · split at h
          · cases h
          · exact h

/-- **group binding**: two groups that both pass `Check` and whose first members carry the same
header are equal member by member up to the signatures — or the hash function collides. -/
theorem group_binding (H : Bytes → Bytes) (c c' : CheckCfg) (minfee maxFee minfee' maxFee' : Int)
    (t t' : Transaction) (rest rest' : List Transaction)
    (hw : ∀ x ∈ t :: rest, x.WF) (hw' : ∀ x ∈ t' :: rest', x.WF)
    (hc : groupCheckWith H c minfee maxFee (t :: rest) = .ok ())
    (hc' : groupCheckWith H c' minfee' maxFee' (t' :: rest') = .ok ())
    (hh : t.header = t'.header) :
    (t :: rest).map stripSig = (t' :: rest').map stripSig ∨ Collision H :=
  group_binding_aux H t t' rest rest' hw hw'
    (check_implies_chained H c minfee maxFee _ hc) (check_implies_chained H c' minfee' maxFee' _ hc') hh

/-- **tampering changes what is signed**: if a group that still passes `Check` differs from the
original in anything but signatures (a member reordered, dropped, added, substituted, or a field
altered), then — barring a hash collision — its header differs from the original's, hence the
bytes covered by *every* member signature differ from those of *every* original member: no
original signature was made over any member of the tampered group. -/
theorem tamper_changes_signbytes (H : Bytes → Bytes) (c c' : CheckCfg) (minfee maxFee minfee' maxFee' : Int)
    (t t' : Transaction) (rest rest' : List Transaction)
    (hw : ∀ x ∈ t :: rest, x.WF) (hw' : ∀ x ∈ t' :: rest', x.WF)
    (hc : groupCheckWith H c minfee maxFee (t :: rest) = .ok ())
    (hc' : groupCheckWith H c' minfee' maxFee' (t' :: rest') = .ok ())
    (hd : (t :: rest).map stripSig ≠ (t' :: rest').map stripSig) :
    Collision H ∨
      (t.header ≠ t'.header ∧ ∀ x ∈ t :: rest, ∀ y ∈ t' :: rest', signBytes x ≠ signBytes y) := by
  by_cases hh : t.header = t'.header
  · cases group_binding H c c' minfee maxFee minfee' maxFee' t t' rest rest' hw hw' hc hc' hh with
    | inl e => exact absurd e hd
    | inr col => exact Or.inl col
  · refine Or.inr ⟨hh, ?_⟩
    have g := check_implies_chained H c minfee maxFee _ hc
    have g' := check_implies_chained H c' minfee' maxFee' _ hc'
    simp only [GroupChained] at g g'
    have hdr : ∀ x ∈ t :: rest, x.header = t.header := by
      intro x hx
      cases hx with
      | head => rfl
      | tail _ hx' =>
        cases rest with
        | nil => cases hx'
        | cons u rs =>
          rw [chainCheck_cons] at g
          exact chain_headers H _ _ _ g.2.2.2.2 x hx'
    have hdr' : ∀ y ∈ t' :: rest', y.header = t'.header := by
      intro y hy
      cases hy with
      | head => rfl
      | tail _ hy' =>
        cases rest' with
        | nil => cases hy'
        | cons u rs =>
          rw [chainCheck_cons] at g'
          exact chain_headers H _ _ _ g'.2.2.2.2 y hy'
    intro x hx y hy hs
    have := encode_injective_aux (WF_stripSig (hw x hx)) (WF_stripSig (hw' y hy)) hs
    have h2 := congrArg Transaction.header this
    simp only [stripSig, cloneTx] at h2
    rw [hdr x hx, hdr' y hy] at h2
    exact hh h2

/-- non-vacuity: a concrete two-member group (abstract hash = constant-length toy hash) that is
created by `createGroupWith` and passes `groupCheckWith`. -/
def toyH (b : Bytes) : Bytes := [UInt8.ofNat b.length, UInt8.ofNat (b.foldl (fun a x => a + x.toNat) 0)]

def exIn : List Transaction :=
  [{ execer := [1], payload := [1, 2], signature := none, fee := 5, expire := 0, nonce := 1, to := [],
     groupCount := 0, header := [], next := [], chainID := 33 },
   { execer := [1], payload := [3], signature := none, fee := 7, expire := 0, nonce := 2, to := [],
     groupCount := 0, header := [], next := [], chainID := 33 }]

def exCfg : CheckCfg := { chainIDStrict := true, cfgChainID := 33, checkFork := true, paraFork := true }

/-- ◐ **no original signature is accepted on any member of a tampered group** — the conclusion
the property text asks for (`CheckSign` fails), under the hypothesis that the scheme is
message-binding (`C16.MsgBinding`; `tamper_changes_signbytes` alone only says the signed bytes
differ, which a verifier accepting everything would ignore).  `withSigOf S ty sk x y` is the
tampered member `y` carrying the signature `sk` made for the original member `x`. -/
theorem tampered_group_rejected_partial (S : Scheme) (hb : MsgBinding S)
    (H : Bytes → Bytes) (c c' : CheckCfg) (minfee maxFee minfee' maxFee' : Int)
    (t t' : Transaction) (rest rest' : List Transaction)
    (hw : ∀ x ∈ t :: rest, x.WF) (hw' : ∀ x ∈ t' :: rest', x.WF)
    (hc : groupCheckWith H c minfee maxFee (t :: rest) = .ok ())
    (hc' : groupCheckWith H c' minfee' maxFee' (t' :: rest') = .ok ())
    (hd : (t :: rest).map stripSig ≠ (t' :: rest').map stripSig)
    (r : Registry) (d : Driver) (validate : String → Bytes → Bytes → Bytes → VOut) (ty h : Int)
    (hreg : driverByType r (extractCryptoID ty) = some d)
    (hval : ∀ m p s, validate d.name m p s = if S.verify m p s then VOut.ok else VOut.fail) :
    Collision H ∨ ∀ x ∈ t :: rest, ∀ y ∈ t' :: rest', ∀ sk : S.SK,
      checkSign r validate h (withSigOf S ty sk x y) = false := by
  cases tamper_changes_signbytes H c c' minfee maxFee minfee' maxFee' t t' rest rest' hw hw' hc hc' hd with
  | inl col => exact Or.inl col
  | inr hh =>
    refine Or.inr ?_
    intro x hx y hy sk
    apply altered_field_rejected_partial S hb r d validate ty h sk x y (hw x hx) (hw' y hy) hreg hval
    intro e
    exact hh.2 x hx y hy (by unfold signBytes; rw [e])

/-- **fee rules (acceptance side)**: an accepted group has zero fees on every non-head member and
a head fee covering the sum of the members' required fees. -/
theorem fee_rules (H : Bytes → Bytes) (c : CheckCfg) (minfee maxFee : Int)
    (head : Transaction) (tail : List Transaction)
    (h : groupCheckWith H c minfee maxFee (head :: tail) = .ok ()) :
    (∀ x ∈ tail, x.fee = 0) ∧ ∃ total, sumFees minfee (head :: tail) = .ok total ∧ total ≤ head.fee := by
  unfold groupCheckWith at h
  split at h
  · cases h
  · cases h
  · rename_i hd tl hne heq
    cases heq
    split at h
    · cases h
    · split at h
      · cases h
      · split at h
        · cases h
        · rename_i hfee
          unfold feeCheck at hfee
          split at hfee
          · cases hfee
          · rename_i hany
            split at hfee
            · cases hfee
            · rename_i total hsum
              split at hfee
              · cases hfee
              · rename_i hlt
                refine ⟨?_, total, hsum, by omega⟩
                intro x hx
                simp only [List.any_eq_true, not_exists, not_and] at hany
                have := hany x hx
                simpa using this

/-- **fee rules (rejection side)**: once the member and para checks pass, a non-zero fee on a
non-head member is answered with `ErrTxGroupFeeNotZero`, and a head fee below the sum of the
required fees with `ErrTxFeeTooLow`. -/
theorem fee_nonzero_rejected (H : Bytes → Bytes) (c : CheckCfg) (minfee maxFee : Int)
    (head u : Transaction) (rs : List Transaction)
    (hm : firstErr (memberCheck c) (head :: u :: rs) = .ok ())
    (hp : paraCheck c.paraFork (head :: u :: rs) = .ok ())
    (hx : ∃ x ∈ u :: rs, x.fee ≠ 0) :
    groupCheckWith H c minfee maxFee (head :: u :: rs) = .error .groupFeeNotZero := by
  have hany : (u :: rs).any (fun t => decide (t.fee ≠ 0)) = true := by
    obtain ⟨x, hx, hf⟩ := hx
    exact List.any_eq_true.mpr ⟨x, hx, by simpa using hf⟩
  simp only [groupCheckWith, hm, hp, feeCheck, hany, if_true]

theorem fee_too_low_rejected (H : Bytes → Bytes) (c : CheckCfg) (minfee maxFee : Int)
    (head u : Transaction) (rs : List Transaction) (total : Int)
    (hm : firstErr (memberCheck c) (head :: u :: rs) = .ok ())
    (hp : paraCheck c.paraFork (head :: u :: rs) = .ok ())
    (hz : ∀ x ∈ u :: rs, x.fee = 0)
    (hs : sumFees minfee (head :: u :: rs) = .ok total)
    (hlow : head.fee < total) :
    groupCheckWith H c minfee maxFee (head :: u :: rs) = .error .feeTooLow := by
  have hany : (u :: rs).any (fun t => decide (t.fee ≠ 0)) = false := by
    rw [List.any_eq_false]
    intro x hx
    simpa using hz x hx
  simp only [groupCheckWith, hm, hp, feeCheck, hany, hs, hlow, if_true]
  simp

/-- the required fee of a member is `(size/1000 + 1) * minFee`, +300 bytes when unsigned. -/
theorem realFee_eq (t : Transaction) (minFee : Int)
    (h : size t + (if t.signature.isNone then 300 else 0) ≤ MaxTxSize) :
    realFee t minFee =
      .ok (Int.ofNat ((size t + (if t.signature.isNone then 300 else 0)) / 1000 + 1) * minFee) := by
  unfold realFee
  simp only [show ¬ (size t + (if t.signature.isNone then 300 else 0) > MaxTxSize) from by omega, if_false]

/-- **a created group, signed by its members, passes `Check`** with the fee rate used at creation.
Hypotheses (each one is a stated side condition of the client library's contract, none hidden):
hash outputs have one length (32 bytes for SHA-256); the last input has no stale `Next`; at most 20
members; non-negative rate and input fees, inputs unsigned; the resulting fees fit int64; every
member's signature field adds at most the 300 bytes `GetRealFee` reserves for an unsigned
transaction (true for the built-in single-key schemes; a larger signature can push a member over a
1000-byte fee step); chain id / para rules hold for the *inputs*; the head fee computed by
`CreateTxGroup` is within `maxFee`. -/
theorem created_group_checks (H : Bytes → Bytes) (hlenH : ∀ x y, (H x).length = (H y).length)
    (c : CheckCfg) (rate maxFee : Int) (txs g : List Transaction) (sigs : Transaction → Option Signature)
    (hc : createGroupWith H txs rate = .ok g) (hl : lastNextNil txs)
    (hn : Int.ofNat txs.length ≤ MaxTxGroupSize) (hr : 0 ≤ rate)
    (hu : ∀ x ∈ txs, x.signature = none) (hf : ∀ x ∈ txs, 0 ≤ x.fee)
    -- input side: chain id and para rules are those of the inputs (CreateTxGroup leaves them alone)
    (hm : firstErr (memberCheck c) txs = .ok ()) (hp : paraCheck c.paraFork txs = .ok ())
    -- the one output-side condition left: the head fee CreateTxGroup computed fits int64 and `maxFee`
    (hhead : ∀ h0, g.head? = some h0 → h0.fee < 2 ^ 63 ∧ ¬ (h0.fee > maxFee ∧ maxFee > 0 ∧ c.checkFork))
    -- contract gap of CreateTxGroup: it reserves 300 bytes per missing signature
    (hs : ∀ x ∈ g, ∀ s, sigs x = some s → (encodeSig s).length + 3 ≤ 300) :
    groupCheckWith H c rate maxFee (g.map (withSig sigs)) = .ok () := by
  have ⟨hf1, hf2⟩ := createGroup_fields H txs g rate hc
  have hm' : firstErr (memberCheck c) g = .ok () := by
    rw [firstErr_memberCheck_congr c g txs hf1]; exact hm
  have hp' : paraCheck c.paraFork g = .ok () := by
    rw [paraCheck_congr c.paraFork g txs hf2]; exact hp
  have ⟨_, _, hz⟩ := createGroup_chained H txs g rate hc hl hn
  have hall : ∀ x ∈ g, x.fee < 2 ^ 63 ∧ ¬ (x.fee > maxFee ∧ maxFee > 0 ∧ c.checkFork) := by
    intro x hx
    cases g with
    | nil => cases hx
    | cons h0 tl =>
      cases hx with
      | head => exact hhead _ rfl
      | tail _ hx' =>
        have := hz x hx'
        rw [this]
        exact ⟨by decide, by intro ⟨h1, h2, _⟩; omega⟩
  exact createGroup_checks H hlenH c rate maxFee txs g sigs hc hl hn hr hu hf (fun x hx => (hall x hx).1) hs hm' hp'
    (fun x hx => (hall x hx).2)

/-- the structural part needs no side condition on sizes or fees: the created group — with arbitrary
signatures attached — is correctly chained (header = hash of the head, common header, counts,
next links), has the input's length, and its non-head members carry fee 0. -/
theorem created_group_chained (H : Bytes → Bytes) (txs g : List Transaction) (rate : Int)
    (sigs : Transaction → Option Signature)
    (hc : createGroupWith H txs rate = .ok g) (hl : lastNextNil txs)
    (hn : Int.ofNat txs.length ≤ MaxTxGroupSize) :
    GroupChained H (g.map (fun t => { t with signature := sigs t })) ∧ g.length = txs.length ∧
      (∀ x ∈ g.tail, x.fee = 0) := by
  have ⟨h1, h2, h3⟩ := createGroup_chained H txs g rate hc hl hn
  refine ⟨?_, h2, h3⟩
  cases g with
  | nil => exact h1
  | cons head tail =>
    simp only [GroupChained] at h1
    show GroupChained H ({ head with signature := sigs head } :: tail.map _)
    simp only [GroupChained, List.length_cons, List.length_map]
    have := chainCheck_ignores_sig H (tail.length + 1) head.header sigs (head :: tail) true
    simp only [List.map] at this
    simp only [List.length_cons] at h1
    rw [← h1, ← this]

/-- **… and passes `CheckSign`**: members signed (each with its own key) under a scheme with
`verify (sign …) = true` whose type is enabled at the height all verify. -/
theorem signed_group_checkSign (S : Scheme) (r : Registry) (d : Driver)
    (validate : String → Bytes → Bytes → Bytes → VOut) (ty : Int) (h : Int)
    (sk : Transaction → S.SK) (g : List Transaction)
    (hreg : driverByType r (extractCryptoID ty) = some d) (hen : enabledAt d h = true)
    (hval : ∀ m p s, validate d.name m p s = if S.verify m p s then VOut.ok else VOut.fail) :
    groupCheckSign r validate h (g.map (fun t => signTx S ty (sk t) t)) = true := by
  unfold groupCheckSign
  rw [List.all_eq_true]
  intro x hx
  simp only [List.mem_map] at hx
  obtain ⟨t, _, rfl⟩ := hx
  exact sign_verify S r d validate ty h (sk t) t hreg hen hval

/-! ### who signed a member is NOT bound

Everything above is "up to signatures".  The header/next chain hashes `Hash()`, which strips the
signature, and each member signature covers only that member's bytes; `Check` sees signatures only
through their encoded size.  So a member re-signed — content unchanged — by any other key passes
`Check` and `CheckSign` again: "substituting a member / altering any member field" is not evident
for `Signature.{Pubkey,Signature}`.  Replayed on the real code (known finding
`C17|Check+CheckSign|resign-member-other-key-accepted`). -/

/-- full reading of the property text: two groups accepted by `Check` and `CheckSign` with the same
head header are equal — signatures included — or the hash collides. -/
def SignersBound : Prop :=
  ∀ (H : Bytes → Bytes) (c : CheckCfg) (minfee maxFee : Int) (r : Registry)
    (validate : String → Bytes → Bytes → Bytes → VOut) (h : Int) (g g' : List Transaction),
    groupCheckWith H c minfee maxFee g = .ok () → groupCheckWith H c minfee maxFee g' = .ok () →
    groupCheckSign r validate h g = true → groupCheckSign r validate h g' = true →
    g.map (·.header) = g'.map (·.header) → g.map stripSig = g'.map stripSig → g = g'

/-- ✗ **re-signed members are accepted** (for every hash function, scheme and group): if the group
signed with keys `sk` passes `Check`, then the same group signed with any other keys `sk'` whose
signatures have the same encoded size passes `Check` with the same verdict, passes `CheckSign`, and
differs from the first only in the signatures. -/
theorem resigned_member_accepted (H : Bytes → Bytes) (c : CheckCfg) (minfee maxFee : Int)
    (S : Scheme) (r : Registry) (d : Driver) (validate : String → Bytes → Bytes → Bytes → VOut)
    (ty h : Int) (sk sk' : Transaction → S.SK) (g : List Transaction)
    (hreg : driverByType r (extractCryptoID ty) = some d) (hen : enabledAt d h = true)
    (hval : ∀ m p s, validate d.name m p s = if S.verify m p s then VOut.ok else VOut.fail)
    (hsz : SameSigSize (fun t => (signTx S ty (sk t) t).signature) (fun t => (signTx S ty (sk' t) t).signature)) :
    groupCheckWith H c minfee maxFee (g.map (fun t => signTx S ty (sk' t) t)) =
      groupCheckWith H c minfee maxFee (g.map (fun t => signTx S ty (sk t) t)) ∧
    groupCheckSign r validate h (g.map (fun t => signTx S ty (sk' t) t)) = true ∧
    (g.map (fun t => signTx S ty (sk' t) t)).map stripSig = (g.map (fun t => signTx S ty (sk t) t)).map stripSig := by
  refine ⟨?_, signed_group_checkSign S r d validate ty h sk' g hreg hen hval, ?_⟩
  · have e : ∀ k : Transaction → S.SK, (fun t => signTx S ty (k t) t) =
        withSig (fun t => (signTx S ty (k t) t).signature) := by
      intro k; funext t; cases t; rfl
    rw [e sk, e sk']
    exact (groupCheckWith_sig_congr H c minfee maxFee _ _ hsz g).symm
  · simp only [List.map_map]
    apply List.map_congr_left
    intro t _
    cases t; rfl

/-- concrete witness against `SignersBound`: a two-member group created by `CreateTxGroup`, signed
once with keys `[1]`, `[2]` and once with keys `[3]`, `[4]` (scheme `exScheme`: signature = key ++
message); both pass `Check` and `CheckSign`, headers and contents agree, the groups differ. -/
def exSigned (k0 k1 : UInt8) : List Transaction :=
  match createGroupWith toyH exIn 100 with
  | .ok [a, b] => [signTx exScheme 1 [k0] a, signTx exScheme 1 [k1] b]
  | _ => []

def exValidate : String → Bytes → Bytes → Bytes → VOut :=
  fun _ m p s => if exScheme.verify m p s then .ok else .fail

def exResignedBothPass : Bool :=
  (match groupCheckWith toyH exCfg 100 0 (exSigned 1 2), groupCheckWith toyH exCfg 100 0 (exSigned 3 4) with
    | .ok _, .ok _ => true
    | _, _ => false) &&
  groupCheckSign exRegistry exValidate 100 (exSigned 1 2) && groupCheckSign exRegistry exValidate 100 (exSigned 3 4) &&
  decide ((exSigned 1 2).map (·.header) = (exSigned 3 4).map (·.header)) &&
  decide ((exSigned 1 2).map stripSig = (exSigned 3 4).map stripSig) &&
  decide (exSigned 1 2 ≠ exSigned 3 4) && decide ((exSigned 1 2).length = 2)

theorem exResignedBothPass_true : exResignedBothPass = true := by decide +kernel

/-- ✗ refuted on the witness. -/
theorem signers_bound_full_false : ¬ SignersBound := by
  intro hfull
  have hb := exResignedBothPass_true
  simp only [exResignedBothPass, Bool.and_eq_true, decide_eq_true_eq] at hb
  obtain ⟨⟨⟨⟨⟨⟨h1, h2⟩, h3⟩, h4⟩, h5⟩, h6⟩, _⟩ := hb
  have c1 : groupCheckWith toyH exCfg 100 0 (exSigned 1 2) = .ok () := by
    revert h1; cases groupCheckWith toyH exCfg 100 0 (exSigned 1 2) <;> simp
  have c2 : groupCheckWith toyH exCfg 100 0 (exSigned 3 4) = .ok () := by
    revert h1; cases groupCheckWith toyH exCfg 100 0 (exSigned 1 2) <;>
      cases groupCheckWith toyH exCfg 100 0 (exSigned 3 4) <;> simp
  exact h6 (hfull toyH exCfg 100 0 exRegistry exValidate 100 _ _ c1 c2 h2 h3 h4 h5)

/-- `Transactions.CheckSign`: a group verifies exactly when every member verifies. -/
theorem group_checkSign_all (r : Registry) (validate : String → Bytes → Bytes → Bytes → VOut)
    (h : Int) (g : List Transaction) :
    groupCheckSign r validate h g = true ↔ ∀ x ∈ g, checkSign r validate h x = true := by
  unfold groupCheckSign
  simp [List.all_eq_true]

/-- the created group of `exIn` passes the group check, and the input meets the side conditions. -/
def exCreatedPasses : Bool :=
  match createGroupWith toyH exIn 100 with
  | .ok g => (match groupCheckWith toyH exCfg 100 0 g with
      | .ok _ => true
      | .error _ => false) && g.length == 2
  | .error _ => false

example : exCreatedPasses = true ∧ lastNextNil exIn := ⟨by decide +kernel, rfl⟩

/-- the side conditions of `created_group_checks` are met by `exIn` / `toyH` / `exCfg`. -/
example : (∀ x y, (toyH x).length = (toyH y).length) ∧ Int.ofNat exIn.length ≤ MaxTxGroupSize ∧
    (∀ x ∈ exIn, x.signature = none) ∧ (∀ x ∈ exIn, 0 ≤ x.fee) :=
  ⟨fun _ _ => rfl, by decide, by decide, by decide⟩

/-- the members of the created example group are in range (hypothesis `WF` of `group_binding`). -/
def exCreatedInRange : Bool :=
  match createGroupWith toyH exIn 100 with
  | .ok g => g.all (fun t => decide (I64 t.fee) && decide (I64 t.expire) && decide (I64 t.nonce) &&
      decide (I32 t.groupCount) && decide (I32 t.chainID) && t.signature.isNone)
  | .error _ => false

example : exCreatedInRange = true := by decide +kernel

end C17
