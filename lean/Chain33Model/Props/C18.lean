import Chain33Model.Model.C18
/-!
C18 — Transaction root is consistent, provable and binding.  Property theorems only.
-/
namespace C18

end C18
