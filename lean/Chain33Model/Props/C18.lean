import Chain33Model.Model.C18
import Chain33Model.Proofs.C18
/-!
C18 — Transaction root is consistent, provable and binding.  Property theorems only.
`β` is any hash domain, `nil` the value Go returns for "no hash", `H2` any two-to-one function
(`GetHashFromTwoHash`); nothing is assumed about them.
-/
namespace C18

variable {β : Type}

/-- The chunked parallel root (`GetMerkleRoot` with `runtime.NumCPU() = ncpu`) is the sequential
root (`getMerkleRoot`), for every list — every transaction count — and every worker count. -/
theorem parallel_eq_seq (nil : β) (H2 : β → β → β) (xs : List β) (ncpu : Nat) :
    GetMerkleRoot nil H2 ncpu xs = getMerkleRoot nil H2 xs := by
  unfold GetMerkleRoot
  split
  · rfl
  · next h =>
    have hn : 80 < xs.length := by omega
    obtain ⟨k, hk, hstep, hle⟩ := stepOf_spec xs.length ncpu hn
    simp only [hstep]
    rw [chunkRoots_eq nil H2 k hk xs.length xs (Nat.le_refl _)]
    exact (root_iterPair nil H2 k xs hle).symm

/-- non-vacuity: the chunked branch is really taken (81 leaves, 4 workers: chunks of 16 and a
last chunk of one leaf that goes through `getMerkleRootPad`). -/
example : ¬ ((List.range 81).length ≤ 80 ∨ 4 ≤ 1) ∧ stepOf 81 4 = 16 ∧ 81 % 16 = 1 := by decide

end C18
