import Chain33Model.Model.C18
import Chain33Model.Proofs.C18
import Chain33Model.Proofs.C18Comp
import Chain33Model.Proofs.C18Branch
import Chain33Model.Proofs.C18Bind
import Chain33Model.Proofs.C18Mut
import Chain33Model.Proofs.C18Multi
/-!
C18 — Transaction root is consistent, provable and binding.  Property theorems only.
`β` is any hash domain, `nil` the value Go returns for "no hash", `H2` any two-to-one function
(`GetHashFromTwoHash`); nothing is assumed about them.
-/
namespace C18

variable {β : Type}

/-- The chunked parallel root (`GetMerkleRoot` with `runtime.NumCPU() = ncpu`) is the sequential
root (`getMerkleRoot`), for every list — every transaction count — and every worker count. -/
theorem parallel_eq_seq (nil : β) (H2 : β → β → β) (xs : List β) (ncpu : Nat) :
    GetMerkleRoot nil H2 ncpu xs = getMerkleRoot nil H2 xs := GetMerkleRoot_eq nil H2 xs ncpu

/-- non-vacuity: the chunked branch is really taken (81 leaves, 4 workers: chunks of 16 and a
last chunk of one leaf that goes through `getMerkleRootPad`). -/
example : ¬ ((List.range 81).length ≤ 80 ∨ 4 ≤ 1) ∧ stepOf 81 4 = 16 ∧ 81 % 16 = 1 := by decide

/-- The constant-space streaming calculator `Computation` never panics on fewer than 2^32 leaves
and returns the sequential root, whatever `flage ∈ {1,2,3}` and branch position are given. -/
theorem computation_root_eq [DecidableEq β] (nil : β) (H2 : β → β → β) (xs : List β) (flage pos : Nat)
    (hne : xs ≠ []) (hlen : xs.length < 2 ^ 32) (hf : 1 ≤ flage ∧ flage ≤ 3) :
    ∃ mutated branch, Computation nil H2 xs flage pos = .ok (getMerkleRoot nil H2 xs, mutated, branch) := by
  unfold Computation
  have h1 : xs.isEmpty = false := by cases xs <;> simp_all
  have h2 : ¬ (flage < 1 ∨ flage > 3) := by omega
  simp only [h1, h2, Bool.false_eq_true, if_false]
  obtain ⟨st, hfold, hlen32, hF⟩ := fold_spec nil H2 (decide (flage / 2 % 2 = 1)) pos xs []
    { inner := List.replicate 32 nil, branch := [], matchlevel := 0xff, mutated := false }
    (by simpa using hlen) (by simp) (Forest.zero 0)
  simp only [List.length_nil, List.nil_append] at hfold hF
  simp only [hfold]
  have hpos : 0 < xs.length := List.length_pos_iff.mpr hne
  obtain ⟨q, P, B, hF', hP, hB, hget, hcnt⟩ := lowBit_spec nil H2 xs.length 64 0 xs.length xs hF hpos
    (by have : (2 : Nat) ^ 32 < 2 ^ 64 := by decide
        omega) (by simp)
  simp only [hget]
  have hBne : B ≠ [] := by
    intro h; rw [h] at hB; simp at hB
    have := Nat.two_pow_pos (lowBit xs.length 64 0); omega
  have hPlen : P.length < 2 ^ 32 := by rw [hP, List.length_append] at hlen; omega
  have hl32 : lowBit xs.length 64 0 ≤ 32 := by
    by_cases h : lowBit xs.length 64 0 ≤ 32
    · exact h
    · have h1 : 2 ^ 33 ≤ 2 ^ lowBit xs.length 64 0 := Nat.pow_le_pow_right (by decide) (by omega)
      have h2 : 2 ^ lowBit xs.length 64 0 ≤ (2 * q + 1) * 2 ^ lowBit xs.length 64 0 :=
        Nat.le_mul_of_pos_left _ (by omega)
      have : (2 : Nat) ^ 32 < 2 ^ 33 := by decide
      omega
  obtain ⟨st', hrun, _⟩ := tailLoop_spec nil H2 (decide (flage / 2 % 2 = 1)) 34 xs.length (lowBit xs.length 64 0)
    (top nil H2 (lowBit xs.length 64 0) B) (decide (st.matchlevel = lowBit xs.length 64 0)) st q P B
    (by omega) hl32 hPlen hlen32 hF' hBne (by omega) rfl hcnt
    (by intro _; rw [hB]; have := Nat.two_pow_pos (lowBit xs.length 64 0); omega)
  rw [← hP] at hrun
  simp only [hrun]
  exact ⟨_, _, rfl⟩

/-- non-vacuity: a concrete 3-leaf list over `Nat` with a non-injective "hash". -/
example : Computation (0 : Nat) (fun a b => 2 * a + 3 * b + 1) [5, 6, 7] 1 0
    = .ok (getMerkleRoot 0 (fun a b => 2 * a + 3 * b + 1) [5, 6, 7], false, []) := by decide

/-- For every position `p` of every list of fewer than 2^32 leaves, `GetMerkleBranch` returns a
branch (no panic) and `GetMerkleRootFromBranch` applied to it, the leaf and `p` gives the
sequential root — which by `parallel_eq_seq` is also the parallel root for every worker count. -/
theorem branch_verifies [DecidableEq β] (nil : β) (H2 : β → β → β) (xs : List β) (p : Nat)
    (hp : p < xs.length) (hlen : xs.length < 2 ^ 32) :
    ∃ b, GetMerkleBranch nil H2 xs p = .ok b ∧
      GetMerkleRootFromBranch H2 b xs[p] p = getMerkleRoot nil H2 xs := by
  have hne : xs ≠ [] := by intro h; rw [h] at hp; simp at hp
  unfold GetMerkleBranch Computation
  have h1 : xs.isEmpty = false := by cases xs <;> simp_all
  have h2 : ¬ ((2 : Nat) < 1 ∨ 2 > 3) := by omega
  simp only [h1, h2, Bool.false_eq_true, if_false, decide_true]
  have hleaf : ([] ++ xs)[p]? = some xs[p] := by simp [hp]
  obtain ⟨st, hfold, hlen32, hF⟩ := fold_branch nil H2 (p := p) (leaf := xs[p]) xs []
    { inner := List.replicate 32 nil, branch := [], matchlevel := 0xff, mutated := false }
    (by simpa using hlen) hleaf (by simp) (ForestB.zero 0) (fun _ => ⟨rfl, rfl⟩)
  simp only [List.length_nil, List.nil_append] at hfold hF
  simp only [hfold]
  have hpos : 0 < xs.length := List.length_pos_iff.mpr hne
  obtain ⟨q, P, B, hF', hP, hB, hget, hcnt, c1, c2⟩ := lowBit_specB nil H2 xs.length 64 0 xs.length xs hF hpos
    (by have : (2 : Nat) ^ 32 < 2 ^ 64 := by decide
        omega) (by simp)
  simp only [hget]
  have hBne : B ≠ [] := by
    intro h; rw [h] at hB; simp at hB
    have := Nat.two_pow_pos (lowBit xs.length 64 0); omega
  have hPlen : P.length < 2 ^ 32 := by rw [hP, List.length_append] at hlen; omega
  have hl32 : lowBit xs.length 64 0 ≤ 32 := by
    by_cases h : lowBit xs.length 64 0 ≤ 32
    · exact h
    · have h1 : 2 ^ 33 ≤ 2 ^ lowBit xs.length 64 0 := Nat.pow_le_pow_right (by decide) (by omega)
      have h2 : 2 ^ lowBit xs.length 64 0 ≤ (2 * q + 1) * 2 ^ lowBit xs.length 64 0 :=
        Nat.le_mul_of_pos_left _ (by omega)
      have : (2 : Nat) ^ 32 < 2 ^ 33 := by decide
      omega
  obtain ⟨st', hrun, hbr⟩ := tailLoop_branch nil H2 (p := p) (leaf := xs[p]) 34 xs.length (lowBit xs.length 64 0)
    (top nil H2 (lowBit xs.length 64 0) B) (decide (st.matchlevel = lowBit xs.length 64 0)) st q P B
    (by omega) hl32 hPlen hlen32 hF' hBne (by omega) rfl hcnt
    (by intro _; rw [hB]; have := Nat.two_pow_pos (lowBit xs.length 64 0); omega)
    (by
      intro hm
      have hml : st.matchlevel = lowBit xs.length 64 0 := by simpa using hm
      have hin : InBlk p P.length (2 ^ lowBit xs.length 64 0) := by
        by_cases h : InBlk p P.length (2 ^ lowBit xs.length 64 0)
        · exact h
        · exact absurd hml (c2 h)
      rw [hB]
      exact ⟨hin, (c1 hin).2⟩)
    (by
      intro hm
      have hml : ¬ st.matchlevel = lowBit xs.length 64 0 := by simpa using hm
      rw [hB]
      exact fun hin => hml (c1 hin).1)
  rw [← hP] at hrun hbr
  simp only [hrun]
  exact ⟨_, rfl, hbr hp⟩

/-- non-vacuity: 5 leaves, position 4 (the odd one out whose branch repeats its own subtree). -/
example : GetMerkleBranch (0 : Nat) (fun a b => 2 * a + 3 * b + 1) [5, 6, 7, 8, 9] 4 = .ok [9, 46, 176] ∧
    GetMerkleRootFromBranch (fun a b => 2 * a + 3 * b + 1) [9, 46, 176] 9 4
      = getMerkleRoot 0 (fun a b => 2 * a + 3 * b + 1) [5, 6, 7, 8, 9] := by decide

/-- The child chains returned by `calcMultiLayer` tile the transaction list: consecutive,
non-empty ranges from 0 to `txs.length` — so every transaction lies in exactly one child chain. -/
theorem multilayer_tiles [DecidableEq β] (nil zero : β) (H2 : β → β → β) (ncpu : Nat)
    (txs : List (Bytes × β)) (r : β) (cs : List (Child β))
    (h : calcMultiLayer nil zero H2 ncpu txs = .ok (r, cs)) (hne : txs ≠ []) :
    Tiles (cs.map (fun c => (c.start, c.count))) 0 txs.length := by
  unfold calcMultiLayer at h
  have he : txs.isEmpty = false := by cases txs <;> simp_all
  simp only [he, Bool.false_eq_true, if_false] at h
  have hlen : txs.length = (txs.map (·.2)).length := by simp
  obtain ⟨e, rest, hcons⟩ : ∃ e rest, txs = e :: rest := by
    cases txs with
    | nil => exact absurd rfl hne
    | cons e rest => exact ⟨e, rest, rfl⟩
  obtain ⟨t0, tl, h0⟩ := childStarts_head e.1 (rest.map (·.1))
  have hok : StartsOK (childStarts (txs.map (·.1)) 0 []) 0 (txs.map (·.2)).length := by
    have := childStarts_ok (txs.map (·.1)) 0 []
    simpa using this
  have hexecs : txs.map (·.1) = e.1 :: rest.map (·.1) := by rw [hcons]; rfl
  rw [hexecs, h0] at h
  rw [hexecs, h0] at hok
  split at h
  · cases h
  · next t s hst =>
    cases hst
    split at h
    · cases h
    · cases h
      have : 0 < txs.length := List.length_pos_iff.mpr hne
      simp [Tiles]; omega
  · split at h
    · cases h
    · next cs' hcs' =>
      split at h
      · cases h
      · cases h
        rw [hlen] at hcs' ⊢
        exact childRoots_tiles nil H2 zero ncpu _ _ 0 cs hok hcs' t0 0 tl rfl

/-- `calcMultiLayer` cannot panic (a panic is a node crash) when no transaction hash is nil and
`GetHashFromTwoHash` returns nil only for a nil argument — true of every 32-byte hash. -/
theorem multilayer_total [DecidableEq β] (nil zero : β) (H2 : β → β → β) (ncpu : Nat)
    (txs : List (Bytes × β)) (hH : NilFree nil H2) (hleaf : ∀ t ∈ txs, t.2 ≠ nil) :
    ∃ r cs, calcMultiLayer nil zero H2 ncpu txs = .ok (r, cs) := by
  unfold calcMultiLayer
  by_cases he : txs.isEmpty = true
  · simp [he]
  · simp only [he, Bool.false_eq_true, if_false]
    have hne : txs ≠ [] := by intro h; rw [h] at he; simp at he
    have hnil : ∀ a ∈ txs.map (·.2), a ≠ nil := by
      intro a ha
      obtain ⟨t, ht, rfl⟩ := List.mem_map.mp ha
      exact hleaf t ht
    have hhs : txs.map (·.2) ≠ [] := by simpa using hne
    obtain ⟨e, rest, hcons⟩ : ∃ e rest, txs = e :: rest := by
      cases txs with
      | nil => exact absurd rfl hne
      | cons e rest => exact ⟨e, rest, rfl⟩
    obtain ⟨t0, tl, h0⟩ := childStarts_head e.1 (rest.map (·.1))
    have hok' : StartsOK (childStarts (txs.map (·.1)) 0 []) 0 (txs.map (·.2)).length := by
      have := childStarts_ok (txs.map (·.1)) 0 []
      simpa using this
    have hexecs : txs.map (·.1) = e.1 :: rest.map (·.1) := by rw [hcons]; rfl
    have hlen : txs.length = (txs.map (·.2)).length := by simp
    rw [hexecs, h0] at hok' ⊢
    split
    · next hc => cases hc
    · next t s hst =>
      rw [singleLayerRoot_total nil H2 hH zero ncpu _ hhs hnil]
      exact ⟨_, _, rfl⟩
    · next hs1 hs2 =>
      obtain ⟨cs, hrun, hcne, hclen, _⟩ := childRoots_total nil H2 hH zero ncpu _ hnil ((t0, 0) :: tl) 0 hok'
      rw [hlen, hrun]
      simp only
      have hcsne : cs.map (·.hash) ≠ [] := by
        intro h
        have := congrArg List.length h
        simp [hclen] at this
      have : GetMerkleRoot nil H2 ncpu (cs.map (·.hash)) ≠ nil := by
        rw [GetMerkleRoot_eq]
        apply root_ne_nil nil H2 hH _ hcsne
        intro a ha
        obtain ⟨c, hc, rfl⟩ := List.mem_map.mp ha
        exact hcne c hc
      rw [if_neg this]
      exact ⟨_, _, rfl⟩

/-- non-vacuity of `NilFree` (and of `multilayer_total`'s hypotheses): the toy hash never returns
the nil value 0. -/
example : NilFree (0 : Nat) (fun a b => 2 * a + 3 * b + 1) := fun a b _ _ => by
  show 2 * a + 3 * b + 1 ≠ 0; omega

/-- Multi-layer (child chain) roots, whatever the worker count: the top root is the sequential
root of the child-chain roots; every child root's branch verifies against the top root; every
transaction index lies in a child chain; every child root is the sequential root of its
transaction range, and the branch of every transaction of the range verifies against the child
root (the two-level proof of `getMultiLayerProofs`). With `multilayer_total` the hypothesis `h`
is discharged for non-nil hashes. -/
theorem multilayer_ok [DecidableEq β] (nil zero : β) (H2 : β → β → β) (ncpu : Nat)
    (txs : List (Bytes × β)) (r : β) (cs : List (Child β))
    (h : calcMultiLayer nil zero H2 ncpu txs = .ok (r, cs))
    (hne : txs ≠ []) (hlen : txs.length < 2 ^ 32) :
    r = getMerkleRoot nil H2 (cs.map (·.hash)) ∧
    (∀ (i : Nat) (hi : i < cs.length),
      ∃ b, GetMerkleBranch nil H2 (cs.map (·.hash)) i = .ok b ∧
        GetMerkleRootFromBranch H2 b cs[i].hash i = r) ∧
    (∀ i, i < txs.length → ∃ c ∈ cs, c.start ≤ i ∧ i < c.start + c.count ∧
      i - c.start < (((txs.map (·.2)).drop c.start).take c.count).length) ∧
    (∀ c ∈ cs, ∀ (j : Nat) (hj : j < (((txs.map (·.2)).drop c.start).take c.count).length),
      ∃ b, GetMerkleBranch nil H2 (((txs.map (·.2)).drop c.start).take c.count) j = .ok b ∧
        GetMerkleRootFromBranch H2 b (((txs.map (·.2)).drop c.start).take c.count)[j] j = c.hash) := by
  have htiles := multilayer_tiles nil zero H2 ncpu txs r cs h hne
  have hroot_and_ok : r = getMerkleRoot nil H2 (cs.map (·.hash)) ∧ ∀ c ∈ cs, ChildOK nil H2 (txs.map (·.2)) c := by
    unfold calcMultiLayer at h
    have he : txs.isEmpty = false := by cases txs <;> simp_all
    simp only [he, Bool.false_eq_true, if_false] at h
    split at h
    · cases h
    · next t s hst =>
      split at h
      · cases h
      · next r' hr' =>
        cases h
        have hhs : txs.map (·.2) ≠ [] := by simpa using hne
        have hr := singleLayerRoot_ok nil H2 zero ncpu _ r hr' hhs
        refine ⟨by simp [root_single], ?_⟩
        intro c hc
        simp only [List.mem_singleton] at hc
        subst hc
        have hs0 : s = 0 := by
          cases txs with
          | nil => exact absurd rfl hne
          | cons e rest =>
            obtain ⟨t0, tl, h0⟩ := childStarts_head e.1 (rest.map (·.1))
            simp only [List.map_cons] at hst
            rw [h0] at hst
            cases hst; rfl
        subst hs0
        intro _
        simp only [List.drop_zero]
        rw [List.take_of_length_le (by simp)]
        exact hr
    · next hs1 hs2 =>
      split at h
      · cases h
      · next cs' hcs' =>
        split at h
        · cases h
        · cases h
          exact ⟨GetMerkleRoot_eq nil H2 _ ncpu, childRoots_ok nil H2 zero ncpu _ _ _ _ hcs'⟩
  obtain ⟨hroot, hok⟩ := hroot_and_ok
  have hcslen : cs.length < 2 ^ 32 := by
    have := tiles_length_le _ _ _ htiles
    simp at this; omega
  refine ⟨hroot, ?_, ?_, ?_⟩
  · intro i hi
    have := branch_verifies nil H2 (cs.map (·.hash)) i (by simpa using hi) (by simpa using hcslen)
    obtain ⟨b, hb, hv⟩ := this
    exact ⟨b, hb, by rw [hroot, ← hv]; simp⟩
  · intro i hi
    obtain ⟨sc, hm, h1, h2⟩ := tiles_cover _ 0 txs.length i htiles (Nat.zero_le _) hi
    obtain ⟨c, hc, rfl⟩ := List.mem_map.mp hm
    refine ⟨c, hc, h1, h2, ?_⟩
    simp only [List.length_take, List.length_drop, List.length_map]
    simp only at h1 h2
    omega
  · intro c hc j hj
    have hne' : ((txs.map (·.2)).drop c.start).take c.count ≠ [] := by
      intro h0; rw [h0] at hj; simp at hj
    have hlen' : (((txs.map (·.2)).drop c.start).take c.count).length < 2 ^ 32 := by
      simp only [List.length_take, List.length_drop, List.length_map]; omega
    obtain ⟨b, hb, hv⟩ := branch_verifies nil H2 _ j hj hlen'
    exact ⟨b, hb, by rw [hok c hc hne']; exact hv⟩

/-- non-vacuity: one main-chain tx ("coins"), two of "user.p.a." and one of "user.p.b." give three
child chains (start, count) = (0,1), (1,2), (3,1) and a top root. -/
example :
    (match calcMultiLayer (0 : Nat) 1000 (fun a b => 2 * a + 3 * b + 1) 4
      [([99, 111, 105, 110, 115], 11),
       ([117, 115, 101, 114, 46, 112, 46, 97, 46, 99, 111, 105, 110, 115], 12),
       ([117, 115, 101, 114, 46, 112, 46, 97, 46, 116, 111, 107, 101, 110], 13),
       ([117, 115, 101, 114, 46, 112, 46, 98, 46, 99, 111, 105, 110, 115], 14)] with
     | .ok (r, cs) => some (r, cs.map (fun (c : Child Nat) => (c.start, c.count, c.hash)))
     | .panic => none) = some (644, [(0, 1, 11), (1, 2, 64), (3, 1, 14)]) := by decide

/-! ### binding -/

/-- `Computation` reports the list as mutated. NOTE: in /repo this return value is unused — every
caller discards it (`GetMerkleBranch`: `_, _, branchs :=`, `GetMerkleRootAndBranch`:
`roothash, _, branchs =`) and block validation computes the root with `GetMerkleRoot` /
`CalcMerkleRoot`, which have no mutation check. Theorems about `Flagged` are therefore facts about
`Computation` only; what actually rejects a duplicated-tail block is the duplicate-transaction
check (`binding_dupcheck` below). -/
def Flagged [DecidableEq β] (nil : β) (H2 : β → β → β) (xs : List β) : Prop :=
  ∃ r b, Computation nil H2 xs 1 0 = .ok (r, true, b)

/-- The duplicated-tail pattern exists: repeating the last leaf of an odd-length list (of at
least three leaves) does not change the root — this is why the `mutated` flag is needed. -/
theorem dup_tail_same_root (nil : β) (H2 : β → β → β) (P : List β) (a : β)
    (hP : P.length % 2 = 0) (hne : P ≠ []) :
    getMerkleRoot nil H2 (P ++ [a, a]) = getMerkleRoot nil H2 (P ++ [a]) := by
  have hpos : 0 < P.length := List.length_pos_iff.mpr hne
  rw [root_pairUp nil H2 (P ++ [a, a]) (by simp), root_pairUp nil H2 (P ++ [a]) (by simp; omega),
    pairUp_append_even H2 P _ hP, pairUp_append_even H2 P _ hP]
  rfl

/-- Completeness of the flag: whenever a list contains a duplicated sibling pair — two adjacent,
aligned, complete subtrees with equal roots, the only way (see `binding`) two different lists get
the same root without a hash collision — `Computation` returns `mutated = true`. -/
theorem mutated_complete [DecidableEq β] (nil : β) (H2 : β → β → β) (xs : List β)
    (hlen : xs.length < 2 ^ 32) (hdup : SibDup nil H2 xs) : Flagged nil H2 xs :=
  mutated_complete' nil H2 xs 1 0 hlen (by omega) hdup

/-- non-vacuity of `SibDup`: in [5,6,7,7] the blocks [7] and [7] at offset 2 are such a pair. -/
example : SibDup (0 : Nat) (fun a b => 2 * a + 3 * b + 1) [5, 6, 7, 7] :=
  ⟨0, [5, 6], [7], [7], [], by decide, by decide, by decide, by decide, by decide⟩

/-- Binding, structural form: two non-empty lists with the same root are identical, or one of
them contains a duplicated sibling pair (the duplicated-tail pattern), or `H2` has an explicit
collision, or a leaf equals an inner node value (leaves and inner nodes are not domain-separated
in merkle.go; stated explicitly, true of no known SHA-256 input). -/
theorem binding_pattern (nil : β) (H2 : β → β → β) (xs ys : List β) (hx : xs ≠ []) (hy : ys ≠ [])
    (h : getMerkleRoot nil H2 xs = getMerkleRoot nil H2 ys) :
    xs = ys ∨ SibDup nil H2 xs ∨ SibDup nil H2 ys ∨ Collision H2 ∨ LeafIsInner H2 xs ∨ LeafIsInner H2 ys :=
  binding_sem nil H2 xs ys hx hy h

/-- Binding: two non-empty transaction lists (fewer than 2^32 leaves) whose roots — computed with
any worker counts — are equal are identical, or `Computation` flags one of them as mutated, or
there is an explicit hash collision, or a leaf equals an inner node value. -/
theorem binding [DecidableEq β] (nil : β) (H2 : β → β → β) (xs ys : List β) (n₁ n₂ : Nat)
    (hx : xs ≠ []) (hy : ys ≠ []) (hlx : xs.length < 2 ^ 32) (hly : ys.length < 2 ^ 32)
    (h : GetMerkleRoot nil H2 n₁ xs = GetMerkleRoot nil H2 n₂ ys) :
    xs = ys ∨ Flagged nil H2 xs ∨ Flagged nil H2 ys ∨ Collision H2 ∨ LeafIsInner H2 xs ∨ LeafIsInner H2 ys := by
  rw [parallel_eq_seq, parallel_eq_seq] at h
  rcases binding_sem nil H2 xs ys hx hy h with h1 | h1 | h1 | h1
  · exact Or.inl h1
  · exact Or.inr (Or.inl (mutated_complete nil H2 xs hlx h1))
  · exact Or.inr (Or.inr (Or.inl (mutated_complete nil H2 ys hly h1)))
  · exact Or.inr (Or.inr (Or.inr h1))

/-- Binding over lists without repeated leaves: two non-empty duplicate-free lists with the same
root are identical, or `H2` has an explicit collision, or a leaf equals an inner value. (Every
duplicated sibling pair forces a repeated leaf: `dup_of_sibDup`.) -/
theorem binding_nodup (nil : β) (H2 : β → β → β) (xs ys : List β) (hx : xs ≠ []) (hy : ys ≠ [])
    (hdx : xs.Nodup) (hdy : ys.Nodup)
    (h : getMerkleRoot nil H2 xs = getMerkleRoot nil H2 ys) :
    xs = ys ∨ Collision H2 ∨ LeafIsInner H2 xs ∨ LeafIsInner H2 ys := by
  rcases binding_sem nil H2 xs ys hx hy h with h1 | h1 | h1 | h1 | h1
  · exact Or.inl h1
  · rcases dup_of_sibDup nil H2 xs h1 with h2 | h2
    · exact absurd hdx h2
    · exact Or.inr (Or.inl h2)
  · rcases dup_of_sibDup nil H2 ys h1 with h2 | h2
    · exact absurd hdy h2
    · exact Or.inr (Or.inl h2)
  · exact Or.inr (Or.inl h1)
  · exact Or.inr (Or.inr h1)

/-- Binding with the mechanism /repo really uses. `xs`, `ys` are the leaf lists of two blocks
(transaction hashes; after ForkRootHash full hashes, and equal full hashes mean equal
transactions hence equal transaction hashes). If the roots — computed with any worker counts —
are equal and the lists differ, then one of the two blocks fails the duplicate-transaction check
of `PreExecBlock` (`DelDupTx` shortens the list ⇒ `ErrTxDup` for a peer block), or there is an
explicit hash collision, or a leaf equals an inner value. -/
theorem binding_dupcheck [DecidableEq β] (nil : β) (H2 : β → β → β) (xs ys : List β) (n₁ n₂ : Nat)
    (hx : xs ≠ []) (hy : ys ≠ []) (hneq : xs ≠ ys)
    (h : GetMerkleRoot nil H2 n₁ xs = GetMerkleRoot nil H2 n₂ ys) :
    dupRejected xs = true ∨ dupRejected ys = true ∨ Collision H2 ∨ LeafIsInner H2 xs ∨ LeafIsInner H2 ys := by
  rw [parallel_eq_seq, parallel_eq_seq] at h
  by_cases hdx : xs.Nodup
  · by_cases hdy : ys.Nodup
    · rcases binding_nodup nil H2 xs ys hx hy hdx hdy h with h1 | h1
      · exact absurd h1 hneq
      · exact Or.inr (Or.inr h1)
    · exact Or.inr (Or.inl ((dupRejected_iff ys).mpr hdy))
  · exact Or.inl ((dupRejected_iff xs).mpr hdx)

/-- non-vacuity: the duplicated-tail list [5,6,7,7] has the root of [5,6,7] and is rejected by the
duplicate check, [5,6,7] is not. -/
example : dupRejected [5, 6, 7, 7] = true ∧ dupRejected [5, 6, 7] = false ∧ delDupTx [5, 7, 6, 7] = [5, 6, 7] := by
  decide

/-- non-vacuity: [5,6,7] and [5,6,7,7] are different lists with the same root, and the longer one
is flagged; the "hash" here is a toy function on `Nat`. -/
example : getMerkleRoot (0 : Nat) (fun a b => 2 * a + 3 * b + 1) [5, 6, 7]
      = getMerkleRoot 0 (fun a b => 2 * a + 3 * b + 1) [5, 6, 7, 7] ∧
    Computation (0 : Nat) (fun a b => 2 * a + 3 * b + 1) [5, 6, 7, 7] 1 0 = .ok (167, true, []) ∧
    Computation (0 : Nat) (fun a b => 2 * a + 3 * b + 1) [5, 6, 7] 1 0 = .ok (167, false, []) := by decide

end C18
